#!/bin/bash
# Runs every property's check (default quick) against /repo and prints one line each.
TIER=${1:-quick}
cd /verif
rc=0
for i in $(seq -w 1 20); do
  out=$(./check C$i --tier $TIER 2>&1); r=$?
  echo "$out" | grep -E "^\[C|^VIOLATION" | tr '\n' ' '; echo " exit=$r"
  [ $r -ne 0 ] && rc=1
done
exit $rc
