"""Translator: models/generated/*.py  ->  coq/theories/Generated.v   (Python `ast`, fail-closed).

For every `@internal.tree_model` class in the generated package it extracts what the class *says*:
declared fields (kind + separator texts), the field lists used by __init__, clone, _reattach, _eq,
the `or`-chains of first_token / last_token / every `_x_pivot`, the token layout of from_children,
the order of auto_claim_comments and the layout of iter_children_formatted. Any shape it does not
recognise raises TranslateError (the check then reports a broken tie).
GeneratedWf.v proves (vm_compute, finite domain = the classes extracted) that each class is an
instance of the generic scheme the theorems in Tree*.v are about.
"""
from __future__ import annotations

import ast
import os
import sys
from pathlib import Path

REPO = Path(os.environ.get('VERIF_REPO', '/repo'))
GEN_DIR = REPO / 'autobean_refactor' / 'models' / 'generated'
OUT = Path(os.environ.get('VERIF_ROOT', '/verif')) / 'coq' / 'theories' / 'Generated.v'

# default text of separator token classes (checked against the source by harness/c20.py at run time)
SEP_TEXT = {'Whitespace': ' ', 'Newline': '\n', 'Comma': ','}


class TranslateError(Exception):
    pass


def need(cond, msg, node=None):
    if not cond:
        where = f' (line {node.lineno})' if node is not None and hasattr(node, 'lineno') else ''
        raise TranslateError(msg + where)


def q(s: str) -> str:
    out = '"' + s.replace('"', '""') + '"'
    return out


def coq_string_list(xs) -> str:
    return '[' + '; '.join(q(x) for x in xs) + ']'


def sep_texts(node) -> list[str]:
    """(Whitespace.from_default(), Comma.from_default(), …) -> their default texts"""
    need(isinstance(node, ast.Tuple), 'separators must be a tuple literal', node)
    out = []
    for e in node.elts:
        need(isinstance(e, ast.Call) and isinstance(e.func, ast.Attribute) and e.func.attr == 'from_default'
             and isinstance(e.func.value, ast.Name) and e.func.value.id in SEP_TEXT and not e.args,
             'separator must be X.from_default() with X in Whitespace/Newline/Comma', e)
        out.append(SEP_TEXT[e.func.value.id])
    return out


def field_decl(value):
    """internal.required_field[T]() etc -> (kind, seps, seps_before) or None"""
    if not isinstance(value, ast.Call):
        return None
    f = value.func
    if isinstance(f, ast.Subscript):
        f = f.value
    if not (isinstance(f, ast.Attribute) and isinstance(f.value, ast.Name) and f.value.id == 'internal'):
        return None
    kind = f.attr
    kws = {k.arg: k.value for k in value.keywords}
    if kind == 'required_field':
        need(not kws and not value.args, 'required_field takes no arguments', value)
        return ('req', None, None)
    if kind in ('optional_left_field', 'optional_right_field'):
        need(set(kws) == {'separators'}, f'{kind} must have exactly separators=', value)
        return ('optl' if kind == 'optional_left_field' else 'optr', sep_texts(kws['separators']), None)
    if kind == 'repeated_field':
        need(set(kws) <= {'separators', 'separators_before'} and 'separators' in kws, 'repeated_field arguments', value)
        sb = sep_texts(kws['separators_before']) if 'separators_before' in kws else None
        return ('rep', sep_texts(kws['separators']), sb)
    if kind == 'data_field':
        return ('data', None, None)
    return None


def chain(expr) -> list[tuple[str, str, str]]:
    """a or b or c with a := self._f.X_token | (self._f and self._f.X_token)  ->  [(guard|plain, f, first|last)]"""
    alts = expr.values if isinstance(expr, ast.BoolOp) and isinstance(expr.op, ast.Or) else [expr]
    out = []
    for a in alts:
        guarded = False
        if isinstance(a, ast.BoolOp) and isinstance(a.op, ast.And):
            need(len(a.values) == 2, 'guard must be (self._f and self._f.x_token)', a)
            g, a2 = a.values
            need(isinstance(g, ast.Attribute) and isinstance(g.value, ast.Name) and g.value.id == 'self', 'guard shape', a)
            guarded = True
            gname = g.attr
            a = a2
        need(isinstance(a, ast.Attribute) and a.attr in ('first_token', 'last_token')
             and isinstance(a.value, ast.Attribute) and isinstance(a.value.value, ast.Name)
             and a.value.value.id == 'self', 'chain element must be self._f.first_token/last_token', a)
        if guarded:
            need(gname == a.value.attr, 'guard and access name differ', a)
        out.append(('guard' if guarded else 'plain', a.value.attr, 'first' if a.attr == 'first_token' else 'last'))
    return out


def single_return(fn) -> ast.expr:
    body = [s for s in fn.body if not (isinstance(s, ast.Expr) and isinstance(s.value, ast.Constant))]
    need(len(body) == 1 and isinstance(body[0], ast.Return) and body[0].value is not None,
         f'{fn.name} must be a single return', fn)
    return body[0].value


def type_self_field(node, method: str):
    """type(self)._f.<method>(…) -> '_f' or None"""
    if (isinstance(node, ast.Call) and isinstance(node.func, ast.Attribute) and node.func.attr == method
            and isinstance(node.func.value, ast.Attribute)
            and isinstance(node.func.value.value, ast.Call)
            and isinstance(node.func.value.value.func, ast.Name) and node.func.value.value.func.id == 'type'):
        return node.func.value.attr
    return None


def translate_class(cls: ast.ClassDef, mixin_fields: bool) -> dict:
    d: dict = {'name': cls.name, 'mixin': mixin_fields}
    fields: list[tuple[str, str, list[str] | None, list[str] | None]] = []
    data_fields: list[str] = []
    pivots: dict[str, list] = {}
    methods: dict[str, ast.FunctionDef] = {}
    rule = None
    inline = False
    for st in cls.body:
        if isinstance(st, ast.Assign) and len(st.targets) == 1 and isinstance(st.targets[0], ast.Name):
            name = st.targets[0].id
            if name == 'RULE':
                need(isinstance(st.value, ast.Constant) and isinstance(st.value.value, str), 'RULE must be a string', st)
                rule = st.value.value
            elif name == 'INLINE':
                need(isinstance(st.value, ast.Constant), 'INLINE must be a constant', st)
                inline = bool(st.value.value)
            else:
                fd = field_decl(st.value)
                if fd is not None:
                    if fd[0] == 'data':
                        data_fields.append(name)
                    else:
                        fields.append((name, fd[0], fd[1], fd[2]))
        elif isinstance(st, ast.FunctionDef):
            if st.name.endswith('_pivot'):
                # a pivot must be recomputed on every access (plain custom_property): a cached one goes stale as soon
                # as a neighbouring optional field appears or disappears
                decs = [ast.unparse(d) for d in st.decorator_list]
                need(decs == ['internal.custom_property'], f'{cls.name}.{st.name}: decorator must be internal.custom_property, found {decs}', st)
                pivots[st.name] = chain(single_return(st))
            else:
                methods[st.name] = st
    need(rule is not None, f'{cls.name}: no RULE')
    if mixin_fields:
        fields = [('_leading_comment', 'optr', ['\n'], None)] + fields + [('_trailing_comment', 'optl', ['\n'], None)]
    d.update(rule=rule, inline=inline, fields=fields, data=data_fields, pivots=pivots)
    for m in ('__init__', 'first_token', 'last_token', 'clone', '_reattach', '_eq', 'auto_claim_comments',
              'iter_children_formatted'):
        need(m in methods, f'{cls.name}: method {m} missing')
    fnames = [f[0] for f in fields]

    # __init__: self._x = param, in order; data fields as self.indent_by = indent_by
    init_fields, init_data = [], []
    init = methods['__init__']
    for st in init.body:
        if isinstance(st, ast.Expr):
            continue  # super().__init__(token_store)
        need(isinstance(st, ast.Assign) and len(st.targets) == 1 and isinstance(st.targets[0], ast.Attribute)
             and isinstance(st.targets[0].value, ast.Name) and st.targets[0].value.id == 'self'
             and isinstance(st.value, ast.Name), f'{cls.name}.__init__: unexpected statement', st)
        (init_fields if st.targets[0].attr.startswith('_') else init_data).append(st.targets[0].attr)
    params = [a.arg for a in init.args.args][2:]
    need(len(params) == len(init_fields), f'{cls.name}.__init__: parameters and assignments differ', init)
    d['init'], d['init_data'] = init_fields, init_data

    d['first'] = chain(single_return(methods['first_token']))
    d['last'] = chain(single_return(methods['last_token']))

    # clone: type(self)(token_store, type(self)._f.clone(self._f, token_store, token_transformer), …, indent_by=self.indent_by)
    c = single_return(methods['clone'])
    need(isinstance(c, ast.Call) and isinstance(c.func, ast.Call) and isinstance(c.func.func, ast.Name)
         and c.func.func.id == 'type', f'{cls.name}.clone shape', c)
    need(isinstance(c.args[0], ast.Name) and c.args[0].id == 'token_store', f'{cls.name}.clone first arg', c)
    cl = []
    for a in c.args[1:]:
        f = type_self_field(a, 'clone')
        need(f is not None and isinstance(a.args[0], ast.Attribute) and a.args[0].attr == f
             and [getattr(x, 'id', None) for x in a.args[1:]] == ['token_store', 'token_transformer'],
             f'{cls.name}.clone argument shape', a)
        cl.append(f)
    d['clone'] = cl
    ck = []
    for k in c.keywords:
        need(isinstance(k.value, ast.Attribute) and k.value.attr == k.arg, f'{cls.name}.clone keyword', c)
        ck.append(k.arg)
    d['clone_data'] = ck

    # _reattach
    ra, ra_store = [], False
    for st in methods['_reattach'].body:
        need(isinstance(st, ast.Assign) and len(st.targets) == 1 and isinstance(st.targets[0], ast.Attribute),
             f'{cls.name}._reattach statement', st)
        tgt = st.targets[0].attr
        if tgt == '_token_store':
            need(isinstance(st.value, ast.Name) and st.value.id == 'token_store', f'{cls.name}._reattach store', st)
            ra_store = True
            continue
        f = type_self_field(st.value, 'reattach')
        need(f == tgt and isinstance(st.value.args[0], ast.Attribute) and st.value.args[0].attr == f
             and [getattr(x, 'id', None) for x in st.value.args[1:]] == ['token_store', 'token_transformer'],
             f'{cls.name}._reattach assignment shape', st)
        ra.append(f)
    d['reattach'], d['reattach_store'] = ra, ra_store

    # _eq: isinstance(other, Cls) and self._f == other._f and … and self.indent_by == other.indent_by
    e = single_return(methods['_eq'])
    need(isinstance(e, ast.BoolOp) and isinstance(e.op, ast.And), f'{cls.name}._eq must be a conjunction', e)
    first = e.values[0]
    need(isinstance(first, ast.Call) and isinstance(first.func, ast.Name) and first.func.id == 'isinstance'
         and isinstance(first.args[1], ast.Name), f'{cls.name}._eq must start with isinstance', e)
    d['eq_isinstance'] = first.args[1].id
    eqf, eqd = [], []
    for v in e.values[1:]:
        need(isinstance(v, ast.Compare) and len(v.ops) == 1 and isinstance(v.ops[0], ast.Eq)
             and isinstance(v.left, ast.Attribute) and isinstance(v.comparators[0], ast.Attribute)
             and v.left.attr == v.comparators[0].attr and v.left.value.id == 'self'
             and v.comparators[0].value.id == 'other', f'{cls.name}._eq conjunct shape', v)
        (eqf if v.left.attr.startswith('_') else eqd).append(v.left.attr)
    d['eq'], d['eq_data'] = eqf, eqd

    # from_children token layout (optional method)
    lay = None
    if 'from_children' in methods:
        for st in methods['from_children'].body:
            if isinstance(st, ast.Assign) and isinstance(st.targets[0], ast.Name) and st.targets[0].id == 'tokens':
                need(isinstance(st.value, ast.List), f'{cls.name}.from_children tokens must be a list', st)
                lay = []
                for el in st.value.elts:
                    if isinstance(el, ast.Starred):
                        v = el.value
                        if (isinstance(v, ast.Call) and isinstance(v.func, ast.Attribute)
                                and v.func.attr == 'detach_with_separators'
                                and isinstance(v.func.value, ast.Attribute) and v.func.value.value.id == 'cls'):
                            lay.append(('seps', v.func.value.attr))
                        elif (isinstance(v, ast.Call) and isinstance(v.func, ast.Attribute) and v.func.attr == 'detach'
                              and isinstance(v.func.value, ast.Name)):
                            lay.append(('detach', v.func.value.id))
                        else:
                            need(False, f'{cls.name}.from_children starred element', el)
                    else:
                        need(isinstance(el, ast.Call) and isinstance(el.func, ast.Attribute)
                             and el.func.attr == 'from_default' and el.func.value.id in SEP_TEXT,
                             f'{cls.name}.from_children literal element', el)
                        lay.append(('lit', SEP_TEXT[el.func.value.id]))
    d['layout'] = lay

    # auto_claim_comments order
    claim = []
    for st in methods['auto_claim_comments'].body:
        need(isinstance(st, ast.Expr) and isinstance(st.value, ast.Call), f'{cls.name}.auto_claim statement', st)
        c2 = st.value
        f = type_self_field(c2, 'auto_claim_comments')
        if f is not None:
            claim.append(('field', f))
        elif (isinstance(c2.func, ast.Attribute) and isinstance(c2.func.value, ast.Name) and c2.func.value.id == 'self'
              and c2.func.attr in ('claim_leading_comment', 'claim_trailing_comment')):
            kws = {k.arg: getattr(k.value, 'value', None) for k in c2.keywords}
            need(kws == {'ignore_if_already_claimed': True}, f'{cls.name}.auto_claim self-claim keywords', st)
            claim.append(('self', c2.func.attr))
        elif (isinstance(c2.func, ast.Attribute) and c2.func.attr == 'auto_claim_comments'
              and isinstance(c2.func.value, ast.Attribute) and c2.func.value.value.id == 'self'):
            claim.append(('prop', c2.func.value.attr))
        else:
            need(False, f'{cls.name}.auto_claim statement shape', st)
    d['claim'] = claim

    # iter_children_formatted layout
    fmt = []
    for st in methods['iter_children_formatted'].body:
        need(isinstance(st, ast.Expr), f'{cls.name}.iter_children_formatted statement', st)
        v = st.value
        if isinstance(v, ast.YieldFrom):
            f = type_self_field(v.value, 'iter_children_formatted')
            need(f is not None and isinstance(v.value.args[1], ast.Constant), f'{cls.name}.iter_children_formatted yield from', st)
            fmt.append(('field', f, bool(v.value.args[1].value)))
        elif isinstance(v, ast.Yield):
            t = v.value
            need(isinstance(t, ast.Tuple) and isinstance(t.elts[0], ast.Call) and t.elts[0].func.attr == 'from_default'
                 and t.elts[0].func.value.id in SEP_TEXT, f'{cls.name}.iter_children_formatted yield', st)
            fmt.append(('lit', SEP_TEXT[t.elts[0].func.value.id], False))
        else:
            need(False, f'{cls.name}.iter_children_formatted statement shape', st)
    d['formatted'] = fmt
    return d


def is_tree_model(cls: ast.ClassDef) -> bool:
    for dec in cls.decorator_list:
        if isinstance(dec, ast.Attribute) and dec.attr == 'tree_model':
            return True
    return False


def extract_all() -> list[dict]:
    out = []
    files = sorted(p for p in GEN_DIR.glob('*.py') if p.name != '__init__.py')
    need(len(files) >= 30, f'only {len(files)} generated files found')
    for p in files:
        tree = ast.parse(p.read_text(), filename=str(p))
        found = False
        for node in tree.body:
            if isinstance(node, ast.ClassDef) and is_tree_model(node):
                bases = [ast.unparse(b) for b in node.bases]
                mixin = any('SurroundingCommentsMixin' in b for b in bases)
                try:
                    d = translate_class(node, mixin)
                except TranslateError as e:
                    raise TranslateError(f'{p.name}: {e}')
                d['file'] = p.name
                out.append(d)
                found = True
        need(found, f'{p.name}: no tree model class')
    return out


# ---- Coq rendering ------------------------------------------------------------------------------
def coq_fkind(kind, seps, sb) -> str:
    if kind == 'req':
        return 'FReq'
    if kind == 'optl':
        return f'(FOptL {coq_string_list(seps)})'
    if kind == 'optr':
        return f'(FOptR {coq_string_list(seps)})'
    sbs = 'None' if sb is None else f'(Some {coq_string_list(sb)})'
    return f'(FRep {coq_string_list(seps)} {sbs})'


def coq_chain(ch) -> str:
    return '[' + '; '.join(f'({"AGuard" if g == "guard" else "APlain"} {q(f)} {"SFirst" if s == "first" else "SLast"})'
                           for g, f, s in ch) + ']'


def render(classes: list[dict]) -> str:
    out = ['(* GENERATED by /verif/translate/gen.py from models/generated/*.py on every run. DO NOT EDIT. *)',
           'From AB Require Import Desc.', 'Open Scope string_scope.', '']
    names = []
    for d in classes:
        nm = 'c_' + d['name']
        names.append(nm)
        fields = '[' + '; '.join(f'mkfdesc {q(n)} {coq_fkind(k, s, sb)}' for n, k, s, sb in d['fields']) + ']'
        piv = '[' + '; '.join(f'({q(n)}, {coq_chain(c)})' for n, c in sorted(d['pivots'].items())) + ']'
        if d['layout'] is None:
            lay = 'None'
        else:
            lay = '(Some [' + '; '.join({'seps': 'LSeps', 'detach': 'LDetach', 'lit': 'LLit'}[k] + ' ' + q(v)
                                        for k, v in d['layout']) + '])'
        claim = '[' + '; '.join({'field': 'CField', 'self': 'CSelf', 'prop': 'CProp'}[k] + ' ' + q(v)
                                for k, v in d['claim']) + ']'
        fmt = '[' + '; '.join((f'FmtField {q(v)} {"true" if b else "false"}' if k == 'field' else f'FmtLit {q(v)}')
                              for k, v, b in d['formatted']) + ']'
        out.append(f'Definition {nm} : cdesc := mkcdesc {q(d["name"])} {q(d["rule"])} '
                   f'{"true" if d["inline"] else "false"} {"true" if d["mixin"] else "false"}\n'
                   f'  {fields}\n  {coq_string_list(d["data"])}\n'
                   f'  {coq_string_list(d["init"])} {coq_string_list(d["init_data"])}\n'
                   f'  {coq_string_list(d["clone"])} {coq_string_list(d["clone_data"])}\n'
                   f'  {coq_string_list(d["reattach"])} {"true" if d["reattach_store"] else "false"}\n'
                   f'  {q(d["eq_isinstance"])} {coq_string_list(d["eq"])} {coq_string_list(d["eq_data"])}\n'
                   f'  {coq_chain(d["first"])}\n  {coq_chain(d["last"])}\n  {piv}\n  {lay}\n  {claim}\n  {fmt}.\n')
    out.append('Definition classes : list cdesc := [' + '; '.join(names) + '].')
    return '\n'.join(out) + '\n'


def main(write: bool = True) -> tuple[bool, str]:
    try:
        classes = extract_all()
    except (TranslateError, SyntaxError, AttributeError, IndexError, KeyError) as e:
        return False, f'{type(e).__name__}: {e}'
    text = render(classes)
    if write and (not OUT.exists() or OUT.read_text() != text):
        OUT.write_text(text)
    return True, f'{len(classes)} classes'


if __name__ == '__main__':
    ok, msg = main()
    print(msg)
    sys.exit(0 if ok else 1)
