# setup: full .vo build of the Coq development from files on disk (offline)
.PHONY: setup clean
setup:
	PYTHONPATH=/repo:/verif /venv/bin/python -c "from harness import common; import sys; ok, log = common.coq_make(['all'], timeout=3000); print(log[-3000:]); sys.exit(0 if ok else 1)"
clean:
	cd coq && (test -f Makefile && $(MAKE) clean || true); rm -rf build
