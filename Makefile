# setup: full .vo build of the Coq development from files on disk (offline). A file that fails to build
# is reported here and again (as a broken proof obligation) by the check of the property it serves.
.PHONY: setup clean
setup:
	PYTHONPATH=/repo:/verif /venv/bin/python -c "from translate import gen; print(gen.main()); from harness import common; ok, log = common.coq_make(['all'], timeout=3400); print(log[-2500:]); print('SETUP', 'ok' if ok else 'with build errors (see above)')"
clean:
	cd coq && (test -f Makefile && $(MAKE) clean || true); rm -rf build
