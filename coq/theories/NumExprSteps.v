(* C19 model: the in-place arithmetic operators of NumberExpr, statement by statement
   (models/number_expr.py: _operand_type_check, _wrap_paren, _as_mul_expr, _as_atom_expr, NumberExpr._iaddsub,
   NumberExpr._imuldiv, __iadd__/__isub__/__imul__/__itruediv__; models/base.py: RawTreeModel.__deepcopy__,
   RawModel.detach).

   NumExpr.v models the same operators as PURE functions on trees: there no call is refused and nothing is written
   before the result exists.  Here the token store of the document is threaded through every statement, in the order
   of the source, and every function returns the store (and the left operand object) WRITTEN SO FAR together with
   the result, so that "what has the code written when it raises" is a statement about the model.

   No proofs here (NumExprStepsProofs.v).  Datatypes (tok, atom/mul/add, re/rm/ra, nexpr) are those of NumExpr.v.

   State.
     store  : list tok                    the token store the tokens of self's tree are in (a whole ledger file, for a
                                          posting's number)
     sref   : (index of self.first_token in the store, self._number_add_expr, is that store self._token_store?)
              the tokens of self are the `length (re tree)` tokens from that index on.
              s_owns = false: self is itself a spent expression - its tree was legally moved into another expression
              (receiver.raw_number_add_expr = self.raw_number_add_expr), the tree's tokens (and the tree nodes'
              token_store) are the RECEIVER's document, self._token_store is empty.
   The right operand is never written (only its deep copy is), so it is an argument only. *)
From AB Require Import Prelude NumExpr.

(* which code:
     VCode      - the code as it is (with fixes/number-expr-spent-left-operand.patch: _wrap_paren inserts through the
                  store of the NumberExpr the call came through);
     VWrapFirst - the seeded regression: self is wrapped in parentheses BEFORE the operand is copied;
     VAsFound   - the code as found: _wrap_paren inserts through add_expr.token_store, the store the tree node was last
                  attached to (for a spent left operand: the document of the expression that received its tree). *)
Inductive variant := VCode | VWrapFirst | VAsFound.

Record sref := SR { s_first : nat; s_tree : add; s_owns : bool }.

(* a NumberExpr object handed in as right operand:
   Spent  - its expression tree was (legally) moved into another expression: the object still points at the tree,
            but the tree's tokens are no longer in the object's own store;
   Live x - its tokens first_token..last_token are in its store (free-standing or inside any document). *)
Inductive eobj := Spent | Live (x : nexpr).

(* what a caller can write on the right of `+=` *)
Inductive soperand :=
| ONotNumber                               (* str, float, None, ...: neither int, Decimal nor NumberExpr *)
| ONaN                                     (* Decimal('NaN') / Decimal('sNaN') *)
| OScalar (neg : bool) (abs_text : str)    (* any other int / Decimal d: neg = (d < 0), abs_text = format(d.copy_abs(), 'f') *)
| OExpr (x : eobj).

(* decimal.InvalidOperation (an ArithmeticError) has no constructor in Prelude.exn; harness/common.exn_name maps every
   class outside Prelude.exn to ModelStuck, and so does the model *)
Definition InvalidOperation : exn := ModelStuck.

(* ---------------------------------------------------------------------------------------- *)
(* TokenStore.insert_before(tok at index i, l)  /  insert_after(tok at index i-1, l) *)
Definition insert_at (s : list tok) (i : nat) (l : list tok) : list tok := firstn i s ++ l ++ skipn i s.

(* NumberExpr.from_value(d) = _add_expr_from_value(d) in a fresh store (NumExpr.from_value with the scalar already
   split into sign and text of the absolute value) *)
Definition scalar_expr (neg : bool) (abs_text : str) : nexpr :=
  let number_token := Num abs_text in
  let atom_expr := if neg then Unary true [] number_token else number_token in
  NE [] (AMul (MAtom atom_expr)) [].

(* _operand_type_check.wrapped_op, up to the call of `op`:
     int -> Decimal -> NumberExpr.from_value (raises decimal.InvalidOperation on NaN: `value < 0`);
     anything that is not a NumberExpr by then: `return NotImplemented`, which the interpreter turns into TypeError
     (the fallbacks __add__/__radd__ go through the same wrapper / do not exist on the other side) *)
Definition coerce_operand (o : soperand) : res eobj :=
  match o with
  | ONotNumber => Err TypeError
  | ONaN => Err InvalidOperation
  | OScalar neg t => Ok (Live (scalar_expr neg t))
  | OExpr x => Ok x
  end.

(* copy.deepcopy(other) - RawTreeModel.__deepcopy__:
       for token in self._token_store.iter(self.first_token, self.last_token): ...   # ValueError: token is in another store
       token_store = TokenStore.from_tokens(tokens); return self.clone(token_store, ...)
   The copy lives alone in a new store: (store of the copy, its tree), first token at index 0. *)
Definition deepcopy_obj (o : eobj) : res (list tok * add) :=
  match o with
  | Spent => Err ValueError
  | Live x => Ok (re (body x), body x)
  end.

(* _wrap_paren(token_store, add_expr), add_expr's first token at index `first` of store s (the store the tokens are in):
       token_store.insert_before(add_expr.first_token, [left_paren])     # ValueError: token is in another store
       token_store.insert_after(add_expr.last_token, [right_paren])
       return NumberParenExpr(token_store, left_paren, add_expr, right_paren)
   `through_own` = is `token_store` the store s?  (the code as found used add_expr.token_store: always s) *)
Definition wrap_paren_st (through_own : bool) (s : list tok) (first : nat) (e : add) : res (list tok * atom) :=
  if through_own then
    let s1 := insert_at s first [TLp] in
    let s2 := insert_at s1 (first + 1 + length (re e)) [TRp] in
    Ok (s2, Paren [] e [])
  else Err ValueError.

(* _as_mul_expr(expr) *)
Definition as_mul_st (through_own : bool) (s : list tok) (first : nat) (e : add) : res (list tok * mul) :=
  if negb (add_has_ops e) then
    match e with
    | AMul m => Ok (s, m)                                                (* raw_operands[0] *)
    | AOp _ _ _ _ _ => Err ModelStuck                                    (* unreachable *)
    end
  else
    match wrap_paren_st through_own s first e with
    | Err x => Err x
    | Ok (s', paren_expr) => Ok (s', MAtom paren_expr)
    end.

(* _as_atom_expr(expr) *)
Definition as_atom_st (through_own : bool) (s : list tok) (first : nat) (e : add) : res (list tok * atom) :=
  match (if negb (add_has_ops e) then
           match e with
           | AMul m => if negb (mul_has_ops m)
                       then match m with MAtom a => Some a | MOp _ _ _ _ _ => None end
                       else None
           | AOp _ _ _ _ _ => None
           end
         else None) with
  | Some a => Ok (s, a)
  | None => wrap_paren_st through_own s first e
  end.

(* RawModel.detach of a node with `n` tokens whose first token is at index `first` of store s:
       if self.first_token is not store.get_first() or self.last_token is not store.get_last(): raise ValueError
       tokens = list(store); store.remove(...); return tokens *)
Definition detach_st (s : list tok) (first n : nat) : res (list tok) :=
  if (first =? 0)%nat && (first + n =? length s)%nat then Ok s else Err ValueError.

(* self.token_store.insert_after(<a token of self's tree>, ...): TokenStore._check_store_handle raises
   ValueError('Token is in another store.') when self._token_store is not the store of that token *)
Definition own_store_check (self : sref) : res unit := if s_owns self then Ok tt else Err ValueError.

(* ---------------------------------------------------------------------------------------- *)
(* NumberExpr._iaddsub(self, other, op) *)
Definition s_iaddsub (s : list tok) (self : sref) (other : eobj) (minus : bool) : list tok * sref * res unit :=
  match deepcopy_obj other with                                          (* other = copy.deepcopy(other) *)
  | Err e => (s, self, Err e)
  | Ok (os, oe) =>
    match as_mul_st true os 0 oe with                                    (* mul_expr = _as_mul_expr(other): in the copy's store *)
    | Err e => (s, self, Err e)
    | Ok (os1, mul_expr) =>
      match detach_st os1 0 (length (rm mul_expr)) with                  (* *mul_expr.detach() *)
      | Err e => (s, self, Err e)
      | Ok toks =>
        match own_store_check self with                                  (* self.token_store.insert_after(self.last_token, [...]) *)
        | Err e => (s, self, Err e)
        | Ok _ =>
          let s1 := insert_at s (s_first self + length (re (s_tree self)))
                              ([TWs SP; TAddOp minus; TWs SP] ++ toks) in
          (* mul_expr.reattach(self.token_store); self._number_add_expr = NumberAddExpr(operands + (mul_expr,), ops + (add_op,)) *)
          (s1, SR (s_first self) (AOp (s_tree self) SP minus SP mul_expr) (s_owns self), Ok tt)
        end
      end
    end
  end.

(* where the object `self` is after self_mul_expr = _as_mul_expr(self): its tree is not assigned yet, but when the
   parentheses went in, the tree's first token is one place further *)
Definition after_wrap (self : sref) : sref :=
  if add_has_ops (s_tree self) then SR (S (s_first self)) (s_tree self) (s_owns self) else self.

(* NumberExpr._imuldiv(self, other, op), after `self_mul_expr` (first token at index first_mul) and the copy `(os, oe)`
   of the operand exist *)
Definition s_imuldiv_tail (s1 : list tok) (self : sref) (first_mul : nat) (self_mul_expr : mul) (os : list tok) (oe : add)
    (div : bool) : list tok * sref * res unit :=
  match as_atom_st true os 0 oe with                                     (* atom_expr = _as_atom_expr(other): in the copy's store *)
  | Err e => (s1, self, Err e)
  | Ok (os1, atom_expr) =>
    match detach_st os1 0 (length (ra atom_expr)) with                   (* *atom_expr.detach() *)
    | Err e => (s1, self, Err e)
    | Ok toks =>
      match own_store_check self with                                    (* self.token_store.insert_after(self_mul_expr.last_token, [...]) *)
      | Err e => (s1, self, Err e)
      | Ok _ =>
        let s2 := insert_at s1 (first_mul + length (rm self_mul_expr))
                            ([TWs SP; TMulOp div; TWs SP] ++ toks) in
        (* atom_expr.reattach(...); self._number_add_expr = NumberAddExpr((NumberMulExpr(operands + (atom_expr,), ops + (mul_op,)),), ()) *)
        (s2, SR first_mul (AMul (MOp self_mul_expr SP div SP atom_expr)) (s_owns self), Ok tt)
      end
    end
  end.

(* through which store does _as_mul_expr(self) insert the parentheses: self's own (is it the one the tokens are in?),
   or - as found - add_expr.token_store (always the one the tokens are in) *)
Definition self_through_own (v : variant) (self : sref) : bool :=
  match v with VAsFound => true | _ => s_owns self end.

Definition s_imuldiv (v : variant) (s : list tok) (self : sref) (other : eobj) (div : bool) : list tok * sref * res unit :=
  match v with
  | VCode | VAsFound =>
    match deepcopy_obj other with                                        (* other = copy.deepcopy(other) *)
    | Err e => (s, self, Err e)
    | Ok (os, oe) =>
      match as_mul_st (self_through_own v self) s (s_first self) (s_tree self) with   (* self_mul_expr = _as_mul_expr(self) *)
      | Err e => (s, self, Err e)
      | Ok (s1, self_mul_expr) => s_imuldiv_tail s1 (after_wrap self) (s_first self) self_mul_expr os oe div
      end
    end
  | VWrapFirst =>
    match as_mul_st (self_through_own v self) s (s_first self) (s_tree self) with     (* self_mul_expr = _as_mul_expr(self) *)
    | Err e => (s, self, Err e)
    | Ok (s1, self_mul_expr) =>
      match deepcopy_obj other with                                      (* other = copy.deepcopy(other) *)
      | Err e => (s1, after_wrap self, Err e)
      | Ok (os, oe) => s_imuldiv_tail s1 (after_wrap self) (s_first self) self_mul_expr os oe div
      end
    end
  end.

(* __iadd__ / __isub__ / __imul__ / __itruediv__ below the type check (_iaddsub has no statement to reorder) *)
Definition s_inplace (v : variant) (k : binop) (s : list tok) (self : sref) (other : eobj) : list tok * sref * res unit :=
  match k with
  | OpAdd => s_iaddsub s self other false
  | OpSub => s_iaddsub s self other true
  | OpMul => s_imuldiv v s self other false
  | OpDiv => s_imuldiv v s self other true
  end.

(* the four in-place dunders as the caller sees them: `self OP= o` *)
Definition s_idunder (v : variant) (k : binop) (s : list tok) (self : sref) (o : soperand) : list tok * sref * res unit :=
  match coerce_operand o with
  | Err e => (s, self, Err e)
  | Ok other => s_inplace v k s self other
  end.

(* self sits in its store: the `length (re tree)` tokens from s_first on are the tokens of the tree *)
Definition attached (s : list tok) (self : sref) : Prop :=
  exists a b, s = a ++ re (s_tree self) ++ b /\ s_first self = length a.

(* the object of the pure model as (store, reference) *)
Definition store_of (x : nexpr) : list tok := store_toks x.
Definition sref_of (x : nexpr) : sref := SR (length (pre x)) (body x) true.
