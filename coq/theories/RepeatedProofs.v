(* Proofs about Repeated.v / Fields.v: store-lookup lemmas on duplicate-free token lists, the frame
   of _del_tokens / _insert_tokens / replace / create / remove, refusals. *)
From AB Require Import Prelude PySeq Repeated Fields.

Definition dft := mktok 0 KOther [].

(* ---- lists --------------------------------------------------------------------------------- *)
Lemma ids_app : forall a b, ids (a ++ b) = ids a ++ ids b.
Proof. intros; unfold ids; apply map_app. Qed.

Lemma nodup_mid_l : forall a t b, NoDup (ids (a ++ t :: b)) -> ~ In (tid t) (ids a).
Proof.
  intros a t b H. rewrite ids_app in H. simpl in H.
  apply NoDup_remove_2 in H. intro Hin. apply H. apply in_or_app. now left.
Qed.

Lemma nodup_mid_r : forall a t b, NoDup (ids (a ++ t :: b)) -> ~ In (tid t) (ids b).
Proof.
  intros a t b H. rewrite ids_app in H. simpl in H.
  apply NoDup_remove_2 in H. intro Hin. apply H. apply in_or_app. now right.
Qed.

Lemma nodup_app_r : forall a b, NoDup (ids (a ++ b)) -> NoDup (ids b).
Proof.
  induction a as [|x a IH]; simpl; intros b H; [exact H|].
  inversion H; subst. now apply IH.
Qed.

Lemma split_at_mid : forall a t b, ~ In (tid t) (ids a) -> split_at (tid t) (a ++ t :: b) = Some (a, t, b).
Proof.
  induction a as [|x a IH]; intros t b Hn; simpl.
  - now rewrite Z.eqb_refl.
  - simpl in Hn. destruct (tid x =? tid t) eqn:E.
    + apply Z.eqb_eq in E. exfalso. apply Hn. now left.
    + rewrite IH; [reflexivity|]. intro Hin. apply Hn. now right.
Qed.

Lemma last_opt_snoc : forall {A} (l : list A) x, last_opt (l ++ [x]) = Some x.
Proof.
  intros A l x. destruct l as [|y l]; simpl; [reflexivity|]. f_equal. apply last_last.
Qed.

Lemma last_snoc : forall {A} (l : list A) x d, last (l ++ [x]) d = x.
Proof. intros. apply last_last. Qed.

(* ---- store lookups on a duplicate-free list -------------------------------------------------- *)
Lemma get_prev_mid : forall a t b, ~ In (tid t) (ids a) ->
  st_get_prev (tid t) (a ++ t :: b) = Ok (option_map tid (last_opt a)).
Proof. intros. unfold st_get_prev. now rewrite split_at_mid. Qed.

Lemma get_next_mid : forall a t b, ~ In (tid t) (ids a) ->
  st_get_next (tid t) (a ++ t :: b) = Ok (option_map tid (hd_opt b)).
Proof. intros. unfold st_get_next. now rewrite split_at_mid. Qed.

Lemma insert_after_mid : forall a t b ts, ~ In (tid t) (ids a) -> guard ts (a ++ t :: b) = true ->
  st_insert_after (tid t) ts (a ++ t :: b) = Ok (a ++ t :: ts ++ b).
Proof. intros a t b ts Hn Hg. unfold st_insert_after. rewrite split_at_mid by exact Hn. now rewrite Hg. Qed.

Lemma insert_before_mid : forall a t b ts, ~ In (tid t) (ids a) -> guard ts (a ++ t :: b) = true ->
  st_insert_before (tid t) ts (a ++ t :: b) = Ok (a ++ ts ++ t :: b).
Proof. intros a t b ts Hn Hg. unfold st_insert_before. rewrite split_at_mid by exact Hn. now rewrite Hg. Qed.

(* splice(ts, first S, last S) on P ++ S ++ Q replaces exactly S *)
Lemma splice_span : forall P S Q ts,
  NoDup (ids (P ++ S ++ Q)) -> S <> [] -> guard ts (P ++ S ++ Q) = true ->
  st_splice ts (tid (hd dft S)) (tid (last S dft)) (P ++ S ++ Q) = Ok (P ++ ts ++ Q).
Proof.
  intros P S Q ts Hnd Hne Hg.
  destruct S as [|s0 S']; [congruence|]. clear Hne.
  unfold st_splice. cbn [hd].
  change (P ++ (s0 :: S') ++ Q) with (P ++ s0 :: (S' ++ Q)) in *.
  rewrite split_at_mid by (eapply nodup_mid_l; exact Hnd).
  rewrite Hg.
  destruct (exists_last (l := s0 :: S')) as [S'' [l El]]; [discriminate|].
  destruct S' as [|s1 S1].
  - cbn [last]. rewrite Z.eqb_refl. reflexivity.
  - assert (Hl : last (s0 :: s1 :: S1) dft = l) by (rewrite El; apply last_last).
    rewrite Hl.
    destruct S'' as [|x S2]; [discriminate|]. simpl in El. inversion El as [[Ex E2]]. subst x.
    assert (Hneq : tid s0 <> tid l).
    { pose proof (nodup_mid_r _ _ _ Hnd) as Hr. intro Heq. apply Hr.
      rewrite E2, ids_app, ids_app. apply in_or_app. left. apply in_or_app. right. simpl. now left. }
    destruct (tid s0 =? tid l) eqn:E; [apply Z.eqb_eq in E; contradiction|].
    rewrite E2. rewrite <- app_assoc. cbn [app].
    rewrite split_at_mid; [reflexivity|].
    assert (Hnd2 : NoDup (ids (S2 ++ l :: Q))).
    { apply (nodup_app_r (P ++ [s0])). rewrite <- app_assoc. cbn [app].
      replace (S2 ++ l :: Q) with ((s1 :: S1) ++ Q) by (rewrite E2, <- app_assoc; reflexivity). exact Hnd. }
    eapply nodup_mid_l; exact Hnd2.
Qed.

Lemma guard_nil : forall d, guard [] d = true.
Proof. reflexivity. Qed.

Lemma remove_span : forall P S Q,
  NoDup (ids (P ++ S ++ Q)) -> S <> [] ->
  st_remove (tid (hd dft S)) (tid (last S dft)) (P ++ S ++ Q) = Ok (P ++ Q).
Proof. intros. unfold st_remove. now rewrite splice_span. Qed.

(* ---- _del_tokens: both branches, on a document given with the deleted span exposed -------------- *)
(* else-branch: del_tokens_else, at the end of this file (it needs the lemmas about glued neighbours) *)

(* if-branch (start = 0 and items remain after stop): removes items[0].first .. get_prev(items[stop].first);
   the separators before the first item stay, the ones before the next surviving item go *)
Lemma del_tokens_first : forall ph (items : list item) P S n Q stop (it_s it_n : item),
  NoDup (ids (P ++ S ++ n :: Q)) -> S <> [] -> 0 < stop -> stop < zlen items ->
  list_get_int items 0 = Ok it_s -> fst it_s = tid (hd dft S) ->
  list_get_int items stop = Ok it_n -> fst it_n = tid n ->
  del_tokens ph (P ++ S ++ n :: Q) items 0 stop = (P ++ n :: Q, Ok tt).
Proof.
  intros ph items P S n Q stop it_s it_n Hnd Hne Hpos Hlt Hs Hfs Hn Hfn.
  unfold del_tokens.
  destruct (stop <=? 0) eqn:E1; [apply Z.leb_le in E1; lia|].
  assert (Hb : (0 =? 0) && (stop <? zlen items) = true) by (apply andb_true_iff; split; [reflexivity|apply Z.ltb_lt; lia]).
  rewrite Hb, Hs, Hn, Hfn.
  replace (P ++ S ++ n :: Q) with ((P ++ S) ++ n :: Q) by (rewrite <- app_assoc; reflexivity).
  rewrite get_prev_mid by (eapply nodup_mid_l; rewrite <- app_assoc; exact Hnd).
  destruct (exists_last Hne) as [S' [l El]]. subst S.
  rewrite app_assoc, last_opt_snoc. cbn [option_map].
  rewrite Hfs.
  replace (((P ++ S') ++ [l]) ++ n :: Q) with (P ++ (S' ++ [l]) ++ n :: Q)
    by (repeat rewrite <- app_assoc; reflexivity).
  replace (tid l) with (tid (last (S' ++ [l]) dft)) by (now rewrite last_last).
  rewrite remove_span; [reflexivity|exact Hnd|].
  destruct S'; discriminate.
Qed.

(* ---- _insert_tokens with one value: the three separator branches -------------------------------- *)
Lemma mk_seps_app_kind : forall seps fr, map tkind (mk_seps fr seps) = map fst seps.
Proof. induction seps as [|[k s] r IH]; intros fr; simpl; [reflexivity|]. now rewrite IH. Qed.

(* index > 0 : separators ++ value after the last token of the preceding item *)
Lemma insert_tokens_after : forall ph seps sepsb (items : list item) P p Q index v length sbl fr,
  NoDup (ids (P ++ p :: Q)) -> index <> 0 ->
  prev_last ph items index = Ok (tid p) -> detachable v = true ->
  guard (mk_seps fr seps ++ d_store v) (P ++ p :: Q) = true ->
  insert_tokens ph seps sepsb (P ++ p :: Q) items index [v] length sbl fr =
    (P ++ p :: (mk_seps fr seps ++ d_store v) ++ Q,
     [mkdonor (d_node v) [] (d_first v) (d_last v)], fr + nseps seps, Ok tt).
Proof.
  intros ph seps sepsb items P p Q index v length sbl fr Hnd Hidx Hpl Hdet Hg.
  unfold insert_tokens. rewrite Hpl. cbn [ins_loop].
  assert (E : negb (index =? 0) = true) by (apply negb_true_iff, Z.eqb_neq; exact Hidx).
  rewrite E. cbn [orb]. unfold detach. rewrite Hdet.
  cbn [a_toks a_ref a_sbl a_fr a_done app].
  rewrite insert_after_mid; [reflexivity| eapply nodup_mid_l; exact Hnd | exact Hg].
Qed.

(* index = 0, list stays non-empty: value ++ separators after the token before the first item *)
Lemma insert_tokens_front : forall ph seps sepsb (items : list item) P s n Q v length fr (it0 : item),
  NoDup (ids (P ++ s :: n :: Q)) -> length <> 0 ->
  list_get_int items 0 = Ok it0 -> fst it0 = tid n -> detachable v = true ->
  guard (d_store v ++ mk_seps fr seps) (P ++ s :: n :: Q) = true ->
  insert_tokens ph seps sepsb (P ++ s :: n :: Q) items 0 [v] length None fr =
    (P ++ s :: (d_store v ++ mk_seps fr seps) ++ n :: Q,
     [mkdonor (d_node v) [] (d_first v) (d_last v)], fr + nseps seps, Ok tt).
Proof.
  intros ph seps sepsb items P s n Q v length fr it0 Hnd Hlen Hget Hfst Hdet Hg.
  unfold insert_tokens, prev_last. cbn [Z.ltb Z.compare ins_loop Z.eqb negb orb andb].
  assert (E : negb (length =? 0) = true) by (apply negb_true_iff, Z.eqb_neq; exact Hlen).
  rewrite E. unfold detach. rewrite Hdet. cbn [a_sbl a_toks a_ref a_fr a_done app].
  rewrite Hget, Hfst.
  replace (P ++ s :: n :: Q) with ((P ++ [s]) ++ n :: Q) by (rewrite <- app_assoc; reflexivity).
  rewrite get_prev_mid by (eapply nodup_mid_l; rewrite <- app_assoc; exact Hnd).
  rewrite last_opt_snoc. cbn [option_map a_toks a_ref a_fr a_done].
  rewrite <- app_assoc. cbn [app].
  rewrite insert_after_mid; [reflexivity| eapply nodup_mid_l; exact Hnd | exact Hg].
Qed.

(* index = 0 into an empty list: separators_before ++ value after the placeholder *)
Lemma insert_tokens_empty : forall seps sepsb items P pht Q v sbl fr,
  NoDup (ids (P ++ pht :: Q)) -> detachable v = true ->
  guard (mk_seps fr sepsb ++ d_store v) (P ++ pht :: Q) = true ->
  insert_tokens (tid pht) seps sepsb (P ++ pht :: Q) items 0 [v] 0 sbl fr =
    (P ++ pht :: (mk_seps fr sepsb ++ d_store v) ++ Q,
     [mkdonor (d_node v) [] (d_first v) (d_last v)], fr + nsepsb sepsb, Ok tt).
Proof.
  intros seps sepsb items P pht Q v sbl fr Hnd Hdet Hg.
  unfold insert_tokens, prev_last. cbn [Z.ltb Z.compare ins_loop Z.eqb negb orb andb].
  unfold detach. rewrite Hdet. cbn [a_toks a_ref a_sbl a_fr a_done app].
  rewrite insert_after_mid; [reflexivity| eapply nodup_mid_l; exact Hnd | exact Hg].
Qed.

(* ---- refusals ----------------------------------------------------------------------------------- *)
Lemma detach_refused : forall v, detachable v = false -> detach v = Err ValueError.
Proof. intros v H. unfold detach. now rewrite H. Qed.

Lemma check_detachable_refuses : forall vs seen,
  existsb (fun v => negb (detachable v)) vs = true -> check_detachable seen vs = Err ValueError.
Proof.
  induction vs as [|v r IH]; intros seen H; simpl in *; [discriminate|].
  destruct (zmem (d_node v) seen); [reflexivity|]. cbn [orb].
  destruct (detachable v); cbn [negb orb] in *; [now apply IH|reflexivity].
Qed.

Lemma check_detachable_ok : forall vs seen, check_detachable seen vs = Ok tt ->
  forallb detachable vs = true.
Proof.
  induction vs as [|v r IH]; intros seen H; simpl in *; [reflexivity|].
  destruct (zmem (d_node v) seen); [discriminate|]. cbn [orb] in H.
  destruct (detachable v); cbn [negb] in H; [|discriminate]. cbn [andb]. eapply IH; exact H.
Qed.

(* the loop of _insert_tokens never touches the document, and once every value is detachable it
   cannot be refused by detach *)
Lemma insert_tokens_err_doc : forall ph seps sepsb d items index vs length sbl fr d' dl fr' e,
  insert_tokens ph seps sepsb d items index vs length sbl fr = (d', dl, fr', Err e) -> d' = d.
Proof.
  intros until e. unfold insert_tokens.
  destruct (prev_last ph items index); [|intro H; inversion H; reflexivity].
  destruct (ins_loop _ _ _ _ _ _ _ _ _) as [[acc lft] [u|e']].
  - destruct (st_insert_after _ _ _); intro H; inversion H; reflexivity.
  - intro H; inversion H; reflexivity.
Qed.

Lemma del_tokens_err_doc : forall ph d items a b d' e, del_tokens ph d items a b = (d', Err e) -> d' = d.
Proof.
  intros ph d items a b d' e. unfold del_tokens.
  destruct (b <=? a); [intro H; inversion H|].
  destruct ((a =? 0) && (b <? zlen items)).
  - destruct (list_get_int items a); destruct (list_get_int items b); try (intro H; inversion H; reflexivity).
    destruct (st_get_prev _ _) as [[t|]|]; try (intro H; inversion H; reflexivity).
    destruct (st_remove _ _ _); intro H; inversion H; reflexivity.
  - destruct (prev_last _ _ _); try (intro H; inversion H; reflexivity).
    destruct (st_get_next _ _) as [[t|]|]; try (intro H; inversion H; reflexivity).
    destruct (list_get_int _ _); try (intro H; inversion H; reflexivity).
    cbv zeta.
    destruct (list_get_int _ _); try (intro H; inversion H; reflexivity).
    destruct (_ && _).
    + destruct (split_at _ _) as [[[? ?] after]|]; try (intro H; inversion H; reflexivity).
      destruct (touches_next after).
      * destruct (st_get_prev _ _) as [[g|]|]; try (intro H; inversion H; reflexivity).
        destruct (st_remove _ _ _); intro H; inversion H; reflexivity.
      * destruct (st_remove _ _ _); intro H; inversion H; reflexivity.
    + destruct (st_remove _ _ _); intro H; inversion H; reflexivity.
Qed.

(* single-value mutators: a refusal by detach (the only Python-level refusal once the index is
   valid) leaves document, items and donor untouched *)
Lemma insert_tokens_one_refused : forall ph seps sepsb d items index v length sbl fr,
  detachable v = false ->
  (exists r, prev_last ph items index = Ok r) ->
  exists fr', insert_tokens ph seps sepsb d items index [v] length sbl fr = (d, [v], fr', Err ValueError).
Proof.
  intros ph seps sepsb d items index v length sbl fr Hd [r Hr].
  unfold insert_tokens. rewrite Hr. cbn [ins_loop]. unfold detach. rewrite Hd.
  destruct (negb (index =? 0) || negb (0 =? 0) && (length =? 0)); [eexists; reflexivity|].
  destruct (negb (length =? 0)); eexists; reflexivity.
Qed.

Lemma setitem_int_atomic : forall s index same v s' dl e,
  guard (d_store v) (s_doc s) = true ->
  (forall it, list_get_int (s_items s) index = Ok it ->
     exists P S Q, s_doc s = P ++ S ++ Q /\ S <> [] /\ NoDup (ids (s_doc s)) /\
                   fst it = tid (hd dft S) /\ snd it = tid (last S dft)) ->
  setitem_int s index same v = (s', dl, Err e) -> s' = s /\ dl = [v].
Proof.
  intros s index same v s' dl e Hg Hlay. unfold setitem_int.
  destruct (list_get_int (s_items s) index) as [it|e0] eqn:Eg; [|intro H; inversion H; auto].
  destruct same; [intro H; inversion H|].
  unfold detach. destruct (detachable v); [|intro H; inversion H; auto].
  destruct (Hlay it eq_refl) as [P [S [Q [Ed [Hne [Hnd [Hf Hl]]]]]]].
  rewrite Hf, Hl, Ed. rewrite splice_span; [| rewrite <- Ed; exact Hnd | exact Hne | rewrite <- Ed; exact Hg].
  unfold list_set_int. unfold list_get_int in Eg.
  destruct (norm_index (zlen (s_items s)) index); [|discriminate].
  intro H; inversion H.
Qed.

Lemma setitem_int_refused : forall s index v it, detachable v = false ->
  list_get_int (s_items s) index = Ok it -> setitem_int s index false v = (s, [v], Err ValueError).
Proof. intros s index v it Hd Hg. unfold setitem_int. now rewrite Hg, detach_refused. Qed.

Lemma extend_refused : forall ph seps sepsb s vs fr,
  existsb (fun v => negb (detachable v)) vs = true ->
  extend ph seps sepsb s vs fr = (s, vs, Err ValueError).
Proof. intros. unfold extend. now rewrite check_detachable_refuses. Qed.

Lemma setitem_slice_refused : forall ph seps sepsb s sl vs fr,
  existsb (fun v => negb (detachable v)) vs = true ->
  exists e, setitem_slice ph seps sepsb s sl vs fr = (s, vs, Err e).
Proof.
  intros. unfold setitem_slice.
  destruct (range_from_index _ _); [|eexists; reflexivity].
  rewrite check_detachable_refuses by assumption. eexists; reflexivity.
Qed.

(* phase 1 of the batch mutators (everything before the first store write) is atomic *)
Lemma extend_atomic : forall ph seps sepsb s vs fr s' dl e,
  extend ph seps sepsb s vs fr = (s', dl, Err e) -> s' = s.
Proof.
  intros until e. unfold extend.
  destruct (check_detachable [] vs); [|intro H; inversion H; reflexivity].
  destruct (insert_tokens _ _ _ _ _ _ _ _ _ _) as [[[d' dl'] fr'] [u|e']] eqn:E; intro H; inversion H; subst.
  apply insert_tokens_err_doc in E. subst. destruct s; reflexivity.
Qed.

Lemma insert_atomic : forall ph seps sepsb s i v fr s' dl e,
  insert ph seps sepsb s i v fr = (s', dl, Err e) -> s' = s.
Proof.
  intros until e. unfold insert.
  destruct (insert_tokens _ _ _ _ _ _ _ _ _ _) as [[[d' dl'] fr'] [u|e']] eqn:E; intro H; inversion H; subst.
  apply insert_tokens_err_doc in E. subst. destruct s; reflexivity.
Qed.

Lemma append_atomic : forall ph seps sepsb s v fr s' dl e,
  append ph seps sepsb s v fr = (s', dl, Err e) -> s' = s.
Proof.
  intros until e. unfold append.
  destruct (insert_tokens _ _ _ _ _ _ _ _ _ _) as [[[d' dl'] fr'] [u|e']] eqn:E; intro H; inversion H; subst.
  apply insert_tokens_err_doc in E. subst. destruct s; reflexivity.
Qed.

Lemma clear_atomic : forall ph s s' dl e, clear ph s = (s', dl, Err e) -> s' = s.
Proof.
  intros until e. unfold clear.
  destruct (del_tokens _ _ _ _ _) as [d' [u|e']] eqn:E; intro H; inversion H; subst.
  apply del_tokens_err_doc in E. subst. destruct s; reflexivity.
Qed.

Lemma pop_atomic : forall ph s i s' dl e, pop ph s i = (s', dl, Err e) ->
  (forall x, list_get_int (s_items s) i = Ok x -> exists y, list_pop (s_items s) i = Ok y) -> s' = s.
Proof.
  intros ph s i s' dl e. unfold pop. intros H Hpop.
  destruct (list_get_int (s_items s) i) as [it|e0] eqn:Eg; [|inversion H; reflexivity].
  destruct (range_from_index _ _); [|inversion H; reflexivity].
  destruct (del_tokens _ _ _ _ _) as [d' [u|e']] eqn:E.
  - destruct (Hpop it eq_refl) as [[y1 y2] Hy]. rewrite Hy in H. inversion H.
  - inversion H; subst. apply del_tokens_err_doc in E. subst. destruct s; reflexivity.
Qed.

(* ---- Fields ------------------------------------------------------------------------------------ *)
Lemma replace_node_frame : forall P S Q cur v,
  NoDup (ids (P ++ S ++ Q)) -> S <> [] -> fst cur = tid (hd dft S) -> snd cur = tid (last S dft) ->
  detachable v = true -> guard (d_store v) (P ++ S ++ Q) = true ->
  replace_node (P ++ S ++ Q) cur false v =
    (P ++ d_store v ++ Q, [mkdonor (d_node v) [] (d_first v) (d_last v)], Ok tt).
Proof.
  intros P S Q cur v Hnd Hne Hf Hl Hd Hg. unfold replace_node, detach. rewrite Hd, Hf, Hl.
  now rewrite splice_span.
Qed.

Lemma replace_node_atomic : forall d cur same v d' dl e,
  replace_node d cur same v = (d', dl, Err e) -> d' = d.
Proof.
  intros until e. unfold replace_node. destruct same; [intro H; inversion H|].
  destruct (detach v) as [[ts v']|e0]; [|intro H; inversion H; reflexivity].
  destruct (st_splice _ _ _ _); intro H; inversion H; reflexivity.
Qed.

Lemma replace_node_refused : forall d cur v, detachable v = false ->
  replace_node d cur false v = (d, [v], Err ValueError).
Proof. intros. unfold replace_node. now rewrite detach_refused. Qed.

Lemma create_node_refused : forall sd seps d pivot v fr, detachable v = false ->
  create_node sd seps d pivot v fr = (d, [v], Err ValueError).
Proof. intros. unfold create_node. now rewrite detach_refused. Qed.

Lemma create_node_atomic : forall sd seps d pivot v fr d' dl e,
  create_node sd seps d pivot v fr = (d', dl, Err e) -> d' = d.
Proof.
  intros until e. unfold create_node.
  destruct (detach v) as [[ts v']|e0]; [|intro H; inversion H; reflexivity].
  destruct sd; [destruct (st_insert_after _ _ _)|destruct (st_insert_before _ _ _)]; intro H; inversion H; reflexivity.
Qed.

Lemma remove_node_atomic : forall sd d pivot cur d' e, remove_node sd d pivot cur = (d', Err e) -> d' = d.
Proof.
  intros until e. unfold remove_node. cbv zeta. destruct sd.
  - destruct (st_get_next _ _) as [[t|]|]; try (intro H; inversion H; reflexivity).
    destruct (t =? fst cur).
    + destruct (st_remove _ _ _); intro H; inversion H; reflexivity.
    + destruct (split_at _ _) as [[[a x] b]|]; [|intro H; inversion H; reflexivity].
      destruct (st_remove _ _ _); intro H; inversion H; reflexivity.
  - destruct (st_get_prev _ _) as [[t|]|]; try (intro H; inversion H; reflexivity).
    destruct (t =? snd cur).
    + destruct (st_remove _ _ _); intro H; inversion H; reflexivity.
    + destruct (split_at _ _) as [[[a x] b]|]; [|intro H; inversion H; reflexivity].
      destruct (st_remove _ _ _); intro H; inversion H; reflexivity.
Qed.

Lemma optional_set_atomic : forall sd seps s pivot same value fr s' dl e,
  optional_set sd seps s pivot same value fr = (s', dl, Err e) -> s' = s.
Proof.
  intros until e. unfold optional_set. destruct s as [d cur]. cbn [sl_cur sl_doc].
  destruct cur as [c|]; destruct value as [v|].
  - destruct (replace_node _ _ _ _) as [[d' dl'] [u|e']] eqn:E; intro H; inversion H; subst.
    apply replace_node_atomic in E. now subst.
  - destruct (remove_node _ _ _ _) as [d' [u|e']] eqn:E; intro H; inversion H; subst.
    apply remove_node_atomic in E. now subst.
  - destruct (create_node _ _ _ _ _ _) as [[d' dl'] [u|e']] eqn:E; intro H; inversion H; subst.
    apply create_node_atomic in E. now subst.
  - intro H; inversion H.
Qed.

Lemma required_set_atomic : forall s same v s' dl e, required_set s same v = (s', dl, Err e) -> s' = s.
Proof.
  intros until e. unfold required_set. destruct s as [d cur]. cbn [sl_cur sl_doc].
  destruct cur as [c|]; [|intro H; inversion H; reflexivity].
  destruct (replace_node _ _ _ _) as [[d' dl'] [u|e']] eqn:E; intro H; inversion H; subst.
  apply replace_node_atomic in E. now subst.
Qed.

(* optional left: create after the pivot / remove up to the child's last token *)
Lemma create_left_frame : forall seps P p Q v fr,
  NoDup (ids (P ++ p :: Q)) -> detachable v = true ->
  guard (mk_seps fr seps ++ d_store v) (P ++ p :: Q) = true ->
  create_node SLeft seps (P ++ p :: Q) (tid p) v fr =
    (P ++ p :: (mk_seps fr seps ++ d_store v) ++ Q, [mkdonor (d_node v) [] (d_first v) (d_last v)], Ok tt).
Proof.
  intros. unfold create_node, detach. rewrite H0.
  rewrite insert_after_mid; [reflexivity|eapply nodup_mid_l; eassumption|assumption].
Qed.

Lemma create_right_frame : forall seps P p Q v fr,
  NoDup (ids (P ++ p :: Q)) -> detachable v = true ->
  guard (d_store v ++ mk_seps fr seps) (P ++ p :: Q) = true ->
  create_node SRight seps (P ++ p :: Q) (tid p) v fr =
    (P ++ (d_store v ++ mk_seps fr seps) ++ p :: Q, [mkdonor (d_node v) [] (d_first v) (d_last v)], Ok tt).
Proof.
  intros. unfold create_node, detach. rewrite H0.
  rewrite insert_before_mid; [reflexivity|eapply nodup_mid_l; eassumption|assumption].
Qed.

(* the tokens of G (between the pivot and the child) stay exactly when the child touches what lies on its other
   side; `touch` = _touches(...) evaluated on that side *)
Lemma list_eq_dec_nil : forall {A} (l : list A), {l = []} + {l <> []}.
Proof. intros A [|x l]; [left; reflexivity|right; discriminate]. Qed.

Lemma nodup_ids_neq : forall A x B y C, NoDup (ids (A ++ x :: B ++ y :: C)) -> tid x <> tid y.
Proof.
  intros A x B y C H E. apply nodup_mid_r in H. apply H. rewrite ids_app. apply in_or_app. right. left. now symmetry.
Qed.

Lemma remove_left_frame : forall P p G X Q cur,
  NoDup (ids (P ++ p :: G ++ X ++ Q)) -> X <> [] -> fst cur = tid (hd dft X) -> snd cur = tid (last X dft) ->
  remove_node SLeft (P ++ p :: G ++ X ++ Q) (tid p) cur =
    (P ++ p :: (if touches true Q then G else []) ++ Q, Ok tt).
Proof.
  intros P p G X Q cur Hnd Hne Hf Hl. unfold remove_node. cbv zeta.
  rewrite get_next_mid by (eapply nodup_mid_l; exact Hnd).
  destruct G as [|g0 G'].
  - (* no separators: first is current.first_token *)
    destruct X as [|x0 X']; [congruence|]. cbn [app hd_opt option_map]. rewrite Hf. cbn [hd]. rewrite Z.eqb_refl.
    rewrite Hl. change (tid x0) with (tid (hd dft (x0 :: X'))).
    change (P ++ p :: x0 :: X' ++ Q) with (P ++ [p] ++ (x0 :: X') ++ Q). rewrite (app_assoc P [p]).
    rewrite remove_span; [|rewrite <- app_assoc; exact Hnd|discriminate].
    rewrite <- app_assoc. destruct (touches true Q); reflexivity.
  - cbn [app hd_opt option_map].
    destruct (exists_last Hne) as [X' [l El]].
    assert (Hlast : last X dft = l) by (rewrite El; apply last_last).
    assert (Hneq : tid g0 =? fst cur = false).
    { apply Z.eqb_neq. rewrite Hf. destruct X as [|x0 X0]; [congruence|]. cbn [hd].
      apply (nodup_ids_neq (P ++ [p]) g0 G' x0 (X0 ++ Q)). rewrite <- app_assoc. exact Hnd. }
    rewrite Hneq.
    assert (Esp : split_at (snd cur) (P ++ p :: (g0 :: G') ++ X ++ Q) = Some (P ++ p :: (g0 :: G') ++ X', l, Q)).
    { rewrite Hl, Hlast, El.
      replace (P ++ p :: (g0 :: G') ++ (X' ++ [l]) ++ Q) with ((P ++ p :: (g0 :: G') ++ X') ++ l :: Q)
        by (repeat (rewrite <- app_assoc; cbn [app]); reflexivity).
      apply split_at_mid. eapply nodup_mid_l.
      replace ((P ++ p :: (g0 :: G') ++ X') ++ l :: Q) with (P ++ p :: (g0 :: G') ++ X ++ Q)
        by (rewrite El; repeat (rewrite <- app_assoc; cbn [app]); reflexivity).
      exact Hnd. }
    cbn [app] in Esp. rewrite Esp.
    destruct (touches true Q).
    + (* the separators stay *)
      rewrite Hf, Hl.
      replace (P ++ p :: g0 :: G' ++ X ++ Q) with ((P ++ p :: g0 :: G') ++ X ++ Q)
        by (rewrite <- app_assoc; reflexivity).
      rewrite remove_span; [|rewrite <- app_assoc; exact Hnd|exact Hne].
      rewrite <- app_assoc. reflexivity.
    + rewrite Hl.
      replace (last X dft) with (last ((g0 :: G') ++ X) dft)
        by (rewrite El, app_assoc, !last_last; reflexivity).
      change (tid g0) with (tid (hd dft ((g0 :: G') ++ X))).
      replace (P ++ p :: g0 :: G' ++ X ++ Q) with ((P ++ [p]) ++ ((g0 :: G') ++ X) ++ Q)
        by (repeat (rewrite <- app_assoc; cbn [app]); reflexivity).
      rewrite remove_span; [|repeat (rewrite <- app_assoc; cbn [app]); exact Hnd|discriminate].
      rewrite <- app_assoc. reflexivity.
Qed.

Lemma last_opt_app : forall (A B : list tok), B <> [] -> last_opt (A ++ B) = Some (last B dft).
Proof.
  intros A B HB. destruct (exists_last HB) as [B' [l El]]. subst B. now rewrite app_assoc, last_opt_snoc, last_last.
Qed.

Lemma remove_right_frame : forall P X G p Q cur,
  NoDup (ids (P ++ X ++ G ++ p :: Q)) -> X <> [] -> fst cur = tid (hd dft X) -> snd cur = tid (last X dft) ->
  remove_node SRight (P ++ X ++ G ++ p :: Q) (tid p) cur =
    (P ++ (if touches false (rev P) then G else []) ++ p :: Q, Ok tt).
Proof.
  intros P X G p Q cur Hnd Hne Hf Hl. unfold remove_node. cbv zeta.
  assert (Ed : P ++ X ++ G ++ p :: Q = (P ++ X ++ G) ++ p :: Q) by (repeat rewrite <- app_assoc; reflexivity).
  assert (Eprev : st_get_prev (tid p) (P ++ X ++ G ++ p :: Q) = Ok (option_map tid (last_opt (P ++ X ++ G)))).
  { rewrite Ed. apply get_prev_mid. eapply nodup_mid_l; rewrite <- Ed; exact Hnd. }
  rewrite Eprev. clear Eprev Ed.
  destruct (list_eq_dec_nil G) as [EG|HG].
  - (* no separators: last is current.last_token *)
    subst G. rewrite app_nil_r, (last_opt_app P X Hne). cbn [option_map app].
    rewrite Hl, Z.eqb_refl, Hf.
    rewrite remove_span; [|exact Hnd|exact Hne]. destruct (touches false (rev P)); reflexivity.
  - rewrite (app_assoc P X G), (last_opt_app (P ++ X) G HG). cbn [option_map].
    destruct (exists_last Hne) as [X' [l El]]. destruct (exists_last HG) as [G' [gl Eg]].
    assert (Hlast : last X dft = l) by (rewrite El; apply last_last).
    assert (Hglast : last G dft = gl) by (rewrite Eg; apply last_last).
    assert (Hneq : tid (last G dft) =? snd cur = false).
    { apply Z.eqb_neq. rewrite Hl, Hlast, Hglast. intro E. symmetry in E. revert E.
      apply (nodup_ids_neq (P ++ X') l G' gl (p :: Q)).
      replace ((P ++ X') ++ l :: G' ++ gl :: p :: Q) with (P ++ X ++ G ++ p :: Q)
        by (rewrite El, Eg; repeat (rewrite <- app_assoc; cbn [app]); reflexivity).
      exact Hnd. }
    rewrite Hneq.
    assert (Esp : split_at (fst cur) (P ++ X ++ G ++ p :: Q) = Some (P, hd dft X, tl X ++ G ++ p :: Q)).
    { rewrite Hf. destruct X as [|x0 X0]; [congruence|]. cbn [hd tl app]. apply split_at_mid.
      eapply nodup_mid_l. exact Hnd. }
    rewrite Esp.
    destruct (touches false (rev P)).
    + rewrite Hf, Hl. rewrite remove_span; [reflexivity|exact Hnd|exact Hne].
    + rewrite Hf.
      replace (hd dft X) with (hd dft (X ++ G)) by (destruct X; [congruence|reflexivity]).
      replace (last G dft) with (last (X ++ G) dft) by (rewrite Eg, app_assoc, !last_last; reflexivity).
      rewrite (app_assoc X G). rewrite remove_span; [reflexivity|rewrite <- app_assoc; exact Hnd|].
      intro E. apply app_eq_nil in E. destruct E. contradiction.
Qed.

(* ---- what the repaired _remove_node is for: the separators that lay between the pivot and the removed child
        still lie between the pivot and the token the child touched ------------------------------------------ *)
(* the far neighbour: the nearest token with text beyond the child (zero-width tokens Z skipped) shows, on the
   side of the child, a character that is neither blank nor a bracket *)
Definition shows (first_char : bool) (n : tok) : bool := touches first_char [n].

Lemma touches_skip : forall fc Z n R, Forall (fun t => ttext t = []) Z -> touches fc [n] = true ->
  touches fc (Z ++ n :: R) = true.
Proof.
  intros fc Z n R HZ Hn. induction HZ as [|z Z Hz _ IH]; cbn [app touches] in *.
  - destruct (ttext n); [discriminate|exact Hn].
  - rewrite Hz. exact IH.
Qed.

Theorem remove_left_keeps_separation : forall P p G X Z n Q cur b,
  NoDup (ids (P ++ p :: G ++ X ++ Z ++ n :: Q)) -> X <> [] -> fst cur = tid (hd dft X) -> snd cur = tid (last X dft) ->
  Forall (fun t => ttext t = []) Z -> shows true n = true -> In b G ->
  exists B1 B2, G = B1 ++ b :: B2 /\
    remove_node SLeft (P ++ p :: G ++ X ++ Z ++ n :: Q) (tid p) cur = (P ++ p :: (B1 ++ b :: B2) ++ Z ++ n :: Q, Ok tt).
Proof.
  intros P p G X Z n Q cur b Hnd Hne Hf Hl HZ Hn Hb.
  destruct (in_split _ _ Hb) as (B1 & B2 & EG). exists B1, B2. split; [exact EG|].
  rewrite (remove_left_frame P p G X (Z ++ n :: Q) cur Hnd Hne Hf Hl).
  rewrite (touches_skip true Z n Q HZ Hn), EG. reflexivity.
Qed.

Theorem remove_right_keeps_separation : forall P n Z X G p Q cur b,
  NoDup (ids ((P ++ n :: Z) ++ X ++ G ++ p :: Q)) -> X <> [] -> fst cur = tid (hd dft X) -> snd cur = tid (last X dft) ->
  Forall (fun t => ttext t = []) Z -> shows false n = true -> In b G ->
  exists B1 B2, G = B1 ++ b :: B2 /\
    remove_node SRight ((P ++ n :: Z) ++ X ++ G ++ p :: Q) (tid p) cur = ((P ++ n :: Z) ++ (B1 ++ b :: B2) ++ p :: Q, Ok tt).
Proof.
  intros P n Z X G p Q cur b Hnd Hne Hf Hl HZ Hn Hb.
  destruct (in_split _ _ Hb) as (B1 & B2 & EG). exists B1, B2. split; [exact EG|].
  rewrite (remove_right_frame (P ++ n :: Z) X G p Q cur Hnd Hne Hf Hl).
  assert (Et : touches false (rev (P ++ n :: Z)) = true).
  { rewrite rev_app_distr. cbn [rev]. rewrite <- app_assoc. cbn [app].
    apply touches_skip; [apply Forall_rev; exact HZ|exact Hn]. }
  rewrite Et.
  rewrite EG. reflexivity.
Qed.

(* and only then: next to a blank, a bracket or the end of the store the separators go with the child, as before *)
Theorem remove_left_drops_separators : forall P p G X Q cur,
  NoDup (ids (P ++ p :: G ++ X ++ Q)) -> X <> [] -> fst cur = tid (hd dft X) -> snd cur = tid (last X dft) ->
  touches true Q = false ->
  remove_node SLeft (P ++ p :: G ++ X ++ Q) (tid p) cur = (P ++ p :: Q, Ok tt).
Proof. intros P p G X Q cur Hnd Hne Hf Hl Ht. rewrite (remove_left_frame P p G X Q cur Hnd Hne Hf Hl), Ht. reflexivity. Qed.

Theorem remove_right_drops_separators : forall P X G p Q cur,
  NoDup (ids (P ++ X ++ G ++ p :: Q)) -> X <> [] -> fst cur = tid (hd dft X) -> snd cur = tid (last X dft) ->
  touches false (rev P) = false ->
  remove_node SRight (P ++ X ++ G ++ p :: Q) (tid p) cur = (P ++ p :: Q, Ok tt).
Proof. intros P X G p Q cur Hnd Hne Hf Hl Ht. rewrite (remove_right_frame P X G p Q cur Hnd Hne Hf Hl), Ht. reflexivity. Qed.

(* ---- D15: detach cannot tell a free-standing node from a child spanning its parent's store ------ *)
(* a donor is described by its store and span only; the child of a free-standing parent that spans
   the parent's whole store has exactly the description of a free node *)
Definition spans_whole_store (v : donor) : Prop := detachable v = true.

(* ---- _del_tokens, else-branch (start > 0, or everything up to the end) -------------------------------------------
   removes get_next(prev_last) .. items[stop-1].last; as repaired, the tokens G between the previous item (or the
   placeholder) and the first removed item stay when an item follows (stop < len), G is not empty, all of G is blank
   and the removed span touches what follows it *)
Lemma self_delim_eq : forall c, self_delim c = self_delimiting c.
Proof. reflexivity. Qed.

Lemma touches_next_eq : forall l, touches_next l = touches true l.
Proof. induction l as [|t l IH]; cbn [touches_next touches]; [reflexivity|]. destruct (ttext t); [exact IH|reflexivity]. Qed.

Definition keep_gap (G Q : list tok) : bool :=
  match G with [] => false | _ => touches_next Q && forallb blank_tok G end.

Lemma st_iter_span : forall P S Q, NoDup (ids (P ++ S ++ Q)) -> S <> [] ->
  st_iter (tid (hd dft S)) (tid (last S dft)) (P ++ S ++ Q) = S.
Proof.
  intros P S Q Hnd Hne. destruct S as [|s0 S']; [congruence|]. unfold st_iter. cbn [hd].
  change (P ++ (s0 :: S') ++ Q) with (P ++ s0 :: (S' ++ Q)) in *.
  rewrite split_at_mid by (eapply nodup_mid_l; exact Hnd).
  destruct S' as [|s1 S1].
  - cbn [last]. now rewrite Z.eqb_refl.
  - destruct (@exists_last _ (s1 :: S1)) as [S'' [l El]]; [discriminate|].
    replace (last (s0 :: s1 :: S1) dft) with l
      by (rewrite El; change (s0 :: S'' ++ [l]) with ((s0 :: S'') ++ [l]); now rewrite last_last).
    rewrite El in *.
    assert (Hneq : tid s0 =? tid l = false).
    { apply Z.eqb_neq. apply (nodup_ids_neq P s0 S'' l Q). rewrite <- app_assoc in Hnd. exact Hnd. }
    rewrite Hneq. rewrite <- app_assoc. cbn [app]. rewrite split_at_mid; [reflexivity|].
    assert (Hnd2 : NoDup (ids (S'' ++ l :: Q))).
    { apply (nodup_app_r (P ++ [s0])). rewrite <- app_assoc. cbn [app]. rewrite <- app_assoc in Hnd. exact Hnd. }
    eapply nodup_mid_l; exact Hnd2.
Qed.

Lemma del_tokens_else : forall ph (items : list item) P p G X Q start stop (it_s it_l : item),
  NoDup (ids (P ++ p :: G ++ X ++ Q)) -> X <> [] -> start < stop ->
  (start =? 0) && (stop <? zlen items) = false ->
  prev_last ph items start = Ok (tid p) ->
  list_get_int items (stop - 1) = Ok it_l -> snd it_l = tid (last X dft) ->
  list_get_int items start = Ok it_s -> fst it_s = tid (hd dft X) ->
  del_tokens ph (P ++ p :: G ++ X ++ Q) items start stop =
    (P ++ p :: (if (stop <? zlen items) && keep_gap G Q then G else []) ++ Q, Ok tt).
Proof.
  intros ph items P p G X Q start stop it_s it_l Hnd Hne Hlt Hbr Hpl Hget Hlast Hs Hf.
  unfold del_tokens.
  destruct (stop <=? start) eqn:E1; [apply Z.leb_le in E1; lia|].
  rewrite Hbr, Hpl.
  rewrite get_next_mid by (eapply nodup_mid_l; exact Hnd).
  assert (Hkeep : st_remove (tid (hd dft X)) (tid (last X dft)) (P ++ p :: G ++ X ++ Q) = Ok (P ++ p :: G ++ Q)).
  { replace (P ++ p :: G ++ X ++ Q) with ((P ++ p :: G) ++ X ++ Q) by (rewrite <- app_assoc; reflexivity).
    rewrite remove_span; [|rewrite <- app_assoc; exact Hnd|exact Hne]. now rewrite <- app_assoc. }
  assert (Hall : st_remove (tid (hd dft (G ++ X))) (tid (last X dft)) (P ++ p :: G ++ X ++ Q) = Ok (P ++ p :: Q)).
  { replace (last X dft) with (last (G ++ X) dft).
    2:{ destruct (exists_last Hne) as [X' [l El]]. rewrite El, app_assoc, !last_last. reflexivity. }
    replace (P ++ p :: G ++ X ++ Q) with ((P ++ [p]) ++ (G ++ X) ++ Q)
      by (repeat (rewrite <- app_assoc; cbn [app]); reflexivity).
    rewrite remove_span.
    - now rewrite <- app_assoc.
    - repeat (rewrite <- app_assoc; cbn [app]). exact Hnd.
    - intro E. apply app_eq_nil in E. destruct E. contradiction. }
  rewrite Hget, Hs, Hlast, Hf. cbv zeta.
  destruct G as [|g0 G'].
  - (* nothing in front of the first removed item: first_token is item_first *)
    destruct X as [|x0 X']; [congruence|]. cbn [app hd_opt option_map hd] in *. rewrite Z.eqb_refl, andb_false_r.
    rewrite Hall. cbn [keep_gap]. rewrite andb_false_r. reflexivity.
  - cbn [app hd_opt option_map hd] in *.
    assert (Hneq : tid g0 =? tid (hd dft X) = false).
    { apply Z.eqb_neq. destruct X as [|x0 X0]; [congruence|]. cbn [hd].
      apply (nodup_ids_neq (P ++ [p]) g0 G' x0 (X0 ++ Q)). rewrite <- app_assoc. exact Hnd. }
    rewrite Hneq. cbn [negb]. rewrite andb_true_r.
    destruct (stop <? zlen items); cbn [andb]; [|rewrite Hall; reflexivity].
    destruct (exists_last Hne) as [X' [l El]].
    assert (Hl : last X dft = l) by (rewrite El; apply last_last).
    assert (Esp : split_at (tid (last X dft)) (P ++ p :: g0 :: G' ++ X ++ Q) = Some (P ++ p :: (g0 :: G') ++ X', l, Q)).
    { rewrite Hl, El.
      replace (P ++ p :: g0 :: G' ++ (X' ++ [l]) ++ Q) with ((P ++ p :: (g0 :: G') ++ X') ++ l :: Q)
        by (repeat (rewrite <- app_assoc; cbn [app]); reflexivity).
      apply split_at_mid. eapply nodup_mid_l.
      replace ((P ++ p :: (g0 :: G') ++ X') ++ l :: Q) with (P ++ p :: g0 :: G' ++ X ++ Q)
        by (rewrite El; repeat (rewrite <- app_assoc; cbn [app]); reflexivity).
      exact Hnd. }
    rewrite Esp. cbn [keep_gap].
    destruct (touches_next Q); cbn [andb]; [|rewrite Hall; reflexivity].
    assert (Egp : st_get_prev (tid (hd dft X)) (P ++ p :: g0 :: G' ++ X ++ Q) = Ok (Some (tid (last (g0 :: G') dft)))).
    { destruct X as [|x0 X0]; [congruence|]. cbn [hd].
      replace (P ++ p :: g0 :: G' ++ (x0 :: X0) ++ Q) with ((P ++ p :: g0 :: G') ++ x0 :: X0 ++ Q)
        by (repeat (rewrite <- app_assoc; cbn [app]); reflexivity).
      rewrite get_prev_mid.
      - change (P ++ p :: g0 :: G') with (P ++ [p] ++ (g0 :: G')). rewrite app_assoc.
        rewrite last_opt_app by discriminate. reflexivity.
      - eapply nodup_mid_l. repeat (rewrite <- app_assoc; cbn [app]). exact Hnd. }
    rewrite Egp.
    assert (Eit : st_iter (tid g0) (tid (last (g0 :: G') dft)) (P ++ p :: g0 :: G' ++ X ++ Q) = g0 :: G').
    { change (tid g0) with (tid (hd dft (g0 :: G'))).
      replace (P ++ p :: g0 :: G' ++ X ++ Q) with ((P ++ [p]) ++ (g0 :: G') ++ X ++ Q)
        by (repeat (rewrite <- app_assoc; cbn [app]); reflexivity).
      apply st_iter_span; [|discriminate]. repeat (rewrite <- app_assoc; cbn [app]). exact Hnd. }
    rewrite Eit.
    destruct (forallb blank_tok (g0 :: G')); [rewrite Hkeep|rewrite Hall]; reflexivity.
Qed.
