(* C10, second part: every mutation through a view is the Python list operation on the filtered
   (converted) list; the mapping layer of meta refines an ordered first-match association list;
   reflection of the boolean hypothesis checkers the harness evaluates on dumped states. *)
From AB Require Import Prelude PySeq PySeqProofs Views ViewsProofs ViewsRun.
From Coq Require Import ZifyBool.

(* ---- reflection: what the harness evaluates on every dumped state ------------------------------ *)
Lemma list_eqb_Z_eq : forall a b : list Z, list_eqb Z.eqb a b = true -> a = b.
Proof.
  induction a as [|x a IH]; destruct b as [|y b]; cbn [list_eqb]; try discriminate; auto.
  intros H. apply andb_prop in H. destruct H as (H1 & H2). f_equal; [lia|auto].
Qed.

Lemma all_inv_b_sound s : all_inv_b s = true -> AllInv s.
Proof.
  unfold all_inv_b, AllInv. intros H. apply Forall_forall. intros v Hv.
  rewrite forallb_forall in H. specialize (H v Hv). now apply list_eqb_Z_eq.
Qed.

(* ---- pick / remove_positions ------------------------------------------------------------------ *)
Lemma in_pick {A} (L : list A) (p : A) : forall Js,
  In p (pick L Js) <-> exists J, In J Js /\ 0 <= J /\ nth_error L (Z.to_nat J) = Some p.
Proof.
  induction Js as [|J Js IH]; unfold pick in *; cbn [flat_map].
  - split; [intros []|intros (J & [] & _)].
  - rewrite in_app_iff, IH. split.
    + intros [H|(J' & H1 & H2)].
      * destruct (J <? 0) eqn:E; [destruct H|].
        destruct (nth_error L (Z.to_nat J)) as [y|] eqn:En; [|destruct H].
        destruct H as [->|[]]. exists J. repeat split; auto; [now left|lia].
      * exists J'. split; [now right|assumption].
    + intros (J' & [->|Hin] & H0 & Hn).
      * left. replace (J' <? 0) with false by lia. rewrite Hn. now left.
      * right. exists J'. auto.
Qed.

Lemma nth_error_unique_mid (pre rest : list Z) (i : Z) (n : nat) :
  Forall (fun y => y < i) pre -> Forall (fun y => i < y) rest ->
  nth_error (pre ++ i :: rest) n = Some i -> n = length pre.
Proof.
  intros Hp Hr H. destruct (Nat.lt_trichotomy n (length pre)) as [Hl|[He|Hg]]; auto.
  - rewrite nth_error_app1 in H by assumption. apply nth_error_In in H.
    rewrite Forall_forall in Hp. specialize (Hp _ H). lia.
  - rewrite nth_error_app2 in H by lia.
    destruct (n - length pre)%nat as [|m] eqn:Em; [lia|]. cbn [nth_error] in H.
    apply nth_error_In in H. rewrite Forall_forall in Hr. specialize (Hr _ H). lia.
Qed.

Lemma positions_gt tags l i : Forall (fun y => i < y) (positions_from (i + 1) tags l).
Proof.
  eapply Forall_impl; [|apply positions_bounds]. intros a0 Ha0. cbv beta in *. lia.
Qed.

(* dropping the raw positions cached at entries Js = dropping entries Js of the filtered list *)
Lemma filtered_remove_pick_gen tags Js : forall l pre i,
  Forall (fun y => y < i) pre ->
  filtered tags (remove_positions_from i (pick (pre ++ positions_from i tags l) Js) l)
  = remove_positions_from (zlen pre) Js (filtered tags l).
Proof.
  induction l as [|x r IH]; intros pre i Hpre; [reflexivity|].
  cbn [positions_from remove_positions_from filtered filter].
  destruct (matches tags x) eqn:Em.
  - set (L := pre ++ i :: positions_from (i + 1) tags r).
    assert (Hex : existsb (Z.eqb i) (pick L Js) = existsb (Z.eqb (zlen pre)) Js).
    { apply Bool.eq_iff_eq_true. rewrite !existsb_exists. split.
      - intros (p & Hin & Hp). assert (p = i) by lia. subst p.
        apply in_pick in Hin. destruct Hin as (J & HJ & H0 & Hn).
        apply nth_error_unique_mid in Hn; auto; [|apply positions_gt].
        exists J. split; [assumption|]. unfold zlen. lia.
      - intros (J & HJ & Hp). assert (J = zlen pre) by lia. subst J.
        exists i. split; [|lia]. apply in_pick. exists (zlen pre).
        repeat split; auto; [apply zlen_nonneg|]. subst L. apply nth_error_mid. }
    rewrite Hex. cbn [remove_positions_from].
    assert (IH' : filtered tags (remove_positions_from (i + 1) (pick L Js) r)
                  = remove_positions_from (zlen pre + 1) Js (filtered tags r)).
    { specialize (IH (pre ++ [i]) (i + 1)). rewrite zlen_app in IH.
      change (zlen [i]) with 1 in IH. subst L.
      replace (pre ++ i :: positions_from (i + 1) tags r)
        with ((pre ++ [i]) ++ positions_from (i + 1) tags r) by (now rewrite <- app_assoc).
      apply IH. apply Forall_app. split.
      - eapply Forall_impl; [|exact Hpre]. intros a0 Ha0. cbv beta in *. lia.
      - constructor; [lia|constructor]. }
    destruct (existsb (Z.eqb (zlen pre)) Js); [exact IH'|].
    cbn [filtered filter]. rewrite Em. f_equal. exact IH'.
  - set (L := pre ++ positions_from (i + 1) tags r).
    assert (Hex : existsb (Z.eqb i) (pick L Js) = false).
    { apply Bool.not_true_is_false. rewrite existsb_exists. intros (p & Hin & Hp).
      assert (p = i) by lia. subst p. apply in_pick in Hin. destruct Hin as (J & _ & _ & Hn).
      apply nth_error_In in Hn. subst L. apply in_app_or in Hn. destruct Hn as [Hn|Hn].
      - rewrite Forall_forall in Hpre. specialize (Hpre _ Hn). lia.
      - pose proof (positions_gt tags r i) as Hg. rewrite Forall_forall in Hg.
        specialize (Hg _ Hn). lia. }
    rewrite Hex. cbn [filtered filter]. rewrite Em.
    apply IH. eapply Forall_impl; [|exact Hpre]. intros a0 Ha0. cbv beta in *. lia.
Qed.

Lemma filtered_remove_pick tags its Js :
  filtered tags (remove_positions (pick (positions_from 0 tags its) Js) its)
  = remove_positions Js (filtered tags its).
Proof. apply (filtered_remove_pick_gen tags Js its [] 0). constructor. Qed.

(* removing a contiguous range = the step-1 slice deletion *)
Lemma remove_positions_from_app {A} ps : forall (a b : list A) i,
  remove_positions_from i ps (a ++ b)
  = remove_positions_from i ps a ++ remove_positions_from (i + zlen a) ps b.
Proof.
  induction a as [|x a IH]; intros b i; cbn [app remove_positions_from].
  - rewrite zlen_nil. now replace (i + 0) with i by lia.
  - rewrite zlen_cons, IH. replace (i + 1 + zlen a) with (i + (1 + zlen a)) by lia.
    now destruct (existsb (Z.eqb i) ps).
Qed.

Lemma remove_none {A} ps : forall (l : list A) i,
  (forall p, i <= p < i + zlen l -> ~ In p ps) -> remove_positions_from i ps l = l.
Proof.
  induction l as [|x l IH]; intros i H; cbn [remove_positions_from]; [reflexivity|].
  rewrite zlen_cons in H. pose proof (zlen_nonneg l).
  replace (existsb (Z.eqb i) ps) with false.
  - f_equal. apply IH. intros p Hp. apply H. lia.
  - symmetry. apply Bool.not_true_is_false. rewrite existsb_exists. intros (p & Hin & Hp).
    assert (p = i) by lia. subst p. apply (H i); [lia|assumption].
Qed.

Lemma remove_all {A} ps : forall (l : list A) i,
  (forall p, i <= p < i + zlen l -> In p ps) -> remove_positions_from i ps l = [].
Proof.
  induction l as [|x l IH]; intros i H; cbn [remove_positions_from]; [reflexivity|].
  rewrite zlen_cons in H. pose proof (zlen_nonneg l).
  replace (existsb (Z.eqb i) ps) with true.
  - apply IH. intros p Hp. apply H. lia.
  - symmetry. apply existsb_exists. exists i. split; [apply H; lia|lia].
Qed.

Lemma in_range1 a b p : In p (range_list (mkrng a b 1)) <-> a <= p < b.
Proof.
  unfold range_list, range_len. cbn [r_start r_stop r_step].
  replace (0 <? 1) with true by lia. rewrite in_map_iff.
  destruct (a <? b) eqn:E.
  - rewrite Z.div_1_r. split.
    + intros (k & <- & Hk). apply in_seq in Hk. lia.
    + intros H. exists (Z.to_nat (p - a)). split; [lia|]. apply in_seq. lia.
  - split; [intros (k & _ & Hk); apply in_seq in Hk; cbn in Hk; lia | lia].
Qed.

Lemma remove_range {A} (l : list A) (a b : Z) :
  0 <= a <= zlen l -> 0 <= b <= zlen l ->
  remove_positions (range_list (mkrng a b 1)) l = splice l a b [].
Proof.
  intros Ha Hb. unfold remove_positions.
  destruct (Z_le_gt_dec a b) as [Hab|Hab].
  - destruct (split_at l a) as (A0 & BC & -> & HA); [lia|].
    rewrite zlen_app in Hb.
    destruct (split_at BC (b - a)) as (B0 & C0 & -> & HB); [lia|].
    replace b with (zlen A0 + zlen B0) by lia. subst a. rewrite splice_mid.
    rewrite !remove_positions_from_app. cbn [app].
    rewrite remove_none, remove_all, remove_none; [reflexivity| | |];
      intros p Hp; rewrite in_range1; lia.
  - rewrite remove_none by (intros p Hp; rewrite in_range1; lia).
    destruct (split_at l a) as (A0 & C0 & -> & HA); [lia|]. subst a.
    now rewrite splice_ins by lia.
Qed.

Lemma pick_Forall {A} (P : A -> Prop) (L : list A) Js : Forall P L -> Forall P (pick L Js).
Proof.
  intros H. apply Forall_forall. intros p Hp. apply in_pick in Hp.
  destruct Hp as (J & _ & _ & Hn). apply nth_error_In in Hn. rewrite Forall_forall in H. auto.
Qed.

Lemma positions_valid tags its :
  Forall (fun p => 0 <= p < zlen its) (positions_from 0 tags its).
Proof. eapply Forall_impl; [|apply positions_bounds]. intros a0 Ha0. cbv beta in *. lia. Qed.

(* ---- del view[i], del view[a:b:k] --------------------------------------------------------------- *)
Section Delete.
Variables (s : st) (v : view).
Hypothesis HV : ViewInv (items s) v.
Let F := filtered (v_tags v) (items s).
Let Fof (s' : st) := filtered (v_tags v) (items s').

Lemma v_delitem_spec index :
  match (match index with IInt i => list_del_int F i | ISlice sl => list_del_slice F sl end) with
  | Ok F' => exists s', v_delitem s v index = (s', OkNone) /\ Fof s' = F'
  | Err e => v_delitem s v index = (s, Err e)
  end.
Proof.
  unfold v_delitem, range_from_index. rewrite HV, positions_length. fold F.
  pose proof (zlen_nonneg F) as HF.
  destruct index as [i|sl].
  - unfold list_del_int. destruct (norm_index (zlen F) i) as [j|e] eqn:En.
    + apply norm_index_ok in En. destruct En as (Hj & _). cbn match.
      rewrite raw_drop_many_valid by (apply pick_Forall, positions_valid).
      eexists. split; [reflexivity|].
      unfold Fof, notify, with_items. cbn [fst items].
      rewrite filtered_remove_pick. fold F. apply remove_range; lia.
    + apply norm_index_err in En. now destruct En as (-> & _).
  - unfold list_del_slice, range_getslice.
    destruct (slice_indices (zlen F) sl) as [[[a b] k]|e] eqn:E; [|reflexivity].
    assert (HR : exists s', raw_drop_many s (pick (positions_from 0 (v_tags v) (items s)) (range_list (mkrng a b k)))
                            = (s', OkNone) /\ Fof s' = remove_positions (range_list (mkrng a b k)) F).
    { rewrite raw_drop_many_valid by (apply pick_Forall, positions_valid).
      eexists. split; [reflexivity|].
      unfold Fof, notify, with_items. cbn [fst items].
      now rewrite filtered_remove_pick. }
    destruct (k =? 1) eqn:Ek; [|exact HR].
    assert (k = 1) by lia. subst k.
    destruct (slice_indices_range _ _ _ _ _ HF E) as (_ & Hpos & _).
    destruct (Hpos ltac:(lia)). cbn match. rewrite <- remove_range by assumption. exact HR.
Qed.
End Delete.

(* ---- view[index] = xs (every kind of view) ----------------------------------------------------- *)
Lemma positions_same_match tags (a c : list elem) (x y : elem) i :
  matches tags x = matches tags y ->
  positions_from i tags (a ++ y :: c) = positions_from i tags (a ++ x :: c).
Proof. intros Hm. rewrite !positions_app. f_equal. cbn [positions_from]. now rewrite Hm. Qed.

Lemma raw_setitem_int_at s a y c x :
  items s = a ++ y :: c ->
  exists s', raw_setitem_int true s (zlen a) x = (s', OkNone) /\ items s' = a ++ x :: c.
Proof.
  intros Es. unfold raw_setitem_int. rewrite Es, list_get_int_mid, list_set_int_mid.
  eexists. split; reflexivity.
Qed.

Lemma update_raw_some k tags cur x cur' :
  update_raw k cur x = Some cur' ->
  matches tags cur' = matches tags cur /\ from_raw k cur' = from_raw k x.
Proof.
  destruct k; cbn [update_raw]; [discriminate| |].
  - intros H; inversion H; subst. split; reflexivity.
  - destruct ((e_tag cur =? e_tag x) && (1 <=? e_tag cur) && (e_tag cur <=? 4)); [|discriminate].
    intros H; inversion H; subst. split; reflexivity.
Qed.

Lemma v_assign_step k s a y c x ps xs :
  items s = a ++ y :: c ->
  v_assign true k s (zlen a :: ps) (x :: xs) =
  match update_raw k y x with
  | Some cur' => v_assign true k (with_items s (a ++ cur' :: c)) ps xs
  | None => v_assign true k (fst (raw_setitem_int true s (zlen a) x)) ps xs
  end.
Proof.
  intros Es. cbn [v_assign]. rewrite Es, list_get_int_mid.
  destruct (update_raw k y x) as [cur'|].
  - now rewrite list_set_int_mid.
  - destruct (raw_setitem_int_at s a y c x Es) as (s1 & Hr & _). now rewrite Hr.
Qed.

Lemma pick_cons {A} (L : list A) J Js q :
  0 <= J -> nth_error L (Z.to_nat J) = Some q -> pick L (J :: Js) = q :: pick L Js.
Proof.
  intros H0 Hn. unfold pick. cbn [flat_map]. replace (J <? 0) with false by lia. now rewrite Hn.
Qed.

Lemma pick_length {A} (L : list A) : forall Js,
  Forall (fun J => 0 <= J < zlen L) Js -> zlen (pick L Js) = zlen Js.
Proof.
  induction Js as [|J Js IH]; intros H; [reflexivity|].
  inversion H as [|? ? HJ HJs]; subst.
  destruct (nth_error L (Z.to_nat J)) as [q|] eqn:En.
  - rewrite (pick_cons L J Js q) by (assumption || lia). rewrite !zlen_cons. f_equal. auto.
  - apply nth_error_None in En. unfold zlen in HJ. lia.
Qed.

Lemma v_assign_spec tags k idx : forall Js s xs,
  positions_from 0 tags (items s) = idx ->
  Forall (fun J => 0 <= J < zlen idx) Js ->
  length Js = length xs -> forallb (matches tags) xs = true ->
  exists s', v_assign true k s (pick idx Js) xs = (s', OkNone)
    /\ positions_from 0 tags (items s') = idx
    /\ map (from_raw k) (filtered tags (items s'))
       = fst (assign_each (map (from_raw k) (filtered tags (items s))) Js (map (from_raw k) xs)).
Proof.
  induction Js as [|J Js IH]; intros s xs Hidx HJs Hlen Hxs.
  - destruct xs; [|discriminate]. exists s. repeat split; auto.
  - destruct xs as [|x xs]; [discriminate|].
    inversion HJs as [|? ? HJ HJs']; subst.
    cbn [forallb] in Hxs. apply andb_prop in Hxs. destruct Hxs as (Hx & Hxs).
    destruct (nth_error (positions_from 0 tags (items s)) (Z.to_nat J)) as [q|] eqn:En.
    2:{ apply nth_error_None in En. unfold zlen in HJ. lia. }
    rewrite (pick_cons _ J Js q) by (assumption || lia).
    destruct (nth_positions _ _ _ _ _ En) as (a & y & c & Es & Ha & Hy & HjF).
    assert (Hq : q = zlen a) by lia. subst q.
    (* one step of the loop: the element at the cached position becomes y', of the view's type and
       showing the value of x *)
    assert (Hstep : exists s1 y', items s1 = a ++ y' :: c /\ matches tags y' = true
                      /\ from_raw k y' = from_raw k x
                      /\ v_assign true k s (zlen a :: pick (positions_from 0 tags (items s)) Js) (x :: xs)
                         = v_assign true k s1 (pick (positions_from 0 tags (items s)) Js) xs).
    { rewrite (v_assign_step k s a y c x _ xs Es).
      destruct (update_raw k y x) as [cur'|] eqn:Eu.
      - destruct (update_raw_some k tags y x cur' Eu) as (Hm & Hf).
        exists (with_items s (a ++ cur' :: c)), cur'. repeat split; auto. congruence.
      - destruct (raw_setitem_int_at s a y c x Es) as (s1 & Hr & Hi). rewrite Hr.
        exists s1, x. repeat split; auto. }
    destruct Hstep as (s1 & y' & Es1 & Hy' & Hfr & ->).
    assert (Hidx1 : positions_from 0 tags (items s1) = positions_from 0 tags (items s)).
    { rewrite Es1, Es. apply positions_same_match. congruence. }
    assert (Hlen' : length Js = length xs) by (cbn in Hlen; lia).
    destruct (IH s1 xs Hidx1 HJs' Hlen' Hxs) as (s' & Hrun & Hpos & Hmap).
    exists s'. split; [exact Hrun|]. split; [exact Hpos|].
    rewrite Hmap. cbn [map assign_each].
    rewrite Es, Es1, !filtered_cut by assumption. rewrite !map_app. cbn [map].
    assert (HJz : J = zlen (map (from_raw k) (filtered tags a))).
    { rewrite zlen_map. unfold zlen. lia. }
    rewrite HJz, list_set_int_mid. now rewrite Hfr.
Qed.

Section SetItem.
Variables (s : st) (v : view).
Hypothesis HV : ViewInv (items s) v.
Let F := filtered (v_tags v) (items s).
Let Fof (s' : st) := filtered (v_tags v) (items s').
Let fr := from_raw (v_kind v).

(* view[i] = x, view[a:b:k] = xs for node, string and custom views alike: the converted view becomes
   what the same assignment makes of the converted list; IndexError / ValueError as for a list (a slice
   only takes a sequence of its own length) *)
Lemma v_setitem_spec index xs :
  forallb (matches (v_tags v)) xs = true ->
  (match index with IInt _ => length xs = 1%nat | ISlice _ => True end) ->
  match list_setitem_eqlen (map fr F) index (map fr xs) with
  | Ok C' => exists s', v_setitem true s v index xs = (s', OkNone) /\ map fr (Fof s') = C'
  | Err e => v_setitem true s v index xs = (s, Err e)
  end.
Proof.
  intros Hxs Hone.
  rewrite list_setitem_eqlen_as_assign by (destruct index; [now rewrite map_length|exact I]).
  rewrite !zlen_map. unfold v_setitem. rewrite HV, positions_length. fold F.
  pose proof (zlen_nonneg F) as HF.
  destruct (range_from_index index (zlen F)) as [r|e] eqn:Er; [|reflexivity].
  pose proof (range_from_index_bounds _ _ _ HF Er) as Hb.
  assert (Hb' : Forall (fun J => 0 <= J < zlen (positions_from 0 (v_tags v) (items s))) (range_list r)).
  { now rewrite positions_length. }
  rewrite (pick_length _ _ Hb'), zlen_range_list.
  destruct (range_len r =? zlen xs) eqn:El; cbn [negb]; [|reflexivity].
  destruct (v_assign_spec (v_tags v) (v_kind v) _ (range_list r) s xs eq_refl Hb') as (s' & Hrun & _ & Hmap); auto.
  { pose proof (zlen_range_list r). unfold zlen in *. lia. }
  exists s'. split; [exact Hrun|exact Hmap].
Qed.
End SetItem.

(* ---- view.remove(value), view.discard(value) ---------------------------------------------------- *)
Lemma raw_pop_at s a y c :
  items s = a ++ y :: c ->
  exists s', raw_pop s (zlen a) = (s', Ok [y]) /\ items s' = a ++ c.
Proof.
  intros Es. unfold raw_pop, range_from_index, list_pop.
  pose proof (zlen_nonneg a). pose proof (zlen_nonneg c).
  assert (Hn : norm_index (zlen (items s)) (zlen a) = Ok (zlen a)).
  { unfold norm_index. rewrite Es, zlen_app, zlen_cons.
    now replace ((0 <=? zlen a) && (zlen a <? zlen a + (1 + zlen c))) with true by lia. }
  rewrite Hn. rewrite Es, list_get_int_mid. cbn [r_start r_stop].
  eexists. split; [reflexivity|]. unfold notify_splice, with_items. cbn [items].
  now rewrite splice_one.
Qed.

Lemma v_remove_go_spec tags k value : forall suf pre s,
  items s = pre ++ suf ->
  match list_remove elem_eqb (map (from_raw k) (filtered tags suf)) value with
  | Ok C' => exists s' suf', v_remove_go k s (positions_from (zlen pre) tags suf) value = (s', OkNone)
                             /\ items s' = pre ++ suf' /\ map (from_raw k) (filtered tags suf') = C'
  | Err e => v_remove_go k s (positions_from (zlen pre) tags suf) value = (s, Err e)
  end.
Proof.
  induction suf as [|x r IH]; intros pre s Es; cbn [filtered filter map list_remove positions_from v_remove_go].
  - reflexivity.
  - assert (Es' : items s = (pre ++ [x]) ++ r) by (now rewrite <- app_assoc).
    specialize (IH (pre ++ [x]) s Es'). rewrite zlen_app in IH. change (zlen [x]) with 1 in IH.
    destruct (matches tags x) eqn:Em; cbn [map list_remove v_remove_go];
      change (filter (matches tags) r) with (filtered tags r).
    + rewrite Es, list_get_int_mid.
      destruct (elem_eqb (from_raw k x) value) eqn:Eq.
      * destruct (raw_pop_at s pre x r Es) as (s' & Hp & Hi). rewrite Hp.
        exists s', r. repeat split; auto.
      * revert IH. destruct (list_remove elem_eqb (map (from_raw k) (filtered tags r)) value) as [C'|e]; intros IH.
        -- destruct IH as (s' & suf' & Hr & Hi & Hm). exists s', (x :: suf').
           split; [exact Hr|]. split; [now rewrite Hi, <- app_assoc|].
           cbn [filtered filter]. rewrite Em. cbn [map]. now f_equal.
        -- exact IH.
    + revert IH. destruct (list_remove elem_eqb (map (from_raw k) (filtered tags r)) value) as [C'|e]; intros IH.
      * destruct IH as (s' & suf' & Hr & Hi & Hm). exists s', (x :: suf').
        split; [exact Hr|]. split; [now rewrite Hi, <- app_assoc|].
        cbn [filtered filter]. now rewrite Em.
      * exact IH.
Qed.

(* positions selected by an arbitrary predicate *)
Fixpoint positions_by (g : elem -> bool) (i : Z) (l : list elem) : list Z :=
  match l with
  | [] => []
  | x :: r => if g x then i :: positions_by g (i + 1) r else positions_by g (i + 1) r
  end.

Lemma positions_by_bounds g : forall l i p, In p (positions_by g i l) -> i <= p < i + zlen l.
Proof.
  induction l as [|x l IH]; intros i p H; cbn [positions_by] in H; [destruct H|].
  rewrite zlen_cons. pose proof (zlen_nonneg l).
  destruct (g x); [destruct H as [->|H]; [lia|]|]; apply IH in H; lia.
Qed.

Lemma remove_positions_by g : forall l i ps,
  (forall p, i <= p -> (In p ps <-> In p (positions_by g i l))) ->
  remove_positions_from i ps l = filter (fun e => negb (g e)) l.
Proof.
  induction l as [|x l IH]; intros i ps H; cbn [remove_positions_from filter positions_by] in *; [reflexivity|].
  assert (Hex : existsb (Z.eqb i) ps = g x).
  { apply Bool.eq_iff_eq_true. rewrite existsb_exists. split.
    - intros (p & Hin & Hp). assert (p = i) by lia. subst p. apply H in Hin; [|lia].
      destruct (g x); [reflexivity|]. apply positions_by_bounds in Hin. lia.
    - intros Hg. exists i. split; [|lia]. apply H; [lia|]. rewrite Hg. now left. }
  rewrite Hex.
  assert (IH' : remove_positions_from (i + 1) ps l = filter (fun e => negb (g e)) l).
  { apply IH. intros p Hp. rewrite H by lia. destruct (g x); [|reflexivity].
    split; [intros [Hc|Hc]; [lia|exact Hc] | now right]. }
  destruct (g x); cbn [negb]; [exact IH'|now f_equal].
Qed.

Lemma v_discard_sel_spec tags k value : forall suf pre,
  v_discard_sel k (pre ++ suf) (positions_from (zlen pre) tags suf) value
  = Ok (positions_by (fun e => matches tags e && elem_eqb (from_raw k e) value) (zlen pre) suf).
Proof.
  induction suf as [|x r IH]; intros pre; cbn [positions_from positions_by v_discard_sel]; [reflexivity|].
  specialize (IH (pre ++ [x])). rewrite <- app_assoc, zlen_app in IH. cbn [app] in IH.
  change (zlen [x]) with 1 in IH.
  destruct (matches tags x); cbn [andb v_discard_sel].
  - rewrite list_get_int_mid, IH. reflexivity.
  - exact IH.
Qed.

Lemma filtered_discard tags k value : forall l,
  map (from_raw k) (filtered tags
        (filter (fun e => negb (matches tags e && elem_eqb (from_raw k e) value)) l))
  = filter (fun c => negb (elem_eqb c value)) (map (from_raw k) (filtered tags l)).
Proof.
  induction l as [|x l IH]; [reflexivity|]. cbn [filter filtered].
  destruct (matches tags x) eqn:Em; cbn [andb].
  - destruct (elem_eqb (from_raw k x) value) eqn:Eq; cbn [negb map filter].
    + rewrite Eq. cbn [negb]. exact IH.
    + rewrite Em. cbn [map filter]. rewrite Eq. cbn [negb]. f_equal. exact IH.
  - cbn [negb filter]. rewrite Em. exact IH.
Qed.

Section RemoveDiscard.
Variables (s : st) (v : view) (value : elem).
Hypothesis HV : ViewInv (items s) v.
Let F := filtered (v_tags v) (items s).
Let Fof (s' : st) := filtered (v_tags v) (items s').
Let fr := from_raw (v_kind v).

(* list.remove on the converted view: the first equal element goes, ValueError when there is none *)
Lemma v_remove_spec :
  match list_remove elem_eqb (map fr F) value with
  | Ok C' => exists s', v_remove s v value = (s', OkNone) /\ map fr (Fof s') = C'
  | Err e => v_remove s v value = (s, Err e)
  end.
Proof.
  unfold v_remove. rewrite HV.
  pose proof (v_remove_go_spec (v_tags v) (v_kind v) value (items s) [] s eq_refl) as H.
  rewrite zlen_nil in H. fold F fr in H.
  revert H. destruct (list_remove elem_eqb (map fr F) value) as [C'|e]; intros H; [|exact H].
  destruct H as (s' & suf' & Hr & Hi & Hm). exists s'. split; [exact Hr|].
  unfold Fof. now rewrite Hi.
Qed.

(* discard: every equal element goes (never raises) *)
Lemma v_discard_spec :
  exists s', v_discard s v value = (s', OkNone)
             /\ map fr (Fof s') = filter (fun c => negb (elem_eqb c value)) (map fr F).
Proof.
  unfold v_discard. rewrite HV.
  pose proof (v_discard_sel_spec (v_tags v) (v_kind v) value (items s) []) as H.
  rewrite zlen_nil in H. cbn [app] in H. rewrite H.
  rewrite raw_drop_many_valid.
  2:{ apply Forall_forall. intros p Hp. apply positions_by_bounds in Hp. lia. }
  eexists. split; [reflexivity|].
  unfold Fof, notify, with_items, remove_positions. cbn [fst items].
  rewrite (remove_positions_by (fun e => matches (v_tags v) e && elem_eqb (from_raw (v_kind v) e) value))
    by (intros; reflexivity).
  apply filtered_discard.
Qed.
End RemoveDiscard.

(* ======== the mapping layer of meta: an ordered association list with first-match semantics ===== *)
(* the specification: F (the MetaItems, in order) read as an association list keyed by e_key *)
Fixpoint assoc_find (key : Z) (F : list elem) : option elem :=
  match F with
  | [] => None
  | x :: r => if e_key x =? key then Some x else assoc_find key r
  end.
(* the first item with that key replaced by (f item) *)
Fixpoint assoc_upd (key : Z) (f : elem -> list elem) (F : list elem) : list elem :=
  match F with
  | [] => []
  | x :: r => if e_key x =? key then f x ++ r else x :: assoc_upd key f r
  end.
Definition assoc_del key F := assoc_upd key (fun _ => []) F.
Definition assoc_replace key x F := assoc_upd key (fun _ => [x]) F.
Definition assoc_set_value key val F :=
  assoc_upd key (fun cur => [mkelem (e_tag cur) (e_key cur) val]) F.

Lemma assoc_find_cut key : forall Fa x Fc,
  assoc_find key Fa = None -> e_key x = key -> assoc_find key (Fa ++ x :: Fc) = Some x.
Proof.
  induction Fa as [|y Fa IH]; intros x Fc Hn Hk; cbn [app assoc_find] in *.
  - now replace (e_key x =? key) with true by lia.
  - destruct (e_key y =? key); [discriminate|]. now apply IH.
Qed.

Lemma assoc_upd_cut key f : forall Fa x Fc,
  assoc_find key Fa = None -> e_key x = key -> assoc_upd key f (Fa ++ x :: Fc) = Fa ++ f x ++ Fc.
Proof.
  induction Fa as [|y Fa IH]; intros x Fc Hn Hk; cbn [app assoc_find assoc_upd] in *.
  - now replace (e_key x =? key) with true by lia.
  - destruct (e_key y =? key); [discriminate|]. f_equal. now apply IH.
Qed.

(* the implementation's linear search over the cached positions finds exactly the first match *)
Lemma m_find_spec tags key : forall suf pre i,
  match assoc_find key (filtered tags suf) with
  | None => m_find (pre ++ suf) key (positions_from (zlen pre) tags suf) i = Ok None
  | Some x => exists j a c,
      m_find (pre ++ suf) key (positions_from (zlen pre) tags suf) i = Ok (Some (i + j, zlen pre + zlen a, x))
      /\ suf = a ++ x :: c /\ matches tags x = true /\ zlen (filtered tags a) = j
      /\ e_key x = key /\ assoc_find key (filtered tags a) = None
  end.
Proof.
  induction suf as [|y r IH]; intros pre i; cbn [filtered filter positions_from assoc_find m_find]; [reflexivity|].
  change (filter (matches tags) r) with (filtered tags r).
  destruct (matches tags y) eqn:Em; cbn [assoc_find m_find].
  - rewrite list_get_int_mid. destruct (e_key y =? key) eqn:Ek.
    + exists 0, [], r. repeat split; auto; try lia.
      unfold zlen. cbn [length Z.of_nat]. rewrite !Z.add_0_r. reflexivity.
    + specialize (IH (pre ++ [y]) (i + 1)). rewrite <- app_assoc, zlen_app in IH. cbn [app] in IH.
      change (zlen [y]) with 1 in IH.
      destruct (assoc_find key (filtered tags r)) as [x|]; [|exact IH].
      destruct IH as (j & a & c & Hf & -> & Hx & Hj & Hk & Hn).
      exists (j + 1), (y :: a), c. rewrite Hf, zlen_cons. repeat split; auto.
      * replace (i + (j + 1)) with (i + 1 + j) by lia.
        now replace (zlen pre + (1 + zlen a)) with (zlen pre + 1 + zlen a) by lia.
      * cbn [filtered filter]. rewrite Em, zlen_cons. fold (filtered tags a). lia.
      * cbn [filtered filter]. rewrite Em. cbn [assoc_find]. now rewrite Ek.
  - specialize (IH (pre ++ [y]) i). rewrite <- app_assoc, zlen_app in IH. cbn [app] in IH.
    change (zlen [y]) with 1 in IH.
    destruct (assoc_find key (filtered tags r)) as [x|]; [|exact IH].
    destruct IH as (j & a & c & Hf & -> & Hx & Hj & Hk & Hn).
    exists j, (y :: a), c. rewrite Hf, zlen_cons. repeat split; auto.
    + now replace (zlen pre + (1 + zlen a)) with (zlen pre + 1 + zlen a) by lia.
    + cbn [filtered filter]. now rewrite Em.
    + cbn [filtered filter]. now rewrite Em.
Qed.

Lemma list_del_int_mid {A} (a c : list A) (x : A) : list_del_int (a ++ x :: c) (zlen a) = Ok (a ++ c).
Proof.
  unfold list_del_int, norm_index. pose proof (zlen_nonneg a). pose proof (zlen_nonneg c).
  rewrite zlen_app, zlen_cons.
  replace ((0 <=? zlen a) && (zlen a <? zlen a + (1 + zlen c))) with true by lia.
  now rewrite splice_one.
Qed.

Lemma list_pop_mid {A} (a c : list A) (x : A) : list_pop (a ++ x :: c) (zlen a) = Ok (x, a ++ c).
Proof.
  unfold list_pop. rewrite list_get_int_mid. unfold norm_index.
  pose proof (zlen_nonneg a). pose proof (zlen_nonneg c). rewrite zlen_app, zlen_cons.
  replace ((0 <=? zlen a) && (zlen a <? zlen a + (1 + zlen c))) with true by lia.
  now rewrite splice_one.
Qed.

Lemma matches_tag tags x y : e_tag x = e_tag y -> matches tags x = matches tags y.
Proof. unfold matches. now intros ->. Qed.

Section Mapping.
Variables (s : st) (v : view).
Hypothesis HV : ViewInv (items s) v.
Hypothesis HK : v_kind v = KNode.
Let F := filtered (v_tags v) (items s).
Let Fof (s' : st) := filtered (v_tags v) (items s').

(* what m_find returns, in terms of the association list *)
Lemma m_find_assoc key :
  match assoc_find key F with
  | None => m_find (items s) key (v_idx v) 0 = Ok None
  | Some x => exists j a c,
      m_find (items s) key (v_idx v) 0 = Ok (Some (j, zlen a, x))
      /\ items s = a ++ x :: c /\ matches (v_tags v) x = true
      /\ zlen (filtered (v_tags v) a) = j /\ e_key x = key
      /\ assoc_find key (filtered (v_tags v) a) = None
      /\ F = filtered (v_tags v) a ++ x :: filtered (v_tags v) c
  end.
Proof.
  pose proof (m_find_spec (v_tags v) key (items s) [] 0) as H. rewrite HV.
  cbn [app] in H. rewrite zlen_nil in H. fold F in H.
  destruct (assoc_find key F) as [x|]; [|exact H].
  destruct H as (j & a & c & Hf & Es & Hx & Hj & Hk & Hn).
  exists j, a, c. rewrite Hf, !Z.add_0_l. repeat split; auto.
  subst F. rewrite Es. now apply filtered_cut.
Qed.

(* m[key], key in m: KeyError exactly when the key is absent *)
Lemma m_getitem_spec raw key :
  m_getitem raw s v key =
  (s, match assoc_find key F with
      | Some x => Ok [if raw then x else value_of x] | None => Err KeyError end).
Proof.
  unfold m_getitem. pose proof (m_find_assoc key) as H.
  destruct (assoc_find key F) as [x|]; [|now rewrite H].
  destruct H as (j & a & c & -> & _). reflexivity.
Qed.

Lemma m_contains_spec key :
  m_contains s v key =
  (s, Ok [mkelem 0 0 (match assoc_find key F with Some _ => 1 | None => 0 end)]).
Proof.
  unfold m_contains. pose proof (m_find_assoc key) as H.
  destruct (assoc_find key F) as [x|]; [|now rewrite H].
  destruct H as (j & a & c & -> & _). reflexivity.
Qed.

(* del m[key] *)
Lemma m_delitem_spec key :
  match assoc_find key F with
  | None => m_delitem s v key = (s, Err KeyError)
  | Some _ => exists s', m_delitem s v key = (s', OkNone) /\ Fof s' = assoc_del key F
  end.
Proof.
  unfold m_delitem. pose proof (m_find_assoc key) as H.
  destruct (assoc_find key F) as [x|]; [|now rewrite H].
  destruct H as (j & a & c & -> & Es & Hx & Hj & Hk & Hn & EF).
  pose proof (v_delitem_spec s v HV (IInt j)) as Hd. cbv beta iota in Hd. fold F in Hd.
  rewrite EF, <- Hj, list_del_int_mid in Hd. rewrite <- Hj.
  destruct Hd as (s' & Hr & Hf). exists s'. split; [exact Hr|].
  unfold Fof. rewrite Hf. unfold assoc_del. rewrite EF. now rewrite assoc_upd_cut.
Qed.

(* m.pop(key[, default]) *)
Lemma m_pop_spec raw key dflt :
  match assoc_find key F with
  | None => m_pop raw s v key dflt = (s, if dflt then Ok [default_marker] else Err KeyError)
  | Some x => exists s', m_pop raw s v key dflt = (s', Ok [if raw then x else value_of x])
                         /\ Fof s' = assoc_del key F
  end.
Proof.
  unfold m_pop. pose proof (m_find_assoc key) as H.
  destruct (assoc_find key F) as [x|]; [|rewrite H; now destruct dflt].
  destruct H as (j & a & c & -> & Es & Hx & Hj & Hk & Hn & EF).
  pose proof (v_pop_spec s v x HV Hx j) as Hp. cbv zeta in Hp. fold F in Hp.
  rewrite EF, <- Hj, list_pop_mid in Hp. rewrite <- Hj.
  destruct Hp as (s' & Hr & Hf). rewrite Hr, HK. cbn [from_raw].
  exists s'. split; [reflexivity|].
  unfold Fof. rewrite Hf. unfold assoc_del. rewrite EF. now rewrite assoc_upd_cut.
Qed.

(* raw_meta[key] = item: replaces the first match, else appends *)
Lemma m_setitem_raw_spec key x :
  matches (v_tags v) x = true ->
  exists s', m_setitem true true s v key x = (s', OkNone)
             /\ Fof s' = match assoc_find key F with
                         | Some _ => assoc_replace key x F | None => F ++ [x] end.
Proof.
  intros HX. unfold m_setitem. pose proof (m_find_assoc key) as H.
  destruct (assoc_find key F) as [y|].
  - destruct H as (j & a & c & -> & Es & Hy & Hj & Hk & Hn & EF).
    pose proof (v_setitem_int_spec s v x HV HX j HK) as Hs. cbv zeta in Hs. fold F in Hs.
    rewrite EF, <- Hj, list_set_int_mid in Hs. rewrite <- Hj.
    destruct Hs as (s' & Hr & Hf). exists s'. split; [exact Hr|].
    unfold Fof. rewrite Hf. unfold assoc_replace. rewrite EF. now rewrite assoc_upd_cut.
  - rewrite H. apply (v_append_spec s v x HX).
Qed.

(* meta[key] = value: the first match keeps its place and identity and gets the value, else a new item
   (x, carrying key and value) is appended *)
Lemma m_setitem_value_spec key x :
  matches (v_tags v) x = true ->
  exists s', m_setitem true false s v key x = (s', OkNone)
             /\ Fof s' = match assoc_find key F with
                         | Some _ => assoc_set_value key (e_val x) F | None => F ++ [x] end.
Proof.
  intros HX. unfold m_setitem. pose proof (m_find_assoc key) as H.
  destruct (assoc_find key F) as [y|].
  - destruct H as (j & a & c & -> & Es & Hy & Hj & Hk & Hn & EF).
    rewrite Es, list_set_int_mid.
    eexists. split; [reflexivity|].
    unfold Fof, with_items. cbn [items].
    rewrite filtered_cut by (rewrite <- Hy; now apply matches_tag).
    unfold assoc_set_value. rewrite EF. now rewrite assoc_upd_cut.
  - rewrite H. apply (v_append_spec s v x HX).
Qed.

(* keys(), values(), items(): the association list in order *)
Lemma m_views_spec :
  m_keys s v = (s, Ok (map (fun x => mkelem 0 (e_key x) 0) F))
  /\ (forall raw, m_values raw s v = (s, Ok (map (fun x => if raw then x else value_of x) F)))
  /\ (forall raw, m_items raw s v
                  = (s, Ok (map (fun x => if raw then x else mkelem 0 (e_key x) (e_val x)) F))).
Proof.
  assert (Hf : fetch KNode (items s) (v_idx v) = Ok F).
  { rewrite HV, fetch_all. cbn [from_raw]. now rewrite map_id. }
  unfold m_keys, m_values, m_items. repeat split; intros; now rewrite Hf.
Qed.
End Mapping.

(* popitem(): the first item of the mapping *)
Lemma m_popitem_spec s v raw :
  ViewInv (items s) v -> v_kind v = KNode ->
  match filtered (v_tags v) (items s) with
  | [] => m_popitem raw s v = (s, Err KeyError)
  | x :: F' => exists s', m_popitem raw s v = (s', Ok [mkelem 0 (e_key x) 0; if raw then x else value_of x])
                          /\ filtered (v_tags v) (items s') = F'
  end.
Proof.
  intros HV HK. unfold m_popitem.
  pose proof (cache_entry (v_tags v) (items s) 0) as Hc. rewrite <- HV in Hc.
  destruct (v_idx v) as [|p idx'] eqn:Ei; cbn [nth_error] in Hc.
  - destruct (filtered (v_tags v) (items s)); [reflexivity|discriminate].
  - destruct Hc as (x & Hx & Hg).
    destruct (filtered (v_tags v) (items s)) as [|x0 F'] eqn:EF; [discriminate|].
    cbn [nth_error] in Hx. inversion Hx; subst x0. rewrite Hg.
    pose proof (m_pop_spec s v HV HK raw (e_key x) false) as Hp. cbv zeta in Hp. rewrite EF in Hp.
    cbn [assoc_find] in Hp. rewrite Z.eqb_refl in Hp.
    destruct Hp as (s' & Hr & Hf). rewrite Hr. exists s'. split; [reflexivity|].
    rewrite Hf. unfold assoc_del. cbn [assoc_upd]. now rewrite Z.eqb_refl.
Qed.

(* ======== the raw list itself: every mutator is the Python list operation on `items` ============ *)
Lemma set_slice_from_range {A} (l xs : list A) a b :
  0 <= a <= zlen l -> 0 <= b <= zlen l ->
  list_set_slice l (slice_from_range (mkrng a b 1)) xs = Ok (splice l a b xs).
Proof.
  intros Ha Hb. unfold slice_from_range. cbn [r_step r_start r_stop].
  replace (b =? -1) with false by lia.
  unfold list_set_slice, slice_indices. cbn [sl_step sl_start sl_stop]. cbn [Z.eqb Z.ltb Z.compare].
  replace (a <? 0) with false by lia. replace (b <? 0) with false by lia.
  replace (Z.min a (zlen l)) with a by lia. now replace (Z.min b (zlen l)) with b by lia.
Qed.

Lemma raw_setitem_slice_spec s sl xs :
  match list_set_slice (items s) sl xs with
  | Ok l => exists s', raw_setitem_slice true s sl xs = (s', OkNone) /\ items s' = l
  | Err e => raw_setitem_slice true s sl xs = (s, Err e)
  end.
Proof.
  unfold raw_setitem_slice, range_from_index, range_getslice.
  assert (Hspec : list_set_slice (items s) sl xs =
                  match slice_indices (zlen (items s)) sl with
                  | Err e => Err e
                  | Ok (a, b, k) =>
                      if k =? 1 then Ok (splice (items s) a b xs)
                      else if range_len (mkrng a b k) =? zlen xs
                           then Ok (fst (assign_each (items s) (range_list (mkrng a b k)) xs))
                           else Err ValueError
                  end) by reflexivity.
  rewrite Hspec. clear Hspec.
  pose proof (zlen_nonneg (items s)) as Hn.
  destruct (slice_indices (zlen (items s)) sl) as [[[a b] k]|e] eqn:E; [|reflexivity].
  cbn [r_step r_start r_stop].
  destruct (k =? 1) eqn:Ek.
  - assert (k = 1) by lia. subst k.
    destruct (slice_indices_range _ _ _ _ _ Hn E) as (_ & Hpos & _). destruct (Hpos ltac:(lia)).
    rewrite set_slice_from_range by assumption. eexists. split; reflexivity.
  - destruct (range_len (mkrng a b k) =? zlen xs); cbn [negb]; [|reflexivity].
    pose proof (assign_each_ok (range_list (mkrng a b k)) (items s) xs
                  (range_list_bounds _ _ _ _ _ Hn E)) as Hok.
    destruct (assign_each (items s) (range_list (mkrng a b k)) xs) as [its [u|e]];
      cbn [fst snd] in *; [|discriminate]. eexists. split; reflexivity.
Qed.

Lemma raw_list_semantics s :
  let its := items s in
  (forall i x, match list_set_int its i x with
               | Ok l => exists s', raw_setitem true s (IInt i) [x] = (s', OkNone) /\ items s' = l
               | Err e => raw_setitem true s (IInt i) [x] = (s, Err e) end)
  /\ (forall sl xs, match list_set_slice its sl xs with
                    | Ok l => exists s', raw_setitem true s (ISlice sl) xs = (s', OkNone) /\ items s' = l
                    | Err e => raw_setitem true s (ISlice sl) xs = (s, Err e) end)
  /\ (forall index,
        match (match index with IInt i => list_del_int its i | ISlice sl => list_del_slice its sl end) with
        | Ok l => exists s', raw_delitem true s index = (s', OkNone) /\ items s' = l
        | Err e => raw_delitem true s index = (s, Err e) end)
  /\ (forall i x, exists s', raw_insert true s i x = (s', OkNone) /\ items s' = list_insert its i x)
  /\ (forall xs, exists s', raw_extend s xs = (s', OkNone) /\ items s' = its ++ xs)
  /\ (forall x, exists s', raw_append s x = (s', OkNone) /\ items s' = its ++ [x])
  /\ (exists s', raw_clear s = (s', OkNone) /\ items s' = [])
  /\ (forall i, match list_pop its i with
                | Ok (y, l) => exists s', raw_pop s i = (s', Ok [y]) /\ items s' = l
                | Err e => raw_pop s i = (s, Err e) end)
  /\ (forall ps, match norm_all (zlen its) ps with
                 | Ok qs => exists s', raw_drop_many s ps = (s', OkNone) /\ items s' = remove_positions qs its
                 | Err e => raw_drop_many s ps = (s, Err IndexError) end).
Proof.
  intros its. pose proof (zlen_nonneg its) as Hn. subst its.
  split; [|split; [|split; [|split; [|split; [|split; [|split; [|split]]]]]]].
  - intros i x. cbn [raw_setitem]. unfold raw_setitem_int, list_get_int, list_set_int.
    destruct (norm_index (zlen (items s)) i) as [j|e] eqn:E; [|reflexivity].
    pose proof (norm_index_ok _ _ _ E) as (Hj & _).
    destruct (nth_error (items s) (Z.to_nat j)) eqn:En.
    + eexists. split; reflexivity.
    + apply nth_error_None in En. unfold zlen in Hj. lia.
  - intros sl xs. exact (raw_setitem_slice_spec s sl xs).
  - intros index. unfold raw_delitem, range_from_index. destruct index as [i|sl].
    + unfold list_del_int. destruct (norm_index (zlen (items s)) i) as [j|e] eqn:E.
      * pose proof (norm_index_ok _ _ _ E) as (Hj & _). cbn [r_step Z.eqb Pos.eqb].
        pose proof (raw_setitem_slice_spec s (slice_from_range (mkrng j (j + 1) 1)) []) as H.
        rewrite set_slice_from_range in H by lia. exact H.
      * apply norm_index_err in E. now destruct E as (-> & _).
    + unfold list_del_slice, range_getslice.
      destruct (slice_indices (zlen (items s)) sl) as [[[a b] k]|e] eqn:E; [|reflexivity].
      cbn [r_step]. destruct (k =? 1) eqn:Ek.
      * assert (k = 1) by lia. subst k.
        destruct (slice_indices_range _ _ _ _ _ Hn E) as (_ & Hpos & _). destruct (Hpos ltac:(lia)).
        pose proof (raw_setitem_slice_spec s (slice_from_range (mkrng a b 1)) []) as Hs.
        rewrite set_slice_from_range in Hs by lia. exact Hs.
      * rewrite raw_drop_many_valid by (eapply range_list_bounds; eauto).
        eexists. split; reflexivity.
  - intros i x. eexists. split; [reflexivity|].
    unfold raw_insert, notify_splice, with_items. cbn [fst items andb].
    set (n := zlen (items s)) in *.
    set (j := Z.min (if i <? 0 then Z.max (i + n) 0 else i) n).
    assert (Hj : 0 <= j <= n) by (subst j; destruct (i <? 0) eqn:Ei; lia).
    unfold list_insert. fold n. rewrite (insert_pos_id n j Hj).
    assert (Hi : insert_pos n i = j).
    { rewrite insert_pos_cases. subst j. split_ifs; lia. }
    now rewrite Hi.
  - intros xs. eexists. split; reflexivity.
  - intros x. eexists. split; reflexivity.
  - eexists. split; reflexivity.
  - intros i. unfold raw_pop, range_from_index, list_pop.
    destruct (list_get_int (items s) i) as [y|e] eqn:Eg; [|reflexivity].
    destruct (norm_index (zlen (items s)) i) as [j|e] eqn:E.
    + eexists. split; reflexivity.
    + unfold list_get_int in Eg. rewrite E in Eg. discriminate.
  - intros ps. unfold raw_drop_many.
    destruct (norm_all (zlen (items s)) ps) as [qs|e] eqn:E.
    + eexists. split; reflexivity.
    + f_equal. f_equal. clear -E. revert e E. induction ps as [|p ps IH]; intros e E; [discriminate|].
      cbn [norm_all] in E. destruct (norm_index (zlen (items s)) p); [|now inversion E].
      destruct (norm_all (zlen (items s)) ps); [discriminate|]. inversion E; subst. now apply IH.
Qed.

(* raw.reverse() (fixes/repeated-reverse.patch): the raw list reversed *)
Lemma raw_pop_last s a y :
  items s = a ++ [y] -> exists s', raw_pop s (-1) = (s', Ok [y]) /\ items s' = a.
Proof.
  intros Es. unfold raw_pop, range_from_index, list_pop, list_get_int.
  pose proof (zlen_nonneg a).
  assert (Hn : norm_index (zlen (items s)) (-1) = Ok (zlen a)).
  { unfold norm_index. rewrite Es, zlen_app. change (zlen [y]) with 1.
    replace ((0 <=? -1) && (-1 <? zlen a + 1)) with false by lia.
    replace ((-1 <? 0) && (0 <=? -1 + (zlen a + 1))) with true by lia. f_equal. lia. }
  rewrite Hn. rewrite Es, nth_error_mid. cbn [r_start r_stop].
  eexists. split; [reflexivity|]. unfold notify_splice, with_items. cbn [items].
  rewrite splice_one. now rewrite app_nil_r.
Qed.

Lemma raw_pop_all_spec : forall l s acc,
  items s = l ->
  exists s', raw_pop_all (length l) s acc = (s', Ok (acc ++ rev l)) /\ items s' = [].
Proof.
  induction l as [|y a IH] using rev_ind; intros s acc Es.
  - exists s. cbn. now rewrite app_nil_r.
  - rewrite app_length, Nat.add_comm. cbn [length Nat.add raw_pop_all].
    destruct (raw_pop_last s a y Es) as (s1 & Hp & Hi). rewrite Hp.
    destruct (IH s1 (acc ++ [y]) Hi) as (s' & Hr & Hi'). exists s'. split; [|exact Hi'].
    rewrite Hr, rev_app_distr. cbn [rev app]. now rewrite <- app_assoc.
Qed.

Lemma raw_reverse_spec s :
  exists s', raw_reverse s = (s', OkNone) /\ items s' = rev (items s).
Proof.
  unfold raw_reverse. destruct (raw_pop_all_spec (items s) s [] eq_refl) as (s1 & Hr & Hi).
  rewrite Hr. eexists. split; [reflexivity|].
  unfold raw_extend, notify_splice, with_items. cbn [fst items]. now rewrite Hi.
Qed.

(* ---- the dict views keys() / values() / items() -------------------------------------------------- *)
Lemma fetch_rev k its : forall ps xs, fetch k its ps = Ok xs -> fetch k its (rev ps) = Ok (rev xs).
Proof.
  induction ps as [|p ps IH]; intros xs H; cbn [fetch rev] in *.
  - inversion H. reflexivity.
  - destruct (list_get_int its p) as [x|] eqn:Eg; [|discriminate].
    destruct (fetch k its ps) as [xs'|]; [|discriminate]. inversion H; subst.
    rewrite fetch_app, (IH xs' eq_refl). cbn [fetch rev]. now rewrite Eg.
Qed.

Lemma m_dict_spec s v which raw q :
  ViewInv (items s) v ->
  let L := map (dv_conv which raw) (filtered (v_tags v) (items s)) in
  m_dict which raw q s v =
  (s, Ok (match q with
          | DIter => L
          | DLen => [mkelem 0 0 (zlen L)]
          | DReversed => rev L
          | DIn x => [mkelem 0 0 (if existsb (fun y => elem_eqb y x) L then 1 else 0)]
          end)).
Proof.
  intros HV L.
  assert (Hf : fetch KNode (items s) (v_idx v) = Ok (filtered (v_tags v) (items s))).
  { rewrite HV, fetch_all. cbn [from_raw]. now rewrite map_id. }
  unfold m_dict. destruct q.
  - now rewrite Hf.
  - subst L. rewrite zlen_map, HV. now rewrite positions_length.
  - rewrite (fetch_rev _ _ _ _ Hf). subst L. now rewrite map_rev.
  - now rewrite Hf.
Qed.

(* view += values, raw += values: extend, then the no-op self-assignment *)
Lemma iadd_spec s v xs :
  forallb (matches (v_tags v)) xs = true ->
  (exists s', v_iadd s xs = (s', OkNone) /\ filtered (v_tags v) (items s') = filtered (v_tags v) (items s) ++ xs)
  /\ (exists s', raw_iadd s xs = (s', OkNone) /\ items s' = items s ++ xs /\ views s' = map (handle_splice (zlen (items s)) (zlen (items s)) xs) (views s)).
Proof.
  intros H. split; [exact (v_extend_spec s v xs H)|].
  eexists. split; [reflexivity|]. split; reflexivity.
Qed.
