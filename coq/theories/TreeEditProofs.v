(* Proofs about edits on the generic tree model (TreeEdit.v): replacing a sub-tree preserves the
   hereditary well-formedness invariant HWF (hence TreeWF.WF, the C05 statement). *)
From AB Require Import Desc Tree TreeDefs TreeProofs TreeProofs2 TreeProofs3 TreeProofs4 TreeWF TreeWFProofs.
From AB Require Import Construct ConstructProofs ConstructWF TreeEdit.
From Coq Require Import ZArith List Bool Lia.
Import ListNotations.
Open Scope list_scope.

(* ---- lists ---------------------------------------------------------------------------------------- *)
Lemma tk_same_refl : forall t, tk_same t t = true.
Proof. intro t. unfold tk_same. rewrite Z.eqb_refl, tk_eqb_refl. reflexivity. Qed.

Lemma toks_same_refl : forall l, toks_same l l = true.
Proof. apply list_eqb_refl. exact tk_same_refl. Qed.

Lemma tk_same_ids : forall x y, k_id x <> k_id y -> tk_same x y = false.
Proof. intros x y H. unfold tk_same. apply Z.eqb_neq in H. rewrite H. reflexivity. Qed.

Lemma find_off_app : forall pre x r, NoDup (ids (pre ++ x :: r)) -> find_off x (pre ++ x :: r) = Some (length pre).
Proof.
  induction pre as [|y pre IH]; intros x r H; simpl.
  - rewrite tk_same_refl. reflexivity.
  - simpl in H. inversion H as [|? ? Hni Hnd]. subst. rewrite tk_same_ids.
    + rewrite (IH _ _ Hnd). reflexivity.
    + intro E. apply Hni. rewrite <- E. fold (ids (pre ++ x :: r)). rewrite ids_app. apply in_or_app. right. left. reflexivity.
Qed.

Lemma replace_infix_inv : forall O N T T', replace_infix O N T = Some T' ->
  exists pre post, T = pre ++ O ++ post /\ T' = pre ++ N ++ post /\ O <> [].
Proof.
  intros O N T T' H. unfold replace_infix in H. destruct O as [|x O]; try discriminate.
  destruct (find_off x T) as [a|] eqn:Ea; try discriminate.
  remember (length (x :: O)) as L eqn:EL.
  destruct (toks_same (slice T a (a + L)) (x :: O)) eqn:Es; try discriminate.
  inversion H. subst T'. apply toks_same_eq in Es.
  exists (firstn a T), (skipn (a + L) T). split; [|split; [reflexivity|discriminate]].
  rewrite <- Es. unfold slice. replace (a + L - a) with L by lia.
  rewrite <- (firstn_skipn a T) at 1. f_equal.
  rewrite <- (firstn_skipn L (skipn a T)) at 1. f_equal.
  rewrite skipn_skipn'. reflexivity.
Qed.

Lemma firstn_app_len : forall {A} (p r : list A), firstn (length p) (p ++ r) = p.
Proof. intros. rewrite firstn_app, firstn_all, Nat.sub_diag. simpl. apply app_nil_r. Qed.

Lemma skipn_app_len : forall {A} (p r : list A), skipn (length p) (p ++ r) = r.
Proof. intros. rewrite skipn_app, skipn_all, Nat.sub_diag. reflexivity. Qed.

Lemma replace_infix_spec : forall pre O post N, NoDup (ids (pre ++ O ++ post)) -> O <> [] ->
  replace_infix O N (pre ++ O ++ post) = Some (pre ++ N ++ post).
Proof.
  intros pre O post N Hnd Hne. unfold replace_infix. destruct O as [|x O]; [contradiction|].
  remember (x :: O) as U eqn:EU.
  assert (Ef : find_off x (pre ++ U ++ post) = Some (length pre)).
  { subst U. change ((x :: O) ++ post) with (x :: (O ++ post)) in *. apply find_off_app. exact Hnd. }
  rewrite Ef, slice_mid, toks_same_refl. f_equal.
  rewrite firstn_app_len. f_equal. f_equal.
  rewrite <- skipn_skipn', skipn_app_len, skipn_app_len. reflexivity.
Qed.

(* ---- woven ------------------------------------------------------------------------------------------ *)
Lemma woven_b_sound : forall us T, woven_b T us = true -> woven T us.
Proof.
  induction us as [|u us IH]; intros T H; simpl in *; auto.
  destruct u as [|x u].
  - exists [], T. split; auto.
  - destruct (find_off x T) as [a|] eqn:Ea; try discriminate.
    apply andb_true_iff in H. destruct H as [H1 H2]. apply toks_same_eq in H1.
    remember (length (x :: u)) as L eqn:EL.
    exists (firstn a T), (skipn (a + L) T). split; [|apply IH; exact H2].
    rewrite <- H1. unfold slice. replace (a + L - a) with L by lia.
    rewrite <- (firstn_skipn a T) at 1. f_equal.
    rewrite <- (firstn_skipn L (skipn a T)) at 1. f_equal.
    rewrite skipn_skipn'. reflexivity.
Qed.

Lemma woven_units_in : forall us T, woven T us -> forall v t, In v us -> In t v -> In t T.
Proof.
  induction us as [|u us IH]; intros T H v t Hv Ht; [destruct Hv|].
  destruct H as (g & T' & E & Hw). subst T. apply in_or_app. right. apply in_or_app.
  destruct Hv as [E|Hv]; [subst; left; exact Ht|right; eapply IH; eauto].
Qed.

Lemma woven_split : forall us1 u us2 T, woven T (us1 ++ u :: us2) ->
  exists P Q, T = P ++ u ++ Q
    /\ (forall v t, In v us1 -> In t v -> In t P)
    /\ (forall v t, In v us2 -> In t v -> In t Q)
    /\ (forall u', woven (P ++ u' ++ Q) (us1 ++ u' :: us2)).
Proof.
  induction us1 as [|v us1 IH]; intros u us2 T H; simpl in H.
  - destruct H as (g & T' & E & Hw). exists g, T'. split; [exact E|]. split; [intros ? ? []|]. split.
    + intros v t Hv Ht. eapply woven_units_in; eauto.
    + intro u'. simpl. exists g, T'. auto.
  - destruct H as (g & T' & E & Hw). destruct (IH _ _ _ Hw) as (P & Q & E' & H1 & H2 & H3).
    exists (g ++ v ++ P), Q. subst. split; [rewrite <- !app_assoc; reflexivity|]. split; [|split; auto].
    + intros w t [Ew|Hw'] Ht.
      * subst w. apply in_or_app. right. apply in_or_app. left. exact Ht.
      * apply in_or_app. right. apply in_or_app. right. eapply H1; eauto.
    + intro u'. simpl. exists g, (P ++ u' ++ Q). split; [rewrite <- !app_assoc; reflexivity|apply H3].
Qed.

Lemma woven_placed : forall us T prefix, woven T us ->
  exists sp, Forall2 (placed (prefix ++ T)) us sp /\ sorted_from (length prefix) sp.
Proof.
  induction us as [|u us IH]; intros T prefix H.
  - exists []. split; constructor.
  - destruct H as (g & T' & E & Hw). subst T.
    destruct (IH T' (prefix ++ g ++ u) Hw) as (sp & H1 & H2).
    exists ((length prefix + length g, length prefix + length g + length u) :: sp). split.
    + constructor.
      * split; simpl; auto.
        replace (prefix ++ g ++ u ++ T') with ((prefix ++ g) ++ u ++ T') by (rewrite <- !app_assoc; reflexivity).
        rewrite <- app_length. apply slice_mid.
      * replace (prefix ++ g ++ u ++ T') with ((prefix ++ g ++ u) ++ T') by (rewrite <- !app_assoc; reflexivity).
        exact H1.
    + simpl. repeat split; try lia. eapply sorted_from_le; eauto. rewrite !app_length. lia.
Qed.

Lemma woven_local_ok : forall T us, woven T us -> local_ok T us.
Proof.
  intros T us H. destruct (woven_placed us T [] H) as (sp & H1 & H2). simpl in *.
  exists sp. split; auto. apply ordered_of_sorted. exact H2.
Qed.

(* ---- first/last token: monotone in fuel, a leaf, and how it changes when one child changes --------- *)
Section Border.
Variable cs : classes_t.

Lemma eval_chain_mono : forall (get get' : string -> side -> option (option tk)) ch t,
  (forall n s v, get n s = Some v -> get' n s = Some v) ->
  eval_chain get ch = Some t -> eval_chain get' ch = Some t.
Proof.
  intros get get' ch t H. induction ch as [|[f s|f s] ch IH]; simpl; intro E; try discriminate;
    destruct (get f s) as [[t'|]|] eqn:Eg; try discriminate; rewrite (H _ _ _ Eg); auto.
Qed.

Lemma slot_border_mono : forall (b b' : node -> option tk) sd sl v,
  (forall x t, b x = Some t -> b' x = Some t) ->
  slot_border b sd sl = Some v -> slot_border b' sd sl = Some v.
Proof.
  intros b b' sd sl v H E. destruct sl as [x|[x|]|s t ph items|items]; simpl in *.
  - destruct (b x) eqn:Eb; try discriminate. rewrite (H _ _ Eb). exact E.
  - destruct (b x) eqn:Eb; try discriminate. rewrite (H _ _ Eb). exact E.
  - exact E.
  - destruct sd; auto. destruct (rev items) as [|y r]; auto.
    destruct (b y) eqn:Eb; try discriminate. rewrite (H _ _ Eb). exact E.
  - destruct (match sd with SFirst => items | SLast => rev items end) as [|y r]; auto.
    destruct (b y) eqn:Eb; try discriminate. rewrite (H _ _ Eb). exact E.
Qed.

Lemma border_mono : forall fuel sd n t, border cs fuel sd n = Some t -> border cs (S fuel) sd n = Some t.
Proof.
  induction fuel as [|fuel IH]; intros sd n t H; [destruct n; discriminate|].
  destruct n as [t0|c s T kids d]; [exact H|].
  rewrite border_tree in *. destruct (find_class cs c) as [dd|]; try discriminate.
  eapply eval_chain_mono; [|exact H]. intros g s' v Hv. simpl in Hv |- *.
  destruct (kid kids g) as [sl|]; try discriminate.
  eapply slot_border_mono; [|exact Hv]. intros x t' Hx. apply IH. exact Hx.
Qed.

Lemma border_mono_le : forall fuel fuel' sd n t, fuel <= fuel' ->
  border cs fuel sd n = Some t -> border cs fuel' sd n = Some t.
Proof. intros fuel fuel' sd n t Hle H. induction Hle; auto. apply border_mono. auto. Qed.

Lemma slot_border_mono_le : forall fuel fuel' sd s sl v, fuel <= fuel' ->
  slot_border (border cs fuel s) sd sl = Some v -> slot_border (border cs fuel' s) sd sl = Some v.
Proof.
  intros fuel fuel' sd s sl v Hle H. eapply slot_border_mono; [|exact H].
  intros x t Hx. eapply border_mono_le; eauto.
Qed.

Lemma eval_chain_from : forall (get : string -> side -> option (option tk)) ch t,
  eval_chain get ch = Some t -> exists g s, get g s = Some (Some t).
Proof.
  intros get ch t. induction ch as [|[f s|f s] ch IH]; simpl; intro E; try discriminate;
    destruct (get f s) as [[t'|]|] eqn:Eg; try discriminate; auto; inversion E; subst; eauto.
Qed.

Lemma slot_border_in_leaves : forall (b : node -> option tk) sd sl t,
  (forall x t', b x = Some t' -> In t' (leaves x)) ->
  slot_border b sd sl = Some (Some t) -> In t (slot_leaves sl).
Proof.
  intros b sd sl t Hb E. destruct sl as [x|[x|]|s T ph items|items]; simpl in *.
  - destruct (b x) eqn:Eb; inversion E. subst. auto.
  - destruct (b x) eqn:Eb; inversion E. subst. auto.
  - discriminate.
  - destruct sd; [inversion E; left; reflexivity|].
    destruct (rev items) as [|y r] eqn:Er; [inversion E; left; reflexivity|].
    destruct (b y) eqn:Eb; inversion E. subst. right. apply in_flat_map. exists y. split; auto.
    apply in_rev. rewrite Er. left. reflexivity.
  - destruct sd.
    + destruct items as [|y r]; try discriminate. destruct (b y) eqn:Eb; inversion E. subst.
      apply in_flat_map. exists y. split; [left; reflexivity|auto].
    + destruct (rev items) as [|y r] eqn:Er; try discriminate. destruct (b y) eqn:Eb; inversion E. subst.
      apply in_flat_map. exists y. split; auto. apply in_rev. rewrite Er. left. reflexivity.
Qed.

Lemma border_in_leaves : forall fuel sd n t, border cs fuel sd n = Some t -> In t (leaves n).
Proof.
  induction fuel as [|fuel IH]; intros sd n t H; [destruct n; discriminate|].
  destruct n as [t0|c s T kids d]; [inversion H; left; reflexivity|].
  rewrite border_tree in H. destruct (find_class cs c) as [dd|]; try discriminate.
  apply eval_chain_from in H. destruct H as (g & s' & Hg). simpl in Hg.
  destruct (kid kids g) as [sl|] eqn:Ek; try discriminate.
  rewrite leaves_tree. apply In_kids_flat. exists g, sl. split; [apply kid_In; exact Ek|].
  eapply slot_border_in_leaves; [|exact Hg]. intros x t' Hx. eapply IH. exact Hx.
Qed.

(* the chain after one field's value changed: unchanged (and then it came from another field), or it
   was that field's value and is now the new one *)
Lemma chain_replace : forall (get get' : string -> side -> option (option tk)) f sd a a' fs,
  get f sd = Some (Some a) -> get' f sd = Some (Some a') ->
  (forall g, g <> f -> get' g sd = get g sd) ->
  (eval_chain get' (scheme_chain sd fs) = eval_chain get (scheme_chain sd fs)
   /\ forall t, eval_chain get (scheme_chain sd fs) = Some t -> exists g, g <> f /\ get g sd = Some (Some t))
  \/ (eval_chain get (scheme_chain sd fs) = Some a /\ eval_chain get' (scheme_chain sd fs) = Some a').
Proof.
  intros get get' f sd a a' fs Hf Hf' Hother. induction fs as [|fd r IH]; simpl.
  - left. split; auto. intros t E. discriminate.
  - destruct (String.eqb (f_name fd) f) eqn:En.
    + apply String.eqb_eq in En. right. destruct (f_kind fd); simpl; rewrite En, Hf, Hf'; auto.
    + apply String.eqb_neq in En. pose proof (Hother _ En) as Hg.
      destruct (f_kind fd); simpl; rewrite Hg; destruct (get (f_name fd) sd) as [[t|]|] eqn:Eg;
        try (left; split; [reflexivity|intros t0 E0; inversion E0; subst; eauto; discriminate]);
        try exact IH;
        try (left; split; [reflexivity|intros t0 E0; discriminate]).
Qed.
End Border.

(* ---- ends of a token list ---------------------------------------------------------------------------- *)
Definition endtok (sd : side) (L : list tk) : option tk :=
  match sd with SFirst => hd_error L | SLast => hd_error (rev L) end.
Definition outer (sd : side) (P Q : list tk) : list tk := match sd with SFirst => P | SLast => Q end.

Lemma endtok_in : forall sd L t, endtok sd L = Some t -> In t L.
Proof.
  intros [|] L t H; simpl in H.
  - destruct L; inversion H. left. reflexivity.
  - apply in_rev. destruct (rev L); inversion H. left. reflexivity.
Qed.

Lemma endtok_some : forall sd L, L <> [] -> exists t, endtok sd L = Some t.
Proof.
  intros [|] L H; simpl.
  - destruct L as [|x L]; [contradiction|exists x; reflexivity].
  - destruct (rev L) as [|x r] eqn:E; [|exists x; reflexivity].
    exfalso. apply H. rewrite <- (rev_involutive L), E. reflexivity.
Qed.

Lemma endtok_outer_nil : forall sd P U Q, U <> [] -> outer sd P Q = [] -> endtok sd (P ++ U ++ Q) = endtok sd U.
Proof.
  intros [|] P U Q HU H; simpl in *; subst.
  - simpl. destruct U; [contradiction|reflexivity].
  - rewrite app_nil_r. apply hd_rev_app. exact HU.
Qed.

Lemma endtok_outer_cons : forall sd P U U' Q, outer sd P Q <> [] ->
  endtok sd (P ++ U' ++ Q) = endtok sd (P ++ U ++ Q).
Proof.
  intros [|] P U U' Q H; simpl in *.
  - destruct P; [contradiction|reflexivity].
  - rewrite !app_assoc. rewrite !hd_rev_app by exact H. reflexivity.
Qed.

Lemma ends_outer : forall sd P U Q, NoDup (ids (P ++ U ++ Q)) -> U <> [] ->
  endtok sd (P ++ U ++ Q) = endtok sd U -> outer sd P Q = [].
Proof.
  intros sd P U Q Hnd HU E. destruct (outer sd P Q) as [|z zs] eqn:Eo; [reflexivity|exfalso].
  destruct (endtok_some sd U HU) as (t & Et).
  assert (Ez : exists t0, endtok sd (P ++ U ++ Q) = Some t0 /\ In t0 (outer sd P Q)).
  { destruct sd; simpl in *.
    - subst P. simpl. eexists. split; [reflexivity|left; reflexivity].
    - subst Q. rewrite !app_assoc, rev_app_distr. destruct (rev (z :: zs)) as [|w ws] eqn:Er.
      + exfalso. assert (z :: zs = []) by (rewrite <- (rev_involutive (z :: zs)), Er; reflexivity). discriminate.
      + exists w. split; [reflexivity|]. apply (proj2 (in_rev (z :: zs) w)). rewrite Er. left. reflexivity. }
  destruct Ez as (t0 & Et0 & Hin). rewrite E, Et in Et0. inversion Et0. subst t0.
  pose proof (endtok_in _ _ _ Et) as HtU.
  destruct sd; simpl in Hin.
  - exact (NoDup_ids_disjoint P (U ++ Q) t t Hnd Hin (in_or_app _ _ _ (or_introl HtU)) eq_refl).
  - rewrite app_assoc in Hnd.
    exact (NoDup_ids_disjoint (P ++ U) Q t t Hnd (in_or_app _ _ _ (or_intror HtU)) Hin eq_refl).
Qed.

Lemma dup_leaves : forall kids g f slg slf t, kid kids g = Some slg -> kid kids f = Some slf -> g <> f ->
  In t (slot_leaves slg) -> In t (slot_leaves slf) -> ~ NoDup (ids (kids_flat slot_leaves kids)).
Proof.
  induction kids as [|[k sl] kids IH]; intros g f slg slf t Hg Hf Hne Htg Htf Hnd; simpl in Hg; try discriminate.
  simpl in Hf.
  change (kids_flat slot_leaves ((k, sl) :: kids)) with (slot_leaves sl ++ kids_flat slot_leaves kids) in Hnd.
  destruct (String.eqb k g) eqn:Eg, (String.eqb k f) eqn:Ef.
  - apply String.eqb_eq in Eg. apply String.eqb_eq in Ef. congruence.
  - inversion Hg. subst sl.
    assert (Hin2 : In t (kids_flat slot_leaves kids))
      by (apply In_kids_flat; exists f, slf; split; auto; apply kid_In; exact Hf).
    exact (NoDup_ids_disjoint _ _ t t Hnd Htg Hin2 eq_refl).
  - inversion Hf. subst sl.
    assert (Hin2 : In t (kids_flat slot_leaves kids))
      by (apply In_kids_flat; exists g, slg; split; auto; apply kid_In; exact Hg).
    exact (NoDup_ids_disjoint _ _ t t Hnd Htf Hin2 eq_refl).
  - apply NoDup_ids_app_r in Hnd. exact (IH g f slg slf t Hg Hf Hne Htg Htf Hnd).
Qed.

Lemma kid_set_kid : forall kids f sl sl' g, kid kids f = Some sl ->
  kid (set_kid kids f sl') g = if String.eqb f g then Some sl' else kid kids g.
Proof.
  induction kids as [|[k s] kids IH]; intros f sl sl' g H; simpl in H; try discriminate. simpl.
  destruct (String.eqb k f) eqn:Ef.
  - apply String.eqb_eq in Ef. subst k. simpl. destruct (String.eqb f g); reflexivity.
  - simpl. rewrite (IH _ _ sl' g H). destruct (String.eqb k g) eqn:Eg; auto.
    destruct (String.eqb f g) eqn:Efg; auto.
    apply String.eqb_eq in Eg. apply String.eqb_eq in Efg. subst. rewrite String.eqb_refl in Ef. discriminate.
Qed.

(* ---- one level: a tree node whose child unit U at field f becomes U' -------------------------------- *)
Section Level.
Variable cs : classes_t.
Hypothesis Hok : classes_ok cs.

Definition slot_end (fuel : nat) (sd : side) (sl : slot) (U : list tk) : Prop :=
  slot_border (border cs fuel sd) sd sl = Some (endtok sd U).

Lemma tree_side : forall c s T T' kids d f sl sl' P U U' Q sd fuel m,
  kid kids f = Some sl -> T = P ++ U ++ Q -> T' = P ++ U' ++ Q -> U <> [] -> U' <> [] ->
  NoDup (ids T) -> NoDup (ids (kids_flat slot_leaves kids)) ->
  slot_end m sd sl U -> slot_end m sd sl' U' -> S m >= fuel ->
  slot_border (border cs fuel sd) sd (SReq (Tree c s T kids d)) = Some (endtok sd T) ->
  slot_border (border cs (S m) sd) sd (SReq (Tree c s T' (set_kid kids f sl') d)) = Some (endtok sd T').
Proof.
  intros c s T T' kids d f sl sl' P U U' Q sd fuel m Hk ET ET' HU HU' Hnd Hndl Hsl Hsl' Hfuel HA.
  cbn [slot_border] in HA |- *.
  destruct (border cs fuel sd (Tree c s T kids d)) as [t|] eqn:Eb; try discriminate.
  inversion HA as [Ht]. clear HA.
  apply (border_mono_le cs fuel (S m)) in Eb; [|lia].
  rewrite border_tree in Eb |- *. destruct (find_class cs c) as [dd|] eqn:Ec; try discriminate.
  destruct (classes_ok_find _ _ _ Hok Ec) as [_ _ _ _ _ _ _ Hfirst Hlast].
  destruct (endtok_some sd U HU) as (a & Ea). destruct (endtok_some sd U' HU') as (a' & Ea').
  unfold slot_end in Hsl, Hsl'. rewrite Ea in Hsl. rewrite Ea' in Hsl'.
  set (get := fun (name : string) (s' : side) =>
                match kid kids name with Some sl0 => slot_border (border cs m s') s' sl0 | None => None end) in *.
  set (get' := fun (name : string) (s' : side) =>
                 match kid (set_kid kids f sl') name with Some sl0 => slot_border (border cs m s') s' sl0 | None => None end).
  assert (Hgf : get f sd = Some (Some a)) by (unfold get; rewrite Hk; exact Hsl).
  assert (Hgf' : get' f sd = Some (Some a')).
  { unfold get'. rewrite (kid_set_kid _ _ _ _ _ Hk), String.eqb_refl. exact Hsl'. }
  assert (Hother : forall g, g <> f -> get' g sd = get g sd).
  { intros g Hg. unfold get', get. rewrite (kid_set_kid _ _ _ _ _ Hk).
    destruct (String.eqb f g) eqn:E; auto. apply String.eqb_eq in E. congruence. }
  assert (Hchain : exists fs, (match sd with SFirst => c_first dd | SLast => c_last dd end) = scheme_chain sd fs).
  { destruct sd; [exists (c_fields dd); exact Hfirst | exists (rev (c_fields dd)); exact Hlast]. }
  destruct Hchain as (fs & Ech). rewrite Ech in *.
  destruct (chain_replace get get' f sd a a' fs Hgf Hgf' Hother) as [[Hsame Hfrom]|[Hold Hnew]].
  - rewrite Hsame, Eb. f_equal. subst T T'. rewrite Ht.
    symmetry. apply endtok_outer_cons. intro Ho.
    destruct (Hfrom t Eb) as (g & Hgne & Hg).
    rewrite (endtok_outer_nil sd P U Q HU Ho), Ea in Ht. inversion Ht. subst t.
    unfold get in Hg. destruct (kid kids g) as [slg|] eqn:Ekg; try discriminate.
    apply (dup_leaves kids g f slg sl a Ekg Hk Hgne); auto.
    + eapply slot_border_in_leaves; [|exact Hg]. intros x t' Hx. eapply border_in_leaves; eauto.
    + eapply slot_border_in_leaves; [|exact Hsl]. intros x t' Hx. eapply border_in_leaves; eauto.
  - rewrite Hnew. f_equal. rewrite Hold in Eb. inversion Eb. subst t.
    subst T T'. rewrite <- Ea in Ht.
    rewrite (endtok_outer_nil sd P U' Q HU'); [symmetry; exact Ea'|].
    eapply ends_outer; eauto.
Qed.
End Level.

Section Level2.
Variable cs : classes_t.
Hypothesis Hok : classes_ok cs.

(* the first/last token of the slot is the first/last token of U, at every large enough fuel *)
Definition ends_ok (sl : slot) (U : list tk) : Prop :=
  exists m0, forall m sd, m0 <= m -> slot_border (border cs m sd) sd sl = Some (endtok sd U).

Lemma first_last_ends : forall u, first_last cs u -> exempt u = false -> ends_ok (unit_slot u) (unit_toks u).
Proof.
  intros u (_ & [He|(fuel & Hf & Hl)]) Hex; [congruence|].
  exists fuel. intros m [|] Hm; simpl endtok; eapply slot_border_mono_le; eauto.
Qed.

Lemma ends_first_last : forall u, unit_toks u <> [] -> ends_ok (unit_slot u) (unit_toks u) -> first_last cs u.
Proof.
  intros u Hne (m0 & H). split; [exact Hne|]. right. exists m0. split.
  - apply (H m0 SFirst). lia.
  - apply (H m0 SLast). lia.
Qed.

Lemma tree_ends : forall c s T T' kids d f sl sl' P U U' Q,
  kid kids f = Some sl -> T = P ++ U ++ Q -> T' = P ++ U' ++ Q -> U <> [] -> U' <> [] ->
  NoDup (ids T) -> NoDup (ids (kids_flat slot_leaves kids)) ->
  ends_ok sl U -> ends_ok sl' U' ->
  ends_ok (SReq (Tree c s T kids d)) T ->
  ends_ok (SReq (Tree c s T' (set_kid kids f sl') d)) T'.
Proof.
  intros c s T T' kids d f sl sl' P U U' Q Hk ET ET' HU HU' Hnd Hndl (m1 & H1) (m2 & H2) (m3 & H3).
  exists (S (m1 + m2 + m3)). intros m sd Hm. destruct m as [|m]; [lia|].
  eapply (tree_side cs Hok c s T T' kids d f sl sl' P U U' Q sd (S m) m); eauto.
  - apply H1. lia.
  - apply H2. lia.
  - apply H3. lia.
Qed.

Lemma dup_items : forall I1 x I2 z t, NoDup (ids (flat_map leaves (I1 ++ x :: I2))) ->
  In z I2 -> In t (leaves x) -> In t (leaves z) -> False.
Proof.
  intros I1 x I2 z t Hnd Hz Hx Htz. rewrite flat_map_app in Hnd. apply NoDup_ids_app_r in Hnd. simpl in Hnd.
  assert (Hin : In t (flat_map leaves I2)) by (apply in_flat_map; eauto).
  exact (NoDup_ids_disjoint _ _ t t Hnd Hx Hin eq_refl).
Qed.

Lemma rep_ends : forall s s' t t' ph I1 x x' I2 P U U' Q,
  t = P ++ U ++ Q -> t' = P ++ U' ++ Q -> U <> [] -> U' <> [] ->
  NoDup (ids t) -> NoDup (ids (ph :: flat_map leaves (I1 ++ x :: I2))) ->
  ends_ok (SReq x) U -> ends_ok (SReq x') U' ->
  ends_ok (SRep s t ph (I1 ++ x :: I2)) t ->
  ends_ok (SRep s' t' ph (I1 ++ x' :: I2)) t'.
Proof.
  intros s s' t t' ph I1 x x' I2 P U U' Q ET ET' HU HU' Hnd Hndl (m1 & H1) (m2 & H2) (m3 & H3).
  exists (m1 + m2 + m3). intros m sd Hm.
  pose proof (H1 m sd) as Hx. pose proof (H2 m sd) as Hx'. pose proof (H3 m sd) as HA.
  specialize (Hx ltac:(lia)). specialize (Hx' ltac:(lia)). specialize (HA ltac:(lia)).
  cbn [slot_border] in Hx, Hx'.
  destruct (border cs m sd x) as [a|] eqn:Ea; [|destruct (endtok_some sd U HU) as (? & E0); rewrite E0 in Hx; discriminate].
  destruct (border cs m sd x') as [a'|] eqn:Ea'; [|destruct (endtok_some sd U' HU') as (? & E0); rewrite E0 in Hx'; discriminate].
  inversion Hx as [Hax]. inversion Hx' as [Hax']. clear Hx Hx'.
  assert (Hxl : In a (leaves x)) by (eapply border_in_leaves; eauto).
  subst t t'. destruct sd.
  - cbn [slot_border] in HA |- *.
    assert (Hph : Some ph = endtok SFirst (P ++ U ++ Q)) by congruence.
    f_equal. rewrite Hph. symmetry. apply (endtok_outer_cons SFirst). intro Ho.
    rewrite (endtok_outer_nil SFirst P U Q HU Ho), <- Hax in Hph. inversion Hph. subst a.
    simpl in Hndl. inversion Hndl as [|? ? Hni _]. apply Hni.
    fold (ids (flat_map leaves (I1 ++ x :: I2))). unfold ids. apply in_map. apply in_flat_map. exists x. split; auto.
    apply in_or_app. right. left. reflexivity.
  - cbn [slot_border] in HA |- *. rewrite rev_app_distr in HA |- *. simpl rev in HA |- *.
    simpl in Hndl. inversion Hndl as [|? ? _ Hndl'].
    destruct (rev I2) as [|z r] eqn:Er.
    + cbn [app] in HA |- *. rewrite Ea in HA. rewrite Ea'. f_equal.
      assert (Ht : Some a = endtok SLast (P ++ U ++ Q)) by congruence.
      rewrite (endtok_outer_nil SLast P U' Q HU'); [exact Hax'|].
      eapply ends_outer; eauto. rewrite <- Ht. exact Hax.
    + cbn [app] in HA |- *. destruct (border cs m SLast z) as [tz|] eqn:Ez; try discriminate.
      assert (Ht : Some tz = endtok SLast (P ++ U ++ Q)) by congruence.
      f_equal. rewrite Ht. symmetry. apply (endtok_outer_cons SLast). intro Ho.
      rewrite (endtok_outer_nil SLast P U Q HU Ho), <- Hax in Ht. inversion Ht. subst tz.
      apply (dup_items I1 x I2 z a Hndl'); auto.
      * apply in_rev. rewrite Er. left. reflexivity.
      * eapply border_in_leaves; eauto.
Qed.
End Level2.

(* ---- replacing the middle of a token list / of a leaf list ------------------------------------------- *)
Lemma NoDup_replace_mid : forall P X X' Q, NoDup (ids (P ++ X ++ Q)) -> NoDup (ids X') ->
  (forall t t', In t X' -> In t' (P ++ Q) -> k_id t <> k_id t') ->
  NoDup (ids (P ++ X' ++ Q)).
Proof.
  intros P X X' Q H HX' Hd.
  assert (HP : NoDup (ids P)) by (eapply NoDup_ids_app_l; eauto).
  assert (HQ : NoDup (ids Q)) by (apply NoDup_ids_app_r in H; apply NoDup_ids_app_r in H; exact H).
  apply NoDup_ids_app_intro; auto.
  - apply NoDup_ids_app_intro; auto. intros x y Hx Hy. apply Hd; auto. apply in_or_app. right. exact Hy.
  - intros x y Hx Hy. apply in_app_or in Hy. destruct Hy as [Hy|Hy].
    + intro E. apply (Hd y x Hy); auto. apply in_or_app. left. exact Hx.
    + apply (NoDup_ids_disjoint P (X ++ Q) x y H Hx). apply in_or_app. right. exact Hy.
Qed.

Lemma mid_conditions : forall P X X' Q L1 LX LX' L2 N,
  NoDup (ids (P ++ X ++ Q)) -> NoDup (ids (L1 ++ LX ++ L2)) ->
  (forall t, In t (L1 ++ LX ++ L2) -> In t (P ++ X ++ Q)) ->
  (forall t, In t (P ++ X ++ Q) -> significant t = true -> In t (L1 ++ LX ++ L2)) ->
  (forall t, In t (L1 ++ L2) -> In t (P ++ Q)) ->
  (forall t, In t LX -> In t X) ->
  NoDup (ids X') -> NoDup (ids LX') ->
  (forall t, In t LX' -> In t X') ->
  (forall t, In t X' -> significant t = true -> In t LX') ->
  (forall t, In t X' -> In t X \/ In t N) ->
  (forall t, In t LX' -> In t LX \/ In t N) ->
  (forall t t', In t N -> In t' (P ++ X ++ Q) -> k_id t <> k_id t') ->
  NoDup (ids (P ++ X' ++ Q)) /\ NoDup (ids (L1 ++ LX' ++ L2))
  /\ (forall t, In t (L1 ++ LX' ++ L2) -> In t (P ++ X' ++ Q))
  /\ (forall t, In t (P ++ X' ++ Q) -> significant t = true -> In t (L1 ++ LX' ++ L2)).
Proof.
  intros P X X' Q L1 LX LX' L2 N HndT HndL HLT Hsig Hsib HLX HndX' HndLX' HLX' HsigX' HX'N HLX'N Hfresh.
  assert (HinPQ : forall t, In t (P ++ Q) -> In t (P ++ X ++ Q)).
  { intros t Ht. apply in_app_or in Ht. apply in_or_app. destruct Ht; [left; auto|right; apply in_or_app; right; auto]. }
  split; [|split; [|split]].
  - apply (NoDup_replace_mid P X X' Q); auto. intros t t' Ht Ht'.
    destruct (HX'N t Ht) as [HtX|HtN].
    + apply in_app_or in Ht'. destruct Ht' as [Ht'|Ht'].
      * intro E. apply (NoDup_ids_disjoint P (X ++ Q) t' t HndT Ht'); auto. apply in_or_app. left. exact HtX.
      * rewrite app_assoc in HndT. apply (NoDup_ids_disjoint (P ++ X) Q t t' HndT); auto. apply in_or_app. right. exact HtX.
    + apply Hfresh; [exact HtN|]. apply HinPQ. exact Ht'.
  - apply (NoDup_replace_mid L1 LX LX' L2); auto. intros t t' Ht Ht'.
    destruct (HLX'N t Ht) as [HtX|HtN].
    + apply in_app_or in Ht'. destruct Ht' as [Ht'|Ht'].
      * intro E. apply (NoDup_ids_disjoint L1 (LX ++ L2) t' t HndL Ht'); auto. apply in_or_app. left. exact HtX.
      * rewrite app_assoc in HndL. apply (NoDup_ids_disjoint (L1 ++ LX) L2 t t' HndL); auto. apply in_or_app. right. exact HtX.
    + apply Hfresh; [exact HtN|]. apply HinPQ. apply Hsib. exact Ht'.
  - intros t Ht. apply in_app_or in Ht. destruct Ht as [Ht|Ht].
    + assert (H0 : In t (P ++ Q)) by (apply Hsib; apply in_or_app; left; exact Ht).
      apply in_app_or in H0. apply in_or_app. destruct H0; [left; auto|right; apply in_or_app; right; auto].
    + apply in_app_or in Ht. destruct Ht as [Ht|Ht].
      * apply in_or_app. right. apply in_or_app. left. auto.
      * assert (H0 : In t (P ++ Q)) by (apply Hsib; apply in_or_app; right; exact Ht).
        apply in_app_or in H0. apply in_or_app. destruct H0; [left; auto|right; apply in_or_app; right; auto].
  - intros t Ht Hs. apply in_app_or in Ht.
    assert (Hcase : In t X' \/ In t (P ++ Q)).
    { destruct Ht as [Ht|Ht]; [right; apply in_or_app; left; exact Ht|].
      apply in_app_or in Ht. destruct Ht as [Ht|Ht]; [left; exact Ht|right; apply in_or_app; right; exact Ht]. }
    destruct Hcase as [Ht'|Ht'].
    + apply in_or_app. right. apply in_or_app. left. auto.
    + pose proof (Hsig t (HinPQ t Ht') Hs) as HL. apply in_app_or in HL. destruct HL as [HL|HL].
      * apply in_or_app. left. exact HL.
      * apply in_app_or in HL. destruct HL as [HL|HL].
        -- exfalso. pose proof (HLX t HL) as HtX. apply in_app_or in Ht'. destruct Ht' as [HtP|HtQ].
           ++ apply (NoDup_ids_disjoint P (X ++ Q) t t HndT HtP); auto. apply in_or_app. left. exact HtX.
           ++ rewrite app_assoc in HndT. apply (NoDup_ids_disjoint (P ++ X) Q t t HndT); auto. apply in_or_app. right. exact HtX.
        -- apply in_or_app. right. apply in_or_app. right. exact HL.
Qed.

Lemma kid_split : forall kids f sl, kid kids f = Some sl ->
  exists K1 K2, kids = K1 ++ (f, sl) :: K2 /\ forall sl', set_kid kids f sl' = K1 ++ (f, sl') :: K2.
Proof.
  induction kids as [|[k s] kids IH]; intros f sl H; simpl in H; try discriminate.
  destruct (String.eqb k f) eqn:E.
  - apply String.eqb_eq in E. inversion H. subst. exists [], kids. split; auto.
    intro sl'. simpl. rewrite String.eqb_refl. reflexivity.
  - destruct (IH _ _ H) as (K1 & K2 & E1 & E2). exists ((k, s) :: K1), K2. subst kids. split; auto.
    intro sl'. simpl. rewrite E, E2. reflexivity.
Qed.

Lemma kids_flat_app : forall {A} (g : slot -> list A) K1 K2, kids_flat g (K1 ++ K2) = kids_flat g K1 ++ kids_flat g K2.
Proof.
  intros A g K1 K2. induction K1 as [|[k s] K1 IH]; simpl; auto. rewrite IH, app_assoc. reflexivity.
Qed.

Lemma kids_flat_cons : forall {A} (g : slot -> list A) k s K, kids_flat g ((k, s) :: K) = g s ++ kids_flat g K.
Proof. reflexivity. Qed.

(* ---- plug ------------------------------------------------------------------------------------------- *)
Section Plug.
Variable cs : classes_t.
Hypothesis Hok : classes_ok cs.

Lemma WF_leaf : forall t, WF cs (Leaf t).
Proof.
  intro t. unfold WF. simpl. split; [constructor; [intros []|constructor]|].
  split; [intros u []|]. split; [constructor; [intros []|constructor]|]. split; auto.
Qed.

Lemma SWF_leaf : forall t, SWF cs (Leaf t).
Proof. intro t. split; [apply WF_leaf|intros u []]. Qed.

Lemma HWF_SWF : forall n, HWF cs n -> SWF cs n.
Proof.
  intros [t|c s T kids d] [H _]; [apply SWF_leaf|]. apply H. rewrite subunits_tree. left. reflexivity.
Qed.

Lemma node_ends : forall x, SWF cs x -> exempt (UNode x) = false ->
  ends_ok cs (SReq x) (node_toks x) /\ node_toks x <> [].
Proof.
  intros [t|c s T kids d] [Hwf _] He.
  - split; [|discriminate]. exists 1. intros m sd Hm. destruct m; [lia|]. destruct sd; reflexivity.
  - destruct Hwf as (_ & H2 & _). destruct (H2 (UNode (Tree c s T kids d))) as (_ & Hfl & _).
    { rewrite subunits_tree. left. reflexivity. }
    split; [exact (first_last_ends cs _ Hfl He)|exact (proj1 Hfl)].
Qed.

Lemma slot_node_units : forall sl x, slot_node sl = Some x ->
  slot_units sl = [node_toks x] /\ slot_leaves sl = leaves x /\ slot_subunits subunits sl = subunits x
  /\ forall x', slot_units (slot_with sl x') = [node_toks x'] /\ slot_leaves (slot_with sl x') = leaves x'
                /\ slot_subunits subunits (slot_with sl x') = subunits x'
                /\ forall b sd, slot_border b sd (slot_with sl x') = slot_border b sd (SReq x').
Proof.
  intros [y|[y|]|? ? ? ?|?] x H; simpl in H; inversion H; subst; repeat split; reflexivity.
Qed.

Lemma slot_node_border : forall sl x, slot_node sl = Some x -> forall b sd, slot_border b sd sl = slot_border b sd (SReq x).
Proof. intros [y|[y|]|? ? ? ?|?] x H; simpl in H; inversion H; subst; reflexivity. Qed.

Lemma HWF_kid : forall c s T kids d k sl x, HWF cs (Tree c s T kids d) -> In (k, sl) kids -> slot_node sl = Some x ->
  HWF cs x /\ exempt (UNode x) = false.
Proof.
  intros c s T kids d k sl x [H1 H2] Hin Hx.
  destruct (slot_node_units sl x Hx) as (_ & _ & Esub & _).
  assert (Hsub : forall u, In u (subunits x) -> In u (proper_units (Tree c s T kids d))).
  { intros u Hu. simpl. apply In_kids_flat. exists k, sl. split; auto. rewrite Esub. exact Hu. }
  split; [split|].
  - intros n Hn. apply H1. rewrite subunits_tree. right. apply Hsub. exact Hn.
  - intros u Hu. apply H2. apply Hsub. destruct x as [t|c0 s0 T0 k0 d0]; [destruct Hu|].
    rewrite subunits_tree. right. exact Hu.
  - destruct x as [t|c0 s0 T0 k0 d0]; [reflexivity|]. apply H2. apply Hsub. rewrite subunits_tree. left. reflexivity.
Qed.

(* the leaves of a child slot lie in the token lists of that slot's units *)
Lemma slot_leaves_in_units : forall c s T kids d k sl, HWF cs (Tree c s T kids d) -> In (k, sl) kids ->
  forall t, In t (slot_leaves sl) -> exists v, In v (slot_units sl) /\ In t v.
Proof.
  intros c s T kids d k sl [H1 H2] Hin t Ht.
  assert (Hnode : forall y, In y (slot_nodes sl) -> forall t0, In t0 (leaves y) -> In t0 (node_toks y)).
  { intros y Hy t0 Ht0. destruct y as [ty|c0 s0 T0 k0 d0]; [exact Ht0|].
    assert (Hu : In (UNode (Tree c0 s0 T0 k0 d0)) (subunits (Tree c s T kids d))).
    { rewrite subunits_tree. right. apply In_kids_flat. exists k, sl. split; auto.
      destruct sl as [x|[x|]|rs rt ph items|items]; simpl in Hy |- *.
      - destruct Hy as [E|[]]. subst. rewrite subunits_tree. left. reflexivity.
      - destruct Hy as [E|[]]. subst. rewrite subunits_tree. left. reflexivity.
      - destruct Hy.
      - right. apply in_flat_map. eexists. split; [exact Hy|]. rewrite subunits_tree. left. reflexivity.
      - apply in_flat_map. eexists. split; [exact Hy|]. rewrite subunits_tree. left. reflexivity. }
    destruct (H1 _ Hu) as ((_ & _ & _ & H4 & _) & _). apply H4. exact Ht0. }
  destruct sl as [x|[x|]|rs rt ph items|items]; simpl in Ht |- *.
  - exists (node_toks x). split; [left; reflexivity|]. apply Hnode; auto. left. reflexivity.
  - exists (node_toks x). split; [left; reflexivity|]. apply Hnode; auto. left. reflexivity.
  - destruct Ht.
  - exists rt. split; [left; reflexivity|].
    assert (Hw : woven rt ([ph] :: map node_toks items)).
    { assert (Hr : SWF cs (Tree c s T kids d)) by (apply H1; rewrite subunits_tree; left; reflexivity).
      destruct Hr as [_ Hwov]. apply (Hwov (URep rs rt ph items)).
      rewrite subunits_tree. right. apply In_kids_flat. exists k, (SRep rs rt ph items). split; auto. left. reflexivity. }
    destruct Ht as [E|Ht].
    + subst. eapply woven_units_in; [exact Hw|left; reflexivity|left; reflexivity].
    + apply in_flat_map in Ht. destruct Ht as (y & Hy & Ht).
      eapply woven_units_in; [exact Hw|right; apply in_map; exact Hy|]. apply Hnode; auto.
  - apply in_flat_map in Ht. destruct Ht as (y & Hy & Ht). exists (node_toks y). split; [apply in_map; exact Hy|].
    apply Hnode; auto.
Qed.

End Plug.

(* ---- checkers ---------------------------------------------------------------------------------------- *)
Lemma swf_b_sound : forall cs n, swf_b cs n = true -> SWF cs n.
Proof.
  intros cs n H. unfold swf_b in H. apply andb_true_iff in H. destruct H as [H1 H2]. split.
  - apply wf_b_sound. exact H1.
  - intros u Hu. rewrite forallb_forall in H2. apply woven_b_sound. apply H2. exact Hu.
Qed.

Lemma hwf_b_sound : forall cs root, hwf_b cs root = true -> HWF cs root.
Proof.
  intros cs root H. unfold hwf_b in H. apply andb_true_iff in H. destruct H as [H1 H2].
  rewrite forallb_forall in H1, H2. split.
  - intros n Hn. apply swf_b_sound. apply H1. apply in_flat_map. exists (UNode n). split; [exact Hn|left; reflexivity].
  - intros u Hu. apply negb_true_iff. apply H2. exact Hu.
Qed.

Lemma SWF_WF : forall cs n, SWF cs n -> WF cs n.
Proof. intros cs n [H _]. exact H. Qed.

Lemma HWF_WF : forall cs n, HWF cs n -> WF cs n.
Proof.
  intros cs [t|c s T kids d] [H _]; [apply WF_leaf|]. apply SWF_WF. apply H. rewrite subunits_tree. left. reflexivity.
Qed.

