(* Proofs about Spacing.v (C17). All statements are over arbitrary token lists. *)
From AB Require Import Prelude Spacing.

Notation Empty := (fun t => is_empty t = true).
Notation Spacing := (fun t => is_spacing t = true).

(* ---------- txt ---------- *)
Lemma txt_app a b : txt (a ++ b) = txt a ++ txt b.
Proof. unfold txt. rewrite map_app, concat_app. reflexivity. Qed.

Lemma txt_cons t l : txt (t :: l) = text t ++ txt l.
Proof. reflexivity. Qed.

Lemma txt_filter_nonempty l : txt (filter nonempty l) = txt l.
Proof.
  induction l as [|t r IH]; [reflexivity|].
  cbn [filter]. unfold nonempty at 1, is_empty. destruct t as [k [|c x]]; cbn [text negb].
  - rewrite IH. reflexivity.
  - rewrite !txt_cons, IH. reflexivity.
Qed.

Lemma txt_rev_empties E : Forall Empty E -> txt E = [].
Proof.
  induction 1 as [|t r Ht _ IH]; [reflexivity|].
  rewrite txt_cons, IH. unfold is_empty in Ht. destruct (text t); [reflexivity|discriminate].
Qed.

Lemma filter_rev' {A} (f : A -> bool) l : filter f (rev l) = rev (filter f l).
Proof.
  induction l as [|x r IH]; [reflexivity|].
  cbn [rev filter]. rewrite filter_app, IH. cbn [filter]. destruct (f x); cbn [rev]; [reflexivity|apply app_nil_r].
Qed.

Lemma filter_nonempty_empties E : Forall Empty E -> filter nonempty E = [].
Proof.
  induction 1 as [|t r Ht _ IH]; [reflexivity|].
  cbn [filter]. unfold nonempty at 1. rewrite Ht. exact IH.
Qed.

(* ---------- the two loops ---------- *)
Lemma take_skip_empty l : l = take_empty l ++ skip_empty l.
Proof.
  induction l as [|t r IH]; [reflexivity|].
  cbn [take_empty skip_empty]. destruct (is_empty t); [cbn [app]; f_equal; exact IH|reflexivity].
Qed.

Lemma run_rest l : l = sp_run l ++ sp_rest l.
Proof.
  induction l as [|t r IH]; [reflexivity|].
  cbn [sp_run sp_rest]. destruct (is_spacing t); [cbn [app]; f_equal; exact IH|reflexivity].
Qed.

Lemma take_empty_all l : Forall Empty (take_empty l).
Proof.
  induction l as [|t r IH]; [constructor|].
  cbn [take_empty]. destruct (is_empty t) eqn:E; [constructor; assumption|constructor].
Qed.

Lemma sp_run_all l : Forall Spacing (sp_run l).
Proof.
  induction l as [|t r IH]; [constructor|].
  cbn [sp_run]. destruct (is_spacing t) eqn:E; [constructor; assumption|constructor].
Qed.

Definition head_is (p : tok -> bool) (v : bool) (l : list tok) : Prop :=
  match l with [] => True | t :: _ => p t = v end.

Lemma skip_empty_head l : head_is is_empty false (skip_empty l).
Proof.
  induction l as [|t r IH]; [exact I|].
  cbn [skip_empty]. destruct (is_empty t) eqn:E; [exact IH|exact E].
Qed.

Lemma sp_rest_head l : head_is is_spacing false (sp_rest l).
Proof.
  induction l as [|t r IH]; [exact I|].
  cbn [sp_rest]. destruct (is_spacing t) eqn:E; [exact IH|exact E].
Qed.

Lemma skip_empty_app E x : Forall Empty E -> skip_empty (E ++ x) = skip_empty x.
Proof.
  induction 1 as [|t r Ht _ IH]; [reflexivity|].
  cbn [app skip_empty]. rewrite Ht. exact IH.
Qed.

Lemma skip_empty_stop x : head_is is_empty false x -> skip_empty x = x.
Proof. destruct x as [|t r]; [reflexivity|]. cbn. intros ->. reflexivity. Qed.

Lemma sp_run_app S x : Forall Spacing S -> sp_run (S ++ x) = S ++ sp_run x.
Proof.
  induction 1 as [|t r Ht _ IH]; [reflexivity|].
  cbn [app sp_run]. rewrite Ht, IH. reflexivity.
Qed.

Lemma sp_run_stop x : head_is is_spacing false x -> sp_run x = [].
Proof. destruct x as [|t r]; [reflexivity|]. cbn. intros ->. reflexivity. Qed.

(* behind a block of zero-width tokens that ends at a non-spacing token (or the end of the store)
   the second loop only meets zero-width tokens *)
Lemma run_over_empties T x :
  Forall Empty T -> filter nonempty (sp_run x) = [] -> filter nonempty (sp_run (T ++ x)) = [].
Proof.
  induction 1 as [|t r Ht _ IH]; intros Hx; [exact Hx|].
  cbn [app sp_run]. destruct (is_spacing t); [|reflexivity].
  cbn [filter]. unfold nonempty at 1. rewrite Ht. cbn [negb]. apply IH, Hx.
Qed.

Lemma find_none_run l : find_spacing l = [] -> filter nonempty (sp_run l) = [].
Proof.
  unfold find_spacing. induction l as [|t r IH]; [reflexivity|].
  cbn [skip_empty]. destruct (is_empty t) eqn:E; intros H.
  - cbn [sp_run]. destruct (is_spacing t); [|reflexivity].
    cbn [filter]. unfold nonempty at 1. rewrite E. cbn [negb]. apply IH, H.
  - exact H.
Qed.

Lemma find_spacing_app_empties E x : Forall Empty E -> find_spacing (E ++ x) = find_spacing x.
Proof. intros H. unfold find_spacing. rewrite skip_empty_app by exact H. reflexivity. Qed.

(* ---------- C17_get: what the getter returns ---------- *)
(* S is the maximal spacing run after the model, modulo zero-width tokens in front of it *)
Definition spacing_run_of (l S : list tok) : Prop :=
  exists E R, l = E ++ S ++ R /\ Forall Empty E /\ Forall Spacing S
    /\ head_is is_empty false S /\ head_is is_spacing false R
    /\ (S = [] -> head_is is_empty false R).

Lemma run_exists l : spacing_run_of l (sp_run (skip_empty l)).
Proof.
  exists (take_empty l), (sp_rest (skip_empty l)).
  split. { etransitivity; [exact (take_skip_empty l)|]. f_equal. apply run_rest. }
  split; [apply take_empty_all|]. split; [apply sp_run_all|].
  split. { pose proof (skip_empty_head l) as H. destruct (skip_empty l) as [|t r]; [exact I|].
           cbn in H. cbn [sp_run]. destruct (is_spacing t); [exact H|exact I]. }
  split; [apply sp_rest_head|].
  intros HS. pose proof (skip_empty_head l) as H. destruct (skip_empty l) as [|t r]; [exact I|].
  cbn [sp_run sp_rest] in *. destruct (is_spacing t); [discriminate|exact H].
Qed.

Lemma run_unique l S : spacing_run_of l S -> S = sp_run (skip_empty l).
Proof.
  intros (E & R & -> & HE & HS & HhS & HhR & HSR).
  rewrite skip_empty_app by exact HE.
  destruct S as [|t S'].
  - cbn [app]. rewrite skip_empty_stop by (apply HSR; reflexivity).
    symmetry. apply sp_run_stop, HhR.
  - rewrite skip_empty_stop by exact HhS.
    rewrite sp_run_app by exact HS. rewrite (sp_run_stop R HhR). symmetry. apply app_nil_r.
Qed.

Theorem get_dir_spec l S : spacing_run_of l S ->
  find_spacing l = filter nonempty S /\ txt (find_spacing l) = txt S.
Proof.
  intros H. apply run_unique in H. subst S. split; [reflexivity|].
  unfold find_spacing. apply txt_filter_nonempty.
Qed.

(* ---------- both sides ---------- *)
Lemma find_through_gap S E2 b post :
  Forall Spacing S -> Forall Empty E2 -> visible b = true ->
  find_spacing (S ++ E2 ++ b :: post) = filter nonempty S.
Proof.
  intros HS HE2 Hb. unfold visible in Hb. apply andb_true_iff in Hb as [Hb1 Hb2].
  unfold nonempty in Hb1. apply negb_true_iff in Hb1. apply negb_true_iff in Hb2.
  assert (Htail : filter nonempty (sp_run (E2 ++ b :: post)) = []).
  { apply run_over_empties; [exact HE2|]. cbn [sp_run]. rewrite Hb2. reflexivity. }
  induction HS as [|t r Ht Hr IH].
  - cbn [app filter]. unfold find_spacing. rewrite skip_empty_app by exact HE2.
    cbn [skip_empty]. rewrite Hb1. cbn [sp_run]. rewrite Hb2. reflexivity.
  - cbn [app]. unfold find_spacing in *. cbn [skip_empty].
    assert (Hf : filter nonempty (t :: r)
                 = if is_empty t then filter nonempty r else t :: filter nonempty r).
    { cbn [filter]. unfold nonempty at 1. destruct (is_empty t); reflexivity. }
    rewrite Hf. destruct (is_empty t) eqn:Et; [exact IH|].
    cbn [sp_run]. rewrite Ht. cbn [filter]. unfold nonempty at 1. rewrite Et. cbn [negb]. f_equal.
    clear IH Hf. induction Hr as [|u r' Hu _ IHr]; [exact Htail|].
    cbn [app sp_run]. rewrite Hu. cbn [filter]. destruct (nonempty u); [f_equal|]; exact IHr.
Qed.

Lemma skipn_app_exact {A} (x y : list A) : skipn (length x) (x ++ y) = y.
Proof. induction x as [|h r IH]; [reflexivity|exact IH]. Qed.

Lemma firstn_app_exact {A} (x y : list A) : firstn (length x) (x ++ y) = x.
Proof. induction x as [|h r IH]; [reflexivity|]. cbn. f_equal. exact IH. Qed.

Theorem both_sides pre a E1 G E2 b post :
  Forall Empty E1 -> Forall Spacing G -> Forall Empty E2 -> visible a = true -> visible b = true ->
  let d := pre ++ a :: (E1 ++ G ++ E2) ++ b :: post in
  let j := length pre in
  let i := (length pre + 1 + length (E1 ++ G ++ E2))%nat in
  raw_spacing_after d j = filter nonempty G /\ raw_spacing_before d i = filter nonempty G.
Proof.
  intros HE1 HS HE2 Ha Hb d j i. split.
  - assert (Hd : d = (pre ++ [a]) ++ E1 ++ G ++ E2 ++ b :: post)
      by (unfold d; rewrite <- !app_assoc; reflexivity).
    assert (Hj : Datatypes.S j = length (pre ++ [a])) by (unfold j; rewrite app_length; cbn; lia).
    unfold raw_spacing_after. rewrite Hj, Hd, skipn_app_exact.
    rewrite find_spacing_app_empties by exact HE1. apply find_through_gap; assumption.
  - assert (Hd : d = ((pre ++ [a]) ++ E1 ++ G ++ E2) ++ b :: post)
      by (unfold d; rewrite <- !app_assoc; reflexivity).
    assert (Hi : i = length ((pre ++ [a]) ++ E1 ++ G ++ E2))
      by (unfold i; rewrite !app_length; cbn; lia).
    unfold raw_spacing_before. rewrite Hi, Hd, firstn_app_exact.
    rewrite !rev_app_distr. cbn [rev app]. rewrite <- !app_assoc.
    rewrite find_spacing_app_empties by (apply Forall_rev; exact HE2).
    cbn [app].
    rewrite (find_through_gap (rev G) (rev E1) a (rev pre)); try assumption;
      try (apply Forall_rev; assumption).
    rewrite filter_rev', rev_involutive. reflexivity.
Qed.

(* the executable shape check is the decomposition used above *)
Lemma gap_shape_decomp g : gap_shape_b g = true ->
  exists E1 S E2, g = E1 ++ S ++ E2 /\ Forall Empty E1 /\ Forall Spacing S /\ Forall Empty E2.
Proof.
  unfold gap_shape_b. intros H.
  exists (take_empty g), (sp_run (skip_empty g)), (sp_rest (skip_empty g)).
  split. { etransitivity; [exact (take_skip_empty g)|]. f_equal. apply run_rest. }
  split; [apply take_empty_all|]. split; [apply sp_run_all|].
  apply Forall_forall. intros t Ht. rewrite forallb_forall in H. apply H, Ht.
Qed.

(* ---------- the setter: frame ---------- *)
Lemma core_trail l : l = core l ++ trail_empty l.
Proof.
  unfold core, trail_empty. rewrite <- rev_app_distr, <- take_skip_empty. symmetry. apply rev_involutive.
Qed.

Lemma trail_all l : Forall Empty (trail_empty l).
Proof. unfold trail_empty. apply Forall_rev, take_empty_all. Qed.

(* d' is d with one block `old` of spacing tokens replaced by `new` *)
Definition frame_ok (d d' new : list tok) (oldtoks : list tok) : Prop :=
  exists A old B, d = A ++ old ++ B /\ d' = A ++ new ++ B
    /\ Forall Spacing old /\ filter nonempty old = oldtoks.

Theorem set_dir_frame l new :
  exists A old B, l = A ++ old ++ B /\ set_dir l new = A ++ new ++ B
    /\ Forall Spacing old /\ filter nonempty old = find_spacing l /\ Forall Empty A.
Proof.
  unfold set_dir. destruct (find_spacing l) as [|c cs] eqn:Hc.
  - exists [], [], l. repeat split; constructor.
  - set (run := sp_run (skip_empty l)).
    exists (take_empty l), (core run), (trail_empty run ++ sp_rest (skip_empty l)).
    assert (Hrun : run = core run ++ trail_empty run) by apply core_trail.
    split. { etransitivity; [exact (take_skip_empty l)|]. f_equal.
             etransitivity; [exact (run_rest (skip_empty l))|]. fold run.
             rewrite app_assoc. f_equal. exact Hrun. }
    split; [reflexivity|].
    pose proof (sp_run_all (skip_empty l)) as Hall. fold run in Hall.
    rewrite Hrun in Hall. apply Forall_app in Hall as [Hcore _].
    split; [exact Hcore|]. split; [|apply take_empty_all].
    rewrite <- Hc. unfold find_spacing. fold run. rewrite Hrun at 2.
    rewrite filter_app, (filter_nonempty_empties _ (trail_all run)). symmetry. apply app_nil_r.
Qed.

Theorem set_after_frame d j new :
  frame_ok d (set_raw_spacing_after d j new) new (raw_spacing_after d j).
Proof.
  unfold set_raw_spacing_after, raw_spacing_after.
  destruct (set_dir_frame (skipn (S j) d) new) as (A & old & B & Hl & Hs & Ho & Hf & _).
  exists (firstn (S j) d ++ A), old, B.
  split. { rewrite <- app_assoc, <- Hl. symmetry. apply firstn_skipn. }
  split. { rewrite Hs, <- app_assoc. reflexivity. }
  split; assumption.
Qed.

Theorem set_before_frame d i new :
  frame_ok d (set_raw_spacing_before d i new) new (raw_spacing_before d i).
Proof.
  unfold set_raw_spacing_before, raw_spacing_before.
  destruct (set_dir_frame (rev (firstn i d)) (rev new)) as (A & old & B & Hl & Hs & Ho & Hf & _).
  exists (rev B), (rev old), (rev A ++ skipn i d).
  split. { rewrite <- (firstn_skipn i d) at 1. rewrite <- (rev_involutive (firstn i d)), Hl.
           rewrite !rev_app_distr, <- !app_assoc. reflexivity. }
  split. { rewrite Hs, !rev_app_distr, rev_involutive, <- !app_assoc. reflexivity. }
  split; [apply Forall_rev, Ho|].
  rewrite filter_rev', Hf. reflexivity.
Qed.

(* consequences of frame_ok, in the words of the property *)
Lemma frame_length d d' new old : frame_ok d d' new old ->
  zlen (txt d') - zlen (txt d) = zlen (txt new) - zlen (txt old).
Proof.
  intros (A & o & B & -> & -> & _ & <-). rewrite txt_filter_nonempty.
  unfold zlen. rewrite !txt_app, !app_length. lia.
Qed.

Lemma frame_tokens d d' new old : frame_ok d d' new old -> Forall Spacing new ->
  filter (fun t => negb (is_spacing t)) d' = filter (fun t => negb (is_spacing t)) d.
Proof.
  intros (A & o & B & -> & -> & Ho & _) Hn. rewrite !filter_app. f_equal. f_equal.
  assert (K : forall x, Forall Spacing x -> filter (fun t => negb (is_spacing t)) x = []).
  { induction 1 as [|t r Ht _ IH]; [reflexivity|]. cbn [filter]. rewrite Ht. exact IH. }
  rewrite (K _ Ho), (K _ Hn). reflexivity.
Qed.

Notation BlankText := (fun t => forallb blank_char (text t) = true).

Lemma strip_app a b : strip_blank (a ++ b) = strip_blank a ++ strip_blank b.
Proof. apply filter_app. Qed.

Lemma strip_blank_all s : forallb blank_char s = true -> strip_blank s = [].
Proof.
  induction s as [|c r IH]; [reflexivity|]. cbn [forallb]. intros H.
  apply andb_true_iff in H as [H1 H2]. cbn [strip_blank filter]. rewrite H1. cbn [negb]. apply IH, H2.
Qed.

Lemma strip_txt_blank x : Forall BlankText x -> strip_blank (txt x) = [].
Proof.
  induction 1 as [|t r Ht _ IH]; [reflexivity|].
  rewrite txt_cons, strip_app, IH, (strip_blank_all _ Ht). reflexivity.
Qed.

Lemma frame_chars d d' new old : frame_ok d d' new old ->
  Forall (fun t => blank_tok t = true) d -> Forall BlankText new ->
  strip_blank (txt d') = strip_blank (txt d).
Proof.
  intros (A & o & B & -> & -> & Ho & _) Hd Hn.
  rewrite !txt_app, !strip_app. f_equal. f_equal.
  rewrite (strip_txt_blank _ Hn). symmetry. apply strip_txt_blank.
  apply Forall_app in Hd as [_ Hd]. apply Forall_app in Hd as [Hd _].
  rewrite Forall_forall in *. intros t Ht. specialize (Hd t Ht). specialize (Ho t Ht).
  unfold blank_tok in Hd. cbn beta in Ho. rewrite Ho in Hd. exact Hd.
Qed.

(* ---------- _text_to_tokens ---------- *)
Definition pending (crs : str) : bool := match crs with [] => false | _ :: _ => true end.

Lemma txt_flush ws : txt (flush_ws ws) = ws.
Proof. destruct ws; [reflexivity|]. cbn. rewrite app_nil_r. reflexivity. Qed.

Lemma t2t_txt s : forall ws crs, lang_b s (pending crs) = true ->
  txt (text_to_tokens_from s ws crs) = ws ++ crs ++ s.
Proof.
  induction s as [|c r IH]; intros ws crs H.
  - cbn [lang_b text_to_tokens_from] in *. destruct crs; [|discriminate].
    rewrite txt_flush. cbn [app]. symmetry. apply app_nil_r.
  - cbn [lang_b text_to_tokens_from] in *. destruct (is_blank c).
    + apply andb_true_iff in H as [Hp H]. destruct crs; [|discriminate].
      rewrite (IH (ws ++ [c]) [] H). cbn [app]. rewrite <- app_assoc. reflexivity.
    + destruct (c =? CR) eqn:Ec.
      * rewrite txt_app, txt_flush. rewrite (IH [] (crs ++ [c])) by (destruct crs; exact H).
        cbn [app]. rewrite <- app_assoc. reflexivity.
      * destruct (c =? NL) eqn:En; [|discriminate].
        apply Z.eqb_eq in En. subst c.
        rewrite txt_app, txt_flush, txt_cons. cbn [text]. rewrite (IH [] [] H).
        cbn [app]. rewrite <- app_assoc. reflexivity.
Qed.

Definition tok_ok (t : tok) : Prop := is_empty t = false /\ is_spacing t = true.

Lemma flush_ok ws : Forall tok_ok (flush_ws ws).
Proof. destruct ws; constructor; [split; reflexivity|constructor]. Qed.

Lemma t2t_ok s : forall ws crs, Forall tok_ok (text_to_tokens_from s ws crs).
Proof.
  induction s as [|c r IH]; intros ws crs; cbn [text_to_tokens_from]; [apply flush_ok|].
  destruct (is_blank c); [apply IH|].
  destruct (c =? CR); [apply Forall_app; split; [apply flush_ok|apply IH]|].
  destruct (c =? NL); apply Forall_app; (split; [apply flush_ok|]); [|apply IH].
  constructor; [|apply IH]. split; [|reflexivity]. unfold is_empty. cbn [text]. destruct crs; reflexivity.
Qed.

Lemma flush_blank ws : forallb blank_char ws = true -> Forall BlankText (flush_ws ws).
Proof. destruct ws; intros H; constructor; [exact H|constructor]. Qed.

Lemma t2t_blank s : forall ws crs, forallb blank_char ws = true -> forallb blank_char crs = true ->
  Forall BlankText (text_to_tokens_from s ws crs).
Proof.
  induction s as [|c r IH]; intros ws crs Hw Hc; cbn [text_to_tokens_from]; [apply flush_blank, Hw|].
  destruct (is_blank c) eqn:Eb.
  - apply IH; [|reflexivity]. rewrite forallb_app, Hw. cbn. unfold blank_char. rewrite Eb. reflexivity.
  - destruct (c =? CR) eqn:Ec.
    + apply Forall_app; split; [apply flush_blank, Hw|]. apply IH; [reflexivity|].
      rewrite forallb_app, Hc. cbn. unfold blank_char. rewrite Ec, Eb. reflexivity.
    + destruct (c =? NL) eqn:En; (apply Forall_app; split; [apply flush_blank, Hw|]); [|apply IH; reflexivity].
      constructor; [|apply IH; reflexivity]. cbn [text]. rewrite forallb_app, Hc. reflexivity.
Qed.

(* ---------- set then get ---------- *)
Lemma find_after_new new x : new <> [] -> Forall tok_ok new ->
  filter nonempty (sp_run x) = [] -> find_spacing (new ++ x) = new.
Proof.
  intros Hne Hok Hx. destruct new as [|n0 new']; [congruence|].
  assert (HS : Forall Spacing (n0 :: new')) by (eapply Forall_impl; [|exact Hok]; intros t [_ H]; exact H).
  assert (HN : filter nonempty (n0 :: new') = n0 :: new').
  { clear -Hok. induction Hok as [|t r [Ht _] _ IH]; [reflexivity|].
    cbn [filter]. unfold nonempty at 1. rewrite Ht. cbn [negb]. f_equal. exact IH. }
  unfold find_spacing. rewrite skip_empty_stop.
  - rewrite sp_run_app by exact HS. rewrite filter_app, Hx, HN. apply app_nil_r.
  - cbn. inversion Hok as [|? ? [H _] _]. exact H.
Qed.

Theorem set_get_dir l new : new <> [] -> Forall tok_ok new -> find_spacing (set_dir l new) = new.
Proof.
  intros Hne Hok. unfold set_dir. destruct (find_spacing l) as [|c cs] eqn:Hc.
  - apply find_after_new; try assumption. apply find_none_run, Hc.
  - rewrite find_spacing_app_empties by apply take_empty_all.
    apply find_after_new; try assumption.
    apply run_over_empties; [apply trail_all|].
    rewrite (sp_run_stop _ (sp_rest_head _)). reflexivity.
Qed.

Lemma t2t_nonnil s : s <> [] -> spacing_string_b s = true -> text_to_tokens s <> [].
Proof.
  intros Hs HL Hnil. pose proof (t2t_txt s [] [] HL) as H. fold (text_to_tokens s) in H.
  rewrite Hnil in H. cbn in H. congruence.
Qed.

(* in range: j < length d (the model's last token is a token of the document) *)
Theorem set_get_after d j s : (j < length d)%nat -> s <> [] -> spacing_string_b s = true ->
  spacing_after (set_spacing_after d j s) j = s.
Proof.
  intros Hj Hs HL. unfold spacing_after, raw_spacing_after, set_spacing_after, set_raw_spacing_after.
  assert (Hl : S j = length (firstn (S j) d)) by (rewrite firstn_length; lia).
  rewrite Hl at 1. rewrite skipn_app_exact.
  rewrite set_get_dir; [apply (t2t_txt s [] [] HL)|apply t2t_nonnil; assumption|apply t2t_ok].
Qed.

Lemma rev_nonnil {A} (l : list A) : l <> [] -> rev l <> [].
Proof. destruct l; [congruence|]. cbn. intros _ H. apply app_eq_nil in H as [_ H]. discriminate. Qed.

Theorem set_get_before d i s : s <> [] -> spacing_string_b s = true ->
  spacing_before (set_spacing_before d i s) (moved_first d i (text_to_tokens s)) = s.
Proof.
  intros Hs HL. unfold spacing_before, raw_spacing_before, set_spacing_before, set_raw_spacing_before, moved_first.
  set (x := set_dir (rev (firstn i d)) (rev (text_to_tokens s))).
  rewrite <- (rev_length x), firstn_app_exact, rev_involutive. unfold x.
  rewrite set_get_dir.
  - rewrite rev_involutive. apply (t2t_txt s [] [] HL).
  - apply rev_nonnil, t2t_nonnil; assumption.
  - apply Forall_rev, t2t_ok.
Qed.

(* ---------- the strings of the quantifier, declaratively ---------- *)
Inductive spacing_string : str -> Prop :=
| ss_nil : spacing_string []
| ss_blank c r : is_blank c = true -> spacing_string r -> spacing_string (c :: r)
| ss_newline crs r : Forall (fun c => c = CR) crs -> spacing_string r -> spacing_string (crs ++ NL :: r).

Lemma lang_b_crs crs r p : Forall (fun c => c = CR) crs -> lang_b (crs ++ NL :: r) p = lang_b r false.
Proof.
  intros H. revert p. induction H as [|c x Hc _ IH]; intros p.
  - reflexivity.
  - subst c. cbn [app lang_b]. change (is_blank CR) with false. change (CR =? CR) with true.
    cbn iota. apply IH.
Qed.

Lemma spacing_string_b_complete s : spacing_string s -> spacing_string_b s = true.
Proof.
  unfold spacing_string_b. induction 1 as [|c r Hc _ IH|crs r Hc _ IH].
  - reflexivity.
  - cbn [lang_b]. rewrite Hc. exact IH.
  - rewrite lang_b_crs by exact Hc. exact IH.
Qed.

Lemma spacing_string_b_sound_aux s : forall crs, Forall (fun c => c = CR) crs ->
  lang_b s (pending crs) = true -> spacing_string (crs ++ s).
Proof.
  induction s as [|c r IH]; intros crs Hcrs H.
  - cbn in H. destruct crs; [constructor|discriminate].
  - cbn [lang_b] in H. destruct (is_blank c) eqn:Eb.
    + apply andb_true_iff in H as [Hp H]. destruct crs; [|discriminate].
      cbn [app]. apply ss_blank; [exact Eb|]. apply (IH [] (Forall_nil _) H).
    + destruct (c =? CR) eqn:Ec.
      * apply Z.eqb_eq in Ec. subst c.
        replace (crs ++ CR :: r) with ((crs ++ [CR]) ++ r) by (rewrite <- app_assoc; reflexivity).
        apply IH; [apply Forall_app; split; [exact Hcrs|repeat constructor]|].
        destruct crs; exact H.
      * destruct (c =? NL) eqn:En; [|discriminate]. apply Z.eqb_eq in En. subst c.
        apply ss_newline; [exact Hcrs|]. apply (IH [] (Forall_nil _) H).
Qed.

Lemma spacing_string_b_sound s : spacing_string_b s = true -> spacing_string s.
Proof. intros H. apply (spacing_string_b_sound_aux s [] (Forall_nil _) H). Qed.

(* ---------- the statements of C17 in final form ---------- *)
Definition set_statement (d d' : list tok) (s : str) (old : list tok) : Prop :=
  let new := text_to_tokens s in
  frame_ok d d' new old
  /\ filter (fun t => negb (is_spacing t)) d' = filter (fun t => negb (is_spacing t)) d
  /\ zlen (txt d') - zlen (txt d) = zlen (txt new) - zlen (txt old)
  /\ (Forall (fun t => blank_tok t = true) d -> strip_blank (txt d') = strip_blank (txt d))
  /\ (spacing_string_b s = true -> txt new = s).

Lemma set_statement_of_frame d d' s old :
  frame_ok d d' (text_to_tokens s) old -> set_statement d d' s old.
Proof.
  intros H. unfold set_statement. split; [exact H|].
  split. { apply (frame_tokens _ _ _ _ H). eapply Forall_impl; [|apply t2t_ok]. intros t [_ Ht]. exact Ht. }
  split; [apply (frame_length _ _ _ _ H)|].
  split. { intros Hd. apply (frame_chars _ _ _ _ H Hd). apply t2t_blank; reflexivity. }
  intros HL. apply (t2t_txt s [] [] HL).
Qed.

Theorem set_after_statement d j s :
  set_statement d (set_spacing_after d j s) s (raw_spacing_after d j).
Proof. apply set_statement_of_frame, set_after_frame. Qed.

Theorem set_before_statement d i s :
  set_statement d (set_spacing_before d i s) s (raw_spacing_before d i).
Proof. apply set_statement_of_frame, set_before_frame. Qed.

Theorem run_exists_unique l :
  exists S, spacing_run_of l S /\ (forall S2, spacing_run_of l S2 -> S2 = S)
            /\ find_spacing l = filter nonempty S /\ txt (find_spacing l) = txt S.
Proof.
  exists (sp_run (skip_empty l)). split; [apply run_exists|]. split; [apply run_unique|].
  apply get_dir_spec, run_exists.
Qed.

Theorem both_sides_text pre a E1 G E2 b post :
  Forall Empty E1 -> Forall Spacing G -> Forall Empty E2 -> visible a = true -> visible b = true ->
  let d := pre ++ a :: (E1 ++ G ++ E2) ++ b :: post in
  spacing_after d (length pre) = txt G
  /\ spacing_before d (length pre + 1 + length (E1 ++ G ++ E2)) = txt G.
Proof.
  intros H1 H2 H3 H4 H5 d. destruct (both_sides pre a E1 G E2 b post H1 H2 H3 H4 H5) as [Ha Hb].
  unfold spacing_after, spacing_before. fold d in Ha, Hb. rewrite Ha, Hb.
  split; apply txt_filter_nonempty.
Qed.

(* ---------- the getter against the text-adjacent run ---------- *)
Lemma filter_skip_empty l : filter nonempty (skip_empty l) = filter nonempty l.
Proof.
  induction l as [|t r IH]; [reflexivity|]. cbn [skip_empty filter]. unfold nonempty at 2.
  destruct (is_empty t) eqn:E; cbn [negb]; [exact IH|].
  cbn [filter]. unfold nonempty at 1. rewrite E. reflexivity.
Qed.

Lemma sp_run_filter_run R x : Forall Spacing R ->
  sp_run (filter nonempty (R ++ x)) = filter nonempty R ++ sp_run (filter nonempty x).
Proof.
  intros H. rewrite filter_app. apply sp_run_app.
  apply Forall_forall. intros t Ht. apply filter_In in Ht as [Ht _]. rewrite Forall_forall in H. apply H, Ht.
Qed.

Lemma text_run_decomp l :
  text_run l = find_spacing l ++ sp_run (filter nonempty (skip_empty (sp_rest (skip_empty l)))).
Proof.
  unfold text_run, find_spacing. rewrite <- (filter_skip_empty l).
  rewrite (run_rest (skip_empty l)) at 1.
  rewrite sp_run_filter_run by apply sp_run_all. rewrite filter_skip_empty. reflexivity.
Qed.

(* partial: when no zero-width mark splits the run, the getter returns the text-adjacent run *)
Theorem get_text_partial l : split_by_mark l = false -> find_spacing l = text_run l.
Proof.
  unfold split_by_mark. intros H. rewrite text_run_decomp.
  pose proof (skip_empty_head (sp_rest (skip_empty l))) as Hh.
  destruct (skip_empty (sp_rest (skip_empty l))) as [|t r].
  - cbn. symmetry. apply app_nil_r.
  - cbn in Hh. cbn [filter]. unfold nonempty at 1. rewrite Hh. cbn [negb sp_run]. rewrite H.
    symmetry. apply app_nil_r.
Qed.

(* ... and only then: with a mark in the run the getter returns a proper prefix *)
Theorem get_text_split l : split_by_mark l = true -> txt (find_spacing l) <> txt (text_run l).
Proof.
  unfold split_by_mark. intros H. rewrite text_run_decomp.
  pose proof (skip_empty_head (sp_rest (skip_empty l))) as Hh.
  destruct (skip_empty (sp_rest (skip_empty l))) as [|t r]; [discriminate|].
  cbn in Hh. cbn [filter]. unfold nonempty at 1. rewrite Hh. cbn [negb sp_run]. rewrite H.
  rewrite txt_app, txt_cons. intros E. apply (f_equal (@length Z)) in E.
  rewrite !app_length in E. unfold is_empty in Hh. destruct (text t); [discriminate|]. cbn in E. lia.
Qed.
