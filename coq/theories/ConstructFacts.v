(* Concrete from_children call used by the C15 examples: Open.from_children(date, account,
   [USD, EUR], booking, inline_comment, meta=[one MetaItem]) with free-standing arguments (the MetaItem
   is a dump of models.MetaItem.from_value('foo', 'bar')). *)
From AB Require Import Desc Generated GeneratedWf Tree TreeDefs TreeProofs TreeWF TreeWFProofs TreeRun TreeFacts.
From AB Require Import Construct ConstructProofs ConstructWF.
From Coq Require Import ZArith String List Bool.
Import ListNotations.
Local Open Scope string_scope.
Local Open Scope Z_scope.

Definition exL (i : Z) (r t : string) : node := Leaf (mktk i r t).
Definition ex_meta_item : node :=
  (Tree "MetaItem" 0 [(mktk 51 "INDENT" "    "); (mktk 52 "META_KEY" "foo:"); (mktk 55 "WHITESPACE" " "); (mktk 53 "ESCAPED_STRING" """bar"""); (mktk 54 "EOL" "")] [("_leading_comment", SOpt None); ("_indent", SReq (Leaf (mktk 51 "INDENT" "    "))); ("_key", SReq (Leaf (mktk 52 "META_KEY" "foo:"))); ("_value", SOpt (Some (Leaf (mktk 53 "ESCAPED_STRING" """bar""")))); ("_inline_comment", SOpt None); ("_eol", SReq (Leaf (mktk 54 "EOL" ""))); ("_trailing_comment", SOpt None)] []).
Definition ex_args : list (string * arg) :=
  [("_leading_comment", AOpt None); ("_date", AReq (exL 1 "DATE" "2000-01-01")); ("_label", AReq (exL 2 "OPEN" "open"));
   ("_account", AReq (exL 3 "ACCOUNT" "Assets:Foo")); ("_currencies", ARep [exL 4 "CURRENCY" "USD"; exL 5 "CURRENCY" "EUR"]);
   ("_booking", AOpt (Some (exL 6 "ESCAPED_STRING" """STRICT""")));
   ("_inline_comment", AOpt (Some (exL 7 "INLINE_COMMENT" "; hi"))); ("_eol", AReq (exL 8 "EOL" ""));
   ("_meta", ARep [ex_meta_item]); ("_dedent_mark", AOpt None); ("_trailing_comment", AOpt None)].
Definition ex_construct : option (list tk * node) :=
  construct all_classes 9 77 c_Open ex_args [("indent_by", "    ")] 1000.

Definition arg_good_b (n : node) : bool :=
  conforms all_classes n && wf_b all_classes n && negb (exempt (UNode n)).
Lemma arg_good_b_sound : forall n, arg_good_b n = true -> arg_good all_classes n.
Proof.
  intros n H. unfold arg_good_b in H. apply andb_true_iff in H. destruct H as [H H3].
  apply andb_true_iff in H. destruct H as [H1 H2]. split; [exact H1|]. split.
  - apply wf_b_sound. exact H2.
  - apply negb_true_iff. exact H3.
Qed.

Lemma ex_args_good : args_all ex_args (arg_good all_classes).
Proof.
  assert (H : forallb (fun fa => forallb arg_good_b (arg_nodes (snd fa))) ex_args = true) by (vm_compute; reflexivity).
  intros f a Ha x Hx. apply arg_good_b_sound. rewrite forallb_forall in H.
  assert (Hin : In (f, a) ex_args).
  { clear -Ha. induction ex_args as [|[k v] l IH]; simpl in Ha; [discriminate|].
    destruct (String.eqb k f) eqn:E; [apply String.eqb_eq in E; inversion Ha; subst; left; reflexivity|right; auto]. }
  specialize (H (f, a) Hin). simpl in H. rewrite forallb_forall in H. auto.
Qed.

Lemma names_nodup_all : forall c, In c all_classes -> NoDup (names c).
Proof.
  assert (H : forallb (fun c => nodupb (names c)) all_classes = true) by (vm_compute; reflexivity).
  intros c Hc. rewrite forallb_forall in H. apply nodupb_NoDup. auto.
Qed.
