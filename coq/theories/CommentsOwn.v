(* C14: the ownership invariant through the interleaving claimer / un-claimer, histories of all six call kinds. *)
From AB Require Import Prelude Comments CommentsProofs.
From Coq Require Import Permutation.

(* ---- small facts -------------------------------------------------------------------------- *)
Lemma count_z_app : forall c a b, count_z c (a ++ b) = (count_z c a + count_z c b)%nat.
Proof. induction a as [|x a IH]; simpl; intros; auto. rewrite IH. lia. Qed.

Lemma count_z_in : forall c l, In c l <-> (count_z c l >= 1)%nat.
Proof.
  induction l as [|x l IH]; simpl; split; intros H; try lia; try contradiction.
  - destruct H as [H|H]; [subst; rewrite Z.eqb_refl; lia | apply IH in H; lia].
  - destruct (x =? c) eqn:E; [left; apply Z.eqb_eq; auto | right; apply IH; simpl in H; lia].
Qed.

Lemma count_z_nodup : forall c l, NoDup l -> (count_z c l <= 1)%nat.
Proof.
  induction l as [|x l IH]; simpl; intros H; [lia|]. inversion H as [|? ? N1 N2]; subst.
  destruct (x =? c) eqn:E; [|specialize (IH N2); lia].
  apply Z.eqb_eq in E; subst. assert (count_z c l = 0)%nat; [|lia].
  destruct (count_z c l) eqn:K; auto. exfalso; apply N1. apply count_z_in. lia.
Qed.

Definition memz (i : Z) (l : list Z) : bool := existsb (Z.eqb i) l.
Lemma memz_in : forall i l, memz i l = true <-> In i l.
Proof.
  unfold memz; intros; rewrite existsb_exists; split.
  - intros [x [I E]]. apply Z.eqb_eq in E; subst; auto.
  - intros I; exists i; split; auto. apply Z.eqb_refl.
Qed.

Definition mark (cs : list Z) (v : bool) (d : doc) : doc :=
  map (fun t => if memz (t_id t) cs then set_flag v t else t) d.

Lemma set_flag_twice : forall v t, set_flag v (set_flag v t) = set_flag v t.
Proof. reflexivity. Qed.

Lemma fold_mark : forall v cs d,
  fold_left (fun acc c => set_claimed c v acc) cs d = mark cs v d.
Proof.
  induction cs as [|c cs IH]; intros d; simpl.
  - unfold mark. simpl. rewrite map_id. reflexivity.
  - rewrite IH. unfold mark, set_claimed. rewrite map_map. apply map_ext. intros t.
    unfold memz. simpl.
    destruct (t_id t =? c) eqn:E; simpl.
    + destruct (existsb (Z.eqb (t_id t)) cs); reflexivity.
    + reflexivity.
Qed.

Lemma claim_all_mark : forall cs d, claim_all cs d = mark cs true d.
Proof. intros; apply fold_mark. Qed.
Lemma unclaim_all_mark : forall cs d, unclaim_all cs d = mark cs false d.
Proof. intros; apply fold_mark. Qed.

Lemma mark_ids : forall cs v d, ids (mark cs v d) = ids d.
Proof.
  intros. unfold ids, mark. rewrite map_map. apply map_ext. intros t.
  destruct (memz (t_id t) cs); reflexivity.
Qed.

Lemma in_mark : forall cs v d t', In t' (mark cs v d) ->
  exists t, In t d /\ t' = (if memz (t_id t) cs then set_flag v t else t).
Proof. intros cs v d t' H. unfold mark in H. apply in_map_iff in H. destruct H as [t [E I]]. exists t; auto. Qed.

Lemma owners_ge_tget : forall c tb s, (count_z c (tget tb s) <= owners c tb)%nat.
Proof.
  induction tb as [|[s' l] tb IH]; simpl; intros s; [lia|].
  destruct (slot_eqb s' s); [lia | specialize (IH s); lia].
Qed.

Lemma list_eqb_Z : forall a b, list_eqb Z.eqb a b = true -> a = b.
Proof.
  induction a as [|x a IH]; destruct b as [|y b]; simpl; intros H; try discriminate; auto.
  apply andb_prop in H. destruct H as [H1 H2]. apply Z.eqb_eq in H1. f_equal; auto.
Qed.

Lemma nodup_app_disjoint : forall (a b : list Z) x, NoDup (a ++ b) -> In x a -> In x b -> False.
Proof.
  induction a as [|y a IH]; simpl; intros b x ND Ia Ib; [contradiction|].
  inversion ND as [|? ? N1 N2]; subst. destruct Ia as [Ia|Ia].
  - subst. apply N1. apply in_or_app; auto.
  - eapply IH; eauto.
Qed.

Lemma nodup_app_l : forall (a b : list Z), NoDup (a ++ b) -> NoDup a.
Proof.
  induction a as [|x a IH]; simpl; intros b H; [constructor|]. inversion H as [|? ? N1 N2]; subst.
  constructor; [intro I; apply N1; apply in_or_app; auto | eapply IH; eauto].
Qed.

(* ---- "found" lists: distinct ids of unclaimed block comments of a token list --------------------- *)
Definition found_in (w : list tok) (l : list Z) : Prop :=
  NoDup l /\ forall c, In c l -> exists t, In t w /\ t_id t = c /\ is_comment t = true /\ t_claimed t = false.

Lemma found_in_nil : forall w, found_in w [].
Proof. intros; split; [constructor | intros c []]. Qed.

Lemma found_in_incl : forall w w' l, found_in w l -> (forall t, In t w -> In t w') -> found_in w' l.
Proof. intros w w' l [N H] I; split; auto. intros c Hc. destruct (H c Hc) as [t [A B]]. exists t; auto. Qed.

Lemma found_in_ids : forall w l c, found_in w l -> In c l -> In c (ids w).
Proof. intros w l c [_ H] I. destruct (H c I) as [t [A [B _]]]. subst. apply in_map; auto. Qed.

Lemma found_in_cons : forall t w l, found_in w l -> ~ In (t_id t) (ids w) ->
  is_comment t = true -> t_claimed t = false -> found_in (t :: w) (t_id t :: l).
Proof.
  intros t w l F N C U. split.
  - constructor; [|apply F]. intro I. apply N. eapply found_in_ids; eauto.
  - intros c [E|I]; [subst; exists t; simpl; auto|].
    destruct F as [_ H]. destruct (H c I) as [t0 [A B]]. exists t0; simpl; auto.
Qed.

Lemma found_in_app : forall w1 w2 l1 l2, found_in w1 l1 -> found_in w2 l2 -> NoDup (ids (w1 ++ w2)) ->
  found_in (w1 ++ w2) (l1 ++ l2).
Proof.
  intros w1 w2 l1 l2 F1 F2 ND. split.
  - unfold ids in ND. rewrite map_app in ND.
    destruct F1 as [N1 H1]. destruct F2 as [N2 H2].
    assert (D : forall x, In x l1 -> In x l2 -> False).
    { intros x A B. eapply (nodup_app_disjoint _ _ x ND).
      - destruct (H1 x A) as [t [I [E _]]]. subst. apply in_map; auto.
      - destruct (H2 x B) as [t [I [E _]]]. subst. apply in_map; auto. }
    clear H1 H2. induction l1 as [|x l1 IH]; simpl; auto. inversion N1; subst. constructor.
    + intro I. apply in_app_or in I. destruct I as [I|I]; [contradiction | eapply D; eauto; left; auto].
    + apply IH; auto. intros y A B. eapply D; eauto. right; auto.
  - intros c I. apply in_app_or in I. destruct I as [I|I].
    + destruct F1 as [_ H]. destruct (H c I) as [t [A B]]. exists t; split; auto. apply in_or_app; auto.
    + destruct F2 as [_ H]. destruct (H c I) as [t [A B]]. exists t; split; auto. apply in_or_app; auto.
Qed.

Lemma found_in_rev : forall w l, found_in (rev w) l -> found_in w (rev l).
Proof.
  intros w l [N H]. split; [apply NoDup_rev; auto|].
  intros c I. apply in_rev in I. destruct (H c I) as [t [A B]]. exists t; split; auto. apply in_rev; auto.
Qed.

Lemma nodup_ids_cons : forall t w, NoDup (ids (t :: w)) -> ~ In (t_id t) (ids w) /\ NoDup (ids w).
Proof. intros t w H. inversion H; auto. Qed.

Lemma find_outer_spec : forall w prev limit s l s',
  find_outer prev w limit s = (l, s') -> NoDup (ids w) -> found_in w l.
Proof.
  induction w as [|t w IH]; simpl; intros prev limit s l s' H ND.
  - inversion H; apply found_in_nil.
  - apply nodup_ids_cons in ND. destruct ND as [N1 N2].
    destruct (prev =? limit); [inversion H; apply found_in_nil|].
    destruct (is_nl t || is_ws t || text_empty t).
    + eapply found_in_incl; [eapply IH; eauto | intros; right; auto].
    + destruct (is_comment t) eqn:C; [|inversion H; apply found_in_nil].
      destruct (t_claimed t) eqn:U; [inversion H; apply found_in_nil|].
      destruct (cs_mem s (t_id t)).
      * destruct (find_outer (t_id t) w limit (cs_discard s (t_id t))) as [l0 s0] eqn:E.
        inversion H; subst. apply found_in_cons; auto. eapply IH; eauto.
      * eapply found_in_incl; [eapply IH; eauto | intros; right; auto].
Qed.

Lemma scan_until_spec : forall e w s l s' g ff,
  scan_until e w s = (l, s') -> split_at e w = Some (g, ff) -> NoDup (ids w) -> found_in g l.
Proof.
  induction w as [|t w IH]; simpl; intros s l s' g ff H S ND; [discriminate|].
  apply nodup_ids_cons in ND. destruct ND as [N1 N2].
  destruct (t_id t =? e).
  - inversion H; inversion S; subst. apply found_in_nil.
  - destruct (split_at e w) as [[g0 ff0]|] eqn:S0; [|discriminate]. inversion S; subst.
    assert (N1' : ~ In (t_id t) (ids g0)).
    { intro I. apply N1. apply split_at_spec in S0. destruct S0 as [S0 _]. subst w.
      unfold ids. rewrite map_app. apply in_or_app; auto. }
    assert (N2' : NoDup (ids w)) by exact N2.
    destruct (is_comment t && cs_mem s (t_id t) && negb (t_claimed t)) eqn:C.
    + destruct (scan_until e w (cs_discard s (t_id t))) as [l0 s0] eqn:E. inversion H; subst.
      apply andb_prop in C. destruct C as [C C3]. apply andb_prop in C. destruct C as [C1 C2].
      apply negb_true_iff in C3. apply found_in_cons; auto. eapply IH; eauto.
    + eapply found_in_incl; [eapply IH; eauto | intros; right; auto].
Qed.

(* ---- _find_inner over items that lie in store order ------------------------------------------- *)
Lemma after_suffix : forall p w i a x b,
  NoDup (ids (p ++ w)) -> split_at i w = Some (a, x :: b) -> after (p ++ w) i = b.
Proof.
  intros p w i a x b ND S. apply split_at_spec in S. destruct S as [Hw [x0 [r0 [E I]]]]. inversion E; subst x0 r0.
  subst w i. unfold after. rewrite app_assoc in *. rewrite split_at_unique; auto.
  eapply nodup_mid; eauto.
Qed.

Lemma comments_of_app : forall a b, comments_of (a ++ b) = comments_of a ++ comments_of b.
Proof. intros. unfold comments_of. rewrite filter_app, map_app. reflexivity. Qed.

Lemma comments_of_true : forall l, comments_of (map (fun c : Z => (true, c)) l) = l.
Proof. induction l as [|x l IH]; simpl; auto. unfold comments_of in *. simpl. rewrite IH. reflexivity. Qed.

Lemma count_cons_item : forall c it l,
  count_z c (comments_of (oitem_of it :: l)) =
  ((if it_comment it then (if Z.eqb (it_ref it) c then 1 else 0) else 0) + count_z c (comments_of l))%nat.
Proof.
  intros. unfold comments_of, oitem_of. simpl. destruct (it_comment it); simpl; reflexivity.
Qed.

Lemma find_inner_spec : forall items d p w s l s' rem,
  NoDup (ids d) -> d = p ++ w -> leftover w items = Some rem -> find_inner d w items s = (l, s') ->
  exists F consumed, w = consumed ++ rem /\ found_in consumed F /\
    (forall c, count_z c (comments_of l) = count_z c F + count_z c (old_comments items))%nat.
Proof.
  induction items as [|it rest IH]; simpl; intros d p w s l s' rem ND Hd L H.
  - inversion L; inversion H; subst. exists [], []. split; [reflexivity|]. split; [apply found_in_nil|].
    intros; reflexivity.
  - destruct (split_at (it_first it) w) as [[g ff]|] eqn:S1; [|discriminate].
    destruct (split_at (it_last it) ff) as [[x ya]|] eqn:S2; [|discriminate].
    destruct ya as [|y a]; [discriminate|].
    destruct (scan_until (it_first it) w s) as [found s1] eqn:SC.
    destruct (find_inner d (after d (it_last it)) rest
                (if it_comment it then cs_discard s1 (it_ref it) else s1)) as [l0 s3] eqn:FI.
    inversion H; subst l s'. clear H.
    pose proof (split_at_spec _ _ _ _ S1) as [Hw _].
    pose proof (split_at_spec _ _ _ _ S2) as [Hff _].
    assert (NDw : NoDup (ids w)) by (rewrite Hd in ND; eapply nodup_tail; eauto).
    assert (A : after d (it_last it) = a).
    { rewrite Hd, Hw, app_assoc. eapply after_suffix; [rewrite <- app_assoc, <- Hw, <- Hd; exact ND | exact S2]. }
    rewrite A in FI.
    assert (Ew : w = (g ++ (x ++ [y])) ++ a) by (rewrite Hw, Hff, <- ?app_assoc; simpl; reflexivity).
    assert (Hd' : d = (p ++ g ++ x ++ [y]) ++ a) by (rewrite Hd, Ew, <- ?app_assoc; simpl; reflexivity).
    destruct (IH d (p ++ g ++ x ++ [y]) a _ l0 s3 rem ND Hd' L FI) as [F0 [cons0 [Ha [FI0 CNT]]]].
    exists (found ++ F0), ((g ++ (x ++ [y])) ++ cons0). split; [|split].
    + rewrite Ew, Ha, <- ?app_assoc. reflexivity.
    + assert (NDall : NoDup (ids ((g ++ (x ++ [y])) ++ cons0))).
      { assert (E : w = ((g ++ (x ++ [y])) ++ cons0) ++ rem) by (rewrite Ew, Ha, <- ?app_assoc; reflexivity).
        rewrite E in NDw. unfold ids in *. rewrite map_app in NDw. apply nodup_app_l in NDw. exact NDw. }
      apply found_in_app; auto.
      eapply found_in_incl; [eapply scan_until_spec; eauto | intros; apply in_or_app; left; auto].
    + intros c. specialize (CNT c). rewrite comments_of_app, comments_of_true, !count_z_app.
      unfold old_comments in *. simpl map. rewrite !count_cons_item.
      destruct (it_comment it); destruct (Z.eqb (it_ref it) c); lia.
Qed.

Lemma rep_last_cons : forall ph it rest, rest <> [] -> rep_last ph (it :: rest) = rep_last ph rest.
Proof.
  intros ph it rest H. unfold rep_last. simpl. destruct (rev rest) as [|z zs] eqn:E.
  - exfalso. apply H. rewrite <- (rev_involutive rest), E. reflexivity.
  - reflexivity.
Qed.

Lemma leftover_after : forall items ph d p w rem,
  NoDup (ids d) -> d = p ++ w -> leftover w items = Some rem -> items <> [] ->
  after d (rep_last ph items) = rem.
Proof.
  induction items as [|it rest IH]; simpl; intros ph d p w rem ND Hd L NE; [contradiction|].
  destruct (split_at (it_first it) w) as [[g ff]|] eqn:S1; [|discriminate].
  destruct (split_at (it_last it) ff) as [[x ya]|] eqn:S2; [|discriminate].
  destruct ya as [|y a]; [discriminate|].
  pose proof (split_at_spec _ _ _ _ S1) as [Hw _].
  pose proof (split_at_spec _ _ _ _ S2) as [Hff _].
  assert (A : after d (it_last it) = a).
  { rewrite Hd, Hw, app_assoc. eapply after_suffix; [rewrite <- app_assoc, <- Hw, <- Hd; exact ND | exact S2]. }
  destruct rest as [|it2 r2].
  - simpl in L. inversion L; subst rem. unfold rep_last. simpl. exact A.
  - rewrite rep_last_cons by discriminate.
    apply (IH ph d (p ++ g ++ x ++ [y]) a rem); auto; [|discriminate].
    rewrite Hd, Hw, Hff, <- ?app_assoc. simpl. reflexivity.
Qed.

Lemma shift_ignored_perm : forall d first last bw d', shift_ignored d first last bw = Some d' -> Permutation d' d.
Proof.
  intros d first last bw d' H. unfold shift_ignored, iter_range, splice in H.
  destruct (split_at first d) as [[a mb]|] eqn:S1; [|discriminate].
  destruct (split_at last mb) as [[m0 lb]|] eqn:S2; [|inversion H; auto].
  destruct lb as [|l b']; [inversion H; auto|].
  destruct (filter is_ph (m0 ++ [l])) as [|p0 pr] eqn:F; [inversion H; auto|].
  rewrite <- F in H. inversion H; subst d'. clear H.
  apply split_at_spec in S1. destruct S1 as [Hd _].
  apply split_at_spec in S2. destruct S2 as [Hm _].
  assert (E : d = a ++ (m0 ++ [l]) ++ b') by (rewrite Hd, Hm, <- app_assoc; reflexivity).
  rewrite E. apply Permutation_app_head, Permutation_app_tail.
  destruct bw; [apply partition_perm | eapply Permutation_trans; [apply Permutation_app_comm | apply partition_perm]].
Qed.

(* everything _CommentClaimer.claim collects, and what it returns *)
Lemma claimer_claim_cases : forall d ph items mf ml flt r d',
  NoDup (ids d) -> items_ordered_b d ph items = true ->
  claimer_claim d ph items mf ml flt = (r, d') ->
  (Permutation d' d /\ exists e, r = Err e) \/
  (exists found its d2 ret, r = Ok (ret, its) /\ Permutation d2 d /\ d' = mark (comments_of its) true d2 /\
     found_in d found /\
     forall c, count_z c (comments_of its) = (count_z c found + count_z c (old_comments items))%nat).
Proof.
  intros d ph items mf ml flt r d' ND ORD H. unfold claimer_claim in H. unfold items_ordered_b in ORD.
  destruct (leftover (from_incl d ph) items) as [rem|] eqn:L; [|discriminate].
  unfold walk in H. unfold from_incl in L, H.
  destruct (split_at ph d) as [[pre phw]|] eqn:SP; [|inversion H; left; split; eauto].
  destruct phw as [|pht w1]; [inversion H; left; split; eauto|].
  pose proof (split_at_spec _ _ _ _ SP) as [Hd _].
  destruct (split_at (rep_last ph items) d) as [[a0 sb]|] eqn:SL; [|inversion H; left; split; eauto].
  destruct sb as [|s0 wa]; [inversion H; left; split; eauto|].
  destruct (find_outer ph (rev pre) mf flt) as [cb_rev s1] eqn:FO1.
  destruct (find_inner d (pht :: w1) items s1) as [inner s2] eqn:FI.
  destruct (find_outer (rep_last ph items) wa ml s2) as [ca s3] eqn:FO2.
  destruct (cs_nonempty s3); [inversion H; left; split; eauto|].
  destruct (match rev cb_rev with c0 :: _ => shift_ignored d c0 ph true | [] => Some d end) as [d1|] eqn:S1;
    [|inversion H; left; split; eauto].
  assert (P1 : Permutation d1 d).
  { destruct (rev cb_rev); [inversion S1; auto | eapply shift_ignored_perm; eauto]. }
  destruct (match rev ca, wa with
            | cl :: _, f :: _ => shift_ignored d1 (t_id f) cl false
            | _ :: _, [] => None
            | [], _ => Some d1 end) as [d2|] eqn:S2; [|inversion H; subst; left; split; eauto].
  assert (P2 : Permutation d2 d1).
  { destruct (rev ca); [inversion S2; auto|]. destruct wa; [discriminate | eapply shift_ignored_perm; eauto]. }
  inversion H; subst r d'. clear H. right.
  (* geometry *)
  assert (NDpre : NoDup (ids (rev pre))).
  { unfold ids. rewrite map_rev. apply NoDup_rev. rewrite Hd in ND. unfold ids in ND. rewrite map_app in ND.
    apply nodup_app_l in ND. exact ND. }
  pose proof (find_outer_spec _ _ _ _ _ _ FO1 NDpre) as Fb. apply found_in_rev in Fb.
  destruct (find_inner_spec items d pre (pht :: w1) s1 inner s2 rem ND Hd L FI) as [F [cons [Hw [Fi CNT]]]].
  assert (WA : forall t, In t wa -> In t rem).
  { destruct items as [|it0 rest0] eqn:EI.
    - simpl in L. inversion L; subst rem. unfold rep_last in SL. simpl in SL. rewrite SP in SL.
      inversion SL; subst. intros; right; auto.
    - rewrite <- EI in *. assert (NE : items <> []) by (rewrite EI; discriminate).
      pose proof (leftover_after items ph d pre (pht :: w1) rem ND Hd L NE) as A.
      unfold after in A. rewrite SL in A. subst rem. auto. }
  assert (NDwa : NoDup (ids wa)).
  { apply split_at_spec in SL. destruct SL as [E _]. rewrite E in ND.
    apply nodup_tail in ND. apply nodup_ids_cons in ND. apply ND. }
  pose proof (find_outer_spec _ _ _ _ _ _ FO2 NDwa) as Fa.
  assert (Fa' : found_in rem ca) by (eapply found_in_incl; eauto).
  assert (NDw : NoDup (ids (cons ++ rem))).
  { rewrite <- Hw. rewrite Hd in ND. eapply nodup_tail; eauto. }
  assert (Fall : found_in d (rev cb_rev ++ F ++ ca)).
  { rewrite Hd, Hw. apply found_in_app; [exact Fb | | rewrite <- Hw, <- Hd; exact ND].
    apply found_in_app; auto. }
  exists (rev cb_rev ++ F ++ ca),
         (map (fun c => (true, c)) (rev cb_rev) ++ inner ++ map (fun c => (true, c)) ca), d2,
         (comments_of (map (fun c => (true, c)) (rev cb_rev) ++ inner ++ map (fun c => (true, c)) ca)).
  split; [reflexivity|]. split; [eapply Permutation_trans; eauto|]. split; [apply claim_all_mark|].
  split; [exact Fall|].
  intros c. rewrite !comments_of_app, !comments_of_true, !count_z_app. specialize (CNT c). lia.
Qed.

(* ---- the invariant through the interleaving calls ------------------------------------------------ *)
Lemma set_flag_claimed_id : forall t, t_claimed t = true -> set_flag true t = t.
Proof. intros [i k x c] H; simpl in *; subst; reflexivity. Qed.

Lemma tget_tset_rep_small : forall tb r l, slots_small tb -> slots_small (tset tb (SRep r) l).
Proof. intros tb r l H n. rewrite !tget_tset. simpl. exact (H n). Qed.

Lemma claimer_step_inv : forall d tb r ph items mf ml flt,
  Inv (d, tb) -> op_ok (d, tb) (OClaimInter r ph items mf ml flt) = true ->
  Inv (cstep (d, tb) (OClaimInter r ph items mf ml flt)).
Proof.
  intros d tb r ph items mf ml flt [ND [OI SS]] OK. simpl in ND, OI, SS, OK.
  apply andb_prop in OK. destruct OK as [EQ ORD]. apply list_eqb_Z in EQ.
  simpl. destruct (claimer_claim d ph items mf ml flt) as [res d'] eqn:H.
  destruct (claimer_claim_cases d ph items mf ml flt res d' ND ORD H)
    as [[P [e E]]|[found [its [d2 [ret [E [P [Ed' [FI CNT]]]]]]]]]; subst res.
  - (* refused: the flags are untouched, the tokens permuted at most *)
    unfold Inv; simpl. split; [|split; auto].
    + unfold ids. eapply Permutation_NoDup; [apply Permutation_sym, Permutation_map; exact P | exact ND].
    + intros t I C. apply OI; auto. eapply Permutation_in; eauto.
  - subst d'. unfold Inv; simpl. split; [|split].
    + rewrite mark_ids. unfold ids. eapply Permutation_NoDup; [apply Permutation_sym, Permutation_map; exact P | exact ND].
    + intros t' I' C'. apply in_mark in I'. destruct I' as [t0 [I0 E0]].
      assert (I0d : In t0 d) by (eapply Permutation_in; eauto).
      assert (ID : t_id t' = t_id t0) by (subst t'; destruct (memz (t_id t0) (comments_of its)); reflexivity).
      assert (C0 : is_comment t0 = true) by (subst t'; destruct (memz (t_id t0) (comments_of its)); exact C').
      rewrite ID.
      pose proof (owners_tset (t_id t0) tb (SRep r) (comments_of its)) as O. rewrite <- EQ in O.
      specialize (CNT (t_id t0)). destruct (OI t0 I0d C0) as [A B].
      pose proof (owners_ge_tget (t_id t0) tb (SRep r)) as GE. rewrite <- EQ in GE.
      destruct FI as [NDf Hf].
      pose proof (count_z_nodup (t_id t0) found NDf) as LE.
      destruct (count_z (t_id t0) found) as [|k] eqn:K.
      * (* not collected now: nothing changes for it *)
        assert (OW : owners (t_id t0) (tset tb (SRep r) (comments_of its)) = owners (t_id t0) tb) by lia.
        rewrite OW. split; [exact A|].
        destruct (memz (t_id t0) (comments_of its)) eqn:M.
        -- apply memz_in in M. apply count_z_in in M.
           assert (owners (t_id t0) tb = 1)%nat by lia.
           assert (CL : t_claimed t0 = true) by (apply B; auto).
           subst t'. rewrite set_flag_claimed_id by exact CL. exact B.
        -- subst t'. exact B.
      * (* collected: it was an unclaimed comment without owner *)
        assert (IN : In (t_id t0) found) by (apply count_z_in; lia).
        destruct (Hf _ IN) as [t1 [I1 [E1 [C1 U1]]]].
        assert (t1 = t0) by (apply (nodup_id_inj d); auto). subst t1.
        assert (Z0 : owners (t_id t0) tb = 0%nat).
        { destruct B as [_ B2]. destruct (Nat.eq_dec (owners (t_id t0) tb) 1) as [K1|K1];
            [specialize (B2 K1); congruence | lia]. }
        assert (M : memz (t_id t0) (comments_of its) = true) by (apply memz_in, count_z_in; lia).
        rewrite M in E0. subst t'. simpl. split; [lia|]. split; intros; auto; lia.
    + apply tget_tset_rep_small; auto.
Qed.

Lemma unclaim_scan_count : forall items s all kept un s',
  unclaim_scan items s all = (kept, un, s') ->
  forall c, (count_z c (old_comments items) = count_z c (comments_of kept) + count_z c un)%nat.
Proof.
  induction items as [|it rest IH]; simpl; intros s all kept un s' H c.
  - inversion H; subst. reflexivity.
  - unfold old_comments in *. simpl map. rewrite count_cons_item.
    destruct (it_comment it) eqn:IC; simpl in H.
    + destruct (negb all && negb (cs_mem s (it_ref it))).
      * destruct (unclaim_scan rest s all) as [[k u] s0] eqn:E. inversion H; subst.
        rewrite count_cons_item, IC. specialize (IH _ _ _ _ _ E c). lia.
      * destruct (unclaim_scan rest (if all then s else cs_discard s (it_ref it)) all) as [[k u] s0] eqn:E.
        inversion H; subst. specialize (IH _ _ _ _ _ E c). simpl. lia.
    + destruct (unclaim_scan rest s all) as [[k u] s0] eqn:E. inversion H; subst.
      rewrite count_cons_item, IC. specialize (IH _ _ _ _ _ E c). lia.
Qed.

Lemma unclaim_inter_step_inv : forall d tb r items flt,
  Inv (d, tb) -> op_ok (d, tb) (OUnclaimInter r items flt) = true ->
  Inv (cstep (d, tb) (OUnclaimInter r items flt)).
Proof.
  intros d tb r items flt [ND [OI SS]] OK. simpl in ND, OI, SS, OK. apply list_eqb_Z in OK.
  simpl. unfold unclaim_inter.
  destruct (unclaim_scan items flt match flt with None => true | Some _ => false end) as [[kept un] s'] eqn:SC.
  pose proof (unclaim_scan_count _ _ _ _ _ _ SC) as CNT.
  destruct (negb match flt with None => true | Some _ => false end && cs_nonempty s').
  - unfold Inv; simpl; auto.
  - rewrite unclaim_all_mark. unfold Inv; simpl. split; [rewrite mark_ids; exact ND|]. split.
    + intros t' I' C'. apply in_mark in I'. destruct I' as [t0 [I0 E0]].
      assert (ID : t_id t' = t_id t0) by (subst t'; destruct (memz (t_id t0) un); reflexivity).
      assert (C0 : is_comment t0 = true) by (subst t'; destruct (memz (t_id t0) un); exact C').
      rewrite ID.
      pose proof (owners_tset (t_id t0) tb (SRep r) (comments_of kept)) as O. rewrite <- OK in O.
      specialize (CNT (t_id t0)). destruct (OI t0 I0 C0) as [A B].
      pose proof (owners_ge_tget (t_id t0) tb (SRep r)) as GE. rewrite <- OK in GE.
      destruct (memz (t_id t0) un) eqn:M.
      * apply memz_in in M. apply count_z_in in M. subst t'. simpl.
        split; [lia|]. split; intros X; [discriminate | lia].
      * assert (count_z (t_id t0) un = 0)%nat.
        { destruct (count_z (t_id t0) un) eqn:K; auto.
          assert (In (t_id t0) un) by (apply count_z_in; lia). apply memz_in in H. congruence. }
        assert (OW : owners (t_id t0) (tset tb (SRep r) (comments_of kept)) = owners (t_id t0) tb) by lia.
        rewrite OW. subst t'. split; auto.
    + apply tget_tset_rep_small; auto.
Qed.

Theorem cstep_inv : forall st o, Inv st -> op_ok st o = true -> Inv (cstep st o).
Proof.
  intros [d tb] o H OK. destruct o as [o|r ph items mf ml flt|r items flt].
  - exact (sstep_inv (d, tb) o H).
  - apply claimer_step_inv; auto.
  - apply unclaim_inter_step_inv; auto.
Qed.

Theorem chistory_inv : forall ops st, Inv st -> hist_ok ops st = true -> Inv (fold_left cstep ops st).
Proof.
  induction ops as [|o ops IH]; simpl; intros st H OK; auto.
  apply andb_prop in OK. destruct OK as [O1 O2]. apply IH; auto. apply cstep_inv; auto.
Qed.

(* the boolean invariant the harness evaluates is the invariant *)
Lemma nodup_zb_ok : forall l, nodup_zb l = true -> NoDup l.
Proof.
  induction l as [|x l IH]; simpl; intros H; [constructor|]. apply andb_prop in H. destruct H as [H1 H2].
  constructor; auto. intro I. apply negb_true_iff in H1.
  assert (existsb (Z.eqb x) l = true); [|congruence].
  apply existsb_exists. exists x; split; auto. apply Z.eqb_refl.
Qed.

Lemma tget_small : forall tb s,
  forallb (fun e : slot * list Z => match fst e with SRep _ => true | _ => (length (snd e) <=? 1)%nat end) tb = true ->
  match s with SRep _ => True | _ => (length (tget tb s) <= 1)%nat end.
Proof.
  induction tb as [|[s0 l0] tb IH]; simpl; intros s H.
  - destruct s; simpl; auto.
  - apply andb_prop in H. destruct H as [H1 H2]. destruct (slot_eqb s0 s) eqn:E.
    + apply slot_eqb_eq in E; subst s0. destruct s; auto; simpl in H1; apply Nat.leb_le in H1; auto.
    + apply IH; auto.
Qed.

Theorem inv_b_ok : forall st, inv_b st = true -> Inv st.
Proof.
  intros [d tb] H. unfold inv_b in H. simpl in H.
  apply andb_prop in H. destruct H as [H H3]. apply andb_prop in H. destruct H as [H1 H2].
  split; [apply nodup_zb_ok; exact H1|]. split.
  - intros t I C. simpl. rewrite forallb_forall in H2. specialize (H2 t I). rewrite C in H2. simpl in H2.
    apply andb_prop in H2. destruct H2 as [A B]. apply Nat.leb_le in A. split; auto.
    apply Bool.eqb_prop in B. rewrite B. rewrite Nat.eqb_eq. tauto.
  - intros n. split; [apply (tget_small tb (SLead n)) | apply (tget_small tb (STrail n))]; auto.
Qed.

Lemma cstep_obs_cstep : forall st o, snd (cstep_obs st o) = cstep st o.
Proof.
  intros [d tb] o. destruct o as [[n start ig ind|n start ig ind|n|n]|r ph items mf ml flt|r items flt]; simpl.
  - destruct (claim_comment (cur_of (tget tb (SLead n))) d start true ig ind) as [[x|e] d']; reflexivity.
  - destruct (claim_comment (cur_of (tget tb (STrail n))) d start false ig ind) as [[x|e] d']; reflexivity.
  - destruct (unclaim_comment (cur_of (tget tb (SLead n))) d) as [[x y] d']; reflexivity.
  - destruct (unclaim_comment (cur_of (tget tb (STrail n))) d) as [[x y] d']; reflexivity.
  - destruct (claimer_claim d ph items mf ml flt) as [[[x y]|e] d']; reflexivity.
  - destruct (unclaim_inter d items flt) as [[[x y]|e] d']; reflexivity.
Qed.

(* ---- node-level assignment of a comment keeps the invariant ---------------------------------------- *)
Lemma nodup_app_intro : forall (l1 l2 : list Z), NoDup l1 -> NoDup l2 -> (forall x, In x l1 -> ~ In x l2) ->
  NoDup (l1 ++ l2).
Proof.
  induction l1 as [|x l1 IH]; simpl; intros l2 N1 N2 D; auto. inversion N1; subst. constructor.
  - intro I. apply in_app_or in I. destruct I as [I|I]; [contradiction | apply (D x); auto].
  - apply IH; auto; intros y Iy; apply D; right; exact Iy.
Qed.

Lemma count_insert_at : forall c' pos c l,
  count_z c' (insert_at pos c l) = (count_z c' l + (if Z.eqb c c' then 1 else 0))%nat.
Proof.
  intros. unfold insert_at. rewrite !count_z_app. simpl.
  rewrite <- (firstn_skipn pos l) at 3. rewrite count_z_app. destruct (c =? c'); lia.
Qed.

Lemma nodup_zb_ok' : forall l, nodup_zb l = true -> NoDup l.
Proof. exact nodup_zb_ok. Qed.

Lemma attach_inv : forall d tb s pos after new c,
  Inv (d, tb) -> attach_ok (d, tb) s new c = true -> Inv (estep (d, tb) (EAttach s pos after new c)).
Proof.
  intros d tb s pos after new c [ND [OI SS]] OK. simpl in ND, OI, SS. unfold attach_ok in OK. simpl in OK.
  apply andb_prop in OK. destruct OK as [OK SL]. apply andb_prop in OK. destruct OK as [OK OW].
  apply andb_prop in OK. destruct OK as [OK EX]. apply andb_prop in OK. destruct OK as [OK ONLY].
  apply andb_prop in OK. destruct OK as [NDn FRESH]. apply Nat.eqb_eq in OW. apply nodup_zb_ok in NDn.
  assert (FR : forall t, In t new -> ~ In (t_id t) (ids d)).
  { intros t I J. rewrite forallb_forall in FRESH. specialize (FRESH t I). apply negb_true_iff in FRESH.
    assert (existsb (Z.eqb (t_id t)) (map t_id d) = true); [|congruence].
    apply existsb_exists. exists (t_id t). split; auto. apply Z.eqb_refl. }
  assert (CF : ~ In c (ids d)).
  { apply existsb_exists in EX. destruct EX as [t [I E]]. apply Z.eqb_eq in E. subst c. apply FR; auto. }
  simpl. destruct (insert_after d after (set_claimed c true new)) as [d'|] eqn:INS; [|split; [|split]; auto].
  assert (SHAPE : exists a b, d = a ++ b /\ d' = a ++ set_claimed c true new ++ b).
  { unfold insert_after in INS. destruct after as [a0|].
    - destruct (split_at a0 d) as [[p [|x b]]|] eqn:S; try discriminate. inversion INS; subst d'.
      apply split_at_spec in S. destruct S as [Hd _]. exists (p ++ [x]), b.
      split; [rewrite Hd, <- app_assoc; reflexivity | rewrite <- app_assoc; reflexivity].
    - inversion INS; subst d'. exists [], d. split; reflexivity. }
  destruct SHAPE as [a [b [Hd Hd']]].
  assert (IN' : forall t', In t' d' -> In t' d \/ exists t0, In t0 new /\ t' = (if t_id t0 =? c then set_flag true t0 else t0)).
  { intros t' I. rewrite Hd' in I. apply in_app_or in I. destruct I as [I|I]; [left; rewrite Hd; apply in_or_app; auto|].
    apply in_app_or in I. destruct I as [I|I]; [|left; rewrite Hd; apply in_or_app; auto].
    right. apply in_set_claimed in I. exact I. }
  unfold Inv; simpl. split; [|split].
  - rewrite Hd'. unfold ids. rewrite !map_app.
    eapply Permutation.Permutation_NoDup; [apply Permutation.Permutation_app_swap_app|].
    apply nodup_app_intro.
    + fold (ids (set_claimed c true new)). rewrite set_claimed_ids. exact NDn.
    + rewrite <- map_app, <- Hd. exact ND.
    + intros x I. fold (ids (set_claimed c true new)) in I. rewrite set_claimed_ids in I.
      apply in_map_iff in I. destruct I as [t [E I]]. subst x. rewrite <- map_app, <- Hd. apply FR; auto.
  - intros t' I' C'. pose proof (owners_tset (t_id t') tb s (insert_at pos c (tget tb s))) as O.
    rewrite count_insert_at in O.
    destruct (IN' t' I') as [Id|[t0 [I0 E0]]].
    + assert (NE : (c =? t_id t') = false).
      { apply Z.eqb_neq. intro E. apply CF. rewrite E. apply in_map; auto. }
      rewrite NE in O. assert (OWN : owners (t_id t') (tset tb s (insert_at pos c (tget tb s))) = owners (t_id t') tb) by lia.
      rewrite OWN. apply OI; auto.
    + assert (C0 : is_comment t0 = true) by (subst t'; destruct (t_id t0 =? c); exact C').
      rewrite forallb_forall in ONLY. specialize (ONLY t0 I0). rewrite C0 in ONLY. simpl in ONLY.
      rewrite ONLY in E0. subst t'. apply Z.eqb_eq in ONLY. simpl in O |- *. rewrite ONLY in O |- *.
      rewrite Z.eqb_refl in O. split; [lia|]. split; intros; auto; lia.
  - destruct s as [n|n|r]; try (apply tget_tset_rep_small; auto); apply slots_small_tset; auto;
      destruct (tget tb _) as [|y l] eqn:TG; try discriminate; unfold insert_at; destruct pos; simpl; lia.
Qed.

Theorem estep_inv : forall st o, Inv st -> eop_ok st o = true -> Inv (estep st o).
Proof.
  intros [d tb] o H OK. destruct o as [o|s pos after new c].
  - apply cstep_inv; auto.
  - apply attach_inv; auto.
Qed.

Theorem ehistory_inv : forall ops st, Inv st -> ehist_ok ops st = true -> Inv (fold_left estep ops st).
Proof.
  induction ops as [|o ops IH]; simpl; intros st H OK; auto.
  apply andb_prop in OK. destruct OK as [O1 O2]. apply IH; auto. apply estep_inv; auto.
Qed.
