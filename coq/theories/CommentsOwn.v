(* C14: the ownership invariant through the interleaving claimer / un-claimer, histories of all six call kinds. *)
From AB Require Import Prelude Comments CommentsProofs.
From Coq Require Import Permutation.

(* ---- small facts -------------------------------------------------------------------------- *)
Lemma count_z_app : forall c a b, count_z c (a ++ b) = (count_z c a + count_z c b)%nat.
Proof. induction a as [|x a IH]; simpl; intros; auto. rewrite IH. lia. Qed.

Lemma count_z_in : forall c l, In c l <-> (count_z c l >= 1)%nat.
Proof.
  induction l as [|x l IH]; simpl; split; intros H; try lia; try contradiction.
  - destruct H as [H|H]; [subst; rewrite Z.eqb_refl; lia | apply IH in H; lia].
  - destruct (x =? c) eqn:E; [left; apply Z.eqb_eq; auto | right; apply IH; simpl in H; lia].
Qed.

Lemma count_z_nodup : forall c l, NoDup l -> (count_z c l <= 1)%nat.
Proof.
  induction l as [|x l IH]; simpl; intros H; [lia|]. inversion H as [|? ? N1 N2]; subst.
  destruct (x =? c) eqn:E; [|specialize (IH N2); lia].
  apply Z.eqb_eq in E; subst. assert (count_z c l = 0)%nat; [|lia].
  destruct (count_z c l) eqn:K; auto. exfalso; apply N1. apply count_z_in. lia.
Qed.

Definition memz (i : Z) (l : list Z) : bool := existsb (Z.eqb i) l.
Lemma memz_in : forall i l, memz i l = true <-> In i l.
Proof.
  unfold memz; intros; rewrite existsb_exists; split.
  - intros [x [I E]]. apply Z.eqb_eq in E; subst; auto.
  - intros I; exists i; split; auto. apply Z.eqb_refl.
Qed.

Definition mark (cs : list Z) (v : bool) (d : doc) : doc :=
  map (fun t => if memz (t_id t) cs then set_flag v t else t) d.

Lemma set_flag_twice : forall v t, set_flag v (set_flag v t) = set_flag v t.
Proof. reflexivity. Qed.

Lemma fold_mark : forall v cs d,
  fold_left (fun acc c => set_claimed c v acc) cs d = mark cs v d.
Proof.
  induction cs as [|c cs IH]; intros d; simpl.
  - unfold mark. simpl. rewrite map_id. reflexivity.
  - rewrite IH. unfold mark, set_claimed. rewrite map_map. apply map_ext. intros t.
    unfold memz. simpl.
    destruct (t_id t =? c) eqn:E; simpl.
    + destruct (existsb (Z.eqb (t_id t)) cs); reflexivity.
    + reflexivity.
Qed.

Lemma claim_all_mark : forall cs d, claim_all cs d = mark cs true d.
Proof. intros; apply fold_mark. Qed.
Lemma unclaim_all_mark : forall cs d, unclaim_all cs d = mark cs false d.
Proof. intros; apply fold_mark. Qed.

Lemma mark_ids : forall cs v d, ids (mark cs v d) = ids d.
Proof.
  intros. unfold ids, mark. rewrite map_map. apply map_ext. intros t.
  destruct (memz (t_id t) cs); reflexivity.
Qed.

Lemma in_mark : forall cs v d t', In t' (mark cs v d) ->
  exists t, In t d /\ t' = (if memz (t_id t) cs then set_flag v t else t).
Proof. intros cs v d t' H. unfold mark in H. apply in_map_iff in H. destruct H as [t [E I]]. exists t; auto. Qed.

Lemma owners_ge_tget : forall c tb s, (count_z c (tget tb s) <= owners c tb)%nat.
Proof.
  induction tb as [|[s' l] tb IH]; simpl; intros s; [lia|].
  destruct (slot_eqb s' s); [lia | specialize (IH s); lia].
Qed.

Lemma list_eqb_Z : forall a b, list_eqb Z.eqb a b = true -> a = b.
Proof.
  induction a as [|x a IH]; destruct b as [|y b]; simpl; intros H; try discriminate; auto.
  apply andb_prop in H. destruct H as [H1 H2]. apply Z.eqb_eq in H1. f_equal; auto.
Qed.

Lemma nodup_app_disjoint : forall (a b : list Z) x, NoDup (a ++ b) -> In x a -> In x b -> False.
Proof.
  induction a as [|y a IH]; simpl; intros b x ND Ia Ib; [contradiction|].
  inversion ND as [|? ? N1 N2]; subst. destruct Ia as [Ia|Ia].
  - subst. apply N1. apply in_or_app; auto.
  - eapply IH; eauto.
Qed.

(* ---- "found" lists: distinct ids of unclaimed block comments of a token list --------------------- *)
Definition found_in (w : list tok) (l : list Z) : Prop :=
  NoDup l /\ forall c, In c l -> exists t, In t w /\ t_id t = c /\ is_comment t = true /\ t_claimed t = false.

Lemma found_in_nil : forall w, found_in w [].
Proof. intros; split; [constructor | intros c []]. Qed.

Lemma found_in_incl : forall w w' l, found_in w l -> (forall t, In t w -> In t w') -> found_in w' l.
Proof. intros w w' l [N H] I; split; auto. intros c Hc. destruct (H c Hc) as [t [A B]]. exists t; auto. Qed.

Lemma found_in_ids : forall w l c, found_in w l -> In c l -> In c (ids w).
Proof. intros w l c [_ H] I. destruct (H c I) as [t [A [B _]]]. subst. apply in_map; auto. Qed.

Lemma found_in_cons : forall t w l, found_in w l -> ~ In (t_id t) (ids w) ->
  is_comment t = true -> t_claimed t = false -> found_in (t :: w) (t_id t :: l).
Proof.
  intros t w l F N C U. split.
  - constructor; [|apply F]. intro I. apply N. eapply found_in_ids; eauto.
  - intros c [E|I]; [subst; exists t; simpl; auto|].
    destruct F as [_ H]. destruct (H c I) as [t0 [A B]]. exists t0; simpl; auto.
Qed.

Lemma found_in_app : forall w1 w2 l1 l2, found_in w1 l1 -> found_in w2 l2 -> NoDup (ids (w1 ++ w2)) ->
  found_in (w1 ++ w2) (l1 ++ l2).
Proof.
  intros w1 w2 l1 l2 F1 F2 ND. split.
  - unfold ids in ND. rewrite map_app in ND.
    destruct F1 as [N1 H1]. destruct F2 as [N2 H2].
    assert (D : forall x, In x l1 -> In x l2 -> False).
    { intros x A B. eapply (nodup_app_disjoint _ _ x ND).
      - destruct (H1 x A) as [t [I [E _]]]. subst. apply in_map; auto.
      - destruct (H2 x B) as [t [I [E _]]]. subst. apply in_map; auto. }
    clear H1 H2. induction l1 as [|x l1 IH]; simpl; auto. inversion N1; subst. constructor.
    + intro I. apply in_app_or in I. destruct I as [I|I]; [contradiction | eapply D; eauto; left; auto].
    + apply IH; auto. intros y A B. eapply D; eauto. right; auto.
  - intros c I. apply in_app_or in I. destruct I as [I|I].
    + destruct F1 as [_ H]. destruct (H c I) as [t [A B]]. exists t; split; auto. apply in_or_app; auto.
    + destruct F2 as [_ H]. destruct (H c I) as [t [A B]]. exists t; split; auto. apply in_or_app; auto.
Qed.

Lemma found_in_rev : forall w l, found_in (rev w) l -> found_in w (rev l).
Proof.
  intros w l [N H]. split; [apply NoDup_rev; auto|].
  intros c I. apply in_rev in I. destruct (H c I) as [t [A B]]. exists t; split; auto. apply in_rev; auto.
Qed.

Lemma nodup_ids_cons : forall t w, NoDup (ids (t :: w)) -> ~ In (t_id t) (ids w) /\ NoDup (ids w).
Proof. intros t w H. inversion H; auto. Qed.

Lemma find_outer_spec : forall w prev limit s l s',
  find_outer prev w limit s = (l, s') -> NoDup (ids w) -> found_in w l.
Proof.
  induction w as [|t w IH]; simpl; intros prev limit s l s' H ND.
  - inversion H; apply found_in_nil.
  - apply nodup_ids_cons in ND. destruct ND as [N1 N2].
    destruct (prev =? limit); [inversion H; apply found_in_nil|].
    destruct (is_nl t || is_ws t || text_empty t).
    + eapply found_in_incl; [eapply IH; eauto | intros; right; auto].
    + destruct (is_comment t) eqn:C; [|inversion H; apply found_in_nil].
      destruct (t_claimed t) eqn:U; [inversion H; apply found_in_nil|].
      destruct (cs_mem s (t_id t)).
      * destruct (find_outer (t_id t) w limit (cs_discard s (t_id t))) as [l0 s0] eqn:E.
        inversion H; subst. apply found_in_cons; auto. eapply IH; eauto.
      * eapply found_in_incl; [eapply IH; eauto | intros; right; auto].
Qed.

Lemma scan_until_spec : forall e w s l s' g ff,
  scan_until e w s = (l, s') -> split_at e w = Some (g, ff) -> NoDup (ids w) -> found_in g l.
Proof.
  induction w as [|t w IH]; simpl; intros s l s' g ff H S ND; [discriminate|].
  apply nodup_ids_cons in ND. destruct ND as [N1 N2].
  destruct (t_id t =? e).
  - inversion H; inversion S; subst. apply found_in_nil.
  - destruct (split_at e w) as [[g0 ff0]|] eqn:S0; [|discriminate]. inversion S; subst.
    assert (N1' : ~ In (t_id t) (ids g0)).
    { intro I. apply N1. apply split_at_spec in S0. destruct S0 as [S0 _]. subst w.
      unfold ids. rewrite map_app. apply in_or_app; auto. }
    assert (N2' : NoDup (ids w)) by exact N2.
    destruct (is_comment t && cs_mem s (t_id t) && negb (t_claimed t)) eqn:C.
    + destruct (scan_until e w (cs_discard s (t_id t))) as [l0 s0] eqn:E. inversion H; subst.
      apply andb_prop in C. destruct C as [C C3]. apply andb_prop in C. destruct C as [C1 C2].
      apply negb_true_iff in C3. apply found_in_cons; auto. eapply IH; eauto.
    + eapply found_in_incl; [eapply IH; eauto | intros; right; auto].
Qed.
