(* Proofs about the generic from_children model (Construct.v). *)
From AB Require Import Desc Tree TreeDefs TreeProofs TreeProofs2 TreeProofs3 TreeProofs4 TreeWF TreeWFProofs Construct.
From Coq Require Import ZArith List Bool Lia.
Import ListNotations.
Open Scope list_scope.

Lemma texts_app : forall a b, texts (a ++ b) = texts a ++ texts b.
Proof. intros. unfold texts. apply map_app. Qed.

Lemma texts_fresh : forall seps next, texts (fresh_toks next seps) = seps.
Proof. induction seps as [|x r IH]; intro next; simpl; auto. rewrite IH. reflexivity. Qed.

Lemma length_fresh : forall seps next, length (fresh_toks next seps) = length seps.
Proof. induction seps as [|x r IH]; intro next; simpl; auto. Qed.

Lemma text_of_cat : forall l, text_of l = cat (texts l).
Proof. reflexivity. Qed.

Section Construct.
Variable cs : classes_t.
Variable new mid : Z.

Lemma item_final_toks : forall x, node_toks (item_final cs new mid x) = node_toks x.
Proof. intro x. unfold item_final. rewrite !reattach_toks. reflexivity. Qed.

Lemma rep_segs_texts : forall items next fs seps segs n',
  rep_segs cs new mid next fs seps items = (segs, n') ->
  texts (flat_map seg_toks segs) = rep_texts fs seps items.
Proof.
  induction items as [|x r IH]; intros next fs seps segs n' H; simpl in H.
  - inversion H. reflexivity.
  - destruct (rep_segs cs new mid (next + Z.of_nat (length fs)) seps seps r) as [rest n2] eqn:E.
    inversion H. subst. simpl. unfold slot_own. simpl.
    rewrite !texts_app, texts_fresh, item_final_toks, (IH _ _ _ _ _ E). simpl.
    rewrite ?app_nil_r, <- ?app_assoc. reflexivity.
Qed.

Lemma field_seg_texts : forall k f a next s n',
  field_seg cs new mid k f a next = Some (s, n') -> texts (seg_toks s) = field_texts k a.
Proof.
  intros k f a next s n' H.
  destruct k as [|seps|seps|seps sb], a as [n|[n|]|items]; simpl in H; try discriminate.
  - inversion H. subst. simpl. unfold slot_own. simpl. rewrite reattach_toks, !app_nil_r. reflexivity.
  - inversion H. subst. simpl. unfold slot_own. simpl.
    rewrite texts_app, texts_fresh, reattach_toks, !app_nil_r. reflexivity.
  - inversion H. subst. reflexivity.
  - inversion H. subst. simpl. unfold slot_own. simpl.
    rewrite !texts_app, texts_fresh, reattach_toks. simpl. rewrite app_nil_r. reflexivity.
  - inversion H. subst. reflexivity.
  - unfold rep_all_segs in H.
    destruct (rep_segs cs new mid (next + 1) match sb with Some b => b | None => seps end seps items)
      as [rest n2] eqn:E.
    inversion H. subst. simpl. unfold slot_own. simpl. rewrite !app_nil_r.
    f_equal. eapply rep_segs_texts. exact E.
Qed.

Section WithClass.
Variable c : cdesc.
Variable args : list (string * arg).

Lemma build_cons : forall x r next segs, build cs new mid c args (x :: r) next = Some segs ->
  exists s n' segs', lay_seg cs new mid c args x next = Some (s, n')
                     /\ build cs new mid c args r n' = Some segs' /\ segs = s :: segs'.
Proof.
  intros x r next segs H. cbn [build] in H.
  destruct (lay_seg cs new mid c args x next) as [[s n']|] eqn:E1; try discriminate.
  destruct (build cs new mid c args r n') as [segs'|] eqn:E2; try discriminate.
  inversion H. exists s, n', segs'. auto.
Qed.

Lemma lay_seg_field : forall x next s n', lay_seg cs new mid c args x next = Some (s, n') ->
  (exists text, x = LLit text /\ s = SGlue [mktk next (sep_rule text) text] /\ n' = (next + 1)%Z)
  \/ (exists f k a, lay_field x = Some f /\ find_field (c_fields c) f = Some k /\ lookup f args = Some a
                    /\ field_seg cs new mid k f a next = Some (s, n')).
Proof.
  intros x next s n' H. unfold lay_seg in H. destruct (lay_field x) as [f|] eqn:Ef.
  - right. destruct (find_field (c_fields c) f) as [k|] eqn:Ek; try discriminate.
    destruct (lookup f args) as [a|] eqn:Ea; try discriminate. exists f, k, a. auto.
  - left. destruct x; try discriminate. inversion H. exists text. auto.
Qed.

Lemma lay_seg_texts : forall x next s n', lay_seg cs new mid c args x next = Some (s, n') ->
  texts (seg_toks s) = lay_texts c args x.
Proof.
  intros x next s n' H. destruct (lay_seg_field _ _ _ _ H) as [(text & Ex & Es & _)|(f & k & a & Ef & Ek & Ea & Hs)].
  - subst. reflexivity.
  - rewrite (field_seg_texts _ _ _ _ _ _ Hs). unfold lay_texts. rewrite Ef, Ek, Ea.
    destruct x; try reflexivity. discriminate.
Qed.

Lemma build_texts : forall l next segs, build cs new mid c args l next = Some segs ->
  texts (flat_map seg_toks segs) = flat_map (lay_texts c args) l.
Proof.
  induction l as [|x r IH]; intros next segs H.
  - inversion H. reflexivity.
  - destruct (build_cons _ _ _ _ H) as (s & n' & segs' & Hs & Hb & E). subst segs. simpl.
    rewrite texts_app, (lay_seg_texts _ _ _ _ Hs), (IH _ _ Hb). reflexivity.
Qed.

Lemma construct_inv : forall data next store n, construct cs new mid c args data next = Some (store, n) ->
  exists l segs, c_layout c = Some l /\ build cs new mid c args l next = Some segs
    /\ store = flat_map seg_toks segs
    /\ exists T, n = Tree (c_name c) new T (seg_kids segs) data
       /\ T = span_toks store
                (border cs (S (S (kids_depth (slot_depth depth) (seg_kids segs)))) SFirst
                        (Tree (c_name c) new [] (seg_kids segs) data))
                (border cs (S (S (kids_depth (slot_depth depth) (seg_kids segs)))) SLast
                        (Tree (c_name c) new [] (seg_kids segs) data)).
Proof.
  intros data next store n H. unfold construct in H.
  destruct (c_layout c) as [l|]; try discriminate.
  destruct (build cs new mid c args l next) as [segs|] eqn:Eb; try discriminate.
  inversion H. subst. exists l, segs. repeat split; auto. eexists. split; reflexivity.
Qed.

(* the new store holds, token by token, the texts the layout specifies; hence the printed text *)
Theorem constructed_texts : forall data next store n,
  construct cs new mid c args data next = Some (store, n) ->
  texts store = spec_texts c args /\ text_of store = cat (spec_texts c args).
Proof.
  intros data next store n H. destruct (construct_inv _ _ _ _ H) as (l & segs & El & Eb & Es & _).
  assert (E : texts store = spec_texts c args).
  { subst store. unfold spec_texts. rewrite El. eapply build_texts. exact Eb. }
  split; auto. rewrite text_of_cat, E. reflexivity.
Qed.

(* ---- the children of the result are the arguments, re-attached -------------------------------- *)
Definition slot_of_arg (sl : slot) (a : arg) : Prop :=
  match sl, a with
  | SReq x, AReq n => x = reattach cs new n
  | SOpt None, AOpt None => True
  | SOpt (Some x), AOpt (Some n) => x = reattach cs new n
  | SRep s _ _ items', ARep items => s = new /\ items' = map (item_final cs new mid) items
  | _, _ => False
  end.

Lemma field_seg_kid : forall k f a next s n', field_seg cs new mid k f a next = Some (s, n') ->
  exists sl pre post, s = SKid f sl pre post /\ slot_of_arg sl a /\ kind_ok k sl = true.
Proof.
  intros k f a next s n' H.
  destruct k as [|seps|seps|seps sb], a as [n|[n|]|items]; simpl in H; try discriminate;
    try (inversion H; subst; do 3 eexists; split; [reflexivity|split; simpl; auto]).
  unfold rep_all_segs in H.
  destruct (rep_segs cs new mid (next + 1) match sb with Some b => b | None => seps end seps items)
    as [rest n2] eqn:E.
  inversion H. subst. do 3 eexists. split; [reflexivity|split; simpl; auto].
Qed.

Definition lay_fields (l : list lay) : list string :=
  flat_map (fun x => match lay_field x with Some f => [f] | None => [] end) l.

Definition kid_from_arg (name : string) (sl : slot) : Prop :=
  exists k a, find_field (c_fields c) name = Some k /\ lookup name args = Some a
              /\ slot_of_arg sl a /\ kind_ok k sl = true.

Lemma build_kids : forall l next segs, build cs new mid c args l next = Some segs ->
  map fst (seg_kids segs) = lay_fields l
  /\ (forall name sl, In (name, sl) (seg_kids segs) -> kid_from_arg name sl).
Proof.
  induction l as [|x r IH]; intros next segs H.
  - inversion H. split; [reflexivity | intros ? ? []].
  - destruct (build_cons _ _ _ _ H) as (s & n' & segs' & Hs & Hb & E). subst segs.
    destruct (IH _ _ Hb) as [IH1 IH2].
    destruct (lay_seg_field _ _ _ _ Hs) as [(text & Ex & Es & _)|(f & k & a & Ef & Ek & Ea & Hf)].
    + subst. simpl. split; auto.
    + destruct (field_seg_kid _ _ _ _ _ _ Hf) as (sl & pre & post & Es & Hsa & Hk). subst s.
      unfold lay_fields in *. simpl. rewrite Ef. simpl. split.
      * f_equal. exact IH1.
      * intros name sl' [E|Hin]; [|auto]. inversion E. subst. exists k, a. auto.
Qed.

Lemma lay_fmt_fields : forall l fm, list_eqb lay_fmt_match l fm = true ->
  lay_fields l = flat_map (fun f => match f with FmtField n _ => [n] | FmtLit _ => [] end) fm.
Proof.
  induction l as [|x l IH]; intros [|y fm] H; simpl in H; try discriminate; auto.
  apply andb_true_iff in H. destruct H as [H1 H2]. unfold lay_fields in *. simpl. rewrite (IH _ H2).
  f_equal. destruct x, y; unfold lay_fmt_match in H1; try discriminate; apply String.eqb_eq in H1; subst; reflexivity.
Qed.

Lemma layout_names : forall l, wf_desc c = true -> c_layout c = Some l -> lay_fields l = names c.
Proof.
  intros l Hwf El. unfold wf_desc in Hwf. apply andb_true_iff in Hwf. destruct Hwf as [_ Hl].
  unfold layout_ok in Hl. rewrite El in Hl. apply andb_true_iff in Hl. destruct Hl as [H1 H2].
  rewrite (lay_fmt_fields _ _ H1). apply names_eqb_eq. exact H2.
Qed.

Lemma find_field_In : forall fs f, NoDup (map f_name fs) -> In f fs -> find_field fs (f_name f) = Some (f_kind f).
Proof.
  induction fs as [|g fs IH]; intros f Hnd Hin; [destruct Hin|]. simpl.
  inversion Hnd as [|? ? Hni Hnd']. subst. destruct Hin as [E|Hin].
  - subst. rewrite String.eqb_refl. reflexivity.
  - destruct (String.eqb (f_name g) (f_name f)) eqn:E.
    + apply String.eqb_eq in E. exfalso. apply Hni. rewrite E. apply in_map. exact Hin.
    + apply IH; auto.
Qed.

Theorem constructed_fields : forall data next store n,
  construct cs new mid c args data next = Some (store, n) ->
  exists T kids, n = Tree (c_name c) new T kids data
    /\ (wf_desc c = true -> map fst kids = names c)
    /\ (forall name sl, In (name, sl) kids -> kid_from_arg name sl).
Proof.
  intros data next store n H. destruct (construct_inv _ _ _ _ H) as (l & segs & El & Eb & Es & T & En & _).
  destruct (build_kids _ _ _ Eb) as [H1 H2].
  exists T, (seg_kids segs). split; [exact En|split; auto].
  intro Hwf. rewrite H1. apply layout_names; assumption.
Qed.

(* ---- the result conforms ----------------------------------------------------------------------- *)
Definition arg_nodes (a : arg) : list node :=
  match a with AReq n => [n] | AOpt None => [] | AOpt (Some n) => [n] | ARep items => items end.
Definition args_all (P : node -> Prop) : Prop :=
  forall f a, lookup f args = Some a -> forall x, In x (arg_nodes a) -> P x.

Lemma slot_of_arg_conforms : forall sl a, slot_of_arg sl a ->
  (forall x, In x (arg_nodes a) -> conforms cs x = true) -> slot_all (conforms cs) sl = true.
Proof.
  intros [x|[x|]|s t ph items'|items'] [n|[n|]|items] H Ha; simpl in *; try contradiction; auto.
  - subst. apply reattach_conforms. auto.
  - subst. apply reattach_conforms. auto.
  - destruct H as [_ E]. subst. apply forallb_forall. intros y Hy. apply in_map_iff in Hy.
    destruct Hy as (x & E & Hx). subst. unfold item_final. apply reattach_conforms, reattach_conforms. auto.
Qed.

Theorem constructed_conforms : forall data next store n,
  find_class cs (c_name c) = Some c -> wf_desc c = true -> NoDup (names c) ->
  args_all (fun x => conforms cs x = true) ->
  construct cs new mid c args data next = Some (store, n) ->
  conforms cs n = true.
Proof.
  intros data next store n Hfind Hwf Hnd Hargs H.
  destruct (constructed_fields _ _ _ _ H) as (T & kids & En & Hnames & Hkids). subst n.
  specialize (Hnames Hwf). rewrite conforms_tree, Hfind.
  assert (Hndk : NoDup (map fst kids)) by (rewrite Hnames; exact Hnd).
  repeat (apply andb_true_iff; split).
  - apply forallb_forall. intros f Hf.
    assert (Hin : In (f_name f) (map fst kids)) by (rewrite Hnames; unfold names; apply in_map; exact Hf).
    apply in_map_iff in Hin. destruct Hin as ([k sl] & E & Hin). simpl in E. subst k.
    rewrite (In_kid _ _ _ Hndk Hin).
    destruct (Hkids _ _ Hin) as (k & a & Hk & _ & _ & Hko).
    rewrite (find_field_In (c_fields c) f Hnd Hf) in Hk. inversion Hk. subst. exact Hko.
  - apply forallb_forall. intros k Hk. apply mem_In. rewrite <- Hnames. exact Hk.
  - apply nodupb_NoDup. exact Hndk.
  - apply kids_all_In. intros k sl Hin.
    destruct (Hkids _ _ Hin) as (k' & a & _ & Ha & Hsa & _).
    eapply slot_of_arg_conforms; [exact Hsa|]. intros x Hx. eapply Hargs; eauto.
Qed.
End WithClass.
End Construct.
