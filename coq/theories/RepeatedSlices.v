(* Step-1 slice assignment (and __delitem__ by int / step-1 slice) under the layout invariant:
   _del_tokens followed by _insert_tokens on the old item list. *)
From AB Require Import Prelude PySeq RepeatedLib Repeated Fields RepeatedProofs RepeatedLayout RepeatedInsert RepeatedCells RepeatedSep RepeatedOps.
From Coq Require Import ZifyBool Permutation.

Definition del_tail (A M B : list cell) (post : list tok) : list cell :=
  match A, M, B with
  | [], m0 :: _, b0 :: B' => mkcell (c_gap m0) (c_body b0) :: B'
  | _ :: _, m0 :: _, b0 :: B' =>
      if keep_gap (c_gap m0) (flat B ++ post) then mkcell (c_gap m0 ++ c_gap b0) (c_body b0) :: B' else B
  | _, _, _ => B
  end.

Lemma del_res_tail : forall A M B post, del_res A M B post = A ++ del_tail A M B post.
Proof. intros [|a A] [|m0 M] [|b0 B] post; try reflexivity. cbn [del_res del_tail]. now destruct (keep_gap _ _). Qed.

Lemma del_tail_tail : forall A M B post, tail_eq B (del_tail A M B post).
Proof. intros [|a A] [|m0 M] [|b0 B] post; cbn [del_tail tail_eq]; auto. destruct (keep_gap _ _); cbn; auto. Qed.

Lemma del_tail_bodies : forall A M B post, map c_body (del_tail A M B post) = map c_body B.
Proof. intros [|a A] [|m0 M] [|b0 B] post; try reflexivity. cbn [del_tail]. now destruct (keep_gap _ _). Qed.

Lemma del_tail_items : forall A M B post, map item_of (del_tail A M B post) = map item_of B.
Proof. intros [|a A] [|m0 M] [|b0 B] post; try reflexivity. cbn [del_tail]. now destruct (keep_gap _ _). Qed.

Lemma del_tail_len : forall A M B post, zlen (del_tail A M B post) = zlen B.
Proof. intros [|a A] [|m0 M] [|b0 B] post; try reflexivity. cbn [del_tail]. now destruct (keep_gap _ _). Qed.

Lemma list_set_slice_step1 : forall {A} (l : list A) (a b : Z) (xs : list A),
  0 <= a <= zlen l -> 0 <= b <= zlen l ->
  list_set_slice l (mkslc (Some a) (Some b) (Some 1)) xs = Ok (splice l a b xs).
Proof.
  intros A l a b xs Ha Hb. unfold list_set_slice, slice_indices. cbn [sl_step sl_start sl_stop].
  cbn [Z.eqb Z.ltb Z.compare].
  replace (a <? 0) with false by lia. replace (b <? 0) with false by lia.
  replace (Z.min a (zlen l)) with a by lia. replace (Z.min b (zlen l)) with b by lia.
  reflexivity.
Qed.

(* separators_before_last as computed by __setitem__: the token before the first item *)
Lemma sbl_first : forall pre pht c0 cs post,
  NoDup (ids (lay pre pht (c0 :: cs) post)) -> c_body c0 <> [] ->
  st_get_prev (fst (item_of c0)) (lay pre pht (c0 :: cs) post)
  = Ok (Some (tid (last (pre ++ pht :: c_gap c0) dft))).
Proof.
  intros pre pht c0 cs post Hnd Hb. destruct (c_body c0) as [|n bq] eqn:Eb; [congruence|].
  assert (E : lay pre pht (c0 :: cs) post = (pre ++ pht :: c_gap c0) ++ n :: bq ++ flat cs ++ post).
  { unfold lay. rewrite flat_cons, Eb. repeat rewrite <- app_assoc. cbn [app]. repeat rewrite <- app_assoc. reflexivity. }
  rewrite E in *. cbn [fst item_of]. rewrite Eb. cbn [hd].
  rewrite get_prev_mid by (eapply nodup_mid_l; exact Hnd).
  destruct (@exists_last _ (pre ++ pht :: c_gap c0)) as [P [s EG]]; [now destruct pre|].
  rewrite EG, last_opt_snoc, last_last. reflexivity.
Qed.

Section Slices.
Variable ph : Z.
Variables seps sepsb : list (kind * str).
Hypothesis Hseps : seps_ok seps.
Hypothesis Hsepsb : seps_ok sepsb.

Theorem setslice_layout : forall pre pht cs post sl vs fr,
  WF ph pre pht cs post -> donors_ok fr (lay pre pht cs post) vs -> NoDup (map d_node vs) ->
  (sl_step sl = None \/ sl_step sl = Some 1) ->
  exists A M B cs',
    cs = A ++ M ++ B /\
    setitem_slice ph seps sepsb (mkst (lay pre pht cs post) (map item_of cs)) sl vs fr
      = (mkst (lay pre pht cs' post) (map item_of cs'), map emptied vs, Ok tt) /\
    WF ph pre pht cs' post /\ Edit cs cs' M (map d_store vs) /\
    map item_of cs' = map item_of A ++ map node_item vs ++ map item_of B /\
    (Sep seps sepsb cs -> Sep seps sepsb cs').
Proof.
  intros pre pht cs post sl vs fr Hwf Hdon Hnn Hstep.
  pose proof (zlen_nonneg cs) as Hn.
  unfold setitem_slice. cbn [s_doc s_items]. rewrite zlen_map.
  unfold range_from_index, range_getslice.
  destruct (slice_indices (zlen cs) sl) as [[[a b] k]|e] eqn:Esl.
  2:{ exfalso. unfold slice_indices in Esl. destruct Hstep as [E|E]; rewrite E in Esl; discriminate. }
  assert (Hk : k = 1).
  { unfold slice_indices in Esl. destruct Hstep as [E|E]; rewrite E in Esl; cbn in Esl; inversion Esl; reflexivity. }
  subst k.
  destruct (slice_indices_range _ _ _ _ _ Hn Esl) as (_ & Hpos & _). destruct (Hpos ltac:(lia)) as [Ha Hb]. clear Hpos.
  cbn [r_start r_stop r_step]. replace (1 =? 1) with true by reflexivity.
  rewrite check_detachable_pass; [|eapply donors_ok_detachable; exact Hdon|exact Hnn].
  destruct (cut3 cs a (Z.max 0 (b - a))) as (A & M & B & -> & HA & HM); [lia|lia|lia|].
  exists A, M, B, (ins_res seps sepsb A (del_tail A M B post) fr vs).
  split; [reflexivity|].
  (* separators_before_last *)
  assert (Hsbl : exists sbl,
     match map item_of (A ++ M ++ B) with [] => Ok None | it0 :: _ => st_get_prev (fst it0) (lay pre pht (A ++ M ++ B) post) end = Ok sbl
     /\ (A = [] -> forall b0 B', del_tail A M B post = b0 :: B' ->
           sbl = Some (tid (last (pre ++ pht :: c_gap b0) dft)) \/ (sbl = None /\ M ++ B = del_tail A M B post))).
  { destruct (A ++ M ++ B) as [|c0 rest] eqn:Ecs.
    - exists None. split; [reflexivity|]. intros -> b0 B' E. right. split; [reflexivity|].
      apply app_eq_nil in Ecs. destruct Ecs as [_ Ecs]. apply app_eq_nil in Ecs. destruct Ecs as [-> ->]. reflexivity.
    - destruct Hwf as (Hph & Hnd & Hok). pose proof (Forall_inv Hok) as [Hc0 _].
      exists (Some (tid (last (pre ++ pht :: c_gap c0) dft))). split; [cbn [map]; now apply sbl_first|].
      intros -> b0 B' E. left. cbn [app] in Ecs. destruct M as [|m0 M'].
      + cbn [app del_tail] in *. rewrite E in Ecs. now inversion Ecs.
      + cbn [app] in Ecs. inversion Ecs; subst. destruct B as [|b1 B1]; [discriminate|]. cbn [del_tail] in E.
        inversion E; subst. reflexivity. }
  destruct Hsbl as (sbl & -> & Hsbl).
  (* deletion *)
  assert (Hdel : del_tokens ph (lay pre pht (A ++ M ++ B) post) (map item_of (A ++ M ++ B)) a b
                 = (lay pre pht (A ++ del_tail A M B post) post, Ok tt)).
  { rewrite <- del_res_tail. destruct M as [|m0 M'].
    - change (zlen (@nil cell)) with 0 in HM. rewrite del_tokens_noop by lia.
      replace (del_res A [] B post) with (A ++ B) by (now destruct A). reflexivity.
    - rewrite zlen_cons in HM. pose proof (zlen_nonneg M').
      replace b with (zlen A + zlen (m0 :: M')) by (rewrite zlen_cons; lia). rewrite <- HA.
      apply del_layout; [exact Hwf|discriminate]. }
  rewrite Hdel.
  destruct (del_res_wf ph pre pht A M B post Hwf) as [Hwf1 Hsub]. rewrite del_res_tail in Hwf1, Hsub.
  assert (Hdon1 : donors_ok fr (lay pre pht (A ++ del_tail A M B post) post) vs).
  { eapply donors_ok_sub; [exact Hdon|apply Hwf1|exact Hsub]. }
  assert (Hrl : zlen (A ++ M ++ B) - range_len (mkrng a b 1) = zlen (A ++ del_tail A M B post)).
  { unfold range_len. cbn [r_start r_stop r_step]. rewrite !zlen_app, del_tail_len.
    replace (0 <? 1) with true by reflexivity.
    destruct (a <? b) eqn:E; [rewrite Z.div_1_r|]; lia. }
  rewrite Hrl. rewrite <- HA.
  destruct (ins_layout ph seps sepsb Hseps Hsepsb pre pht A (del_tail A M B post) post (map item_of (A ++ (M ++ B))) (M ++ B) vs sbl fr)
    as (Hi & Hwf' & Hit); [exact Hwf1|reflexivity|exact Hsbl|exact Hdon1|].
  rewrite Hi. rewrite del_tail_items in Hit.
  assert (Hset : list_set_slice (map item_of (A ++ M ++ B)) (slice_from_range (mkrng (zlen A) b 1)) (map node_item vs)
                 = Ok (map item_of A ++ map node_item vs ++ map item_of B)).
  { unfold slice_from_range. cbn [r_start r_stop r_step]. replace (b =? -1) with false by lia.
    rewrite list_set_slice_step1; [|rewrite zlen_map; lia|rewrite zlen_map; lia].
    rewrite !map_app. replace (zlen A) with (zlen (map item_of A)) by apply zlen_map.
    destruct M as [|m0 M'].
    - change (zlen (@nil cell)) with 0 in HM. cbn [map app]. rewrite splice_ins; [reflexivity|rewrite zlen_map; lia].
    - rewrite zlen_cons in HM. pose proof (zlen_nonneg M').
      replace b with (zlen (map item_of A) + zlen (map item_of (m0 :: M'))) by (rewrite !zlen_map, zlen_cons; lia).
      now rewrite splice_mid. }
  rewrite Hset. rewrite Hit.
  split; [reflexivity|]. split; [exact Hwf'|]. split; [|split; [reflexivity|]].
  2:{ intro HS. apply Sep_ins. rewrite <- del_res_tail. now apply Sep_del. }
  destruct (ins_res_shape seps sepsb A (del_tail A M B post) fr vs) as (Nc & B' & E & E1 & E2).
  exists A, B, Nc, B'. split; [reflexivity|]. split; [exact E|]. split; [exact E1|].
  eapply tail_eq_trans; [apply del_tail_tail|exact E2].
Qed.

(* __delitem__ with an int or a step-1 slice is the slice assignment of the empty list *)
Lemma delitem_step1 : forall s index fr r,
  range_from_index index (zlen (s_items s)) = Ok r -> r_step r = 1 ->
  delitem ph seps sepsb s index fr = setitem_slice ph seps sepsb s (slice_from_range r) [] fr.
Proof. intros s index fr r Hr Hs. unfold delitem. rewrite Hr, Hs. reflexivity. Qed.

Lemma donors_ok_nil : forall fr d, NoDup (ids d) -> (forall x, In x (ids d) -> x < fr) -> donors_ok fr d [].
Proof. intros fr d Hn Hb. repeat split; [constructor|exact Hb|intros x []|cbn; now rewrite app_nil_r]. Qed.

Theorem delitem_layout : forall pre pht cs post index fr r,
  WF ph pre pht cs post -> (forall x, In x (ids (lay pre pht cs post)) -> x < fr) ->
  range_from_index index (zlen cs) = Ok r -> r_step r = 1 ->
  exists A M B cs',
    cs = A ++ M ++ B /\
    delitem ph seps sepsb (mkst (lay pre pht cs post) (map item_of cs)) index fr
      = (mkst (lay pre pht cs' post) (map item_of cs'), [], Ok tt) /\
    WF ph pre pht cs' post /\ Edit cs cs' M [] /\ map item_of cs' = map item_of A ++ map item_of B /\
    (Sep seps sepsb cs -> Sep seps sepsb cs').
Proof.
  intros pre pht cs post index fr r Hwf Hb Hr Hs.
  rewrite (delitem_step1 _ index fr r); [|cbn [s_items]; now rewrite zlen_map|exact Hs].
  destruct (setslice_layout pre pht cs post (slice_from_range r) [] fr Hwf) as (A & M & B & cs' & E & H1 & H2 & H3 & H4 & H5).
  - apply donors_ok_nil; [apply Hwf|exact Hb].
  - constructor.
  - right. unfold slice_from_range. cbn [sl_step]. now rewrite Hs.
  - exists A, M, B, cs'. split; [exact E|]. split; [exact H1|]. split; [exact H2|]. split; [exact H3|]. split; [exact H4|exact H5].
Qed.

End Slices.
