(* Constructors (TokenStore(), from_tokens) establish the invariant; every history of valid operations
   keeps it and follows the plain-list reference (for every load factor >= 1). *)
From AB Require Export StoreOps.
From AB Require Import StoreRun.
From Coq Require Import ZifyBool.

(* a token heap in which no token belongs to a store and cached sizes match the texts *)
Definition clean (tk : tokmap) : Prop :=
  (forall t, t_handle (tget tk t) = None) /\ (forall t, tsz tk t = token_size (t_text (tget tk t))).

Lemma clean_empty : clean (PositiveMap.empty tokrec).
Proof. split; intro t; unfold tsz, tget; rewrite PositiveMap.gempty; reflexivity. Qed.

Lemma empty_inv tk : clean tk -> Inv (empty_store tk) /\ abs (empty_store tk) = [].
Proof.
  intros [Hh Hs]. assert (toks (empty_store tk) 1 = []) as T1 by reflexivity.
  split; [split|reflexivity]; [|reflexivity]. constructor.
  - discriminate.
  - repeat constructor. intros [].
  - intros b [<-|[]]. reflexivity.
  - intros i b H. destruct i as [|[|i]]; cbn in H; try discriminate. injection H as <-. reflexivity.
  - constructor.
  - intros b [<-|[]] _. split; [split|auto].
    + intros j t H. rewrite T1 in H. destruct j; discriminate.
    + reflexivity.
  - intros t H. exfalso. apply H. apply Hh.
  - exact Hs.
Qed.

Lemma inv_empty_clean s : Inv s -> abs s = [] -> clean (s_toks s).
Proof.
  intros [I _] E. split; [|apply (g_sz _ _ I)]. intro t.
  destruct (t_handle (tget (s_toks s) t)) eqn:Eh; [|reflexivity].
  exfalso. assert (In t (abs s)) as Hin by (apply (g_hin _ _ I); unfold hnd; rewrite Eh; discriminate).
  rewrite E in Hin. exact Hin.
Qed.

Theorem from_tokens_spec LF tk ts s' r : 1 <= LF -> clean tk -> NoDup ts ->
  from_tokens LF tk ts = (s', r) ->
  r = Ok tt /\ Inv s' /\ abs s' = ts /\ (forall t, txt s' t = t_text (tget tk t)).
Proof.
  intros HLF Hc ND H. pose proof Hc as [Hh Hs]. unfold from_tokens in H.
  rewrite existsb_false in H by (intros t _; rewrite Hh; reflexivity).
  destruct (empty_inv tk Hc) as [[I0 L0] E0].
  destruct ts as [|t0 ts0].
  - injection H as <- <-. split; [reflexivity|]. split; [split; assumption|]. split; [exact E0|reflexivity].
  - set (ts := t0 :: ts0) in *.
    destruct (build_blocks LF (length ts) (empty_store tk) 0 ts) as [s1 r1] eqn:EB.
    destruct (build_blocks_spec LF HLF _ _ _ _ _ _ (le_n _) ND EB) as (bs & -> & HBB).
    destruct HBB as (B1 & B2 & B3 & B4 & B5 & B6 & B7 & B8 & B9 & B10 & B11 & B12).
    assert (s' = with_len (with_blocks s1 bs) (zlen ts) /\ r = Ok tt) as [-> ->]
      by (injection H as E1 E2; split; symmetry; [exact E1|exact E2]).
    set (sf := with_len (with_blocks s1 bs) (zlen ts)).
    destruct (seg_replace (fun _ => False) (fun _ => False) (empty_store tk) sf [] [1%positive] bs [] ts I0) as [I' Ea'].
    + reflexivity.
    + discriminate.
    + intros b [].
    + cbn [app]. rewrite app_nil_r. reflexivity.
    + apply B10. discriminate.
    + cbn [app]. rewrite app_nil_r. exact B5.
    + cbn [app]. rewrite app_nil_r. intros b Hb. apply B4 in Hb. change (s_next sf) with (s_next s1). lia.
    + cbn [app]. rewrite app_nil_r. intros i b Hb. change (bidx sf b) with (bidx s1 b). rewrite (B8 _ _ Hb). lia.
    + intros b [].
    + exact B7.
    + cbn [flat_map app]. rewrite app_nil_r. exact ND.
    + intro t. apply (B11 t).
    + intros t Hn _. unfold hnd. change (s_toks sf) with (s_toks s1). rewrite B12 by assumption. reflexivity.
    + intros t _ [].
    + intros b Hb _. destruct (B9 b Hb) as [Hne Hok]. split; [exact Hok|]. intro Ee. contradiction.
    + split; [reflexivity|]. cbn [flat_map app] in Ea'. rewrite app_nil_r in Ea'.
      split; [split; [exact I'|rewrite Ea'; reflexivity]|]. split; [exact Ea'|].
      intro t. apply (proj2 (B11 t)).
Qed.

(* ---------- the list reference for operation histories ---------- *)
Fixpoint pidx (t : positive) (l : list positive) : nat :=
  match l with [] => 0%nat | x :: r => if Pos.eqb x t then 0%nat else S (pidx t r) end.

Lemma pidx_nth t l : In t l -> nth_error l (pidx t l) = Some t.
Proof.
  induction l as [|x r IH]; intro H; [destruct H|]. cbn [pidx]. destruct (Pos.eqb_spec x t) as [->|N]; [reflexivity|].
  destruct H as [->|H]; [contradiction|]. apply IH; assumption.
Qed.

Definition before_pos (l : list positive) (ref : option Z) : nat :=
  match ref with None => 0%nat | Some r => pidx (P r) l end.
Definition after_pos (l : list positive) (ref : option Z) : nat :=
  match ref with None => 0%nat | Some r => S (pidx (P r) l) end.
Definition ref_in (l : list positive) (ref : option Z) : Prop :=
  match ref with None => True | Some r => In (P r) l end.

Definition ref_step (l : list positive) (o : sop) : list positive :=
  match o with
  | OEmpty => []
  | OFromTokens ts => map P ts
  | OInsAfter r ts => let p := after_pos l r in list_splice l (map P ts) p p
  | OInsBefore r ts => let p := before_pos l r in list_splice l (map P ts) p p
  | OSplice ts r d => let p := before_pos l r in
                      let q := match d with None => p | Some d0 => S (pidx (P d0) l) end in
                      list_splice l (map P ts) p q
  | ORemove a b => list_splice l [] (pidx (P a) l) (S (match b with None => pidx (P a) l | Some b0 => pidx (P b0) l end))
  | OReplace t r => list_splice l [P r] (pidx (P t) l) (S (pidx (P t) l))
  | OSetText _ _ => l
  end.

Definition ref_text (f : positive -> str) (o : sop) : positive -> str :=
  match o with
  | OSetText t x => fun u => if Pos.eqb u (P t) then x else f u
  | _ => f
  end.

(* the contract of each operation, stated on the plain list only *)
Definition op_valid (l : list positive) (o : sop) : Prop :=
  match o with
  | OEmpty => l = []
  | OFromTokens ts => l = [] /\ NoDup (map P ts)
  | OInsAfter r ts => ref_in l r /\ NoDup (map P ts) /\ (forall t, In t (map P ts) -> ~ In t l)
  | OInsBefore r ts => ref_in l r /\ NoDup (map P ts) /\ (forall t, In t (map P ts) -> ~ In t l)
  | OSplice ts r d =>
      let p := before_pos l r in
      let q := match d with None => p | Some d0 => S (pidx (P d0) l) end in
      ref_in l r /\ ref_in l d /\ match d with None => True | Some _ => (p < q)%nat end /\
      valid_tokens l (map P ts) p q
  | ORemove a b => In (P a) l /\ match b with None => True | Some b0 => In (P b0) l /\ (pidx (P a) l <= pidx (P b0) l)%nat end
  | OReplace t r => In (P t) l /\ (P r = P t \/ ~ In (P r) l)
  | OSetText _ _ => True
  end.

Fixpoint ops_valid (l : list positive) (ops : list sop) : Prop :=
  match ops with [] => True | o :: r => op_valid l o /\ ops_valid (ref_step l o) r end.

Lemma step_refines LF s o s' r : 1 <= LF -> Inv s -> op_valid (abs s) o -> step LF s o = (s', r) ->
  r = Ok tt /\ Inv s' /\ abs s' = ref_step (abs s) o /\ (forall t, txt s' t = ref_text (txt s) o t).
Proof.
  intros HLF II Hv H. destruct o as [|ts|rf ts|rf ts|ts rf d|a b|t r0|t x]; cbn [step op_valid ref_step ref_text] in *.
  - (* TokenStore() *)
    injection H as <- <-. destruct (empty_inv (s_toks s) (inv_empty_clean s II Hv)) as [I' E']. auto.
  - destruct Hv as [El ND].
    destruct (from_tokens LF (s_toks s) (map P ts)) as [s1 r1] eqn:EF.
    destruct (from_tokens_spec LF _ _ _ _ HLF (inv_empty_clean s II El) ND EF) as (-> & I' & E' & T').
    injection H as <- <-. auto.
  - destruct Hv as (Hr & ND & Hf).
    apply (insert_after_spec LF s (map P ts) (PO rf) (after_pos (abs s) rf) s' r HLF II); [|exact ND|exact Hf|exact H].
    destruct rf as [r1|]; cbn in *; [|reflexivity]. split; [lia|]. rewrite Nat.sub_0_r. apply pidx_nth; exact Hr.
  - destruct Hv as (Hr & ND & Hf).
    apply (insert_before_spec LF s (map P ts) (PO rf) (before_pos (abs s) rf) s' r HLF II); [|exact ND|exact Hf|exact H].
    destruct rf as [r1|]; cbn in *; [apply pidx_nth; exact Hr|reflexivity].
  - destruct Hv as (Hr & Hd & Hlt & Hvt).
    apply (splice_spec LF s (map P ts) (PO rf) (PO d) _ _ s' r HLF II); [| |exact Hvt|exact H].
    + destruct rf as [r1|]; cbn in *; [apply pidx_nth; exact Hr|reflexivity].
    + destruct d as [d0|]; cbn in *; [|reflexivity]. split; [exact Hlt|]. rewrite Nat.sub_0_r. apply pidx_nth; exact Hd.
  - destruct Hv as [Ha Hb].
    apply (remove_spec LF s (P a) (PO b) _ _ s' r HLF II (pidx_nth _ _ Ha)); [|exact H].
    destruct b as [b0|]; cbn in *; [destruct Hb; split; [assumption|apply pidx_nth; assumption]|reflexivity].
  - destruct Hv as [Ht Hr].
    apply (replace_spec LF s (P t) (P r0) _ s' r HLF II (pidx_nth _ _ Ht) Hr H).
  - destruct (set_text_spec s (P t) x s' r II H) as (-> & I' & Ea & _ & Tt & To).
    split; [reflexivity|]. split; [exact I'|]. split; [exact Ea|].
    intro u. destruct (Pos.eqb_spec u (P t)) as [->|N]; [exact Tt|apply To; assumption].
Qed.

(* every step returns normally, the invariant holds after it, and the contents follow the reference *)
Inductive good_run (LF : Z) : store -> list sop -> Prop :=
| gr_nil s : good_run LF s []
| gr_cons s o r s' :
    step LF s o = (s', Ok tt) -> Inv s' -> abs s' = ref_step (abs s) o ->
    (forall t, txt s' t = ref_text (txt s) o t) ->
    good_run LF s' r -> good_run LF s (o :: r).

Theorem history_refines LF : 1 <= LF -> forall ops s, Inv s -> ops_valid (abs s) ops -> good_run LF s ops.
Proof.
  intro HLF. induction ops as [|o r IH]; intros s II Hv; [constructor|]. destruct Hv as [Hv Hr].
  destruct (step LF s o) as [s' rr] eqn:ES.
  destruct (step_refines LF s o s' rr HLF II Hv ES) as (-> & I' & Ea & Ht).
  apply (gr_cons LF s o r s' ES I' Ea Ht). apply IH; [exact I'|]. rewrite Ea. exact Hr.
Qed.
