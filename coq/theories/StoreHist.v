(* Constructors (TokenStore(), from_tokens) establish the invariant; every history of valid operations
   keeps it and follows the plain-list reference (for every load factor >= 1). *)
From AB Require Export StoreOps.
From AB Require Import StoreRun.
From Coq Require Import ZifyBool.

(* a token heap in which no token belongs to a store and cached sizes match the texts *)
Definition clean (tk : tokmap) : Prop :=
  (forall t, t_handle (tget tk t) = None) /\ (forall t, tsz tk t = token_size (t_text (tget tk t))).

Lemma clean_empty : clean (PositiveMap.empty tokrec).
Proof. split; intro t; unfold tsz, tget; rewrite PositiveMap.gempty; reflexivity. Qed.

Lemma clean_pure sid tk : clean tk -> pure (empty_store sid tk).
Proof. intros [Hh _] t (sd & b & j & R & _). unfold raw in R. cbn in R. rewrite Hh in R. discriminate. Qed.

(* the general situation of a new store object: other stores exist (their tokens carry handles with other
   ids); only the new identity must be unused *)
Definition sizes_ok (tk : tokmap) : Prop := forall t, tsz tk t = token_size (t_text (tget tk t)).
Definition fresh_id (sid : positive) (tk : tokmap) : Prop :=
  forall t sd b j, t_handle (tget tk t) = Some (sd, b, j) -> sd <> sid.
Lemma clean_fresh sid tk : clean tk -> sizes_ok tk /\ fresh_id sid tk.
Proof. intros [Hh Hs]. split; [exact Hs|]. intros t sd b j H. rewrite Hh in H. discriminate. Qed.

Lemma empty_inv_gen sid tk : sizes_ok tk -> fresh_id sid tk -> Inv (empty_store sid tk) /\ abs (empty_store sid tk) = [].
Proof.
  intros Hs Hfr. assert (toks (empty_store sid tk) 1 = []) as T1 by reflexivity.
  split; [split|reflexivity]; [|reflexivity]. constructor.
  - discriminate.
  - repeat constructor. intros [].
  - intros b [<-|[]]. reflexivity.
  - intros i b H. destruct i as [|[|i]]; cbn in H; try discriminate. injection H as <-. reflexivity.
  - constructor.
  - intros b [<-|[]] _. split; [split|auto].
    + intros j t H. rewrite T1 in H. destruct j; discriminate.
    + reflexivity.
  - intros t H. exfalso. apply H. destruct (hnd (empty_store sid tk) t) as [[b j]|] eqn:E; [|reflexivity].
    apply hnd_raw in E. exfalso. exact (Hfr t _ _ _ E eq_refl).
  - exact Hs.
Qed.

Lemma empty_inv sid tk : clean tk -> Inv (empty_store sid tk) /\ abs (empty_store sid tk) = [].
Proof. intro Hc. destruct (clean_fresh sid tk Hc). apply empty_inv_gen; assumption. Qed.

Lemma inv_empty_clean s : Inv s -> pure s -> abs s = [] -> clean (s_toks s).
Proof.
  intros II Hp E. split; [|destruct II as [I _]; apply (g_sz _ _ I)]. intro t.
  apply (pure_free s t II Hp). rewrite E. intros [].
Qed.

Definition all_free (tk : tokmap) (ts : list positive) : Prop := forall t, In t ts -> t_handle (tget tk t) = None.

Lemma all_free_existsb tk ts :
  existsb (fun t => match t_handle (tget tk t) with Some _ => true | None => false end) ts = false <-> all_free tk ts.
Proof.
  split.
  - intros H t Ht. destruct (t_handle (tget tk t)) eqn:E; [|reflexivity]. exfalso.
    assert (existsb (fun t => match t_handle (tget tk t) with Some _ => true | None => false end) ts = true) as C; [|congruence].
    apply existsb_exists. exists t. rewrite E. auto.
  - intro H. apply existsb_false. intros t Ht. rewrite (H t Ht). reflexivity.
Qed.

Lemma has_dup_nodup l : has_dup l = false <-> NoDup l.
Proof.
  split; [|apply has_dup_false]. intro Ed. induction l as [|x r IH]; [constructor|]. cbn [has_dup] in Ed.
  apply orb_false_elim in Ed as [E1 E2]. constructor; [|apply IH; exact E2]. intro Hin.
  assert (existsb (Pos.eqb x) r = true) as C; [|congruence]. apply existsb_exists. exists x. split; [exact Hin|apply Pos.eqb_refl].
Qed.

(* from_tokens on a list of free, distinct tokens, next to whatever other stores exist *)
Theorem from_tokens_gen LF sid tk ts s' r : 1 <= LF -> sizes_ok tk -> fresh_id sid tk -> all_free tk ts -> NoDup ts ->
  from_tokens LF sid tk ts = (s', r) ->
  r = Ok tt /\ Inv s' /\ abs s' = ts /\ (forall t, txt s' t = t_text (tget tk t)) /\ s_id s' = sid /\
  (forall t, ~ In t ts -> tget (s_toks s') t = tget tk t).
Proof.
  intros HLF Hs Hfr Haf ND H. unfold from_tokens in H.
  rewrite (proj2 (all_free_existsb tk ts) Haf), (has_dup_false ts ND) in H.
  destruct (empty_inv_gen sid tk Hs Hfr) as [[I0 L0] E0].
  destruct ts as [|t0 ts0].
  - injection H as <- <-. split; [reflexivity|]. split; [split; assumption|]. split; [exact E0|]. split; [reflexivity|]. split; reflexivity.
  - set (ts := t0 :: ts0) in *.
    destruct (build_blocks LF (length ts) (empty_store sid tk) 0 ts) as [s1 r1] eqn:EB.
    destruct (build_blocks_spec LF HLF _ _ _ _ _ _ (le_n _) ND EB) as (bs & -> & HBB).
    destruct HBB as (B1 & B2 & B3 & B4 & B5 & B6 & B7 & B8 & B9 & B10 & B11 & B12 & B13).
    assert (s' = with_len (with_blocks s1 bs) (zlen ts) /\ r = Ok tt) as [-> ->]
      by (injection H as E1 E2; split; symmetry; [exact E1|exact E2]).
    set (sf := with_len (with_blocks s1 bs) (zlen ts)).
    destruct (seg_replace (fun _ => False) (fun _ => False) (empty_store sid tk) sf [] [1%positive] bs [] ts I0) as [I' Ea'].
    + reflexivity.
    + discriminate.
    + intros b [].
    + cbn [app]. rewrite app_nil_r. reflexivity.
    + apply B10. discriminate.
    + cbn [app]. rewrite app_nil_r. exact B5.
    + cbn [app]. rewrite app_nil_r. intros b Hb. apply B4 in Hb. change (s_next sf) with (s_next s1). lia.
    + cbn [app]. rewrite app_nil_r. intros i b Hb. change (bidx sf b) with (bidx s1 b). rewrite (B8 _ _ Hb). lia.
    + intros b [].
    + exact B7.
    + cbn [flat_map app]. rewrite app_nil_r. exact ND.
    + intro t. apply (B11 t).
    + intros t Hn _. apply hnd_ext_tget; [exact B13|]. change (s_toks sf) with (s_toks s1). apply B12; assumption.
    + intros t _ [].
    + intros b Hb _. destruct (B9 b Hb) as [Hne Hok]. split; [exact Hok|]. intro Ee. contradiction.
    + split; [reflexivity|]. cbn [flat_map app] in Ea'. rewrite app_nil_r in Ea'.
      split; [split; [exact I'|rewrite Ea'; reflexivity]|]. split; [exact Ea'|].
      split; [intro t; apply (proj2 (B11 t))|]. split; [exact B13|].
      intros t Hn. change (s_toks sf) with (s_toks s1). apply B12; exact Hn.
Qed.

(* ... refused (ValueError) exactly when a token is attached somewhere or listed twice; the result is then the
   fresh empty store object that Python discards, and the token map (every token's text, size, handle) is
   the one passed in *)
Theorem from_tokens_refused LF sid tk ts : ~ (all_free tk ts /\ NoDup ts) ->
  from_tokens LF sid tk ts = (empty_store sid tk, Err ValueError).
Proof.
  intro H. unfold from_tokens.
  destruct (existsb _ ts) eqn:E1; [reflexivity|]. destruct (has_dup ts) eqn:E2; [reflexivity|].
  exfalso. apply H. split; [apply all_free_existsb; exact E1|apply has_dup_nodup; exact E2].
Qed.

Theorem from_tokens_iff LF sid tk ts : 1 <= LF -> sizes_ok tk -> fresh_id sid tk ->
  (snd (from_tokens LF sid tk ts) = Ok tt <-> all_free tk ts /\ NoDup ts) /\
  (snd (from_tokens LF sid tk ts) <> Ok tt ->
     from_tokens LF sid tk ts = (empty_store sid tk, Err ValueError) /\ s_toks (fst (from_tokens LF sid tk ts)) = tk).
Proof.
  intros HLF Hs Hfr. split; [split|].
  - intro H. destruct (existsb (fun t => match t_handle (tget tk t) with Some _ => true | None => false end) ts) eqn:E1.
    + unfold from_tokens in H. rewrite E1 in H. discriminate.
    + destruct (has_dup ts) eqn:E2; [unfold from_tokens in H; rewrite E1, E2 in H; discriminate|].
      split; [apply all_free_existsb; exact E1|apply has_dup_nodup; exact E2].
  - intros [Haf ND]. destruct (from_tokens LF sid tk ts) as [s' r] eqn:E.
    destruct (from_tokens_gen LF sid tk ts s' r HLF Hs Hfr Haf ND E) as (-> & _). reflexivity.
  - intro H. assert (~ (all_free tk ts /\ NoDup ts)) as N.
    { intros [Haf ND]. apply H. destruct (from_tokens LF sid tk ts) as [s' r] eqn:E.
      destruct (from_tokens_gen LF sid tk ts s' r HLF Hs Hfr Haf ND E) as (-> & _). reflexivity. }
    rewrite (from_tokens_refused LF sid tk ts N). split; reflexivity.
Qed.

Theorem from_tokens_spec LF sid tk ts s' r : 1 <= LF -> clean tk -> NoDup ts ->
  from_tokens LF sid tk ts = (s', r) ->
  r = Ok tt /\ Inv s' /\ abs s' = ts /\ (forall t, txt s' t = t_text (tget tk t)) /\ s_id s' = sid /\ pure s'.
Proof.
  intros HLF Hc ND H. pose proof Hc as [Hh Hs]. destruct (clean_fresh sid tk Hc) as [Hs' Hfr].
  destruct (from_tokens_gen LF sid tk ts s' r HLF Hs' Hfr (fun t _ => Hh t) ND H) as (-> & I' & Ea & Ht & Eid & Hfr').
  split; [reflexivity|]. split; [exact I'|]. split; [exact Ea|]. split; [exact Ht|]. split; [exact Eid|].
  intros t (sd & b & j & R & N).
  destruct (in_dec Pos.eq_dec t ts) as [Hin|Hin].
  - rewrite <- Ea in Hin. apply In_nth_error in Hin as [k Hk]. destruct I' as [I0 _].
    destruct (locate_inv s' k t I0 Hk) as (_ & b' & j' & _ & _ & _ & Hh' & _). apply hnd_raw in Hh'. congruence.
  - unfold raw in R. rewrite (Hfr' t Hin), Hh in R. discriminate.
Qed.

(* ---------- the list reference for operation histories ---------- *)
Fixpoint pidx (t : positive) (l : list positive) : nat :=
  match l with [] => 0%nat | x :: r => if Pos.eqb x t then 0%nat else S (pidx t r) end.

Lemma pidx_nth t l : In t l -> nth_error l (pidx t l) = Some t.
Proof.
  induction l as [|x r IH]; intro H; [destruct H|]. cbn [pidx]. destruct (Pos.eqb_spec x t) as [->|N]; [reflexivity|].
  destruct H as [->|H]; [contradiction|]. apply IH; assumption.
Qed.

Definition before_pos (l : list positive) (ref : option Z) : nat :=
  match ref with None => 0%nat | Some r => pidx (P r) l end.
Definition after_pos (l : list positive) (ref : option Z) : nat :=
  match ref with None => 0%nat | Some r => S (pidx (P r) l) end.
Definition ref_in (l : list positive) (ref : option Z) : Prop :=
  match ref with None => True | Some r => In (P r) l end.

Definition ref_step (l : list positive) (o : sop) : list positive :=
  match o with
  | OEmpty => []
  | OFromTokens ts => map P ts
  | OInsAfter r ts => let p := after_pos l r in list_splice l (map P ts) p p
  | OInsBefore r ts => let p := before_pos l r in list_splice l (map P ts) p p
  | OSplice ts r d => let p := before_pos l r in
                      let q := match d with None => p | Some d0 => S (pidx (P d0) l) end in
                      list_splice l (map P ts) p q
  | ORemove a b => list_splice l [] (pidx (P a) l) (S (match b with None => pidx (P a) l | Some b0 => pidx (P b0) l end))
  | OReplace t r => list_splice l [P r] (pidx (P t) l) (S (pidx (P t) l))
  | OSetText _ _ => l
  end.

Definition ref_text (f : positive -> str) (o : sop) : positive -> str :=
  match o with
  | OSetText t x => fun u => if Pos.eqb u (P t) then x else f u
  | _ => f
  end.

(* inserted tokens, on the list only: fresh for the list, or inside the removed range *)
Definition valid_list (l tokens : list positive) (p q : nat) : Prop :=
  NoDup tokens /\ forall t, In t tokens -> ~ In t l \/ In t (firstn (q - p) (skipn p l)).

Lemma valid_list_tokens s tokens p q : Inv s -> pure s -> valid_list (abs s) tokens p q -> valid_tokens s tokens p q.
Proof.
  intros II Hp [ND H]. split; [exact ND|]. intros t Ht. destruct (H t Ht) as [Hn|?]; [left; apply pure_free; assumption|right; assumption].
Qed.

(* the contract of each operation, stated on the plain list only *)
Definition op_valid (l : list positive) (o : sop) : Prop :=
  match o with
  | OEmpty => l = []
  | OFromTokens ts => l = [] /\ NoDup (map P ts)
  | OInsAfter r ts => ref_in l r /\ NoDup (map P ts) /\ (forall t, In t (map P ts) -> ~ In t l)
  | OInsBefore r ts => ref_in l r /\ NoDup (map P ts) /\ (forall t, In t (map P ts) -> ~ In t l)
  | OSplice ts r d =>
      let p := before_pos l r in
      let q := match d with None => p | Some d0 => S (pidx (P d0) l) end in
      ref_in l r /\ ref_in l d /\ match d with None => True | Some _ => (p < q)%nat end /\
      valid_list l (map P ts) p q
  | ORemove a b => In (P a) l /\ match b with None => True | Some b0 => In (P b0) l /\ (pidx (P a) l <= pidx (P b0) l)%nat end
  | OReplace t r => In (P t) l /\ (P r = P t \/ ~ In (P r) l)
  | OSetText _ _ => True
  end.

Fixpoint ops_valid (l : list positive) (ops : list sop) : Prop :=
  match ops with [] => True | o :: r => op_valid l o /\ ops_valid (ref_step l o) r end.

Lemma set_text_pure s t x s' r : set_text s t x = (s', r) -> pure s -> pure s'.
Proof.
  intros H Hp u (sd & b & j & R & N). destruct (set_text_raw s t x) as [Eid Er]. rewrite H in Eid, Er. cbn [fst] in Eid, Er.
  apply (Hp u). exists sd, b, j. rewrite <- Er, <- Eid. auto.
Qed.

Lemma step_refines LF s o s' r : 1 <= LF -> Inv s -> pure s -> op_valid (abs s) o -> step LF s o = (s', r) ->
  r = Ok tt /\ Inv s' /\ abs s' = ref_step (abs s) o /\ (forall t, txt s' t = ref_text (txt s) o t) /\ pure s'.
Proof.
  intros HLF II Hp Hv H. destruct o as [|ts|rf ts|rf ts|ts rf d|a b|t r0|t x]; cbn [step op_valid ref_step ref_text] in *.
  - (* TokenStore() *)
    injection H as <- <-. pose proof (inv_empty_clean s II Hp Hv) as Hc.
    destruct (empty_inv (Pos.succ (s_id s)) (s_toks s) Hc) as [I' E']. pose proof (clean_pure (Pos.succ (s_id s)) _ Hc). auto.
  - destruct Hv as [El ND].
    destruct (from_tokens LF (Pos.succ (s_id s)) (s_toks s) (map P ts)) as [s1 r1] eqn:EF.
    destruct (from_tokens_spec LF _ _ _ _ _ HLF (inv_empty_clean s II Hp El) ND EF) as (-> & I' & E' & T' & _ & P').
    injection H as <- <-. auto.
  - destruct Hv as (Hr & ND & Hf).
    destruct (insert_after_spec LF s (map P ts) (PO rf) (after_pos (abs s) rf) s' r HLF II) as (-> & I' & Ea & Ht & Fr);
      [|exact ND|intros u Hu; apply pure_free; auto|exact H|].
    + destruct rf as [r1|]; cbn in *; [|reflexivity]. split; [lia|]. rewrite Nat.sub_0_r. apply pidx_nth; exact Hr.
    + split; [reflexivity|]. split; [exact I'|]. split; [exact Ea|]. split; [exact Ht|].
      apply (frames_pure s s' (map P ts) _ _ II I' (le_n _) Ea Fr Hp).
  - destruct Hv as (Hr & ND & Hf).
    destruct (insert_before_spec LF s (map P ts) (PO rf) (before_pos (abs s) rf) s' r HLF II) as (-> & I' & Ea & Ht & Fr);
      [|exact ND|intros u Hu; apply pure_free; auto|exact H|].
    + destruct rf as [r1|]; cbn in *; [apply pidx_nth; exact Hr|reflexivity].
    + split; [reflexivity|]. split; [exact I'|]. split; [exact Ea|]. split; [exact Ht|].
      apply (frames_pure s s' (map P ts) _ _ II I' (le_n _) Ea Fr Hp).
  - destruct Hv as (Hr & Hd & Hlt & Hvt).
    destruct (splice_spec LF s (map P ts) (PO rf) (PO d) (before_pos (abs s) rf)
                (match d with None => before_pos (abs s) rf | Some d0 => S (pidx (P d0) (abs s)) end) s' r HLF II)
      as (-> & I' & Ea & Ht & Fr); [| |apply valid_list_tokens; assumption|exact H|].
    + destruct rf as [r1|]; cbn in *; [apply pidx_nth; exact Hr|reflexivity].
    + destruct d as [d0|]; cbn in *; [|reflexivity]. split; [exact Hlt|]. rewrite Nat.sub_0_r. apply pidx_nth; exact Hd.
    + split; [reflexivity|]. split; [exact I'|]. split; [exact Ea|]. split; [exact Ht|].
      apply (frames_pure s s' (map P ts) (before_pos (abs s) rf)
               (match d with None => before_pos (abs s) rf | Some d0 => S (pidx (P d0) (abs s)) end) II I'); [destruct d; lia|exact Ea|exact Fr|exact Hp].
  - destruct Hv as [Ha Hb].
    destruct (remove_spec LF s (P a) (PO b) (pidx (P a) (abs s))
                (match b with None => pidx (P a) (abs s) | Some b0 => pidx (P b0) (abs s) end) s' r HLF II (pidx_nth _ _ Ha))
      as (-> & I' & Ea & Ht & Fr); [|exact H|].
    + destruct b as [b0|]; cbn in *; [destruct Hb; split; [assumption|apply pidx_nth; assumption]|reflexivity].
    + split; [reflexivity|]. split; [exact I'|]. split; [exact Ea|]. split; [exact Ht|].
      apply (frames_pure s s' [] (pidx (P a) (abs s))
               (S (match b with None => pidx (P a) (abs s) | Some b0 => pidx (P b0) (abs s) end)) II I'); [destruct b as [b0|]; [destruct Hb; lia|lia]|exact Ea|exact Fr|exact Hp].
  - destruct Hv as [Ht Hr].
    destruct (replace_spec LF s (P t) (P r0) (pidx (P t) (abs s)) s' r HLF II (pidx_nth _ _ Ht)) as (-> & I' & Ea & Htx & Fr);
      [destruct Hr as [?|Hn]; [left; assumption|right; apply pure_free; assumption]|exact H|].
    split; [reflexivity|]. split; [exact I'|]. split; [exact Ea|]. split; [exact Htx|].
    apply (frames_pure s s' [P r0] (pidx (P t) (abs s)) (S (pidx (P t) (abs s))) II I'); [lia|exact Ea|exact Fr|exact Hp].
  - destruct (set_text_spec s (P t) x s' r II H) as (-> & I' & Ea & _ & Tt & To).
    split; [reflexivity|]. split; [exact I'|]. split; [exact Ea|]. split; [|apply (set_text_pure _ _ _ _ _ H Hp)].
    intro u. destruct (Pos.eqb_spec u (P t)) as [->|N]; [exact Tt|apply To; assumption].
Qed.

(* every step returns normally, the invariant holds after it, and the contents follow the reference *)
Inductive good_run (LF : Z) : store -> list sop -> Prop :=
| gr_nil s : good_run LF s []
| gr_cons s o r s' :
    step LF s o = (s', Ok tt) -> Inv s' -> pure s' -> abs s' = ref_step (abs s) o ->
    (forall t, txt s' t = ref_text (txt s) o t) ->
    good_run LF s' r -> good_run LF s (o :: r).

Theorem history_refines LF : 1 <= LF -> forall ops s, Inv s -> pure s -> ops_valid (abs s) ops -> good_run LF s ops.
Proof.
  intro HLF. induction ops as [|o r IH]; intros s II Hp Hv; [constructor|]. destruct Hv as [Hv Hr].
  destruct (step LF s o) as [s' rr] eqn:ES.
  destruct (step_refines LF s o s' rr HLF II Hp Hv ES) as (-> & I' & Ea & Ht & Hp').
  apply (gr_cons LF s o r s' ES I' Hp' Ea Ht). apply IH; [exact I'|exact Hp'|]. rewrite Ea. exact Hr.
Qed.
