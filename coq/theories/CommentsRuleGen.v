(* C14: the call order assumed by CommentsRule.emit, read off the classes extracted from models/generated/*.py on
   this run (Generated.v): every auto_claim_comments is [own leading; own trailing] (exactly the classes with the
   surrounding-comments mixin) followed by the children strictly last field to first; File has the single child
   raw_directives_with_comments; Transaction is the only class with two comment-carrying repeated fields, and it visits
   raw_postings_with_comments before raw_meta_with_comments (the order behind CommentsRule.priority_refuted). *)
From AB Require Import Desc Generated GeneratedWf.
From Coq Require Import List String Bool Arith.
Import ListNotations.
Open Scope string_scope.

Definition is_wc (c : claim) : bool :=
  match c with CProp p => negb (String.eqb (strip_suffix "_with_comments" p) p) | _ => false end.
Fixpoint claim_pos (p : string) (l : list claim) (i : nat) : option nat :=
  match l with
  | [] => None
  | CProp q :: r => if String.eqb p q then Some i else claim_pos p r (S i)
  | _ :: r => claim_pos p r (S i)
  end.

Theorem generated_claim_order :
  forallb claim_ok classes = true /\
  c_claim c_File = [CProp "raw_directives_with_comments"] /\
  map c_name (filter (fun c => Nat.leb 2 (List.length (filter is_wc (c_claim c)))) classes) = ["Transaction"] /\
  claim_pos "raw_postings_with_comments" (c_claim c_Transaction) 0 = Some 3 /\
  claim_pos "raw_meta_with_comments" (c_claim c_Transaction) 0 = Some 4.
Proof. repeat split; vm_compute; reflexivity. Qed.
