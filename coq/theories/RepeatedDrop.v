(* drop_many (descending runs) under the layout invariant. *)
From AB Require Import Prelude PySeq RepeatedLib Repeated Fields RepeatedProofs RepeatedLayout RepeatedInsert RepeatedCells RepeatedSep RepeatedOps.
From Coq Require Import ZifyBool Permutation.

(* ---- sorted(indexes, reverse=True) ------------------------------------------------------------------- *)
Fixpoint sdesc (l : list Z) : Prop :=
  match l with [] => True | x :: r => (forall y, In y r -> y < x) /\ sdesc r end.

Lemma ins_desc_in : forall x l y, In y (ins_desc x l) <-> y = x \/ In y l.
Proof.
  induction l as [|z l IH]; intros y; cbn.
  - intuition.
  - destruct (z <=? x) eqn:E; cbn; [intuition|]. rewrite IH. intuition.
Qed.

Lemma ins_desc_sdesc : forall x l, sdesc l -> ~ In x l -> sdesc (ins_desc x l).
Proof.
  induction l as [|z l IH]; intros Hs Hn; cbn.
  - split; [intros y []|exact I].
  - destruct Hs as [Hz Hs]. destruct (z <=? x) eqn:E.
    + cbn. split; [|split; assumption]. intros y [<-|Hy]; [|apply Hz in Hy]; [|lia].
      assert (z <> x) by (intro; subst; apply Hn; now left). lia.
    + cbn. split.
      * intros y Hy. apply ins_desc_in in Hy. destruct Hy as [->|Hy]; [lia|now apply Hz].
      * apply IH; [exact Hs|]. intro H. apply Hn. now right.
Qed.

Lemma sort_desc_in : forall l y, In y (sort_desc l) <-> In y l.
Proof.
  induction l as [|x l IH]; intros y; cbn; [tauto|]. rewrite ins_desc_in, IH. intuition.
Qed.

Lemma sort_desc_sdesc : forall l, NoDup l -> sdesc (sort_desc l).
Proof.
  induction l as [|x l IH]; intros H; cbn; [exact I|]. inversion H; subst.
  apply ins_desc_sdesc; [now apply IH|]. now rewrite sort_desc_in.
Qed.

(* ---- groupby into maximal descending runs (lowest, highest) -------------------------------------------- *)
(* U bounds the first run from above; each following run lies strictly below the previous one with a gap *)
Fixpoint rchain (U : Z) (R : list (Z * Z)) : Prop :=
  match R with
  | [] => True
  | (a, b) :: r => 0 <= a /\ a <= b /\ b < U /\ rchain (a - 1) r
  end.

Definition cov (R : list (Z * Z)) (i : Z) : bool := existsb (fun p => (fst p <=? i) && (i <=? snd p)) R.

Lemma runs_desc_spec : forall l lo hi U,
  sdesc l -> (forall y, In y l -> 0 <= y < lo) -> 0 <= lo -> lo <= hi -> hi < U ->
  rchain U (runs_desc l (Some (lo, hi))) /\
  (forall i, cov (runs_desc l (Some (lo, hi))) i = true <-> (lo <= i <= hi \/ In i l)).
Proof.
  induction l as [|x r IH]; intros lo hi U Hs Hb Hlo Hle HU.
  - cbn. split; [repeat split; lia|]. intros i. rewrite orb_false_r. split; intros H; [left; lia|destruct H as [H|[]]; lia].
  - destruct Hs as [Hx Hs]. cbn [runs_desc].
    assert (Hxb : 0 <= x < lo) by (apply Hb; now left).
    assert (Hr : forall y, In y r -> 0 <= y < x) by (intros y Hy; pose proof (Hb y (or_intror Hy)); pose proof (Hx y Hy); lia).
    destruct (x =? lo - 1) eqn:E.
    + destruct (IH x hi U Hs Hr) as [H1 H2]; [lia|lia|lia|].
      split; [exact H1|]. intros i. rewrite H2. cbn [In]. split; intros H.
      * destruct H as [H|H]; [|right; now right].
        destruct (Z.eq_dec i x); [right; left; congruence|left; lia].
      * destruct H as [H|[H|H]]; [left; lia|left; lia|now right].
    + destruct (IH x x (lo - 1) Hs Hr) as [H1 H2]; [lia|lia|lia|].
      split; [cbn; repeat split; try lia; exact H1|].
      intros i. cbn [cov existsb fst snd]. fold (cov (runs_desc r (Some (x, x))) i).
      rewrite orb_true_iff, H2. cbn [In]. split; intros H.
      * destruct H as [H|[H|H]]; [left; lia|right; left; lia|right; now right].
      * destruct H as [H|[H|H]]; [left; lia|right; left; lia|right; now right].
Qed.

Lemma runs_of_sorted : forall l U, sdesc l -> (forall y, In y l -> 0 <= y < U) ->
  rchain U (runs_desc l None) /\ (forall i, cov (runs_desc l None) i = true <-> In i l).
Proof.
  intros [|x r] U Hs Hb.
  - cbn. split; [exact I|]. intros i. split; [discriminate|intros []].
  - destruct Hs as [Hx Hs]. cbn [runs_desc].
    assert (0 <= x < U) by (apply Hb; now left).
    assert (Hr : forall y, In y r -> 0 <= y < x) by (intros y Hy; pose proof (Hb y (or_intror Hy)); pose proof (Hx y Hy); lia).
    destruct (runs_desc_spec r x x U Hs Hr) as [H1 H2]; [lia|lia|lia|].
    split; [exact H1|]. intros i. rewrite H2. cbn [In]. split; intros [H0|H0]; [left; lia|now right|left; lia|now right].
Qed.

(* ---- items: remove_positions = cutting the runs out, highest first ----------------------------------- *)
Fixpoint keep_from {A} (k : Z) (f : Z -> bool) (l : list A) : list A :=
  match l with [] => [] | x :: r => if f k then x :: keep_from (k + 1) f r else keep_from (k + 1) f r end.

Lemma remove_positions_keep : forall {A} ps (l : list A) k,
  remove_positions_from k ps l = keep_from k (fun i => negb (existsb (Z.eqb i) ps)) l.
Proof.
  induction l as [|x r IH]; intros k; [reflexivity|]. cbn. rewrite IH. now destruct (existsb (Z.eqb k) ps).
Qed.

Lemma keep_from_ext : forall {A} (l : list A) k f g,
  (forall i, k <= i < k + zlen l -> f i = g i) -> keep_from k f l = keep_from k g l.
Proof.
  induction l as [|x r IH]; intros k f g H; [reflexivity|]. cbn. rewrite zlen_cons in H. pose proof (zlen_nonneg r).
  rewrite (H k) by lia. rewrite (IH (k + 1) f g); [reflexivity|]. intros i Hi. apply H. lia.
Qed.

Lemma keep_from_app : forall {A} (a b : list A) k f, keep_from k f (a ++ b) = keep_from k f a ++ keep_from (k + zlen a) f b.
Proof.
  induction a as [|x a IH]; intros b k f; [cbn; f_equal; change (zlen (@nil A)) with 0; lia|].
  cbn [keep_from app]. rewrite IH, zlen_cons. replace (k + 1 + zlen a) with (k + (1 + zlen a)) by lia. now destruct (f k).
Qed.

Lemma keep_from_all : forall {A} (l : list A) k f, (forall i, k <= i < k + zlen l -> f i = true) -> keep_from k f l = l.
Proof.
  induction l as [|x r IH]; intros k f H; [reflexivity|]. cbn. rewrite zlen_cons in H. pose proof (zlen_nonneg r).
  rewrite (H k) by lia. f_equal. apply IH. intros i Hi. apply H. lia.
Qed.

Lemma keep_from_none : forall {A} (l : list A) k f, (forall i, k <= i < k + zlen l -> f i = false) -> keep_from k f l = [].
Proof.
  induction l as [|x r IH]; intros k f H; [reflexivity|]. cbn. rewrite zlen_cons in H. pose proof (zlen_nonneg r).
  rewrite (H k) by lia. apply IH. intros i Hi. apply H. lia.
Qed.

Lemma keep_from_shift : forall {A} (l : list A) k k' f g,
  (forall i, 0 <= i < zlen l -> f (k + i) = g (k' + i)) -> keep_from k f l = keep_from k' g l.
Proof.
  induction l as [|x r IH]; intros k k' f g H; [reflexivity|]. cbn. rewrite zlen_cons in H. pose proof (zlen_nonneg r).
  pose proof (H 0 ltac:(lia)) as Hz0. rewrite !Z.add_0_r in Hz0. rewrite Hz0.
  rewrite (IH (k + 1) (k' + 1) f g); [reflexivity|]. intros i Hi.
  replace (k + 1 + i) with (k + (1 + i)) by lia. replace (k' + 1 + i) with (k' + (1 + i)) by lia. apply H. lia.
Qed.

Fixpoint drop_items {A} (l : list A) (R : list (Z * Z)) : list A :=
  match R with
  | [] => l
  | (a, b) :: r => drop_items (zfirstn a l ++ zskipn (b + 1) l) r
  end.

Lemma cov_below : forall R U i, rchain U R -> U <= i -> cov R i = false.
Proof.
  induction R as [|[a b] r IH]; intros U i H Hi; [reflexivity|]. destruct H as (Ha & Hab & Hb & Hr).
  cbn [cov existsb fst snd]. fold (cov r i). rewrite (IH (a - 1) i Hr) by lia. lia.
Qed.

Lemma drop_items_keep : forall {A} R (l : list A) U, rchain U R -> U <= zlen l ->
  drop_items l R = keep_from 0 (fun i => negb (cov R i)) l.
Proof.
  induction R as [|[a b] r IH]; intros l U H HU.
  - cbn. symmetry. apply keep_from_all. reflexivity.
  - destruct H as (Ha & Hab & Hb & Hr). cbn [drop_items].
    destruct (cut3 l a (b + 1 - a)) as (L1 & L2 & L3 & -> & H1 & H2); [lia|lia|lia|].
    rewrite <- H1 at 1. rewrite zfirstn_app_exact.
    replace (b + 1) with (zlen (L1 ++ L2)) by (rewrite zlen_app; lia).
    rewrite app_assoc, zskipn_app_exact.
    rewrite (IH (L1 ++ L3) (a - 1) Hr) by (rewrite zlen_app; pose proof (zlen_nonneg L3); lia).
    rewrite <- app_assoc, !keep_from_app.
    f_equal.
    + apply keep_from_ext. intros i Hi. cbn [cov existsb fst snd]. fold (cov r i). lia.
    + rewrite (keep_from_none L2); [cbn [app]|].
      * rewrite (keep_from_all L3 (0 + zlen L1)), (keep_from_all L3 (0 + zlen L1 + zlen L2)); [reflexivity| |].
        -- intros i Hi. cbn [cov existsb fst snd]. fold (cov r i). rewrite (cov_below r (a - 1) i Hr) by lia. lia.
        -- intros i Hi. rewrite (cov_below r (a - 1) i Hr) by lia. reflexivity.
      * intros i Hi. cbn [cov existsb fst snd]. lia.
Qed.

Lemma drop_items_remove : forall {A} (l : list A) idxs, NoDup idxs -> (forall y, In y idxs -> 0 <= y < zlen l) ->
  remove_positions (sort_desc idxs) l = drop_items l (runs_desc (sort_desc idxs) None).
Proof.
  intros A l idxs Hn Hb.
  destruct (runs_of_sorted (sort_desc idxs) (zlen l)) as [H1 H2];
    [now apply sort_desc_sdesc|intros y Hy; apply Hb; now apply sort_desc_in|].
  rewrite (drop_items_keep _ l (zlen l) H1) by lia.
  unfold remove_positions. rewrite remove_positions_keep. apply keep_from_ext. intros i _. f_equal.
  destruct (cov _ i) eqn:E.
  - apply H2 in E. apply existsb_exists. exists i. split; [exact E|lia].
  - destruct (existsb (Z.eqb i) (sort_desc idxs)) eqn:E2; [|reflexivity].
    apply existsb_exists in E2. destruct E2 as (y & Hy & Hiy). assert (y = i) by lia. subst y.
    apply H2 in Hy. congruence.
Qed.

(* ---- chains of edits (drop_many and extended slices edit several places) ------------------------------ *)
Inductive Edits : list cell -> list cell -> list cell -> list (list tok) -> Prop :=
| Ed_refl : forall cs, Edits cs cs [] []
| Ed_step : forall cs cs1 cs2 M N M' N',
    Forall cell_ok cs1 -> Edit cs cs1 M N -> Edits cs1 cs2 M' N' -> Edits cs cs2 (M ++ M') (N ++ N').

Lemma Edits_one : forall cs cs' M N, Forall cell_ok cs' -> Edit cs cs' M N -> Edits cs cs' M N.
Proof.
  intros cs cs' M N Hok He. rewrite <- (app_nil_r M), <- (app_nil_r N).
  eapply Ed_step; [exact Hok|exact He|constructor].
Qed.

(* ---- _del_tokens only reads the items up to index stop ------------------------------------------------ *)
Lemma get_int_nn : forall {A} (l : list A) i, 0 <= i ->
  list_get_int l i = match nth_error l (Z.to_nat i) with Some x => Ok x | None => Err IndexError end.
Proof.
  intros A l i Hi. unfold list_get_int, norm_index. destruct (i <? zlen l) eqn:E.
  - replace ((0 <=? i) && true) with true by lia. reflexivity.
  - replace (0 <=? i) with true by lia. cbn [andb]. replace (i <? 0) with false by lia. cbn [andb].
    assert (H : nth_error l (Z.to_nat i) = None) by (apply nth_error_None; unfold zlen in E; lia).
    now rewrite H.
Qed.

Lemma nth_error_firstn_lt : forall {A} (l : list A) k j, (j < k)%nat -> nth_error (firstn k l) j = nth_error l j.
Proof.
  induction l as [|x l IH]; intros k j H; [now rewrite firstn_nil|].
  destruct k; [lia|]. destruct j; [reflexivity|]. cbn. apply IH. lia.
Qed.

Lemma get_int_prefix : forall {A} (l1 l2 : list A) k i, zfirstn k l1 = zfirstn k l2 -> 0 <= i < k ->
  list_get_int l1 i = list_get_int l2 i.
Proof.
  intros A l1 l2 k i H Hi. rewrite !get_int_nn by lia.
  rewrite <- (nth_error_firstn_lt l1 (Z.to_nat k)), <- (nth_error_firstn_lt l2 (Z.to_nat k)) by lia.
  unfold zfirstn in H. now rewrite H.
Qed.

Lemma zlen_zfirstn : forall {A} (l : list A) k, 0 <= k -> zlen (zfirstn k l) = Z.min k (zlen l).
Proof. intros A l k H. unfold zlen, zfirstn. rewrite firstn_length. lia. Qed.

Lemma del_tokens_items_ext : forall ph d (items1 items2 : list item) a b,
  0 <= a -> a < b -> zfirstn (b + 1) items1 = zfirstn (b + 1) items2 ->
  del_tokens ph d items1 a b = del_tokens ph d items2 a b.
Proof.
  intros ph d items1 items2 a b Ha Hab H.
  assert (E1 : (b <? zlen items1) = (b <? zlen items2)).
  { pose proof (f_equal (@zlen item) H) as Hz. rewrite !zlen_zfirstn in Hz by lia. lia. }
  assert (E2 : forall i, 0 <= i <= b -> list_get_int items1 i = list_get_int items2 i)
    by (intros i Hi; apply (get_int_prefix items1 items2 (b + 1)); [exact H|lia]).
  unfold del_tokens, prev_last. rewrite E1.
  rewrite (E2 a), (E2 b), (E2 (b - 1)) by lia.
  destruct (0 <? a) eqn:E0; [rewrite (E2 (a - 1)) by lia|]; reflexivity.
Qed.

Lemma zfirstn_zfirstn : forall {A} (l : list A) a k, 0 <= a <= k -> zfirstn a (zfirstn k l) = zfirstn a l.
Proof. intros A l a k H. unfold zfirstn. rewrite firstn_firstn. f_equal. lia. Qed.

Lemma zfirstn_map : forall {A B} (f : A -> B) l k, zfirstn k (map f l) = map f (zfirstn k l).
Proof. intros. unfold zfirstn. apply firstn_map. Qed.

Lemma zskipn_map : forall {A B} (f : A -> B) l k, zskipn k (map f l) = map f (zskipn k l).
Proof. intros. unfold zskipn. apply skipn_map. Qed.

(* ---- drop_many on cells ------------------------------------------------------------------------------- *)
Fixpoint drop_spec (post : list tok) (cur : list cell) (R : list (Z * Z)) : list cell :=
  match R with
  | [] => cur
  | (a, b) :: r => drop_spec post (del_res (zfirstn a cur) (zfirstn (b + 1 - a) (zskipn a cur)) (zskipn (b + 1) cur) post) r
  end.

Lemma cut3_first : forall {A} (X M Y : list A), zfirstn (zlen X) (X ++ M ++ Y) = X /\
  zfirstn (zlen M) (zskipn (zlen X) (X ++ M ++ Y)) = M /\ zskipn (zlen X + zlen M) (X ++ M ++ Y) = Y.
Proof.
  intros A X M Y. rewrite zfirstn_app_exact, zskipn_app_exact, zfirstn_app_exact. repeat split.
  replace (zlen X + zlen M) with (zlen (X ++ M)) by apply zlen_app. rewrite app_assoc. apply zskipn_app_exact.
Qed.

Section Drop.
Variable ph : Z.
Variables seps sepsb : list (kind * str).

Theorem drop_loop_layout : forall R pre pht cur post (items : list item) U,
  rchain U R -> U <= zlen cur -> WF ph pre pht cur post ->
  zfirstn (U + 1) items = zfirstn (U + 1) (map item_of cur) ->
  drop_loop ph (lay pre pht cur post) items R = (lay pre pht (drop_spec post cur R) post, Ok tt) /\
  WF ph pre pht (drop_spec post cur R) post /\
  (exists M, Edits cur (drop_spec post cur R) M []) /\
  (Sep seps sepsb cur -> Sep seps sepsb (drop_spec post cur R)) /\
  map item_of (drop_spec post cur R) = drop_items (map item_of cur) R.
Proof.
  induction R as [|[a b] r IH]; intros pre pht cur post items U Hr HU Hwf Hag.
  - cbn. split; [reflexivity|]. split; [exact Hwf|]. split; [exists []; constructor|]. split; [tauto|reflexivity].
  - destruct Hr as (Ha & Hab & Hb & Hr).
    destruct (cut3 cur a (b + 1 - a)) as (A & M & B & -> & HA & HM); [lia|lia|lia|].
    destruct (cut3_first A M B) as (F1 & F2 & F3).
    cbn [drop_spec drop_loop drop_items].
    pose proof (zlen_nonneg A) as HzA. pose proof (zlen_nonneg M) as HzM.
    subst a. assert (Eb : b = zlen A + zlen M - 1) by lia. subst b.
    replace (zlen A + zlen M - 1 + 1 - zlen A) with (zlen M) by lia.
    replace (zlen A + zlen M - 1 + 1) with (zlen A + zlen M) by lia.
    rewrite F1, F2, F3.
    assert (HMne : M <> []) by (intro; subst M; change (zlen (@nil cell)) with 0 in *; lia).
    rewrite (del_tokens_items_ext ph _ items (map item_of (A ++ M ++ B)) (zlen A) (zlen A + zlen M)); [|lia|lia|].
    2:{ rewrite <- (zfirstn_zfirstn items _ (U + 1)), <- (zfirstn_zfirstn (map item_of (A ++ M ++ B)) _ (U + 1)) by lia.
        now rewrite Hag. }
    rewrite (del_layout ph pre pht A M B post Hwf HMne).
    destruct (del_res_wf ph pre pht A M B post Hwf) as [Hwf1 _].
    destruct (IH pre pht (del_res A M B post) post items (zlen A - 1) Hr) as (E & Hw & (M2 & He) & Hs & Hi).
    + replace (zlen (del_res A M B post)) with (zlen (map item_of (del_res A M B post))) by apply zlen_map.
      rewrite del_res_items, zlen_map, zlen_app. pose proof (zlen_nonneg B). lia.
    + exact Hwf1.
    + replace (zlen A - 1 + 1) with (zlen A) by lia.
      rewrite del_res_items.
      rewrite <- (zfirstn_zfirstn items _ (U + 1)) by lia. rewrite Hag. rewrite zfirstn_zfirstn by lia.
      rewrite !map_app. replace (zlen A) with (zlen (map item_of A)) by apply zlen_map.
      now rewrite !zfirstn_app_exact.
    + rewrite E. split; [reflexivity|]. split; [exact Hw|]. split; [|split].
      * exists (M ++ M2). change (@nil (list tok)) with (@nil (list tok) ++ []).
        eapply Ed_step; [apply Hwf1|apply del_res_edit|exact He].
      * intro HS. apply Hs. now apply Sep_del.
      * rewrite Hi, del_res_items. rewrite !map_app.
        replace (zlen A) with (zlen (map item_of A)) by apply zlen_map.
        replace (zlen M) with (zlen (map item_of M)) by apply zlen_map.
        destruct (cut3_first (map item_of A) (map item_of M) (map item_of B)) as (G1 & _ & G3).
        rewrite G1. rewrite zlen_map at 1. rewrite zlen_map at 1.
        replace (zlen A + zlen M) with (zlen (map item_of A) + zlen (map item_of M)) by (now rewrite !zlen_map).
        rewrite G3. reflexivity.
Qed.

End Drop.

Section DropMany.
Variable ph : Z.
Variables seps sepsb : list (kind * str).

Theorem drop_many_core_layout : forall pre pht cs post idxs,
  WF ph pre pht cs post -> NoDup idxs -> (forall y, In y idxs -> 0 <= y < zlen cs) ->
  exists cs' M,
    drop_many_core ph (mkst (lay pre pht cs post) (map item_of cs)) idxs
      = (mkst (lay pre pht cs' post) (map item_of cs'), [], Ok tt) /\
    WF ph pre pht cs' post /\ Edits cs cs' M [] /\ (Sep seps sepsb cs -> Sep seps sepsb cs') /\
    map item_of cs' = remove_positions (sort_desc idxs) (map item_of cs).
Proof.
  intros pre pht cs post idxs Hwf Hn Hb.
  destruct (runs_of_sorted (sort_desc idxs) (zlen cs)) as [H1 _];
    [now apply sort_desc_sdesc|intros y Hy; apply Hb; now apply sort_desc_in|].
  destruct (drop_loop_layout ph seps sepsb (runs_desc (sort_desc idxs) None) pre pht cs post (map item_of cs) (zlen cs) H1)
    as (E & Hw & (M & He) & Hs & Hi); [lia|exact Hwf|reflexivity|].
  exists (drop_spec post cs (runs_desc (sort_desc idxs) None)), M.
  assert (Hit : map item_of (drop_spec post cs (runs_desc (sort_desc idxs) None)) = remove_positions (sort_desc idxs) (map item_of cs)).
  { rewrite Hi. symmetry. apply drop_items_remove; [exact Hn|]. intros y Hy. rewrite zlen_map. now apply Hb. }
  split; [|split; [exact Hw|split; [exact He|split; [exact Hs|exact Hit]]]].
  unfold drop_many_core. cbn [s_doc s_items]. rewrite E, Hit. reflexivity.
Qed.

Lemma norm_all_ok : forall n idxs acc ns, norm_all n idxs acc = Ok ns ->
  NoDup acc -> (forall y, In y acc -> 0 <= y < n) -> NoDup ns /\ (forall y, In y ns -> 0 <= y < n).
Proof.
  induction idxs as [|i r IH]; intros acc ns H Hn Hb; cbn in H.
  - inversion H; subst. now split.
  - destruct (norm_index n i) as [j|e] eqn:E; [|discriminate].
    destruct (norm_index_ok _ _ _ E) as [Hj _].
    destruct (zmem j acc) eqn:Em; [now apply (IH acc ns H)|].
    apply (IH (j :: acc) ns H).
    + constructor; [now apply zmem_false|exact Hn].
    + intros y [<-|Hy]; [exact Hj|now apply Hb].
Qed.

(* drop_many(indexes) for ANY index list: either an index is out of range and nothing at all happens
   (IndexError), or the normalised distinct positions are dropped *)
Theorem drop_many_layout : forall pre pht cs post idxs,
  WF ph pre pht cs post ->
  (exists e, drop_many ph (mkst (lay pre pht cs post) (map item_of cs)) idxs
             = (mkst (lay pre pht cs post) (map item_of cs), [], Err e)) \/
  (exists cs' M,
    drop_many ph (mkst (lay pre pht cs post) (map item_of cs)) idxs
      = (mkst (lay pre pht cs' post) (map item_of cs'), [], Ok tt) /\
    WF ph pre pht cs' post /\ Edits cs cs' M [] /\ (Sep seps sepsb cs -> Sep seps sepsb cs')).
Proof.
  intros pre pht cs post idxs Hwf. unfold drop_many. cbn [s_items]. rewrite zlen_map.
  destruct (norm_all (zlen cs) idxs []) as [ns|e] eqn:E; [right|left; now exists e].
  destruct (norm_all_ok _ _ _ _ E) as [Hn Hb]; [constructor|intros y []|].
  destruct (drop_many_core_layout pre pht cs post ns Hwf Hn Hb) as (cs' & M & E1 & Hw & He & Hs & _).
  exists cs', M. split; [exact E1|]. split; [exact Hw|]. split; [exact He|exact Hs].
Qed.

(* __delitem__ with an extended slice *)
Theorem delitem_ext_layout : forall pre pht cs post index fr r,
  WF ph pre pht cs post -> range_from_index index (zlen cs) = Ok r -> r_step r <> 1 ->
  (match index with IInt _ => False | ISlice sl => slice_indices (zlen cs) sl = Ok (r_start r, r_stop r, r_step r) end) ->
  exists cs' M,
    delitem ph seps sepsb (mkst (lay pre pht cs post) (map item_of cs)) index fr
      = (mkst (lay pre pht cs' post) (map item_of cs'), [], Ok tt) /\
    WF ph pre pht cs' post /\ Edits cs cs' M [] /\ (Sep seps sepsb cs -> Sep seps sepsb cs').
Proof.
  intros pre pht cs post index fr r Hwf Hr Hs Hsl.
  destruct index as [i|sl]; [destruct Hsl|].
  pose proof (zlen_nonneg cs) as Hn.
  destruct r as [a b k]. cbn [r_start r_stop r_step] in *.
  destruct (slice_indices_range _ _ _ _ _ Hn Hsl) as (Hk & _).
  destruct (drop_many_layout pre pht cs post (range_list (mkrng a b k)) Hwf) as [(e & E)|(cs' & M & E & Hw & He & HS)].
  - (* every position of range(n)[slice] is in range: the validation cannot fail *)
    exfalso. unfold drop_many in E. cbn [s_items] in E. rewrite zlen_map in E.
    pose proof (range_list_bounds _ _ _ _ _ Hn Hsl) as HF.
    assert (Hv : forall l acc, Forall (fun p => 0 <= p < zlen cs) l -> exists ns, norm_all (zlen cs) l acc = Ok ns).
    { induction l as [|p l IH]; intros acc HFl; [now exists acc|]. cbn.
      pose proof (Forall_inv HFl) as Hp. cbn beta in Hp. unfold norm_index.
      replace ((0 <=? p) && (p <? zlen cs)) with true by lia. apply IH. exact (Forall_inv_tail HFl). }
    destruct (Hv _ [] HF) as (ns & Ens). rewrite Ens in E.
    destruct (norm_all_ok _ _ _ _ Ens) as [Hn2 Hb2]; [constructor|intros y []|].
    destruct (drop_many_core_layout pre pht cs post ns Hwf Hn2 Hb2) as (cs' & M & E1 & _). rewrite E1 in E. discriminate.
  - exists cs', M. split; [|split; [exact Hw|split; [exact He|exact HS]]].
    unfold delitem. cbn [s_items]. rewrite zlen_map, Hr. cbn [r_step].
    replace (k =? 1) with false by lia. exact E.
Qed.

End DropMany.
