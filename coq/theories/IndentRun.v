(* Glue for the C18 correspondence. *)
From AB Require Import Prelude Indent.

Definition str_eqb (a b : str) : bool := list_eqb Z.eqb a b.
Definition item_eqb (a b : item) : bool :=
  match a, b with
  | IMeta i k, IMeta i' k' => str_eqb i i' && (k =? k')
  | IComment i, IComment i' => str_eqb i i'
  | _, _ => false
  end.
Definition M := IMeta.
Definition C := IComment.

Inductive iop :=
| OSetItem (k : Z)                     (* parent.meta[key] = value *)
| OAppendRaw (it : item)               (* parent.raw_meta.append(MetaItem.from_value(..., indent=i)) / raw_meta_with_comments.append(comment) *)
| OInsertRaw (index : Z) (it : item).  (* parent.raw_meta.insert(index, item) *)

Record icase := mkicase {
  i_indent : option str; i_indent_by : str; i_items : list item;
  i_op : iop;
  i_items' : list item;                (* raw_meta_with_comments afterwards, with each item's indent *)
  i_indent' : option str; i_indent_by' : str
}.

Definition check_case (c : icase) : bool :=
  let p := mkparent (i_indent c) (i_indent_by c) (i_items c) in
  let p' := match i_op c with
            | OSetItem k => setitem p k
            | OAppendRaw it => append_raw p it
            | OInsertRaw n it => insert_raw p n it
            end in
  list_eqb item_eqb (p_items p') (i_items' c)
  && opt_eqb str_eqb (p_indent p') (i_indent' c) && str_eqb (p_indent_by p') (i_indent_by' c).

(* comment setter: (current comment's indent if any, owner indent, new value's lines or None,
   resulting (indent, raw_text) or None) *)
Definition check_comment (c : option str * str * option (list str) * option (str * str)) : bool :=
  let '(cur, owner, v, res) := c in
  let cur' := option_map (fun i => mkcomment i []) cur in
  match set_comment cur' owner v, res with
  | None, None => true
  | Some cm, Some (i, raw) => str_eqb (c_indent cm) i && str_eqb (raw_text_of cm) raw
  | _, _ => false
  end.
