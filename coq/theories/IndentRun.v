(* Glue for the C18 correspondence. *)
From AB Require Import Prelude Indent.

Definition str_eqb (a b : str) : bool := list_eqb Z.eqb a b.
Definition item_eqb (a b : item) : bool :=
  match a, b with
  | IMeta i k, IMeta i' k' => str_eqb i i' && (k =? k')
  | IComment i, IComment i' => str_eqb i i'
  | _, _ => false
  end.
Definition M := IMeta.
Definition C := IComment.

Inductive iop :=
| OSetItem (k : Z)                     (* parent.meta[key] = value *)
| OAppendRaw (it : item)               (* parent.raw_meta.append(MetaItem.from_value(..., indent=i)) / raw_meta_with_comments.append(comment) *)
| OInsertRaw (index : Z) (it : item).  (* parent.raw_meta.insert(index, item) *)

Record icase := mkicase {
  i_indent : option str; i_indent_by : str; i_items : list item;
  i_op : iop;
  i_items' : list item;                (* raw_meta_with_comments afterwards, with each item's indent *)
  i_indent' : option str; i_indent_by' : str
}.

Definition check_case (c : icase) : bool :=
  let p := mkparent (i_indent c) (i_indent_by c) (i_items c) in
  let p' := match i_op c with
            | OSetItem k => setitem p k
            | OAppendRaw it => append_raw p it
            | OInsertRaw n it => insert_raw p n it
            end in
  list_eqb item_eqb (p_items p') (i_items' c)
  && opt_eqb str_eqb (p_indent p') (i_indent' c) && str_eqb (p_indent_by p') (i_indent_by' c).

(* comment setter: (current comment's indent if any, owner indent, new value's lines or None,
   resulting (indent, raw_text) or None) *)
Definition check_comment (c : option str * str * option (list str) * option (str * str)) : bool :=
  let '(cur, owner, v, res) := c in
  let cur' := option_map (fun i => mkcomment i []) cur in
  match set_comment cur' owner v, res with
  | None, None => true
  | Some cm, Some (i, raw) => str_eqb (c_indent cm) i && str_eqb (raw_text_of cm) raw
  | _, _ => false
  end.

(* histories: initial parent, then per step the operation and what the implementation showed afterwards
   (0 = returned / exception code, raw_meta_with_comments with indents, posting indent, indent_by) *)
Definition exn_code (e : exn) : Z :=
  match e with
  | ValueError => 1 | IndexError => 2 | KeyError => 3 | AssertionError => 4 | TypeError => 5
  | NotImplementedErr => 6 | OutOfFuel => 7 | ModelStuck => 8
  end.
Record hobs := mkhobs { h_res : Z; h_items : list item; h_indent : option str; h_indent_by : str }.
Record hcase := mkhcase { hc_indent : option str; hc_indent_by : str; hc_items : list item;
                          hc_steps : list (hop * hobs) }.

Fixpoint run_hsteps (p : parent) (steps : list (hop * hobs)) : bool :=
  match steps with
  | [] => true
  | (o, ob) :: r =>
    let '(p', rr) := hstep p o in
    (match rr with Ok _ => 0 | Err e => exn_code e end =? h_res ob)
    && list_eqb item_eqb (p_items p') (h_items ob)
    && opt_eqb str_eqb (p_indent p') (h_indent ob) && str_eqb (p_indent_by p') (h_indent_by ob)
    && run_hsteps p' r
  end.
Definition check_hcase (c : hcase) : bool :=
  run_hsteps (mkparent (hc_indent c) (hc_indent_by c) (hc_items c)) (hc_steps c).
