(* Proofs about WholeField.v: a refused whole-field assignment changes nothing; after an accepted one every cached
   view is built on the new wrapper and stays exact for every later history; `x.view += xs` is extend; the deep copy of
   a wrapper is independent of the original.  The variants (seeded regressions, code as found) are refuted. *)
From AB Require Import Prelude PySeq PySeqProofs Views ViewsProofs WholeField.
From Coq Require Import ZifyBool.

(* ---- identities -> objects ------------------------------------------------------------------------ *)
Lemma lookup_upd {A} (k k' : Z) (a : A) : forall l,
  lookup k (upd k' a l) = if k' =? k then Some a else lookup k l.
Proof.
  induction l as [|[k0 a0] l IH]; cbn [upd lookup].
  - destruct (k' =? k); reflexivity.
  - destruct (k0 =? k') eqn:E0; cbn [lookup].
    + apply Z.eqb_eq in E0. subst k0. destruct (k' =? k); reflexivity.
    + rewrite IH. destruct (k0 =? k) eqn:E1; [|reflexivity].
      apply Z.eqb_eq in E1. subst k0. rewrite Z.eqb_sym in E0. now rewrite E0.
Qed.
Lemma lookup_upd_same {A} (k : Z) (a : A) l : lookup k (upd k a l) = Some a.
Proof. rewrite lookup_upd. now rewrite Z.eqb_refl. Qed.
Lemma lookup_upd_other {A} (k k' : Z) (a : A) l : k' <> k -> lookup k (upd k' a l) = lookup k l.
Proof. intros H. rewrite lookup_upd. destruct (k' =? k) eqn:E; [apply Z.eqb_eq in E; contradiction|reflexivity]. Qed.
Lemma upd_same {A} (k : Z) (a : A) : forall l, lookup k l = Some a -> upd k a l = l.
Proof.
  induction l as [|[k0 a0] l IH]; cbn [upd lookup]; [discriminate|].
  destruct (k0 =? k) eqn:E; intros H.
  - apply Z.eqb_eq in E. inversion H. now subst.
  - now rewrite IH.
Qed.
Lemma In_upd {A} (k : Z) (a : A) e : forall l, In e (upd k a l) -> e = (k, a) \/ In e l.
Proof.
  induction l as [|[k0 a0] l IH]; cbn [upd].
  - intros [H|[]]; now left.
  - destruct (k0 =? k); intros [H|H].
    + now left.
    + right. now right.
    + right. now left.
    + destruct (IH H) as [H1|H1]; [now left|right; now right].
Qed.

Ltac lk H := rewrite lookup_upd in H;
  match type of H with context [?a =? ?b] =>
    let E := fresh "E" in destruct (Z.eqb_spec a b) as [E|E];
      [try (match type of E with _ = ?y => subst y end)|] end.
Ltac lkg := rewrite lookup_upd;
  match goal with |- context [?a =? ?b] =>
    let E := fresh "E" in destruct (Z.eqb_spec a b) as [E|E]; [try subst|] end.

(* ==== (1) a refused whole-field assignment changes nothing =========================================== *)
Lemma replace_rep_err h n r h' e : replace_rep h n r = (h', Err e) -> h' = h.
Proof.
  unfold replace_rep.
  destruct (lookup n (h_reps h)) as [Nd|]; [|now inversion 1].
  destruct (lookup r (h_reps h)) as [P|]; [|now inversion 1].
  destruct (n =? r); [now inversion 1|].
  destruct (negb (r_live Nd)); [now inversion 1|].
  destruct (negb (r_spans P)); now inversion 1.
Qed.

Lemma assign_refused_atomic var h i w h' e :
  var <> VCacheFirst -> assign var h i w = (h', Err e) -> h' = h.
Proof.
  intros Hv. unfold assign.
  destruct (lookup i (h_insts h)) as [ins|]; [|now inversion 1].
  destruct (lookup w (h_wrps h)) as [W|]; [|now inversion 1].
  assert (G : match replace_rep h (i_field ins) (w_rep W) with
              | (h1, Err e0) => (h1, Err e0)
              | (h1, Ok _) => (set_insts h1 (upd i (set_cache var (set_field ins (w_rep W)) w) (h_insts h1)), Ok RNone)
              end = (h', Err e) -> h' = h).
  { destruct (replace_rep h (i_field ins) (w_rep W)) as [h1 [u|e1]] eqn:E; [discriminate|].
    intros H. inversion H; subst. eapply replace_rep_err; eauto. }
  destruct var; try exact G. contradiction.
Qed.

(* a wrapper whose Repeated is attached elsewhere (detach refuses it) is refused, whatever else is in the heap *)
Lemma assign_attached_refused h i w ins W Nd P :
  lookup i (h_insts h) = Some ins -> lookup w (h_wrps h) = Some W ->
  lookup (i_field ins) (h_reps h) = Some Nd -> lookup (w_rep W) (h_reps h) = Some P ->
  i_field ins <> w_rep W -> r_live Nd = true -> r_spans P = false ->
  assign VRepaired h i w = (h, Err ValueError).
Proof.
  intros Hi Hw Hn Hp Hne Hl Hs. unfold assign, replace_rep. rewrite Hi, Hw, Hn, Hp.
  destruct (Z.eqb_spec (i_field ins) (w_rep W)); [contradiction|].
  now rewrite Hl, Hs.
Qed.

Theorem whole_field_refused_atomic :
  (forall h i w h' e, wstep VRepaired h (WAssign i w) = (h', Err e) -> h' = h)
  /\ (forall h i w ins W Nd P,
        lookup i (h_insts h) = Some ins -> lookup w (h_wrps h) = Some W ->
        lookup (i_field ins) (h_reps h) = Some Nd -> lookup (w_rep W) (h_reps h) = Some P ->
        i_field ins <> w_rep W -> r_live Nd = true -> r_spans P = false ->
        wstep VRepaired h (WAssign i w) = (h, Err ValueError)).
Proof.
  split.
  - intros h i w h' e H. cbn [wstep] in H. eapply assign_refused_atomic; eauto. discriminate.
  - intros h i w ins W Nd P H1 H2 H3 H4 H5 H6 H7. cbn [wstep].
    exact (assign_attached_refused h i w ins W Nd P H1 H2 H3 H4 H5 H6 H7).
Qed.

(* ==== list operations touch one wrapper and one Repeated =============================================== *)
Lemma edit_frame h w o h' r :
  edit h w o = (h', r) ->
  h_insts h' = h_insts h /\ h_next h' = h_next h
  /\ (forall w2, w2 <> w -> lookup w2 (h_wrps h') = lookup w2 (h_wrps h))
  /\ (forall W, lookup w (h_wrps h) = Some W -> forall r2, r2 <> w_rep W -> lookup r2 (h_reps h') = lookup r2 (h_reps h)).
Proof.
  unfold edit.
  destruct (lookup w (h_wrps h)) as [W|] eqn:EW; [|inversion 1; subst; repeat split; congruence].
  destruct (lookup (w_rep W) (h_reps h)) as [R|] eqn:ER; [|inversion 1; subst; repeat split; congruence].
  destruct (negb (edit_ok o)); [inversion 1; subst; repeat split; congruence|].
  destruct (r_live R || read_only o).
  - inversion 1; subst. cbn [h_insts h_next h_wrps h_reps]. repeat split.
    + intros w2 Hne. apply lookup_upd_other; congruence.
    + intros W0 HW0 r2 Hne. inversion HW0; subst. apply lookup_upd_other; congruence.
  - inversion 1; subst. repeat split; congruence.
Qed.

(* ==== the invariant of reachable heaps ==================================================================
   inv_w      every wrapper wraps an existing Repeated and every handler registered on it has an exact cache
   inv_one    one wrapper per Repeated
   inv_cache  a cached wrapper wraps the instance's field; without a cached wrapper nothing wraps it
   inv_views  every cached view was built on the cached wrapper
   inv_fields distinct instances hold distinct Repeateds
   inv_att    an instance's field is attached (detach would refuse it) and its tokens are in the document
              (this excludes D15: a field that spans the whole store of a free-standing parent)
   inv_bound  identities in use are below the allocator *)
Definition inv_w (h : heap) := forall w W, lookup w (h_wrps h) = Some W ->
  exists R, lookup (w_rep W) (h_reps h) = Some R /\ AllInv (mkst (r_items R) (w_views W)).
Definition inv_one (h : heap) := forall w1 w2 W1 W2,
  lookup w1 (h_wrps h) = Some W1 -> lookup w2 (h_wrps h) = Some W2 -> w_rep W1 = w_rep W2 -> w1 = w2.
Definition inv_cache (h : heap) := forall i ins, lookup i (h_insts h) = Some ins ->
  match i_wrapper ins with
  | Some w => exists W, lookup w (h_wrps h) = Some W /\ w_rep W = i_field ins
  | None => forall w W, lookup w (h_wrps h) = Some W -> w_rep W <> i_field ins
  end.
Definition inv_views (h : heap) := forall i ins nv,
  lookup i (h_insts h) = Some ins -> In nv (i_views ins) -> i_wrapper ins = Some (fst (snd nv)).
Definition inv_fields (h : heap) := forall i j ins jns,
  lookup i (h_insts h) = Some ins -> lookup j (h_insts h) = Some jns -> i_field ins = i_field jns -> i = j.
Definition inv_att (h : heap) := forall i ins, lookup i (h_insts h) = Some ins ->
  exists R, lookup (i_field ins) (h_reps h) = Some R /\ r_spans R = false /\ r_live R = true.
Definition inv_bound (h : heap) :=
  (forall r R, lookup r (h_reps h) = Some R -> r < h_next h)
  /\ (forall w W, lookup w (h_wrps h) = Some W -> w < h_next h).
Definition Inv (h : heap) :=
  inv_w h /\ inv_one h /\ inv_cache h /\ inv_views h /\ inv_fields h /\ inv_att h /\ inv_bound h.

(* ---- get_wrapper ----------------------------------------------------------------------------------- *)
Lemma get_wrapper_spec h i h1 w :
  get_wrapper h i = (h1, Ok w) ->
  exists ins1, lookup i (h_insts h1) = Some ins1 /\ i_wrapper ins1 = Some w
    /\ (forall ins, lookup i (h_insts h) = Some ins -> i_field ins1 = i_field ins /\ i_views ins1 = i_views ins).
Proof.
  unfold get_wrapper. destruct (lookup i (h_insts h)) as [ins|] eqn:Ei; [|discriminate].
  destruct (i_wrapper ins) as [w0|] eqn:Ew.
  - inversion 1; subst. exists ins. split; [exact Ei|]. split; [exact Ew|].
    intros ins0 Hx. inversion Hx. split; reflexivity.
  - inversion 1; subst. cbn [h_insts]. rewrite lookup_upd_same. eexists. split; [reflexivity|].
    cbn [i_wrapper i_field i_views]. split; [reflexivity|]. intros ins0 Hx. inversion Hx. split; reflexivity.
Qed.

Ltac inv_intro :=
  let Hw := fresh "Hw" in let Ho := fresh "Ho" in let Hc := fresh "Hc" in let Hv := fresh "Hv" in
  let Hf := fresh "Hf" in let Ha := fresh "Ha" in let Hb1 := fresh "Hb1" in let Hb2 := fresh "Hb2" in
  intros (Hw & Ho & Hc & Hv & Hf & Ha & Hb1 & Hb2);
  unfold inv_w, inv_one, inv_cache, inv_views, inv_fields, inv_att in Hw, Ho, Hc, Hv, Hf, Ha.

Lemma get_wrapper_inv h i : Inv h -> Inv (fst (get_wrapper h i)).
Proof.
  intros HI. pose proof HI as HI0. revert HI. inv_intro. unfold get_wrapper.
  destruct (lookup i (h_insts h)) as [ins|] eqn:Ei; [|exact HI0].
  destruct (i_wrapper ins) as [w0|] eqn:Ew; [exact HI0|].
  cbn [fst]. set (w := h_next h).
  pose proof (Hc i ins Ei) as Hci. rewrite Ew in Hci.
  assert (Hfresh : lookup w (h_wrps h) = None).
  { destruct (lookup w (h_wrps h)) as [W|] eqn:E; [|reflexivity]. apply Hb2 in E. unfold w in E. lia. }
  repeat split.
  - (* inv_w *) intros w1 W1 H1. cbn [h_wrps h_reps] in *. lk H1.
    + inversion H1; subst. cbn [w_rep w_views]. destruct (Ha i ins Ei) as (R & HR & _).
      exists R. split; [exact HR|constructor].
    + exact (Hw _ _ H1).
  - (* inv_one *) intros w1 w2 W1 W2 H1 H2 Hr. cbn [h_wrps] in *. lk H1; lk H2; try reflexivity.
    + inversion H1; subst. cbn [w_rep] in Hr. exfalso. eapply Hci; eauto.
    + inversion H2; subst. cbn [w_rep] in Hr. exfalso. eapply Hci; eauto.
    + eapply Ho; eauto.
  - (* inv_cache *) intros j jns Hj. cbn [h_insts h_wrps] in *. lk Hj.
    + inversion Hj; subst. cbn [i_wrapper i_field]. eexists. rewrite lookup_upd_same. split; reflexivity.
    + pose proof (Hc j jns Hj) as Hcj. destruct (i_wrapper jns) as [wj|].
      * destruct Hcj as (Wj & HWj & Hrj). exists Wj. split; [|exact Hrj].
        rewrite lookup_upd_other; [exact HWj|]. intros ->. rewrite Hfresh in HWj. discriminate.
      * intros w1 W1 H1. lk H1; [|exact (Hcj _ _ H1)].
        inversion H1; subst. cbn [w_rep]. intros Hx. apply E. symmetry. eapply Hf; eauto.
  - (* inv_views *) intros j jns nv Hj Hin. cbn [h_insts] in *. lk Hj.
    + inversion Hj; subst. cbn [i_views i_wrapper] in *. pose proof (Hv _ _ _ Ei Hin) as Hx. congruence.
    + eapply Hv; eauto.
  - (* inv_fields *) intros j k jns kns Hj Hk Hr. cbn [h_insts] in *. lk Hj; lk Hk; try reflexivity.
    + inversion Hj; subst. cbn [i_field] in Hr. eapply Hf; eauto.
    + inversion Hk; subst. cbn [i_field] in Hr. eapply Hf; eauto.
    + eapply Hf; eauto.
  - (* inv_att *) intros j jns Hj. cbn [h_insts h_reps] in *. lk Hj.
    + inversion Hj; subst. cbn [i_field]. now apply (Ha i ins).
    + now apply (Ha j jns).
  - intros r R HR. cbn [h_reps h_next] in *. apply Hb1 in HR. lia.
  - intros w1 W1 H1. cbn [h_wrps h_next] in *. lk H1; [lia|]. apply Hb2 in H1. lia.
Qed.

(* ---- a wrapper's list and handler caches are rewritten in place ----------------------------------------- *)
Lemma inv_edit h w W R its vs :
  Inv h -> lookup w (h_wrps h) = Some W -> lookup (w_rep W) (h_reps h) = Some R ->
  AllInv (mkst its vs) ->
  Inv (mkheap (upd (w_rep W) (mkrep its (r_spans R) (r_live R)) (h_reps h))
              (upd w (mkwrp (w_rep W) (w_inter W) vs) (h_wrps h)) (h_insts h) (h_next h)).
Proof.
  inv_intro. intros HW HR HA. repeat split.
  - intros w1 W1 H1. cbn [h_wrps h_reps] in *. lk H1.
    + inversion H1; subst. cbn [w_rep w_views]. rewrite lookup_upd_same. eexists. split; [reflexivity|exact HA].
    + destruct (Hw _ _ H1) as (R1 & HR1 & HA1). exists R1. split; [|exact HA1].
      rewrite lookup_upd_other; [exact HR1|]. intros Hx. apply E. exact (Ho _ _ _ _ HW H1 Hx).
  - intros w1 w2 W1 W2 H1 H2 Hr. cbn [h_wrps] in *. lk H1; lk H2; try reflexivity.
    + inversion H1; subst. cbn [w_rep] in Hr. exact (Ho _ _ _ _ HW H2 Hr).
    + inversion H2; subst. cbn [w_rep] in Hr. exact (Ho _ _ _ _ H1 HW Hr).
    + exact (Ho _ _ _ _ H1 H2 Hr).
  - intros j jns Hj. cbn [h_insts h_wrps] in *. pose proof (Hc j jns Hj) as Hcj.
    destruct (i_wrapper jns) as [wj|].
    + destruct Hcj as (Wj & HWj & Hrj). destruct (Z.eq_dec w wj) as [->|Hne].
      * rewrite lookup_upd_same. eexists. split; [reflexivity|]. cbn [w_rep]. congruence.
      * rewrite lookup_upd_other by exact Hne. now exists Wj.
    + intros w1 W1 H1. lk H1; [|exact (Hcj _ _ H1)].
      inversion H1; subst. cbn [w_rep]. exact (Hcj _ _ HW).
  - intros j jns nv Hj Hin. cbn [h_insts] in *. exact (Hv _ _ _ Hj Hin).
  - intros j k jns kns Hj Hk Hr. cbn [h_insts] in *. exact (Hf _ _ _ _ Hj Hk Hr).
  - intros j jns Hj. cbn [h_insts h_reps] in *. destruct (Ha _ _ Hj) as (Rj & HRj & Hs & Hl).
    destruct (Z.eq_dec (w_rep W) (i_field jns)) as [He|Hne].
    + rewrite <- He. rewrite lookup_upd_same. eexists. split; [reflexivity|].
      rewrite <- He in HRj. rewrite HR in HRj. inversion HRj; subst. cbn [r_spans r_live]. now split.
    + rewrite lookup_upd_other by exact Hne. now exists Rj.
  - intros r R0 H0. cbn [h_reps h_next] in *. lk H0; [exact (Hb1 _ _ HR)|exact (Hb1 _ _ H0)].
  - intros w1 W1 H1. cbn [h_wrps h_next] in *. lk H1; [exact (Hb2 _ _ HW)|exact (Hb2 _ _ H1)].
Qed.

Lemma st_eta (s : st) : mkst (items s) (views s) = s.
Proof. now destruct s. Qed.

Lemma edit_inv h w o : Inv h -> Inv (fst (edit h w o)).
Proof.
  intros HI. unfold edit.
  destruct (lookup w (h_wrps h)) as [W|] eqn:EW; [|exact HI].
  destruct (lookup (w_rep W) (h_reps h)) as [R|] eqn:ER; [|exact HI].
  destruct (negb (edit_ok o)); [exact HI|].
  destruct (r_live R || read_only o); [|exact HI].
  cbn [fst]. apply inv_edit; try assumption.
  rewrite st_eta. apply step_inv.
  destruct HI as (Hw & _). destruct (Hw _ _ EW) as (R1 & HR1 & HA1). rewrite ER in HR1. now inversion HR1; subst.
Qed.

(* ---- a view is cached in an instance --------------------------------------------------------------------- *)
Lemma inv_add_view h i ins name w k :
  Inv h -> lookup i (h_insts h) = Some ins -> i_wrapper ins = Some w ->
  Inv (set_insts h (upd i (mkinst (i_field ins) (i_inter ins) (i_wrapper ins) (upd name (w, k) (i_views ins)))
                        (h_insts h))).
Proof.
  inv_intro. intros Hi Hiw. unfold set_insts. repeat split.
  - intros w1 W1 H1. cbn [h_wrps h_reps] in *. exact (Hw _ _ H1).
  - intros w1 w2 W1 W2 H1 H2 Hr. cbn [h_wrps] in *. exact (Ho _ _ _ _ H1 H2 Hr).
  - intros j jns Hj. cbn [h_insts h_wrps] in *. lk Hj.
    + inversion Hj; subst. cbn [i_wrapper i_field]. exact (Hc _ _ Hi).
    + exact (Hc _ _ Hj).
  - intros j jns nv Hj Hin. cbn [h_insts] in *. lk Hj.
    + inversion Hj; subst. cbn [i_wrapper i_views] in *. destruct (In_upd _ _ _ _ Hin) as [->|Hin'].
      * exact Hiw.
      * exact (Hv _ _ _ Hi Hin').
    + exact (Hv _ _ _ Hj Hin).
  - intros j k0 jns kns Hj Hk Hr. cbn [h_insts] in *. lk Hj; lk Hk; try reflexivity.
    + inversion Hj; subst. cbn [i_field] in Hr. exact (Hf _ _ _ _ Hi Hk Hr).
    + inversion Hk; subst. cbn [i_field] in Hr. exact (Hf _ _ _ _ Hj Hi Hr).
    + exact (Hf _ _ _ _ Hj Hk Hr).
  - intros j jns Hj. cbn [h_insts h_reps] in *. lk Hj.
    + inversion Hj; subst. cbn [i_field]. exact (Ha _ _ Hi).
    + exact (Ha _ _ Hj).
  - intros r R0 H0. cbn [h_reps h_next] in *. exact (Hb1 _ _ H0).
  - intros w1 W1 H1. cbn [h_wrps h_next] in *. exact (Hb2 _ _ H1).
Qed.

Lemma rep_eta R : mkrep (r_items R) (r_spans R) (r_live R) = R.
Proof. now destruct R. Qed.

Lemma get_view_inv h i name tags kd : Inv h -> Inv (fst (get_view h i name tags kd)).
Proof.
  intros HI. unfold get_view.
  destruct (lookup i (h_insts h)) as [ins|] eqn:Ei; [|exact HI].
  destruct (lookup name (i_views ins)) as [vh|]; [exact HI|].
  pose proof (get_wrapper_inv h i HI) as HI1.
  destruct (get_wrapper h i) as [h1 [w|e]] eqn:Eg; [|exact HI1]. cbn [fst] in HI1.
  destruct (get_wrapper_spec _ _ _ _ Eg) as (ins1 & Hi1 & Hw1 & _).
  destruct (lookup w (h_wrps h1)) as [W|] eqn:EW; [|exact HI1].
  rewrite Hi1.
  destruct (lookup (w_rep W) (h_reps h1)) as [R|] eqn:ER; [|exact HI1].
  cbn [fst].
  assert (HA : AllInv (mkst (r_items R) (views (fst (register (mkst (r_items R) (w_views W)) tags kd))))).
  { pose proof (register_inv (mkst (r_items R) (w_views W)) tags kd) as Hr.
    destruct HI1 as (Hw & _). destruct (Hw _ _ EW) as (R1 & HR1 & HA1). rewrite ER in HR1. inversion HR1; subst R1.
    specialize (Hr HA1). unfold register in *. cbn [fst items views] in *. exact Hr. }
  pose proof (inv_edit h1 w W R _ _ HI1 EW ER HA) as H2.
  rewrite rep_eta in H2. rewrite (upd_same _ _ _ ER) in H2.
  pose proof (inv_add_view _ i ins1 name w (length (w_views W)) H2) as H3.
  cbn [h_insts set_insts h_reps h_wrps h_next] in H3. rewrite Hw1 in H3. rewrite Hw1. apply H3; [exact Hi1|reflexivity].
Qed.

Lemma inst_eta ins : mkinst (i_field ins) (i_inter ins) (i_wrapper ins) (i_views ins) = ins.
Proof. now destruct ins. Qed.
Lemma heap_eta h : mkheap (h_reps h) (h_wrps h) (h_insts h) (h_next h) = h.
Proof. now destruct h. Qed.

(* `model.raw_xs = model.raw_xs` (what `+=` does last): under the invariant nothing at all changes *)
Lemma assign_self_noop h i w ins W :
  Inv h -> lookup i (h_insts h) = Some ins -> lookup w (h_wrps h) = Some W -> i_field ins = w_rep W ->
  assign VRepaired h i w = (h, Ok RNone).
Proof.
  inv_intro. intros Hi HW He. unfold assign, replace_rep. rewrite Hi, HW.
  destruct (Ha _ _ Hi) as (R & HR & _). rewrite <- He, HR, Z.eqb_refl.
  pose proof (Hc _ _ Hi) as Hci.
  assert (Hcw : i_wrapper ins = Some w).
  { destruct (i_wrapper ins) as [w0|].
    - destruct Hci as (W0 & HW0 & Hr0). f_equal. apply (Ho _ _ _ _ HW0 HW). congruence.
    - exfalso. apply (Hci _ _ HW). congruence. }
  unfold set_cache, set_field, drop_views_of. cbn [i_wrapper i_field i_inter i_views]. rewrite Hcw, Z.eqb_refl.
  rewrite <- Hcw. rewrite inst_eta. rewrite (upd_same _ _ _ Hi). unfold set_insts. now rewrite heap_eta.
Qed.

Lemma assign_inv h i w : Inv h -> Inv (fst (assign VRepaired h i w)).
Proof.
  intros HI. pose proof HI as HI0. revert HI. inv_intro. unfold assign.
  destruct (lookup i (h_insts h)) as [ins|] eqn:Ei; [|exact HI0].
  destruct (lookup w (h_wrps h)) as [W|] eqn:EW; [|exact HI0].
  destruct (Z.eq_dec (i_field ins) (w_rep W)) as [He|Hne].
  { fold (assign VRepaired h i w) || idtac.
    pose proof (assign_self_noop h i w ins W HI0 Ei EW He) as Hs. unfold assign in Hs. rewrite Ei, EW in Hs.
    rewrite Hs. exact HI0. }
  unfold replace_rep.
  destruct (lookup (i_field ins) (h_reps h)) as [Nd|] eqn:EN; [|exact HI0].
  destruct (lookup (w_rep W) (h_reps h)) as [P|] eqn:EP; [|exact HI0].
  destruct (Z.eqb_spec (i_field ins) (w_rep W)) as [|_]; [contradiction|].
  destruct (r_live Nd) eqn:ELv; cbn [negb]; [|exact HI0].
  destruct (r_spans P) eqn:ESp; cbn [negb]; [|exact HI0].
  cbn [fst]. unfold set_insts, set_reps. cbn [h_reps h_wrps h_insts h_next].
  assert (F1 : forall j jns, lookup j (h_insts h) = Some jns -> i_field jns <> w_rep W).
  { intros j jns Hj Hx. destruct (Ha _ _ Hj) as (Rj & HRj & Hsj & _). rewrite Hx, EP in HRj. inversion HRj; subst. congruence. }
  assert (HNs : r_spans Nd = false).
  { destruct (Ha _ _ Ei) as (R0 & HR0 & Hs0 & _). rewrite EN in HR0. now inversion HR0; subst. }
  set (reps' := upd (w_rep W) (mkrep (r_items P) (r_spans Nd) true) (upd (i_field ins) (mkrep (r_items Nd) false false) (h_reps h))).
  assert (Hit : forall r R1, lookup r (h_reps h) = Some R1 -> exists R', lookup r reps' = Some R' /\ r_items R' = r_items R1).
  { intros r R1 H1. unfold reps'. lkg.
    - rewrite EP in H1. inversion H1; subst. eexists. split; reflexivity.
    - lkg.
      + rewrite EN in H1. inversion H1; subst. eexists. split; reflexivity.
      + exists R1. split; [exact H1|reflexivity]. }
  repeat split.
  - intros w1 W1 H1. cbn [h_wrps h_reps] in *. destruct (Hw _ _ H1) as (R1 & HR1 & HA1).
    destruct (Hit _ _ HR1) as (R' & HR' & Hi'). exists R'. split; [exact HR'|]. now rewrite Hi'.
  - intros w1 w2 W1 W2 H1 H2 Hr. cbn [h_wrps] in *. exact (Ho _ _ _ _ H1 H2 Hr).
  - intros j jns Hj. cbn [h_insts h_wrps] in *. lk Hj.
    + inversion Hj; subst. cbn [set_cache set_field i_wrapper i_field]. exists W. now split.
    + exact (Hc _ _ Hj).
  - intros j jns nv Hj Hin. cbn [h_insts] in *. lk Hj; [|exact (Hv _ _ _ Hj Hin)].
    inversion Hj; subst. cbn [set_cache set_field i_wrapper i_field i_views i_inter] in *.
    unfold drop_views_of in Hin. destruct (i_wrapper ins) as [o|] eqn:Eo.
    + destruct (Z.eqb_spec o w) as [->|Hno].
      * pose proof (Hv _ _ _ Ei Hin) as Hx. congruence.
      * apply filter_In in Hin. destruct Hin as (Hin & Hb). pose proof (Hv _ _ _ Ei Hin) as Hx.
        rewrite Eo in Hx. inversion Hx; subst. unfold built_on in Hb. rewrite Z.eqb_refl in Hb. discriminate.
    + pose proof (Hv _ _ _ Ei Hin) as Hx. congruence.
  - intros j k jns kns Hj Hk Hr. cbn [h_insts] in *. lk Hj; lk Hk; try reflexivity.
    + inversion Hj; subst. cbn [set_cache set_field i_field] in Hr. exfalso. exact (F1 _ _ Hk (eq_sym Hr)).
    + inversion Hk; subst. cbn [set_cache set_field i_field] in Hr. exfalso. exact (F1 _ _ Hj Hr).
    + exact (Hf _ _ _ _ Hj Hk Hr).
  - intros j jns Hj. cbn [h_insts h_reps] in *. lk Hj.
    + inversion Hj; subst. cbn [set_cache set_field i_field]. fold reps'. unfold reps'. rewrite lookup_upd_same.
      eexists. split; [reflexivity|]. cbn [r_spans r_live]. now split.
    + destruct (Ha _ _ Hj) as (Rj & HRj & Hsj & Hlj). exists Rj. split; [|now split].
      fold reps'. unfold reps'. rewrite lookup_upd_other by (intros Hx; exact (F1 _ _ Hj (eq_sym Hx))).
      rewrite lookup_upd_other; [exact HRj|]. intros Hx. apply E. exact (Hf _ _ _ _ Ei Hj Hx).
  - intros r R0 H0. cbn [h_reps h_next] in *. unfold reps' in H0. lk H0; [exact (Hb1 _ _ EP)|]. lk H0; [exact (Hb1 _ _ EN)|exact (Hb1 _ _ H0)].
  - intros w1 W1 H1. cbn [h_wrps h_next] in *. exact (Hb2 _ _ H1).
Qed.

(* ---- deep copy of a wrapper ------------------------------------------------------------------------------ *)
Lemma wrapper_rep_bound h w W : Inv h -> lookup w (h_wrps h) = Some W -> w_rep W < h_next h.
Proof. inv_intro. intros HW. destruct (Hw _ _ HW) as (R & HR & _). exact (Hb1 _ _ HR). Qed.
Lemma field_bound h i ins : Inv h -> lookup i (h_insts h) = Some ins -> i_field ins < h_next h.
Proof. inv_intro. intros Hi. destruct (Ha _ _ Hi) as (R & HR & _). exact (Hb1 _ _ HR). Qed.

Lemma copy_inv h w : Inv h -> Inv (fst (copy_wrapper VRepaired h w)).
Proof.
  intros HI. pose proof HI as HI0. revert HI. inv_intro. unfold copy_wrapper.
  destruct (lookup w (h_wrps h)) as [W|] eqn:EW; [|exact HI0].
  destruct (lookup (w_rep W) (h_reps h)) as [R|] eqn:ER; [|exact HI0].
  destruct (negb (r_live R)); [exact HI0|]. cbn [fst].
  set (r' := h_next h). set (w' := h_next h + 1).
  assert (Fr : forall r R0, lookup r (h_reps h) = Some R0 -> r' <> r).
  { intros r R0 H0. apply Hb1 in H0. unfold r'. lia. }
  assert (Fw : forall w1 W1, lookup w1 (h_wrps h) = Some W1 -> w' <> w1 /\ w_rep W1 <> r').
  { intros w1 W1 H1. pose proof (wrapper_rep_bound _ _ _ HI0 H1). apply Hb2 in H1. unfold w', r'. lia. }
  repeat split.
  - intros w1 W1 H1. cbn [h_wrps h_reps] in *. lk H1.
    + inversion H1; subst. cbn [w_rep w_views]. rewrite lookup_upd_same. eexists. split; [reflexivity|constructor].
    + destruct (Hw _ _ H1) as (R1 & HR1 & HA1). exists R1. split; [|exact HA1].
      rewrite lookup_upd_other; [exact HR1|]. exact (Fr _ _ HR1).
  - intros w1 w2 W1 W2 H1 H2 Hr. cbn [h_wrps] in *. lk H1; lk H2; try reflexivity.
    + inversion H1; subst. cbn [w_rep] in Hr. exfalso. destruct (Fw _ _ H2) as (_ & Hx). congruence.
    + inversion H2; subst. cbn [w_rep] in Hr. exfalso. destruct (Fw _ _ H1) as (_ & Hx). congruence.
    + exact (Ho _ _ _ _ H1 H2 Hr).
  - intros j jns Hj. cbn [h_insts h_wrps] in *. pose proof (Hc _ _ Hj) as Hcj.
    destruct (i_wrapper jns) as [wj|].
    + destruct Hcj as (Wj & HWj & Hrj). exists Wj. split; [|exact Hrj].
      rewrite lookup_upd_other; [exact HWj|]. exact (proj1 (Fw _ _ HWj)).
    + intros w1 W1 H1. lk H1; [|exact (Hcj _ _ H1)].
      inversion H1; subst. cbn [w_rep]. pose proof (field_bound _ _ _ HI0 Hj). unfold r'. lia.
  - intros j jns nv Hj Hin. cbn [h_insts] in *. exact (Hv _ _ _ Hj Hin).
  - intros j k jns kns Hj Hk Hr. cbn [h_insts] in *. exact (Hf _ _ _ _ Hj Hk Hr).
  - intros j jns Hj. cbn [h_insts h_reps] in *. destruct (Ha _ _ Hj) as (Rj & HRj & Hx). exists Rj. split; [|exact Hx].
    rewrite lookup_upd_other; [exact HRj|]. exact (Fr _ _ HRj).
  - intros r R0 H0. cbn [h_reps h_next] in *. lk H0; [unfold r'; lia|]. apply Hb1 in H0. lia.
  - intros w1 W1 H1. cbn [h_wrps h_next] in *. lk H1; [unfold w'; lia|]. apply Hb2 in H1. lia.
Qed.

(* ---- every operation, every history ------------------------------------------------------------------------ *)
Lemma set_view_heap var h i name vh : fst (set_view var h i name vh) = h.
Proof.
  unfold set_view. destruct (lookup i (h_insts h)) as [ins|]; [|reflexivity].
  destruct var; try reflexivity; destruct (lookup name (i_views ins)); try reflexivity; now destruct (vh_eqb _ _).
Qed.

Lemma wstep_inv h o : Inv h -> Inv (fst (wstep VRepaired h o)).
Proof.
  intros HI. destruct o; cbn [wstep].
  - pose proof (get_wrapper_inv h i HI). now destruct (get_wrapper h i) as [h1 [?|?]].
  - pose proof (get_view_inv h i name tags kd HI). now destruct (get_view h i name tags kd) as [h1 [?|?]].
  - now apply assign_inv.
  - now rewrite set_view_heap.
  - unfold iadd_view. pose proof (get_view_inv h i name tags kd HI) as H1.
    destruct (get_view h i name tags kd) as [h1 [vh|e]]; [|exact H1]. cbn [fst] in H1.
    pose proof (edit_inv h1 (fst vh) (VExtend (snd vh) xs) H1) as H2.
    destruct (edit h1 (fst vh) (VExtend (snd vh) xs)) as [h2 [r|e]]; [|exact H2]. cbn [fst] in H2.
    now rewrite set_view_heap.
  - unfold iadd_raw. pose proof (get_wrapper_inv h i HI) as H1.
    destruct (get_wrapper h i) as [h1 [w|e]]; [|exact H1]. cbn [fst] in H1.
    pose proof (edit_inv h1 w (RExtend xs) H1) as H2.
    destruct (edit h1 w (RExtend xs)) as [h2 [r|e]]; [|exact H2]. cbn [fst] in H2.
    now apply assign_inv.
  - now apply edit_inv.
  - now apply copy_inv.
Qed.

Theorem wrun_inv : forall ops h, Inv h -> Inv (wrun VRepaired h ops).
Proof. induction ops as [|o ops IH]; intros h HI; cbn [wrun]; [exact HI|]. apply IH. now apply wstep_inv. Qed.

(* a parsed document satisfies the invariant *)
Lemma fresh_insts_lookup : forall its k i ins, lookup i (fresh_insts its k) = Some ins ->
  k <= i < k + zlen its /\ i_field ins = i /\ i_wrapper ins = None /\ i_views ins = [].
Proof.
  induction its as [|l its IH]; intros k i ins; cbn [fresh_insts lookup]; [discriminate|].
  destruct (Z.eqb_spec k i) as [->|Hne]; intros H.
  - inversion H; subst. cbn [i_field i_wrapper i_views]. rewrite zlen_cons. pose proof (zlen_nonneg its) as Hz. repeat split; lia.
  - apply IH in H. rewrite zlen_cons. destruct H as (Hb & Hr). split; [lia|exact Hr].
Qed.
Lemma fresh_reps_lookup : forall its k r, k <= r < k + zlen its ->
  exists R, lookup r (fresh_reps its k) = Some R /\ r_spans R = false /\ r_live R = true.
Proof.
  induction its as [|l its IH]; intros k r; cbn [fresh_reps lookup].
  - cbn [zlen length Z.of_nat]. lia.
  - rewrite zlen_cons. intros Hb. destruct (Z.eqb_spec k r) as [->|Hne].
    + eexists. split; [reflexivity|]. now split.
    + apply IH. lia.
Qed.
Lemma fresh_reps_bound : forall its k r R, lookup r (fresh_reps its k) = Some R -> k <= r < k + zlen its.
Proof.
  induction its as [|l its IH]; intros k r R; cbn [fresh_reps lookup]; [discriminate|].
  rewrite zlen_cons. pose proof (zlen_nonneg its) as Hz. destruct (Z.eqb_spec k r) as [->|Hne]; intros H; [lia|].
  apply IH in H. lia.
Qed.

Lemma init_inv its : Inv (init_heap its).
Proof.
  unfold init_heap. repeat split.
  - intros w W H. cbn in H. discriminate.
  - intros w1 w2 W1 W2 H. cbn in H. discriminate.
  - intros i ins Hi. cbn [h_insts h_wrps] in *. destruct (fresh_insts_lookup _ _ _ _ Hi) as (_ & _ & Hw & _).
    rewrite Hw. intros w W H. cbn in H. discriminate.
  - intros i ins nv Hi Hin. cbn [h_insts] in *. destruct (fresh_insts_lookup _ _ _ _ Hi) as (_ & _ & _ & Hv).
    rewrite Hv in Hin. destruct Hin.
  - intros i j ins jns Hi Hj Hr. cbn [h_insts] in *.
    destruct (fresh_insts_lookup _ _ _ _ Hi) as (_ & Hfi & _). destruct (fresh_insts_lookup _ _ _ _ Hj) as (_ & Hfj & _). congruence.
  - intros i ins Hi. cbn [h_insts h_reps] in *. destruct (fresh_insts_lookup _ _ _ _ Hi) as (Hb & Hfi & _).
    rewrite Hfi. apply fresh_reps_lookup. exact Hb.
  - intros r R H. cbn [h_reps h_next] in *. apply fresh_reps_bound in H. lia.
  - intros w W H. cbn in H. discriminate.
Qed.

(* ==== (2) views follow the field ============================================================================
   Agree: every view cached in an instance was built on the wrapper the instance caches, that wrapper wraps the
   Repeated the instance's field holds, and every handler cache registered on it is exact for that list. *)
Definition Agree (h : heap) : Prop := forall i ins nv,
  lookup i (h_insts h) = Some ins -> In nv (i_views ins) ->
  exists W R, i_wrapper ins = Some (fst (snd nv)) /\ lookup (fst (snd nv)) (h_wrps h) = Some W
    /\ w_rep W = i_field ins /\ lookup (i_field ins) (h_reps h) = Some R
    /\ Forall (ViewInv (r_items R)) (w_views W).

Lemma inv_agree h : Inv h -> Agree h.
Proof.
  inv_intro. intros i ins nv Hi Hin. pose proof (Hv _ _ _ Hi Hin) as Hcw.
  pose proof (Hc _ _ Hi) as Hci. rewrite Hcw in Hci. destruct Hci as (W & HW & Hr).
  destruct (Hw _ _ HW) as (R & HR & HA). exists W, R. rewrite <- Hr. repeat split; assumption.
Qed.

Lemma lookup_In {A} (k : Z) (a : A) : forall l, lookup k l = Some a -> In (k, a) l.
Proof.
  induction l as [|[k0 a0] l IH]; cbn [lookup]; [discriminate|].
  destruct (Z.eqb_spec k0 k) as [->|Hne]; intros H; [inversion H; now left|right; now apply IH].
Qed.

Lemma assign_ok_spec h i w h' r :
  assign VRepaired h i w = (h', Ok r) ->
  exists ins', lookup i (h_insts h') = Some ins' /\ i_wrapper ins' = Some w
    /\ (forall W, lookup w (h_wrps h) = Some W -> i_field ins' = w_rep W).
Proof.
  unfold assign. destruct (lookup i (h_insts h)) as [ins|]; [|discriminate].
  destruct (lookup w (h_wrps h)) as [W|]; [|discriminate].
  destruct (replace_rep h (i_field ins) (w_rep W)) as [h1 [u|e]]; [|discriminate].
  inversion 1; subst. cbn [set_insts h_insts]. rewrite lookup_upd_same. eexists. split; [reflexivity|].
  cbn [set_cache set_field i_wrapper i_field]. split; [reflexivity|]. intros W0 H0. now inversion H0.
Qed.

Lemma get_view_cached h i name tags kd h1 vh :
  get_view h i name tags kd = (h1, Ok vh) ->
  exists ins1, lookup i (h_insts h1) = Some ins1 /\ lookup name (i_views ins1) = Some vh
    /\ (Inv h -> i_wrapper ins1 = Some (fst vh)).
Proof.
  unfold get_view. destruct (lookup i (h_insts h)) as [ins|] eqn:Ei; [|discriminate].
  destruct (lookup name (i_views ins)) as [vh0|] eqn:En.
  - inversion 1; subst. exists ins. repeat split; try assumption.
    intros (_ & _ & _ & Hv & _). exact (Hv _ _ _ Ei (lookup_In _ _ _ En)).
  - destruct (get_wrapper h i) as [h0 [w|e]] eqn:Eg; [|discriminate].
    destruct (get_wrapper_spec _ _ _ _ Eg) as (ins1 & Hi1 & Hw1 & _).
    destruct (lookup w (h_wrps h0)) as [W|]; [|discriminate]. rewrite Hi1.
    destruct (lookup (w_rep W) (h_reps h0)) as [R|]; [|discriminate].
    inversion 1; subst. cbn [h_insts]. rewrite lookup_upd_same. eexists. split; [reflexivity|].
    cbn [i_views i_wrapper fst]. rewrite lookup_upd_same. split; [reflexivity|]. intros _. exact Hw1.
Qed.

Theorem whole_field_views_follow :
  (* after every history on a parsed document (reads, whole-field assignments accepted or refused, +=, list edits
     through every wrapper and view object ever obtained, deep copies) *)
  (forall its ops, Agree (wrun VRepaired (init_heap its) ops))
  (* an accepted assignment: the assigned wrapper is the cached one, it wraps the field, no cached view built on the
     replaced wrapper survives, and this stays so for every later history *)
  /\ (forall h i w h' r, Inv h -> assign VRepaired h i w = (h', Ok r) ->
        exists ins', lookup i (h_insts h') = Some ins' /\ i_wrapper ins' = Some w
          /\ (forall W, lookup w (h_wrps h) = Some W -> i_field ins' = w_rep W)
          /\ (forall nv, In nv (i_views ins') -> fst (snd nv) = w)
          /\ forall ops, Agree (wrun VRepaired h' ops))
  (* a view obtained at any moment is cached under its name and built on the wrapper cached at that moment *)
  /\ (forall h i name tags kd h' vh, Inv h -> get_view h i name tags kd = (h', Ok vh) ->
        exists ins', lookup i (h_insts h') = Some ins' /\ lookup name (i_views ins') = Some vh
          /\ i_wrapper ins' = Some (fst vh)).
Proof.
  split; [|split].
  - intros its ops. apply inv_agree, wrun_inv, init_inv.
  - intros h i w h' r HI Ha. pose proof (assign_inv h i w HI) as HI'. rewrite Ha in HI'. cbn [fst] in HI'.
    destruct (assign_ok_spec _ _ _ _ _ Ha) as (ins' & Hi' & Hw' & Hf').
    exists ins'. repeat split; try assumption.
    + intros nv Hin. destruct HI' as (_ & _ & _ & Hv & _). pose proof (Hv _ _ _ Hi' Hin) as Hx. congruence.
    + intros ops. now apply inv_agree, wrun_inv.
  - intros h i name tags kd h' vh HI Hg. destruct (get_view_cached _ _ _ _ _ _ _ Hg) as (ins1 & H1 & H2 & H3).
    exists ins1. repeat split; auto.
Qed.

(* ==== (3) `x.view += xs` is extend; the assignment that follows is a no-op ================================== *)
Theorem iadd_is_extend :
  (forall h i name tags kd xs,
     iadd_view VRepaired h i name tags kd xs =
     match get_view h i name tags kd with
     | (h1, Err e) => (h1, Err e)
     | (h1, Ok vh) => match edit h1 (fst vh) (VExtend (snd vh) xs) with
                      | (h2, Err e) => (h2, Err e)
                      | (h2, Ok _) => (h2, Ok RNone)
                      end
     end)
  /\ (forall h i xs, Inv h ->
        iadd_raw VRepaired h i xs =
        match get_wrapper h i with
        | (h1, Err e) => (h1, Err e)
        | (h1, Ok w) => match edit h1 w (RExtend xs) with
                        | (h2, Err e) => (h2, Err e)
                        | (h2, Ok _) => (h2, Ok RNone)
                        end
        end).
Proof.
  split.
  - intros h i name tags kd xs. unfold iadd_view.
    destruct (get_view h i name tags kd) as [h1 [vh|e]] eqn:Eg; [|reflexivity].
    destruct (get_view_cached _ _ _ _ _ _ _ Eg) as (ins1 & Hi1 & Hn1 & _).
    destruct (edit h1 (fst vh) (VExtend (snd vh) xs)) as [h2 [r|e]] eqn:Ee; [|reflexivity].
    destruct (edit_frame _ _ _ _ _ Ee) as (Hins & _).
    unfold set_view. rewrite Hins, Hi1, Hn1. unfold vh_eqb. now rewrite Z.eqb_refl, Nat.eqb_refl.
  - intros h i xs HI. unfold iadd_raw.
    pose proof (get_wrapper_inv h i HI) as HI1.
    destruct (get_wrapper h i) as [h1 [w|e]] eqn:Eg; [|reflexivity]. cbn [fst] in HI1.
    destruct (get_wrapper_spec _ _ _ _ Eg) as (ins1 & Hi1 & Hw1 & _).
    pose proof (edit_inv h1 w (RExtend xs) HI1) as HI2.
    destruct (edit h1 w (RExtend xs)) as [h2 [r|e]] eqn:Ee; [|reflexivity]. cbn [fst] in HI2.
    destruct (edit_frame _ _ _ _ _ Ee) as (Hins & _).
    assert (Hi2 : lookup i (h_insts h2) = Some ins1) by (now rewrite Hins).
    pose proof HI2 as (_ & _ & Hc & _). pose proof (Hc _ _ Hi2) as Hci. rewrite Hw1 in Hci.
    destruct Hci as (W2 & HW2 & Hr2).
    exact (assign_self_noop h2 i w ins1 W2 HI2 Hi2 HW2 (eq_sym Hr2)).
Qed.

(* ==== (4) the deep copy of a wrapper is independent of the original ========================================== *)
(* two different wrappers of a reachable heap never share a Repeated, and a list operation through one of them
   (or through any view registered on it) leaves the other wrapper - its handler caches - and its list untouched *)
Theorem wrappers_independent h w1 w2 W1 W2 o :
  Inv h -> lookup w1 (h_wrps h) = Some W1 -> lookup w2 (h_wrps h) = Some W2 -> w1 <> w2 ->
  w_rep W1 <> w_rep W2
  /\ lookup w2 (h_wrps (fst (edit h w1 o))) = Some W2
  /\ lookup (w_rep W2) (h_reps (fst (edit h w1 o))) = lookup (w_rep W2) (h_reps h).
Proof.
  intros HI H1 H2 Hne. pose proof HI as (_ & Ho & _).
  assert (Hr : w_rep W1 <> w_rep W2) by (intros Hx; apply Hne; exact (Ho _ _ _ _ H1 H2 Hx)).
  destruct (edit h w1 o) as [h' r] eqn:Ee. cbn [fst].
  destruct (edit_frame _ _ _ _ _ Ee) as (_ & _ & Hfw & Hfr).
  split; [exact Hr|]. split.
  - rewrite Hfw by congruence. exact H2.
  - apply (Hfr _ H1). congruence.
Qed.

Theorem wrapper_copy_independent h w h' w' :
  Inv h -> copy_wrapper VRepaired h w = (h', Ok (RW w')) ->
  Inv h'
  /\ exists W R W' R',
       lookup w (h_wrps h) = Some W /\ lookup (w_rep W) (h_reps h) = Some R
       /\ lookup w (h_wrps h') = Some W /\ lookup (w_rep W) (h_reps h') = Some R
       /\ lookup w' (h_wrps h') = Some W' /\ lookup (w_rep W') (h_reps h') = Some R'
       /\ w' <> w /\ w_rep W' <> w_rep W
       /\ w_views W' = [] /\ w_inter W' = false /\ r_items R' = r_items R /\ r_spans R' = true /\ r_live R' = true.
Proof.
  intros HI Hcp. pose proof (copy_inv h w HI) as HI'. rewrite Hcp in HI'. cbn [fst] in HI'. split; [exact HI'|].
  unfold copy_wrapper in Hcp.
  destruct (lookup w (h_wrps h)) as [W|] eqn:EW; [|discriminate].
  destruct (lookup (w_rep W) (h_reps h)) as [R|] eqn:ER; [|discriminate].
  destruct (negb (r_live R)); [discriminate|]. inversion Hcp; subst. cbn [h_wrps h_reps].
  pose proof (wrapper_rep_bound _ _ _ HI EW) as Hb. pose proof HI as (_ & _ & _ & _ & _ & _ & _ & Hb2).
  pose proof (Hb2 _ _ EW) as Hbw.
  exists W, R, (mkwrp (h_next h) false []), (mkrep (r_items R) true true).
  cbn [w_rep w_views w_inter r_items r_spans r_live]. rewrite !lookup_upd_same.
  rewrite !lookup_upd_other by lia. repeat split; try assumption; try reflexivity; lia.
Qed.

(* ==== the variants do not have the properties ================================================================ *)
Definition ex_its : list (list elem * bool) :=
  [([mkelem 1 0 1; mkelem 2 0 2], false); ([mkelem 2 0 3; mkelem 1 0 4], false)].
(* instance 0 has read tags (view (2,0)) and links (view (2,1)) on its wrapper 2; instance 1's wrapper is 3 *)
Definition ex_read : list wop := [WGetView 0 1 [1] KString; WGetView 0 2 [2] KString; WGetWrapper 1].

(* seeded C19-m5: the refusal comes after the cache was replaced and the views were dropped *)
Theorem cache_first_refused_not_atomic :
  exists h i w h', Inv h /\ assign VCacheFirst h i w = (h', Err ValueError) /\ h' <> h
    /\ exists ins ins', lookup i (h_insts h) = Some ins /\ lookup i (h_insts h') = Some ins'
         /\ i_field ins' = i_field ins /\ i_wrapper ins' = Some w /\ i_wrapper ins <> Some w
         /\ i_views ins <> [] /\ i_views ins' = [].
Proof.
  exists (wrun VRepaired (init_heap ex_its) ex_read), 0, 3. eexists.
  split; [apply wrun_inv, init_inv|]. split; [vm_compute; reflexivity|]. split; [vm_compute; discriminate|].
  eexists. eexists. vm_compute. repeat split; try reflexivity; discriminate.
Qed.

(* seeded C10-m3: only the first stale view is dropped; the second stays cached, built on the replaced wrapper *)
Theorem drop_first_refuted : exists its ops, ~ Agree (wrun VDropFirst (init_heap its) ops).
Proof.
  exists ex_its, (ex_read ++ [WCopy 3; WAssign 0 5]). intros H.
  destruct (H 0 (mkinst 4 false (Some 5) [(2, (2, 1%nat))]) (2, (2, 1%nat))) as (W & R & Hw & _);
    [vm_compute; reflexivity | now left | cbn in Hw; discriminate Hw].
Qed.
(* as found (before fixes/repeated-property-set-keeps-views.patch): every cached view stays *)
Theorem keep_views_refuted : exists its ops, ~ Agree (wrun VKeepViews (init_heap its) ops).
Proof.
  exists ex_its, (ex_read ++ [WCopy 3; WAssign 0 5]). intros H.
  destruct (H 0 (mkinst 4 false (Some 5) [(1, (2, 0%nat)); (2, (2, 1%nat))]) (1, (2, 0%nat))) as (W & R & Hw & _);
    [vm_compute; reflexivity | now left | cbn in Hw; discriminate Hw].
Qed.
(* the same history on the code as it stands *)
Example repaired_instance : Agree (wrun VRepaired (init_heap ex_its) (ex_read ++ [WCopy 3; WAssign 0 5]))
  /\ lookup 0 (h_insts (wrun VRepaired (init_heap ex_its) (ex_read ++ [WCopy 3; WAssign 0 5])))
     = Some (mkinst 4 false (Some 5) []).
Proof. split; [apply inv_agree, wrun_inv, init_inv|vm_compute; reflexivity]. Qed.

(* seeded C11-m10: the "copy" of an empty list wraps the original Repeated: an append through the copy lands in the
   original's list and the original's views are not told *)
Theorem share_empty_copy_refuted :
  exists its ops, ~ Agree (wrun VShareEmptyCopy (init_heap its) ops)
    /\ exists W W', lookup 1 (h_wrps (wrun VShareEmptyCopy (init_heap its) ops)) = Some W
         /\ lookup 2 (h_wrps (wrun VShareEmptyCopy (init_heap its) ops)) = Some W' /\ w_rep W' = w_rep W.
Proof.
  exists [([], false)], [WGetView 0 1 [1] KString; WCopy 1; WEdit 2 (RAppend (mkelem 1 0 9))]. split.
  - intros H.
    destruct (H 0 (mkinst 0 false (Some 1) [(1, (1, 0%nat))]) (1, (1, 0%nat))) as (W & R & _ & HW & _ & HR & HF);
      [vm_compute; reflexivity | now left |].
    vm_compute in HW, HR. inversion HW; subst W. inversion HR; subst R.
    inversion HF as [|v l Hbad Hl]. vm_compute in Hbad. discriminate Hbad.
  - eexists. eexists. vm_compute. repeat split; reflexivity.
Qed.

(* as found: `x.view += xs` extended the list and then raised NotImplementedError *)
Theorem iadd_raises_refuted :
  exists h i name tags kd xs h2, iadd_view VIaddRaises h i name tags kd xs = (h2, Err NotImplementedErr) /\ h2 <> h.
Proof.
  exists (init_heap ex_its), 0, 1, [1], KString, [mkelem 1 0 7]. eexists.
  split; [vm_compute; reflexivity|vm_compute; discriminate].
Qed.
