(* C19 for the comment calls: "comments that cannot be found" is refused with nothing written. *)
From AB Require Import Prelude Comments CommentsRange CommentsProofs CommentsOwn CommentsRestore CommentsComplete.
From Coq Require Import Permutation.

Lemma unclaim_inter_refused : forall d items flt e d',
  unclaim_inter d items flt = (Err e, d') -> d' = d /\ e = ValueError.
Proof.
  intros d items flt e d' H. unfold unclaim_inter in H.
  destruct (unclaim_scan items flt (match flt with None => true | Some _ => false end)) as [[k u] s'].
  destruct (negb (match flt with None => true | Some _ => false end) && cs_nonempty s'); inversion H; subst; split; reflexivity.
Qed.

Lemma claimer_claim_refused : forall d ph items mf ml flt e d',
  NoDup (ids d) -> has_tok_b d ph = true -> items_ordered_b d ph items = true ->
  claimer_claim d ph items mf ml flt = (Err e, d') -> d' = d /\ e = ValueError.
Proof.
  intros d ph items mf ml flt e d' ND HT ORD H.
  destruct (claimer_claim_total d ph items mf ml flt ND HT ORD)
    as (wb & wa & cb_rev & s1 & inner & s2 & ca & s3 & _ & _ & _ & _ & _ & T).
  cbv zeta in T. destruct (cs_nonempty s3).
  - rewrite T in H. inversion H; subst. split; reflexivity.
  - destruct T as (d2 & _ & T). rewrite T in H. discriminate H.
Qed.

(* non-vacuity: a selective unclaim naming a comment that is no entry of the list is refused *)
Example unclaim_refusal_happens :
  exists d items, fst (unclaim_inter d items (Some [99])) = Err ValueError.
Proof. exists [], []. vm_compute. reflexivity. Qed.
