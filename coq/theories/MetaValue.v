(* C09 model: models/meta_value_internal.py (the `value` property of MetaItem; pushmeta/popmeta use the same)
     optional_meta_value_property.__get__ / __set__, update_value, from_value
   on top of internal/properties.py optional_node_property.__set__ / replace_node for the slot itself.

   No proofs here.  A raw model is an object identity plus its content (token text, or NumExpr.v's expression
   tree); Python-level values are a small universe with the isinstance tests the `match` statements make, in their
   order.  The arithmetic carrier and the token codecs are Section variables (C13 / C12). *)
From AB Require Import Prelude NumExpr.

(* MetaRawValue = Account | Amount | Bool | Currency | Date | EscapedString | Null | NumberExpr | Tag *)
Inductive content :=
| RString (raw : str) | RDate (raw : str) | RNumber (e : add) | RBool (raw : str)
| RAccount (raw : str) | RCurrency (raw : str) | RTag (raw : str) | RNull (raw : str)
| RAmount (e : add) (cur : str).
Record rawm := RM { rm_id : Z; rm_c : content }.

Definition date := (Z * Z * Z)%type.
(* MetaValue | MetaRawValue | None.  A datetime.datetime IS a datetime.date; a bool is no str/date/Decimal. *)
Inductive mval (D : Type) :=
| MNone | MStr (s : str) | MDate (d : date) | MDateTime (d : date) (time : Z) | MDec (d : D) | MBool (b : bool)
| MRaw (r : rawm).
Arguments MNone {D}.
Arguments MStr {D} s.
Arguments MDate {D} d.
Arguments MDateTime {D} d time.
Arguments MDec {D} d.
Arguments MBool {D} b.
Arguments MRaw {D} r.

Section Meta.
  Variable D : Type.
  Variables dadd dsub dmul ddiv : D -> D -> D.
  Variables dneg dabs : D -> D.
  Variable dltz : D -> bool.
  Variable num_value : str -> D.
  Variable num_text : D -> str.
  Variable str_text : str -> str.     Variable str_value : str -> str.
  Variable date_text : date -> str.   Variable date_value : str -> date.
  Variable bool_text : bool -> str.   Variable bool_value : str -> bool.

  Definition isinstance_str (v : mval D) : bool := match v with MStr _ => true | _ => false end.
  Definition isinstance_date (v : mval D) : bool := match v with MDate _ | MDateTime _ _ => true | _ => false end.
  Definition isinstance_decimal (v : mval D) : bool := match v with MDec _ => true | _ => false end.
  Definition isinstance_bool (v : mval D) : bool := match v with MBool _ => true | _ => false end.

  Definition is_string (r : option rawm) : bool := match r with Some (RM _ (RString _)) => true | _ => false end.
  Definition is_date (r : option rawm) : bool := match r with Some (RM _ (RDate _)) => true | _ => false end.
  Definition is_number (r : option rawm) : bool := match r with Some (RM _ (RNumber _)) => true | _ => false end.
  Definition is_bool (r : option rawm) : bool := match r with Some (RM _ (RBool _)) => true | _ => false end.

  (* the content a token model / NumberExpr has after `m.value = v` (= what X.from_value(v) is made of) *)
  Definition content_of (v : mval D) : content :=
    match v with
    | MStr s => RString (str_text s)
    | MDate d | MDateTime d _ => RDate (date_text d)          (* _format_value reads .year .month .day *)
    | MDec d => RNumber (add_expr_from_value D dabs dltz num_text d)
    | MBool b => RBool (bool_text b)
    | MNone => RNull []                                       (* not reached *)
    | MRaw r => rm_c r                                        (* not reached *)
    end.

  (* __get__:  if isinstance(raw_value, EscapedString | Date | NumberExpr | Bool): return raw_value.value
               return raw_value *)
  Definition get (slot : option rawm) : mval D :=
    match slot with
    | None => MNone
    | Some r =>
      match rm_c r with
      | RString s => MStr (str_value s)
      | RDate s => MDate (date_value s)
      | RNumber e => MDec (vadd D dadd dsub dmul ddiv dneg num_value e)
      | RBool s => MBool (bool_value s)
      | _ => MRaw r
      end
    end.

  (* update_value(raw_value, value) -> bool; the raw model (same object) afterwards:
       case EscapedString(), str() / case Date(), datetime.date() / case NumberExpr(), decimal.Decimal() /
       case Bool(), bool() / case _: return False *)
  Definition with_content (r : option rawm) (c : content) : option rawm :=
    match r with Some m => Some (RM (rm_id m) c) | None => None end.
  Definition update_value (raw_value : option rawm) (v : mval D) : option rawm * bool :=
    if is_string raw_value && isinstance_str v then (with_content raw_value (content_of v), true)
    else if is_date raw_value && isinstance_date v then (with_content raw_value (content_of v), true)
    else if is_number raw_value && isinstance_decimal v then (with_content raw_value (content_of v), true)
    else if is_bool raw_value && isinstance_bool v then (with_content raw_value (content_of v), true)
    else (raw_value, false).

  (* from_value(value): case str() / case datetime.date() / case decimal.Decimal() / case bool(); return value.
     A new model takes the identity `fresh`. *)
  Definition from_value (fresh : Z) (v : mval D) : option rawm :=
    if isinstance_str v then Some (RM fresh (content_of v))
    else if isinstance_date v then Some (RM fresh (content_of v))
    else if isinstance_decimal v then Some (RM fresh (content_of v))
    else if isinstance_bool v then Some (RM fresh (content_of v))
    else match v with MRaw r => Some r | _ => None end.

  (* optional_node_property.__set__(instance, value): create / remove / replace_node(current, value).
     `detachable`: value.detach() would accept (it spans its own store).  replace_node returns early when
     `node is repl`. *)
  Definition node_set (current value : option rawm) (detachable : bool) : res (option rawm) :=
    match current, value with
    | None, Some _ => if detachable then Ok value else Err ValueError
    | Some _, None => Ok None
    | Some c, Some r => if rm_id c =? rm_id r then Ok value
                        else if detachable then Ok value else Err ValueError
    | None, None => Ok None
    end.

  (* __set__:  current_raw = inner.__get__(instance)
               if not update_value(current_raw, value): inner.__set__(instance, from_value(value))
     -> the slot afterwards (unchanged when refused) and the outcome *)
  Definition set (slot : option rawm) (v : mval D) (fresh : Z) (detachable : bool) : option rawm * res unit :=
    let current_raw := slot in
    let '(updated, ok) := update_value current_raw v in
    if ok then (updated, Ok tt)
    else match node_set current_raw (from_value fresh v) (match v with MRaw _ => detachable | _ => true end) with
         | Ok s => (s, Ok tt)
         | Err e => (slot, Err e)
         end.
End Meta.
