(* Every class extracted from models/generated/*.py on this run is an instance of the generic
   scheme. Finite domain (the extracted class list), so vm_compute is a proof; the bound is
   `length classes`. *)
From AB Require Import Desc Generated.

Definition bad_classes : list string :=
  map c_name (filter (fun c => negb (wf_desc c)) classes).

Lemma generated_wf : forallb wf_desc classes = true.
Proof. vm_compute. reflexivity. Qed.

Lemma generated_wf_each : forall c, In c classes -> wf_desc c = true.
Proof. apply forallb_forall. exact generated_wf. Qed.
