(* The representation invariant of the token store and the abstraction to a plain list, with the
   list-level and projection lemmas every later file uses. *)
From AB Require Export StoreLib.
From Coq Require Import ZifyBool.

(* ---------- lists ---------- *)
Lemma zlen_nonneg {A} (l : list A) : 0 <= zlen l. Proof. unfold zlen; lia. Qed.
Lemma zlen_app {A} (a b : list A) : zlen (a ++ b) = zlen a + zlen b.
Proof. unfold zlen. rewrite app_length. lia. Qed.
Lemma zlen_cons {A} (x : A) l : zlen (x :: l) = 1 + zlen l.
Proof. unfold zlen. cbn [length]. lia. Qed.
Lemma zlen_nil {A} : zlen (@nil A) = 0. Proof. reflexivity. Qed.
Lemma zfirstn_nat {A} n (l : list A) : zfirstn (Z.of_nat n) l = firstn n l.
Proof. unfold zfirstn. rewrite Nat2Z.id. reflexivity. Qed.
Lemma zskipn_nat {A} n (l : list A) : zskipn (Z.of_nat n) l = skipn n l.
Proof. unfold zskipn. rewrite Nat2Z.id. reflexivity. Qed.
Lemma zfirstn_to_nat {A} z (l : list A) : zfirstn z l = firstn (Z.to_nat z) l. Proof. reflexivity. Qed.
Lemma zskipn_to_nat {A} z (l : list A) : zskipn z l = skipn (Z.to_nat z) l. Proof. reflexivity. Qed.

Lemma py_nth_nat {A} (l : list A) n : (n < length l)%nat -> py_nth l (Z.of_nat n) = nth_error l n.
Proof.
  intro H. unfold py_nth.
  destruct (Z.leb_spec 0 (Z.of_nat n)); [|lia]. destruct (Z.ltb_spec (Z.of_nat n) (Z.of_nat (length l))); [|lia].
  cbn. rewrite Nat2Z.id. reflexivity.
Qed.

Lemma list_setslice_nat {A} (l x : list A) a b : (a <= b <= length l)%nat ->
  list_setslice l (Z.of_nat a) (Z.of_nat b) x = firstn a l ++ x ++ skipn b l.
Proof.
  intro H. unfold list_setslice, zlen.
  replace (Z.min (Z.max (Z.of_nat a) 0) (Z.of_nat (length l))) with (Z.of_nat a) by lia.
  replace (Z.max (Z.of_nat a) (Z.min (Z.max (Z.of_nat b) 0) (Z.of_nat (length l)))) with (Z.of_nat b) by lia.
  rewrite zfirstn_nat, zskipn_nat. reflexivity.
Qed.

Lemma list_pop_nat {A} (l : list A) i : (i < length l)%nat ->
  list_pop l (Z.of_nat i) = Some (firstn i l ++ skipn (S i) l).
Proof.
  intro H. unfold list_pop, zlen.
  destruct (Z.ltb_spec (Z.of_nat i) 0); [lia|].
  destruct (Z.leb_spec 0 (Z.of_nat i)); [|lia].
  destruct (Z.ltb_spec (Z.of_nat i) (Z.of_nat (length l))); [|lia].
  cbn. rewrite zfirstn_nat. replace (Z.of_nat i + 1) with (Z.of_nat (S i)) by lia. rewrite zskipn_nat. reflexivity.
Qed.

Lemma nth_error_split_at {A} (l : list A) i a : nth_error l i = Some a ->
  l = firstn i l ++ a :: skipn (S i) l /\ length (firstn i l) = i.
Proof.
  revert i. induction l as [|x r IH]; intros i H; [destruct i; discriminate|].
  destruct i as [|i]; cbn in *.
  - injection H as ->. auto.
  - destruct (IH i H) as [E L]. rewrite L. split; [f_equal; exact E|reflexivity].
Qed.

Lemma nth_error_firstn_lt {A} (l : list A) n i : (i < n)%nat -> nth_error (firstn n l) i = nth_error l i.
Proof.
  revert n i. induction l as [|x r IH]; intros n i H; [rewrite firstn_nil; reflexivity|].
  destruct n; [lia|]. destruct i; cbn; [reflexivity|]. apply IH. lia.
Qed.
Lemma nth_error_skipn_add {A} (l : list A) n i : nth_error (skipn n l) i = nth_error l (n + i).
Proof.
  revert l. induction n as [|n IH]; intro l; [reflexivity|]. destruct l; cbn; [destruct i; reflexivity|apply IH].
Qed.
Lemma nth_error_app_mid {A} (a b : list A) x : nth_error (a ++ x :: b) (length a) = Some x.
Proof. rewrite nth_error_app2 by lia. rewrite Nat.sub_diag. reflexivity. Qed.
Lemma nth_error_in_len {A} (l : list A) i x : nth_error l i = Some x -> (i < length l)%nat.
Proof. intro H. apply nth_error_Some. rewrite H. discriminate. Qed.

Lemma in_firstn {A} n (l : list A) x : In x (firstn n l) -> In x l.
Proof. intro H. rewrite <- (firstn_skipn n l). apply in_or_app. auto. Qed.
Lemma in_skipn {A} n (l : list A) x : In x (skipn n l) -> In x l.
Proof. intro H. rewrite <- (firstn_skipn n l). apply in_or_app. auto. Qed.

Lemma NoDup_app_iff {A} (a b : list A) :
  NoDup (a ++ b) <-> NoDup a /\ NoDup b /\ (forall x, In x a -> ~ In x b).
Proof.
  induction a as [|x r IH]; cbn [app].
  - split; [intro H; repeat split; [constructor|assumption|intros ? []]|intros (_ & H & _); assumption].
  - split.
    + intro H. inversion H as [|? ? Hx Hr]; subst. apply IH in Hr as (Ha & Hb & Hd).
      repeat split; [constructor; [intro; apply Hx; apply in_or_app; auto|assumption]|assumption|].
      intros y [<-|Hy] Hb'; [apply Hx; apply in_or_app; auto|exact (Hd y Hy Hb')].
    + intros (Ha & Hb & Hd). inversion Ha as [|? ? Hx Hr]; subst. constructor.
      * intro H. apply in_app_or in H as [H|H]; [contradiction|]. exact (Hd x (in_eq _ _) H).
      * apply IH. repeat split; [assumption|assumption|]. intros y Hy. apply Hd. apply in_cons; assumption.
Qed.

Lemma flat_map_length_firstn_le {A B} (f : A -> list B) l i :
  (length (flat_map f (firstn i l)) <= length (flat_map f l))%nat.
Proof.
  rewrite <- (firstn_skipn i l) at 2. rewrite flat_map_app, app_length. lia.
Qed.

Lemma nth_error_flat_map {A B} (f : A -> list B) l : forall k x,
  nth_error (flat_map f l) k = Some x <->
  exists i a j, nth_error l i = Some a /\ nth_error (f a) j = Some x /\
                k = (length (flat_map f (firstn i l)) + j)%nat.
Proof.
  induction l as [|a r IH]; intros k x; cbn [flat_map].
  - split; [destruct k; discriminate|]. intros (i & a & j & H & _); destruct i; discriminate.
  - split.
    + intro H. destruct (Nat.lt_ge_cases k (length (f a))) as [L|L].
      * rewrite nth_error_app1 in H by assumption. exists 0%nat, a, k. cbn. auto.
      * rewrite nth_error_app2 in H by assumption. apply IH in H as (i & a' & j & H1 & H2 & H3).
        exists (S i), a', j. cbn [nth_error firstn flat_map]. rewrite app_length. repeat split; auto. lia.
    + intros (i & a' & j & H1 & H2 & ->). destruct i as [|i]; cbn [nth_error firstn flat_map] in *.
      * injection H1 as <-. cbn. rewrite nth_error_app1 by (eapply nth_error_in_len; eassumption). assumption.
      * rewrite app_length. rewrite nth_error_app2 by lia.
        apply IH. exists i, a', j. repeat split; auto. lia.
Qed.

(* ---------- abstraction and invariant ---------- *)
Definition toks (s : store) (b : positive) : list positive := b_toks (bget (s_heap s) b).
Definition abs (s : store) : list positive := flat_map (toks s) (s_blocks s).
(* the raw store_handle of a token, and the handle as this store sees it (_check_store_handle(token, self)):
   a token without a handle (free) and a token of another store (foreign) both have no place here *)
Definition raw (s : store) (t : positive) := t_handle (tget (s_toks s) t).
Definition hnd (s : store) (t : positive) : option (positive * Z) :=
  match raw s t with
  | Some (sid, b, j) => if Pos.eqb sid (s_id s) then Some (b, j) else None
  | None => None
  end.
Definition free (s : store) (t : positive) : Prop := raw s t = None.
Definition foreign (s : store) (t : positive) : Prop := exists sid b j, raw s t = Some (sid, b, j) /\ sid <> s_id s.
Definition txt (s : store) (t : positive) : str := t_text (tget (s_toks s) t).
Definition bsz (s : store) (b : positive) := b_size (bget (s_heap s) b).
Definition blnl (s : store) (b : positive) := b_lnl (bget (s_heap s) b).
Definition bidx (s : store) (b : positive) := b_index (bget (s_heap s) b).

Lemma abs_all_tokens s : all_tokens s = abs s. Proof. reflexivity. Qed.

Lemma check_handle_hnd s t : check_handle s t = match hnd s t with Some h => Ok h | None => Err ValueError end.
Proof.
  unfold check_handle, hnd, raw. destruct (t_handle (tget (s_toks s) t)) as [[[sid b] j]|]; [|reflexivity].
  destruct (Pos.eqb sid (s_id s)); reflexivity.
Qed.
Lemma hnd_raw s t b j : hnd s t = Some (b, j) <-> raw s t = Some (s_id s, b, j).
Proof.
  unfold hnd. destruct (raw s t) as [[[sid b'] j']|]; [|split; discriminate].
  destruct (Pos.eqb_spec sid (s_id s)) as [E|N].
  - subst sid. split; intro H; injection H as <- <-; reflexivity.
  - split; intro H; [discriminate|]. injection H as E _ _. contradiction.
Qed.
Lemma hnd_of_raw s t b j : raw s t = Some (s_id s, b, j) -> hnd s t = Some (b, j).
Proof. apply hnd_raw. Qed.
Lemma hnd_ext s s' t : s_id s' = s_id s -> raw s' t = raw s t -> hnd s' t = hnd s t.
Proof. intros E R. unfold hnd. rewrite E, R. reflexivity. Qed.
Lemma hnd_ext_tget s s' t : s_id s' = s_id s -> tget (s_toks s') t = tget (s_toks s) t -> hnd s' t = hnd s t.
Proof. intros E R. apply hnd_ext; [exact E|]. unfold raw. rewrite R. reflexivity. Qed.
Lemma free_hnd s t : free s t -> hnd s t = None.
Proof. unfold free, hnd. intros ->. reflexivity. Qed.
Lemma foreign_hnd s t : foreign s t -> hnd s t = None.
Proof.
  intros (sid & b & j & R & N). unfold hnd. rewrite R. destruct (Pos.eqb_spec sid (s_id s)); [contradiction|reflexivity].
Qed.
Lemma hnd_none_cases s t : hnd s t = None -> free s t \/ foreign s t.
Proof.
  unfold hnd, free, foreign. destruct (raw s t) as [[[sid b] j]|]; [|auto].
  destruct (Pos.eqb_spec sid (s_id s)); [discriminate|]. intros _. right. exists sid, b, j. auto.
Qed.

(* a block whose tokens point back at it and whose caches are what a fresh scan computes *)
Definition blk_ok (s : store) (b : positive) : Prop :=
  (forall j t, nth_error (toks s b) j = Some t -> hnd s t = Some (b, Z.of_nat j)) /\
  sizes_scan (s_toks s) 0 (toks s b) pos0 (-1) = (bsz s b, blnl s b).

(* invariant with the blocks in X exempted from the per-block facts (mid-operation states) *)
Record InvG (X : positive -> Prop) (s : store) : Prop := {
  g_ne : s_blocks s <> [];
  g_nd : NoDup (s_blocks s);
  g_lt : forall b, In b (s_blocks s) -> (b < s_next s)%positive;
  g_idx : forall i b, nth_error (s_blocks s) i = Some b -> bidx s b = Z.of_nat i;
  g_ndt : NoDup (abs s);
  g_ok : forall b, In b (s_blocks s) -> ~ X b -> blk_ok s b /\ (toks s b = [] -> s_blocks s = [b]);
  g_hin : forall t, hnd s t <> None -> In t (abs s);
  g_sz : forall t, tsz (s_toks s) t = token_size (txt s t)
}.
Definition Inv0 (s : store) : Prop := InvG (fun _ => False) s.
Definition Inv (s : store) : Prop := Inv0 s /\ s_len s = zlen (abs s).

Lemma InvG_weaken (X X' : positive -> Prop) s : (forall b, X b -> X' b) -> InvG X s -> InvG X' s.
Proof. intros H [? ? ? ? ? ? ? ?]. constructor; auto. Qed.

(* where a token of the abstract list lives *)
Lemma abs_locate s k t : nth_error (abs s) k = Some t <->
  exists i b j, nth_error (s_blocks s) i = Some b /\ nth_error (toks s b) j = Some t /\
                k = (length (flat_map (toks s) (firstn i (s_blocks s))) + j)%nat.
Proof. apply nth_error_flat_map. Qed.

Lemma in_abs s t : In t (abs s) <-> exists b, In b (s_blocks s) /\ In t (toks s b).
Proof. unfold abs. rewrite in_flat_map. reflexivity. Qed.

Lemma inv_handle_of s t : Inv0 s -> In t (abs s) ->
  exists i b j, nth_error (s_blocks s) i = Some b /\ nth_error (toks s b) j = Some t /\
                hnd s t = Some (b, Z.of_nat j) /\ bidx s b = Z.of_nat i.
Proof.
  intros I H. apply In_nth_error in H as [k H]. apply abs_locate in H as (i & b & j & Hb & Ht & _).
  exists i, b, j. repeat split; auto.
  - apply (g_ok _ _ I b); [eapply nth_error_In; eassumption|tauto|assumption].
  - apply (g_idx _ _ I); assumption.
Qed.

Lemma inv_handle_loc s t b j : Inv0 s -> hnd s t = Some (b, j) ->
  exists i, nth_error (s_blocks s) i = Some b /\ 0 <= j /\ nth_error (toks s b) (Z.to_nat j) = Some t /\
            bidx s b = Z.of_nat i.
Proof.
  intros I H. assert (In t (abs s)) as Hin by (apply (g_hin _ _ I); rewrite H; discriminate).
  destruct (inv_handle_of s t I Hin) as (i & b' & j' & Hb & Ht & Hh & Hi).
  rewrite H in Hh. injection Hh as -> ->. exists i. rewrite Nat2Z.id. repeat split; auto. lia.
Qed.

Lemma inv_free_not_in s t : Inv0 s -> hnd s t = None -> ~ In t (abs s).
Proof.
  intros I H Hin. destruct (inv_handle_of s t I Hin) as (i & b & j & _ & _ & Hh & _). congruence.
Qed.

Lemma tsz_line_nonneg X s t : InvG X s -> 0 <= line (tsz (s_toks s) t).
Proof. intro I. rewrite (g_sz _ _ I). apply token_size_line_nonneg. Qed.

(* ---------- projections of the primitive state updates ---------- *)
Lemma set_indexes_other bs : forall h i b, ~ In b bs -> bget (set_indexes h i bs) b = bget h b.
Proof.
  induction bs as [|x r IH]; intros h i b H; cbn [set_indexes]; [reflexivity|].
  rewrite IH by (intro; apply H; right; assumption).
  apply bget_add_other. intro; subst; apply H; left; reflexivity.
Qed.
Lemma set_indexes_fields bs : forall h i b,
  b_toks (bget (set_indexes h i bs) b) = b_toks (bget h b) /\
  b_size (bget (set_indexes h i bs) b) = b_size (bget h b) /\
  b_lnl (bget (set_indexes h i bs) b) = b_lnl (bget h b).
Proof.
  induction bs as [|x r IH]; intros h i b; cbn [set_indexes]; [auto|].
  destruct (IH (PositiveMap.add x (mkblk i (b_toks (bget h x)) (b_size (bget h x)) (b_lnl (bget h x))) h) (i + 1) b)
    as (-> & -> & ->).
  destruct (Pos.eq_dec b x) as [->|N]; [rewrite bget_add_same; auto|rewrite bget_add_other by assumption; auto].
Qed.
Lemma set_indexes_in bs : forall h i k b, NoDup bs -> nth_error bs k = Some b ->
  b_index (bget (set_indexes h i bs) b) = i + Z.of_nat k.
Proof.
  induction bs as [|x r IH]; intros h i k b ND H; [destruct k; discriminate|].
  inversion ND as [|? ? Hx ND']; subst. cbn [set_indexes]. destruct k as [|k]; cbn [nth_error] in H.
  - injection H as ->. rewrite set_indexes_other by assumption. rewrite bget_add_same. cbn. lia.
  - rewrite (IH _ _ k) by assumption. lia.
Qed.

Definition ubi := update_block_indexes.
Lemma ubi_blocks s i : s_blocks (update_block_indexes s i) = s_blocks s.
Proof. unfold update_block_indexes. destruct (i <? 0); reflexivity. Qed.
Lemma ubi_sid s i : s_id (update_block_indexes s i) = s_id s.
Proof. unfold update_block_indexes. destruct (i <? 0); reflexivity. Qed.
Lemma ubi_toksmap s i : s_toks (update_block_indexes s i) = s_toks s.
Proof. unfold update_block_indexes. destruct (i <? 0); reflexivity. Qed.
Lemma ubi_next s i : s_next (update_block_indexes s i) = s_next s.
Proof. unfold update_block_indexes. destruct (i <? 0); reflexivity. Qed.
Lemma ubi_len s i : s_len (update_block_indexes s i) = s_len s.
Proof. unfold update_block_indexes. destruct (i <? 0); reflexivity. Qed.
Lemma ubi_toks s i b : toks (update_block_indexes s i) b = toks s b.
Proof. unfold toks, update_block_indexes. destruct (i <? 0); cbn; apply set_indexes_fields. Qed.
Lemma ubi_bsz s i b : bsz (update_block_indexes s i) b = bsz s b.
Proof. unfold bsz, update_block_indexes. destruct (i <? 0); cbn; apply set_indexes_fields. Qed.
Lemma ubi_blnl s i b : blnl (update_block_indexes s i) b = blnl s b.
Proof. unfold blnl, update_block_indexes. destruct (i <? 0); cbn; apply set_indexes_fields. Qed.
Lemma ubi_hnd s i t : hnd (update_block_indexes s i) t = hnd s t.
Proof. unfold hnd, raw. rewrite ubi_toksmap, ubi_sid. reflexivity. Qed.

Lemma ubi_idx s i : NoDup (s_blocks s) ->
  (forall k b, (k < i)%nat -> nth_error (s_blocks s) k = Some b -> bidx s b = Z.of_nat k) ->
  forall k b, nth_error (s_blocks s) k = Some b -> bidx (update_block_indexes s (Z.of_nat i)) b = Z.of_nat k.
Proof.
  intros ND H k b Hk. unfold bidx, update_block_indexes.
  destruct (Z.ltb_spec (Z.of_nat i) 0); [lia|]. cbn [s_heap with_heap]. rewrite zskipn_nat.
  destruct (Nat.lt_ge_cases k i) as [L|L].
  - rewrite set_indexes_other; [apply H; assumption|].
    intro Hin. apply In_nth_error in Hin as [k' Hk']. rewrite nth_error_skipn_add in Hk'.
    rewrite NoDup_nth_error in ND. assert (k = (i + k')%nat); [|lia].
    apply ND; [eapply nth_error_in_len; eassumption|congruence].
  - rewrite (set_indexes_in _ _ _ (k - i)); [lia| |].
    + rewrite <- (firstn_skipn i (s_blocks s)) in ND. apply NoDup_app_iff in ND. tauto.
    + rewrite nth_error_skipn_add. replace (i + (k - i))%nat with k by lia. assumption.
Qed.

(* rebuild *)
Lemma rebuild_blocks s b : s_blocks (rebuild s b) = s_blocks s.
Proof. unfold rebuild. destruct (sizes_scan _ _ _ _ _). reflexivity. Qed.
Lemma rebuild_next s b : s_next (rebuild s b) = s_next s.
Proof. unfold rebuild. destruct (sizes_scan _ _ _ _ _). reflexivity. Qed.
Lemma rebuild_len s b : s_len (rebuild s b) = s_len s.
Proof. unfold rebuild. destruct (sizes_scan _ _ _ _ _). reflexivity. Qed.
Lemma rebuild_sid s b : s_id (rebuild s b) = s_id s.
Proof. unfold rebuild. destruct (sizes_scan _ _ _ _ _). reflexivity. Qed.
Lemma rebuild_toksmap s b : s_toks (rebuild s b) = rehandle (s_toks s) (s_id s) b 0 (toks s b).
Proof. unfold rebuild. destruct (sizes_scan _ _ _ _ _). reflexivity. Qed.
Lemma rebuild_heap_other s b b' : b' <> b -> bget (s_heap (rebuild s b)) b' = bget (s_heap s) b'.
Proof. intro. unfold rebuild. destruct (sizes_scan _ _ _ _ _). cbn. apply bget_add_other; assumption. Qed.
Lemma rebuild_toks s b b' : toks (rebuild s b) b' = toks s b'.
Proof.
  unfold toks. destruct (Pos.eq_dec b' b) as [->|N]; [|rewrite rebuild_heap_other by assumption; reflexivity].
  unfold rebuild. destruct (sizes_scan _ _ _ _ _). cbn. rewrite bget_add_same. reflexivity.
Qed.
Lemma rebuild_bidx s b b' : bidx (rebuild s b) b' = bidx s b'.
Proof.
  unfold bidx. destruct (Pos.eq_dec b' b) as [->|N]; [|rewrite rebuild_heap_other by assumption; reflexivity].
  unfold rebuild. destruct (sizes_scan _ _ _ _ _). cbn. rewrite bget_add_same. reflexivity.
Qed.
Lemma rebuild_cache s b :
  sizes_scan (s_toks (rebuild s b)) 0 (toks s b) pos0 (-1) = (bsz (rebuild s b) b, blnl (rebuild s b) b).
Proof.
  rewrite rebuild_toksmap. rewrite scan_ext with (tk := s_toks s) by (intros; apply rehandle_size).
  unfold bsz, blnl, rebuild, toks. destruct (sizes_scan _ _ _ _ _). cbn. rewrite bget_add_same. reflexivity.
Qed.
Lemma rebuild_tsz s b t : tsz (s_toks (rebuild s b)) t = tsz (s_toks s) t.
Proof. unfold tsz. rewrite rebuild_toksmap. apply rehandle_size. Qed.
Lemma rebuild_txt s b t : txt (rebuild s b) t = txt s t.
Proof. unfold txt. rewrite rebuild_toksmap. apply rehandle_text. Qed.
Lemma rebuild_hnd_other s b t : ~ In t (toks s b) -> hnd (rebuild s b) t = hnd s t.
Proof. intro. apply hnd_ext_tget; [apply rebuild_sid|]. rewrite rebuild_toksmap, rehandle_other by assumption. reflexivity. Qed.
Lemma rebuild_tget_other s b t : ~ In t (toks s b) -> tget (s_toks (rebuild s b)) t = tget (s_toks s) t.
Proof. intro. rewrite rebuild_toksmap, rehandle_other by assumption. reflexivity. Qed.
Lemma rebuild_hnd_in s b j t : NoDup (toks s b) -> nth_error (toks s b) j = Some t ->
  hnd (rebuild s b) t = Some (b, Z.of_nat j).
Proof.
  intros. apply hnd_of_raw. unfold raw. rewrite rebuild_toksmap, rebuild_sid. erewrite rehandle_in by eassumption. reflexivity.
Qed.

Lemma rebuild_blk_ok s b : NoDup (toks s b) -> blk_ok (rebuild s b) b.
Proof.
  intro ND. split.
  - intros j t H. rewrite rebuild_toks in H. apply rebuild_hnd_in; assumption.
  - rewrite rebuild_toks. apply rebuild_cache.
Qed.

(* a block that an update does not touch stays ok *)
Lemma blk_ok_frame s s' b :
  blk_ok s b -> toks s' b = toks s b -> bsz s' b = bsz s b -> blnl s' b = blnl s b ->
  (forall t, In t (toks s b) -> hnd s' t = hnd s t /\ tsz (s_toks s') t = tsz (s_toks s) t) ->
  blk_ok s' b.
Proof.
  intros [H1 H2] Et Es El Hf. split.
  - intros j t H. rewrite Et in H. rewrite (proj1 (Hf t (nth_error_In _ _ H))). apply H1; assumption.
  - rewrite Et, Es, El, <- H2. apply scan_ext. intros t Ht. apply Hf; assumption.
Qed.

(* new_block *)
Lemma new_block_spec s i ts s' b : new_block s i ts = (s', b) ->
  b = s_next s /\ s_next s' = Pos.succ (s_next s) /\ s_blocks s' = s_blocks s /\ s_len s' = s_len s /\
  s_toks s' = rehandle (s_toks s) (s_id s) b 0 ts /\
  (forall b', b' <> b -> bget (s_heap s') b' = bget (s_heap s) b') /\
  toks s' b = ts /\ bidx s' b = i /\
  sizes_scan (s_toks s') 0 ts pos0 (-1) = (bsz s' b, blnl s' b).
Proof.
  unfold new_block. destruct (sizes_scan (s_toks s) 0 ts pos0 (-1)) as [sz l] eqn:E. intro H. injection H as <- <-.
  unfold toks, bidx, bsz, blnl. cbn. rewrite bget_add_same. cbn. repeat split; auto.
  - intros b' N. apply bget_add_other; assumption.
  - rewrite scan_ext with (tk := s_toks s) by (intros; apply rehandle_size). assumption.
Qed.

Lemma new_block_sid s i ts s' b : new_block s i ts = (s', b) -> s_id s' = s_id s.
Proof. unfold new_block. destruct (sizes_scan _ _ _ _ _). intro H. injection H as <- _. reflexivity. Qed.
