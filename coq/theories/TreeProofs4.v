(* Proofs about the generic tree model, part 4: the results of reattach and clone are again
   conforming trees (so everything proved for conforming nodes applies to them: a popped and
   re-attached node, and a deep copy, are complete trees of the same shape). *)
From AB Require Import Desc Tree TreeDefs TreeProofs TreeProofs2 TreeProofs3.
From Coq Require Import ZArith List Bool Lia.
Import ListNotations.
Open Scope list_scope.

Lemma conforms_keys_ok : forall cs a, conforms cs a = true -> keys_ok a = true.
Proof.
  intros cs a.
  apply (node_ind2
    (fun a => conforms cs a = true -> keys_ok a = true)
    (fun sl => slot_all (conforms cs) sl = true -> slot_all keys_ok sl = true)); clear a.
  - reflexivity.
  - intros c s t kids d IH H.
    destruct (conforms_parts _ _ _ _ _ _ H) as (dd & _ & _ & _ & Hnd & Hk).
    rewrite keys_ok_tree. apply andb_true_iff. split.
    + apply nodupb_NoDup. exact Hnd.
    + apply kids_all_In. intros k sl Hin.
      pose proof (Forall_kids_In _ _ _ _ IH Hin) as HQ. simpl in HQ. apply HQ. apply (Hk k). exact Hin.
  - intros n IH H. simpl in *. auto.
  - reflexivity.
  - intros n IH H. simpl in *. auto.
  - intros s t ph items IH H. simpl in *. rewrite Forall_forall in IH. rewrite forallb_forall in *.
    intros x Hx. auto.
  - intros items IH H. simpl in *. rewrite Forall_forall in IH. rewrite forallb_forall in *.
    intros x Hx. auto.
Qed.

Section MapKids.
Variable H : string -> slot -> slot.
Definition map_kids (ks : list (string * slot)) : list (string * slot) :=
  map (fun kv => (fst kv, H (fst kv) (snd kv))) ks.

Lemma kid_map_kids : forall ks n, kid (map_kids ks) n = option_map (H n) (kid ks n).
Proof.
  intros ks n. induction ks as [|[k sl] ks IH]; simpl; auto.
  destruct (String.eqb k n) eqn:E; auto. apply String.eqb_eq in E. subst. reflexivity.
Qed.

Lemma map_fst_map_kids : forall ks, map fst (map_kids ks) = map fst ks.
Proof. intros ks. unfold map_kids. rewrite map_map. reflexivity. Qed.

Lemma In_map_kids : forall ks k sl', In (k, sl') (map_kids ks) -> exists sl, In (k, sl) ks /\ sl' = H k sl.
Proof.
  intros ks k sl' Hin. unfold map_kids in Hin. apply in_map_iff in Hin.
  destruct Hin as ([k0 sl] & E & Hin). simpl in E. inversion E. subst. eauto.
Qed.

(* replacing every child by one of the same shape that still conforms keeps the node conforming *)
Lemma conforms_map_kids : forall cs c s s' t t' kids d d',
  (forall n sl k, kind_ok k (H n sl) = kind_ok k sl) ->
  (forall k sl, In (k, sl) kids -> slot_all (conforms cs) sl = true ->
                slot_all (conforms cs) (H k sl) = true) ->
  conforms cs (Tree c s t kids d) = true -> conforms cs (Tree c s' t' (map_kids kids) d') = true.
Proof.
  intros cs c s s' t t' kids d d' Hkind Hall Hc.
  destruct (conforms_parts _ _ _ _ _ _ Hc) as (dd & Hf & Hfl & Hkeys & Hnd & Hk).
  rewrite conforms_tree, Hf. rewrite map_fst_map_kids.
  repeat (apply andb_true_iff; split).
  - apply forallb_forall. intros f Hin. destruct (Hfl f Hin) as (sl & Hsl & Hko).
    rewrite kid_map_kids, Hsl. simpl. rewrite Hkind. exact Hko.
  - apply forallb_forall. intros k Hin. apply mem_In. apply Hkeys. exact Hin.
  - apply nodupb_NoDup. exact Hnd.
  - apply kids_all_In. intros k sl' Hin. apply In_map_kids in Hin.
    destruct Hin as (sl & Hin & E). subst sl'. apply Hall; auto. apply (Hk k). exact Hin.
Qed.
End MapKids.

Lemma forallb_map_Forall : forall (ok : node -> bool) (h : node -> node) l,
  Forall (fun a => ok a = true -> ok (h a) = true) l -> forallb ok l = true ->
  forallb ok (map h l) = true.
Proof.
  intros ok h l HF. induction HF as [|x l Hx HF IH]; simpl; intro Hl; auto.
  apply andb_true_iff in Hl. rewrite Hx, IH; tauto.
Qed.

Lemma kids_reattach_map : forall cs new sel ks,
  kids_reattach cs new sel ks =
  map_kids (fun k sl => if mem k sel then slot_reattach cs new sl else sl) ks.
Proof.
  intros cs new sel ks. induction ks as [|[k sl] ks IH]; simpl; auto. rewrite IH. reflexivity.
Qed.

Lemma kind_ok_reattach : forall cs new k sl, kind_ok k (slot_reattach cs new sl) = kind_ok k sl.
Proof. intros cs new k [x|[x|]|s t ph items|[|x items]]; destruct k; reflexivity. Qed.

Lemma kind_ok_clone : forall cs new f k sl, kind_ok k (slot_clone cs new f sl) = kind_ok k sl.
Proof. intros cs new f k [x|[x|]|s t ph items|[|x items]]; destruct k; reflexivity. Qed.

(* a re-attached node is still a conforming tree (for any classes, scheme or not) *)
Lemma reattach_conforms : forall cs new a, conforms cs a = true -> conforms cs (reattach cs new a) = true.
Proof.
  intros cs new a.
  apply (node_ind2
    (fun a => conforms cs a = true -> conforms cs (reattach cs new a) = true)
    (fun sl => slot_all (conforms cs) sl = true ->
               slot_all (conforms cs) (slot_reattach cs new sl) = true)); clear a.
  - auto.
  - intros c s t kids d IH Hc.
    destruct (conforms_parts _ _ _ _ _ _ Hc) as (dd & Hf & _).
    rewrite reattach_tree, Hf, kids_reattach_map.
    apply (conforms_map_kids _ cs c s _ t t kids d d); auto.
    + intros n sl k. destruct (mem n (c_reattach dd)); auto. apply kind_ok_reattach.
    + intros k sl Hin Hsl. destruct (mem k (c_reattach dd)); auto.
      pose proof (Forall_kids_In _ _ _ _ IH Hin) as HQ. simpl in HQ. auto.
  - intros n IH Hc. simpl in *. auto.
  - auto.
  - intros n IH Hc. simpl in *. auto.
  - intros s t ph items IH Hc. simpl in *. apply forallb_map_Forall; assumption.
  - intros items IH Hc. simpl in *. apply forallb_map_Forall; assumption.
Qed.

(* a copy is a conforming tree (needs the scheme: a clone() that forgot a field would build a node
   lacking that field) *)
Lemma clone_conforms : forall cs new f, classes_ok cs ->
  forall a, conforms cs a = true -> conforms cs (clone cs new f a) = true.
Proof.
  intros cs new f Hok a.
  apply (node_ind2
    (fun a => conforms cs a = true -> conforms cs (clone cs new f a) = true)
    (fun sl => slot_all (conforms cs) sl = true ->
               slot_all (conforms cs) (slot_clone cs new f sl) = true)); clear a.
  - auto.
  - intros c s t kids d IH Hc.
    destruct (conforms_parts _ _ _ _ _ _ Hc) as (dd & Hf & _ & Hkeys & _).
    destruct (classes_ok_find _ _ _ Hok Hf) as [Hcl _ _ _ _ _ _ _ _].
    rewrite clone_tree, Hf. rewrite kids_clone_all by (rewrite Hcl; exact Hkeys).
    apply (conforms_map_kids (fun _ sl => slot_clone cs new f sl) cs c s _ t _ kids d); auto.
    + intros n sl k. apply kind_ok_clone.
    + intros k sl Hin Hsl. pose proof (Forall_kids_In _ _ _ _ IH Hin) as HQ. simpl in HQ. auto.
  - intros n IH Hc. simpl in *. auto.
  - auto.
  - intros n IH Hc. simpl in *. auto.
  - intros s t ph items IH Hc. simpl in *. apply forallb_map_Forall; assumption.
  - intros items IH Hc. simpl in *. apply forallb_map_Forall; assumption.
Qed.

(* hence: symmetric equality on conforming nodes, and first/last token of a re-attached node or a
   copy exist and are among its own leaves *)
Lemma node_eq_sym_conforms : forall cs a b,
  conforms cs a = true -> conforms cs b = true -> node_eq cs a b = node_eq cs b a.
Proof. intros cs a b Ha Hb. apply node_eq_sym; eapply conforms_keys_ok; eassumption. Qed.

Lemma reattach_border_total : forall cs new, classes_ok cs -> classes_anchored cs ->
  forall n fuel sd, depth (reattach cs new n) < fuel -> conforms cs n = true ->
  exists t, border cs fuel sd (reattach cs new n) = Some t /\ In t (leaves n).
Proof.
  intros cs new Hok Ha n fuel sd Hd Hc.
  destruct (border_total cs Hok Ha (reattach cs new n) fuel sd Hd (reattach_conforms _ _ _ Hc))
    as (t & Hb & Ht).
  exists t. split; auto. rewrite reattach_leaves in Ht. exact Ht.
Qed.

Lemma clone_border_total : forall cs new f, classes_ok cs -> classes_anchored cs ->
  forall n fuel sd, depth (clone cs new f n) < fuel -> conforms cs n = true ->
  exists t, border cs fuel sd (clone cs new f n) = Some (f t) /\ In t (leaves n).
Proof.
  intros cs new f Hok Ha n fuel sd Hd Hc.
  destruct (border_total cs Hok Ha (clone cs new f n) fuel sd Hd (clone_conforms _ _ _ Hok _ Hc))
    as (t & Hb & Ht).
  rewrite clone_leaves in Ht by assumption. apply in_map_iff in Ht. destruct Ht as (t0 & E & Ht0).
  subst t. exists t0. auto.
Qed.
