(* Concrete nodes (dumped from the implementation by harness/tree_corr.Dumper on
   `2000-01-01 open Assets:Foo USD, EUR ; hi` + one meta line) used to show that the hypotheses of
   the tree theorems are satisfiable, and the facts about the extracted class lists. *)
From AB Require Import Desc Generated GeneratedWf Tree TreeDefs TreeProofs TreeProofs2 TreeProofs3 TreeRun.
From Coq Require Import ZArith String List Bool.
Import ListNotations.
Local Open Scope string_scope.
Local Open Scope Z_scope.

(* Open with two currencies, an inline comment and a string-valued meta item: generated classes only *)
Definition ex_open : node :=
  (Tree "Open" 0 [(mktk 1 "DATE" "2000-01-01"); (mktk 20 "WHITESPACE" " "); (mktk 2 "OPEN" "open"); (mktk 21 "WHITESPACE" " "); (mktk 3 "ACCOUNT" "Assets:Foo"); (mktk 6 "PLACEHOLDER" ""); (mktk 7 "WHITESPACE" " "); (mktk 4 "CURRENCY" "USD"); (mktk 8 "_COMMA" ","); (mktk 9 "WHITESPACE" " "); (mktk 5 "CURRENCY" "EUR"); (mktk 22 "WHITESPACE" " "); (mktk 10 "INLINE_COMMENT" "; hi"); (mktk 11 "EOL" ""); (mktk 17 "PLACEHOLDER" ""); (mktk 18 "_NEWLINE" "
"); (mktk 12 "INDENT" "    "); (mktk 13 "META_KEY" "foo:"); (mktk 16 "WHITESPACE" " "); (mktk 14 "ESCAPED_STRING" """bar"""); (mktk 15 "EOL" ""); (mktk 19 "DEDENT_MARK" "")] [("_leading_comment", SOpt None); ("_date", SReq (Leaf (mktk 1 "DATE" "2000-01-01"))); ("_label", SReq (Leaf (mktk 2 "OPEN" "open"))); ("_account", SReq (Leaf (mktk 3 "ACCOUNT" "Assets:Foo"))); ("_currencies", SRep 0 [(mktk 6 "PLACEHOLDER" ""); (mktk 7 "WHITESPACE" " "); (mktk 4 "CURRENCY" "USD"); (mktk 8 "_COMMA" ","); (mktk 9 "WHITESPACE" " "); (mktk 5 "CURRENCY" "EUR")] (mktk 6 "PLACEHOLDER" "") [(Leaf (mktk 4 "CURRENCY" "USD")); (Leaf (mktk 5 "CURRENCY" "EUR"))]); ("_booking", SOpt None); ("_inline_comment", SOpt (Some (Leaf (mktk 10 "INLINE_COMMENT" "; hi")))); ("_eol", SReq (Leaf (mktk 11 "EOL" ""))); ("_meta", SRep 0 [(mktk 17 "PLACEHOLDER" ""); (mktk 18 "_NEWLINE" "
"); (mktk 12 "INDENT" "    "); (mktk 13 "META_KEY" "foo:"); (mktk 16 "WHITESPACE" " "); (mktk 14 "ESCAPED_STRING" """bar"""); (mktk 15 "EOL" "")] (mktk 17 "PLACEHOLDER" "") [(Tree "MetaItem" 0 [(mktk 12 "INDENT" "    "); (mktk 13 "META_KEY" "foo:"); (mktk 16 "WHITESPACE" " "); (mktk 14 "ESCAPED_STRING" """bar"""); (mktk 15 "EOL" "")] [("_leading_comment", SOpt None); ("_indent", SReq (Leaf (mktk 12 "INDENT" "    "))); ("_key", SReq (Leaf (mktk 13 "META_KEY" "foo:"))); ("_value", SOpt (Some (Leaf (mktk 14 "ESCAPED_STRING" """bar""")))); ("_inline_comment", SOpt None); ("_eol", SReq (Leaf (mktk 15 "EOL" ""))); ("_trailing_comment", SOpt None)] [])]); ("_dedent_mark", SOpt (Some (Leaf (mktk 19 "DEDENT_MARK" "")))); ("_trailing_comment", SOpt None)] [("indent_by", "    ")]).

(* the same entry with the second currency changed *)
Definition ex_open_other : node :=
  (Tree "Open" 0 [(mktk 1 "DATE" "2000-01-01"); (mktk 20 "WHITESPACE" " "); (mktk 2 "OPEN" "open"); (mktk 21 "WHITESPACE" " "); (mktk 3 "ACCOUNT" "Assets:Foo"); (mktk 6 "PLACEHOLDER" ""); (mktk 7 "WHITESPACE" " "); (mktk 4 "CURRENCY" "USD"); (mktk 8 "_COMMA" ","); (mktk 9 "WHITESPACE" " "); (mktk 5 "CURRENCY" "CAD"); (mktk 22 "WHITESPACE" " "); (mktk 10 "INLINE_COMMENT" "; hi"); (mktk 11 "EOL" ""); (mktk 17 "PLACEHOLDER" ""); (mktk 18 "_NEWLINE" "
"); (mktk 12 "INDENT" "    "); (mktk 13 "META_KEY" "foo:"); (mktk 16 "WHITESPACE" " "); (mktk 14 "ESCAPED_STRING" """bar"""); (mktk 15 "EOL" ""); (mktk 19 "DEDENT_MARK" "")] [("_leading_comment", SOpt None); ("_date", SReq (Leaf (mktk 1 "DATE" "2000-01-01"))); ("_label", SReq (Leaf (mktk 2 "OPEN" "open"))); ("_account", SReq (Leaf (mktk 3 "ACCOUNT" "Assets:Foo"))); ("_currencies", SRep 0 [(mktk 6 "PLACEHOLDER" ""); (mktk 7 "WHITESPACE" " "); (mktk 4 "CURRENCY" "USD"); (mktk 8 "_COMMA" ","); (mktk 9 "WHITESPACE" " "); (mktk 5 "CURRENCY" "CAD")] (mktk 6 "PLACEHOLDER" "") [(Leaf (mktk 4 "CURRENCY" "USD")); (Leaf (mktk 5 "CURRENCY" "CAD"))]); ("_booking", SOpt None); ("_inline_comment", SOpt (Some (Leaf (mktk 10 "INLINE_COMMENT" "; hi")))); ("_eol", SReq (Leaf (mktk 11 "EOL" ""))); ("_meta", SRep 0 [(mktk 17 "PLACEHOLDER" ""); (mktk 18 "_NEWLINE" "
"); (mktk 12 "INDENT" "    "); (mktk 13 "META_KEY" "foo:"); (mktk 16 "WHITESPACE" " "); (mktk 14 "ESCAPED_STRING" """bar"""); (mktk 15 "EOL" "")] (mktk 17 "PLACEHOLDER" "") [(Tree "MetaItem" 0 [(mktk 12 "INDENT" "    "); (mktk 13 "META_KEY" "foo:"); (mktk 16 "WHITESPACE" " "); (mktk 14 "ESCAPED_STRING" """bar"""); (mktk 15 "EOL" "")] [("_leading_comment", SOpt None); ("_indent", SReq (Leaf (mktk 12 "INDENT" "    "))); ("_key", SReq (Leaf (mktk 13 "META_KEY" "foo:"))); ("_value", SOpt (Some (Leaf (mktk 14 "ESCAPED_STRING" """bar""")))); ("_inline_comment", SOpt None); ("_eol", SReq (Leaf (mktk 15 "EOL" ""))); ("_trailing_comment", SOpt None)] [])]); ("_dedent_mark", SOpt (Some (Leaf (mktk 19 "DEDENT_MARK" "")))); ("_trailing_comment", SOpt None)] [("indent_by", "    ")]).

(* meta value `1 + 2`: goes through NumberExpr -> NumberAddExpr -> NumberMulExpr (TreeRun.all_classes) *)
Definition ex_open_num : node :=
  (Tree "Open" 0 [(mktk 1 "DATE" "2000-01-01"); (mktk 24 "WHITESPACE" " "); (mktk 2 "OPEN" "open"); (mktk 25 "WHITESPACE" " "); (mktk 3 "ACCOUNT" "Assets:Foo"); (mktk 6 "PLACEHOLDER" ""); (mktk 7 "WHITESPACE" " "); (mktk 4 "CURRENCY" "USD"); (mktk 8 "_COMMA" ","); (mktk 9 "WHITESPACE" " "); (mktk 5 "CURRENCY" "EUR"); (mktk 26 "WHITESPACE" " "); (mktk 10 "INLINE_COMMENT" "; hi"); (mktk 11 "EOL" ""); (mktk 21 "PLACEHOLDER" ""); (mktk 22 "_NEWLINE" "
"); (mktk 12 "INDENT" "    "); (mktk 13 "META_KEY" "foo:"); (mktk 20 "WHITESPACE" " "); (mktk 14 "NUMBER" "1"); (mktk 17 "WHITESPACE" " "); (mktk 15 "ADD_OP" "+"); (mktk 18 "WHITESPACE" " "); (mktk 16 "NUMBER" "2"); (mktk 19 "EOL" ""); (mktk 23 "DEDENT_MARK" "")] [("_leading_comment", SOpt None); ("_date", SReq (Leaf (mktk 1 "DATE" "2000-01-01"))); ("_label", SReq (Leaf (mktk 2 "OPEN" "open"))); ("_account", SReq (Leaf (mktk 3 "ACCOUNT" "Assets:Foo"))); ("_currencies", SRep 0 [(mktk 6 "PLACEHOLDER" ""); (mktk 7 "WHITESPACE" " "); (mktk 4 "CURRENCY" "USD"); (mktk 8 "_COMMA" ","); (mktk 9 "WHITESPACE" " "); (mktk 5 "CURRENCY" "EUR")] (mktk 6 "PLACEHOLDER" "") [(Leaf (mktk 4 "CURRENCY" "USD")); (Leaf (mktk 5 "CURRENCY" "EUR"))]); ("_booking", SOpt None); ("_inline_comment", SOpt (Some (Leaf (mktk 10 "INLINE_COMMENT" "; hi")))); ("_eol", SReq (Leaf (mktk 11 "EOL" ""))); ("_meta", SRep 0 [(mktk 21 "PLACEHOLDER" ""); (mktk 22 "_NEWLINE" "
"); (mktk 12 "INDENT" "    "); (mktk 13 "META_KEY" "foo:"); (mktk 20 "WHITESPACE" " "); (mktk 14 "NUMBER" "1"); (mktk 17 "WHITESPACE" " "); (mktk 15 "ADD_OP" "+"); (mktk 18 "WHITESPACE" " "); (mktk 16 "NUMBER" "2"); (mktk 19 "EOL" "")] (mktk 21 "PLACEHOLDER" "") [(Tree "MetaItem" 0 [(mktk 12 "INDENT" "    "); (mktk 13 "META_KEY" "foo:"); (mktk 20 "WHITESPACE" " "); (mktk 14 "NUMBER" "1"); (mktk 17 "WHITESPACE" " "); (mktk 15 "ADD_OP" "+"); (mktk 18 "WHITESPACE" " "); (mktk 16 "NUMBER" "2"); (mktk 19 "EOL" "")] [("_leading_comment", SOpt None); ("_indent", SReq (Leaf (mktk 12 "INDENT" "    "))); ("_key", SReq (Leaf (mktk 13 "META_KEY" "foo:"))); ("_value", SOpt (Some (Tree "NumberExpr" 0 [(mktk 14 "NUMBER" "1"); (mktk 17 "WHITESPACE" " "); (mktk 15 "ADD_OP" "+"); (mktk 18 "WHITESPACE" " "); (mktk 16 "NUMBER" "2")] [("_number_add_expr", SReq (Tree "NumberAddExpr" 0 [(mktk 14 "NUMBER" "1"); (mktk 17 "WHITESPACE" " "); (mktk 15 "ADD_OP" "+"); (mktk 18 "WHITESPACE" " "); (mktk 16 "NUMBER" "2")] [("seq", SSeq [(Tree "NumberMulExpr" 0 [(mktk 14 "NUMBER" "1")] [("seq", SSeq [(Leaf (mktk 14 "NUMBER" "1"))])] []); (Leaf (mktk 15 "ADD_OP" "+")); (Tree "NumberMulExpr" 0 [(mktk 16 "NUMBER" "2")] [("seq", SSeq [(Leaf (mktk 16 "NUMBER" "2"))])] [])])] []))] []))); ("_inline_comment", SOpt None); ("_eol", SReq (Leaf (mktk 19 "EOL" ""))); ("_trailing_comment", SOpt None)] [])]); ("_dedent_mark", SOpt (Some (Leaf (mktk 23 "DEDENT_MARK" "")))); ("_trailing_comment", SOpt None)] [("indent_by", "    ")]).

(* a token map as MappingTokenTransformer builds it: fresh identities, same rule and text *)
Definition ex_fresh (t : tk) : tk := mktk (k_id t + 100) (k_rule t) (k_text t).

Lemma ex_fresh_keeps : forall t, k_rule (ex_fresh t) = k_rule t /\ k_text (ex_fresh t) = k_text t.
Proof. intro t. split; reflexivity. Qed.

Lemma classes_ok_generated : classes_ok classes.
Proof. intros c H. apply wf_desc_wf_tree. apply generated_wf_each. exact H. Qed.

Lemma classes_ok_all : classes_ok all_classes.
Proof.
  assert (H : forallb wf_tree all_classes = true) by (vm_compute; reflexivity).
  intros c Hc. rewrite forallb_forall in H. apply H. exact Hc.
Qed.

Lemma classes_anchored_all : classes_anchored all_classes.
Proof.
  assert (H : forallb has_anchor all_classes = true) by (vm_compute; reflexivity).
  intros c Hc. rewrite forallb_forall in H. apply H. exact Hc.
Qed.

Lemma classes_anchored_generated : classes_anchored classes.
Proof.
  intros c Hc. apply classes_anchored_all. unfold all_classes. apply in_or_app. left. exact Hc.
Qed.

Lemma ex_conforms : conforms classes ex_open = true /\ conforms classes ex_open_other = true
                    /\ conforms all_classes ex_open_num = true.
Proof. vm_compute. auto. Qed.

Lemma ex_keys_ok : keys_ok ex_open = true /\ keys_ok ex_open_other = true /\ keys_ok ex_open_num = true.
Proof. vm_compute. auto. Qed.
