(* Executable glue for the C09 correspondence: the harness dumps what the real CostSpec / Transaction
   did (component kinds and order, brace kind, the six getters, exception class) after every
   assignment; check_* replays the same assignments on the model and compares.  Values are Z codes
   (index into the harness's value tables). *)
From AB Require Import Prelude Cost Txn.

Definition oz_eqb := opt_eqb Z.eqb.

Definition comp_eqb (a b : comp) : bool :=
  match a, b with
  | KCompound p t c, KCompound p' t' c' => oz_eqb p p' && oz_eqb t t' && (c =? c')
  | KAmount n c, KAmount n' c' => (n =? n') && (c =? c')
  | KNumber n, KNumber n' => n =? n'
  | KCurrency c, KCurrency c' => c =? c'
  | KDate d, KDate d' => d =? d'
  | KLabel l, KLabel l' => l =? l'
  | KAsterisk, KAsterisk => true
  | _, _ => false
  end.

Definition brace_eqb (a b : brace) : bool :=
  match a, b with Unit, Unit | Total, Total => true | _, _ => false end.

Definition cost_eqb (a b : cost) : bool :=
  brace_eqb (c_brace a) (c_brace b) && list_eqb comp_eqb (c_comps a) (c_comps b).

Definition spec_eqb (a b : spec) : bool :=
  oz_eqb (sp_per a) (sp_per b) && oz_eqb (sp_total a) (sp_total b) && oz_eqb (sp_cur a) (sp_cur b)
  && oz_eqb (sp_date a) (sp_date b) && oz_eqb (sp_label a) (sp_label b) && Bool.eqb (sp_merge a) (sp_merge b).

Definition cexn_code (e : exn) : Z :=
  match e with
  | ValueError => 1 | IndexError => 2 | KeyError => 3 | AssertionError => 4 | TypeError => 5
  | NotImplementedErr => 6 | OutOfFuel => 7 | ModelStuck => 8
  end.
Definition res_code (r : res unit) : Z := match r with Ok _ => 0 | Err e => cexn_code e end.

(* what the implementation showed after one assignment *)
Record cobs := mkcobs { co_res : Z; co_state : cost; co_getters : spec }.

(* one step of a walk: a value-level assignment, or a raw-level one (node value, attached?) *)
Inductive cstep := SVal (o : cop) | SRaw (r : rop) (v : option Z) (att : bool) | SCost (c : cost) (att : bool).

Record ccase := mkccase {
  cc_fixed : bool;          (* does the tree under test contain the D11 repair (probed by the harness) *)
  cc_late : bool;           (* does it still flip the braces before consuming the node (probed) *)
  cc_listed : bool;         (* the observed initial state is normal (computed by the harness) *)
  cc_init : cost;           (* as parsed by the real Parser *)
  cc_init_getters : spec;
  cc_steps : list (cstep * cobs) }.

Definition do_step (fixed late : bool) (s : cost) (st : cstep) : cost * res unit :=
  match st with
  | SVal o => apply_gen fixed s o
  | SRaw r v att => rapply_gen fixed late s r v att
  | SCost c att => set_raw_cost att s c
  end.

(* [inv]: the walk is in the scope of the theorems (normal origin, or after a whole-cost assignment of a
   normal cost): then every state the implementation showed must be normal again (C09_cost_refines) *)
Fixpoint run_csteps (fixed late inv : bool) (s : cost) (steps : list (cstep * cobs)) : bool :=
  match steps with
  | [] => true
  | (o, ob) :: r =>
    let '(s', x) := do_step fixed late s o in
    let inv' := match o with SCost c false => normal_b c | _ => inv end in
    (res_code x =? co_res ob) && cost_eqb s' (co_state ob) && spec_eqb (abs s') (co_getters ob)
    && (if inv' then normal_b (co_state ob) else true)
    && run_csteps fixed late inv' s' r
  end.

(* cc_listed is the harness's own computation of "normal" on the observed initial state: it must agree
   with normal_b *)
Definition check_ccase (c : ccase) : bool :=
  Bool.eqb (cc_listed c) (normal_b (cc_init c))
  && spec_eqb (abs (cc_init c)) (cc_init_getters c)
  && run_csteps (cc_fixed c) (cc_late c) (cc_listed c) (cc_init c) (cc_steps c).

(* diagnosis *)
Fixpoint model_ctrace (fixed late : bool) (s : cost) (ops : list cstep) : list (Z * cost) :=
  match ops with
  | [] => []
  | o :: r => let '(s', x) := do_step fixed late s o in (res_code x, s') :: model_ctrace fixed late s' r
  end.

(* CostSpec.from_value *)
Record fvcase := mkfvcase {
  fv_per : option Z; fv_total : option Z; fv_cur : option Z; fv_date : option Z; fv_label : option Z;
  fv_merge : bool; fv_res : Z; fv_state : option cost }.

Definition check_fvcase (c : fvcase) : bool :=
  match from_value (fv_per c) (fv_total c) (fv_cur c) (fv_date c) (fv_label c) (fv_merge c), fv_state c with
  | Ok s, Some s' => (fv_res c =? 0) && cost_eqb s s'
  | Err e, None => fv_res c =? cexn_code e
  | _, _ => false
  end.

(* Transaction payee / narration *)
Definition tri := (option Z * option Z * option Z)%type.
Definition tri_of (t : txn) : tri := (t_s0 t, t_s1 t, t_s2 t).
Definition tri_eqb (a b : tri) : bool :=
  let '(a0, a1, a2) := a in let '(b0, b1, b2) := b in oz_eqb a0 b0 && oz_eqb a1 b1 && oz_eqb a2 b2.

Record tcase := mktcase {
  tc_children : tri;                       (* string0..2 as the parser handed them to from_parsed_children *)
  tc_init : tri;                           (* the three slots of the constructed Transaction *)
  tc_steps : list (top * tri * tri) }.     (* assignment, slots after it, slots after print + parse *)

Fixpoint run_tsteps (t : txn) (steps : list (top * tri * tri)) : bool :=
  match steps with
  | [] => true
  | (o, a, b) :: r =>
    let t' := tapply t o in
    tri_eqb (tri_of t') a && tri_eqb (tri_of (reparse t')) b && run_tsteps t' r
  end.

Definition check_tcase (c : tcase) : bool :=
  let '(c0, c1, c2) := tc_children c in
  let t := from_parsed c0 c1 c2 in
  tri_eqb (tri_of t) (tc_init c) && tinv_b t && run_tsteps t (tc_steps c).

(* value properties over slots (Txn.v, Section ValueProps): texts are code-point lists; the codec of a
   slot is the table of (slot, value code, text) the harness obtained from the implementation's
   from_value for every value it uses *)
Definition str_eqb := list_eqb Z.eqb.
Definition vtable := list (nat * Z * str).
Fixpoint tfmt (tb : vtable) (i : nat) (x : Z) : str :=
  match tb with
  | [] => [ -1 ]
  | (j, y, t) :: r => if Nat.eqb i j && (x =? y) then t else tfmt r i x
  end.
Fixpoint tparse (tb : vtable) (i : nat) (t : str) : Z :=
  match tb with
  | [] => -1
  | (j, y, u) :: r => if Nat.eqb i j && str_eqb t u then y else tparse r i t
  end.

Definition oslot := option (Z * str).
Definition oslot_eqb (a b : oslot) : bool :=
  opt_eqb (fun x y => (fst x =? fst y) && str_eqb (snd x) (snd y)) a b.
Definition slots_of (r : vrec str) : list oslot :=
  map (option_map (fun n => (vn_id n, vn_text n))) (vr_slots r).

Record vstep := mkvstep {
  vs_required : bool; vs_slot : nat; vs_value : option Z;
  vs_slots : list oslot;               (* node identity and printed text per property, after the assignment *)
  vs_getters : list (option Z) }.      (* what every property reads, after the assignment *)
Record vcase := mkvcase { vc_table : vtable; vc_init : list oslot; vc_next : Z; vc_steps : list vstep }.

Definition vgetters (tb : vtable) (r : vrec str) : list (option Z) :=
  map (fun i => vget (tparse tb) r i) (seq 0 (length (vr_slots r))).

Fixpoint run_vsteps (tb : vtable) (r : vrec str) (steps : list vstep) : bool :=
  match steps with
  | [] => true
  | st :: rest =>
    let r' := if vs_required st
              then match vs_value st with Some x => fst (req_set (tfmt tb) r (vs_slot st) x) | None => r end
              else opt_set (tfmt tb) r (vs_slot st) (vs_value st) in
    list_eqb oslot_eqb (slots_of r') (vs_slots st)
    && list_eqb (opt_eqb Z.eqb) (vgetters tb r') (vs_getters st)
    && run_vsteps tb r' rest
  end.

Definition check_vcase (c : vcase) : bool :=
  run_vsteps (vc_table c)
    (mkvrec (map (option_map (fun p => mkvnode (fst p) (snd p))) (vc_init c)) (vc_next c)) (vc_steps c).
