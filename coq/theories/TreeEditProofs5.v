(* Proofs about edits, part 5: optional fields. Creating a child in an empty optional slot and removing the child of
   an optional slot (TreeEdit.create_opt / remove_opt: optional_node_property.__set__ with
   optional_left_field / optional_right_field._create_node / _remove_node) preserve HWF, and the edit history
   theorem extended to these two edits (edit2 / edits2).

   The pivot is computed as the implementation computes it: the chain `_f_pivot` extracted from the source
   (c_pivots) is evaluated on the children. The proofs use that the extracted chain is the one of the generic scheme
   (`classes_pivots_ok`: Desc.pivots_ok for every class, part of wf_desc which is proved for all generated classes
   on every run) and that the children are stored in declaration order (checked by opt_pivot itself). *)
From AB Require Import Desc Tree TreeDefs TreeProofs TreeProofs2 TreeProofs3 TreeProofs4 TreeWF TreeWFProofs.
From AB Require Import Construct ConstructProofs ConstructWF TreeEdit TreeEditProofs TreeEditProofs2 TreeEditProofs3 TreeEditProofs4.
From Coq Require Import ZArith List Bool Lia.
Import ListNotations.
Open Scope list_scope.


(* ---- the generated chains, cut at a field ---------------------------------------------------------------- *)
Definition opp (sd : side) : side := match sd with SFirst => SLast | SLast => SFirst end.

Section Chains.
Variable get : string -> side -> option (option tk).

(* None: every field of A is an absent optional (the chain runs through A); Some r: the result is decided in A *)
Fixpoint chain_pre (sd : side) (A : list fdesc) : option (option tk) :=
  match A with
  | [] => None
  | fd :: r =>
    match f_kind fd with
    | FReq => Some (match get (f_name fd) sd with Some (Some t) => Some t | _ => None end)
    | FOptL _ | FOptR _ =>
      match get (f_name fd) sd with
      | Some (Some t) => Some (Some t)
      | Some None => chain_pre sd r
      | None => Some None
      end
    | FRep _ _ => Some (match get (f_name fd) sd with Some (Some t) => Some t | _ => None end)
    end
  end.

Lemma scheme_chain_app : forall sd A R,
  eval_chain get (scheme_chain sd (A ++ R))
  = match chain_pre sd A with Some r => r | None => eval_chain get (scheme_chain sd R) end.
Proof.
  intros sd A R. induction A as [|fd A IH]; [reflexivity|].
  simpl. destruct (f_kind fd); simpl; destruct (get (f_name fd) sd) as [[t|]|]; auto.
Qed.

Lemma scheme_chain_opt_cons : forall sd fd R, is_opt (f_kind fd) = true ->
  eval_chain get (scheme_chain sd (fd :: R))
  = match get (f_name fd) sd with
    | Some (Some t) => Some t
    | Some None => eval_chain get (scheme_chain sd R)
    | None => None
    end.
Proof. intros sd fd R H. simpl. destruct (f_kind fd); try discriminate; reflexivity. Qed.

Lemma chain_pre_from : forall sd A t, chain_pre sd A = Some (Some t) ->
  exists fd, In fd A /\ get (f_name fd) sd = Some (Some t).
Proof.
  intros sd A t. induction A as [|fd A IH]; simpl; [discriminate|].
  destruct (f_kind fd); destruct (get (f_name fd) sd) as [[t'|]|] eqn:Eg; intro H; try discriminate;
    try (inversion H; subst; exists fd; split; [left; reflexivity|exact Eg]).
  - destruct (IH H) as (fd' & Hin & Hg). exists fd'. auto.
  - destruct (IH H) as (fd' & Hin & Hg). exists fd'. auto.
Qed.

Lemma chain_pre_none : forall sd A, chain_pre sd A = None ->
  forall fd, In fd A -> get (f_name fd) sd = Some None.
Proof.
  intros sd A. induction A as [|fd A IH]; simpl; intros H fd' Hin; [destruct Hin|].
  destruct (f_kind fd); try discriminate; destruct (get (f_name fd) sd) as [[t'|]|] eqn:Eg; try discriminate;
    (destruct Hin as [E|Hin]; [subst; exact Eg|apply IH; assumption]).
Qed.

Lemma all_absent_chain : forall sd A, (forall fd, In fd A -> get (f_name fd) sd = Some None) ->
  eval_chain get (scheme_chain sd A) = None.
Proof.
  intros sd A. induction A as [|fd A IH]; intro H; [reflexivity|].
  pose proof (H fd (or_introl eq_refl)) as Hf. simpl.
  destruct (f_kind fd); simpl; rewrite Hf; auto; apply IH; intros fd' Hin; apply H; right; exact Hin.
Qed.
End Chains.

Lemma chain_pre_ext : forall get get' sd A,
  (forall fd, In fd A -> get' (f_name fd) sd = get (f_name fd) sd) -> chain_pre get' sd A = chain_pre get sd A.
Proof.
  intros get get' sd A. induction A as [|fd A IH]; intro H; [reflexivity|].
  simpl. rewrite (H fd (or_introl eq_refl)). rewrite IH; [reflexivity|]. intros fd' Hin. apply H. right. exact Hin.
Qed.

Lemma eval_scheme_ext : forall get get' sd A,
  (forall fd, In fd A -> get' (f_name fd) sd = get (f_name fd) sd) ->
  eval_chain get' (scheme_chain sd A) = eval_chain get (scheme_chain sd A).
Proof.
  intros get get' sd A H. rewrite <- (app_nil_r A), !scheme_chain_app, (chain_pre_ext get get' sd A H). reflexivity.
Qed.

(* ---- the ends of a token list whose middle changes ------------------------------------------------------------ *)
Lemma far_nil : forall sp P Q pv, NoDup (ids (P ++ Q)) -> outer (opp sp) P Q <> [] ->
  endtok sp (outer (opp sp) P Q) = Some pv -> endtok sp (P ++ Q) = Some pv -> outer sp P Q = [].
Proof.
  intros [|] P Q pv Hnd Hne Hpv He; simpl in *.
  - (* near = Q, far = P *)
    apply (ends_outer SFirst P Q [] ); [rewrite app_nil_r; exact Hnd|exact Hne|]. rewrite app_nil_r. simpl. congruence.
  - apply (ends_outer SLast [] P Q); [exact Hnd|exact Hne|]. simpl. congruence.
Qed.

Lemma near_end : forall sp P Q, outer sp P Q = [] -> endtok sp (P ++ Q) = endtok sp (outer (opp sp) P Q).
Proof. intros [|] P Q H; simpl in *; subst; [reflexivity|rewrite app_nil_r; reflexivity]. Qed.

Section Ends.
Variables get get' : string -> side -> option (option tk).
Variable sp : side.
Variables (Fa Near : list fdesc) (fd : fdesc).
Hypothesis Hopt : is_opt (f_kind fd) = true.
Hypothesis Hext_fa : forall sd fd0, In fd0 Fa -> get' (f_name fd0) sd = get (f_name fd0) sd.
Hypothesis Hext_near : forall sd fd0, In fd0 Near -> get' (f_name fd0) sd = get (f_name fd0) sd.
Hypothesis Habs : forall n sd sd', get n sd = Some None -> get n sd' = Some None.
Variable pv : tk.
Hypothesis Hpiv : eval_chain get (scheme_chain sp Near) = Some pv.
Variables P Q : list tk.
Hypothesis Hnear_ne : outer (opp sp) P Q <> [].

(* the end opposite to the pivot side does not move: some field between f and that end is present *)
Lemma toggle_ends_near : forall U U',
  eval_chain get (scheme_chain (opp sp) (rev Near ++ fd :: rev Fa)) = endtok (opp sp) (P ++ U ++ Q) ->
  eval_chain get' (scheme_chain (opp sp) (rev Near ++ fd :: rev Fa)) = endtok (opp sp) (P ++ U' ++ Q).
Proof.
  intros U U' Hold. rewrite scheme_chain_app in Hold |- *.
  rewrite (chain_pre_ext get get' (opp sp) (rev Near)) by (intros fd0 Hin; apply Hext_near; apply in_rev; exact Hin).
  destruct (chain_pre get (opp sp) (rev Near)) as [r|] eqn:Epre.
  - rewrite Hold. apply endtok_outer_cons. exact Hnear_ne.
  - exfalso. rewrite all_absent_chain in Hpiv; [discriminate|].
    intros fd0 Hin. apply (Habs _ (opp sp)). apply (chain_pre_none get (opp sp) (rev Near) Epre). apply in_rev in Hin. exact Hin.
Qed.

Hypothesis Hnd : NoDup (ids (P ++ Q)).
Hypothesis Hpv_end : endtok sp (outer (opp sp) P Q) = Some pv.
Hypothesis Hfar : forall fd0 t, In fd0 Fa -> get (f_name fd0) sp = Some (Some t) -> In t (outer sp P Q).

Lemma far_ne : forall t, chain_pre get sp Fa = Some (Some t) -> outer sp P Q <> [].
Proof.
  intros t H. destruct (chain_pre_from get sp Fa t H) as (fd0 & Hin & Hg).
  pose proof (Hfar fd0 t Hin Hg) as Ht. intro E. rewrite E in Ht. destruct Ht.
Qed.

(* a child appears at f *)
Lemma create_ends_far : forall M a,
  get (f_name fd) sp = Some None -> get' (f_name fd) sp = Some (Some a) -> endtok sp M = Some a ->
  eval_chain get (scheme_chain sp (Fa ++ fd :: Near)) = endtok sp (P ++ [] ++ Q) ->
  eval_chain get' (scheme_chain sp (Fa ++ fd :: Near)) = endtok sp (P ++ M ++ Q).
Proof.
  intros M a Hg Hg' HM Hold. rewrite scheme_chain_app in Hold |- *.
  rewrite (chain_pre_ext get get' sp Fa) by (intros fd0 Hin; apply Hext_fa; exact Hin).
  assert (HneM : M <> []) by (intro E; subst M; destruct sp; discriminate).
  destruct (chain_pre get sp Fa) as [r|] eqn:Epre.
  - rewrite Hold. apply endtok_outer_cons.
    destruct r as [t|].
    + exact (far_ne t Epre).
    + exfalso. simpl app in Hold. destruct (endtok_some sp (P ++ Q)) as (t0 & E0); [|rewrite E0 in Hold; discriminate].
      intro E. destruct sp; simpl in Hnear_ne; apply app_eq_nil in E; destruct E; auto.
  - rewrite (scheme_chain_opt_cons get _ _ _ Hopt) in Hold. rewrite (scheme_chain_opt_cons get' _ _ _ Hopt). rewrite Hg in Hold. rewrite Hg'.
    rewrite Hpiv in Hold. simpl app in Hold.
    assert (Hfn : outer sp P Q = []) by (apply (far_nil sp P Q pv); auto).
    rewrite (endtok_outer_nil sp P M Q HneM Hfn). symmetry. exact HM.
Qed.

(* the child at f disappears *)
Lemma remove_ends_far : forall M a,
  get (f_name fd) sp = Some (Some a) -> get' (f_name fd) sp = Some None -> endtok sp M = Some a ->
  NoDup (ids (P ++ M ++ Q)) ->
  eval_chain get (scheme_chain sp (Fa ++ fd :: Near)) = endtok sp (P ++ M ++ Q) ->
  eval_chain get' (scheme_chain sp (Fa ++ fd :: Near)) = endtok sp (P ++ [] ++ Q).
Proof.
  intros M a Hg Hg' HM HndM Hold. rewrite scheme_chain_app in Hold |- *.
  rewrite (chain_pre_ext get get' sp Fa) by (intros fd0 Hin; apply Hext_fa; exact Hin).
  assert (HneM : M <> []) by (intro E; subst M; destruct sp; discriminate).
  destruct (chain_pre get sp Fa) as [r|] eqn:Epre.
  - rewrite Hold. apply endtok_outer_cons.
    destruct r as [t|].
    + exact (far_ne t Epre).
    + exfalso. destruct (endtok_some sp (P ++ M ++ Q)) as (t0 & E0); [|rewrite E0 in Hold; discriminate].
      intro E. apply app_eq_nil in E. destruct E as [_ E]. apply app_eq_nil in E. destruct E. auto.
  - rewrite (scheme_chain_opt_cons get _ _ _ Hopt) in Hold. rewrite (scheme_chain_opt_cons get' _ _ _ Hopt). rewrite Hg in Hold. rewrite Hg'.
    rewrite (eval_scheme_ext get get' sp Near) by (intros fd0 Hin; apply Hext_near; exact Hin).
    rewrite Hpiv. simpl app.
    assert (Hfn : outer sp P Q = []).
    { apply (ends_outer sp P M Q HndM HneM). rewrite <- Hold. symmetry. exact HM. }
    rewrite (near_end sp P Q Hfn). symmetry. exact Hpv_end.
Qed.

(* the child at f disappears but something of the node remains beyond it: that end does not move, whatever stays in
   the child's place *)
Lemma remove_ends_far_kept : forall M M' a,
  get (f_name fd) sp = Some (Some a) -> endtok sp M = Some a ->
  NoDup (ids (P ++ M ++ Q)) -> outer sp P Q <> [] ->
  eval_chain get (scheme_chain sp (Fa ++ fd :: Near)) = endtok sp (P ++ M ++ Q) ->
  eval_chain get' (scheme_chain sp (Fa ++ fd :: Near)) = endtok sp (P ++ M' ++ Q).
Proof.
  intros M M' a Hg HM HndM Hq Hold. rewrite scheme_chain_app in Hold |- *.
  rewrite (chain_pre_ext get get' sp Fa) by (intros fd0 Hin; apply Hext_fa; exact Hin).
  assert (HneM : M <> []) by (intro E; rewrite E in HM; apply endtok_in in HM; destruct HM).
  destruct (chain_pre get sp Fa) as [r|] eqn:Epre.
  - rewrite Hold. apply endtok_outer_cons. exact Hq.
  - exfalso. rewrite (scheme_chain_opt_cons get _ _ _ Hopt) in Hold. rewrite Hg in Hold.
    apply Hq. apply (ends_outer sp P M Q HndM HneM). rewrite <- Hold. symmetry. exact HM.
Qed.
End Ends.


Section Toggle.
Variable cs : classes_t.
Hypothesis Hok : classes_ok cs.

(* one tree level whose child slot at f changes its units (possibly from / to none at all): the token list
   changes between the part P that holds the earlier fields and the part Q that holds the later ones *)
Lemma tree_toggle : forall c s T kids d f sl sl' K1 K2 P X X' Q N,
  HWF cs (Tree c s T kids d) ->
  kids = K1 ++ (f, sl) :: K2 -> set_kid kids f sl' = K1 ++ (f, sl') :: K2 ->
  T = P ++ X ++ Q ->
  woven P (kids_flat slot_units K1) -> woven X (slot_units sl) -> woven Q (kids_flat slot_units K2) ->
  woven X' (slot_units sl') ->
  NoDup (ids X') -> NoDup (ids (slot_leaves sl')) ->
  (forall t, In t (slot_leaves sl') -> In t X') ->
  (forall t, In t X' -> significant t = true -> In t (slot_leaves sl')) ->
  (forall t, In t X' -> In t X \/ In t N) ->
  (forall t, In t (slot_leaves sl') -> In t (slot_leaves sl) \/ In t N) ->
  (forall u, In u (slot_subunits subunits sl') ->
     unit_ok cs s u /\ woven (unit_toks u) (unit_children u) /\ exempt u = false /\ (forall n, u = UNode n -> SWF cs n)) ->
  (forall t t', In t N -> In t' T -> k_id t <> k_id t') ->
  P ++ X' ++ Q <> [] ->
  (exempt (UNode (Tree c s T kids d)) = false ->
   ends_ok cs (SReq (Tree c s (P ++ X' ++ Q) (set_kid kids f sl') d)) (P ++ X' ++ Q)) ->
  HWF cs (Tree c s (P ++ X' ++ Q) (set_kid kids f sl') d)
  /\ (forall t, In t (leaves (Tree c s (P ++ X' ++ Q) (set_kid kids f sl') d)) -> In t (leaves (Tree c s T kids d)) \/ In t N).
Proof.
  intros c s T kids d f sl sl' K1 K2 P X X' Q N Hroot EK EK' ET HwP HwX HwQ HwX' Y1 Y3 Y4 Y5 Itin Ilin Ysub Hfresh HneT' Hends.
  pose proof (HWF_SWF _ _ Hroot) as [Hwf Hwov]. destruct Hwf as (W1 & W2 & W3 & W4 & W5).
  simpl node_toks in *. simpl root_sid in W2. set (A := Tree c s T kids d) in *.
  assert (HuA : In (UNode A) (subunits A)) by (unfold A; rewrite subunits_tree; left; reflexivity).
  set (T' := P ++ X' ++ Q) in *. set (kids' := set_kid kids f sl') in *. set (A' := Tree c s T' kids' d).
  assert (Hink : forall k slk, In (k, slk) K1 \/ In (k, slk) K2 -> In (k, slk) kids).
  { intros k slk [H|H]; rewrite EK; apply in_or_app; [left; exact H|right; right; exact H]. }
  assert (Hsib : forall t, In t (kids_flat slot_leaves K1 ++ kids_flat slot_leaves K2) -> In t (P ++ Q)).
  { intros t Ht. apply in_app_or in Ht. apply in_or_app. destruct Ht as [Ht|Ht].
    - left. apply In_kids_flat in Ht. destruct Ht as (k & slk & Hin & Ht).
      destruct (slot_leaves_in_units cs _ _ _ _ _ _ _ Hroot (Hink _ _ (or_introl Hin)) t Ht) as (v & Hv & Htv).
      eapply woven_units_in; [exact HwP| |exact Htv]. apply In_kids_flat. exists k, slk. auto.
    - right. apply In_kids_flat in Ht. destruct Ht as (k & slk & Hin & Ht).
      destruct (slot_leaves_in_units cs _ _ _ _ _ _ _ Hroot (Hink _ _ (or_intror Hin)) t Ht) as (v & Hv & Htv).
      eapply woven_units_in; [exact HwQ| |exact Htv]. apply In_kids_flat. exists k, slk. auto. }
  assert (X4 : forall t, In t (slot_leaves sl) -> In t X).
  { intros t Ht. assert (Hin : In (f, sl) kids) by (rewrite EK; apply in_or_app; right; left; reflexivity).
    destruct (slot_leaves_in_units cs _ _ _ _ _ _ _ Hroot Hin t Ht) as (v & Hv & Htv).
    eapply woven_units_in; [exact HwX|exact Hv|exact Htv]. }
  assert (ELA : leaves A = kids_flat slot_leaves K1 ++ slot_leaves sl ++ kids_flat slot_leaves K2).
  { unfold A. rewrite leaves_tree, EK, kids_flat_app, kids_flat_cons. reflexivity. }
  assert (ELA' : leaves A' = kids_flat slot_leaves K1 ++ slot_leaves sl' ++ kids_flat slot_leaves K2).
  { unfold A'. rewrite leaves_tree, EK', kids_flat_app, kids_flat_cons. reflexivity. }
  rewrite ELA in W3, W4, W5. rewrite ET in W1, W4, W5.
  destruct (mid_conditions P X X' Q (kids_flat slot_leaves K1) (slot_leaves sl) (slot_leaves sl')
              (kids_flat slot_leaves K2) N W1 W3 W4 W5 Hsib X4 Y1 Y3 Y4 Y5 Itin Ilin)
    as (C1 & C3 & C4 & C5).
  { intros t t' Ht Ht'. apply Hfresh; auto. rewrite ET. exact Ht'. }
  assert (Hunits' : forall u, In u (proper_units A') -> In u (proper_units A) \/ In u (slot_subunits subunits sl')).
  { intros u Hu. unfold A' in Hu. simpl proper_units in Hu.
    rewrite EK', kids_flat_app, kids_flat_cons in Hu. unfold A. simpl proper_units.
    rewrite EK, kids_flat_app, kids_flat_cons.
    apply in_app_or in Hu. destruct Hu as [Hu|Hu]; [left; apply in_or_app; left; exact Hu|].
    apply in_app_or in Hu. destruct Hu as [Hu|Hu]; [right; exact Hu|left].
    apply in_or_app. right. apply in_or_app. right. exact Hu. }
  assert (Hunits : forall u, In u (subunits A') ->
            u = UNode A' \/ In u (proper_units A) \/ In u (slot_subunits subunits sl')).
  { intros u Hu. unfold A' in Hu. rewrite subunits_tree in Hu. destruct Hu as [E|Hu]; [left; auto|right].
    apply Hunits'. exact Hu. }
  assert (Hprop : forall u, In u (proper_units A) -> In u (subunits A))
    by (intros u Hu; unfold A; rewrite subunits_tree; right; exact Hu).
  assert (EU' : kids_units kids' = kids_flat slot_units K1 ++ slot_units sl' ++ kids_flat slot_units K2).
  { unfold kids_units. rewrite EK', kids_flat_app, kids_flat_cons. reflexivity. }
  assert (Hwov' : woven T' (kids_units kids')).
  { rewrite EU'. unfold T'. apply woven_app; [exact HwP|]. apply woven_app; assumption. }
  assert (HflA' : first_last cs (UNode A')).
  { destruct (W2 _ HuA) as (_ & HflA & _). destruct (exempt (UNode A)) eqn:HeA.
    - split; [exact HneT'|]. left. exact HeA.
    - apply ends_first_last; [exact HneT'|]. exact (Hends eq_refl). }
  assert (HswfA' : SWF cs A').
  { split.
    - unfold WF. simpl node_toks. simpl root_sid. rewrite ELA'. fold T'.
      split; [exact C1|]. split; [|split; [exact C3|split; [exact C4|exact C5]]].
      intros u Hu. destruct (Hunits u Hu) as [E|[Hu'|Hu']].
      + subst u. split; [reflexivity|]. split; [exact HflA'|].
        unfold A'. simpl unit_toks. simpl unit_children. apply woven_local_ok. exact Hwov'.
      + apply W2. apply Hprop. exact Hu'.
      + apply (Ysub u Hu').
    - intros u Hu. destruct (Hunits u Hu) as [E|[Hu'|Hu']].
      + subst u. unfold A'. simpl unit_toks. simpl unit_children. exact Hwov'.
      + apply Hwov. apply Hprop. exact Hu'.
      + apply (Ysub u Hu'). }
  split.
  - split.
    + intros n Hn. destruct (Hunits _ Hn) as [E|[Hu'|Hu']].
      * inversion E. exact HswfA'.
      * apply (proj1 Hroot). apply Hprop. exact Hu'.
      * destruct (Ysub _ Hu') as (_ & _ & _ & Hs). apply Hs. reflexivity.
    + intros u Hu. destruct (Hunits' _ Hu) as [Hu'|Hu'].
      * apply (proj2 Hroot). exact Hu'.
      * apply (Ysub u Hu').
  - fold A'. rewrite ELA'. intros t Ht. fold A. rewrite ELA. apply in_app_or in Ht. destruct Ht as [Ht|Ht].
    + left. apply in_or_app. left. exact Ht.
    + apply in_app_or in Ht. destruct Ht as [Ht|Ht].
      * destruct (Ilin t Ht) as [H0|H0]; [left; apply in_or_app; right; apply in_or_app; left; exact H0|right; exact H0].
      * left. apply in_or_app. right. apply in_or_app. right. exact Ht.
Qed.
End Toggle.


(* ---- fields and children in declaration order ------------------------------------------------------------------ *)
Lemma align_split : forall (K1 : list (string * slot)) f sl K2 (fs : list fdesc),
  map fst (K1 ++ (f, sl) :: K2) = map f_name fs ->
  exists A fd B, fs = A ++ fd :: B /\ map fst K1 = map f_name A /\ f_name fd = f /\ map fst K2 = map f_name B.
Proof.
  induction K1 as [|[k0 s0] K1 IH]; intros f sl K2 fs H; destruct fs as [|fd0 fs]; simpl in H; try discriminate.
  - inversion H. exists [], fd0, fs. auto.
  - inversion H as [[E1 E2]]. destruct (IH _ _ _ _ E2) as (A & fd & B & EA & E3 & E4 & E5).
    exists (fd0 :: A), fd, B. subst fs. simpl. rewrite E3. auto.
Qed.

Lemma find_field_mid : forall A fd B, ~ In (f_name fd) (map f_name A) -> find_field (A ++ fd :: B) (f_name fd) = Some fd.
Proof.
  induction A as [|a A IH]; intros fd B H; simpl.
  - rewrite String.eqb_refl. reflexivity.
  - destruct (String.eqb (f_name a) (f_name fd)) eqn:E.
    + apply String.eqb_eq in E. exfalso. apply H. left. exact E.
    + apply IH. intro Hin. apply H. right. exact Hin.
Qed.

Lemma after_field_mid : forall A fd B, ~ In (f_name fd) (map f_name A) -> after_field (f_name fd) (A ++ fd :: B) = B.
Proof.
  induction A as [|a A IH]; intros fd B H; simpl.
  - rewrite String.eqb_refl. reflexivity.
  - destruct (String.eqb (f_name a) (f_name fd)) eqn:E.
    + apply String.eqb_eq in E. exfalso. apply H. left. exact E.
    + apply IH. intro Hin. apply H. right. exact Hin.
Qed.

Lemma before_field_mid : forall A fd B, ~ In (f_name fd) (map f_name B) -> before_field (f_name fd) (A ++ fd :: B) = A.
Proof.
  intros A fd B H. unfold before_field. rewrite rev_app_distr. simpl rev. rewrite <- app_assoc. simpl app.
  rewrite after_field_mid; [apply rev_involutive|]. rewrite map_rev. intro Hin. apply H. apply in_rev. exact Hin.
Qed.

Lemma NoDup_mid : forall {A} (l1 : list A) x l2, NoDup (l1 ++ x :: l2) -> ~ In x l1 /\ ~ In x l2.
Proof.
  intros A l1 x l2 H. apply NoDup_remove_2 in H. split; intro Hin; apply H; apply in_or_app; auto.
Qed.

Lemma pivots_ok_lookup : forall dd fd ch, pivots_ok dd = true -> In fd (c_fields dd) ->
  scheme_pivot (c_fields dd) fd = Some ch -> lookup (pivot_name (f_name fd)) (c_pivots dd) = Some ch.
Proof.
  intros dd fd ch H Hin Hs. unfold pivots_ok in H. apply andb_true_iff in H. destruct H as [H _].
  rewrite forallb_forall in H. specialize (H fd Hin). rewrite Hs in H.
  destruct (lookup (pivot_name (f_name fd)) (c_pivots dd)) as [ch'|]; [|discriminate].
  apply chain_eqb_eq in H. subst. reflexivity.
Qed.

Lemma slot_border_none : forall b sd sl, slot_border b sd sl = Some None -> sl = SOpt None.
Proof.
  intros b sd [x|[x|]|s t ph items|items] H; simpl in H; auto.
  - destruct (b x); discriminate.
  - destruct (b x); discriminate.
  - destruct sd; [discriminate|]. destruct (rev items); [discriminate|]. destruct (b n); discriminate.
  - destruct (match sd with SFirst => items | SLast => rev items end); [discriminate|]. destruct (b n); discriminate.
Qed.

Lemma units_absent : forall K : list (string * slot), (forall k sl, In (k, sl) K -> sl = SOpt None) -> kids_flat slot_units K = [].
Proof.
  induction K as [|[k sl] K IH]; intro H; [reflexivity|].
  rewrite kids_flat_cons, (H k sl (or_introl eq_refl)), IH; [reflexivity|]. intros k' sl' Hin. apply (H k' sl'). right. exact Hin.
Qed.

(* the chain over the fields L, evaluated on children KL stored in the same order, stops at the first present child *)
Lemma pivot_locate : forall (get : string -> side -> option (option tk)) (b : node -> option tk) sp L KL pv,
  map fst KL = map f_name L ->
  (forall k sl, In (k, sl) KL -> get k sp = slot_border b sp sl) ->
  eval_chain get (scheme_chain sp L) = Some pv ->
  exists Kabs k0 sl0 Krest, KL = Kabs ++ (k0, sl0) :: Krest
    /\ (forall k sl, In (k, sl) Kabs -> sl = SOpt None)
    /\ slot_border b sp sl0 = Some (Some pv).
Proof.
  intros get b sp L. induction L as [|fd L IH]; intros KL pv Hal Hget Hev; [discriminate|].
  destruct KL as [|[k sl] KL]; [discriminate|]. simpl in Hal. inversion Hal as [[Ek Hal']]. subst k.
  pose proof (Hget (f_name fd) sl (or_introl eq_refl)) as Hg.
  assert (Hstop : slot_border b sp sl = Some (Some pv) ->
    exists Kabs k0 sl0 Krest, (f_name fd, sl) :: KL = Kabs ++ (k0, sl0) :: Krest
      /\ (forall k sl, In (k, sl) Kabs -> sl = SOpt None) /\ slot_border b sp sl0 = Some (Some pv)).
  { intro E. exists [], (f_name fd), sl, KL. split; [reflexivity|]. split; [intros ? ? []|exact E]. }
  simpl in Hev. destruct (f_kind fd); simpl in Hev; destruct (get (f_name fd) sp) as [[t|]|] eqn:Eg; try discriminate;
    try (injection Hev as Et; apply Hstop; rewrite <- Et; symmetry; exact Hg).
  - destruct (IH KL pv Hal' (fun k' sl' Hin => Hget k' sl' (or_intror Hin)) Hev) as (Kabs & k0 & sl0 & Krest & E & Ha & Hb).
    exists ((f_name fd, sl) :: Kabs), k0, sl0, Krest. split; [rewrite E; reflexivity|]. split; [|exact Hb].
    intros k' sl' [E'|Hin]; [inversion E'; subst; symmetry in Hg; exact (slot_border_none _ _ _ Hg)|exact (Ha _ _ Hin)].
  - destruct (IH KL pv Hal' (fun k' sl' Hin => Hget k' sl' (or_intror Hin)) Hev) as (Kabs & k0 & sl0 & Krest & E & Ha & Hb).
    exists ((f_name fd, sl) :: Kabs), k0, sl0, Krest. split; [rewrite E; reflexivity|]. split; [|exact Hb].
    intros k' sl' [E'|Hin]; [inversion E'; subst; symmetry in Hg; exact (slot_border_none _ _ _ Hg)|exact (Ha _ _ Hin)].
Qed.

Lemma kids_flat_rev_absent : forall {A} (g : slot -> list A) (K : list (string * slot)),
  (forall k sl, In (k, sl) K -> g sl = []) -> kids_flat g K = [].
Proof.
  intros A g K. induction K as [|[k sl] K IH]; intro H; [reflexivity|].
  rewrite kids_flat_cons, (H k sl (or_introl eq_refl)), IH; [reflexivity|]. intros k' sl' Hin. apply (H k' sl'). right. exact Hin.
Qed.

Section Nodes.
Variable cs : classes_t.

Lemma HWF_slot_node : forall c s T kids d k sl z, HWF cs (Tree c s T kids d) -> In (k, sl) kids -> In z (slot_nodes sl) ->
  SWF cs z /\ exempt (UNode z) = false.
Proof.
  intros c s T kids d k sl z [H1 H2] Hin Hz. destruct z as [t|c0 s0 T0 k0 d0]; [split; [apply SWF_leaf|reflexivity]|].
  assert (Hu : In (UNode (Tree c0 s0 T0 k0 d0)) (proper_units (Tree c s T kids d))).
  { simpl. apply In_kids_flat. exists k, sl. split; auto.
    destruct sl as [x|[x|]|rs rt ph items|items]; simpl in Hz |- *.
    - destruct Hz as [E|[]]. subst. left. reflexivity.
    - destruct Hz as [E|[]]. subst. left. reflexivity.
    - destruct Hz.
    - right. apply in_flat_map. eexists. split; [exact Hz|]. left. reflexivity.
    - apply in_flat_map. eexists. split; [exact Hz|]. left. reflexivity. }
  split; [apply H1; rewrite subunits_tree; right; exact Hu|apply H2; exact Hu].
Qed.

Lemma border_end : forall z m sd t, SWF cs z -> exempt (UNode z) = false ->
  border cs m sd z = Some t -> endtok sd (node_toks z) = Some t.
Proof.
  intros z m sd t Hs He Hb. destruct (node_ends cs z Hs He) as [(m0 & H0) _].
  pose proof (H0 (Nat.max m m0) sd (Nat.le_max_r _ _)) as H. cbn [slot_border] in H.
  rewrite (border_mono_le cs m (Nat.max m m0) sd z t (Nat.le_max_l _ _) Hb) in H. inversion H. reflexivity.
Qed.

Definition unit_at (sd : side) (us : list (list tk)) (t : tk) : Prop :=
  match sd with
  | SFirst => exists ul us1, us = ul :: us1 /\ endtok SFirst ul = Some t
  | SLast => exists us0 ul, us = us0 ++ [ul] /\ endtok SLast ul = Some t
  end.

Lemma unit_at_single : forall sd u t, endtok sd u = Some t -> unit_at sd [u] t.
Proof. intros [|] u t H; simpl; [exists u, []|exists [], u]; auto. Qed.

(* the first / last token of a child slot is the first / last token of its first / last unit *)
Lemma slot_border_unit : forall c s T kids d g sl m sd t,
  HWF cs (Tree c s T kids d) -> kid kids g = Some sl ->
  slot_border (border cs m sd) sd sl = Some (Some t) -> unit_at sd (slot_units sl) t.
Proof.
  intros c s T kids d g sl m sd t Hroot Ek H. pose proof (kid_In _ _ _ Ek) as Hin.
  destruct sl as [x|[x|]|rs rt ph items|items]; cbn [slot_border] in H.
  - destruct (border cs m sd x) as [t'|] eqn:Eb; inversion H. subst t'.
    destruct (HWF_slot_node _ _ _ _ _ _ _ x Hroot Hin (or_introl eq_refl)) as [Hs He].
    apply unit_at_single. exact (border_end x m sd t Hs He Eb).
  - destruct (border cs m sd x) as [t'|] eqn:Eb; inversion H. subst t'.
    destruct (HWF_slot_node _ _ _ _ _ _ _ x Hroot Hin (or_introl eq_refl)) as [Hs He].
    apply unit_at_single. exact (border_end x m sd t Hs He Eb).
  - discriminate.
  - destruct (rep_basic cs c s T kids d g rs rt ph items Hroot Ek) as (_ & _ & _ & (m0 & H0) & _ & _).
    pose proof (H0 (Nat.max m m0) sd (Nat.le_max_r _ _)) as H'.
    assert (H2 : slot_border (border cs (Nat.max m m0) sd) sd (SRep rs rt ph items) = Some (Some t)).
    { eapply slot_border_mono_le; [apply Nat.le_max_l|]. cbn [slot_border]. exact H. }
    rewrite H2 in H'. inversion H'. apply unit_at_single. auto.
  - destruct sd.
    + destruct items as [|z r]; [discriminate|]. destruct (border cs m SFirst z) as [t'|] eqn:Eb; inversion H. subst t'.
      destruct (HWF_slot_node _ _ _ _ _ _ _ z Hroot Hin (or_introl eq_refl)) as [Hs He].
      simpl. exists (node_toks z), (map node_toks r). split; [reflexivity|]. exact (border_end z m SFirst t Hs He Eb).
    + destruct (rev items) as [|z r] eqn:Er; [discriminate|]. destruct (border cs m SLast z) as [t'|] eqn:Eb; inversion H. subst t'.
      apply rev_cons_snoc in Er. subst items.
      destruct (HWF_slot_node _ _ _ _ _ _ _ z Hroot Hin) as [Hs He]; [simpl; apply in_or_app; right; left; reflexivity|].
      simpl. rewrite map_app. exists (map node_toks (rev r)), (node_toks z). split; [reflexivity|].
      exact (border_end z m SLast t Hs He Eb).
Qed.

Lemma kids_get_mono : forall m m' kids n sd v, m <= m' ->
  kids_get cs m kids n sd = Some v -> kids_get cs m' kids n sd = Some v.
Proof.
  intros m m' kids n sd v Hle H. unfold kids_get in *. destruct (kid kids n) as [sl|]; [|discriminate].
  eapply slot_border_mono_le; eauto.
Qed.

Lemma kids_get_abs : forall m kids n sd sd', kids_get cs m kids n sd = Some None -> kids_get cs m kids n sd' = Some None.
Proof.
  intros m kids n sd sd' H. unfold kids_get in *. destruct (kid kids n) as [sl|]; [|discriminate].
  apply slot_border_none in H. subst. reflexivity.
Qed.
End Nodes.


Definition classes_pivots_ok (cs : classes_t) : Prop := forall c, In c cs -> pivots_ok c = true.

Section Site.
Variable cs : classes_t.
Hypothesis Hok : classes_ok cs.
Hypothesis Hpivs : classes_pivots_ok cs.

Lemma border_tree_get : forall m sd c s T kids d,
  border cs (S m) sd (Tree c s T kids d)
  = match find_class cs c with
    | None => None
    | Some dd => eval_chain (kids_get cs m kids) (match sd with SFirst => c_first dd | SLast => c_last dd end)
    end.
Proof. reflexivity. Qed.

(* what a successful opt_pivot tells: the class, the field among its fields, the children in the same order, and
   the pivot chain of the generic scheme evaluated on the children *)
Record opt_site (c : string) (kids : list (string * slot)) (f : string) (sl : slot) (k : fkind) (pv : tk) (m0 : nat)
       (dd : cdesc) (A : list fdesc) (fd : fdesc) (B : list fdesc) (K1 K2 : list (string * slot)) : Prop := {
  os_class : find_class cs c = Some dd;
  os_fields : c_fields dd = A ++ fd :: B;
  os_kids : kids = K1 ++ (f, sl) :: K2;
  os_set : forall sl', set_kid kids f sl' = K1 ++ (f, sl') :: K2;
  os_nodup : NoDup (map fst kids);
  os_k1 : map fst K1 = map f_name A;
  os_k2 : map fst K2 = map f_name B;
  os_name : f_name fd = f;
  os_kind : f_kind fd = k;
  os_chain : match k with
             | FOptL _ => eval_chain (kids_get cs m0 kids) (scheme_chain SLast (rev A)) = Some pv
             | FOptR _ => eval_chain (kids_get cs m0 kids) (scheme_chain SFirst B) = Some pv
             | _ => False
             end
}.

Lemma opt_site_of : forall c s T kids d f sl k pv,
  kid kids f = Some sl -> opt_pivot cs (Tree c s T kids d) f = Some (k, pv) -> is_opt k = true ->
  exists dd A fd B K1 K2, opt_site c kids f sl k pv (depth (Tree c s T kids d)) dd A fd B K1 K2.
Proof.
  intros c s T kids d f sl k pv Ek H Hk. unfold opt_pivot in H.
  destruct (find_class cs c) as [dd|] eqn:Ec; [|discriminate].
  destruct (names_eqb (map fst kids) (names dd) && nodupb (map fst kids)) eqn:Eg; [|discriminate].
  apply andb_true_iff in Eg. destruct Eg as [Eal End]. apply names_eqb_eq in Eal. apply nodupb_NoDup in End.
  destruct (find_field (c_fields dd) f) as [fd0|] eqn:Ef; [|discriminate].
  destruct (lookup (pivot_name f) (c_pivots dd)) as [ch|] eqn:El; [|discriminate].
  destruct (eval_chain (kids_get cs (depth (Tree c s T kids d)) kids) ch) as [pv0|] eqn:Ev; [|discriminate].
  inversion H. subst k pv0. clear H.
  destruct (kid_split _ _ _ Ek) as (K1 & K2 & EK & Eset).
  unfold names in Eal. pose proof Eal as Eal'. rewrite EK in Eal'.
  destruct (align_split K1 f sl K2 (c_fields dd) Eal') as (A & fd & B & EF & E1 & E2 & E3).
  assert (Hndn : NoDup (map f_name (A ++ fd :: B))) by (rewrite <- EF, <- Eal; exact End).
  rewrite map_app in Hndn. simpl in Hndn. destruct (NoDup_mid _ _ _ Hndn) as [HnA HnB].
  assert (Efd : fd0 = fd).
  { rewrite EF, <- E2, (find_field_mid A fd B HnA) in Ef. inversion Ef. reflexivity. }
  subst fd0.
  assert (Hin : In fd (c_fields dd)) by (rewrite EF; apply in_or_app; right; left; reflexivity).
  destruct (find_class_In _ _ _ Ec) as [Hdd _].
  exists dd, A, fd, B, K1, K2. constructor; auto.
  destruct (f_kind fd) as [|seps|seps|? ?] eqn:Ekd; try discriminate.
  - assert (Hs : scheme_pivot (c_fields dd) fd = Some (scheme_chain SLast (rev A))).
    { unfold scheme_pivot. rewrite Ekd, EF, (before_field_mid A fd B HnB). reflexivity. }
    rewrite <- E2, (pivots_ok_lookup dd fd _ (Hpivs dd Hdd) Hin Hs) in El. inversion El. subst ch. exact Ev.
  - assert (Hs : scheme_pivot (c_fields dd) fd = Some (scheme_chain SFirst B)).
    { unfold scheme_pivot. rewrite Ekd, EF, (after_field_mid A fd B HnA). reflexivity. }
    rewrite <- E2, (pivots_ok_lookup dd fd _ (Hpivs dd Hdd) Hin Hs) in El. inversion El. subst ch. exact Ev.
Qed.

Lemma match_some_inv : forall (o e : option tk),
  match o with Some t => Some (Some t) | None => None end = Some e -> o = e.
Proof. intros [t|] e H; inversion H; reflexivity. Qed.

(* the first and the last token of the node after the child at f appeared (X = [] -> X') or went away (X -> X' = []) *)
Lemma opt_ends : forall c s T kids d dd sp Fa Near fd sl sl' m0 pv P X X' Q,
  HWF cs (Tree c s T kids d) -> exempt (UNode (Tree c s T kids d)) = false ->
  find_class cs c = Some dd ->
  (match sp with SFirst => c_first dd | SLast => c_last dd end) = scheme_chain sp (Fa ++ fd :: Near) ->
  (match opp sp with SFirst => c_first dd | SLast => c_last dd end) = scheme_chain (opp sp) (rev Near ++ fd :: rev Fa) ->
  is_opt (f_kind fd) = true -> kid kids (f_name fd) = Some sl ->
  (forall fd0, In fd0 Fa -> f_name fd0 <> f_name fd) -> (forall fd0, In fd0 Near -> f_name fd0 <> f_name fd) ->
  eval_chain (kids_get cs m0 kids) (scheme_chain sp Near) = Some pv ->
  T = P ++ X ++ Q -> outer (opp sp) P Q <> [] -> endtok sp (outer (opp sp) P Q) = Some pv ->
  (forall fd0 sl0 t, In fd0 Fa -> kid kids (f_name fd0) = Some sl0 -> In t (slot_leaves sl0) -> In t (outer sp P Q)) ->
  ((sl = SOpt None /\ X = [] /\ exists y, sl' = SOpt (Some y) /\ ends_ok cs (SReq y) (node_toks y)
      /\ node_toks y <> [] /\ endtok sp X' = endtok sp (node_toks y))
   \/ (X' = [] /\ sl' = SOpt None /\ exists x, sl = SOpt (Some x) /\ ends_ok cs (SReq x) (node_toks x)
      /\ node_toks x <> [] /\ endtok sp X = endtok sp (node_toks x))
   \/ (outer sp P Q <> [] /\ sl' = SOpt None /\ exists x, sl = SOpt (Some x) /\ ends_ok cs (SReq x) (node_toks x)
      /\ node_toks x <> [] /\ endtok sp X = endtok sp (node_toks x))) ->
  ends_ok cs (SReq (Tree c s (P ++ X' ++ Q) (set_kid kids (f_name fd) sl') d)) (P ++ X' ++ Q).
Proof.
  intros c s T kids d dd sp Fa Near fd sl sl' m0 pv P X X' Q Hroot Hex Hclass Hc_sp Hc_op Hopt Hk Hnf_fa Hnf_near
         Hpiv ET Hnear_ne Hpv_end Hfar Hmode.
  pose proof (HWF_SWF _ _ Hroot) as Hswf.
  destruct (node_ends cs _ Hswf Hex) as [(m1 & H1) HneT]. simpl node_toks in *.
  pose proof Hswf as [(Hnd & _) _]. simpl node_toks in Hnd.
  assert (Hchild : exists z m2, (sl = SOpt (Some z) \/ sl' = SOpt (Some z))
            /\ (forall m sd, m2 <= m -> slot_border (border cs m sd) sd (SReq z) = Some (endtok sd (node_toks z)))).
  { destruct Hmode as [(_ & _ & y & E & (m2 & H2) & _)|[(_ & _ & x & E & (m2 & H2) & _)|(_ & _ & x & E & (m2 & H2) & _)]];
      [exists y, m2|exists x, m2|exists x, m2]; auto. }
  destruct Hchild as (z & m2 & Hz & H2).
  exists (S (m0 + m1 + m2)). intros m sd Hm. destruct m as [|m']; [lia|].
  set (kids' := set_kid kids (f_name fd) sl').
  set (get := kids_get cs m' kids). set (get' := kids_get cs m' kids').
  assert (Hold : forall sd0, eval_chain get (match sd0 with SFirst => c_first dd | SLast => c_last dd end) = endtok sd0 T).
  { intro sd0. pose proof (H1 (S m') sd0 ltac:(lia)) as H. cbn [slot_border] in H. rewrite border_tree_get, Hclass in H.
    apply match_some_inv in H. exact H. }
  assert (Hext : forall sd0 g, g <> f_name fd -> get' g sd0 = get g sd0).
  { intros sd0 g Hg. unfold get', get, kids_get, kids'. rewrite (kid_set_kid _ _ _ _ _ Hk).
    destruct (String.eqb (f_name fd) g) eqn:E; auto. apply String.eqb_eq in E. congruence. }
  assert (Hext_fa : forall sd0 fd0, In fd0 Fa -> get' (f_name fd0) sd0 = get (f_name fd0) sd0)
    by (intros sd0 fd0 Hin; apply Hext; apply Hnf_fa; exact Hin).
  assert (Hext_near : forall sd0 fd0, In fd0 Near -> get' (f_name fd0) sd0 = get (f_name fd0) sd0)
    by (intros sd0 fd0 Hin; apply Hext; apply Hnf_near; exact Hin).
  assert (Habs : forall n sd0 sd', get n sd0 = Some None -> get n sd' = Some None)
    by (intros n sd0 sd'; apply kids_get_abs).
  assert (Hpiv' : eval_chain get (scheme_chain sp Near) = Some pv).
  { eapply eval_chain_mono; [|exact Hpiv]. intros n s0 v Hv. eapply kids_get_mono; [|exact Hv]. lia. }
  assert (Hfar' : forall fd0 t, In fd0 Fa -> get (f_name fd0) sp = Some (Some t) -> In t (outer sp P Q)).
  { intros fd0 t Hin Hg. unfold get, kids_get in Hg. destruct (kid kids (f_name fd0)) as [sl0|] eqn:Ek0; [|discriminate].
    apply (Hfar fd0 sl0 t Hin Ek0). eapply slot_border_in_leaves; [|exact Hg].
    intros x0 t' Hx0. eapply border_in_leaves; eauto. }
  assert (Hgetf : get (f_name fd) sp = slot_border (border cs m' sp) sp sl) by (unfold get, kids_get; rewrite Hk; reflexivity).
  assert (Hgetf' : get' (f_name fd) sp = slot_border (border cs m' sp) sp sl').
  { unfold get', kids_get, kids'. rewrite (kid_set_kid _ _ _ _ _ Hk), String.eqb_refl. reflexivity. }
  assert (Hop : eval_chain get' (scheme_chain (opp sp) (rev Near ++ fd :: rev Fa)) = endtok (opp sp) (P ++ X' ++ Q)).
  { apply (toggle_ends_near get get' sp Fa Near fd Hext_near Habs pv Hpiv' P Q Hnear_ne X X').
    rewrite <- Hc_op, <- ET. apply Hold. }
  assert (Hsp : eval_chain get' (scheme_chain sp (Fa ++ fd :: Near)) = endtok sp (P ++ X' ++ Q)).
  { pose proof (Hold sp) as Ho. rewrite Hc_sp, ET in Ho.
    destruct Hmode as [(Esl & EX & y & Esl' & _ & Hney & HX')|[(EX' & Esl' & x & Esl & _ & Hnex & HX)|(Hq & Esl' & x & Esl & _ & Hnex & HX)]].
    - subst sl X sl'. destruct (endtok_some sp (node_toks y) Hney) as (a & Ea).
      assert (z = y) by (destruct Hz as [E|E]; inversion E; reflexivity). subst z.
      apply (create_ends_far get get' sp Fa Near fd Hopt Hext_fa pv Hpiv' P Q Hnear_ne) with (a := a); auto.
      + rewrite ET in Hnd. exact Hnd.
      + rewrite Hgetf'. pose proof (H2 m' sp ltac:(lia)) as Hy. cbn [slot_border] in Hy |- *. rewrite Hy, Ea. reflexivity.
      + rewrite HX'. exact Ea.
    - subst sl X' sl'. destruct (endtok_some sp (node_toks x) Hnex) as (a & Ea).
      assert (z = x) by (destruct Hz as [E|E]; inversion E; reflexivity). subst z.
      apply (remove_ends_far get get' sp Fa Near fd Hopt Hext_fa Hext_near pv Hpiv' P Q Hnear_ne Hpv_end Hfar') with (M := X) (a := a); auto.
      + rewrite Hgetf. pose proof (H2 m' sp ltac:(lia)) as Hy. cbn [slot_border] in Hy |- *. rewrite Hy, Ea. reflexivity.
      + rewrite HX. exact Ea.
      + rewrite ET in Hnd. exact Hnd.
    - subst sl sl'. destruct (endtok_some sp (node_toks x) Hnex) as (a & Ea).
      assert (z = x) by (destruct Hz as [E|E]; inversion E; reflexivity). subst z.
      eapply remove_ends_far_kept with (get := get) (M := X) (a := a).
      all: first [exact Hopt|exact Hext_fa|exact Hq|exact Ho|(rewrite HX; exact Ea)|(rewrite ET in Hnd; exact Hnd)
                 |(rewrite Hgetf; pose proof (H2 m' sp ltac:(lia)) as Hy; cbn [slot_border] in Hy |- *; rewrite Hy, Ea; reflexivity)]. }
  cbn [slot_border]. rewrite border_tree_get, Hclass. fold kids'. fold get'.
  assert (Hres : eval_chain get' (match sd with SFirst => c_first dd | SLast => c_last dd end) = endtok sd (P ++ X' ++ Q)).
  { destruct sd, sp; simpl opp in *; rewrite ?Hc_sp, ?Hc_op; assumption. }
  rewrite Hres. destruct (endtok_some sd (P ++ X' ++ Q)) as (t0 & E0); [|rewrite E0; reflexivity].
  intro E. apply app_eq_nil in E. destruct E as [E1 E2]. apply app_eq_nil in E2. destruct E2 as [_ E2].
  destruct sp; simpl in Hnear_ne; auto.
Qed.
End Site.


Lemma pos_after : forall Ta ul T2 pv a, endtok SLast ul = Some pv -> NoDup (ids ((Ta ++ ul) ++ T2)) ->
  find_off pv ((Ta ++ ul) ++ T2) = Some a -> S a = length (Ta ++ ul).
Proof.
  intros Ta ul T2 pv a He Hnd Hf.
  assert (Hne : ul <> []) by (intro E; subst ul; discriminate).
  pose proof (after_unit_pos Ta ul T2 Hnd Hne) as H. unfold after_unit in H. simpl in He.
  destruct (rev ul) as [|z r]; [discriminate|]. simpl in He. inversion He. subst z. rewrite Hf in H. simpl in H.
  inversion H. reflexivity.
Qed.

Lemma pos_at : forall P ul R pv a, endtok SFirst ul = Some pv -> NoDup (ids (P ++ ul ++ R)) ->
  find_off pv (P ++ ul ++ R) = Some a -> a = length P.
Proof.
  intros P ul R pv a He Hnd Hf. destruct ul as [|z ul]; [discriminate|]. simpl in He. inversion He. subst z.
  simpl app in *. rewrite (find_off_app P pv (ul ++ R) Hnd) in Hf. inversion Hf. reflexivity.
Qed.

Section OptOps.
Variable cs : classes_t.
Hypothesis Hok : classes_ok cs.
Hypothesis Hpivs : classes_pivots_ok cs.

(* the leaves of the children K (a part of kids) lie in the part of the token list that weaves K's units *)
Lemma leaves_in_part : forall c s T kids d K Part,
  HWF cs (Tree c s T kids d) -> NoDup (map fst kids) -> (forall k sl, In (k, sl) K -> In (k, sl) kids) ->
  woven Part (kids_flat slot_units K) ->
  forall name sl0 t, In name (map fst K) -> kid kids name = Some sl0 -> In t (slot_leaves sl0) -> In t Part.
Proof.
  intros c s T kids d K Part Hroot Hnd Hsub Hw name sl0 t Hname Hk Ht.
  apply in_map_iff in Hname. destruct Hname as ([k0 sl1] & E & Hin). simpl in E. subst k0.
  pose proof (In_kid _ _ _ Hnd (Hsub _ _ Hin)) as Hk'. rewrite Hk in Hk'. inversion Hk'. subst sl1.
  destruct (slot_leaves_in_units cs _ _ _ _ _ _ _ Hroot (Hsub _ _ Hin) t Ht) as (v & Hv & Htv).
  eapply woven_units_in; [exact Hw| |exact Htv]. apply In_kids_flat. exists name, sl0. auto.
Qed.

Lemma kids_get_in : forall m kids K sd, NoDup (map fst kids) -> (forall k sl, In (k, sl) K -> In (k, sl) kids) ->
  forall k sl, In (k, sl) K -> kids_get cs m kids k sd = slot_border (border cs m sd) sd sl.
Proof.
  intros m kids K sd Hnd Hsub k sl Hin. unfold kids_get. rewrite (In_kid _ _ _ Hnd (Hsub _ _ Hin)). reflexivity.
Qed.

Lemma left_pivot_unit : forall c s T kids d K1 A m0 pv,
  HWF cs (Tree c s T kids d) -> NoDup (map fst kids) -> (forall k sl, In (k, sl) K1 -> In (k, sl) kids) ->
  map fst K1 = map f_name A ->
  eval_chain (kids_get cs m0 kids) (scheme_chain SLast (rev A)) = Some pv ->
  exists us0 ul, kids_flat slot_units K1 = us0 ++ [ul] /\ endtok SLast ul = Some pv.
Proof.
  intros c s T kids d K1 A m0 pv Hroot Hnd Hsub Hal Hev.
  destruct (pivot_locate (kids_get cs m0 kids) (border cs m0 SLast) SLast (rev A) (rev K1) pv) as (Kabs & k0 & sl0 & Krest & E & Ha & Hb).
  - rewrite !map_rev, Hal. reflexivity.
  - intros k sl Hin. apply (kids_get_in m0 kids K1 SLast Hnd Hsub). apply in_rev. exact Hin.
  - exact Hev.
  - assert (EK1 : K1 = rev Krest ++ (k0, sl0) :: rev Kabs).
    { rewrite <- (rev_involutive K1), E, rev_app_distr. simpl. rewrite <- app_assoc. reflexivity. }
    assert (Hin0 : In (k0, sl0) K1) by (rewrite EK1; apply in_or_app; right; left; reflexivity).
    pose proof (slot_border_unit cs c s T kids d k0 sl0 m0 SLast pv Hroot (In_kid _ _ _ Hnd (Hsub _ _ Hin0)) Hb) as (us0 & ul & Eu & He).
    exists (kids_flat slot_units (rev Krest) ++ us0), ul. split; [|exact He].
    rewrite EK1, kids_flat_app, kids_flat_cons, Eu, (units_absent (rev Kabs)); [rewrite app_nil_r, <- app_assoc; reflexivity|].
    intros k sl Hin. apply (Ha k sl). apply in_rev. exact Hin.
Qed.

Lemma right_pivot_unit : forall c s T kids d K2 B m0 pv,
  HWF cs (Tree c s T kids d) -> NoDup (map fst kids) -> (forall k sl, In (k, sl) K2 -> In (k, sl) kids) ->
  map fst K2 = map f_name B ->
  eval_chain (kids_get cs m0 kids) (scheme_chain SFirst B) = Some pv ->
  exists ul us1, kids_flat slot_units K2 = ul :: us1 /\ endtok SFirst ul = Some pv.
Proof.
  intros c s T kids d K2 B m0 pv Hroot Hnd Hsub Hal Hev.
  destruct (pivot_locate (kids_get cs m0 kids) (border cs m0 SFirst) SFirst B K2 pv Hal) as (Kabs & k0 & sl0 & Krest & E & Ha & Hb).
  - intros k sl Hin. apply (kids_get_in m0 kids K2 SFirst Hnd Hsub). exact Hin.
  - exact Hev.
  - assert (Hin0 : In (k0, sl0) K2) by (rewrite E; apply in_or_app; right; left; reflexivity).
    pose proof (slot_border_unit cs c s T kids d k0 sl0 m0 SFirst pv Hroot (In_kid _ _ _ Hnd (Hsub _ _ Hin0)) Hb) as (ul & us1 & Eu & He).
    exists ul, (us1 ++ kids_flat slot_units Krest). split; [|exact He].
    rewrite E, kids_flat_app, kids_flat_cons, Eu, (units_absent Kabs Ha). reflexivity.
Qed.

Lemma part_leaves : forall c s T kids d K Part,
  HWF cs (Tree c s T kids d) -> (forall k sl, In (k, sl) K -> In (k, sl) kids) ->
  woven Part (kids_flat slot_units K) -> forall t, In t (kids_flat slot_leaves K) -> In t Part.
Proof.
  intros c s T kids d K Part Hroot Hsub Hw t Ht. apply In_kids_flat in Ht. destruct Ht as (k & slk & Hin & Ht).
  destruct (slot_leaves_in_units cs _ _ _ _ _ _ _ Hroot (Hsub _ _ Hin) t Ht) as (v & Hv & Htv).
  eapply woven_units_in; [exact Hw| |exact Htv]. apply In_kids_flat. exists k, slk. auto.
Qed.

Lemma nodup_ids_out : forall A t B, NoDup (ids (A ++ t :: B)) -> ~ In t A /\ ~ In t B.
Proof.
  intros A t B H. unfold ids in H. rewrite map_app in H. simpl in H. apply NoDup_remove_2 in H.
  split; intro Hin; apply H; apply in_or_app; [left|right]; apply in_map; exact Hin.
Qed.

(* a token of G in P ++ (G ++ Y) ++ Q or P ++ (Y ++ G) ++ Q occurs nowhere else *)
Lemma nodup_part_only : forall P A B Q t, NoDup (ids (P ++ (A ++ B) ++ Q)) ->
  (In t A -> ~ In t P /\ ~ In t B /\ ~ In t Q) /\ (In t B -> ~ In t P /\ ~ In t A /\ ~ In t Q).
Proof.
  intros P A B Q t H. split; intro Ht; destruct (in_split _ _ Ht) as (l1 & l2 & E); subst.
  - replace (P ++ ((l1 ++ t :: l2) ++ B) ++ Q) with ((P ++ l1) ++ t :: (l2 ++ B ++ Q)) in H
      by (repeat (rewrite <- app_assoc; simpl); reflexivity).
    destruct (nodup_ids_out _ _ _ H) as [H1 H2]. repeat split; intro Hin.
    + apply H1. apply in_or_app. left. exact Hin.
    + apply H2. apply in_or_app. right. apply in_or_app. left. exact Hin.
    + apply H2. apply in_or_app. right. apply in_or_app. right. exact Hin.
  - replace (P ++ (A ++ l1 ++ t :: l2) ++ Q) with ((P ++ A ++ l1) ++ t :: (l2 ++ Q)) in H
      by (repeat (rewrite <- app_assoc; simpl); reflexivity).
    destruct (nodup_ids_out _ _ _ H) as [H1 H2]. repeat split; intro Hin.
    + apply H1. apply in_or_app. left. exact Hin.
    + apply H1. apply in_or_app. right. apply in_or_app. left. exact Hin.
    + apply H2. apply in_or_app. right. exact Hin.
Qed.

Definition opt_mid (k : fkind) (g Y : list tk) : list tk := match k with FOptL _ => g ++ Y | _ => Y ++ g end.

(* from the decomposition of the token list around the slot to the local edit *)
Lemma opt_finish : forall c s T kids d f sl sl' k pv m0 dd A fd B K1 K2 P X X' Q N,
  HWF cs (Tree c s T kids d) -> opt_site cs c kids f sl k pv m0 dd A fd B K1 K2 ->
  T = P ++ X ++ Q -> woven P (kids_flat slot_units K1) -> woven Q (kids_flat slot_units K2) ->
  match k with
  | FOptL _ => P <> [] /\ endtok SLast P = Some pv
  | FOptR _ => Q <> [] /\ endtok SFirst Q = Some pv
  | _ => False
  end ->
  ((sl = SOpt None /\ X = [] /\ exists y seps, sl' = SOpt (Some y) /\ item_ok cs s T seps y
       /\ N = seps ++ node_toks y /\ X' = opt_mid k seps (node_toks y))
   \/ (X' = [] /\ sl' = SOpt None /\ N = [] /\ exists x g, sl = SOpt (Some x) /\ X = opt_mid k g (node_toks x))
   \/ (sl' = SOpt None /\ N = [] /\ exists x g, sl = SOpt (Some x) /\ X = opt_mid k g (node_toks x) /\ X' = g
        /\ match k with FOptL _ => Q <> [] | _ => P <> [] end)) ->
  local_edit cs (Tree c s T kids d) (Tree c s (P ++ X' ++ Q) (set_kid kids f sl') d) P X X' Q N.
Proof.
  intros c s T kids d f sl sl' k pv m0 dd A fd B K1 K2 P X X' Q N Hroot Hsite ET HwP HwQ Hpos Hmode.
  destruct Hsite as [Hclass EF EK Eset Hndk E1 E2 Ename Ekind Hchain].
  destruct (classes_ok_find _ _ _ Hok Hclass) as [_ _ _ _ _ _ _ Hfirst Hlast].
  assert (Hfirst' : c_first dd = scheme_chain SFirst (A ++ fd :: B)) by (rewrite Hfirst; unfold scheme_first; rewrite EF; reflexivity).
  assert (Hlast' : c_last dd = scheme_chain SLast (rev B ++ fd :: rev A)).
  { rewrite Hlast. unfold scheme_last. rewrite EF, rev_app_distr. simpl. rewrite <- app_assoc. reflexivity. }
  assert (Hsub1 : forall k0 sl0, In (k0, sl0) K1 -> In (k0, sl0) kids) by (intros; rewrite EK; apply in_or_app; left; assumption).
  assert (Hsub2 : forall k0 sl0, In (k0, sl0) K2 -> In (k0, sl0) kids) by (intros; rewrite EK; apply in_or_app; right; right; assumption).
  assert (Hinf : In (f, sl) kids) by (rewrite EK; apply in_or_app; right; left; reflexivity).
  pose proof (In_kid _ _ _ Hndk Hinf) as Hk.
  pose proof Hndk as Hndk'. rewrite EK, map_app in Hndk'. simpl in Hndk'. destruct (NoDup_mid _ _ _ Hndk') as [Hf1 Hf2].
  assert (HnA : forall fd0, In fd0 A -> f_name fd0 <> f_name fd).
  { intros fd0 Hin E. apply Hf1. rewrite E1, <- Ename, <- E. apply in_map. exact Hin. }
  assert (HnB : forall fd0, In fd0 B -> f_name fd0 <> f_name fd).
  { intros fd0 Hin E. apply Hf2. rewrite E2, <- Ename, <- E. apply in_map. exact Hin. }
  pose proof (HWF_SWF _ _ Hroot) as [(W1 & W2 & W3 & W4 & W5) Hwov]. simpl node_toks in *.
  (* the slot before and after *)
  assert (Hslots : woven X (slot_units sl) /\ woven X' (slot_units sl') /\ NoDup (ids X') /\ NoDup (ids (slot_leaves sl'))
           /\ (forall t, In t (slot_leaves sl') -> In t X')
           /\ (forall t, In t X' -> significant t = true -> In t (slot_leaves sl'))
           /\ (forall t, In t X' -> In t X \/ In t N)
           /\ (forall t, In t (slot_leaves sl') -> In t (slot_leaves sl) \/ In t N)
           /\ (forall u, In u (slot_subunits subunits sl') ->
                 unit_ok cs s u /\ woven (unit_toks u) (unit_children u) /\ exempt u = false /\ (forall n, u = UNode n -> SWF cs n))
           /\ (forall t t', In t N -> In t' T -> k_id t <> k_id t')).
  { destruct Hmode as [(Esl & EX & y & seps & Esl' & [Hy Hglue Hndy Hfr] & EN & EX')|[(EX' & Esl' & EN & x & g & Esl & EX)|(Esl' & EN & x & g & Esl & EX & EX' & Hfar)]].
    - subst sl X sl' N. pose proof (HWF_SWF _ _ (proj1 Hy)) as [(Y1 & Y2 & Y3 & Y4 & Y5) Yw].
      assert (HX' : forall t, In t X' <-> In t (seps ++ node_toks y)).
      { intro t. subst X'. unfold opt_mid. destruct k; rewrite !in_app_iff; tauto. }
      simpl slot_units. simpl slot_leaves. simpl slot_subunits.
      split; [exact I|]. split; [|split; [|split; [exact Y3|split; [|split; [|split; [|split; [|split]]]]]]].
      + subst X'. unfold opt_mid. destruct k; try (exists [], seps; split; [reflexivity|exact I]).
        exists seps, []. rewrite app_nil_r. split; [reflexivity|exact I].
      + subst X'. unfold opt_mid. destruct k; try (apply NoDup_ids_comm; exact Hndy). exact Hndy.
      + intros t Ht. apply HX'. apply in_or_app. right. auto.
      + intros t Ht Hs. apply HX' in Ht. apply in_app_or in Ht. destruct Ht as [Ht|Ht]; [rewrite (Hglue t Ht) in Hs; discriminate|auto].
      + intros t Ht. right. apply HX'. exact Ht.
      + intros t Ht. right. apply in_or_app. right. auto.
      + apply sub_ok_units. exact Hy.
      + exact Hfr.
    - subst X' sl' N sl. simpl slot_units. simpl slot_leaves. simpl slot_subunits.
      split.
      { subst X. unfold opt_mid. destruct k; try (exists [], g; split; [reflexivity|exact I]).
        exists g, []. rewrite app_nil_r. split; [reflexivity|exact I]. }
      split; [exact I|]. split; [constructor|]. split; [constructor|].
      split; [intros t []|]. split; [intros t []|]. split; [intros t []|]. split; [intros t []|].
      split; [intros u []|]. intros t t' [].
    - (* the separators stay in the place of the child *)
      subst sl' N sl X'. simpl slot_units. simpl slot_leaves. simpl slot_subunits.
      assert (Hxok : sub_ok cs s x) by (eapply kid_sub_ok; [exact Hroot|exact Hk|reflexivity]).
      assert (HgX : forall t, In t g -> In t X) by (intros t Ht; subst X; unfold opt_mid; destruct k; apply in_or_app; auto).
      assert (W1' : NoDup (ids (P ++ X ++ Q))) by (rewrite <- ET; exact W1).
      assert (Hgonly : forall t, In t g -> ~ In t P /\ ~ In t (node_toks x) /\ ~ In t Q).
      { intros t Ht. subst X. unfold opt_mid in W1'. destruct k;
          try (exact (proj2 (nodup_part_only P (node_toks x) g Q t W1') Ht)).
        exact (proj1 (nodup_part_only P g (node_toks x) Q t W1') Ht). }
      split.
      { subst X. unfold opt_mid. destruct k; try (exists [], g; split; [reflexivity|exact I]).
        exists g, []. rewrite app_nil_r. split; [reflexivity|exact I]. }
      split; [exact I|]. split.
      { apply NoDup_ids_app_r in W1'. apply NoDup_ids_app_l in W1'. subst X. unfold opt_mid in W1'.
        destruct k; try (apply NoDup_ids_app_r in W1'; exact W1'). apply NoDup_ids_app_l in W1'. exact W1'. }
      split; [constructor|]. split; [intros t []|]. split.
      { intros t Ht Hs. exfalso. destruct (Hgonly t Ht) as (HnP & HnY & HnQ).
        assert (HtT : In t T) by (rewrite ET; apply in_or_app; right; apply in_or_app; left; apply HgX; exact Ht).
        pose proof (W5 t HtT Hs) as HL. rewrite leaves_tree, EK, kids_flat_app, kids_flat_cons in HL.
        apply in_app_or in HL. destruct HL as [HL|HL]; [|apply in_app_or in HL; destruct HL as [HL|HL]].
        - apply HnP. exact (part_leaves c s T kids d K1 P Hroot Hsub1 HwP t HL).
        - apply HnY. simpl slot_leaves in HL. exact (sub_ok_leaves cs s x Hxok t HL).
        - apply HnQ. exact (part_leaves c s T kids d K2 Q Hroot Hsub2 HwQ t HL). }
      split; [intros t Ht; left; apply HgX; exact Ht|]. split; [intros t []|].
      split; [intros u []|]. intros t t' []. }
  destruct Hslots as (HwX & HwX' & Y1 & Y3 & Y4 & Y5 & Itin & Ilin & Ysub & Hfresh).
  assert (HneT' : P ++ X' ++ Q <> []).
  { intro E. apply app_eq_nil in E. destruct E as [EP E]. apply app_eq_nil in E. destruct E as [_ EQ].
    destruct k; try contradiction; destruct Hpos; auto. }
  destruct (tree_toggle cs c s T kids d f sl sl' K1 K2 P X X' Q N Hroot EK (Eset sl') ET HwP HwX HwQ HwX'
              Y1 Y3 Y4 Y5 Itin Ilin Ysub Hfresh HneT') as [HA HL].
  { intro Hex. rewrite <- Ename.
    (* what the two modes say about the ends of the changed part *)
    assert (Hm : forall sp, sp = match k with FOptL _ => SLast | _ => SFirst end ->
      (sl = SOpt None /\ X = [] /\ exists y, sl' = SOpt (Some y) /\ ends_ok cs (SReq y) (node_toks y)
         /\ node_toks y <> [] /\ endtok sp X' = endtok sp (node_toks y))
      \/ (X' = [] /\ sl' = SOpt None /\ exists x, sl = SOpt (Some x) /\ ends_ok cs (SReq x) (node_toks x)
         /\ node_toks x <> [] /\ endtok sp X = endtok sp (node_toks x))
      \/ (outer sp P Q <> [] /\ sl' = SOpt None /\ exists x, sl = SOpt (Some x) /\ ends_ok cs (SReq x) (node_toks x)
         /\ node_toks x <> [] /\ endtok sp X = endtok sp (node_toks x))).
    { intros sp Esp. destruct Hmode as [(Esl & EX & y & seps & Esl' & Hio & EN & EX')|[(EX' & Esl' & EN & x & g & Esl & EX)|(Esl' & EN & x & g & Esl & EX & EX' & Hfar)]].
      - left. split; [exact Esl|]. split; [exact EX|]. exists y. split; [exact Esl'|].
        destruct (sub_ok_toks_ne cs s y (io_sub _ _ _ _ _ Hio)) as [Hney Hendy]. split; [exact Hendy|]. split; [exact Hney|].
        subst X' sp. unfold opt_mid. destruct k; simpl endtok; try (destruct (node_toks y); [contradiction|reflexivity]).
        apply hd_rev_app. exact Hney.
      - right. left. split; [exact EX'|]. split; [exact Esl'|]. exists x. split; [exact Esl|].
        assert (Hxok : sub_ok cs s x) by (eapply kid_sub_ok; [exact Hroot|exact Hk|subst sl; reflexivity]).
        destruct (sub_ok_toks_ne cs s x Hxok) as [Hnex Hendx]. split; [exact Hendx|]. split; [exact Hnex|].
        subst X sp. unfold opt_mid. destruct k; simpl endtok; try (destruct (node_toks x); [contradiction|reflexivity]).
        apply hd_rev_app. exact Hnex.
      - right. right. split; [subst sp; destruct k; simpl outer; try contradiction; exact Hfar|].
        split; [exact Esl'|]. exists x. split; [exact Esl|].
        assert (Hxok : sub_ok cs s x) by (eapply kid_sub_ok; [exact Hroot|exact Hk|subst sl; reflexivity]).
        destruct (sub_ok_toks_ne cs s x Hxok) as [Hnex Hendx]. split; [exact Hendx|]. split; [exact Hnex|].
        subst X sp. unfold opt_mid. destruct k; simpl endtok; try (destruct (node_toks x); [contradiction|reflexivity]).
        apply hd_rev_app. exact Hnex. }
    rewrite <- Ename in Hk.
    destruct k as [|sepsd|sepsd|? ?]; try contradiction.
    - (* left field: the pivot is the last token of P *)
      destruct Hpos as [HneP HpvP].
      apply (opt_ends cs c s T kids d dd SLast (rev B) (rev A) fd sl sl' m0 pv P X X' Q Hroot Hex Hclass); auto.
      + simpl opp. rewrite !rev_involutive. exact Hfirst'.
      + rewrite Ekind. reflexivity.
      + intros fd0 Hin. apply HnB. apply in_rev. exact Hin.
      + intros fd0 Hin. apply HnA. apply in_rev. exact Hin.
      + intros fd0 sl0 t Hin Hk0 Ht. simpl outer.
        apply (leaves_in_part c s T kids d K2 Q Hroot Hndk Hsub2 HwQ (f_name fd0) sl0 t); auto.
        rewrite E2. apply in_map. apply in_rev. exact Hin.
    - destruct Hpos as [HneQ HpvQ].
      apply (opt_ends cs c s T kids d dd SFirst A B fd sl sl' m0 pv P X X' Q Hroot Hex Hclass); auto.
      + rewrite Ekind. reflexivity.
      + intros fd0 sl0 t Hin Hk0 Ht. simpl outer.
        apply (leaves_in_part c s T kids d K1 P Hroot Hndk Hsub1 HwP (f_name fd0) sl0 t); auto.
        rewrite E1. apply in_map. exact Hin. }
  constructor.
  - exact HA.
  - simpl node_toks. auto.
  - exact HL.
  - do 7 eexists. split; reflexivity.
Qed.
End OptOps.


Section OptAt.
Variable cs : classes_t.
Hypothesis Hok : classes_ok cs.
Hypothesis Hpivs : classes_pivots_ok cs.

Lemma site_woven : forall c s T kids d f sl k pv m0 dd A fd B K1 K2,
  HWF cs (Tree c s T kids d) -> opt_site cs c kids f sl k pv m0 dd A fd B K1 K2 ->
  NoDup (ids T) /\ woven T (kids_flat slot_units K1 ++ slot_units sl ++ kids_flat slot_units K2)
  /\ (forall k0 sl0, In (k0, sl0) K1 -> In (k0, sl0) kids) /\ (forall k0 sl0, In (k0, sl0) K2 -> In (k0, sl0) kids).
Proof.
  intros c s T kids d f sl k pv m0 dd A fd B K1 K2 Hroot [Hclass EF EK Eset Hndk E1 E2 Ename Ekind Hchain].
  pose proof (HWF_SWF _ _ Hroot) as [(W1 & _) Hwov]. simpl node_toks in W1. split; [exact W1|]. split; [|split].
  - assert (Hu : In (UNode (Tree c s T kids d)) (subunits (Tree c s T kids d))) by (rewrite subunits_tree; left; reflexivity).
    pose proof (Hwov _ Hu) as H. simpl unit_toks in H. simpl unit_children in H.
    unfold kids_units in H. rewrite EK, kids_flat_app, kids_flat_cons in H. exact H.
  - intros; rewrite EK; apply in_or_app; left; assumption.
  - intros; rewrite EK; apply in_or_app; right; right; assumption.
Qed.

Lemma create_at_ok : forall c s T kids d f seps y new,
  HWF cs (Tree c s T kids d) -> item_ok cs s T seps y ->
  create_opt_at cs (Tree c s T kids d) f seps y = Some new ->
  exists pre post Mnew, (Mnew = seps ++ node_toks y \/ Mnew = node_toks y ++ seps)
    /\ local_edit cs (Tree c s T kids d) new pre [] Mnew post (seps ++ node_toks y).
Proof.
  intros c s T kids d f seps y new Hroot Hio H. unfold create_opt_at in H.
  destruct (kid kids f) as [[?|[?|]|? ? ? ?|?]|] eqn:Ek; try discriminate.
  destruct (opt_pivot cs (Tree c s T kids d) f) as [[k pv]|] eqn:Ep; try discriminate.
  destruct (find_off pv T) as [a|] eqn:Ea; try discriminate.
  assert (Hk : is_opt k = true) by (destruct k; try discriminate; reflexivity).
  destruct (opt_site_of cs Hpivs c s T kids d f _ k pv Ek Ep Hk) as (dd & A & fd & B & K1 & K2 & Hsite).
  destruct (site_woven _ _ _ _ _ _ _ _ _ _ _ _ _ _ _ _ Hroot Hsite) as (W1 & HwT & Hsub1 & Hsub2).
  pose proof Hsite as [Hclass EF EK Eset Hndk E1 E2 Ename Ekind Hchain]. simpl slot_units in HwT. simpl app in HwT.
  destruct k as [|sepsd|sepsd|? ?]; try discriminate; inversion H; subst new; clear H.
  - destruct (left_pivot_unit cs c s T kids d K1 A _ pv Hroot Hndk Hsub1 E1 Hchain) as (us0 & ul & Eu & He).
    rewrite Eu in HwT. destruct (woven_split_tight us0 ul _ T HwT) as (Ta & T2 & ET & Hw1 & Hw2).
    assert (Hul : ul <> []) by (intro E; subst ul; discriminate).
    assert (Epos : S a = length (Ta ++ ul)) by (rewrite ET in Ea, W1; exact (pos_after Ta ul T2 pv a He W1 Ea)).
    assert (Esp : splice T (S a) (seps ++ node_toks y) = (Ta ++ ul) ++ (seps ++ node_toks y) ++ T2).
    { rewrite ET, Epos. apply splice_at. }
    rewrite Esp. exists (Ta ++ ul), T2, (seps ++ node_toks y). split; [left; reflexivity|].
    apply (opt_finish cs Hok c s T kids d f (SOpt None) (SOpt (Some y)) (FOptL sepsd) pv _ dd A fd B K1 K2
             (Ta ++ ul) [] (seps ++ node_toks y) T2 (seps ++ node_toks y) Hroot Hsite); auto.
    + rewrite Eu. exact Hw1.
    + split; [intro E; apply app_eq_nil in E; destruct E; auto|]. simpl. rewrite hd_rev_app by exact Hul. exact He.
    + left. split; [reflexivity|]. split; [reflexivity|]. exists y, seps. auto.
  - destruct (right_pivot_unit cs c s T kids d K2 B _ pv Hroot Hndk Hsub2 E2 Hchain) as (ul & us1 & Eu & He).
    rewrite Eu in HwT. destruct (woven_app_inv _ _ T HwT) as (T1 & T2 & ET & Hw1 & Hw2).
    destruct Hw2 as (g0 & T3 & ET2 & Hw3). subst T2.
    assert (ET' : T = (T1 ++ g0) ++ ul ++ T3) by (rewrite ET, <- !app_assoc; reflexivity).
    assert (Epos : a = length (T1 ++ g0)) by (rewrite ET' in Ea, W1; exact (pos_at _ ul T3 pv a He W1 Ea)).
    assert (Esp : splice T a (node_toks y ++ seps) = (T1 ++ g0) ++ (node_toks y ++ seps) ++ ul ++ T3).
    { rewrite ET', Epos. apply splice_at. }
    rewrite Esp. exists (T1 ++ g0), (ul ++ T3), (node_toks y ++ seps). split; [right; reflexivity|].
    apply (opt_finish cs Hok c s T kids d f (SOpt None) (SOpt (Some y)) (FOptR sepsd) pv _ dd A fd B K1 K2
             (T1 ++ g0) [] (node_toks y ++ seps) (ul ++ T3) (seps ++ node_toks y) Hroot Hsite); auto.
    + apply woven_glue. exact Hw1.
    + rewrite Eu. exists [], T3. auto.
    + assert (Hul : ul <> []) by (intro E; subst ul; discriminate).
      split; [intro E; apply app_eq_nil in E; destruct E; auto|]. destruct ul; [contradiction|exact He].
    + left. split; [reflexivity|]. split; [reflexivity|]. exists y, seps. auto.
Qed.

Lemma local_edit_reassoc : forall old new pre Mold Mnew post N pre' Mold' Mnew' post',
  local_edit cs old new pre Mold Mnew post N ->
  pre ++ Mold ++ post = pre' ++ Mold' ++ post' -> pre ++ Mnew ++ post = pre' ++ Mnew' ++ post' ->
  local_edit cs old new pre' Mold' Mnew' post' N.
Proof.
  intros old new pre Mold Mnew post N pre' Mold' Mnew' post' [H1 [H2 H3] H4 H5] E1 E2.
  constructor; auto. split; [rewrite H2; exact E1|rewrite H3; exact E2].
Qed.

Lemma ltb_app_tail : forall {A} (L R : list A), Nat.ltb (length L) (length (L ++ R)) = true -> R <> [].
Proof. intros A L R H E. subst R. rewrite app_nil_r in H. apply Nat.ltb_lt in H. lia. Qed.

Lemma slice_mid : forall {A} (P G R : list A), slice (P ++ G ++ R) (length P) (length (P ++ G)) = G.
Proof.
  intros A P G R. unfold slice. rewrite skipn_app_len, app_length.
  replace (length P + length G - length P) with (length G) by lia. apply firstn_app_len.
Qed.

(* tokens between the parts of a node's token list that hold its units are insignificant *)
Lemma gap_insignificant : forall c s T kids d P G Q us1 us2,
  HWF cs (Tree c s T kids d) -> T = P ++ G ++ Q -> kids_units kids = us1 ++ us2 -> woven P us1 -> woven Q us2 ->
  forall t, In t G -> significant t = false.
Proof.
  intros c s T kids d P G Q us1 us2 Hroot ET EU HwP HwQ t Ht. destruct (significant t) eqn:Hs; [exfalso|reflexivity].
  pose proof (HWF_SWF _ _ Hroot) as [(W1 & _ & _ & _ & W5) _]. simpl node_toks in *.
  assert (HtT : In t T) by (rewrite ET; apply in_or_app; right; apply in_or_app; left; exact Ht).
  pose proof (W5 t HtT Hs) as HL. rewrite leaves_tree in HL. apply In_kids_flat in HL. destruct HL as (k0 & sl0 & Hin & HtL).
  destruct (slot_leaves_in_units cs _ _ _ _ _ _ _ Hroot Hin t HtL) as (v & Hv & Htv).
  assert (Hvu : In v (kids_units kids)) by (unfold kids_units; apply In_kids_flat; exists k0, sl0; auto).
  rewrite EU in Hvu. rewrite ET in W1.
  replace (P ++ G ++ Q) with (P ++ (G ++ []) ++ Q) in W1 by (rewrite app_nil_r; reflexivity).
  destruct (proj1 (nodup_part_only P G [] Q t W1) Ht) as (HnP & _ & HnQ).
  apply in_app_or in Hvu. destruct Hvu as [Hvu|Hvu].
  - apply HnP. exact (woven_units_in _ _ HwP v t Hvu Htv).
  - apply HnQ. exact (woven_units_in _ _ HwQ v t Hvu Htv).
Qed.

(* what remove_opt_at reports as staying outside the node: nothing, or the tokens g between pivot and child, which are
   insignificant and lay right after (before) the pivot that ends `pre` (begins `post`) *)
Definition kept_out (k : fkind) (pv : tk) (pre g post Mold X out : list tk) : Prop :=
  out = [] \/ (out = g /\ (forall t, In t g -> significant t = false)
               /\ match k with
                  | FOptL _ => Mold = g ++ X /\ endtok SLast pre = Some pv
                  | _ => Mold = X ++ g /\ endtok SFirst post = Some pv
                  end).

(* whatever _touches answered (keep): the node loses the child and, unless they stay inside the node, the tokens between
   the pivot and the child; what stays outside the node (third component) is dealt with above it (regap) *)
Lemma remove_at_ok : forall keep c s T kids d f x new out,
  HWF cs (Tree c s T kids d) ->
  remove_opt_at cs keep (Tree c s T kids d) f = Some (x, new, out) ->
  sub_ok cs s x /\ exists pre g post Mold, (Mold = g ++ node_toks x \/ Mold = node_toks x ++ g)
    /\ local_edit cs (Tree c s T kids d) new pre Mold [] post []
    /\ exists k pv, opt_pivot cs (Tree c s T kids d) f = Some (k, pv) /\ is_opt k = true
         /\ kept_out k pv pre g post Mold (node_toks x) out.
Proof.
  intros keep c s T kids d f x new out Hroot H. unfold remove_opt_at in H.
  destruct (kid kids f) as [[?|[x0|]|? ? ? ?|?]|] eqn:Ek; try discriminate.
  destruct (opt_pivot cs (Tree c s T kids d) f) as [[k pv]|] eqn:Ep; try discriminate.
  destruct (border cs (depth (Tree c s T kids d)) SFirst x0) as [ft|] eqn:Ebf; try discriminate.
  destruct (border cs (depth (Tree c s T kids d)) SLast x0) as [lt|] eqn:Ebl; try discriminate.
  destruct (find_off pv T) as [a|] eqn:Ea; try discriminate.
  destruct (find_off ft T) as [xa|] eqn:Exa; try discriminate.
  destruct (find_off lt T) as [xb|] eqn:Exb; try discriminate.
  assert (Hk : is_opt k = true) by (destruct k; try discriminate; reflexivity).
  destruct (opt_site_of cs Hpivs c s T kids d f _ k pv Ek Ep Hk) as (dd & A & fd & B & K1 & K2 & Hsite).
  destruct (site_woven _ _ _ _ _ _ _ _ _ _ _ _ _ _ _ _ Hroot Hsite) as (W1 & HwT & Hsub1 & Hsub2).
  pose proof Hsite as [Hclass EF EK Eset Hndk E1 E2 Ename Ekind Hchain]. simpl slot_units in HwT.
  assert (Hxok : sub_ok cs s x0) by (eapply kid_sub_ok; [exact Hroot|exact Ek|reflexivity]).
  pose proof (HWF_SWF _ _ (proj1 Hxok)) as Hxs. pose proof (proj1 (proj2 Hxok)) as Hxe.
  pose proof (border_end cs x0 _ SFirst ft Hxs Hxe Ebf) as Hft.
  pose proof (border_end cs x0 _ SLast lt Hxs Hxe Ebl) as Hlt.
  destruct k as [|sepsd|sepsd|? ?]; try discriminate.
  - (* left field: (Ta ++ ul) ends with the pivot, then g, the child, T3 *)
    destruct (left_pivot_unit cs c s T kids d K1 A _ pv Hroot Hndk Hsub1 E1 Hchain) as (us0 & ul & Eu & He).
    assert (EU : kids_units kids = (us0 ++ [ul]) ++ [node_toks x0] ++ kids_flat slot_units K2).
    { unfold kids_units. rewrite EK, kids_flat_app, kids_flat_cons, Eu. reflexivity. }
    rewrite Eu in HwT. destruct (woven_split_tight us0 ul _ T HwT) as (Ta & T2 & ET & Hw1 & Hw2).
    simpl app in Hw2. destruct Hw2 as (g & T3 & ET2 & Hw3). subst T2.
    assert (Hul : ul <> []) by (intro E; subst ul; discriminate).
    assert (Epos : S a = length (Ta ++ ul)) by (rewrite ET in Ea, W1; exact (pos_after Ta ul _ pv a He W1 Ea)).
    assert (Hgins : forall t, In t g -> significant t = false).
    { apply (gap_insignificant c s T kids d (Ta ++ ul) g (node_toks x0 ++ T3) _ _ Hroot ET EU Hw1).
      exists [], T3. split; [reflexivity|exact Hw3]. }
    assert (ET' : T = (((Ta ++ ul) ++ g) ++ node_toks x0) ++ T3) by (rewrite ET, <- !app_assoc; reflexivity).
    assert (ETa : T = ((Ta ++ ul) ++ g) ++ node_toks x0 ++ T3) by (rewrite ET, <- !app_assoc; reflexivity).
    assert (Eposb : S xb = length ((Ta ++ ul) ++ g ++ node_toks x0)).
    { rewrite ET' in Exb, W1. rewrite (pos_after _ _ T3 lt xb Hlt W1 Exb), <- !app_assoc. reflexivity. }
    assert (Eposa : xa = length ((Ta ++ ul) ++ g)) by (rewrite ETa in Exa, W1; exact (pos_at _ _ _ ft xa Hft W1 Exa)).
    assert (HwP : woven (Ta ++ ul) (kids_flat slot_units K1)) by (rewrite Eu; exact Hw1).
    assert (HposL : Ta ++ ul <> [] /\ endtok SLast (Ta ++ ul) = Some pv).
    { split; [intro E; apply app_eq_nil in E; destruct E; auto|]. simpl. rewrite hd_rev_app by exact Hul. exact He. }
    assert (ETm : T = (Ta ++ ul) ++ (g ++ node_toks x0) ++ T3) by (rewrite ET, <- !app_assoc; reflexivity).
    destruct (keep && Nat.ltb (S xb) (length T)) eqn:Ekeep.
    + (* the separators stay, and the node goes on beyond the child *)
      inversion H. subst x0 new out. clear H. split; [exact Hxok|].
      apply andb_true_iff in Ekeep. destruct Ekeep as [_ Hlt3].
      assert (HT3 : T3 <> []).
      { intro E3. rewrite Eposb, ET, E3, !app_nil_r in Hlt3. apply Nat.ltb_lt in Hlt3. lia. }
      assert (Ecut : cut T xa (S xb) = (Ta ++ ul) ++ g ++ T3).
      { rewrite Eposa, Eposb, ETa. rewrite (app_assoc (Ta ++ ul) g (node_toks x)).
        rewrite (cut_at ((Ta ++ ul) ++ g) (node_toks x) T3). rewrite <- app_assoc. reflexivity. }
      rewrite Ecut. exists ((Ta ++ ul) ++ g), [], T3, (node_toks x). split; [left; reflexivity|].
      split; [|exists (FOptL sepsd), pv; split; [reflexivity|split; [reflexivity|left; reflexivity]]].
      apply (local_edit_reassoc _ _ (Ta ++ ul) (g ++ node_toks x) g T3 []);
        [|rewrite <- !app_assoc; reflexivity|rewrite <- !app_assoc; reflexivity].
      apply (opt_finish cs Hok c s T kids d f (SOpt (Some x)) (SOpt None) (FOptL sepsd) pv _ dd A fd B K1 K2
               (Ta ++ ul) (g ++ node_toks x) g T3 [] Hroot Hsite); auto.
      right. right. split; [reflexivity|]. split; [reflexivity|]. exists x, g. auto.
    + inversion H. subst x0 new. clear H. split; [exact Hxok|].
      assert (Ecut : cut T (S a) (S xb) = (Ta ++ ul) ++ [] ++ T3).
      { rewrite Epos, Eposb. rewrite ET. simpl. rewrite (app_assoc g). apply (cut_at (Ta ++ ul) (g ++ node_toks x) T3). }
      rewrite Ecut. exists (Ta ++ ul), g, T3, (g ++ node_toks x). split; [left; reflexivity|].
      split; [|exists (FOptL sepsd), pv; split; [reflexivity|split; [reflexivity|]]].
      2:{ destruct keep; [right|left; reflexivity]. split; [|split; [exact Hgins|split; [reflexivity|exact (proj2 HposL)]]].
          rewrite Epos, Eposa, ET. apply (slice_mid (Ta ++ ul) g (node_toks x ++ T3)). }
      apply (opt_finish cs Hok c s T kids d f (SOpt (Some x)) (SOpt None) (FOptL sepsd) pv _ dd A fd B K1 K2
               (Ta ++ ul) (g ++ node_toks x) [] T3 [] Hroot Hsite); auto.
      right. left. split; [reflexivity|]. split; [reflexivity|]. split; [reflexivity|]. exists x, g. auto.
  - (* right field: P, the child, g = T1c ++ g0, then Q = ul ++ T3 beginning with the pivot *)
    destruct (right_pivot_unit cs c s T kids d K2 B _ pv Hroot Hndk Hsub2 E2 Hchain) as (ul & us1 & Eu & He).
    rewrite Eu, app_assoc in HwT. destruct (woven_app_inv _ _ T HwT) as (T1 & T2 & ET & Hw1 & Hw2).
    destruct Hw2 as (g0 & T3 & ET2 & Hw3). subst T2.
    destruct (woven_app_inv _ _ T1 Hw1) as (T1a & T1b & ET1 & Hw1a & Hw1b).
    destruct Hw1b as (g1 & T1c & ET1b & _). subst T1b T1.
    set (P := T1a ++ g1). set (G := T1c ++ g0). set (X := node_toks x0 ++ G). set (Q := ul ++ T3).
    assert (ETa : T = P ++ node_toks x0 ++ (G ++ Q)) by (unfold P, G, Q; rewrite ET, <- !app_assoc; reflexivity).
    assert (ETb : T = (P ++ X) ++ ul ++ T3) by (unfold P, X, G; rewrite ET, <- !app_assoc; reflexivity).
    assert (ETc : T = P ++ X ++ Q) by (unfold Q; rewrite ETb, <- !app_assoc; reflexivity).
    assert (ETd : T = (P ++ node_toks x0) ++ G ++ Q) by (rewrite ETa, <- !app_assoc; reflexivity).
    assert (Eposxa : xa = length P) by (rewrite ETa in Exa, W1; exact (pos_at P _ _ ft xa Hft W1 Exa)).
    assert (Eposa : a = length (P ++ X)) by (rewrite ETb in Ea, W1; exact (pos_at _ ul T3 pv a He W1 Ea)).
    assert (Eposxb : S xb = length (P ++ node_toks x0)) by (rewrite ETd in Exb, W1; exact (pos_after P _ _ lt xb Hlt W1 Exb)).
    assert (HwP : woven P (kids_flat slot_units K1)) by (unfold P; apply woven_glue; exact Hw1a).
    assert (HwQ : woven Q (kids_flat slot_units K2)) by (rewrite Eu; unfold Q; exists [], T3; auto).
    assert (Hul : ul <> []) by (intro E; subst ul; discriminate).
    assert (HposR : Q <> [] /\ endtok SFirst Q = Some pv).
    { unfold Q. split; [intro E; apply app_eq_nil in E; destruct E; auto|]. destruct ul; [contradiction|exact He]. }
    assert (EU : kids_units kids = (kids_flat slot_units K1 ++ [node_toks x0]) ++ kids_flat slot_units K2).
    { unfold kids_units. rewrite EK, kids_flat_app, kids_flat_cons, <- app_assoc. reflexivity. }
    assert (Hgins : forall t, In t G -> significant t = false).
    { apply (gap_insignificant c s T kids d (P ++ node_toks x0) G Q _ _ Hroot ETd EU); [|exact HwQ].
      unfold P. rewrite <- app_assoc. apply woven_app; [exact Hw1a|]. exists g1, []. rewrite app_nil_r. split; [reflexivity|exact I]. }
    destruct (keep && Nat.ltb 0 xa) eqn:Ekeep.
    + inversion H. subst x0 new out. clear H. split; [exact Hxok|].
      apply andb_true_iff in Ekeep. destruct Ekeep as [_ Hlt0].
      assert (HP : P <> []) by (intro E; rewrite E in Eposxa; subst xa; discriminate).
      assert (Ecut : cut T xa (S xb) = P ++ G ++ Q).
      { rewrite Eposxa, Eposxb, ETa. apply (cut_at P (node_toks x) (G ++ Q)). }
      rewrite Ecut. exists P, [], (G ++ Q), (node_toks x). split; [left; reflexivity|].
      split; [|exists (FOptR sepsd), pv; split; [reflexivity|split; [reflexivity|left; reflexivity]]].
      apply (local_edit_reassoc _ _ P X G Q []);
        [|unfold X; rewrite <- ?app_assoc; reflexivity|rewrite <- ?app_assoc; reflexivity].
      apply (opt_finish cs Hok c s T kids d f (SOpt (Some x)) (SOpt None) (FOptR sepsd) pv _ dd A fd B K1 K2
               P X G Q [] Hroot Hsite); auto.
      right. right. split; [reflexivity|]. split; [reflexivity|]. exists x, G. auto.
    + inversion H. subst x0 new. clear H. split; [exact Hxok|].
      assert (Ecut : cut T xa a = P ++ [] ++ Q).
      { rewrite Eposxa, Eposa, ETc. simpl. apply (cut_at P X Q). }
      rewrite Ecut. exists P, G, Q, X. split; [right; reflexivity|].
      split; [|exists (FOptR sepsd), pv; split; [reflexivity|split; [reflexivity|]]].
      2:{ destruct keep; [right|left; reflexivity]. split; [|split; [exact Hgins|split; [reflexivity|exact (proj2 HposR)]]].
          rewrite Eposxb, Eposa, ETd. replace (P ++ X) with ((P ++ node_toks x) ++ G) by (unfold X; rewrite <- app_assoc; reflexivity).
          apply (slice_mid (P ++ node_toks x) G Q). }
      apply (opt_finish cs Hok c s T kids d f (SOpt (Some x)) (SOpt None) (FOptR sepsd) pv _ dd A fd B K1 K2
               P X [] Q [] Hroot Hsite); auto.
      right. left. split; [reflexivity|]. split; [reflexivity|]. split; [reflexivity|]. exists x, G. auto.
Qed.

(* ---- anywhere in the tree ---------------------------------------------------------------------------------- *)
Theorem create_opt_ok : forall root p f seps y root',
  HWF cs root -> create_opt cs root p f seps y = Some root' ->
  sub_ok cs (root_sid root) y -> glue_ok seps -> NoDup (ids (seps ++ node_toks y)) ->
  (forall t t', In t (seps ++ node_toks y) -> In t' (node_toks root) -> k_id t <> k_id t') ->
  HWF cs root' /\ WF cs root'
  /\ (exists pre post Mnew, (Mnew = seps ++ node_toks y \/ Mnew = node_toks y ++ seps)
        /\ node_toks root = pre ++ [] ++ post /\ node_toks root' = pre ++ Mnew ++ post)
  /\ (forall t, In t (leaves root') -> In t (leaves root) \/ In t (seps ++ node_toks y)).
Proof.
  intros root p f seps y root' Hroot H Hy Hglue Hnd Hfresh. unfold create_opt in H.
  destruct (select root p) as [old|] eqn:Hsel; try discriminate.
  destruct (create_opt_at cs old f seps y) as [new|] eqn:Hins; try discriminate.
  destruct old as [t0|c s T k d]; [discriminate|].
  assert (Hold : HWF cs (Tree c s T k d) /\ s = root_sid root /\ (forall t, In t T -> In t (node_toks root))).
  { destruct p as [|st r].
    - simpl in Hsel. inversion Hsel. subst root. auto.
    - destruct (select_sub_ok cs _ root _ Hroot Hsel ltac:(discriminate)) as [(H1 & _ & H3) H4].
      split; [exact H1|]. split; [eapply H3; reflexivity|exact H4]. }
  destruct Hold as (Hold & Es & HT). rewrite <- Es in Hy.
  assert (Hio : item_ok cs s T seps y) by (constructor; auto).
  destruct (create_at_ok c s T k d f seps y new Hold Hio Hins) as (pre & post & Mnew & HM & Hle).
  destruct (lift_local cs Hok p root _ new root' pre [] Mnew post (seps ++ node_toks y) Hroot Hsel H Hle) as (A & B & (pr & po & C1 & C2) & D).
  - intros t Ht. right. destruct HM as [E|E]; subst Mnew; auto. apply in_app_or in Ht. apply in_or_app. tauto.
  - exact Hfresh.
  - split; [exact A|]. split; [exact B|]. split; [|exact D]. exists pr, po, Mnew. auto.
Qed.

(* The case without regap, kept as a stepping stone (the full theorem is TreeEditProofs6.remove_opt_ok).
   PARTIAL: proved when the separators do not stay outside the owner of the field (opt_out = []: either _touches
   answered no, or the owner goes on beyond the child so that the separators stay inside it - the `Cash 10CAD` shape).
   Missing: when the child was the last (left field) / first (right field) thing of its owner and touches a token
   beyond the owner, the separators stay in the ancestors only (TreeEdit.regap, compared with the implementation on
   every run by TreeRun.check_ocase); that regap preserves HWF (a gap insertion next to the unit that ends with the
   pivot, in a node and possibly in the Repeated holding the path's item) is not proved.
   Mold is g ++ X / X ++ g when the separators g leave with the child X, and [] ++ X when they stay. *)
Theorem remove_opt_ok_partial : forall root p f x root',
  HWF cs root -> remove_opt cs root p f = Some (x, root') -> opt_out cs root p f = [] ->
  HWF cs root' /\ WF cs root' /\ HWF cs x /\ exempt (UNode x) = false
  /\ (exists pre g post Mold, (Mold = g ++ node_toks x \/ Mold = node_toks x ++ g)
        /\ node_toks root = pre ++ Mold ++ post /\ node_toks root' = pre ++ [] ++ post)
  /\ (forall t, In t (leaves root') -> In t (leaves root)).
Proof.
  intros root p f x root' Hroot H Hout. unfold remove_opt in H. unfold opt_out in Hout.
  destruct (select root p) as [old|] eqn:Hsel; try discriminate.
  destruct (remove_opt_at cs (opt_touches cs root old f) old f) as [[[x0 new] out]|] eqn:Hrem; try discriminate.
  subst out.
  destruct (plug root p new) as [r'|] eqn:Hplug; try discriminate. inversion H. subst x0 r'. clear H.
  destruct old as [t0|c s T k d]; [discriminate|].
  assert (Hold : HWF cs (Tree c s T k d)).
  { destruct p as [|st r].
    - simpl in Hsel. inversion Hsel. subst root. auto.
    - exact (proj1 (proj1 (select_sub_ok cs _ root _ Hroot Hsel ltac:(discriminate)))). }
  destruct (remove_at_ok _ c s T k d f x new [] Hold Hrem) as (Hx & pre & g & post & Mold & HM & Hle & _).
  destruct (lift_local cs Hok p root _ new root' pre Mold [] post [] Hroot Hsel Hplug Hle) as (A & B & (pr & po & C1 & C2) & D).
  - intros t [].
  - intros t t' [].
  - split; [exact A|]. split; [exact B|]. split; [exact (proj1 Hx)|]. split; [exact (proj1 (proj2 Hx))|]. split.
    + exists pr, g, po, Mold. auto.
    + intros t Ht. destruct (D t Ht) as [H0|[]]. exact H0.
Qed.

End OptAt.
