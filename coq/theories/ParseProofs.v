(* Proofs for C01 about PostLex.v and Builder.v (no bound on stream length, tree size or depth). *)
From AB Require Import Prelude PostLex Builder.
From Coq Require Import ZifyBool.

(* ------------------------------------------------------------------------------------------ *)
(* txt, has_text *)
Lemma txt_app a b : txt (a ++ b) = txt a ++ txt b.
Proof. unfold txt. rewrite map_app, concat_app. reflexivity. Qed.

Lemma txt_cons t l : txt (t :: l) = ltx t ++ txt l.
Proof. reflexivity. Qed.

Lemma txt_one k x : txt [(k, x)] = x.
Proof. unfold txt. simpl. apply app_nil_r. Qed.

Definition FT (l : list lexeme) : list lexeme := filter has_text l.

Lemma FT_app a b : FT (a ++ b) = FT a ++ FT b.
Proof. apply filter_app. Qed.

Lemma FT_idem l : FT (FT l) = FT l.
Proof.
  unfold FT. induction l as [|t l IH]; simpl; auto.
  destruct (has_text t) eqn:E; simpl; rewrite ?E, IH; auto.
Qed.

Lemma nonempty_false s : nonempty s = false -> s = [].
Proof. destruct s; simpl; congruence. Qed.

(* the printed text only depends on the tokens that carry text *)
Lemma txt_FT l : txt (FT l) = txt l.
Proof.
  unfold FT. induction l as [|t l IH]; simpl; auto.
  unfold has_text at 1. destruct (nonempty (ltx t)) eqn:E.
  - rewrite !txt_cons, IH. reflexivity.
  - rewrite txt_cons, IH, (nonempty_false _ E). reflexivity.
Qed.

Lemma FT_eq_txt a b : FT a = FT b -> txt a = txt b.
Proof. intros H. rewrite <- (txt_FT a), <- (txt_FT b), H. reflexivity. Qed.

(* ------------------------------------------------------------------------------------------ *)
(* the regex split *)
Lemma span_while_app p s a b : span_while p s = (a, b) -> s = a ++ b.
Proof.
  revert a b. induction s as [|c s IH]; simpl; intros a b H.
  - inversion H. reflexivity.
  - destruct (p c).
    + destruct (span_while p s) as [a' b'] eqn:E. inversion H; subst. simpl. f_equal. auto.
    + inversion H. reflexivity.
Qed.

Definition com_text (com : option str) : str := match com with Some c => c | None => [] end.

Lemma split3_sound s nl ind com :
  split3 s = Some (nl, ind, com) -> s = nl ++ ind ++ com_text com.
Proof.
  unfold split3.
  destruct (span_while is_crlf s) as [a r1] eqn:E1.
  destruct (span_while is_sptab r1) as [b r2] eqn:E2.
  apply span_while_app in E1. apply span_while_app in E2. subst s r1.
  destruct r2 as [|c r2].
  - intros H. inversion H; subst. reflexivity.
  - destruct (c =? SEMI); intros H; inversion H; subst. reflexivity.
Qed.

(* the split fails exactly when, after the CR/LF prefix and the blank prefix, a character other
   than ';' follows: the acceptance condition of PostLex.process *)
Lemma split3_none_iff s :
  split3 s = None <->
  exists c r, snd (span_while is_sptab (snd (span_while is_crlf s))) = c :: r /\ c <> SEMI.
Proof.
  unfold split3.
  destruct (span_while is_crlf s) as [a r1]. simpl.
  destruct (span_while is_sptab r1) as [b r2]. simpl.
  destruct r2 as [|c r2].
  - split; [discriminate|]. intros (c & r & H & _). discriminate.
  - destruct (c =? SEMI) eqn:E.
    + split; [discriminate|]. intros (c' & r & H & N). inversion H; subst. lia.
    + split; auto. intros _. exists c, r2. split; auto. lia.
Qed.

Lemma txt_if_mark (b : bool) k : txt (if b then [(k, [])] else []) = [].
Proof. destruct b; reflexivity. Qed.

Lemma txt_if_nonempty k x : txt (if nonempty x then [(k, x)] else []) = x.
Proof. destruct x; simpl; auto. apply txt_one. Qed.

Lemma pl_step_txt st t o st' : pl_step st t = Ok (o, st') -> txt o = ltx t.
Proof.
  unfold pl_step. destruct (negb (lty t =? T_NIC)).
  - intros H. inversion H; subst. destruct t. apply txt_one.
  - destruct (split3 (ltx t)) as [[[nl ind] com]|] eqn:E; [|discriminate].
    apply split3_sound in E. rewrite E. cbv zeta.
    destruct com as [c|]; simpl com_text.
    + destruct (nonempty c) eqn:Ec; [|destruct (nonempty ind) eqn:Ei]; intros H; inversion H; subst;
        rewrite !txt_app, !txt_if_mark, ?txt_if_nonempty, ?txt_one; simpl;
        rewrite ?(nonempty_false _ Ec), ?(nonempty_false _ Ei), ?app_nil_r; reflexivity.
    + destruct (nonempty ind) eqn:Ei; intros H; inversion H; subst;
        rewrite !txt_app, !txt_if_mark, ?txt_if_nonempty, ?txt_one; simpl;
        rewrite ?(nonempty_false _ Ei), ?app_nil_r; reflexivity.
Qed.

Lemma pl_final_txt st : txt (pl_final st) = [].
Proof. unfold pl_final. rewrite txt_app, !txt_if_mark. reflexivity. Qed.

Lemma process_from_txt s : forall st out, process_from st s = (out, None) -> txt out = txt s.
Proof.
  induction s as [|t s IH]; simpl; intros st out H.
  - inversion H. apply pl_final_txt.
  - destruct (pl_step st t) as [[o st']|e] eqn:E; [|discriminate].
    destruct (process_from st' s) as [o' e'] eqn:E2. inversion H; subst.
    rewrite txt_app, txt_cons. f_equal; eauto using pl_step_txt.
Qed.

(* PostLex.process adds and removes no character *)
Lemma postlex_preserves_text s out : process s = (out, None) -> txt out = txt s.
Proof. apply process_from_txt. Qed.

Lemma pl_step_ok_iff st t : (exists r, pl_step st t = Ok r) <-> nic_ok t = true.
Proof.
  unfold pl_step, nic_ok. destruct (lty t =? T_NIC); simpl.
  - destruct (split3 (ltx t)) as [[[nl ind] com]|].
    + split; auto. intros _. cbv zeta.
      destruct com as [c|]; [destruct (nonempty c)|]; destruct (nonempty ind); eauto.
    + split; [intros (r & H); discriminate | discriminate].
  - split; eauto.
Qed.

(* ... and it fails (assert) exactly when some composite lexeme is not split by the regex *)
Lemma process_from_accepts s : forall st, snd (process_from st s) = None <-> forallb nic_ok s = true.
Proof.
  induction s as [|t s IH]; simpl; intros st.
  - split; auto.
  - destruct (pl_step st t) as [[o st']|e] eqn:E.
    + assert (N : nic_ok t = true) by (apply (pl_step_ok_iff st); eauto).
      rewrite N. simpl. destruct (process_from st' s) as [o' e'] eqn:E2. simpl.
      specialize (IH st'). rewrite E2 in IH. exact IH.
    + destruct (nic_ok t) eqn:N.
      * apply (pl_step_ok_iff st) in N. destruct N as (r & N). congruence.
      * simpl. split; discriminate.
Qed.

Lemma postlex_accepts_iff s : snd (process s) = None <-> forallb nic_ok s = true.
Proof. apply process_from_accepts. Qed.

(* ------------------------------------------------------------------------------------------ *)
(* list slices *)
Lemma firstn_add_skipn {A} n m (l : list A) : firstn (n + m) l = firstn n l ++ firstn m (skipn n l).
Proof.
  revert l. induction n as [|n IH]; intros l; simpl; auto.
  destruct l; simpl.
  - rewrite firstn_nil. reflexivity.
  - f_equal. apply IH.
Qed.

Lemma firstn_S_nth {A} n (l : list A) t : nth_error l n = Some t -> firstn (S n) l = firstn n l ++ [t].
Proof.
  revert l. induction n as [|n IH]; intros [|x l] H; simpl in *; try discriminate.
  - inversion H. reflexivity.
  - f_equal. auto.
Qed.

Lemma zfirstn_slice {A} (l : list A) a c :
  0 <= a -> a <= c -> zfirstn c l = zfirstn a l ++ py_slice l a c.
Proof.
  intros Ha Hc. unfold py_slice, zfirstn, zskipn.
  replace (Z.to_nat c) with (Z.to_nat a + Z.to_nat (c - a))%nat by lia.
  apply firstn_add_skipn.
Qed.

Lemma zfirstn_succ {A} (l : list A) p t :
  0 <= p -> nth_error l (Z.to_nat p) = Some t -> zfirstn (p + 1) l = zfirstn p l ++ [t].
Proof.
  intros Hp H. unfold zfirstn. replace (Z.to_nat (p + 1)) with (S (Z.to_nat p)) by lia.
  apply firstn_S_nth. exact H.
Qed.

Lemma zfirstn_all {A} (l : list A) c : zlen l <= c -> zfirstn c l = l.
Proof. intros H. unfold zfirstn, zlen in *. apply firstn_all2. lia. Qed.

Lemma zlen_app {A} (a b : list A) : zlen (a ++ b) = zlen a + zlen b.
Proof. unfold zlen. rewrite app_length. lia. Qed.

(* ------------------------------------------------------------------------------------------ *)
(* the builder *)
Section Builder.
  Variable env : benv.
  Let n := zlen (toks env).

  Definition next_of (l : list Z) : Z := match l with [] => 0 | p :: _ => p + 1 end.

  (* every lexeme with text before the cursor has been appended exactly once, in order, and nothing
     else that carries text *)
  Definition Tiled (st : bstate) : Prop :=
    FT (built st) = FT (zfirstn (cur st) (toks env)).

  Definition Inv (st : bstate) : Prop :=
    0 <= cur st <= n /\ Tiled st /\ cur st = next_of (leaves st).

  (* what one builder call contributes: it only prepends to the log, and if the final log is
     strictly increasing the invariant is carried over *)
  Definition Step (st st' : bstate) : Prop :=
    exists new, leaves st' = new ++ leaves st /\
                (leaves_ok n (leaves st') = true -> Inv st -> Inv st').

  Lemma leaves_ok_suffix a b : leaves_ok n (a ++ b) = true -> leaves_ok n b = true.
  Proof.
    induction a as [|p a IH]; simpl; auto. intros H.
    apply andb_prop in H. destruct H as [_ H]. auto.
  Qed.

  Lemma leaves_ok_head p r :
    leaves_ok n (p :: r) = true -> 0 <= p < n /\ next_of r <= p /\ leaves_ok n r = true.
  Proof.
    simpl. intros H. repeat (apply andb_prop in H; destruct H as [H ?]).
    repeat split; try lia; auto. destruct r; simpl; lia.
  Qed.

  Lemma Step_refl st : Step st st.
  Proof. exists []. split; auto. Qed.

  Lemma Step_trans a b c : Step a b -> Step b c -> Step a c.
  Proof.
    intros (n1 & L1 & H1) (n2 & L2 & H2). exists (n2 ++ n1). split.
    - rewrite L2, L1. apply app_assoc.
    - intros Hok Ha. apply H2; auto. apply H1; auto.
      rewrite L2 in Hok. eapply leaves_ok_suffix; eauto.
  Qed.

  (* bind inversion *)
  Lemma bind_ok {A B} (m : M A) (f : A -> M B) st st' b :
    bind m f st = (st', Ok b) -> exists a st1, m st = (st1, Ok a) /\ f a st1 = (st', Ok b).
  Proof.
    unfold bind. destruct (m st) as [st1 [a|e]]; [eauto | discriminate].
  Qed.

  Lemma fix_gap_loop_spec tm l : forall b b',
    fix_gap_loop tm l b = (b', None) -> b' = b ++ FT l.
  Proof.
    induction l as [|t l IH]; simpl; intros b b' H.
    - inversion H. rewrite app_nil_r. reflexivity.
    - unfold FT, has_text in *. simpl. destruct (nonempty (ltx t)).
      + destruct (zmem (lty t) tm); [|discriminate].
        apply IH in H. rewrite H, <- app_assoc. reflexivity.
      + auto.
  Qed.

  Lemma fix_gap_spec c st st1 u :
    fix_gap env c st = (st1, Ok u) ->
    leaves st1 = leaves st /\ cur st1 = c /\
    built st1 = built st ++ FT (py_slice (toks env) (cur st) c).
  Proof.
    unfold fix_gap.
    destruct (fix_gap_loop (tmodels env) (py_slice (toks env) (cur st) c) (built st)) as [b [e|]] eqn:E;
      intros H; inversion H; subst; simpl.
    apply fix_gap_loop_spec in E. auto.
  Qed.

  Lemma fix_gap_tiled c st st1 u :
    fix_gap env c st = (st1, Ok u) -> 0 <= cur st -> cur st <= c -> Tiled st -> Tiled st1.
  Proof.
    intros H H0 Hc T. apply fix_gap_spec in H. destruct H as (_ & C & B).
    unfold Tiled in *. rewrite B, C, FT_app, FT_idem, T, <- FT_app, <- zfirstn_slice; auto.
  Qed.

  Lemma build_token_spec pos st st' r :
    build_token env pos st = (st', Ok r) ->
    leaves st' = pos :: leaves st /\
    (0 <= cur st -> cur st <= pos -> Tiled st -> cur st' = pos + 1 /\ Tiled st' /\ pos < n).
  Proof.
    unfold build_token. destruct (pos <? 0) eqn:Ep; [discriminate|].
    intros H. apply bind_ok in H. destruct H as (u & st1 & G & H).
    destruct (nth_error (toks env) (Z.to_nat pos)) as [t|] eqn:En; [|discriminate].
    destruct (zmem (lty t) (tmodels env)); [|discriminate].
    inversion H; subst; clear H. simpl.
    pose proof (fix_gap_spec _ _ _ _ G) as (L & C & _).
    split; [congruence|]. intros H0 Hc T.
    pose proof (fix_gap_tiled _ _ _ _ G H0 Hc T) as T1.
    assert (pos < n).
    { subst n. unfold zlen. assert (Z.to_nat pos < length (toks env))%nat; [|lia].
      apply nth_error_Some. congruence. }
    repeat split; try lia.
    unfold Tiled in *. simpl. rewrite C in *.
    rewrite FT_app, T1, <- FT_app, <- zfirstn_succ; auto. lia.
  Qed.

  Lemma build_token_step pos st st' r : build_token env pos st = (st', Ok r) -> Step st st'.
  Proof.
    intros H. apply build_token_spec in H. destruct H as (L & H).
    exists [pos]. split; auto. intros Hok (Hc & T & Hn).
    rewrite L in Hok. apply leaves_ok_head in Hok. destruct Hok as (Hp & Hq & _).
    destruct H as (C & T' & _); try lia; auto.
    unfold Inv. rewrite L, C. simpl. repeat split; auto; lia.
  Qed.

  Lemma scan_indent_ge ign l : forall c0 c, scan_indent ign l c0 = Some c -> c0 <= c.
  Proof.
    induction l as [|t l IH]; simpl; intros c0 c H; [discriminate|].
    destruct (nonempty (ltx t)).
    - destruct (lty t =? T_INDENT). { inversion H. lia. }
      destruct (negb (zmem (lty t) ign)); [discriminate|]. apply IH in H. lia.
    - apply IH in H. lia.
  Qed.

  Lemma build_indent_step st st' r : build_indent env st = (st', Ok r) -> Step st st'.
  Proof.
    unfold build_indent.
    destruct (scan_indent (ignored env) (zskipn (cur st) (toks env)) (cur st)) as [c|] eqn:E; [|discriminate].
    apply scan_indent_ge in E. intros H. apply bind_ok in H. destruct H as (u & st1 & G & H).
    pose proof (fix_gap_spec _ _ _ _ G) as (L1 & C1 & _).
    apply build_token_spec in H. destruct H as (L & H).
    exists [c]. split; [simpl; congruence|]. intros Hok (Hc & T & Hn).
    rewrite L, L1 in Hok. apply leaves_ok_head in Hok. destruct Hok as (Hp & _ & _).
    pose proof (fix_gap_tiled _ _ _ _ G (proj1 Hc) E T) as T1.
    destruct H as (C & T' & _); try lia; auto.
    unfold Inv. rewrite L, C. simpl. repeat split; auto; lia.
  Qed.

  Lemma build_placeholder_step st st' r : build_placeholder st = (st', Ok r) -> Step st st'.
  Proof.
    unfold build_placeholder. intros H. inversion H; subst; clear H.
    exists []. split; auto. simpl. intros _ (Hc & T & Hn). unfold Inv, Tiled in *. simpl.
    repeat split; auto; try lia. rewrite FT_app. simpl. rewrite app_nil_r. exact T.
  Qed.

  (* what the walk guarantees for one subtree *)
  Definition P (rec : ltree -> M btree) (t : ltree) : Prop :=
    forall st st' r, rec t st = (st', Ok r) -> Step st st'.

  Lemma build_repeated_step rec ics :
    Forall (P rec) ics -> forall st st' r, build_repeated rec ics st = (st', Ok r) -> Step st st'.
  Proof.
    intros F st st' r H. unfold build_repeated in H.
    apply bind_ok in H. destruct H as (ph & st1 & Hp & H).
    apply bind_ok in H. destruct H as (xs & st2 & Hi & H).
    inversion H; subst; clear H.
    eapply Step_trans; [eapply build_placeholder_step; eauto|].
    clear Hp ph st. revert st1 xs Hi.
    induction F as [|i ics Pi F IH]; intros st1 xs Hi.
    - inversion Hi; subst. apply Step_refl.
    - assert (K : forall st1 xs,
                 bind (rec i) (fun x => bind ((fix items (l : list ltree) : M (list btree) :=
                     match l with
                     | [] => ret []
                     | LNode NSkip _ :: r => items r
                     | i :: r => bind (rec i) (fun x => bind (items r) (fun xs => ret (x :: xs)))
                     end) ics) (fun xs => ret (x :: xs))) st1 = (st', Ok xs) -> Step st1 st').
      { intros s ys H. apply bind_ok in H. destruct H as (x & s1 & H1 & H).
        apply bind_ok in H. destruct H as (zs & s2 & H2 & H). inversion H; subst; clear H.
        eapply Step_trans; [eapply Pi; eauto | eapply IH; eauto]. }
      destruct i as [pos| |k cs]; [eapply K; eauto | eapply K; eauto |].
      destruct k; try (eapply K; eauto; fail).
      eapply IH; eauto.
  Qed.

  (* a child subtree satisfies the walk property, and so do the items of a repeated child *)
  Definition R (rec : ltree -> M btree) (t : ltree) : Prop :=
    P rec t /\ match t with LNode _ cs => Forall (P rec) cs | _ => True end.

  Lemma build_children_step rec cs :
    Forall (R rec) cs -> forall st st' r, build_children env rec cs st = (st', Ok r) -> Step st st'.
  Proof.
    induction 1 as [|c cs Rc F IH]; intros st st' r H; simpl in H.
    - inversion H; subst. apply Step_refl.
    - assert (K : forall (m : M btree),
                 (forall s s' x, m s = (s', Ok x) -> Step s s') ->
                 forall st r, bind m (fun x => bind (build_children env rec cs) (fun xs => ret (x :: xs))) st
                              = (st', Ok r) -> Step st st').
      { intros m Hm s ys H0. apply bind_ok in H0. destruct H0 as (x & s1 & H1 & H0).
        apply bind_ok in H0. destruct H0 as (zs & s2 & H2 & H0). inversion H0; subst; clear H0.
        eapply Step_trans; [eapply Hm; eauto | eapply IH; eauto]. }
      destruct Rc as (Pc & Gc).
      destruct c as [pos| |k ics].
      + eapply (K (rec (LTok pos))); [exact Pc | exact H].
      + apply bind_ok in H. destruct H as (zs & s2 & H2 & H). inversion H; subst. eapply IH; eauto.
      + destruct k.
        * eapply (K (rec (LNode NModel ics))); [exact Pc | exact H].
        * eapply (K (build_repeated rec ics)); [|exact H]. intros. eapply build_repeated_step; eauto.
        * eapply (K (build_indent env)); [|exact H]. intros. eapply build_indent_step; eauto.
        * eapply IH; eauto.
        * eapply (K (rec (LNode NUnknown ics))); [exact Pc | exact H].
  Qed.

  (* induction principle for the nested tree type *)
  Lemma ltree_ind' (Q : ltree -> Prop) :
    (forall pos, Q (LTok pos)) -> Q LNone ->
    (forall k cs, Forall Q cs -> Q (LNode k cs)) -> forall t, Q t.
  Proof.
    intros HT HN HD. fix IH 1. intros [pos| |k cs]; [apply HT | apply HN |].
    apply HD. induction cs as [|c cs IHcs]; constructor; [apply IH | exact IHcs].
  Qed.

  Lemma build_required_R : forall t, R (build_required env) t.
  Proof.
    apply ltree_ind'.
    - intros pos. split; auto. intros st st' r H. simpl in H. eapply build_token_step; eauto.
    - split; auto. intros st st' r H. discriminate.
    - intros k cs F. split.
      + intros st st' r H. destruct k; simpl in H; try discriminate.
        apply bind_ok in H. destruct H as (xs & st1 & H1 & H). inversion H; subst; clear H.
        eapply build_children_step; eauto.
      + eapply Forall_impl; [|exact F]. intros a (Pa & _). exact Pa.
  Qed.

  Lemma Inv_st0 : Inv st0.
  Proof. unfold Inv, Tiled, st0. simpl. subst n. unfold zlen. repeat split; auto; lia. Qed.

  (* builder_tiles: with increasing leaves, every lexeme that carries text is in the store exactly
     once, in stream order, and nothing else in the store carries text *)
  Lemma builder_tiles_FT t st b :
    build env t = (st, Ok b) -> leaves_ok n (leaves st) = true -> FT (built st) = FT (toks env).
  Proof.
    unfold build. destruct t as [| |k cs]; try discriminate.
    intros H Hok. apply bind_ok in H. destruct H as (m & st1 & H1 & H).
    apply bind_ok in H. destruct H as (u & st2 & H2 & H). inversion H; subst; clear H.
    pose proof (proj1 (build_required_R (LNode k cs)) _ _ _ H1) as (new & L & S).
    pose proof (fix_gap_spec _ _ _ _ H2) as (L2 & C2 & _).
    rewrite L2 in Hok. destruct (S Hok Inv_st0) as (Hc & T & _).
    pose proof (fix_gap_tiled _ _ _ _ H2 (proj1 Hc) (proj2 Hc) T) as T2.
    unfold Tiled in T2. rewrite T2, C2, zfirstn_all; auto. reflexivity.
  Qed.

  Lemma builder_tiles t st b :
    build env t = (st, Ok b) -> leaves_ok n (leaves st) = true -> txt (built st) = txt (toks env).
  Proof. intros. apply FT_eq_txt. eapply builder_tiles_FT; eauto. Qed.
End Builder.

(* ------------------------------------------------------------------------------------------ *)
(* printing a span of the store *)
Definition off (l : list lexeme) (i : Z) : Z := zlen (txt (zfirstn i l)).

Lemma slice_app_mid {A} (x y z : list A) : py_slice (x ++ y ++ z) (zlen x) (zlen x + zlen y) = y.
Proof.
  unfold py_slice, zfirstn, zskipn, zlen.
  replace (Z.to_nat (Z.of_nat (length x))) with (length x) by lia.
  replace (Z.to_nat (Z.of_nat (length x) + Z.of_nat (length y) - Z.of_nat (length x))) with (length y) by lia.
  rewrite skipn_app, skipn_all, Nat.sub_diag. simpl.
  rewrite firstn_app, firstn_all, Nat.sub_diag. simpl. apply app_nil_r.
Qed.

(* a model whose first/last tokens sit at store indexes a <= b prints exactly the slice of the
   store's text between the offset of a and the end of b *)
Lemma print_span_is_slice store a b :
  0 <= a -> a <= b -> b < zlen store ->
  print_span store a b = py_slice (txt store) (off store a) (off store (b + 1)).
Proof.
  intros Ha Hab Hb. unfold print_span, seg, off.
  assert (E1 : zfirstn (b + 1) store = zfirstn a store ++ py_slice store a (b + 1))
    by (apply zfirstn_slice; lia).
  assert (E2 : store = zfirstn (b + 1) store ++ zskipn (b + 1) store)
    by (unfold zfirstn, zskipn; symmetry; apply firstn_skipn).
  remember (zfirstn a store) as X. remember (py_slice store a (b + 1)) as Y.
  remember (zskipn (b + 1) store) as W.
  rewrite E1 in E2 |- *. rewrite <- app_assoc in E2. clear HeqX HeqY HeqW E1.
  rewrite E2. rewrite !txt_app, zlen_app. symmetry. apply slice_app_mid.
Qed.

Lemma print_whole store : print_span store 0 (zlen store - 1) = txt store.
Proof.
  unfold print_span, seg, py_slice. replace (zlen store - 1 + 1 - 0) with (zlen store) by lia.
  unfold zskipn. simpl. rewrite zfirstn_all; auto. lia.
Qed.

(* ------------------------------------------------------------------------------------------ *)
(* the pipeline *)
Definition postlex_of (postlex : bool) (s : list lexeme) :=
  if postlex then process s else process_inline s.

Lemma pipeline_store_text text postlex s s' ign tm T st b store :
  txt s = text ->                                              (* H-tile *)
  postlex_of postlex s = (s', None) ->                         (* the split accepted every lexeme *)
  build (mkenv s' ign tm) T = (st, Ok b) ->
  leaves_ok (zlen s') (leaves st) = true ->                    (* H-order *)
  FT store = FT (built st) ->                                  (* claiming moved zero-width tokens only *)
  txt store = text.
Proof.
  intros Ht Hp Hb Ho Hs.
  rewrite (FT_eq_txt _ _ Hs), (builder_tiles _ _ _ _ Hb Ho). simpl.
  destruct postlex; simpl in Hp.
  - rewrite (postlex_preserves_text _ _ Hp). exact Ht.
  - inversion Hp; subst. reflexivity.
Qed.

Lemma root_span_file store b a z :
  root_span true store b = Some (a, z) -> print_span store a z = txt store.
Proof.
  unfold root_span. simpl. destruct (zlen store =? 0) eqn:E; simpl.
  - intros _. assert (store = []) by (destruct store; auto; unfold zlen in E; simpl in E; lia).
    subst. unfold print_span, seg, py_slice, zfirstn, zskipn. rewrite skipn_nil, firstn_nil. reflexivity.
  - intros H. inversion H; subst. apply print_whole.
Qed.

(* ------------------------------------------------------------------------------------------ *)
(* the statements C01.v exposes *)
Section Pipeline.
  Variables (text : str) (postlex : bool) (s s' : list lexeme) (ign tm : list Z) (T : ltree)
            (st : bstate) (b : btree) (store : list lexeme).
  Hypothesis Htile : txt s = text.
  Hypothesis Hpost : postlex_of postlex s = (s', None).
  Hypothesis Hbuild : build (mkenv s' ign tm) T = (st, Ok b).
  Hypothesis Horder : leaves_ok (zlen s') (leaves st) = true.
  Hypothesis Hclaim : filter has_text store = filter has_text (built st).

  Lemma store_concat_is_input : txt store = text.
  Proof. eapply pipeline_store_text; eauto. Qed.

  Lemma file_prints_input a z : root_span true store b = Some (a, z) -> print_span store a z = text.
  Proof. intros H. rewrite (root_span_file _ _ _ _ H). apply store_concat_is_input. Qed.

  Lemma submodel_slice a z :
    0 <= a -> a <= z -> z < zlen store ->
    print_span store a z = py_slice text (off store a) (off store (z + 1)).
  Proof. intros. rewrite <- store_concat_is_input. apply print_span_is_slice; auto. Qed.

  Lemma target_span_partial a z :
    a = 0 -> z = zlen store - 1 -> print_span store a z = text.
  Proof. intros -> ->. rewrite print_whole. apply store_concat_is_input. Qed.
End Pipeline.

(* D12 witness: parse(' 1 + 2 ', NumberExpr). Stream and tree as lark produced them (type codes as the
   harness assigns them; only INDENT = 6 is interpreted by the model). *)
Definition d12_text : str := [32; 49; 32; 43; 32; 50; 32].
Definition d12_stream : list lexeme :=
  [(6, [32]); (138, [49]); (156, [32]); (109, [43]); (156, [32]); (138, [50]); (156, [32])].
Definition d12_ign : list Z := [7; 6; 128; 156; 2].
Definition d12_tm : list Z := [6; 109; 138; 156].
Definition d12_tree : ltree :=
  LNode NModel [LNode NModel [LNode NModel [LTok 1]; LTok 3; LNode NModel [LTok 5]]].

Lemma target_span_refuted :
  exists text s s' ign tm T st b a z,
    txt s = text /\ postlex_of false s = (s', None) /\
    build (mkenv s' ign tm) T = (st, Ok b) /\ leaves_ok (zlen s') (leaves st) = true /\
    root_span false (built st) b = Some (a, z) /\
    print_span (built st) a z <> text.
Proof.
  exists d12_text, d12_stream, d12_stream, d12_ign, d12_tm, d12_tree.
  eexists. eexists. exists 1, 5.
  split; [reflexivity|]. split; [reflexivity|]. split; [vm_compute; reflexivity|].
  split; [vm_compute; reflexivity|]. split; [vm_compute; reflexivity|].
  vm_compute. discriminate.
Qed.

(* a whole-file instance through PostLex: parse('* x\n  ; c\n', File) *)
Definition ex_text : str := [42; 32; 120; 10; 32; 32; 59; 32; 99; 10].
Definition ex_in : list lexeme := [(126, [42; 32; 120]); (1, [10; 32; 32; 59; 32; 99]); (1, [10])].
Definition ex_out : list lexeme :=
  [(126, [42; 32; 120]); (3, []); (2, [10]); (4, []); (7, [32; 32; 59; 32; 99]); (5, []); (2, [10]); (3, [])].
Definition ex_tm : list Z := [2; 3; 5; 6; 7; 126].
Definition ex_tree : ltree :=
  LNode NModel [LNode NRepeated [LNode NModel [LNone; LTok 0; LTok 1; LNone];
                                 LNode NSkip [LNode NSkip [LTok 3]; LNode NSkip [LTok 5]];
                                 LNode NSkip [LTok 7]]].
Definition ex_built : list lexeme :=
  [(0, []); (126, [42; 32; 120]); (3, []); (2, [10]); (7, [32; 32; 59; 32; 99]); (2, [10])].

Lemma ex_pipeline :
  txt ex_in = ex_text /\ process ex_in = (ex_out, None) /\
  exists st b, build (mkenv ex_out d12_ign ex_tm) ex_tree = (st, Ok b) /\ built st = ex_built /\
               leaves_ok (zlen ex_out) (leaves st) = true /\ root_span true ex_built b = Some (0, 5).
Proof.
  split; [reflexivity|]. split; [vm_compute; reflexivity|].
  eexists. eexists. split; [vm_compute; reflexivity|].
  split; [reflexivity|]. split; vm_compute; reflexivity.
Qed.

(* ------------------------------------------------------------------------------------------ *)
(* first_token <= last_token for the returned model and every model nested in it *)
Fixpoint sw (lo hi : Z) (l : list Z) : Prop :=          (* strictly increasing inside [lo, hi) *)
  match l with
  | [] => lo <= hi
  | i :: r => lo <= i /\ sw (i + 1) hi r
  end.

Lemma sw_le lo hi l : sw lo hi l -> lo <= hi.
Proof. revert lo. induction l as [|i r IH]; simpl; intros lo H; auto. destruct H as (H1 & H2). apply IH in H2. lia. Qed.

Lemma sw_weaken lo lo' hi hi' l : lo' <= lo -> hi <= hi' -> sw lo hi l -> sw lo' hi' l.
Proof.
  revert lo lo'. induction l as [|i r IH]; simpl; intros lo lo' H1 H2 H; [lia|].
  destruct H as (Ha & Hb). split; [lia|]. eapply IH; eauto. lia.
Qed.

Lemma sw_app lo mid hi a b : sw lo mid a -> sw mid hi b -> sw lo hi (a ++ b).
Proof.
  revert lo. induction a as [|i r IH]; simpl; intros lo Ha Hb.
  - eapply sw_weaken; eauto. lia.
  - destruct Ha as (H1 & H2). split; auto.
Qed.

Lemma sw_app_inv lo hi a b : sw lo hi (a ++ b) -> exists mid, sw lo mid a /\ sw mid hi b.
Proof.
  revert lo. induction a as [|i r IH]; simpl; intros lo H.
  - exists lo. split; auto. lia.
  - destruct H as (H1 & H2). apply IH in H2. destruct H2 as (mid & Ha & Hb). exists mid. auto.
Qed.

Lemma sw_in lo hi l z : sw lo hi l -> In z l -> lo <= z < hi.
Proof.
  revert lo. induction l as [|i r IH]; simpl; intros lo H I; [contradiction|].
  destruct H as (H1 & H2). destruct I as [->|I].
  - apply sw_le in H2. lia.
  - apply IH with (lo := i + 1) in I; auto. lia.
Qed.

Lemma btree_ind' (Q : btree -> Prop) :
  (forall i, Q (BTok i)) -> Q BNone ->
  (forall p items, Forall Q items -> Q (BRep p items)) ->
  (forall cs, Forall Q cs -> Q (BModel cs)) -> forall b, Q b.
Proof.
  intros HT HN HR HM. fix IH 1. intros [i| |p items|cs]; [apply HT | apply HN | apply HR | apply HM].
  - induction items as [|c r IHr]; constructor; [apply IH | exact IHr].
  - induction cs as [|c r IHr]; constructor; [apply IH | exact IHr].
Qed.

Lemma bfirst_bidx : forall b,
  match bfirst b with Some a => exists r, bidx b = a :: r | None => bidx b = [] end.
Proof.
  apply btree_ind'; simpl; eauto.
  intros cs F. induction F as [|c cs Hc F IH]; simpl; auto.
  destruct (bfirst c) as [x|].
  - destruct Hc as (r & Hr). rewrite Hr. simpl. eauto.
  - rewrite Hc. simpl. exact IH.
Qed.

Lemma blast_in : forall b z, blast b = Some z -> In z (bidx b).
Proof.
  apply (btree_ind' (fun b => forall z, blast b = Some z -> In z (bidx b))); simpl.
  - intros i z H. inversion H; subst. left. reflexivity.
  - intros z H. discriminate.
  - intros p items F z.
    assert (K : forall y, (fix lastb (l : list btree) : option Z :=
                 match l with [] => None | [x] => blast x | _ :: r => lastb r end) items = Some y ->
               In y (flat_map bidx items)).
    { induction F as [|c r Hc F IH]; simpl; [discriminate|]. intros y H. apply in_or_app.
      destruct r as [|c2 r2]; [left; auto | right; auto]. }
    destruct ((fix lastb (l : list btree) : option Z :=
                 match l with [] => None | [x] => blast x | _ :: r => lastb r end) items) as [y|] eqn:E.
    + intros H. inversion H; subst. right. apply K. reflexivity.
    + intros H. inversion H. auto.
  - intros cs F. induction F as [|c r Hc F IH]; simpl; [discriminate|]. intros z H. apply in_or_app.
    destruct (last_some (map blast r)) as [y|] eqn:E.
    + inversion H; subst. right. apply IH. reflexivity.
    + left. auto.
Qed.

Lemma span_ordered lo hi b a z :
  sw lo hi (bidx b) -> bfirst b = Some a -> blast b = Some z -> lo <= a /\ a <= z /\ z < hi.
Proof.
  intros S Hf Hl. pose proof (bfirst_bidx b) as Hb. rewrite Hf in Hb. destruct Hb as (r & Hr).
  apply blast_in in Hl. rewrite Hr in *. simpl in S. destruct S as (S1 & S2).
  destruct Hl as [->|I].
  - apply sw_le in S2. lia.
  - pose proof (sw_in _ _ _ _ S2 I). lia.
Qed.

Lemma sw_flat_in lo hi (cs : list btree) x :
  sw lo hi (flat_map bidx cs) -> In x cs -> exists lo' hi', lo <= lo' /\ hi' <= hi /\ sw lo' hi' (bidx x).
Proof.
  revert lo. induction cs as [|c cs IH]; simpl; intros lo S I; [contradiction|].
  apply sw_app_inv in S. destruct S as (mid & Sa & Sb).
  destruct I as [->|I].
  - exists lo, mid. repeat split; auto; try lia. apply sw_le in Sb. lia.
  - destruct (IH _ Sb I) as (lo' & hi' & H1 & H2 & H3). exists lo', hi'. repeat split; auto.
    apply sw_le in Sa. lia.
Qed.

Lemma sw_subnode c b : subnode c b -> forall lo hi, sw lo hi (bidx b) ->
  exists lo' hi', lo <= lo' /\ hi' <= hi /\ sw lo' hi' (bidx c).
Proof.
  induction 1 as [|p items x I S IH|cs x I S IH]; intros lo hi H.
  - exists lo, hi. repeat split; auto; lia.
  - simpl in H. destruct H as (H1 & H2).
    destruct (sw_flat_in _ _ _ _ H2 I) as (l1 & h1 & A & B & C).
    destruct (IH _ _ C) as (l2 & h2 & A2 & B2 & C2). exists l2, h2. repeat split; auto; lia.
  - simpl in H. destruct (sw_flat_in _ _ _ _ H I) as (l1 & h1 & A & B & C).
    destruct (IH _ _ C) as (l2 & h2 & A2 & B2 & C2). exists l2, h2. repeat split; auto; lia.
Qed.

Section BuilderSpans.
  Variable env : benv.

  Definition L (st : bstate) : Z := zlen (built st).
  Definition Out (st st' : bstate) (b : btree) : Prop := sw (L st) (L st') (bidx b).
  Definition OutL (st st' : bstate) (xs : list btree) : Prop := sw (L st) (L st') (flat_map bidx xs).
  Definition P2 (rec : ltree -> M btree) (t : ltree) : Prop :=
    forall st st' b, rec t st = (st', Ok b) -> Out st st' b.
  Definition R2 (rec : ltree -> M btree) (t : ltree) : Prop :=
    P2 rec t /\ match t with LNode _ cs => Forall (P2 rec) cs | _ => True end.

  Lemma fix_gap_grows c st st1 u : fix_gap env c st = (st1, Ok u) -> L st <= L st1.
  Proof.
    intros H. apply fix_gap_spec in H. destruct H as (_ & _ & B). unfold L. rewrite B, zlen_app.
    unfold zlen. lia.
  Qed.

  Lemma build_token_out pos st st' b : build_token env pos st = (st', Ok b) -> Out st st' b.
  Proof.
    unfold build_token. destruct (pos <? 0); [discriminate|].
    intros H. apply bind_ok in H. destruct H as (u & st1 & G & H).
    destruct (nth_error (toks env) (Z.to_nat pos)) as [t|]; [|discriminate].
    destruct (zmem (lty t) (tmodels env)); [|discriminate].
    inversion H; subst; clear H. apply fix_gap_grows in G.
    unfold Out, L in *. simpl. rewrite zlen_app. replace (zlen [t]) with 1 by reflexivity. lia.
  Qed.

  Lemma build_indent_out st st' b : build_indent env st = (st', Ok b) -> Out st st' b.
  Proof.
    unfold build_indent.
    destruct (scan_indent (ignored env) (zskipn (cur st) (toks env)) (cur st)) as [c|]; [|discriminate].
    intros H. apply bind_ok in H. destruct H as (u & st1 & G & H).
    apply fix_gap_grows in G. apply build_token_out in H. unfold Out in *.
    eapply sw_weaken; [exact G | | exact H]. lia.
  Qed.

  Lemma items_out rec ics :
    Forall (P2 rec) ics -> forall st st' xs,
    (fix items (l : list ltree) : M (list btree) :=
       match l with
       | [] => ret []
       | LNode NSkip _ :: r => items r
       | i :: r => bind (rec i) (fun x => bind (items r) (fun xs => ret (x :: xs)))
       end) ics st = (st', Ok xs) -> OutL st st' xs.
  Proof.
    induction 1 as [|i ics Pi F IH]; intros st st' xs H.
    - inversion H; subst. unfold OutL. simpl. lia.
    - assert (K : bind (rec i) (fun x => bind ((fix items (l : list ltree) : M (list btree) :=
                     match l with
                     | [] => ret []
                     | LNode NSkip _ :: r => items r
                     | i :: r => bind (rec i) (fun x => bind (items r) (fun xs => ret (x :: xs)))
                     end) ics) (fun xs => ret (x :: xs))) st = (st', Ok xs) -> OutL st st' xs).
      { intros H0. apply bind_ok in H0. destruct H0 as (x & s1 & H1 & H0).
        apply bind_ok in H0. destruct H0 as (zs & s2 & H2 & H0). inversion H0; subst; clear H0.
        unfold OutL. simpl. eapply sw_app; [eapply Pi; eauto | eapply IH; eauto]. }
      destruct i as [pos| |k cs]; [apply K; exact H | apply K; exact H |].
      destruct k; try (apply K; exact H). eapply IH; eauto.
  Qed.

  Lemma build_repeated_out rec ics :
    Forall (P2 rec) ics -> forall st st' b, build_repeated rec ics st = (st', Ok b) -> Out st st' b.
  Proof.
    intros F st st' b H. unfold build_repeated in H.
    apply bind_ok in H. destruct H as (ph & st1 & Hp & H).
    apply bind_ok in H. destruct H as (xs & st2 & Hi & H). inversion H; subst; clear H.
    apply (items_out rec ics F) in Hi. unfold build_placeholder in Hp. inversion Hp; subst; clear Hp.
    unfold Out, OutL, L in *. simpl in *. rewrite zlen_app in Hi. unfold zlen at 2 in Hi. simpl in Hi.
    split; [lia|]. exact Hi.
  Qed.

  Lemma build_children_out rec cs :
    Forall (R2 rec) cs -> forall st st' xs, build_children env rec cs st = (st', Ok xs) -> OutL st st' xs.
  Proof.
    induction 1 as [|c cs Rc F IH]; intros st st' xs H; simpl in H.
    - inversion H; subst. unfold OutL. simpl. lia.
    - assert (K : forall (m : M btree),
                 (forall s s' x, m s = (s', Ok x) -> Out s s' x) ->
                 bind m (fun x => bind (build_children env rec cs) (fun xs => ret (x :: xs))) st
                   = (st', Ok xs) -> OutL st st' xs).
      { intros m Hm H0. apply bind_ok in H0. destruct H0 as (x & s1 & H1 & H0).
        apply bind_ok in H0. destruct H0 as (zs & s2 & H2 & H0). inversion H0; subst; clear H0.
        unfold OutL. simpl. eapply sw_app; [eapply Hm; eauto | eapply IH; eauto]. }
      destruct Rc as (Pc & Gc).
      destruct c as [pos| |k ics].
      + apply (K (rec (LTok pos))); [exact Pc | exact H].
      + apply bind_ok in H. destruct H as (zs & s2 & H2 & H). inversion H; subst. simpl.
        unfold OutL. simpl. eapply IH; eauto.
      + destruct k.
        * apply (K (rec (LNode NModel ics))); [exact Pc | exact H].
        * apply (K (build_repeated rec ics)); [|exact H]. intros. eapply build_repeated_out; eauto.
        * apply (K (build_indent env)); [|exact H]. intros. eapply build_indent_out; eauto.
        * eapply IH; eauto.
        * apply (K (rec (LNode NUnknown ics))); [exact Pc | exact H].
  Qed.

  Lemma build_required_R2 : forall t, R2 (build_required env) t.
  Proof.
    apply ltree_ind'.
    - intros pos. split; auto. intros st st' b H. simpl in H. eapply build_token_out; eauto.
    - split; auto. intros st st' b H. discriminate.
    - intros k cs F. split.
      + intros st st' b H. destruct k; simpl in H; try discriminate.
        apply bind_ok in H. destruct H as (xs & st1 & H1 & H). inversion H; subst; clear H.
        unfold Out. simpl. eapply build_children_out; eauto.
      + eapply Forall_impl; [|exact F]. intros a (Pa & _). exact Pa.
  Qed.

  (* every model nested in the result has first_token <= last_token, both inside the store *)
  Lemma spans_ordered t st b :
    build env t = (st, Ok b) ->
    forall c a z, subnode c b -> bfirst c = Some a -> blast c = Some z ->
                  0 <= a /\ a <= z /\ z < zlen (built st).
  Proof.
    unfold build. destruct t as [| |k cs]; try discriminate.
    intros H c a z Hs Hf Hl. apply bind_ok in H. destruct H as (m & st1 & H1 & H).
    apply bind_ok in H. destruct H as (u & st2 & H2 & H). inversion H; subst; clear H.
    pose proof (proj1 (build_required_R2 (LNode k cs)) _ _ _ H1) as O.
    apply fix_gap_grows in H2. unfold Out, L in *. simpl in O.
    destruct (sw_subnode _ _ Hs _ _ O) as (lo & hi & A & B & C).
    pose proof (span_ordered _ _ _ _ _ C Hf Hl). change (zlen (@nil lexeme)) with 0 in A. lia.
  Qed.
End BuilderSpans.
