(* Proofs about the generic from_children model, part 3: the two run-level hypotheses of
   ConstructWF.constructed_wf ("the tokens of the new store are pairwise distinct objects", "the node
   spans its whole store") are discharged from the definition of the construction:

   - the ids minted for separators / literals / placeholders are next, next+1, ... (Construct.fresh_toks),
     so if the argument trees' tokens are pairwise distinct and all below `next` (args_fresh), the new
     store has no token twice (construct_nodup);
   - first_token / last_token of the result follow the scheme chains (wf_tree), which walk the fields from
     the outside in up to the first non-optional one. If the layout has no literal and no separator before
     that field's tokens (edges_ok: a decidable condition on the class descriptor, true of every generated
     class, generated_edges_each), the chain reaches the first / last token of the new store, so
     `.tokens` = list(store.iter(first, last)) is the whole store (construct_toks_eq).
   Hence constructed_wf_full; and with hereditarily well-formed arguments the result is hereditarily
   well-formed (constructed_hwf), i.e. an admissible donor for the edits of TreeEditProofs4. *)
From AB Require Import Desc Tree TreeDefs TreeProofs TreeProofs2 TreeProofs3 TreeProofs4 TreeWF TreeWFProofs.
From AB Require Import Construct ConstructProofs ConstructWF.
From AB Require Import TreeEdit TreeEditProofs TreeEditProofs2 TreeEditProofs3 TreeEditProofs4.
From AB Require Import Generated GeneratedWf TreeRun TreeFacts ConstructFacts.
From Coq Require Import ZArith List Bool Lia.
Import ListNotations.
Open Scope list_scope.
(* TreeEdit.v has a find_field of its own (returning the field descriptor); here it is Construct's *)
Local Notation find_field := Construct.find_field (only parsing).

(* ---- the descriptor condition for "the node spans its store" -------------------------------------- *)
(* walking the layout from one end: only fields, optional ones that put their separators on the inner
   side (optional_right at the front: value then separators; optional_left at the back: separators then
   value), up to a required or repeated field *)
Fixpoint edge_ok (fields : list fdesc) (sd : side) (l : list lay) : bool :=
  match l with
  | [] => false
  | x :: r =>
    match lay_field x with
    | None => false
    | Some f =>
      match find_field fields f with
      | Some FReq => true
      | Some (FRep _ _) => true
      | Some (FOptR _) => match sd with SFirst => edge_ok fields sd r | SLast => false end
      | Some (FOptL _) => match sd with SLast => edge_ok fields sd r | SFirst => false end
      | None => false
      end
    end
  end.
Definition edges_ok (c : cdesc) : bool :=
  match c_layout c with
  | None => true
  | Some l => edge_ok (c_fields c) SFirst l && edge_ok (c_fields c) SLast (rev l)
  end.

Lemma generated_edges : forallb edges_ok classes = true.
Proof. vm_compute. reflexivity. Qed.

Lemma generated_edges_each : forall c, In c classes -> edges_ok c = true.
Proof. apply forallb_forall. exact generated_edges. Qed.

(* ---- freshness of the arguments ----------------------------------------------------------------------- *)
(* all tokens of the argument trees, in argument order *)
Definition arg_toks (a : arg) : list tk := flat_map node_toks (arg_nodes a).
Definition args_toks (args : list (string * arg)) : list tk := flat_map (fun fa => arg_toks (snd fa)) args.

(* the arguments' tokens are pairwise distinct objects (within and across arguments), and none of them
   has an identity the construction is going to mint (next, next+1, ...). In the implementation the
   second half is automatic (a freshly created token object is a new object) and the first half is the
   condition under which from_children does not raise: TokenStore.from_tokens raises ValueError('The same
   token is listed twice.') otherwise (e.g. Open.from_children(date, account, [cur, cur])). The model's
   `construct` does not model that exception: it returns a store with a repeated token, which is why the
   hypothesis is needed here. *)
Definition args_fresh (args : list (string * arg)) (next : Z) : Prop :=
  NoDup (ids (args_toks args)) /\ forall t, In t (args_toks args) -> (k_id t < next)%Z.
Definition args_fresh_b (args : list (string * arg)) (next : Z) : bool :=
  nodupz (ids (args_toks args)) && forallb (fun t => (k_id t <? next)%Z) (args_toks args).

Lemma args_fresh_b_sound : forall args next, args_fresh_b args next = true -> args_fresh args next.
Proof.
  intros args next H. unfold args_fresh_b in H. apply andb_true_iff in H. destruct H as [H1 H2]. split.
  - apply nodupz_NoDup. exact H1.
  - intros t Ht. rewrite forallb_forall in H2. apply Z.ltb_lt. apply H2. exact Ht.
Qed.

Lemma args_toks_cons : forall k v args, args_toks ((k, v) :: args) = arg_toks v ++ args_toks args.
Proof. reflexivity. Qed.

Lemma lookup_sub : forall args f a, lookup f args = Some a -> forall t, In t (arg_toks a) -> In t (args_toks args).
Proof.
  induction args as [|[k v] args IH]; intros f a H t Ht; simpl in H; try discriminate.
  rewrite args_toks_cons. apply in_or_app. destruct (String.eqb k f).
  - inversion H. subst. left. exact Ht.
  - right. eapply IH; eauto.
Qed.

Lemma lookup_nodup : forall args f a, NoDup (ids (args_toks args)) -> lookup f args = Some a -> NoDup (ids (arg_toks a)).
Proof.
  induction args as [|[k v] args IH]; intros f a Hnd H; simpl in H; try discriminate.
  rewrite args_toks_cons in Hnd. destruct (String.eqb k f).
  - inversion H. subst. eapply NoDup_ids_app_l. exact Hnd.
  - eapply IH; eauto. eapply NoDup_ids_app_r. exact Hnd.
Qed.

Lemma lookup_disjoint : forall args f g a b, NoDup (ids (args_toks args)) ->
  lookup f args = Some a -> lookup g args = Some b -> f <> g ->
  forall x y, In x (arg_toks a) -> In y (arg_toks b) -> k_id x <> k_id y.
Proof.
  induction args as [|[k v] args IH]; intros f g a b Hnd Hf Hg Hne x y Hx Hy; simpl in Hf, Hg; try discriminate.
  rewrite args_toks_cons in Hnd.
  destruct (String.eqb k f) eqn:Ef, (String.eqb k g) eqn:Eg.
  - apply String.eqb_eq in Ef. apply String.eqb_eq in Eg. congruence.
  - inversion Hf. subst v. apply (NoDup_ids_disjoint _ _ x y Hnd Hx). eapply lookup_sub; eauto.
  - inversion Hg. subst v. intro E. symmetry in E. revert E.
    apply (NoDup_ids_disjoint _ _ y x Hnd Hy). eapply lookup_sub; eauto.
  - apply (IH f g a b); auto. eapply NoDup_ids_app_r. exact Hnd.
Qed.

(* ---- what a stretch of the new store consists of -------------------------------------------------------- *)
(* L has no token twice; each of its tokens was minted with an id in [lo, hi) or is a token of A *)
Definition inv (A : list tk) (lo hi : Z) (L : list tk) : Prop :=
  (lo <= hi)%Z /\ NoDup (ids L) /\ forall t, In t L -> (lo <= k_id t < hi)%Z \/ In t A.
Definition below (A : list tk) (lo : Z) : Prop := forall t, In t A -> (k_id t < lo)%Z.

Lemma inv_nil : forall A lo, inv A lo lo [].
Proof. intros A lo. split; [lia|]. split; [constructor|intros t []]. Qed.

Lemma inv_own : forall A lo, NoDup (ids A) -> inv A lo lo A.
Proof. intros A lo H. split; [lia|]. split; [exact H|]. intros t Ht. right. exact Ht. Qed.

Lemma inv_weaken : forall A A' lo hi L, (forall t, In t A -> In t A') -> inv A lo hi L -> inv A' lo hi L.
Proof.
  intros A A' lo hi L Hsub (H1 & H2 & H3). split; [exact H1|]. split; [exact H2|].
  intros t Ht. destruct (H3 t Ht) as [Hr|Hin]; [left; exact Hr|right; auto].
Qed.

Lemma fresh_range : forall seps next t, In t (fresh_toks next seps) ->
  (next <= k_id t < next + Z.of_nat (length seps))%Z.
Proof.
  induction seps as [|x r IH]; intros next t Ht; [destruct Ht|]. simpl in Ht. destruct Ht as [E|Ht].
  - subst t. cbn [k_id length]. lia.
  - specialize (IH _ _ Ht). cbn [length]. lia.
Qed.

Lemma fresh_nodup : forall seps next, NoDup (ids (fresh_toks next seps)).
Proof.
  induction seps as [|x r IH]; intro next; simpl; [constructor|]. constructor; [|apply IH].
  intro Hin. unfold ids in Hin. apply in_map_iff in Hin. destruct Hin as (t & E & Ht).
  pose proof (fresh_range _ _ _ Ht). cbn [k_id] in E. lia.
Qed.

Lemma inv_fresh : forall A seps next, inv A next (next + Z.of_nat (length seps)) (fresh_toks next seps).
Proof.
  intros A seps next. split; [lia|]. split; [apply fresh_nodup|]. intros t Ht. left. apply fresh_range. exact Ht.
Qed.

Lemma inv_one : forall A next r x, inv A next (next + 1) [mktk next r x].
Proof.
  intros A next r x. split; [lia|]. split; [constructor; [intros []|constructor]|].
  intros t [E|[]]. subst t. left. cbn [k_id]. lia.
Qed.

Lemma inv_app : forall A B C lo mid hi L1 L2, inv A lo mid L1 -> inv B mid hi L2 ->
  below A lo -> below B lo -> (forall x y, In x A -> In y B -> k_id x <> k_id y) ->
  (forall t, In t A -> In t C) -> (forall t, In t B -> In t C) ->
  inv C lo hi (L1 ++ L2).
Proof.
  intros A B C lo mid hi L1 L2 (A1 & A2 & A3) (B1 & B2 & B3) HA HB Hd HAC HBC.
  split; [lia|]. split.
  - apply NoDup_ids_app_intro; auto. intros x y Hx Hy.
    destruct (A3 x Hx) as [Rx|Ix], (B3 y Hy) as [Ry|Iy].
    + lia.
    + specialize (HB y Iy). lia.
    + specialize (HA x Ix). lia.
    + apply Hd; assumption.
  - intros t Ht. apply in_app_or in Ht. destruct Ht as [Ht|Ht].
    + destruct (A3 t Ht) as [R|I]; [left; lia|right; auto].
    + destruct (B3 t Ht) as [R|I]; [left; lia|right; auto].
Qed.

Lemma inv_app_l : forall A lo mid hi L1 L2, inv [] lo mid L1 -> inv A mid hi L2 -> below A lo -> inv A lo hi (L1 ++ L2).
Proof.
  intros A lo mid hi L1 L2 H1 H2 HA.
  apply (inv_app [] A A lo mid hi L1 L2 H1 H2); [intros t []|exact HA|intros x y []|intros t []|auto].
Qed.

Lemma inv_app_r : forall A lo mid hi L1 L2, inv A lo mid L1 -> inv [] mid hi L2 -> below A lo -> inv A lo hi (L1 ++ L2).
Proof.
  intros A lo mid hi L1 L2 H1 H2 HA.
  apply (inv_app A [] A lo mid hi L1 L2 H1 H2); [exact HA|intros t []|intros x y _ []|auto|intros t []].
Qed.

Lemma below_le : forall A lo lo', below A lo -> (lo <= lo')%Z -> below A lo'.
Proof. intros A lo lo' H Hle t Ht. specialize (H t Ht). lia. Qed.

Lemma slot_own_req : forall x, slot_own (SReq x) = node_toks x.
Proof. intro x. unfold slot_own. simpl. apply app_nil_r. Qed.
Lemma slot_own_some : forall x, slot_own (SOpt (Some x)) = node_toks x.
Proof. intro x. unfold slot_own. simpl. apply app_nil_r. Qed.
Lemma slot_own_none : slot_own (SOpt None) = [].
Proof. reflexivity. Qed.
Lemma slot_own_rep : forall s t ph items, slot_own (SRep s t ph items) = t.
Proof. intros. unfold slot_own. simpl. apply app_nil_r. Qed.

Section Fresh.
Variable cs : classes_t.
Variable new mid : Z.

Lemma rep_segs_inv : forall items next fs seps segs n',
  rep_segs cs new mid next fs seps items = (segs, n') ->
  NoDup (ids (flat_map node_toks items)) -> below (flat_map node_toks items) next ->
  inv (flat_map node_toks items) next n' (flat_map seg_toks segs).
Proof.
  induction items as [|x r IH]; intros next fs seps segs n' H Hnd Hb; simpl in H.
  - inversion H. subst. apply inv_nil.
  - destruct (rep_segs cs new mid (next + Z.of_nat (length fs)) seps seps r) as [rest n2] eqn:E.
    inversion H. subst segs n'. clear H.
    change (flat_map node_toks (x :: r)) with (node_toks x ++ flat_map node_toks r) in *.
    change (flat_map seg_toks (SKid "item" (SReq (item_final cs new mid x)) (fresh_toks next fs) [] :: rest))
      with ((fresh_toks next fs ++ slot_own (SReq (item_final cs new mid x)) ++ []) ++ flat_map seg_toks rest).
    rewrite slot_own_req, item_final_toks, app_nil_r.
    assert (Hbx : below (node_toks x) next) by (intros t Ht; apply Hb; apply in_or_app; left; exact Ht).
    assert (Hbr : below (flat_map node_toks r) next) by (intros t Ht; apply Hb; apply in_or_app; right; exact Ht).
    assert (I1 : inv (node_toks x) next (next + Z.of_nat (length fs)) (fresh_toks next fs ++ node_toks x)).
    { eapply inv_app_l; [apply inv_fresh| |exact Hbx]. apply inv_own. eapply NoDup_ids_app_l. exact Hnd. }
    assert (I2 : inv (flat_map node_toks r) (next + Z.of_nat (length fs)) n2 (flat_map seg_toks rest)).
    { eapply IH; [exact E| |].
      - eapply NoDup_ids_app_r. exact Hnd.
      - eapply below_le; [exact Hbr|lia]. }
    eapply inv_app; [exact I1|exact I2|exact Hbx|exact Hbr| | |].
    + intros a b Ha Hb'. exact (NoDup_ids_disjoint _ _ a b Hnd Ha Hb').
    + intros t Ht. apply in_or_app. left. exact Ht.
    + intros t Ht. apply in_or_app. right. exact Ht.
Qed.

Lemma arg_toks_req : forall n, arg_toks (AReq n) = node_toks n.
Proof. intro n. unfold arg_toks. simpl. apply app_nil_r. Qed.
Lemma arg_toks_some : forall n, arg_toks (AOpt (Some n)) = node_toks n.
Proof. intro n. unfold arg_toks. simpl. apply app_nil_r. Qed.

Lemma field_seg_inv : forall k f a next s n',
  field_seg cs new mid k f a next = Some (s, n') ->
  NoDup (ids (arg_toks a)) -> below (arg_toks a) next ->
  inv (arg_toks a) next n' (seg_toks s).
Proof.
  intros k f a next s n' H Hnd Hb.
  destruct k as [|seps|seps|seps sb], a as [n|[n|]|items]; simpl in H; try discriminate.
  - inversion H. subst. cbn [seg_toks]. rewrite slot_own_req, reattach_toks, app_nil_r. simpl.
    rewrite arg_toks_req in *. apply inv_own. exact Hnd.
  - inversion H. subst. cbn [seg_toks]. rewrite slot_own_some, reattach_toks, app_nil_r.
    rewrite arg_toks_some in *. eapply inv_app_l; [apply inv_fresh|apply inv_own; exact Hnd|exact Hb].
  - inversion H. subst. apply inv_nil.
  - inversion H. subst. cbn [seg_toks]. rewrite slot_own_some, reattach_toks. simpl.
    rewrite arg_toks_some in *. eapply inv_app_r; [apply inv_own; exact Hnd|apply inv_fresh|exact Hb].
  - inversion H. subst. apply inv_nil.
  - unfold rep_all_segs in H.
    destruct (rep_segs cs new mid (next + 1) match sb with Some b => b | None => seps end seps items)
      as [rest n2] eqn:E.
    inversion H. subst s n'. clear H. cbn [seg_toks]. rewrite slot_own_rep, app_nil_r. simpl app.
    change (arg_toks (ARep items)) with (flat_map node_toks items) in *.
    change (mktk next "PLACEHOLDER" "" :: flat_map seg_toks rest)
      with ([mktk next "PLACEHOLDER" ""] ++ flat_map seg_toks rest).
    eapply inv_app_l; [apply inv_one| |exact Hb].
    eapply rep_segs_inv; [exact E|exact Hnd|]. eapply below_le; [exact Hb|lia].
Qed.

Section WithClass.
Variable c : cdesc.
Variable args : list (string * arg).

Definition lay_arg_toks (x : lay) : list tk :=
  match lay_field x with
  | Some f => match lookup f args with Some a => arg_toks a | None => [] end
  | None => []
  end.

Lemma lay_seg_inv : forall x next s n', lay_seg cs new mid c args x next = Some (s, n') ->
  NoDup (ids (args_toks args)) -> below (args_toks args) next ->
  inv (lay_arg_toks x) next n' (seg_toks s).
Proof.
  intros x next s n' H Hnd Hb.
  destruct (lay_seg_field _ _ _ _ _ _ _ _ _ H) as [(text & Ex & Es & En)|(f & k & a & Ef & Ek & Ea & Hs)].
  - subst. apply inv_one.
  - unfold lay_arg_toks. rewrite Ef, Ea. eapply field_seg_inv; [exact Hs| |].
    + eapply lookup_nodup; eauto.
    + intros t Ht. apply Hb. eapply lookup_sub; eauto.
Qed.

Lemma lay_fields_cons : forall x r,
  lay_fields (x :: r) = match lay_field x with Some f => [f] | None => [] end ++ lay_fields r.
Proof. reflexivity. Qed.

Lemma lay_arg_toks_in : forall l t, In t (flat_map lay_arg_toks l) ->
  exists f a, In f (lay_fields l) /\ lookup f args = Some a /\ In t (arg_toks a).
Proof.
  induction l as [|x r IH]; intros t Ht; [destruct Ht|]. simpl in Ht. apply in_app_or in Ht.
  rewrite lay_fields_cons. destruct Ht as [Ht|Ht].
  - unfold lay_arg_toks in Ht. destruct (lay_field x) as [f|]; [|destruct Ht].
    destruct (lookup f args) as [a|] eqn:Ea; [|destruct Ht]. exists f, a. split; [left; reflexivity|auto].
  - destruct (IH t Ht) as (f & a & H1 & H2 & H3). exists f, a. split; [apply in_or_app; right; exact H1|auto].
Qed.

Lemma build_inv : forall l next segs, build cs new mid c args l next = Some segs ->
  NoDup (lay_fields l) -> NoDup (ids (args_toks args)) -> below (args_toks args) next ->
  exists hi, inv (flat_map lay_arg_toks l) next hi (flat_map seg_toks segs).
Proof.
  induction l as [|x r IH]; intros next segs H Hndl Hnd Hb.
  - inversion H. exists next. apply inv_nil.
  - destruct (build_cons _ _ _ _ _ _ _ _ _ H) as (s & n' & segs' & Hs & Hbd & E). subst segs.
    pose proof (lay_seg_inv _ _ _ _ Hs Hnd Hb) as I1.
    assert (Hle : (next <= n')%Z) by (destruct I1 as [Hle _]; exact Hle).
    rewrite lay_fields_cons in Hndl.
    destruct (IH n' segs' Hbd (NoDup_app_r' _ _ Hndl) Hnd (below_le _ _ _ Hb Hle)) as (hi & I2).
    exists hi. simpl flat_map.
    assert (Hsub : forall y t, In t (lay_arg_toks y) -> In t (args_toks args)).
    { intros y t Ht. unfold lay_arg_toks in Ht. destruct (lay_field y) as [f|]; [|destruct Ht].
      destruct (lookup f args) as [a|] eqn:Ea; [|destruct Ht]. eapply lookup_sub; eauto. }
    eapply inv_app; [exact I1|exact I2| | | | |].
    + intros t Ht. apply Hb. eapply Hsub; eauto.
    + intros t Ht. apply Hb. apply in_flat_map in Ht. destruct Ht as (y & _ & Ht). eapply Hsub; eauto.
    + intros a b Ha Hb'. unfold lay_arg_toks in Ha. destruct (lay_field x) as [f|]; [|destruct Ha].
      destruct (lookup f args) as [fa|] eqn:Efa; [|destruct Ha].
      destruct (lay_arg_toks_in _ _ Hb') as (g & ga & Hg & Ega & Hbg).
      apply (lookup_disjoint args f g fa ga Hnd Efa Ega); auto.
      intro Efg. subst g. simpl in Hndl. inversion Hndl as [|? ? Hni _]. apply Hni. exact Hg.
    + intros t Ht. apply in_or_app. left. exact Ht.
    + intros t Ht. apply in_or_app. right. exact Ht.
Qed.

(* (2) the new store has no token twice: its tokens are the arguments' and the freshly minted ones *)
Theorem construct_store : forall data next store n,
  wf_desc c = true -> NoDup (names c) -> args_fresh args next ->
  construct cs new mid c args data next = Some (store, n) ->
  exists hi, inv (args_toks args) next hi store.
Proof.
  intros data next store n Hwf Hndn [Hnd Hb] H.
  destruct (construct_inv _ _ _ _ _ _ _ _ _ H) as (l & segs & El & Eb & Es & _).
  destruct (build_inv l next segs Eb) as (hi & I); auto.
  - rewrite (layout_names c l Hwf El). exact Hndn.
  - exists hi. subst store. eapply inv_weaken; [|exact I].
    intros t Ht. destruct (lay_arg_toks_in _ _ Ht) as (f & a & _ & Ea & Hin). eapply lookup_sub; eauto.
Qed.

Theorem construct_nodup : forall data next store n,
  wf_desc c = true -> NoDup (names c) -> args_fresh args next ->
  construct cs new mid c args data next = Some (store, n) ->
  NoDup (ids store).
Proof.
  intros data next store n Hwf Hndn Hfr H.
  destruct (construct_store _ _ _ _ Hwf Hndn Hfr H) as (hi & _ & Hnd & _). exact Hnd.
Qed.
End WithClass.
End Fresh.

(* ---- first / last token of the constructed node -------------------------------------------------------- *)
(* the first (last) token of the first (last) non-empty stretch *)
Fixpoint walk_end (sd : side) (segs : list seg) : option tk :=
  match segs with
  | [] => None
  | s :: r => match endtok sd (seg_toks s) with Some t => Some t | None => walk_end sd r end
  end.

Lemma walk_end_first : forall segs, walk_end SFirst segs = hd_error (flat_map seg_toks segs).
Proof.
  induction segs as [|s r IH]; [reflexivity|]. cbn [walk_end flat_map endtok].
  destruct (seg_toks s) as [|x L]; simpl; auto.
Qed.

Lemma walk_end_last : forall segs, walk_end SLast (rev segs) = hd_error (rev (flat_map seg_toks segs)).
Proof.
  induction segs as [|s r IH] using rev_ind; [reflexivity|].
  rewrite rev_app_distr. simpl rev. simpl app. cbn [walk_end endtok].
  rewrite flat_map_app. simpl flat_map. rewrite app_nil_r.
  destruct (seg_toks s) as [|t L] eqn:E.
  - simpl. rewrite app_nil_r. exact IH.
  - rewrite hd_rev_app by discriminate.
    destruct (hd_error (rev (t :: L))) as [z|] eqn:E2; [reflexivity|].
    destruct (endtok_some SLast (t :: L)) as (z & Ez); [discriminate|]. unfold endtok in Ez. congruence.
Qed.

Lemma Forall2_rev' : forall {A B} (R : A -> B -> Prop) l l', Forall2 R l l' -> Forall2 R (rev l) (rev l').
Proof.
  intros A B R l l' H. induction H as [|x y l l' Hxy H IH]; simpl; [constructor|].
  apply Forall2_app; [exact IH|]. constructor; [exact Hxy|constructor].
Qed.

Lemma lay_fields_rev : forall l, lay_fields (rev l) = rev (lay_fields l).
Proof.
  unfold lay_fields. induction l as [|x l IH]; [reflexivity|]. simpl.
  rewrite flat_map_app, IH. simpl. rewrite app_nil_r, rev_app_distr. f_equal.
  destruct (lay_field x); reflexivity.
Qed.

Lemma In_seg_kids : forall segs f sl pre post, In (SKid f sl pre post) segs -> In (f, sl) (seg_kids segs).
Proof.
  induction segs as [|s r IH]; intros f sl pre post H; [destruct H|]. destruct H as [E|H].
  - subst s. left. reflexivity.
  - destruct s; simpl; [|right]; eapply IH; eauto.
Qed.

Lemma span_ends : forall store x y, hd_error store = Some x -> hd_error (rev store) = Some y ->
  NoDup (ids store) -> span_toks store (Some x) (Some y) = store.
Proof.
  intros store x y Hx Hy Hnd. destruct store as [|x0 r]; [discriminate|]. simpl in Hx. inversion Hx. subst x0.
  assert (Est : exists p, x :: r = p ++ [y]).
  { destruct (rev (x :: r)) as [|z q] eqn:Er; [discriminate|]. simpl in Hy. inversion Hy. subst z.
    exists (rev q). apply rev_cons_snoc. exact Er. }
  destruct Est as [p Est]. unfold span_toks.
  assert (F1 : find_off x (x :: r) = Some 0) by (simpl; rewrite tk_same_refl; reflexivity).
  assert (F2 : find_off y (x :: r) = Some (length p)).
  { rewrite Est. apply find_off_app. rewrite <- Est. exact Hnd. }
  rewrite F1, F2. unfold slice. simpl skipn. rewrite Nat.sub_0_r, Est.
  replace (S (length p)) with (length (p ++ [y])) by (rewrite app_length; simpl; lia).
  apply firstn_all.
Qed.

Section Edge.
Variable cs : classes_t.

Definition seg_ends (s : seg) : Prop :=
  forall f sl pre post, s = SKid f sl pre post -> ends_ok cs sl (slot_own sl).

Lemma ends_uniform : forall segs, Forall seg_ends segs ->
  exists m0, forall m sd f sl pre post, m0 <= m -> In (SKid f sl pre post) segs ->
    slot_border (border cs m sd) sd sl = Some (endtok sd (slot_own sl)).
Proof.
  intros segs H. induction H as [|s segs Hs H IH].
  - exists 0. intros m sd f sl pre post _ [].
  - destruct IH as [m1 H1]. destruct s as [ts|f0 sl0 pre0 post0].
    + exists m1. intros m sd f sl pre post Hm [E|Hin]; [discriminate|eauto].
    + destruct (Hs f0 sl0 pre0 post0 eq_refl) as [m2 H2]. exists (m1 + m2).
      intros m sd f sl pre post Hm [E|Hin].
      * inversion E. subst. apply H2. lia.
      * eapply H1; eauto. lia.
Qed.

Variable c : cdesc.

(* what the walk along the chain needs to know about the stretch of a field of kind k *)
Definition seg_edge (k : fkind) (f : string) (s : seg) : Prop :=
  exists sl pre post, s = SKid f sl pre post
    /\ (is_opt k = false -> slot_own sl <> [])
    /\ (slot_own sl = [] -> pre = [] /\ post = [])
    /\ match k with FOptL _ => post = [] | FOptR _ => pre = [] | _ => pre = [] /\ post = [] end.
Definition lay_rel (x : lay) (s : seg) : Prop :=
  match lay_field x with
  | None => True
  | Some f => exists k, find_field (c_fields c) f = Some k /\ seg_edge k f s
  end.

Lemma chain_step : forall (get : string -> side -> option (option tk)) sd f k g fs sl pre post rest_end,
  f_name g = f -> f_kind g = k ->
  get f sd = Some (endtok sd (slot_own sl)) ->
  (is_opt k = false -> slot_own sl <> []) -> (slot_own sl = [] -> pre = [] /\ post = []) ->
  outer sd pre post = [] ->
  (is_opt k = true -> eval_chain get (scheme_chain sd fs) = rest_end) ->
  eval_chain get (scheme_chain sd (g :: fs))
  = match endtok sd (pre ++ slot_own sl ++ post) with Some t => Some t | None => rest_end end.
Proof.
  intros get sd f k g fs sl pre post rest_end Hn Hk Hget Hne Hnil Hout Hrest.
  cbn [scheme_chain]. rewrite Hk, Hn. destruct (slot_own sl) as [|t0 U] eqn:EU.
  - destruct (Hnil eq_refl) as [E1 E2]. subst pre post.
    assert (E0 : endtok sd ([] ++ [] ++ []) = None) by (destruct sd; reflexivity).
    assert (E1 : endtok sd [] = None) by (destruct sd; reflexivity).
    rewrite E0. rewrite E1 in Hget.
    destruct k; simpl in *; try (exfalso; apply Hne; reflexivity); rewrite Hget; auto.
  - rewrite endtok_outer_nil by (auto; discriminate).
    destruct (endtok_some sd (t0 :: U)) as (t & Et); [discriminate|]. rewrite Et in *.
    destruct k; simpl; rewrite Hget; reflexivity.
Qed.

Lemma walk : forall sd m kids l segs, Forall2 lay_rel l segs -> forall fs,
  lay_fields l = map f_name fs ->
  (forall g, In g fs -> find_field (c_fields c) (f_name g) = Some (f_kind g)) ->
  edge_ok (c_fields c) sd l = true ->
  (forall f sl pre post, In (SKid f sl pre post) segs ->
     kid kids f = Some sl /\ slot_border (border cs m sd) sd sl = Some (endtok sd (slot_own sl))) ->
  eval_chain (fun name s' => match kid kids name with
                             | Some sl => slot_border (border cs m s') s' sl
                             | None => None end) (scheme_chain sd fs)
  = walk_end sd segs.
Proof.
  intros sd m kids l segs HF. induction HF as [|x s l segs Hxs HF IH]; intros fs Hl Hk He Hs.
  - simpl in He. discriminate.
  - cbn [edge_ok] in He. unfold lay_rel in Hxs. destruct (lay_field x) as [f|] eqn:Ef; [|discriminate].
    destruct Hxs as (k & Ek & sl & pre & post & Es & Hne & Hnil & Hshape). rewrite Ek in He.
    rewrite lay_fields_cons, Ef in Hl. destruct fs as [|g fs]; [discriminate|]. simpl in Hl.
    inversion Hl as [[Eg Hl']].
    pose proof (Hk g (or_introl eq_refl)) as Hkg. rewrite <- Eg, Ek in Hkg. inversion Hkg as [Ekg].
    destruct (Hs f sl pre post) as [Hkid Hb]; [left; exact Es|].
    subst s. cbn [walk_end seg_toks].
    assert (Hrest : edge_ok (c_fields c) sd l = true -> eval_chain
              (fun name s' => match kid kids name with
                              | Some sl => slot_border (border cs m s') s' sl
                              | None => None end) (scheme_chain sd fs) = walk_end sd segs).
    { intro He'. apply IH; auto.
      - intros g' Hg'. apply Hk. right. exact Hg'.
      - intros f' sl' pre' post' Hin. apply (Hs f' sl' pre' post'). right. exact Hin. }
    apply (chain_step _ sd f k g fs sl pre post); auto.
    + rewrite Hkid. exact Hb.
    + destruct k, sd; try discriminate; simpl in *; try (destruct Hshape; assumption); assumption.
    + intro Hopt. apply Hrest. destruct k, sd; try discriminate; assumption.
Qed.
End Edge.

Section Ends.
Variable cs : classes_t.
Variable new mid : Z.
Hypothesis Hok : classes_ok cs.
Hypothesis Hanch : classes_anchored cs.

Lemma child_ends : forall x, child_good cs new x -> ends_ok cs (SReq x) (node_toks x).
Proof.
  intros x (_ & Hne & (fuel & Hf & Hl) & _). exists fuel. intros m sd Hm.
  destruct sd; cbn [slot_border endtok].
  - destruct (hd_error (node_toks x)) as [t|] eqn:E.
    + rewrite (border_mono_le cs fuel m SFirst x t Hm Hf). reflexivity.
    + destruct (node_toks x); [exfalso; apply Hne; reflexivity|discriminate].
  - destruct (hd_error (rev (node_toks x))) as [t|] eqn:E.
    + rewrite (border_mono_le cs fuel m SLast x t Hm Hl). reflexivity.
    + exfalso. apply Hne. apply rev_nil_inv. destruct (rev (node_toks x)); [reflexivity|discriminate].
Qed.

Lemma field_seg_edge : forall k f a next s n',
  field_seg cs new mid k f a next = Some (s, n') ->
  (forall x, In x (arg_nodes a) -> arg_good cs x) ->
  seg_edge k f s /\ seg_ends cs s.
Proof.
  intros k f a next s n' H Hg.
  assert (Hnone : seg_ends cs (SKid f (SOpt None) [] [])).
  { intros f' sl pre post E. inversion E. subst. exists 0. intros m sd _. destruct sd; reflexivity. }
  assert (Hsome : forall n pre post, arg_good cs n ->
            slot_own (SOpt (Some (reattach cs new n))) <> []
            /\ seg_ends cs (SKid f (SOpt (Some (reattach cs new n))) pre post)).
  { intros n pre post Hn. pose proof (reattach_child_good cs new Hok n Hn) as Hc. split.
    - rewrite slot_own_some. destruct Hc as (_ & Hne & _). exact Hne.
    - intros f' sl pre' post' E. inversion E. subst. rewrite slot_own_some.
      exact (child_ends _ Hc). }
  destruct k as [|seps|seps|seps sb], a as [n|[n|]|items]; simpl in H; try discriminate.
  - inversion H. subst. pose proof (reattach_child_good cs new Hok n (Hg n (or_introl eq_refl))) as Hc. split.
    + do 3 eexists. split; [reflexivity|]. rewrite slot_own_req. destruct Hc as (_ & Hne & _).
      split; [intros _; exact Hne|]. split; [intros _; split; reflexivity|split; reflexivity].
    + intros f' sl pre' post' E. inversion E. subst. rewrite slot_own_req. apply child_ends. exact Hc.
  - inversion H. subst. destruct (Hsome n (fresh_toks next seps) [] (Hg n (or_introl eq_refl))) as [Hne He].
    split; [|exact He]. do 3 eexists. split; [reflexivity|].
    split; [intro; discriminate|]. split; [intro E; contradiction|reflexivity].
  - inversion H. subst. split; [|exact Hnone]. do 3 eexists. split; [reflexivity|].
    split; [intro; discriminate|]. split; [intros _; split; reflexivity|reflexivity].
  - inversion H. subst. destruct (Hsome n [] (fresh_toks next seps) (Hg n (or_introl eq_refl))) as [Hne He].
    split; [|exact He]. do 3 eexists. split; [reflexivity|].
    split; [intro; discriminate|]. split; [intro E; contradiction|reflexivity].
  - inversion H. subst. split; [|exact Hnone]. do 3 eexists. split; [reflexivity|].
    split; [intro; discriminate|]. split; [intros _; split; reflexivity|reflexivity].
  - destruct (rep_all_segs cs new mid next seps sb items) as [[ph rsegs] n2] eqn:E.
    inversion H. subst s n'. clear H.
    destruct (slot_good_rep cs new mid Hok next seps sb items ph rsegs n2 E Hg) as (_ & Hu & Hsub & _).
    assert (Hne : slot_own (SRep new (flat_map seg_toks rsegs) ph (map (item_final cs new mid) items)) <> []).
    { rewrite slot_own_rep. apply Hu. left. reflexivity. }
    split.
    + do 3 eexists. split; [reflexivity|]. split; [intros _; exact Hne|].
      split; [intros _; split; reflexivity|split; reflexivity].
    + intros f' sl pre' post' E'. inversion E'. subst. rewrite slot_own_rep.
      destruct (Hsub (URep new (flat_map seg_toks rsegs) ph (map (item_final cs new mid) items))) as (_ & Hfl & _);
        [left; reflexivity|].
      exact (first_last_ends cs _ Hfl eq_refl).
Qed.

Section WithClass.
Variable c : cdesc.
Variable args : list (string * arg).

Lemma build_edges : forall l next segs, build cs new mid c args l next = Some segs ->
  args_all args (arg_good cs) ->
  Forall2 (lay_rel c) l segs /\ Forall (seg_ends cs) segs.
Proof.
  induction l as [|x r IH]; intros next segs H Hg.
  - inversion H. split; constructor.
  - destruct (build_cons _ _ _ _ _ _ _ _ _ H) as (s & n' & segs' & Hs & Hb & E). subst segs.
    destruct (IH _ _ Hb Hg) as [I1 I2].
    destruct (lay_seg_field _ _ _ _ _ _ _ _ _ Hs) as [(text & Ex & Es & _)|(f & k & a & Ef & Ek & Ea & Hf)].
    + subst. split; constructor; auto.
      * exact I.
      * intros f sl pre post E. discriminate.
    + destruct (field_seg_edge _ _ _ _ _ _ Hf) as [J1 J2]; [intros y Hy; eapply Hg; eauto|].
      split; constructor; auto. unfold lay_rel. rewrite Ef. exists k. auto.
Qed.

(* first_token / last_token of the constructed node are the first / last token of the new store *)
Lemma construct_border : forall l next segs data sd,
  find_class cs (c_name c) = Some c -> wf_desc c = true -> NoDup (names c) -> edges_ok c = true ->
  args_all args (arg_good cs) ->
  c_layout c = Some l -> build cs new mid c args l next = Some segs ->
  border cs (S (S (kids_depth (slot_depth depth) (seg_kids segs)))) sd
         (Tree (c_name c) new [] (seg_kids segs) data)
  = endtok sd (flat_map seg_toks segs).
Proof.
  intros l next segs data sd Hfind Hwf Hnd Hedge Hargs El Eb.
  set (kids := seg_kids segs). set (probe := Tree (c_name c) new [] kids data).
  set (fuel := S (S (kids_depth (slot_depth depth) kids))).
  destruct (build_kids cs new mid c args l next segs Eb) as [Hnames Hkids]. fold kids in Hnames, Hkids.
  rewrite (layout_names c l Hwf El) in Hnames.
  assert (Hndk : NoDup (map fst kids)) by (rewrite Hnames; exact Hnd).
  assert (Hconf : conforms cs probe = true).
  { assert (H0 : construct cs new mid c args data next
                 = Some (flat_map seg_toks segs,
                         Tree (c_name c) new
                              (span_toks (flat_map seg_toks segs) (border cs fuel SFirst probe) (border cs fuel SLast probe))
                              kids data)).
    { unfold construct. rewrite El, Eb. reflexivity. }
    pose proof (constructed_conforms cs new mid c args data next _ _ Hfind Hwf Hnd
                  (fun f a Ha x Hx => proj1 (Hargs f a Ha x Hx)) H0) as Hc.
    unfold probe. rewrite conforms_tree in Hc |- *. exact Hc. }
  assert (Hdepth : depth probe < fuel) by (simpl; unfold fuel; lia).
  destruct (border_total cs Hok Hanch probe fuel sd Hdepth Hconf) as (x & Hbx & _).
  destruct (build_edges l next segs Eb Hargs) as [HF Hends].
  destruct (ends_uniform cs segs Hends) as [m0 Hm0].
  set (M := m0 + fuel).
  assert (Hseg : forall sd' f sl pre post, In (SKid f sl pre post) segs ->
            kid kids f = Some sl
            /\ slot_border (border cs M sd') sd' sl = Some (endtok sd' (slot_own sl))).
  { intros sd' f sl pre post Hin. split.
    - apply In_kid; [exact Hndk|]. eapply In_seg_kids; eauto.
    - eapply Hm0; eauto. unfold M. lia. }
  assert (Hkinds : forall g, In g (c_fields c) -> find_field (c_fields c) (f_name g) = Some (f_kind g))
    by (intros g Hg; apply find_field_In; auto).
  destruct (classes_ok_find _ _ _ Hok Hfind) as [_ _ _ _ _ _ _ Hfirst Hlast].
  unfold edges_ok in Hedge. rewrite El in Hedge. apply andb_true_iff in Hedge. destruct Hedge as [He1 He2].
  assert (HM : border cs (S M) sd probe = endtok sd (flat_map seg_toks segs)).
  { unfold probe. rewrite border_tree, Hfind. destruct sd.
    - rewrite Hfirst. unfold scheme_first. cbn [endtok]. rewrite <- walk_end_first.
      apply (walk cs c SFirst M kids l segs HF (c_fields c)).
      + rewrite (layout_names c l Hwf El). reflexivity.
      + exact Hkinds.
      + exact He1.
      + exact (Hseg SFirst).
    - rewrite Hlast. unfold scheme_last. cbn [endtok]. rewrite <- walk_end_last.
      apply (walk cs c SLast M kids (rev l) (rev segs) (Forall2_rev' _ _ _ HF) (rev (c_fields c))).
      + rewrite lay_fields_rev, (layout_names c l Hwf El). unfold names. rewrite map_rev. reflexivity.
      + intros g Hg. apply Hkinds. apply in_rev. exact Hg.
      + exact He2.
      + intros f sl pre post Hin. apply (Hseg SLast f sl pre post). apply in_rev. exact Hin. }
  rewrite <- HM. rewrite Hbx. symmetry. eapply border_mono_le; [|exact Hbx]. unfold M, fuel. lia.
Qed.

(* (1) the constructed node spans its whole store *)
Theorem construct_toks_eq : forall data next store n,
  find_class cs (c_name c) = Some c -> wf_desc c = true -> NoDup (names c) -> edges_ok c = true ->
  args_all args (arg_good cs) -> NoDup (ids store) ->
  construct cs new mid c args data next = Some (store, n) ->
  node_toks n = store.
Proof.
  intros data next store n Hfind Hwf Hnd Hedge Hargs Hnds H.
  destruct (construct_inv _ _ _ _ _ _ _ _ _ H) as (l & segs & El & Eb & Es & T & En & ET).
  subst n. simpl. subst T.
  rewrite (construct_border l next segs data SFirst), (construct_border l next segs data SLast); auto.
  rewrite <- Es. cbn [endtok]. destruct store as [|x r] eqn:Est; [reflexivity|]. rewrite <- Est in *.
  destruct (endtok_some SFirst store) as (a & Ea); [rewrite Est; discriminate|].
  destruct (endtok_some SLast store) as (b & Eb'); [rewrite Est; discriminate|].
  cbn [endtok] in Ea, Eb'. rewrite Ea, Eb'. apply span_ends; auto.
Qed.
End WithClass.
End Ends.

(* ---- (3) the full theorem ---------------------------------------------------------------------------------- *)
Section Full.
Variable cs : classes_t.
Variable new mid : Z.
Hypothesis Hok : classes_ok cs.

Theorem constructed_wf_full : forall c args data next store n,
  classes_anchored cs -> find_class cs (c_name c) = Some c -> wf_desc c = true -> NoDup (names c) ->
  edges_ok c = true ->
  args_all args (arg_good cs) -> args_fresh args next ->
  construct cs new mid c args data next = Some (store, n) ->
  WF cs n /\ whole_store n store.
Proof.
  intros c args data next store n Hanch Hfind Hwf Hnd Hedge Hargs Hfr H.
  pose proof (construct_nodup cs new mid c args data next store n Hwf Hnd Hfr H) as Hnds.
  pose proof (construct_toks_eq cs new mid Hok Hanch c args data next store n Hfind Hwf Hnd Hedge Hargs Hnds H) as Ht.
  split.
  - eapply constructed_wf; eauto.
  - exists [], []. rewrite Ht, app_nil_r. split; [reflexivity|]. split; intros t [].
Qed.

(* the same with the two facts the partial theorem assumed, as conclusions *)
Theorem constructed_store_facts : forall c args data next store n,
  classes_anchored cs -> find_class cs (c_name c) = Some c -> wf_desc c = true -> NoDup (names c) ->
  edges_ok c = true ->
  args_all args (arg_good cs) -> args_fresh args next ->
  construct cs new mid c args data next = Some (store, n) ->
  NoDup (ids store) /\ node_toks n = store
  /\ exists hi, forall t, In t store -> (next <= k_id t < hi)%Z \/ In t (args_toks args).
Proof.
  intros c args data next store n Hanch Hfind Hwf Hnd Hedge Hargs Hfr H.
  pose proof (construct_nodup cs new mid c args data next store n Hwf Hnd Hfr H) as Hnds.
  split; [exact Hnds|]. split.
  - eapply construct_toks_eq; eauto.
  - destruct (construct_store cs new mid c args data next store n Hwf Hnd Hfr H) as (hi & _ & _ & H3). eauto.
Qed.

(* ---- (4) hereditary well-formedness: constructed models are admissible donors ---------------------------- *)
Definition slot_h (sl : slot) : Prop :=
  forall u, In u (slot_subunits subunits sl) ->
    woven (unit_toks u) (unit_children u) /\ exempt u = false /\ (forall m, u = UNode m -> SWF cs m).

Lemma donor_arg_good : forall y, donor cs y -> arg_good cs y.
Proof. intros y (H1 & H2 & H3). split; [exact H2|]. split; [apply HWF_WF; exact H1|exact H3]. Qed.

Lemma donor_reattach : forall s y, donor cs y -> donor cs (reattach cs s y).
Proof.
  intros s y (H1 & H2 & H3). split; [apply reattach_HWF; assumption|].
  split; [apply reattach_conforms; exact H2|rewrite exempt_reattach; exact H3].
Qed.

Lemma donor_slot_h : forall y, donor cs y -> forall u, In u (subunits (reattach cs new y)) ->
  woven (unit_toks u) (unit_children u) /\ exempt u = false /\ (forall m, u = UNode m -> SWF cs m).
Proof.
  intros y Hy u Hu. destruct (sub_ok_units cs new _ (donor_sub_ok cs Hok new y Hy) u Hu) as (_ & A & B & C). auto.
Qed.

Lemma seg_units_woven : forall s, seg_simple s ->
  woven (seg_toks s) (match s with SGlue _ => [] | SKid _ sl _ _ => slot_units sl end).
Proof.
  intros [ts|n sl pre post] Hs; [exact I|]. simpl in Hs. cbn [seg_toks].
  rewrite slot_own_unit1, slot_units_unit1 by assumption.
  destruct (slot_unit1 sl) as [u|]; [|exact I]. exists pre, post. split; [reflexivity|exact I].
Qed.

Lemma segs_woven : forall segs, Forall seg_simple segs ->
  woven (flat_map seg_toks segs) (kids_units (seg_kids segs)).
Proof.
  induction segs as [|s segs IH]; intro H; [exact I|]. inversion H as [|? ? Hs Hr]. subst.
  change (flat_map seg_toks (s :: segs)) with (seg_toks s ++ flat_map seg_toks segs).
  pose proof (seg_units_woven s Hs) as Hw. destruct s as [ts|n sl pre post].
  - cbn [seg_kids]. rewrite <- (app_nil_l (kids_units (seg_kids segs))). apply woven_app; [exact Hw|auto].
  - cbn [seg_kids]. rewrite kids_units_cons. apply woven_app; [exact Hw|auto].
Qed.

Lemma rep_slot_h : forall next seps sb items ph rsegs n',
  rep_all_segs cs new mid next seps sb items = (ph, rsegs, n') ->
  (forall x, In x items -> donor cs x) ->
  slot_h (SRep new (flat_map seg_toks rsegs) ph (map (item_final cs new mid) items)).
Proof.
  intros next seps sb items ph rsegs n' H Hd. unfold rep_all_segs in H.
  destruct (rep_segs cs new mid (next + 1) match sb with Some b => b | None => seps end seps items)
    as [rest n2] eqn:E.
  inversion H. subst ph rsegs n'. clear H.
  set (ph := mktk next "PLACEHOLDER" "") in *.
  destruct (rep_segs_spec cs new mid Hok _ _ _ _ _ _ E (fun x Hx => donor_arg_good x (Hd x Hx))) as (K1 & K2 & _).
  set (rsegs := SKid "placeholder" (SReq (Leaf ph)) [] [] :: rest).
  assert (Ksimple : Forall seg_simple rsegs) by (constructor; [exact I|exact K2]).
  assert (Kunits : kids_units (seg_kids rsegs) = [ph] :: map node_toks (map (item_final cs new mid) items)).
  { unfold rsegs. cbn [seg_kids]. rewrite K1, kids_units_cons. simpl. f_equal.
    clear. induction items as [|x r IH]; [reflexivity|]. cbn [map]. rewrite kids_units_cons, IH. reflexivity. }
  clearbody rsegs.
  intros u Hu. simpl in Hu. destruct Hu as [Eu|Hu].
  - subst u. split; [|split; [reflexivity|intros m Em; discriminate]].
    cbn [unit_toks unit_children]. rewrite <- Kunits. apply segs_woven. exact Ksimple.
  - apply in_flat_map in Hu. destruct Hu as (y & Hy & Hu). apply in_map_iff in Hy. destruct Hy as (x & Ex & Hx).
    subst y. unfold item_final in Hu. eapply donor_slot_h; [|exact Hu]. apply donor_reattach. auto.
Qed.

Lemma field_seg_h : forall k f a next s n',
  field_seg cs new mid k f a next = Some (s, n') ->
  (forall x, In x (arg_nodes a) -> donor cs x) ->
  forall f' sl pre post, s = SKid f' sl pre post -> slot_h sl.
Proof.
  intros k f a next s n' H Hd f' sl pre post Es.
  assert (Hnone : slot_h (SOpt None)) by (intros u []).
  assert (Hsome : forall n, donor cs n -> slot_h (SOpt (Some (reattach cs new n)))).
  { intros n Hn u Hu. simpl in Hu. eapply donor_slot_h; eauto. }
  destruct k as [|seps|seps|seps sb], a as [n|[n|]|items]; simpl in H; try discriminate.
  - rewrite Es in H. inversion H. subst.
    intros u Hu. simpl in Hu. eapply donor_slot_h; [|exact Hu]. apply Hd. left. reflexivity.
  - rewrite Es in H. inversion H. subst. apply Hsome. apply Hd. left. reflexivity.
  - rewrite Es in H. inversion H. subst. exact Hnone.
  - rewrite Es in H. inversion H. subst. apply Hsome. apply Hd. left. reflexivity.
  - rewrite Es in H. inversion H. subst. exact Hnone.
  - destruct (rep_all_segs cs new mid next seps sb items) as [[ph rsegs] n2] eqn:E.
    rewrite Es in H. inversion H. subst. eapply rep_slot_h; eauto.
Qed.

Lemma build_h : forall c args l next segs, build cs new mid c args l next = Some segs ->
  args_all args (donor cs) ->
  forall name sl, In (name, sl) (seg_kids segs) -> slot_h sl.
Proof.
  intros c args. induction l as [|x r IH]; intros next segs H Hd name sl Hin.
  - inversion H. subst. destruct Hin.
  - destruct (build_cons _ _ _ _ _ _ _ _ _ H) as (s & n' & segs' & Hs & Hb & E). subst segs.
    destruct (lay_seg_field _ _ _ _ _ _ _ _ _ Hs) as [(text & Ex & Es & _)|(f & k & a & Ef & Ek & Ea & Hf)].
    + subst s. simpl in Hin. eapply IH; eauto.
    + destruct (field_seg_kid _ _ _ _ _ _ _ _ _ Hf) as (sl0 & pre & post & Es & _). subst s.
      simpl in Hin. destruct Hin as [E|Hin]; [|eapply IH; eauto].
      inversion E. subst. eapply field_seg_h; [exact Hf| |reflexivity].
      intros y Hy. eapply Hd; eauto.
Qed.

Theorem constructed_hwf : forall c args data next store n,
  classes_anchored cs -> find_class cs (c_name c) = Some c -> wf_desc c = true -> NoDup (names c) ->
  edges_ok c = true ->
  args_all args (donor cs) -> args_fresh args next ->
  construct cs new mid c args data next = Some (store, n) ->
  HWF cs n.
Proof.
  intros c args data next store n Hanch Hfind Hwf Hnd Hedge Hd Hfr H.
  assert (Hargs : args_all args (arg_good cs)) by (intros f a Ha x Hx; apply donor_arg_good; eapply Hd; eauto).
  destruct (constructed_wf_full c args data next store n Hanch Hfind Hwf Hnd Hedge Hargs Hfr H) as [HWFn _].
  destruct (constructed_store_facts c args data next store n Hanch Hfind Hwf Hnd Hedge Hargs Hfr H) as (_ & Ht & _).
  destruct (construct_inv _ _ _ _ _ _ _ _ _ H) as (l & segs & El & Eb & Es & T & En & _).
  destruct (build_good cs new mid Hok c args l next segs Eb Hargs) as (Ksimple & _ & _).
  pose proof (build_h c args l next segs Eb Hd) as Hh.
  subst n. simpl in Ht. subst T.
  assert (Hkids : forall u, In u (kids_flat (slot_subunits subunits) (seg_kids segs)) ->
            woven (unit_toks u) (unit_children u) /\ exempt u = false /\ (forall m, u = UNode m -> SWF cs m)).
  { intros u Hu. apply In_kids_flat in Hu. destruct Hu as (k & sl & Hin & Hu). exact (Hh k sl Hin u Hu). }
  assert (Hroot : SWF cs (Tree (c_name c) new store (seg_kids segs) data)).
  { split; [exact HWFn|]. intros u Hu. rewrite subunits_tree in Hu. destruct Hu as [E|Hu].
    - subst u. simpl unit_toks. simpl unit_children. rewrite Es. apply segs_woven. exact Ksimple.
    - exact (proj1 (Hkids u Hu)). }
  split.
  - intros m Hm. rewrite subunits_tree in Hm. destruct Hm as [E|Hm].
    + inversion E. subst m. exact Hroot.
    + destruct (Hkids _ Hm) as (_ & _ & Hs). apply Hs. reflexivity.
  - intros u Hu. simpl in Hu. exact (proj1 (proj2 (Hkids u Hu))).
Qed.

(* a constructed model (of any class but File) is a donor for replace_node / insert (TreeEditProofs4) *)
Theorem constructed_donor : forall c args data next store n,
  classes_anchored cs -> find_class cs (c_name c) = Some c -> wf_desc c = true -> NoDup (names c) ->
  edges_ok c = true -> mem (c_name c) store_spanning = false ->
  args_all args (donor cs) -> args_fresh args next ->
  construct cs new mid c args data next = Some (store, n) ->
  donor cs n.
Proof.
  intros c args data next store n Hanch Hfind Hwf Hnd Hedge Hex Hd Hfr H.
  split; [eapply constructed_hwf; eauto|]. split.
  - eapply constructed_conforms; eauto. intros f a Ha x Hx. destruct (Hd f a Ha x Hx) as (_ & Hc & _). exact Hc.
  - destruct (construct_inv _ _ _ _ _ _ _ _ _ H) as (l & segs & _ & _ & _ & T & En & _). subst n. exact Hex.
Qed.

(* construct, then insert the result somewhere (its tokens being fresh for the target), then any
   history of edits: the C05 statement holds at the end *)
Theorem constructed_insert_history : forall c args data next store y root p f i seps root' final,
  classes_anchored cs -> find_class cs (c_name c) = Some c -> wf_desc c = true -> NoDup (names c) ->
  edges_ok c = true -> mem (c_name c) store_spanning = false ->
  args_all args (donor cs) -> args_fresh args next ->
  construct cs new mid c args data next = Some (store, y) ->
  HWF cs root -> glue_ok seps -> NoDup (ids (seps ++ store)) -> fresh_for (seps ++ store) root ->
  insert_item root p f i seps (reattach cs (root_sid root) y) = Some root' ->
  edits cs root' final ->
  HWF cs final /\ WF cs final.
Proof.
  intros c args data next store y root p f i seps root' final Hanch Hfind Hwf Hnd Hedge Hex Hd Hfr H
         Hroot Hg Hnds Hfresh Hins Hed.
  assert (Hargs : args_all args (arg_good cs)) by (intros g a Ha x Hx; apply donor_arg_good; eapply Hd; eauto).
  destruct (constructed_store_facts c args data next store y Hanch Hfind Hwf Hnd Hedge Hargs Hfr H) as (_ & Ht & _).
  apply (history_HWF cs Hok root final Hroot).
  eapply edits_cons; [|exact Hed].
  eapply edit_insert; [eapply constructed_donor; eauto|exact Hg| | |exact Hins]; rewrite Ht; assumption.
Qed.
End Full.

(* ---- the generated classes ---------------------------------------------------------------------------------- *)
Theorem constructed_wf_generated : forall c args new mid data next store n,
  In c classes -> find_class all_classes (c_name c) = Some c ->
  args_all args (arg_good all_classes) -> args_fresh args next ->
  construct all_classes new mid c args data next = Some (store, n) ->
  WF all_classes n /\ whole_store n store.
Proof.
  intros c args new mid data next store n Hc Hf Hargs Hfr H.
  exact (constructed_wf_full all_classes new mid classes_ok_all c args data next store n
           classes_anchored_all Hf (generated_wf_each c Hc) (names_nodup_all c (proj1 (find_class_In _ _ _ Hf)))
           (generated_edges_each c Hc) Hargs Hfr H).
Qed.

Theorem constructed_hwf_generated : forall c args new mid data next store n,
  In c classes -> find_class all_classes (c_name c) = Some c ->
  args_all args (donor all_classes) -> args_fresh args next ->
  construct all_classes new mid c args data next = Some (store, n) ->
  HWF all_classes n /\ (mem (c_name c) store_spanning = false -> donor all_classes n).
Proof.
  intros c args new mid data next store n Hc Hf Hargs Hfr H.
  pose proof (generated_wf_each c Hc) as Hwf.
  pose proof (names_nodup_all c (proj1 (find_class_In _ _ _ Hf))) as Hnd.
  pose proof (generated_edges_each c Hc) as He.
  split.
  - exact (constructed_hwf all_classes new mid classes_ok_all c args data next store n
             classes_anchored_all Hf Hwf Hnd He Hargs Hfr H).
  - intro Hex.
    exact (constructed_donor all_classes new mid classes_ok_all c args data next store n
             classes_anchored_all Hf Hwf Hnd He Hex Hargs Hfr H).
Qed.

(* ---- (5) the hypotheses are satisfiable: Open.from_children(...) of ConstructFacts ------------------------ *)
Lemma args_all_of_b : forall (p : node -> bool) (P : node -> Prop) args,
  (forall n, p n = true -> P n) ->
  forallb (fun fa => forallb p (arg_nodes (snd fa))) args = true -> args_all args P.
Proof.
  intros p P args Hp H f a Ha x Hx. apply Hp. rewrite forallb_forall in H.
  assert (Hin : In (f, a) args).
  { clear -Ha. induction args as [|[k v] l IH]; simpl in Ha; [discriminate|].
    destruct (String.eqb k f) eqn:E; [apply String.eqb_eq in E; inversion Ha; subst; left; reflexivity|right; auto]. }
  specialize (H (f, a) Hin). simpl in H. rewrite forallb_forall in H. auto.
Qed.

Definition donor_b (n : node) : bool :=
  hwf_b all_classes n && conforms all_classes n && negb (exempt (UNode n)).
Lemma donor_b_sound : forall n, donor_b n = true -> donor all_classes n.
Proof.
  intros n H. unfold donor_b in H. apply andb_true_iff in H. destruct H as [H H3].
  apply andb_true_iff in H. destruct H as [H1 H2]. split; [apply hwf_b_sound; exact H1|].
  split; [exact H2|apply negb_true_iff; exact H3].
Qed.

Lemma ex_args_donors : args_all ex_args (donor all_classes).
Proof. apply (args_all_of_b donor_b); [exact donor_b_sound|vm_compute; reflexivity]. Qed.

Lemma ex_args_fresh : args_fresh ex_args 1000.
Proof. apply args_fresh_b_sound. vm_compute. reflexivity. Qed.

Lemma ex_open_in : In c_Open classes /\ find_class all_classes (c_name c_Open) = Some c_Open.
Proof.
  assert (H : find_class classes "Open" = Some c_Open) by (vm_compute; reflexivity).
  split; [exact (proj1 (find_class_In _ _ _ H))|vm_compute; reflexivity].
Qed.

Example ex_construct_full :
  match ex_construct with
  | Some (store, n) =>
    WF all_classes n /\ whole_store n store /\ HWF all_classes n /\ donor all_classes n
    /\ length store = 23 /\ args_fresh_b ex_args 1000 = true
  | None => False
  end.
Proof.
  destruct ex_construct as [[store n]|] eqn:E; [|vm_compute in E; discriminate].
  unfold ex_construct in E. destruct ex_open_in as [Hin Hf].
  destruct (constructed_wf_generated c_Open ex_args 9 77 _ 1000 store n Hin Hf ex_args_good ex_args_fresh E) as [A B].
  destruct (constructed_hwf_generated c_Open ex_args 9 77 _ 1000 store n Hin Hf ex_args_donors ex_args_fresh E) as [C D].
  split; [exact A|]. split; [exact B|]. split; [exact C|]. split; [apply D; reflexivity|].
  split; [|vm_compute; reflexivity].
  vm_compute in E. inversion E. reflexivity.
Qed.
