(* Glue for the C17 correspondence: cases dumped from the implementation, checked with vm_compute. *)
From AB Require Import Prelude Spacing.

(* token as dumped: kind 0 = Whitespace, 1 = Newline, anything else = other *)
Definition T (k : Z) (s : str) : tok :=
  mktok (if k =? 0 then KWhitespace else if k =? 1 then KNewline else KOther) s.

Definition toks_eqb (a b : list tok) : bool := list_eqb tok_eqb a b.
Definition str_eqb (a b : str) : bool := list_eqb Z.eqb a b.

Inductive sop :=
| OGet                                             (* only the getters *)
| OSetAfter (s : str) | OSetBefore (s : str)       (* spacing_after = s / spacing_before = s *)
| ORawAfter (ts : list tok) | ORawBefore (ts : list tok).

Record scase := mkcase {
  c_doc : list tok;              (* store before *)
  c_first : Z; c_last : Z;       (* positions of model.first_token / last_token *)
  c_before : list tok;           (* raw_spacing_before as returned *)
  c_after : list tok;            (* raw_spacing_after as returned *)
  c_op : sop;
  c_doc' : list tok;             (* store after the operation *)
  c_first' : Z;                  (* position of model.first_token afterwards *)
  c_readback : str               (* the same side's string getter afterwards *)
}.

Definition check_case (c : scase) : bool :=
  let d := c_doc c in
  let i := Z.to_nat (c_first c) in
  let j := Z.to_nat (c_last c) in
  toks_eqb (raw_spacing_before d i) (c_before c)
  && toks_eqb (raw_spacing_after d j) (c_after c)
  && match c_op c with
     | OGet => true
     | OSetAfter s =>
       let d' := set_spacing_after d j s in
       toks_eqb d' (c_doc' c) && (c_first' c =? c_first c) && str_eqb (spacing_after d' j) (c_readback c)
     | ORawAfter ts =>
       let d' := set_raw_spacing_after d j ts in
       toks_eqb d' (c_doc' c) && (c_first' c =? c_first c) && str_eqb (spacing_after d' j) (c_readback c)
     | OSetBefore s =>
       let d' := set_spacing_before d i s in
       let i' := moved_first d i (text_to_tokens s) in
       toks_eqb d' (c_doc' c) && (c_first' c =? Z.of_nat i') && str_eqb (spacing_before d' i') (c_readback c)
     | ORawBefore ts =>
       let d' := set_raw_spacing_before d i ts in
       let i' := moved_first d i ts in
       toks_eqb d' (c_doc' c) && (c_first' c =? Z.of_nat i') && str_eqb (spacing_before d' i') (c_readback c)
     end.

(* _text_to_tokens on arbitrary strings, and the recogniser against re.fullmatch *)
Definition check_t2t (c : str * list tok * bool) : bool :=
  let '(s, ts, inlang) := c in
  toks_eqb (text_to_tokens s) ts && Bool.eqb (spacing_string_b s) inlang.

(* does every gap between consecutive visible tokens have the shape E* S* E* (not true of every parsed
   document: blanks, end-of-line mark, line break) *)
Fixpoint gaps_ok (l : list tok) (gap : list tok) : bool :=
  match l with
  | [] => true
  | t :: r => if visible t then gap_shape_b (rev gap) && gaps_ok r [] else gaps_ok r (t :: gap)
  end.
(* hypothesis of the character-level frame statement: spacing tokens hold only blanks *)
Definition check_layout (d : list tok) : bool := forallb blank_tok d.
