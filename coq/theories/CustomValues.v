(* C15 / C06 model: the hand-written part of models/custom.py
     _simplify_value, _unsimplify_value, _disambiguate_values (Custom.from_children / from_value), _update_raw
   and the grammar side it has to agree with (beancount.lark):
     custom: ... ESCAPED_STRING repeated{_custom_value} ...
     _custom_value: ESCAPED_STRING | DATE | BOOL | amount | number_expr | ACCOUNT        amount: number_expr CURRENCY
   The values of a custom directive are juxtaposed.  A number expression that starts with a unary sign right
   after another number expression would be read as ONE expression (`1 -2` is 1 - 2), so from_children wraps
   such a follower in parentheses.

   No proofs here.  Number expressions are NumExpr.v's trees; their arithmetic carrier stays abstract.
   A raw value is described by the raw text of its token (strings, dates, bools, accounts, currencies) or by its
   expression tree (numbers, amounts); the gaps inside an expression are part of the tree. *)
From AB Require Import Prelude NumExpr.

Inductive value :=
| VStr (raw : str)                 (* EscapedString *)
| VDate (raw : str)                (* Date *)
| VBool (raw : str)                (* Bool *)
| VNum (e : add)                   (* NumberExpr: raw_number_add_expr *)
| VAmount (e : add) (cur : str)    (* Amount: raw_number.raw_number_add_expr, raw_currency *)
| VAccount (raw : str).            (* Account *)

(* an argument object of from_children: its identity, whether detach() would accept it
   (`not token_store or (first_token is token_store.get_first() and last_token is token_store.get_last())`),
   and its content *)
Record cval := CV { cv_id : Z; cv_free : bool; cv_val : value }.

(* ---------------------------------------------------------------------------------------- *)
(* internal/properties.py: _check_detachable
     seen = set()
     for value in values:
         if id(value) in seen or token_store and (first/last token are not the store's): raise ValueError
         seen.add(id(value))                                                                         *)
Fixpoint check_detachable (seen : list Z) (values : list cval) : res unit :=
  match values with
  | [] => Ok tt
  | value :: rest =>
    if existsb (Z.eqb (cv_id value)) seen || negb (cv_free value) then Err ValueError
    else check_detachable (cv_id value :: seen) rest
  end.

(* ---------------------------------------------------------------------------------------- *)
(* _disambiguate_values                                                                       *)

(* isinstance(prev, NumberExpr)   (prev = None before the first value) *)
Definition is_number_expr (prev : option cval) : bool :=
  match prev with Some (CV _ _ (VNum _)) => true | _ => false end.

(* isinstance(number.raw_number_add_expr.raw_operands[0].raw_operands[0], NumberUnaryExpr) *)
Definition first_is_unary (e : add) : bool :=
  match add_operands e with
  | m :: _ => match mul_operands m with Unary _ _ _ :: _ => true | _ => false end
  | [] => false
  end.

(* NumberExpr.wrap_with_parenthesis:
     paren_expr = _wrap_paren(self.raw_number_add_expr)
     self._number_add_expr = NumberAddExpr(store, (NumberMulExpr(store, (paren_expr,), ()),), ())   *)
Definition wrap_with_parenthesis (e : add) : add := AMul (MAtom (wrap_paren e)).

(* the object `value` after `number.wrap_with_parenthesis()` (number is value itself or value.raw_number) *)
Definition with_number (value : cval) (e : add) : cval :=
  match cv_val value with
  | VAmount _ c => CV (cv_id value) (cv_free value) (VAmount e c)
  | VNum _ => CV (cv_id value) (cv_free value) (VNum e)
  | _ => value
  end.

(*   prev = None
     for value in values:
         if isinstance(prev, NumberExpr):
             if isinstance(value, Amount): number = value.raw_number
             elif isinstance(value, NumberExpr): number = value
             else: number = None
             if number is not None and isinstance(<first atom of number>, NumberUnaryExpr):
                 number.wrap_with_parenthesis()
         yield value
         prev = value                                                                          *)
Fixpoint disamb_loop (prev : option cval) (values : list cval) : list cval :=
  match values with
  | [] => []
  | value :: rest =>
    let value :=
      if is_number_expr prev then
        let number := match cv_val value with
                      | VAmount e _ => Some e
                      | VNum e => Some e
                      | _ => None
                      end in
        match number with
        | Some n => if first_is_unary n then with_number value (wrap_with_parenthesis n) else value
        | None => value
        end
      else value in
    value :: disamb_loop (Some value) rest
  end.

(* the generator, run to its end: (the argument objects afterwards, what was yielded or the exception).
   `values = list(values); _check_detachable(values)` comes before the first edit. *)
Definition disambiguate (values : list cval) : list cval * res (list cval) :=
  match check_detachable [] values with
  | Err e => (values, Err e)
  | Ok _ => let out := disamb_loop None values in (out, Ok out)
  end.

(* the same WITHOUT the up-front check (the loop runs, then Repeated.from_children's detach() refuses): only
   there to show what the check buys - see CustomValuesProofs.unchecked_refusal_not_atomic *)
Definition disambiguate_unchecked (values : list cval) : list cval * res (list cval) :=
  let out := disamb_loop None values in
  match check_detachable [] out with
  | Err e => (out, Err e)
  | Ok _ => (out, Ok out)
  end.

(* ---------------------------------------------------------------------------------------- *)
(* printing: the significant tokens of the values, in order (whitespace between/inside values is ignored
   by the grammar: %ignore WHITESPACE)                                                          *)
Inductive ctok :=
| CStr (raw : str) | CDate (raw : str) | CBool (raw : str) | CAcct (raw : str) | CCur (raw : str)
| CLex (l : lexeme).     (* NUMBER, "+", "-", "*", "/", "(", ")" *)

Definition render_value (v : value) : list ctok :=
  match v with
  | VStr s => [CStr s]
  | VDate s => [CDate s]
  | VBool s => [CBool s]
  | VNum e => map CLex (significant (re e))
  | VAmount e c => map CLex (significant (re e)) ++ [CCur c]
  | VAccount s => [CAcct s]
  end.

Definition render_values (vs : list value) : list ctok := flat_map render_value vs.

(* what a parser can rebuild: the same value with the gaps of its expression emptied *)
Definition strip_value (v : value) : value :=
  match v with
  | VNum e => VNum (se e)
  | VAmount e c => VAmount (se e) c
  | _ => v
  end.

(* ---------------------------------------------------------------------------------------- *)
(* parsing repeated{_custom_value}.  A number expression is read by NumExpr.parse_add on the run of
   expression tokens ahead: it goes on as long as the next token continues an expression (ADD_OP / MUL_OP
   are shifted), and ends before the first token that cannot (a NUMBER or "(" right after a complete expression
   starts the next value).  A CURRENCY right after a complete expression makes it an amount.           *)
Fixpoint span_lex (ts : list ctok) : list lexeme * list ctok :=
  match ts with
  | CLex l :: r => let (ls, rest) := span_lex r in (l :: ls, rest)
  | _ => ([], ts)
  end.

Definition split_number (ts : list ctok) : option (value * list ctok) :=
  let (ls, rest) := span_lex ts in
  match parse_add (fuel_of ls) ls with
  | Some (e, []) =>
    match rest with
    | CCur c :: rest' => Some (VAmount e c, rest')
    | _ => Some (VNum e, rest)
    end
  | Some (e, ls') => Some (VNum e, map CLex ls' ++ rest)
  | None => None
  end.

Definition consv (v : value) (o : option (list value)) : option (list value) :=
  match o with Some l => Some (v :: l) | None => None end.

(* fuel: one unit per value (every value takes at least one token) *)
Fixpoint parse_values_fuel (n : nat) (ts : list ctok) {struct n} : option (list value) :=
  match n with
  | O => None
  | S n' =>
    match ts with
    | [] => Some []
    | CStr s :: r => consv (VStr s) (parse_values_fuel n' r)
    | CDate s :: r => consv (VDate s) (parse_values_fuel n' r)
    | CBool s :: r => consv (VBool s) (parse_values_fuel n' r)
    | CAcct s :: r => consv (VAccount s) (parse_values_fuel n' r)
    | CCur _ :: _ => None                                   (* a CURRENCY cannot start a value *)
    | CLex _ :: _ =>
      match split_number ts with
      | Some (v, r) => consv v (parse_values_fuel n' r)
      | None => None
      end
    end
  end.

Definition parse_values (ts : list ctok) : option (list value) := parse_values_fuel (S (length ts)) ts.

(* ---------------------------------------------------------------------------------------- *)
(* the value level: _simplify_value, _unsimplify_value, _update_raw                            *)

(* what a caller can pass / gets back.  A datetime.datetime IS a datetime.date for `case datetime.date()`;
   a bool is neither a str, a date nor a Decimal.  PRaw: a raw model (Account, Amount, or any raw value). *)
Definition date := (Z * Z * Z)%type.
Inductive pyval (D : Type) :=
| PStr (s : str) | PDate (d : date) | PDateTime (d : date) (time : Z) | PBool (b : bool) | PDec (d : D)
| PRaw (v : value).
Arguments PStr {D} s.
Arguments PDate {D} d.
Arguments PDateTime {D} d time.
Arguments PBool {D} b.
Arguments PDec {D} d.
Arguments PRaw {D} v.

Section Values.
  Variable D : Type.
  Variables dadd dsub dmul ddiv : D -> D -> D.
  Variables dneg dabs : D -> D.
  Variable dltz : D -> bool.
  Variable num_value : str -> D.
  Variable num_text : D -> str.
  (* _format_value / _parse_value of the three token classes (Tokens.v models them; abstract here) *)
  Variable str_text : str -> str.     Variable str_value : str -> str.
  Variable date_text : date -> str.   Variable date_value : str -> date.
  Variable bool_text : bool -> str.   Variable bool_value : str -> bool.

  (* isinstance tests, as the `match` statements make them *)
  Definition isinstance_str (v : pyval D) : bool := match v with PStr _ => true | _ => false end.
  Definition isinstance_date (v : pyval D) : bool := match v with PDate _ | PDateTime _ _ => true | _ => false end.
  Definition isinstance_bool (v : pyval D) : bool := match v with PBool _ => true | _ => false end.
  Definition isinstance_decimal (v : pyval D) : bool := match v with PDec _ => true | _ => false end.
  (* what Date._format_value reads of a date-like object: .year .month .day *)
  Definition ymd (v : pyval D) : date := match v with PDate d | PDateTime d _ => d | _ => (0, 0, 0) end.

  (* _simplify_value: isinstance(raw_value, EscapedString | Date | Bool | NumberExpr) -> raw_value.value *)
  Definition simplify_value (raw_value : value) : pyval D :=
    match raw_value with
    | VStr s => PStr (str_value s)
    | VDate s => PDate (date_value s)
    | VBool s => PBool (bool_value s)
    | VNum e => PDec (vadd D dadd dsub dmul ddiv dneg num_value e)
    | _ => PRaw raw_value
    end.

  (* _unsimplify_value: case str() / case datetime.date() / case bool() / case decimal.Decimal() / case _ *)
  Definition unsimplify_value (v : pyval D) : value :=
    if isinstance_str v then match v with PStr s => VStr (str_text s) | _ => VStr [] end
    else if isinstance_date v then VDate (date_text (ymd v))
    else if isinstance_bool v then match v with PBool b => VBool (bool_text b) | _ => VBool [] end
    else if isinstance_decimal v then
      match v with PDec d => VNum (add_expr_from_value D dabs dltz num_text d) | _ => VNum (AMul (MAtom (Num []))) end
    else match v with PRaw r => r | _ => VStr [] end.

  (* _update_raw(raw_value, value) -> bool, and the raw value afterwards (`r.value = v` rewrites the token text /
     the expression of the SAME object):
       case EscapedString(), str() / case Date(), datetime.date() / case Bool(), bool() /
       case NumberExpr(), decimal.Decimal() / case _: return False                                 *)
  Definition raw_is_string (r : value) : bool := match r with VStr _ => true | _ => false end.
  Definition raw_is_date (r : value) : bool := match r with VDate _ => true | _ => false end.
  Definition raw_is_bool (r : value) : bool := match r with VBool _ => true | _ => false end.
  Definition raw_is_number (r : value) : bool := match r with VNum _ => true | _ => false end.

  Definition update_raw (raw_value : value) (v : pyval D) : value * bool :=
    if raw_is_string raw_value && isinstance_str v then (unsimplify_value v, true)
    else if raw_is_date raw_value && isinstance_date v then (unsimplify_value v, true)
    else if raw_is_bool raw_value && isinstance_bool v then (unsimplify_value v, true)
    else if raw_is_number raw_value && isinstance_decimal v then (unsimplify_value v, true)
    else (raw_value, false).

  (* Custom.from_value: values=map(_unsimplify_value, values) handed to from_children; a scalar becomes a
     new free-standing object (ids taken from `fresh`), a raw model is passed as it is *)
  Fixpoint unsimplify_all (fresh : Z) (vs : list (pyval D + cval)) : list cval :=
    match vs with
    | [] => []
    | inl v :: r => CV fresh true (unsimplify_value v) :: unsimplify_all (fresh + 1) r
    | inr c :: r => c :: unsimplify_all fresh r
    end.
  Definition from_value_values (fresh : Z) (vs : list (pyval D + cval)) : list cval * res (list cval) :=
    disambiguate (unsimplify_all fresh vs).
End Values.
