(* C19 proofs about NumExprSteps.v (the in-place arithmetic operators of NumberExpr, statement by statement). *)
From AB Require Import Prelude NumExpr NumExprProofs NumExprSteps.

(* ---------------------------------------------------------------------------------------- *)
(* inserting into a store whose shape is known                                                *)
Lemma firstn_len_app : forall (a b : list tok), firstn (length a) (a ++ b) = a.
Proof. induction a as [|x a IH]; intros b; cbn [length firstn app]; [destruct b; reflexivity|]. rewrite IH. reflexivity. Qed.

Lemma skipn_len_app : forall (a b : list tok), skipn (length a) (a ++ b) = b.
Proof. induction a as [|x a IH]; intros b; cbn [length skipn app]; [reflexivity|]. apply IH. Qed.

Lemma insert_at_app : forall a b l n, n = length a -> insert_at (a ++ b) n l = a ++ l ++ b.
Proof. intros a b l n ->. unfold insert_at. rewrite firstn_len_app, skipn_len_app. reflexivity. Qed.

Lemma re_paren : forall e, ra (Paren [] e []) = TLp :: re e ++ [TRp].
Proof. intros e. cbn [ra ws app]. reflexivity. Qed.

(* _wrap_paren on an expression that sits in its store puts the parentheses right around it *)
Lemma wrap_paren_st_spec : forall a e b,
  wrap_paren_st true (a ++ re e ++ b) (length a) e = Ok (a ++ ra (wrap_paren e) ++ b, wrap_paren e).
Proof.
  intros a e b. unfold wrap_paren_st, wrap_paren. rewrite re_paren.
  rewrite (insert_at_app a (re e ++ b) [TLp] (length a) eq_refl).
  replace (a ++ [TLp] ++ re e ++ b) with ((a ++ [TLp] ++ re e) ++ b)
    by (rewrite <- !app_assoc; reflexivity).
  rewrite insert_at_app by (rewrite !app_length; cbn [length]; lia).
  f_equal. f_equal. rewrite <- !app_assoc. cbn [app]. rewrite <- app_assoc. reflexivity.
Qed.

Lemma as_mul_st_spec : forall a e b,
  as_mul_st true (a ++ re e ++ b) (length a) e = Ok (a ++ rm (as_mul_expr e) ++ b, as_mul_expr e).
Proof.
  intros a e b. destruct e as [m|e' g1 m' g2 m]; unfold as_mul_st, as_mul_expr; cbn [add_has_ops negb]; [reflexivity|].
  rewrite wrap_paren_st_spec. reflexivity.
Qed.

Lemma as_atom_st_spec : forall a e b,
  as_atom_st true (a ++ re e ++ b) (length a) e = Ok (a ++ ra (as_atom_expr e) ++ b, as_atom_expr e).
Proof.
  intros a e b. destruct e as [[x|m g1 d g2 x]|e' g1 m' g2 m]; unfold as_atom_st, as_atom_expr;
    cbn [add_has_ops mul_has_ops negb]; [reflexivity| |]; apply wrap_paren_st_spec.
Qed.

(* on the deep copy (alone in its store) *)
Lemma as_mul_st_copy : forall e, as_mul_st true (re e) 0 e = Ok (rm (as_mul_expr e), as_mul_expr e).
Proof.
  intros e. pose proof (as_mul_st_spec [] e []) as H. cbn [app length] in H. rewrite !app_nil_r in H. exact H.
Qed.

Lemma as_atom_st_copy : forall e, as_atom_st true (re e) 0 e = Ok (ra (as_atom_expr e), as_atom_expr e).
Proof.
  intros e. pose proof (as_atom_st_spec [] e []) as H. cbn [app length] in H. rewrite !app_nil_r in H. exact H.
Qed.

(* a node that spans its store can be detached *)
Lemma detach_st_whole : forall l, detach_st l 0 (length l) = Ok l.
Proof. intros l. unfold detach_st. cbn [Nat.eqb Nat.add andb]. rewrite Nat.eqb_refl. reflexivity. Qed.

(* ---------------------------------------------------------------------------------------- *)
(* the operators on a Live operand, for ANY store and self (well-formed or not): the only statement that can still
   raise is the splice into self's own store, when self is itself a spent expression                               *)
Lemma s_iaddsub_live : forall s self x minus,
  s_iaddsub s self (Live x) minus =
  if s_owns self then
    (insert_at s (s_first self + length (re (s_tree self)))
               ([TWs SP; TAddOp minus; TWs SP] ++ rm (as_mul_expr (body x))),
     SR (s_first self) (AOp (s_tree self) SP minus SP (as_mul_expr (body x))) (s_owns self), Ok tt)
  else (s, self, Err ValueError).
Proof.
  intros s self x minus. unfold s_iaddsub, own_store_check. cbn [deepcopy_obj].
  rewrite as_mul_st_copy, detach_st_whole. destruct (s_owns self); reflexivity.
Qed.

Lemma s_imuldiv_tail_live : forall s1 self fm sm e div,
  s_imuldiv_tail s1 self fm sm (re e) e div =
  if s_owns self then
    (insert_at s1 (fm + length (rm sm)) ([TWs SP; TMulOp div; TWs SP] ++ ra (as_atom_expr e)),
     SR fm (AMul (MOp sm SP div SP (as_atom_expr e))) (s_owns self), Ok tt)
  else (s1, self, Err ValueError).
Proof.
  intros s1 self fm sm e div. unfold s_imuldiv_tail, own_store_check.
  rewrite as_atom_st_copy, detach_st_whole. destruct (s_owns self); reflexivity.
Qed.

(* through a store that is not the one the tokens are in, _as_mul_expr either needs no parentheses or refuses *)
Lemma as_mul_st_foreign : forall s f e,
  as_mul_st false s f e = if add_has_ops e then Err ValueError else Ok (s, as_mul_expr e).
Proof. intros s f [m|e' g1 b g2 m]; reflexivity. Qed.

Lemma as_mul_st_own_ok : forall s f e, exists s1 sm, as_mul_st true s f e = Ok (s1, sm).
Proof. intros s f [m|e' g1 b g2 m]; cbn; eauto. Qed.

Lemma as_mul_st_no_ops : forall o s f e, add_has_ops e = false -> as_mul_st o s f e = Ok (s, as_mul_expr e).
Proof. intros o s f [m|] H; [reflexivity|discriminate H]. Qed.

Lemma after_wrap_owns : forall self, s_owns (after_wrap self) = s_owns self.
Proof. intros [f t o]. unfold after_wrap. cbn [s_tree s_first s_owns]. destruct (add_has_ops t); reflexivity. Qed.

Lemma after_wrap_no_ops : forall self, add_has_ops (s_tree self) = false -> after_wrap self = self.
Proof. intros self H. unfold after_wrap. rewrite H. reflexivity. Qed.

(* ---------------------------------------------------------------------------------------- *)
(* C19: a refused call has written nothing                                                    *)
(* += / -= : every store, every left operand (a spent one too), every right operand *)
Theorem iaddsub_refused_atomic : forall s self other minus s' self' e,
  s_iaddsub s self other minus = (s', self', Err e) -> s' = s /\ self' = self.
Proof.
  intros s self [|x] minus s' self' e H.
  - cbn [s_iaddsub deepcopy_obj] in H. injection H as <- <- _. split; reflexivity.
  - rewrite s_iaddsub_live in H. destruct (s_owns self); [discriminate H|].
    injection H as <- <- _. split; reflexivity.
Qed.

(* *= / /= as found: every store, every right operand, every left operand that is in its own store (or needs no
   parentheses) *)
Theorem asfound_imuldiv_refused_atomic : forall s self other div s' self' e,
  s_owns self = true \/ add_has_ops (s_tree self) = false ->
  s_imuldiv VAsFound s self other div = (s', self', Err e) -> s' = s /\ self' = self.
Proof.
  intros s self [|x] div s' self' e Hself H.
  - cbn [s_imuldiv deepcopy_obj] in H. injection H as <- <- _. split; reflexivity.
  - cbn [s_imuldiv deepcopy_obj self_through_own] in H.
    destruct (as_mul_st true s (s_first self) (s_tree self)) as [[s1 sm]|e0] eqn:E.
    2:{ injection H as <- <- _. split; reflexivity. }
    rewrite s_imuldiv_tail_live, after_wrap_owns in H.
    destruct (s_owns self) eqn:O; [discriminate H|].
    destruct Hself as [Hown|Hops]; [discriminate Hown|].
    rewrite (as_mul_st_no_ops true s (s_first self) (s_tree self) Hops) in E. injection E as <- _.
    rewrite (after_wrap_no_ops self Hops) in H.
    injection H as <- <- _. split; reflexivity.
Qed.

(* *= / /= (the code, _wrap_paren through the expression's own store): every store, every right operand, EVERY left
   operand - a spent one is refused by the first insert of _wrap_paren, or needs no parentheses and is refused by the
   splice with nothing written *)
Theorem imuldiv_refused_atomic : forall s self other div s' self' e,
  s_imuldiv VCode s self other div = (s', self', Err e) -> s' = s /\ self' = self.
Proof.
  intros s self [|x] div s' self' e H.
  - cbn [s_imuldiv deepcopy_obj] in H. injection H as <- <- _. split; reflexivity.
  - cbn [s_imuldiv deepcopy_obj self_through_own] in H.
    destruct (s_owns self) eqn:O.
    + destruct (as_mul_st true s (s_first self) (s_tree self)) as [[s1 sm]|e0] eqn:E.
      2:{ injection H as <- <- _. split; reflexivity. }
      rewrite s_imuldiv_tail_live, after_wrap_owns, O in H. discriminate H.
    + rewrite as_mul_st_foreign in H.
      destruct (add_has_ops (s_tree self)) eqn:Hops.
      * injection H as <- <- _. split; reflexivity.
      * rewrite s_imuldiv_tail_live, after_wrap_owns, O, (after_wrap_no_ops self Hops) in H.
        injection H as <- <- _. split; reflexivity.
Qed.

Theorem inplace_refused_atomic : forall k s self other s' self' e,
  s_inplace VCode k s self other = (s', self', Err e) -> s' = s /\ self' = self.
Proof.
  intros [] s self other s' self' e H; cbn [s_inplace] in H;
    eauto using iaddsub_refused_atomic, imuldiv_refused_atomic.
Qed.

(* every in-place dunder, every kind of right operand, every left operand *)
Theorem idunder_refused_atomic : forall k s self o s' self' e,
  s_idunder VCode k s self o = (s', self', Err e) -> s' = s /\ self' = self.
Proof.
  intros k s self o s' self' e H. unfold s_idunder in H.
  destruct (coerce_operand o) as [other|e0].
  - eapply inplace_refused_atomic; eassumption.
  - injection H as <- <- _. split; reflexivity.
Qed.

(* the code as found, left operand in its own store *)
Theorem asfound_idunder_refused_atomic : forall k s self o s' self' e,
  s_owns self = true ->
  s_idunder VAsFound k s self o = (s', self', Err e) -> s' = s /\ self' = self.
Proof.
  intros k s self o s' self' e Hown H. unfold s_idunder in H.
  destruct (coerce_operand o) as [other|e0].
  - destruct k; cbn [s_inplace] in H; eauto using iaddsub_refused_atomic, asfound_imuldiv_refused_atomic.
  - injection H as <- <- _. split; reflexivity.
Qed.

(* which calls are refused: exactly those whose right operand is not a number, is NaN, or is a spent expression - and
   every call on a left operand that is itself spent; all of them with nothing written *)
Definition refusal_of (o : soperand) : option exn :=
  match o with
  | ONotNumber => Some TypeError
  | ONaN => Some InvalidOperation
  | OExpr Spent => Some ValueError
  | _ => None
  end.

Theorem idunder_refused_iff : forall k s self o,
  match refusal_of o with
  | Some e => s_idunder VCode k s self o = (s, self, Err e)
  | None => if s_owns self then exists s' self', s_idunder VCode k s self o = (s', self', Ok tt)
            else s_idunder VCode k s self o = (s, self, Err ValueError)
  end.
Proof.
  intros k s self o.
  assert (L : forall x, if s_owns self then exists s' self', s_inplace VCode k s self (Live x) = (s', self', Ok tt)
                        else s_inplace VCode k s self (Live x) = (s, self, Err ValueError)).
  { intros x. destruct (s_owns self) eqn:O.
    - destruct (as_mul_st_own_ok s (s_first self) (s_tree self)) as (s1 & sm & E).
      destruct k; cbn [s_inplace s_imuldiv deepcopy_obj self_through_own]; rewrite ?s_iaddsub_live, ?O; eauto;
        rewrite E, s_imuldiv_tail_live, after_wrap_owns, O; eauto.
    - destruct k; cbn [s_inplace s_imuldiv deepcopy_obj self_through_own]; rewrite ?s_iaddsub_live, ?O; try reflexivity;
        rewrite as_mul_st_foreign; destruct (add_has_ops (s_tree self)) eqn:Hops; try reflexivity;
        rewrite s_imuldiv_tail_live, after_wrap_owns, O, (after_wrap_no_ops self Hops); reflexivity. }
  destruct o as [| |neg t|[|x]]; cbn [refusal_of]; unfold s_idunder; cbn [coerce_operand];
    try reflexivity; try apply L.
  destruct k; reflexivity.
Qed.

(* ---------------------------------------------------------------------------------------- *)
(* the seeded order (wrap self, then copy the operand) is NOT atomic: `1 + 2` between other tokens, operand spent *)
Definition wf_self_tree : add := AOp (AMul (MAtom (Num [49]))) [32] false [32] (MAtom (Num [50])).     (* 1 + 2 *)
Definition wf_store : list tok := [TWs [65]; TWs [32]] ++ re wf_self_tree ++ [TWs [32]; TWs [85]].      (* A 1 + 2 U *)
Definition wf_self : sref := SR 2 wf_self_tree true.

Theorem wrap_first_refuted :
  attached wf_store wf_self /\
  exists s',
    s_imuldiv VWrapFirst wf_store wf_self Spent false = (s', SR 3 wf_self_tree true, Err ValueError) /\
    s' <> wf_store /\
    text s' = [65; 32; 40; 49; 32; 43; 32; 50; 41; 32; 85] /\                (* "A (1 + 2) U" *)
    text wf_store = [65; 32; 49; 32; 43; 32; 50; 32; 85] /\                  (* "A 1 + 2 U"   *)
    (* the code's order on the same input: refused with nothing written *)
    s_imuldiv VCode wf_store wf_self Spent false = (wf_store, wf_self, Err ValueError).
Proof.
  split.
  - exists [TWs [65]; TWs [32]], [TWs [32]; TWs [85]]. split; reflexivity.
  - eexists. split; [vm_compute; reflexivity|].
    split; [intros H; discriminate H|]. repeat split; vm_compute; reflexivity.
Qed.

(* ---------------------------------------------------------------------------------------- *)
(* the code AS FOUND is not atomic when the LEFT operand is itself spent: its tree `1 + 2` now belongs to the
   expression that received it, inside the document `A 1 + 2 U`.  `spent_self *= 3`: the operand is copied, _wrap_paren
   writes the parentheses into add_expr.token_store - the RECEIVER's document -, then the splice into self.token_store
   (self's own, empty store) raises ValueError.  The receiver's document prints `A (1 + 2) U`; no tree owns the
   parentheses.  (+= / -= never wrap self: iaddsub_refused_atomic covers the spent left operand.) *)
Definition wf_spent_self : sref := SR 2 wf_self_tree false.

Theorem asfound_spent_self_refuted :
  attached wf_store wf_spent_self /\
  exists s',
    s_idunder VAsFound OpMul wf_store wf_spent_self (OScalar false [51]) = (s', SR 3 wf_self_tree false, Err ValueError) /\
    s' <> wf_store /\
    text s' = [65; 32; 40; 49; 32; 43; 32; 50; 41; 32; 85] /\                (* "A (1 + 2) U" *)
    text wf_store = [65; 32; 49; 32; 43; 32; 50; 32; 85] /\                  (* "A 1 + 2 U"   *)
    (* the repaired code on the same input: refused with nothing written *)
    s_idunder VCode OpMul wf_store wf_spent_self (OScalar false [51]) = (wf_store, wf_spent_self, Err ValueError).
Proof.
  split.
  - exists [TWs [65]; TWs [32]], [TWs [32]; TWs [85]]. split; reflexivity.
  - eexists. split; [vm_compute; reflexivity|].
    split; [intros H; discriminate H|]. repeat split; vm_compute; reflexivity.
Qed.

(* ---------------------------------------------------------------------------------------- *)
(* accepted calls: the store and the tree are those of the pure model (NumExpr.inplace / dunder InPlace), for both
   orders of statements - the seeded order differs from the code's on refused calls only                         *)
Lemma s_iaddsub_pure : forall a b c x minus,
  s_iaddsub (a ++ re b ++ c) (SR (length a) b true) (Live x) minus =
  (a ++ re (AOp b SP minus SP (as_mul_expr (body x))) ++ c,
   SR (length a) (AOp b SP minus SP (as_mul_expr (body x))) true, Ok tt).
Proof.
  intros a b c x minus. rewrite s_iaddsub_live. cbn [s_first s_tree s_owns].
  rewrite app_assoc, insert_at_app by (rewrite app_length; reflexivity).
  f_equal. f_equal. cbn [re ws SP app]. rewrite <- !app_assoc. reflexivity.
Qed.

Lemma s_imuldiv_pure : forall v a b c x div,
  s_imuldiv v (a ++ re b ++ c) (SR (length a) b true) (Live x) div =
  (a ++ re (AMul (MOp (as_mul_expr b) SP div SP (as_atom_expr (body x)))) ++ c,
   SR (length a) (AMul (MOp (as_mul_expr b) SP div SP (as_atom_expr (body x)))) true, Ok tt).
Proof.
  intros v a b c x div.
  assert (E : (match as_mul_st true (a ++ re b ++ c) (length a) b with
               | Err e => (a ++ re b ++ c, SR (length a) b true, Err e)
               | Ok (s1, sm) => s_imuldiv_tail s1 (after_wrap (SR (length a) b true)) (length a) sm (re (body x)) (body x) div
               end) =
              (a ++ re (AMul (MOp (as_mul_expr b) SP div SP (as_atom_expr (body x)))) ++ c,
               SR (length a) (AMul (MOp (as_mul_expr b) SP div SP (as_atom_expr (body x)))) true, Ok tt)).
  { rewrite as_mul_st_spec, s_imuldiv_tail_live, after_wrap_owns. cbn [s_first s_owns].
    rewrite app_assoc, insert_at_app by (rewrite app_length; reflexivity).
    f_equal. f_equal. cbn [re rm ws SP app]. rewrite <- !app_assoc. reflexivity. }
  destruct v; cbn [s_imuldiv deepcopy_obj s_first s_tree s_owns self_through_own]; exact E.
Qed.

Theorem inplace_agrees_pure : forall v k self x r,
  inplace k self x = Ok r ->
  s_inplace v k (store_of self) (sref_of self) (Live x) = (store_of r, sref_of r, Ok tt).
Proof.
  intros v k [a b c] x r H. rewrite inplace_total in H. injection H as <-.
  unfold store_of, sref_of, store_toks. cbn [pre body post].
  destruct k; cbn [s_inplace]; rewrite ?s_iaddsub_pure, ?s_imuldiv_pure; reflexivity.
Qed.

(* the pure model never refuses, so: on every Live operand both orders accept and give the pure model's result *)
Corollary inplace_live_is_pure : forall v k self x,
  exists r, inplace k self x = Ok r /\
            s_inplace v k (store_of self) (sref_of self) (Live x) = (store_of r, sref_of r, Ok tt).
Proof.
  intros v k self x. eexists. split; [apply inplace_total|]. apply inplace_agrees_pure, inplace_total.
Qed.

(* the same through the type check, against `dunder ... InPlace` of NumExpr.v, for any arithmetic carrier *)
Section Arith.
  Variable D : Type.
  Variables dabs : D -> D.
  Variable dltz : D -> bool.
  Variable of_int : Z -> D.
  Variable num_text : D -> str.

  Notation coerce := (coerce D dabs dltz of_int num_text).
  Notation dunder := (dunder D dabs dltz of_int num_text).

  (* an operand of the pure model as the caller writes it *)
  Definition lift_operand (o : operand D) : soperand :=
    match o with
    | OInt z => OScalar (dltz (of_int z)) (num_text (dabs (of_int z)))
    | ODec d => OScalar (dltz d) (num_text (dabs d))
    | NumExpr.OExpr x => OExpr (Live x)
    end.

  Lemma coerce_lift : forall o, coerce_operand (lift_operand o) = Ok (Live (coerce o)).
  Proof.
    intros [z|d|x]; cbn [lift_operand coerce_operand NumExpr.coerce]; try reflexivity;
      unfold scalar_expr, from_value, add_expr_from_value; reflexivity.
  Qed.

  Theorem idunder_agrees_pure : forall v k self o oc,
    dunder k InPlace self o = Ok oc ->
    s_idunder v k (store_of self) (sref_of self) (lift_operand o)
      = (store_of (o_result oc), sref_of (o_result oc), Ok tt)
    /\ o_self oc = o_result oc.
  Proof.
    intros v k self o oc H. unfold NumExpr.dunder in H.
    destruct (inplace k self (coerce o)) as [r|e] eqn:E; [|discriminate H].
    injection H as <-. cbn [o_result o_self]. split; [|reflexivity].
    unfold s_idunder. rewrite coerce_lift. apply inplace_agrees_pure, E.
  Qed.
End Arith.

(* ---------------------------------------------------------------------------------------- *)
(* non-vacuity: refusals really happen on an attached `1 + 2`, for every operator and every refused operand kind,
   and a live operand is accepted with the parentheses where the pure model puts them *)
Example refusals_happen :
  s_idunder VCode OpMul wf_store wf_self (OExpr Spent) = (wf_store, wf_self, Err ValueError) /\
  s_idunder VCode OpAdd wf_store wf_self (OExpr Spent) = (wf_store, wf_self, Err ValueError) /\
  s_idunder VCode OpDiv wf_store wf_self ONaN = (wf_store, wf_self, Err InvalidOperation) /\
  s_idunder VCode OpSub wf_store wf_self ONotNumber = (wf_store, wf_self, Err TypeError) /\
  (exists s' self', s_idunder VCode OpMul wf_store wf_self (OScalar true [51]) = (s', self', Ok tt) /\
     text s' = [65; 32; 40; 49; 32; 43; 32; 50; 41; 32; 42; 32; 45; 51; 32; 85]).   (* "A (1 + 2) * -3 U" *)
Proof.
  repeat split; try reflexivity. eexists. eexists. split; vm_compute; reflexivity.
Qed.
