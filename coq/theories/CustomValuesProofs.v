(* C15 / C06 proofs about CustomValues.v (custom.py: _disambiguate_values and friends). *)
From AB Require Import Prelude NumExpr NumExprProofs CustomValues.

(* ---------------------------------------------------------------------------------------- *)
(* the first lexeme of a printed expression                                                    *)
Definition afirst (e : add) : mul := hd (MAtom (Num [])) (add_operands e).
Definition mfirst (m : mul) : atom := hd (Num []) (mul_operands m).
Definition is_unary (a : atom) : bool := match a with Unary _ _ _ => true | _ => false end.

Lemma add_operands_hd : forall e, exists tl, add_operands e = afirst e :: tl.
Proof.
  unfold afirst. induction e as [m|e [tl IH] g1 b g2 m]; cbn [add_operands].
  - exists []. reflexivity.
  - rewrite IH. cbn. eexists. reflexivity.
Qed.

Lemma mul_operands_hd : forall m, exists tl, mul_operands m = mfirst m :: tl.
Proof.
  unfold mfirst. induction m as [a|m [tl IH] g1 d g2 a]; cbn [mul_operands].
  - exists []. reflexivity.
  - rewrite IH. cbn. eexists. reflexivity.
Qed.

Lemma first_is_unary_spec : forall e, first_is_unary e = is_unary (mfirst (afirst e)).
Proof.
  intros e. unfold first_is_unary.
  destruct (add_operands_hd e) as [tl ->].
  destruct (mul_operands_hd (afirst e)) as [tl' ->].
  destruct (mfirst (afirst e)); reflexivity.
Qed.

Lemma afirst_AOp : forall e g1 b g2 m, afirst (AOp e g1 b g2 m) = afirst e.
Proof.
  intros. unfold afirst. cbn [add_operands]. destruct (add_operands_hd e) as [tl H].
  unfold afirst in H. rewrite H. reflexivity.
Qed.

Lemma mfirst_MOp : forall m g1 d g2 a, mfirst (MOp m g1 d g2 a) = mfirst m.
Proof.
  intros. unfold mfirst. cbn [mul_operands]. destruct (mul_operands_hd m) as [tl H].
  unfold mfirst in H. rewrite H. reflexivity.
Qed.

Definition first_lexeme_ok (a : atom) (l : lexeme) : Prop :=
  match a, l with
  | Num s, LNum s' => s' = s
  | Paren _ _ _, LLp => True
  | Unary b _ _, LSign b' => b' = b
  | _, _ => False
  end.

Lemma sig_ra_hd : forall a, exists l tl, significant (ra a) = l :: tl /\ first_lexeme_ok a l.
Proof.
  destruct a as [s|g1 e g2|b g a]; cbn [ra significant].
  - exists (LNum s), []. split; reflexivity.
  - exists LLp. eexists. split; [reflexivity|exact I].
  - exists (LSign b). eexists. split; reflexivity.
Qed.

Lemma sig_rm_hd : forall m, exists tl, significant (rm m) = significant (ra (mfirst m)) ++ tl.
Proof.
  induction m as [a|m [tl IH] g1 d g2 a].
  - exists []. unfold mfirst. cbn. rewrite app_nil_r. reflexivity.
  - rewrite mfirst_MOp. cbn [rm]. rewrite sig_app, IH, <- app_assoc. eexists. reflexivity.
Qed.

Lemma sig_re_hd : forall e, exists tl, significant (re e) = significant (ra (mfirst (afirst e))) ++ tl.
Proof.
  induction e as [m|e [tl IH] g1 b g2 m].
  - unfold afirst. cbn [add_operands hd re]. apply sig_rm_hd.
  - rewrite afirst_AOp. cbn [re]. rewrite sig_app, IH, <- app_assoc. eexists. reflexivity.
Qed.

Lemma sig_re_first : forall e, exists l tl,
  significant (re e) = l :: tl /\ first_lexeme_ok (mfirst (afirst e)) l.
Proof.
  intros e. destruct (sig_re_hd e) as [tl H].
  destruct (sig_ra_hd (mfirst (afirst e))) as (l & tl' & H' & Hok).
  exists l, (tl' ++ tl). rewrite H, H'. split; [reflexivity|exact Hok].
Qed.

(* an expression can follow a complete expression without merging into it exactly when it does not start
   with a sign *)
Lemma no_op_printed : forall e r, no_op (significant (re e) ++ r) = negb (first_is_unary e).
Proof.
  intros e r. rewrite first_is_unary_spec.
  destruct (sig_re_first e) as (l & tl & -> & Hok).
  destruct (mfirst (afirst e)), l; cbn in *; try contradiction; reflexivity.
Qed.

Lemma wrapped_not_unary : forall e, first_is_unary (wrap_with_parenthesis e) = false.
Proof. reflexivity. Qed.

(* ---------------------------------------------------------------------------------------- *)
(* the token stream of a list of values                                                        *)
Lemma span_lex_app : forall ls ts,
  span_lex (map CLex ls ++ ts) = (ls ++ fst (span_lex ts), snd (span_lex ts)).
Proof.
  induction ls as [|l ls IH]; intros ts; cbn [map app span_lex].
  - destruct (span_lex ts); reflexivity.
  - rewrite IH. reflexivity.
Qed.

Lemma span_lex_join : forall ts, map CLex (fst (span_lex ts)) ++ snd (span_lex ts) = ts.
Proof.
  induction ts as [|t ts IH]; [reflexivity|].
  destruct t; try reflexivity.
  cbn [span_lex]. destruct (span_lex ts) as [ls rest]. cbn [fst snd map app] in *. rewrite IH. reflexivity.
Qed.

Lemma span_lex_rest_no_lex : forall ts, match snd (span_lex ts) with CLex _ :: _ => False | _ => True end.
Proof.
  induction ts as [|t ts IH]; [exact I|].
  destruct t; try exact I.
  cbn [span_lex]. destruct (span_lex ts) as [ls rest]. exact IH.
Qed.

Definition number_of (v : value) : option add :=
  match v with VNum e | VAmount e _ => Some e | _ => None end.
Definition is_num (v : value) : bool := match v with VNum _ => true | _ => false end.
Definition starts_unary (v : value) : bool :=
  match number_of v with Some e => first_is_unary e | None => false end.

(* no number expression is directly followed by a value that starts with a sign *)
Fixpoint separated (vs : list value) : bool :=
  match vs with
  | [] => true
  | v :: r => match r with
              | [] => true
              | w :: _ => negb (is_num v && starts_unary w) && separated r
              end
  end.

Definition starts_cur (ts : list ctok) : bool := match ts with CCur _ :: _ => true | _ => false end.

Lemma render_value_nonempty : forall v, render_value v <> [].
Proof.
  destruct v as [s|s|s|e|e c|s]; cbn [render_value]; try discriminate;
    destruct (sig_re_first e) as (l & tl & -> & _); discriminate.
Qed.

Lemma render_value_length : forall v, (1 <= length (render_value v))%nat.
Proof.
  intros v. pose proof (render_value_nonempty v) as H. destruct (render_value v); [congruence|cbn; lia].
Qed.

Lemma render_values_no_cur : forall vs, starts_cur (render_values vs) = false.
Proof.
  destruct vs as [|v vs]; [reflexivity|]. cbn [render_values flat_map].
  destruct v as [s|s|s|e|e c|s]; cbn [render_value app]; try reflexivity;
    destruct (sig_re_first e) as (l & tl & -> & _); reflexivity.
Qed.

(* the expression tokens ahead of a list of values cannot continue an expression that ended just before,
   if the first value does not start with a sign *)
Lemma ahead_no_op : forall vs,
  match vs with [] => True | w :: _ => starts_unary w = false end ->
  no_op (fst (span_lex (render_values vs))) = true.
Proof.
  destruct vs as [|w vs]; intros H; [reflexivity|].
  cbn [render_values flat_map].
  destruct w as [s|s|s|e|e c|s]; try reflexivity; cbn [render_value].
  - rewrite span_lex_app. cbn [fst]. rewrite no_op_printed.
    unfold starts_unary in H. cbn in H. rewrite H. reflexivity.
  - rewrite <- app_assoc, span_lex_app. cbn [fst]. rewrite no_op_printed.
    unfold starts_unary in H. cbn in H. rewrite H. reflexivity.
Qed.

Lemma fuel_enough : forall e ls, exists k, fuel_of (significant (re e) ++ ls) = (fe e + k)%nat.
Proof.
  intros e ls. destruct fuel_bound as (_ & _ & HB). specialize (HB e).
  unfold fuel_of. rewrite app_length.
  exists (5 * (length (significant (re e)) + length ls) - fe e)%nat. lia.
Qed.

(* reading one number / amount off the front of a stream *)
Lemma split_number_num : forall e ts,
  no_op (fst (span_lex ts)) = true -> starts_cur ts = false ->
  split_number (map CLex (significant (re e)) ++ ts) = Some (VNum (se e), ts).
Proof.
  intros e ts Hno Hcur. unfold split_number. rewrite span_lex_app.
  destruct (fuel_enough e (fst (span_lex ts))) as [k ->].
  destruct parse_complete as (_ & _ & HE).
  rewrite (parse_add_done e (HE e) k _ Hno).
  pose proof (span_lex_join ts) as J.
  destruct (fst (span_lex ts)) as [|l ls'] eqn:E.
  - cbn [map app] in J. rewrite J.
    destruct ts as [|[] ts']; try reflexivity. discriminate.
  - rewrite J. reflexivity.
Qed.

Lemma split_number_amount : forall e c ts,
  split_number (map CLex (significant (re e)) ++ CCur c :: ts) = Some (VAmount (se e) c, ts).
Proof.
  intros e c ts. unfold split_number. rewrite span_lex_app. cbn [span_lex fst snd].
  destruct (fuel_enough e []) as [k ->].
  destruct parse_complete as (_ & _ & HE).
  rewrite (parse_add_done e (HE e) k [] eq_refl). reflexivity.
Qed.

Lemma parse_values_fuel_lex : forall n l ts,
  parse_values_fuel (S n) (CLex l :: ts) =
  match split_number (CLex l :: ts) with
  | Some (v, r) => consv v (parse_values_fuel n r)
  | None => None
  end.
Proof. reflexivity. Qed.

(* a separated list of values prints to a stream that is split into exactly these values *)
Lemma parse_separated : forall vs n, separated vs = true ->
  (length (render_values vs) < n)%nat ->
  parse_values_fuel n (render_values vs) = Some (map strip_value vs).
Proof.
  induction vs as [|v vs IH]; intros n Hsep Hn.
  - destruct n; [cbn in Hn; lia|]. reflexivity.
  - destruct n as [|n]; [lia|].
    assert (Hsep' : separated vs = true).
    { cbn [separated] in Hsep. destruct vs as [|w vs']; [reflexivity|].
      apply andb_prop in Hsep. apply Hsep. }
    cbn [render_values flat_map] in Hn |- *. rewrite app_length in Hn.
    pose proof (render_value_length v) as Hl.
    assert (Hn' : (length (render_values vs) < n)%nat) by (unfold render_values; lia).
    specialize (IH n Hsep' Hn').
    destruct v as [s|s|s|e|e c|s]; cbn [render_value app map strip_value];
      try (cbn [parse_values_fuel]; fold (render_values vs); rewrite IH; reflexivity).
    + (* VNum *)
      fold (render_values vs).
      assert (Hsplit : split_number (map CLex (significant (re e)) ++ render_values vs)
                       = Some (VNum (se e), render_values vs)).
      { apply split_number_num; [|apply render_values_no_cur].
        apply ahead_no_op. destruct vs as [|w vs']; [exact I|].
        cbn [separated] in Hsep. apply andb_prop in Hsep. destruct Hsep as [H _].
        cbn [is_num andb] in H. apply negb_true_iff in H. exact H. }
      destruct (sig_re_first e) as (l & tl & Hl' & _).
      rewrite Hl' in Hsplit |- *. cbn [map app] in Hsplit |- *.
      rewrite parse_values_fuel_lex, Hsplit, IH. reflexivity.
    + (* VAmount *)
      fold (render_values vs). rewrite <- app_assoc. cbn [app].
      pose proof (split_number_amount e c (render_values vs)) as Hsplit.
      destruct (sig_re_first e) as (l & tl & Hl' & _).
      rewrite Hl' in Hsplit |- *. cbn [map app] in Hsplit |- *.
      rewrite parse_values_fuel_lex, Hsplit, IH. reflexivity.
Qed.

Corollary parse_separated_top : forall vs, separated vs = true ->
  parse_values (render_values vs) = Some (map strip_value vs).
Proof. intros vs H. apply parse_separated; [exact H|lia]. Qed.

(* ---------------------------------------------------------------------------------------- *)
(* the loop                                                                                    *)
Definition prev_num (prev : option cval) : bool := is_number_expr prev.

Definition needs_wrap (prev_is_num : bool) (v : value) : bool := prev_is_num && starts_unary v.
Definition wrap_value (v : value) : value :=
  match v with
  | VNum e => VNum (wrap_with_parenthesis e)
  | VAmount e c => VAmount (wrap_with_parenthesis e) c
  | _ => v
  end.

(* the loop without its variable: what happens to a value depends on the value before it in the INPUT *)
Fixpoint disamb_spec (prev_is_num : bool) (vs : list value) : list value :=
  match vs with
  | [] => []
  | v :: r => (if needs_wrap prev_is_num v then wrap_value v else v) :: disamb_spec (is_num v) r
  end.

Lemma is_number_expr_some : forall c, is_number_expr (Some c) = is_num (cv_val c).
Proof. intros [i f []]; reflexivity. Qed.

Lemma is_num_wrap : forall v, is_num (wrap_value v) = is_num v.
Proof. destruct v; reflexivity. Qed.

Lemma disamb_loop_cons : forall prev c rest,
  exists c', disamb_loop prev (c :: rest) = c' :: disamb_loop (Some c') rest /\
    cv_id c' = cv_id c /\ cv_free c' = cv_free c /\
    cv_val c' = (if needs_wrap (prev_num prev) (cv_val c) then wrap_value (cv_val c) else cv_val c).
Proof.
  intros prev [i f v] rest. cbn [disamb_loop]. eexists. split; [reflexivity|].
  unfold needs_wrap, prev_num, starts_unary.
  destruct (is_number_expr prev); cbn [andb]; [|repeat split].
  destruct v as [s|s|s|e|e c|s]; cbn [cv_val number_of]; try (repeat split; reflexivity);
    destruct (first_is_unary e); repeat split; reflexivity.
Qed.

Lemma disamb_loop_spec : forall vs prev,
  map cv_val (disamb_loop prev vs) = disamb_spec (prev_num prev) (map cv_val vs) /\
  map cv_id (disamb_loop prev vs) = map cv_id vs /\
  map cv_free (disamb_loop prev vs) = map cv_free vs.
Proof.
  induction vs as [|c vs IH]; intros prev; [repeat split|].
  destruct (disamb_loop_cons prev c vs) as (c' & -> & Hid & Hfree & Hval).
  destruct (IH (Some c')) as (IH1 & IH2 & IH3).
  cbn [map disamb_spec]. rewrite IH1, IH2, IH3, Hid, Hfree, Hval.
  unfold prev_num at 2. rewrite is_number_expr_some, Hval.
  destruct (needs_wrap (prev_num prev) (cv_val c)); rewrite ?is_num_wrap; repeat split.
Qed.

Lemma starts_unary_wrap : forall v, number_of v <> None -> starts_unary (wrap_value v) = false.
Proof. destruct v; cbn; congruence. Qed.

Lemma needs_wrap_number : forall b v, needs_wrap b v = true -> number_of v <> None.
Proof.
  unfold needs_wrap, starts_unary. intros b v H. apply andb_prop in H. destruct H as [_ H].
  destruct (number_of v); congruence.
Qed.

Lemma disamb_spec_separated : forall vs b, separated (disamb_spec b vs) = true.
Proof.
  induction vs as [|v vs IH]; intros b; [reflexivity|].
  cbn [disamb_spec separated].
  destruct vs as [|w vs']; [reflexivity|].
  specialize (IH (is_num v)). cbn [disamb_spec] in IH |- *. rewrite IH, andb_true_r.
  apply negb_true_iff.
  replace (is_num (if needs_wrap b v then wrap_value v else v)) with (is_num v)
    by (destruct (needs_wrap b v); rewrite ?is_num_wrap; reflexivity).
  destruct (needs_wrap (is_num v) w) eqn:E.
  - rewrite starts_unary_wrap by (eapply needs_wrap_number; exact E). apply andb_false_r.
  - exact E.
Qed.

Lemma disamb_spec_fixed : forall vs b, separated vs = true ->
  (match vs with [] => True | v :: _ => needs_wrap b v = false end) -> disamb_spec b vs = vs.
Proof.
  induction vs as [|v vs IH]; intros b Hsep Hhd; [reflexivity|].
  cbn [disamb_spec]. rewrite Hhd. f_equal. apply IH.
  - cbn [separated] in Hsep. destruct vs; [reflexivity|]. apply andb_prop in Hsep. apply Hsep.
  - destruct vs as [|w vs']; [exact I|]. cbn [separated] in Hsep. apply andb_prop in Hsep.
    destruct Hsep as [H _]. apply negb_true_iff in H. exact H.
Qed.

Lemma check_detachable_ids : forall vs vs' seen,
  map cv_id vs = map cv_id vs' -> map cv_free vs = map cv_free vs' ->
  check_detachable seen vs = check_detachable seen vs'.
Proof.
  induction vs as [|c vs IH]; intros [|c' vs'] seen Hid Hfree; try discriminate; [reflexivity|].
  cbn [map] in Hid, Hfree. injection Hid as Hi Hid. injection Hfree as Hf Hfree.
  cbn [check_detachable]. rewrite Hi, Hf.
  destruct (existsb (Z.eqb (cv_id c')) seen || negb (cv_free c')); [reflexivity|].
  apply IH; assumption.
Qed.

(* ---------------------------------------------------------------------------------------- *)
(* the theorems                                                                                *)

(* what the check accepts: pairwise distinct objects, each spanning its own store *)
Lemma check_detachable_ok : forall vs seen,
  check_detachable seen vs = Ok tt <->
  (NoDup (map cv_id vs) /\ (forall c, In c vs -> ~ In (cv_id c) seen /\ cv_free c = true)).
Proof.
  induction vs as [|c vs IH]; intros seen; cbn [check_detachable map].
  - split; [intros _; split; [constructor|intros c []]|reflexivity].
  - destruct (existsb (Z.eqb (cv_id c)) seen) eqn:Ex; cbn [orb].
    + split; [discriminate|]. intros [_ H]. destruct (H c (or_introl eq_refl)) as [Hn _].
      apply existsb_exists in Ex. destruct Ex as (x & Hx & Hxe). apply Z.eqb_eq in Hxe. subst x. contradiction.
    + assert (Hns : ~ In (cv_id c) seen).
      { intros Hin. assert (existsb (Z.eqb (cv_id c)) seen = true); [|congruence].
        apply existsb_exists. exists (cv_id c). split; [exact Hin|apply Z.eqb_refl]. }
      destruct (cv_free c) eqn:Ef; cbn [negb].
      * rewrite IH. split.
        -- intros [Hnd H]. split.
           ++ constructor; [|exact Hnd]. intros Hin. apply in_map_iff in Hin.
              destruct Hin as (c2 & Hc2 & Hin2). destruct (H c2 Hin2) as [Hn _]. apply Hn. left. auto.
           ++ intros c2 [<-|Hin2]; [split; assumption|].
              destruct (H c2 Hin2) as [Hn Hf]. split; [|exact Hf]. intros Hin. apply Hn. right. exact Hin.
        -- intros [Hnd H]. inversion Hnd as [|x l Hnotin Hnd']; subst. split; [exact Hnd'|].
           intros c2 Hin2. destruct (H c2 (or_intror Hin2)) as [Hn Hf]. split; [|exact Hf].
           intros [Heq|Hin]; [|contradiction]. apply Hnotin. rewrite Heq. apply in_map. exact Hin2.
      * split; [discriminate|]. intros [_ H]. destruct (H c (or_introl eq_refl)) as [_ Hf]. congruence.
Qed.

Lemma check_detachable_err : forall vs seen e, check_detachable seen vs = Err e -> e = ValueError.
Proof.
  induction vs as [|c vs IH]; intros seen e; cbn [check_detachable]; [discriminate|].
  destruct (existsb (Z.eqb (cv_id c)) seen || negb (cv_free c)); [congruence|apply IH].
Qed.

(* (1) no two values merge: the yielded values print to a token stream that the grammar splits back into
   exactly these values (expression gaps forgotten) *)
Theorem disambiguate_reparses : forall values after out,
  disambiguate values = (after, Ok out) ->
  parse_values (render_values (map cv_val out)) = Some (map strip_value (map cv_val out)).
Proof.
  intros values after out H. unfold disambiguate in H.
  destruct (check_detachable [] values); [|discriminate]. injection H as _ <-.
  apply parse_separated_top. destruct (disamb_loop_spec values None) as (-> & _). apply disamb_spec_separated.
Qed.

(* the loop alone has the property, whatever the objects are *)
Theorem disamb_loop_reparses : forall values,
  let out := map cv_val (disamb_loop None values) in
  parse_values (render_values out) = Some (map strip_value out).
Proof.
  intros values out. apply parse_separated_top. unfold out.
  destruct (disamb_loop_spec values None) as (-> & _). apply disamb_spec_separated.
Qed.

(* ... and with from_value's expressions (no gaps) the very same values come back *)
Definition gapless (v : value) : Prop := strip_value v = v.
Corollary disambiguate_reparses_exact : forall values after out,
  disambiguate values = (after, Ok out) -> Forall gapless (map cv_val out) ->
  parse_values (render_values (map cv_val out)) = Some (map cv_val out).
Proof.
  intros values after out H G. rewrite (disambiguate_reparses _ _ _ H). f_equal.
  induction G as [|v l Hv _ IH]; [reflexivity|]. cbn [map]. rewrite Hv, IH. reflexivity.
Qed.

(* without the disambiguation the statement is false: 1 followed by -2 is read as the single value 1 - 2 *)
Definition ex_one : add := AMul (MAtom (Num [49])).
Definition ex_minus_two : add := AMul (MAtom (Unary true [] (Num [50]))).
Definition ex_values : list cval := [CV 1 true (VNum ex_one); CV 2 true (VNum ex_minus_two)].

Theorem undisambiguated_reparse_refuted : exists values,
  check_detachable [] values = Ok tt /\
  parse_values (render_values (map cv_val values)) <> Some (map strip_value (map cv_val values)) /\
  parse_values (render_values (map cv_val values)) =
    Some [VNum (AOp (AMul (MAtom (Num [49]))) [] true [] (MAtom (Num [50])))].
Proof. exists ex_values. split; [reflexivity|]. split; [vm_compute; discriminate|vm_compute; reflexivity]. Qed.

(* (2) what the loop changes: position by position, a value is wrapped exactly when the value before it (in the
   input) is a NumberExpr and it is a number/amount whose first atom is a unary expression; identities and
   stores stay *)
Theorem disambiguate_shape : forall values after out,
  disambiguate values = (after, Ok out) ->
  after = out /\
  map cv_val out = disamb_spec false (map cv_val values) /\
  map cv_id out = map cv_id values /\ map cv_free out = map cv_free values.
Proof.
  intros values after out H. unfold disambiguate in H.
  destruct (check_detachable [] values); [|discriminate]. injection H as <- <-.
  split; [reflexivity|]. exact (disamb_loop_spec values None).
Qed.

Definition prev_is_num_at (vs : list value) (i : nat) : bool :=
  match i with O => false | S j => match nth_error vs j with Some v => is_num v | None => false end end.

Lemma disamb_spec_nth : forall vs b i,
  nth_error (disamb_spec b vs) i =
  match nth_error vs i with
  | Some v => Some (if needs_wrap (match i with O => b | S _ => prev_is_num_at vs i end) v then wrap_value v else v)
  | None => None
  end.
Proof.
  induction vs as [|v vs IH]; intros b [|i]; try reflexivity.
  cbn [disamb_spec nth_error]. rewrite IH. destruct (nth_error vs i) eqn:E; [|reflexivity].
  destruct i; reflexivity.
Qed.

Section Kept.
  Variable D : Type.
  Variables dadd dsub dmul ddiv : D -> D -> D.
  Variable dneg : D -> D.
  Variable num_value : str -> D.
  Notation vadd := (vadd D dadd dsub dmul ddiv dneg num_value).

  (* the number a value denotes, if it has one *)
  Definition number_value (v : value) : option D := option_map vadd (number_of v).
  Definition currency_of (v : value) : option str := match v with VAmount _ c => Some c | _ => None end.

  Lemma wrap_value_number : forall v, number_value (wrap_value v) = number_value v.
  Proof. destruct v; reflexivity. Qed.

  (* same length; position by position: a value that is not a number/amount is untouched; a number keeps its
     kind, its currency and its value; it is either untouched or gains exactly one pair of parentheses, the
     latter exactly when it follows a NumberExpr and starts with a unary sign *)
  Theorem disambiguate_values_kept : forall values after out,
    disambiguate values = (after, Ok out) ->
    length out = length values /\
    forall i c, nth_error values i = Some c ->
      exists c', nth_error out i = Some c' /\
        cv_id c' = cv_id c /\
        number_value (cv_val c') = number_value (cv_val c) /\
        currency_of (cv_val c') = currency_of (cv_val c) /\
        (number_of (cv_val c) = None -> cv_val c' = cv_val c) /\
        cv_val c' = (if prev_is_num_at (map cv_val values) i && starts_unary (cv_val c)
                     then wrap_value (cv_val c) else cv_val c).
  Proof.
    intros values after out H. destruct (disambiguate_shape _ _ _ H) as (_ & Hval & Hid & _).
    split.
    { rewrite <- (map_length cv_id out), Hid, map_length. reflexivity. }
    intros i c Hc.
    assert (Hlen : length out = length values) by (rewrite <- (map_length cv_id out), Hid, map_length; reflexivity).
    destruct (nth_error out i) as [c'|] eqn:Hc'.
    2:{ apply nth_error_None in Hc'. assert (i < length values)%nat by (apply nth_error_Some; congruence). lia. }
    exists c'. split; [reflexivity|].
    assert (Hidc : cv_id c' = cv_id c).
    { pose proof (map_nth_error cv_id _ _ Hc') as A. pose proof (map_nth_error cv_id _ _ Hc) as B.
      rewrite Hid in A. congruence. }
    assert (Hv : cv_val c' = (if needs_wrap (prev_is_num_at (map cv_val values) i) (cv_val c)
                              then wrap_value (cv_val c) else cv_val c)).
    { pose proof (map_nth_error cv_val _ _ Hc') as A. rewrite Hval, disamb_spec_nth in A.
      rewrite (map_nth_error cv_val _ _ Hc) in A. injection A as A. rewrite <- A.
      destruct i; reflexivity. }
    split; [exact Hidc|].
    unfold needs_wrap in Hv.
    destruct (prev_is_num_at (map cv_val values) i && starts_unary (cv_val c)) eqn:E; rewrite Hv.
    - repeat split.
      + apply wrap_value_number.
      + destruct (cv_val c); reflexivity.
      + intros Hn. unfold starts_unary in E. rewrite Hn in E. rewrite andb_false_r in E. discriminate.
    - repeat split.
  Qed.
End Kept.

(* (3) a second pass finds nothing to do *)
Theorem disambiguate_idempotent : forall values after out,
  disambiguate values = (after, Ok out) -> disambiguate out = (out, Ok out).
Proof.
  intros values after out H. destruct (disambiguate_shape _ _ _ H) as (_ & Hval & Hid & Hfree).
  unfold disambiguate in H |- *.
  rewrite (check_detachable_ids out values [] Hid Hfree).
  destruct (check_detachable [] values); [|discriminate].
  assert (Hfix : disamb_loop None out = out).
  { destruct (disamb_loop_spec out None) as (Hv & Hi & Hf).
    assert (Hv' : map cv_val (disamb_loop None out) = map cv_val out).
    { rewrite Hv, Hval. apply disamb_spec_fixed; [apply disamb_spec_separated|].
      destruct (disamb_spec false (map cv_val values)); [exact I|reflexivity]. }
    clear -Hv' Hi Hf. revert Hv' Hi Hf. generalize (disamb_loop None out) as l.
    induction out as [|c out IH]; intros [|c' l] Hv Hi Hf; try discriminate; [reflexivity|].
    cbn [map] in *. injection Hv as Hv1 Hv. injection Hi as Hi1 Hi. injection Hf as Hf1 Hf.
    f_equal; [|apply IH; assumption].
    destruct c, c'; cbn in *; congruence. }
  rewrite Hfix. reflexivity.
Qed.

Theorem disamb_loop_idempotent : forall vs,
  disamb_spec false (disamb_spec false vs) = disamb_spec false vs.
Proof.
  intros vs. apply disamb_spec_fixed; [apply disamb_spec_separated|].
  destruct (disamb_spec false vs); [exact I|reflexivity].
Qed.

(* (4) the refusal is atomic: when a value is not detachable (or is given twice) the call raises ValueError
   and no argument has been edited; and it refuses exactly then *)
Theorem disambiguate_refusal_atomic : forall values after e,
  disambiguate values = (after, Err e) -> after = values /\ e = ValueError.
Proof.
  intros values after e H. unfold disambiguate in H.
  destruct (check_detachable [] values) eqn:E; [discriminate|].
  injection H as <- <-. split; [reflexivity|]. eapply check_detachable_err. exact E.
Qed.

Theorem disambiguate_refuses_iff : forall values,
  (exists out, disambiguate values = (out, Ok out)) <->
  (NoDup (map cv_id values) /\ forall c, In c values -> cv_free c = true).
Proof.
  intros values. unfold disambiguate. split.
  - intros [out H]. destruct (check_detachable [] values) as [[]|] eqn:E; [|discriminate].
    apply check_detachable_ok in E. destruct E as [Hnd Hall]. split; [exact Hnd|].
    intros c Hc. apply (Hall c Hc).
  - intros [Hnd Hall].
    assert (E : check_detachable [] values = Ok tt).
    { apply check_detachable_ok. split; [exact Hnd|]. intros c Hc. split; [intros []|apply Hall, Hc]. }
    rewrite E. eexists. reflexivity.
Qed.

(* without the up-front check a refused call has already put parentheses into an argument *)
Definition ex_attached : list cval :=
  [CV 1 true (VNum ex_one); CV 2 true (VNum ex_minus_two); CV 3 false (VStr [34; 34])].
Theorem unchecked_refusal_not_atomic : exists values after,
  disambiguate_unchecked values = (after, Err ValueError) /\ after <> values /\
  disambiguate values = (values, Err ValueError).
Proof.
  exists ex_attached. eexists. split; [vm_compute; reflexivity|]. split; [discriminate|reflexivity].
Qed.

(* ---------------------------------------------------------------------------------------- *)
(* value level                                                                                 *)
Section Values.
  Variable D : Type.
  Variables dadd dsub dmul ddiv : D -> D -> D.
  Variables dneg dabs : D -> D.
  Variable dltz : D -> bool.
  Variable num_value : str -> D.
  Variable num_text : D -> str.
  Variable str_text : str -> str.     Variable str_value : str -> str.
  Variable date_text : date -> str.   Variable date_value : str -> date.
  Variable bool_text : bool -> str.   Variable bool_value : str -> bool.

  Notation simplify := (simplify_value D dadd dsub dmul ddiv dneg num_value str_value date_value bool_value).
  Notation unsimplify := (unsimplify_value D dabs dltz num_text str_text date_text bool_text).
  Notation update := (update_raw D dabs dltz num_text str_text date_text bool_text).
  Notation vadd := (vadd D dadd dsub dmul ddiv dneg num_value).

  (* what reading gives for what was written: a datetime comes back as its date *)
  Definition read_back (v : pyval D) : pyval D :=
    match v with
    | PDateTime d _ => PDate d
    | PRaw r => simplify r
    | _ => v
    end.

  (* the token classes' own round trips (C12) and the three laws of the carrier (as C13_from_value_exact) *)
  Hypothesis str_rt : forall s, str_value (str_text s) = s.
  Hypothesis date_rt : forall d, date_value (date_text d) = d.
  Hypothesis bool_rt : forall b, bool_value (bool_text b) = b.
  Hypothesis num_rt : forall v, num_value (num_text (dabs v)) = dabs v.
  Hypothesis neg_abs : forall v, dltz v = true -> dneg (dabs v) = v.
  Hypothesis pos_abs : forall v, dltz v = false -> dabs v = v.

  Theorem simplify_unsimplify : forall v, simplify (unsimplify v) = read_back v.
  Proof.
    intros [s|d|d t|b|d|r]; cbn; rewrite ?str_rt, ?date_rt, ?bool_rt; try reflexivity.
    f_equal. unfold add_expr_from_value. destruct (dltz d) eqn:E; cbn; rewrite num_rt; auto.
  Qed.

  (* from_value builds expressions without gaps whose first atom is unary exactly for negative numbers *)
  Lemma unsimplify_scalar_gapless : forall v,
    match v with PRaw _ => True | _ => gapless (unsimplify v) end.
  Proof.
    intros [s|d|d t|b|d|r]; cbn; try reflexivity; try exact I.
    unfold gapless, add_expr_from_value. destruct (dltz d); reflexivity.
  Qed.

  Lemma unsimplify_decimal_sign : forall d,
    starts_unary (unsimplify (PDec d)) = dltz d.
  Proof. intros d. cbn. unfold starts_unary, add_expr_from_value. destruct (dltz d); reflexivity. Qed.

  (* _update_raw: succeeds exactly on a matching (raw kind, value type) pair; then the raw value reads as the
     new value; otherwise nothing is touched *)
  Definition kinds_match (r : value) (v : pyval D) : bool :=
    match r, v with
    | VStr _, PStr _ | VDate _, PDate _ | VDate _, PDateTime _ _ | VBool _, PBool _ | VNum _, PDec _ => true
    | _, _ => false
    end.

  Theorem update_raw_spec : forall r v,
    snd (update r v) = kinds_match r v /\
    (kinds_match r v = true -> simplify (fst (update r v)) = read_back v) /\
    (kinds_match r v = false -> fst (update r v) = r).
  Proof.
    intros r v. split; [destruct r, v; reflexivity|]. split; intros H.
    - destruct r, v; try discriminate H; cbn [update_raw fst raw_is_string raw_is_date raw_is_bool raw_is_number
        isinstance_str isinstance_date isinstance_bool isinstance_decimal andb];
        apply simplify_unsimplify.
    - destruct r, v; try discriminate H; reflexivity.
  Qed.
End Values.
