(* C03 / C19 model: single-child slots
     autobean_refactor/models/internal/fields.py : optional_left_field / optional_right_field
                                                   (_create_node, _remove_node, _touches) -- as repaired by
                                                   /verif/fixes/optional-remove-keeps-separator-when-glued.patch
     autobean_refactor/models/internal/properties.py : replace_node, required_node_property.__set__,
                                                       optional_node_property.__set__
   over the same abstract store as Repeated.v.  No proofs here. *)
From AB Require Import Prelude PySeq Repeated.

(* the slot: the current child (first, last) if present; `same` = the donor *is* the current child *)
Inductive side := SLeft | SRight.

Section Slot.
Variable sd : side.
Variable seps : list (kind * str).

(* optional_{left,right}_field._create_node(token_store, pivot, value) *)
Definition create_node (d : doc) (pivot : Z) (v : donor) (fr : Z) : doc * list donor * res unit :=
  match detach v with
  | Err e => (d, [v], Err e)
  | Ok (ts, v') =>
      let r := match sd with
               | SLeft => st_insert_after pivot (mk_seps fr seps ++ ts) d
               | SRight => st_insert_before pivot (ts ++ mk_seps fr seps) d
               end in
      match r with
      | Err e => (d, [v'], Err e)
      | Ok d' => (d', [v'], Ok tt)
      end
  end.

(* _touches(token, step, end): walk from `token` (excluded) by `step`, skip the tokens without text; the nearest
   token with text shows, at its end 0 / -1, a character other than a blank or a bracket (" \t\r\n{}()").
   `l` = the tokens step reaches, nearest first (the tokens after `token` for get_next, those before it in
   reverse order for get_prev); `first_char` = (end == 0). *)
Definition self_delimiting (c : Z) : bool :=
  (c =? 32) || (c =? 9) || (c =? 13) || (c =? 10) || (c =? 123) || (c =? 125) || (c =? 40) || (c =? 41).
Fixpoint touches (first_char : bool) (l : list tok) : bool :=
  match l with
  | [] => false                                   (* neighbor is None *)
  | t :: r =>
      match ttext t with
      | [] => touches first_char r                (* `not neighbor.raw_text`: step on *)
      | c :: s => negb (self_delimiting (if first_char then c else last s c))
      end
  end.

(* optional_{left,right}_field._remove_node(token_store, pivot, current): the separators between the pivot and
   the child stay when there are some (`first is not current.first_token`) and the child touches what lies on
   its other side *)
Definition remove_node (d : doc) (pivot : Z) (cur : item) : doc * res unit :=
  match sd with
  | SLeft =>
      match st_get_next pivot d with
      | Err e => (d, Err e)
      | Ok None => (d, Err AssertionError)
      | Ok (Some first) =>
          let rm (f : Z) := match st_remove f (snd cur) d with Ok d' => (d', Ok tt) | Err e => (d, Err e) end in
          if first =? fst cur then rm first
          else match split_at (snd cur) d with
               | None => (d, Err ValueError)            (* token_store.get_next(current.last_token) *)
               | Some (_, _, after) => rm (if touches true after then fst cur else first)
               end
      end
  | SRight =>
      match st_get_prev pivot d with
      | Err e => (d, Err e)
      | Ok None => (d, Err AssertionError)
      | Ok (Some last) =>
          let rm (l : Z) := match st_remove (fst cur) l d with Ok d' => (d', Ok tt) | Err e => (d, Err e) end in
          if last =? snd cur then rm last
          else match split_at (fst cur) d with
               | None => (d, Err ValueError)            (* token_store.get_prev(current.first_token) *)
               | Some (before, _, _) => rm (if touches false (rev before) then snd cur else last)
               end
      end
  end.
End Slot.

(* replace_node(node, repl); `same` models `node is repl` *)
Definition replace_node (d : doc) (cur : item) (same : bool) (v : donor) : doc * list donor * res unit :=
  if same then (d, [v], Ok tt)
  else
    match detach v with
    | Err e => (d, [v], Err e)
    | Ok (ts, v') =>
        match st_splice ts (fst cur) (snd cur) d with
        | Err e => (d, [v'], Err e)
        | Ok d' => (d', [v'], Ok tt)
        end
    end.

(* a slot state: document + current child *)
Record slot := mkslot { sl_doc : doc; sl_cur : option item }.

(* required_node_property.__set__(instance, value) *)
Definition required_set (s : slot) (same : bool) (v : donor) : slot * list donor * res unit :=
  match sl_cur s with
  | None => (s, [v], Err AssertionError)
  | Some cur =>
      match replace_node (sl_doc s) cur same v with
      | (d', dl, Err e) => (mkslot d' (sl_cur s), dl, Err e)
      | (d', dl, Ok _) => (mkslot d' (Some (node_item v)), dl, Ok tt)
      end
  end.

(* optional_node_property.__set__(instance, value) *)
Definition optional_set (sd : side) (seps : list (kind * str)) (s : slot) (pivot : Z) (same : bool)
           (value : option donor) (fr : Z) : slot * list donor * res unit :=
  match sl_cur s, value with
  | None, Some v =>
      match create_node sd seps (sl_doc s) pivot v fr with
      | (d', dl, Err e) => (mkslot d' None, dl, Err e)
      | (d', dl, Ok _) => (mkslot d' (Some (node_item v)), dl, Ok tt)
      end
  | Some cur, None =>
      match remove_node sd (sl_doc s) pivot cur with
      | (d', Err e) => (mkslot d' (Some cur), [], Err e)
      | (d', Ok _) => (mkslot d' None, [], Ok tt)
      end
  | Some cur, Some v =>
      match replace_node (sl_doc s) cur same v with
      | (d', dl, Err e) => (mkslot d' (Some cur), dl, Err e)
      | (d', dl, Ok _) => (mkslot d' (Some (node_item v)), dl, Ok tt)
      end
  | None, None => (s, [], Ok tt)
  end.
