(* Separation (for C06): when the field's separators contain visible text, every item stays separated
   from the item before it (the first one from what precedes the field, when separators_before has
   visible text) by at least one non-empty separator token.  Tight fields (separators = ()) demand
   nothing. *)
From AB Require Import Prelude PySeq RepeatedLib Repeated Fields RepeatedProofs RepeatedLayout RepeatedInsert RepeatedCells.
From Coq Require Import ZifyBool.

Definition nonempty_text (s : str) : bool := match s with [] => false | _ => true end.
(* the gap contains at least one token with text *)
Definition vis (l : list tok) : bool := existsb (fun t => nonempty_text (ttext t)) l.
Definition has_vis (s : list (kind * str)) : bool := existsb (fun p => nonempty_text (snd p)) s.

Section Sep.
Variables seps sepsb : list (kind * str).

Definition gap_ok (c : cell) : Prop := has_vis seps = true -> vis (c_gap c) = true.
Definition gap0_ok (c : cell) : Prop := has_vis sepsb = true -> vis (c_gap c) = true.
Definition Sep (cs : list cell) : Prop :=
  match cs with [] => True | c0 :: r => gap0_ok c0 /\ Forall gap_ok r end.

Lemma vis_mk_seps : forall s fr, vis (mk_seps fr s) = has_vis s.
Proof. induction s as [|[k t] r IH]; intros fr; [reflexivity|]. cbn. now rewrite IH. Qed.

Lemma gap_ok_cells1 : forall vs fr, Forall gap_ok (cells1 seps fr vs).
Proof.
  induction vs as [|v r IH]; intros fr; [constructor|]. cbn [cells1]. constructor; [|apply IH].
  intros H. cbn [c_gap]. now rewrite vis_mk_seps.
Qed.

Lemma shift_shape : forall vs g fr body, exists x rest, shift seps g fr vs body = mkcell g x :: rest /\ Forall gap_ok rest.
Proof.
  induction vs as [|v r IH]; intros g fr body.
  - exists body, []. split; [reflexivity|constructor].
  - destruct (IH (mk_seps fr seps) (fr + nseps seps) body) as (x & rest & E & F).
    exists (d_store v), (mkcell (mk_seps fr seps) x :: rest). cbn [shift]. rewrite E. split; [reflexivity|].
    constructor; [|exact F]. intros H. cbn [c_gap]. now rewrite vis_mk_seps.
Qed.

Lemma vis_app : forall a b, vis (a ++ b) = vis a || vis b.
Proof. intros. unfold vis. apply existsb_app. Qed.

Theorem Sep_del : forall A M B post, Sep (A ++ M ++ B) -> Sep (del_res A M B post).
Proof.
  intros A M B post H. destruct A as [|a A].
  - destruct M as [|m0 M']; [exact H|]. destruct B as [|b0 B']; [exact I|].
    cbn [app del_res Sep] in *. destruct H as [H0 HF]. split; [exact H0|].
    apply Forall_app in HF. destruct HF as [_ HF]. exact (Forall_inv_tail HF).
  - rewrite del_res_front.
    assert (Gen : Sep ((a :: A) ++ B)).
    { cbn [app Sep] in *. destruct H as [H0 HF]. split; [exact H0|].
      apply Forall_app in HF. destruct HF as [HA HF]. apply Forall_app in HF. destruct HF as [_ HB].
      apply Forall_app. now split. }
    destruct M as [|m0 M']; [exact Gen|]. destruct B as [|b0 B']; [exact Gen|].
    destruct (keep_gap _ _); [|exact Gen].
    cbn [app Sep] in *. destruct Gen as [H0 HF]. split; [exact H0|].
    apply Forall_app in HF. destruct HF as [HA HB]. apply Forall_app. split; [exact HA|].
    constructor; [|exact (Forall_inv_tail HB)].
    intros Hv. cbn [c_gap]. rewrite vis_app, (Forall_inv HB Hv). apply orb_true_r.
Qed.

(* what the repaired _del_tokens is for: when the gap in front of the removed items stays (RepeatedProofs.keep_gap:
   it is not empty, all blank, and the item behind the window is written right against the removed one), the item
   behind the window gets it in front of its own gap - whatever its own gap was (`"s"2`: empty).  So if the removed
   item was kept apart from the previous one by visible text, the item that follows it now is too, without any
   hypothesis on its own gap *)
Theorem del_glued_keeps_gap : forall ph pre pht a A m0 M' b0 B' post,
  WF ph pre pht ((a :: A) ++ (m0 :: M') ++ b0 :: B') post ->
  keep_gap (c_gap m0) (flat (b0 :: B') ++ post) = true ->
  exists c,
    (del_tokens ph (lay pre pht ((a :: A) ++ (m0 :: M') ++ b0 :: B') post)
               (map item_of ((a :: A) ++ (m0 :: M') ++ b0 :: B')) (zlen (a :: A)) (zlen (a :: A) + zlen (m0 :: M'))
     = (lay pre pht ((a :: A) ++ c :: B') post, Ok tt)) /\
    c_body c = c_body b0 /\ c_gap c = c_gap m0 ++ c_gap b0 /\
    c_gap m0 <> [] /\ forallb blank_tok (c_gap m0) = true /\
    (vis (c_gap m0) = true -> vis (c_gap c) = true) /\
    (gap_ok m0 -> gap_ok c).
Proof.
  intros ph pre pht a A m0 M' b0 B' post Hwf Hk.
  exists (mkcell (c_gap m0 ++ c_gap b0) (c_body b0)). split; [|split; [reflexivity|split; [reflexivity|]]].
  - rewrite (del_layout ph pre pht (a :: A) (m0 :: M') (b0 :: B') post Hwf ltac:(discriminate)).
    cbn [del_res]. rewrite Hk. reflexivity.
  - unfold keep_gap in Hk. destruct (c_gap m0) as [|g0 G'] eqn:Eg; [discriminate|].
    apply andb_true_iff in Hk. destruct Hk as [_ Hb].
    split; [discriminate|]. split; [exact Hb|]. cbn [c_gap]. split.
    + intros Hv. rewrite vis_app, Hv. reflexivity.
    + intros Hm Hs. cbn [c_gap]. rewrite vis_app. unfold gap_ok in Hm. rewrite Eg in Hm. rewrite (Hm Hs). reflexivity.
Qed.

Lemma keep_gap_shows : forall g G Z n Q,
  Forall (fun t => ttext t = []) Z -> shows true n = true -> forallb blank_tok (g :: G) = true ->
  keep_gap (g :: G) (Z ++ n :: Q) = true.
Proof.
  intros g G Z n Q HZ Hn Hb. unfold keep_gap. rewrite Hb, touches_next_eq.
  rewrite (touches_skip true Z n Q HZ Hn). reflexivity.
Qed.

Theorem Sep_ins : forall A B fr vs, Sep (A ++ B) -> Sep (ins_res seps sepsb A B fr vs).
Proof.
  intros A B fr vs H. destruct A as [|a A].
  - destruct B as [|b0 B'].
    + cbn [ins_res]. destruct vs as [|v r]; [exact I|]. cbn [cells3 Sep]. split.
      * intros Hv. cbn [c_gap]. now rewrite vis_mk_seps.
      * apply gap_ok_cells1.
    + cbn [ins_res app Sep] in *. destruct H as [H0 HF].
      destruct (shift_shape vs (c_gap b0) fr (c_body b0)) as (x & rest & E & F). rewrite E. cbn [app Sep].
      split; [exact H0|]. apply Forall_app. now split.
  - cbn [ins_res app Sep] in *. destruct H as [H0 HF]. split; [exact H0|].
    apply Forall_app in HF. destruct HF as [HA HB]. apply Forall_app. split; [exact HA|].
    apply Forall_app. split; [apply gap_ok_cells1|exact HB].
Qed.

(* replacing the body of one item keeps every gap *)
Theorem Sep_set : forall A c B body, Sep (A ++ c :: B) -> Sep (A ++ mkcell (c_gap c) body :: B).
Proof.
  intros A c B body H. destruct A as [|a A]; cbn [app Sep] in *.
  - exact H.
  - destruct H as [H0 HF]. split; [exact H0|]. apply Forall_app in HF. destruct HF as [HA HB].
    apply Forall_app. split; [exact HA|]. constructor; [exact (Forall_inv HB)|exact (Forall_inv_tail HB)].
Qed.

End Sep.

(* separators = (): nothing is demanded of the gaps between items *)
Lemma Sep_tight : forall cs, Sep [] [] cs.
Proof.
  intros [|c0 r]; [exact I|]. split; [intro Hv; discriminate|].
  apply Forall_forall. intros c _ Hv. discriminate.
Qed.

(* ---- the repaired finding C06:list-item-removed-next-to-glued-item ------------------------------------------
   Sep is a hypothesis a parsed document need not meet: `custom "x" 1 "s"2` is accepted although no separator stands
   between "s" and 2 (cell of `2`: empty gap).  _del_tokens used to remove the gap and the body of the deleted cell
   and nothing else, so the bodies of the two neighbours - kept apart by the blank and the deleted item before - were
   adjacent tokens afterwards (`1` `2`, which lex as `12`).  As repaired the blank in front of the deleted `"s"` (token
   5) stays: `1 2`. *)
Definition glued_doc : doc :=
  [mktok 1 KOther [34;120;34]; mktok 2 KPlaceholder []; mktok 3 KWhitespace [32]; mktok 4 KOther [49];
   mktok 5 KWhitespace [32]; mktok 6 KOther [34;115;34]; mktok 7 KOther [50]; mktok 8 KNewline [10]].
Definition glued_items : list item := [(4, 4); (6, 6); (7, 7)].

Theorem del_keeps_blank_before_glued_item :
  layout_b 2 glued_doc glued_items = true /\
  (exists pre pht a m b post, glued_doc = lay pre pht [a; m; b] post /\ vis (c_gap m) = true /\ c_gap b = [] /\
     ~ Sep [(KWhitespace, [32])] [(KWhitespace, [32])] [a; m; b] /\
     keep_gap (c_gap m) (flat [b] ++ post) = true) /\
  fst (del_tokens 2 glued_doc glued_items 1 2) =
    [mktok 1 KOther [34;120;34]; mktok 2 KPlaceholder []; mktok 3 KWhitespace [32]; mktok 4 KOther [49];
     mktok 5 KWhitespace [32]; mktok 7 KOther [50]; mktok 8 KNewline [10]] /\
  snd (del_tokens 2 glued_doc glued_items 1 2) = Ok tt /\
  layout_b 2 (fst (del_tokens 2 glued_doc glued_items 1 2)) [(4, 4); (7, 7)] = true.
Proof.
  split; [vm_compute; reflexivity|]. split; [|split; [|split]; vm_compute; reflexivity].
  exists [mktok 1 KOther [34;120;34]], (mktok 2 KPlaceholder []),
    (mkcell [mktok 3 KWhitespace [32]] [mktok 4 KOther [49]]),
    (mkcell [mktok 5 KWhitespace [32]] [mktok 6 KOther [34;115;34]]),
    (mkcell [] [mktok 7 KOther [50]]), [mktok 8 KNewline [10]].
  split; [reflexivity|]. split; [reflexivity|]. split; [reflexivity|]. split; [|vm_compute; reflexivity].
  intros [_ HF]. inversion HF as [|x l _ HF2]; subst. inversion HF2 as [|y l2 Hb _]; subst.
  specialize (Hb eq_refl). discriminate Hb.
Qed.
