(* The generated `from_children` (modelgen's raw_model.mako) over class descriptors: given one
   free-standing child per field, lay the children's tokens out as `c_layout` says, with fresh
   separator tokens exactly as fields.py / repeated.py do, make one new store of them and re-attach
   the children to it.

     tokens = [ *cls._f.detach_with_separators(f), *g.detach(), Whitespace.from_default(), ... ]
     token_store = TokenStore.from_tokens(tokens); cls._f.reattach(f, token_store); ...
     return cls(token_store, f, g, ...)

   - required_field.detach_with_separators(v)       = v.detach()
   - optional_left_field ...(v)  = [*deepcopy(separators), *v.detach()] if v is not None else []
   - optional_right_field ...(v) = [*v.detach(), *deepcopy(separators)] if v is not None else []
   - repeated_field ...(rep) = rep.detach() where rep = Repeated.from_children(items, separators,
     separators_before): [placeholder] then per item (separators_before for item 0 if given, else
     separators) + item.detach(); items re-attached to the Repeated's own store (`mid`), and again
     to the final store by cls._f.reattach.
   `v.detach()` of a self-contained child is the list of its store = its `.tokens` (node_toks).
   The `.tokens` of the result is the store from its first_token to its last_token (base.py).
   Fresh tokens take identities next, next+1, ... Children in the result are listed in layout order
   (= declaration order for a class that follows the scheme: wf_desc's layout_ok).
   Definitions only; proofs in ConstructProofs.v. *)
From AB Require Import Desc Tree TreeDefs TreeWF.
From Coq Require Import ZArith List Bool Ascii.
Import ListNotations.
Open Scope list_scope.

Inductive arg :=
| AReq (n : node)
| AOpt (o : option node)
| ARep (items : list node).

Definition nl_string : string := String (ascii_of_nat 10) EmptyString.
(* Whitespace / Newline / Comma .from_default(): the three separator token classes (translate/gen.py SEP_TEXT) *)
Definition sep_rule (text : string) : string :=
  if String.eqb text "," then "_COMMA"
  else if String.eqb text nl_string then "_NEWLINE" else "WHITESPACE".

Fixpoint fresh_toks (next : Z) (texts : list string) : list tk :=
  match texts with
  | [] => []
  | x :: r => mktk next (sep_rule x) x :: fresh_toks (next + 1)%Z r
  end.

(* a stretch of the new store: glue tokens, or one child with the separators put before/after it *)
Inductive seg :=
| SGlue (ts : list tk)
| SKid (name : string) (sl : slot) (pre post : list tk).

Definition slot_own (sl : slot) : list tk := concat (slot_units sl).
Definition seg_toks (s : seg) : list tk :=
  match s with
  | SGlue ts => ts
  | SKid _ sl pre post => pre ++ slot_own sl ++ post
  end.
Fixpoint seg_kids (segs : list seg) : list (string * slot) :=
  match segs with
  | [] => []
  | SGlue _ :: r => seg_kids r
  | SKid n sl _ _ :: r => (n, sl) :: seg_kids r
  end.

Fixpoint find_field (fs : list fdesc) (n : string) : option fkind :=
  match fs with [] => None | f :: r => if String.eqb (f_name f) n then Some (f_kind f) else find_field r n end.

Section Construct.
Variable cs : classes_t.
Variable new mid : Z.       (* ids of the new store and of the Repeated's intermediate store *)

Definition item_final (x : node) : node := reattach cs new (reattach cs mid x).

(* Repeated.from_children: the stretches after the placeholder *)
Fixpoint rep_segs (next : Z) (first_seps seps : list string) (items : list node) : list seg * Z :=
  match items with
  | [] => ([], next)
  | x :: r =>
    let (rest, n') := rep_segs (next + Z.of_nat (length first_seps))%Z seps seps r in
    (SKid "item" (SReq (item_final x)) (fresh_toks next first_seps) [] :: rest, n')
  end.

Definition rep_all_segs (next : Z) (seps : list string) (sb : option (list string)) (items : list node)
  : tk * list seg * Z :=
  let ph := mktk next "PLACEHOLDER" "" in
  let (rest, n') := rep_segs (next + 1)%Z (match sb with Some b => b | None => seps end) seps items in
  (ph, SKid "placeholder" (SReq (Leaf ph)) [] [] :: rest, n').

Definition field_seg (k : fkind) (f : string) (a : arg) (next : Z) : option (seg * Z) :=
  match k, a with
  | FReq, AReq n => Some (SKid f (SReq (reattach cs new n)) [] [], next)
  | FOptL _, AOpt None => Some (SKid f (SOpt None) [] [], next)
  | FOptR _, AOpt None => Some (SKid f (SOpt None) [] [], next)
  | FOptL seps, AOpt (Some n) =>
    Some (SKid f (SOpt (Some (reattach cs new n))) (fresh_toks next seps) [], (next + Z.of_nat (length seps))%Z)
  | FOptR seps, AOpt (Some n) =>
    Some (SKid f (SOpt (Some (reattach cs new n))) [] (fresh_toks next seps), (next + Z.of_nat (length seps))%Z)
  | FRep seps sb, ARep items =>
    match rep_all_segs next seps sb items with
    | (ph, rsegs, n') =>
      Some (SKid f (SRep new (flat_map seg_toks rsegs) ph (map item_final items)) [] [], n')
    end
  | _, _ => None
  end.

Definition lay_field (l : lay) : option string :=
  match l with LSeps f => Some f | LDetach a => Some ("_" ++ a)%string | LLit _ => None end.

Section WithClass.
Variable c : cdesc.
Variable args : list (string * arg).

Definition lay_seg (l : lay) (next : Z) : option (seg * Z) :=
  match lay_field l with
  | None => match l with
            | LLit text => Some (SGlue [mktk next (sep_rule text) text], (next + 1)%Z)
            | _ => None
            end
  | Some f =>
    match find_field (c_fields c) f, lookup f args with
    | Some k, Some a => field_seg k f a next
    | _, _ => None
    end
  end.

Fixpoint build (l : list lay) (next : Z) : option (list seg) :=
  match l with
  | [] => Some []
  | x :: r =>
    match lay_seg x next with
    | None => None
    | Some (s, n') => match build r n' with None => None | Some segs => Some (s :: segs) end
    end
  end.

(* base.RawModel.tokens: list(token_store.iter(first_token, last_token)) *)
Definition span_toks (store : list tk) (first last : option tk) : list tk :=
  match first, last with
  | Some x, Some y =>
    match find_off x store, find_off y store with
    | Some a, Some b => slice store a (S b)
    | _, _ => []
    end
  | _, _ => []
  end.

Definition construct (data : list (string * string)) (next : Z) : option (list tk * node) :=
  match c_layout c with
  | None => None
  | Some l =>
    match build l next with
    | None => None
    | Some segs =>
      let store := flat_map seg_toks segs in
      let kids := seg_kids segs in
      let fuel := S (S (kids_depth (slot_depth depth) kids)) in
      let probe := Tree (c_name c) new [] kids data in
      Some (store,
            Tree (c_name c) new
                 (span_toks store (border cs fuel SFirst probe) (border cs fuel SLast probe))
                 kids data)
    end
  end.
End WithClass.
End Construct.

(* ---- the token texts a from_children call is specified to give, in order ---------------------- *)
Definition texts (l : list tk) : list string := map k_text l.
Fixpoint rep_texts (first_seps seps : list string) (items : list node) : list string :=
  match items with
  | [] => []
  | x :: r => first_seps ++ texts (node_toks x) ++ rep_texts seps seps r
  end.
Definition field_texts (k : fkind) (a : arg) : list string :=
  match k, a with
  | FReq, AReq n => texts (node_toks n)
  | FOptL seps, AOpt (Some n) => seps ++ texts (node_toks n)
  | FOptR seps, AOpt (Some n) => texts (node_toks n) ++ seps
  | FRep seps sb, ARep items =>
    EmptyString :: rep_texts (match sb with Some b => b | None => seps end) seps items   (* placeholder *)
  | _, _ => []
  end.
Definition lay_texts (c : cdesc) (args : list (string * arg)) (l : lay) : list string :=
  match l with
  | LLit text => [text]
  | _ => match lay_field l with
         | Some f => match find_field (c_fields c) f, lookup f args with
                     | Some k, Some a => field_texts k a
                     | _, _ => []
                     end
         | None => []
         end
  end.
Definition spec_texts (c : cdesc) (args : list (string * arg)) : list string :=
  match c_layout c with Some l => flat_map (lay_texts c args) l | None => [] end.
Definition cat (l : list string) : string := fold_right String.append EmptyString l.
