(* Definitions used to state and prove the theorems about the generic tree model (Tree.v):
   named versions of the local functions of Tree.v (so that lemmas can talk about them), the
   well-formedness predicates on nodes (`keys_ok`, `conforms`), and the part of `wf_desc` that the
   tree functions depend on (`wf_tree`). Definitions only; the proofs are in TreeProofs*.v. *)
From AB Require Import Desc Tree.
From Coq Require Import ZArith List Bool.
Import ListNotations.
Open Scope list_scope.

Definition names (c : cdesc) : list string := map f_name (c_fields c).
Definition mem (n : string) (l : list string) : bool := existsb (String.eqb n) l.

(* The part of wf_desc the tree functions depend on: clone / _reattach / _eq / first_token /
   last_token use exactly the declared fields. (The hand-written NumberAddExpr/NumberMulExpr
   descriptors of TreeRun.v satisfy this but not the layout/claim parts of wf_desc.) *)
Definition wf_tree (c : cdesc) : bool :=
  names_eqb (c_clone c) (names c) && names_eqb (c_clone_data c) (c_data c)
  && names_eqb (c_reattach c) (names c) && c_reattach_store c
  && String.eqb (c_eq_isinstance c) (c_name c)
  && names_eqb (c_eq c) (names c) && names_eqb (c_eq_data c) (c_data c)
  && chain_eqb (c_first c) (scheme_first (c_fields c))
  && chain_eqb (c_last c) (scheme_last (c_fields c)).

Definition classes_ok (cs : classes_t) : Prop := forall c, In c cs -> wf_tree c = true.

(* ---- generic combinators over kids / slots --------------------------------------------------- *)
Definition kids_all (p : slot -> bool) : list (string * slot) -> bool :=
  fix go (ks : list (string * slot)) : bool :=
    match ks with [] => true | (_, sl) :: r => p sl && go r end.
Definition slot_all (p : node -> bool) (sl : slot) : bool :=
  match sl with
  | SReq x => p x
  | SOpt None => true
  | SOpt (Some x) => p x
  | SRep _ _ _ items => forallb p items
  | SSeq items => forallb p items
  end.
Definition kids_flat {A} (g : slot -> list A) : list (string * slot) -> list A :=
  fix go (ks : list (string * slot)) : list A :=
    match ks with [] => [] | (_, sl) :: r => g sl ++ go r end.

(* ---- named pieces of node_eq ------------------------------------------------------------------ *)
Section Eq.
Variable eq : node -> node -> bool.
Definition items_eq : list node -> list node -> bool :=
  fix items (l1 l2 : list node) : bool :=
    match l1, l2 with
    | [], [] => true
    | x :: r1, y :: r2 => eq x y && items r1 r2
    | _, _ => false
    end.
(* equality of two children of the same field: the sub-call of node_eq *)
Definition slot_eq (sa sb : slot) : bool :=
  match sa, sb with
  | SReq x, SReq y => eq x y
  | SOpt None, SOpt None => true
  | SOpt (Some x), SOpt (Some y) => eq x y
  | SRep _ t1 _ i1, SRep _ t2 _ i2 => toks_eqb t1 t2 && items_eq i1 i2
  | SSeq i1, SSeq i2 => items_eq i1 i2
  | _, _ => false
  end.
Definition fields_eq (sel : list string) (kb : list (string * slot)) : list (string * slot) -> bool :=
  fix fields (ks : list (string * slot)) : bool :=
    match ks with
    | [] => true
    | (n, sa) :: r =>
      (if existsb (String.eqb n) sel then
         match kid kb n with
         | Some sb => slot_eq sa sb
         | None => false
         end
       else true) && fields r
    end.
Definition present (ka kb : list (string * slot)) (n : string) : bool :=
  match kid ka n, kid kb n with Some _, Some _ => true | _, _ => false end.
(* "both nodes have the field and the two children are slot-equal" *)
Definition field_rel (ka kb : list (string * slot)) (n : string) : Prop :=
  exists sa sb, kid ka n = Some sa /\ kid kb n = Some sb /\ slot_eq sa sb = true.
End Eq.

(* ---- named pieces of leaves / sids / reattach / clone ----------------------------------------- *)
Definition slot_leaves (sl : slot) : list tk :=
  match sl with
  | SReq x => leaves x
  | SOpt None => []
  | SOpt (Some x) => leaves x
  | SRep _ _ ph items => ph :: flat_map leaves items
  | SSeq items => flat_map leaves items
  end.
Definition slot_sids (sl : slot) : list Z :=
  match sl with
  | SReq x => sids x
  | SOpt None => []
  | SOpt (Some x) => sids x
  | SRep s' _ _ items => s' :: flat_map sids items
  | SSeq items => flat_map sids items
  end.

Section Ops.
Variable cs : classes_t.
Definition slot_reattach (new : Z) (sl : slot) : slot :=
  match sl with
  | SReq x => SReq (reattach cs new x)
  | SOpt None => SOpt None
  | SOpt (Some x) => SOpt (Some (reattach cs new x))
  | SRep _ t ph items => SRep new t ph (map (reattach cs new) items)
  | SSeq items => SSeq (map (reattach cs new) items)
  end.
Definition kids_reattach (new : Z) (sel : list string) : list (string * slot) -> list (string * slot) :=
  fix go (ks : list (string * slot)) : list (string * slot) :=
    match ks with
    | [] => []
    | (name, sl) :: r =>
      (name, if existsb (String.eqb name) sel then slot_reattach new sl else sl) :: go r
    end.
Definition slot_clone (new : Z) (f : tk -> tk) (sl : slot) : slot :=
  match sl with
  | SReq x => SReq (clone cs new f x)
  | SOpt None => SOpt None
  | SOpt (Some x) => SOpt (Some (clone cs new f x))
  | SRep _ t ph items => SRep new (map f t) (f ph) (map (clone cs new f) items)
  | SSeq items => SSeq (map (clone cs new f) items)
  end.
Definition kids_clone (new : Z) (f : tk -> tk) (sel : list string) : list (string * slot) -> list (string * slot) :=
  fix go (ks : list (string * slot)) : list (string * slot) :=
    match ks with
    | [] => []
    | (name, sl) :: r =>
      if existsb (String.eqb name) sel then (name, slot_clone new f sl) :: go r else go r
    end.
End Ops.

(* ---- observations ----------------------------------------------------------------------------- *)
Definition node_toks (n : node) : list tk :=
  match n with Leaf t => [t] | Tree _ _ t _ _ => t end.
(* the printed text of a token list *)
Definition text_of (ts : list tk) : string := fold_right String.append EmptyString (map k_text ts).
(* the "type" of a model: the token RULE for tokens, the class name for tree models *)
Definition node_type (n : node) : string + string :=
  match n with Leaf t => inl (k_rule t) | Tree c _ _ _ _ => inr c end.
(* RawTokenModel.__hash__ = hash((RULE, raw_text)): the hashed key *)
Definition tk_hash_key (t : tk) : string * string := (k_rule t, k_text t).

(* ---- well-formed nodes ------------------------------------------------------------------------ *)
Fixpoint nodupb (l : list string) : bool :=
  match l with [] => true | x :: r => negb (mem x r) && nodupb r end.

(* no node has two children under the same field name *)
Fixpoint keys_ok (n : node) : bool :=
  match n with
  | Leaf _ => true
  | Tree _ _ _ kids _ => nodupb (map fst kids) && kids_all (slot_all keys_ok) kids
  end.

(* the slot of a field has the shape its declaration says (a required field holds a model, or a
   non-empty tuple for the number expressions; optional holds Optional[model]; repeated a Repeated) *)
Definition kind_ok (k : fkind) (sl : slot) : bool :=
  match k, sl with
  | FReq, SReq _ => true
  | FReq, SSeq (_ :: _) => true
  | FOptL _, SOpt _ => true
  | FOptR _, SOpt _ => true
  | FRep _ _, SRep _ _ _ _ => true
  | _, _ => false
  end.

Section Conf.
Variable cs : classes_t.
(* every node's class is in cs; its children are exactly the declared fields (each once, each of
   the declared kind); hereditarily *)
Fixpoint conforms (n : node) : bool :=
  match n with
  | Leaf _ => true
  | Tree c _ _ kids _ =>
    match find_class cs c with
    | None => false
    | Some d =>
      forallb (fun f => match kid kids (f_name f) with
                        | Some sl => kind_ok (f_kind f) sl
                        | None => false end) (c_fields d)
      && forallb (fun k => mem k (names d)) (map fst kids)
      && nodupb (map fst kids)
      && kids_all (slot_all conforms) kids
    end
  end.
End Conf.

(* some declared field is not optional (so first_token / last_token always find a token) *)
Definition has_anchor (c : cdesc) : bool :=
  existsb (fun f => negb (is_opt (f_kind f))) (c_fields c).

Definition max_list (l : list nat) : nat := fold_right Nat.max 0 l.
Definition kids_depth (g : slot -> nat) : list (string * slot) -> nat :=
  fix go (ks : list (string * slot)) : nat :=
    match ks with [] => 0 | (_, sl) :: r => Nat.max (g sl) (go r) end.
Definition items_depth (g : node -> nat) : list node -> nat :=
  fix go (l : list node) : nat :=
    match l with [] => 0 | x :: r => Nat.max (g x) (go r) end.
Definition slot_depth (g : node -> nat) (sl : slot) : nat :=
  match sl with
  | SReq x => g x
  | SOpt None => 0
  | SOpt (Some x) => g x
  | SRep _ _ _ items => items_depth g items
  | SSeq items => items_depth g items
  end.
Fixpoint depth (n : node) : nat :=
  match n with
  | Leaf _ => 0
  | Tree _ _ _ kids _ => S (kids_depth (slot_depth depth) kids)
  end.
