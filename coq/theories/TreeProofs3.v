(* Proofs about the generic tree model, part 3: first_token / last_token (C05).
   For a conforming node over classes that follow the scheme, the extracted `or`-chains always
   reach a token, and that token is one of the node's own leaves. *)
From AB Require Import Desc Tree TreeDefs TreeProofs TreeProofs2.
From Coq Require Import ZArith List Bool Lia.
Import ListNotations.
Open Scope list_scope.

Lemma kids_depth_In : forall g (ks : list (string * slot)) k sl, In (k, sl) ks -> g sl <= kids_depth g ks.
Proof.
  intros g ks k sl. induction ks as [|[k0 sl0] ks IH]; simpl; intro H; try contradiction.
  destruct H as [E|H].
  - inversion E. subst. lia.
  - specialize (IH H). lia.
Qed.

Lemma items_depth_In : forall g (l : list node) x, In x l -> g x <= items_depth g l.
Proof.
  intros g l x. induction l as [|y l IH]; simpl; intro H; try contradiction.
  destruct H as [E|H].
  - subst. lia.
  - specialize (IH H). lia.
Qed.

Lemma existsb_rev : forall {A} (p : A -> bool) l, existsb p l = true -> existsb p (rev l) = true.
Proof.
  intros A p l H. apply existsb_exists in H. destruct H as (x & Hin & Hp).
  apply existsb_exists. exists x. split; auto. apply -> in_rev. exact Hin.
Qed.

Lemma rev_head_In : forall {A} (l : list A) y r, rev l = y :: r -> In y l.
Proof. intros A l y r H. apply in_rev. rewrite H. left. reflexivity. Qed.

Lemma rev_nil_inv : forall {A} (l : list A), rev l = [] -> l = [].
Proof. intros A l H. rewrite <- (rev_involutive l), H. reflexivity. Qed.

Lemma border_tree : forall cs f sd c s t kids d,
  border cs (S f) sd (Tree c s t kids d) =
  match find_class cs c with
  | None => None
  | Some dd =>
    eval_chain (fun name s' => match kid kids name with
                               | Some sl => slot_border (border cs f s') s' sl
                               | None => None end)
               (match sd with SFirst => c_first dd | SLast => c_last dd end)
  end.
Proof. reflexivity. Qed.

Definition classes_anchored (cs : classes_t) : Prop := forall c, In c cs -> has_anchor c = true.

Section Border.
Variable cs : classes_t.
Hypothesis Hok : classes_ok cs.
Hypothesis Hanch : classes_anchored cs.

Definition slot_good (fuel : nat) (sd : side) (sl : slot) : Prop :=
  exists r, slot_border (border cs fuel sd) sd sl = Some r
            /\ match r with Some t => In t (slot_leaves sl) | None => sl = SOpt None end.

Lemma eval_scheme : forall kids fuel sd fs,
  (forall f, In f fs -> exists sl, kid kids (f_name f) = Some sl
                                   /\ kind_ok (f_kind f) sl = true /\ slot_good fuel sd sl) ->
  existsb (fun f => negb (is_opt (f_kind f))) fs = true ->
  exists t,
    eval_chain (fun name s' => match kid kids name with
                               | Some sl => slot_border (border cs fuel s') s' sl
                               | None => None end) (scheme_chain sd fs) = Some t
    /\ In t (kids_flat slot_leaves kids).
Proof.
  intros kids fuel sd fs. induction fs as [|f fs IH]; intros Hall Hex; simpl in Hex; try discriminate.
  destruct (Hall f (or_introl eq_refl)) as (sl & Hkid & Hkind & r & Hb & Hr).
  assert (Hleaf : forall t, In t (slot_leaves sl) -> In t (kids_flat slot_leaves kids)).
  { intros t Ht. apply In_kids_flat. exists (f_name f), sl. split; auto. apply kid_In. exact Hkid. }
  simpl. destruct (f_kind f) eqn:Ek; simpl; rewrite Hkid, Hb.
  - destruct r as [t|]; [eauto|]. subst sl. discriminate.
  - destruct r as [t|]; [eauto|]. apply IH; auto. intros g Hg. apply Hall. right. exact Hg.
  - destruct r as [t|]; [eauto|]. apply IH; auto. intros g Hg. apply Hall. right. exact Hg.
  - destruct r as [t|]; [eauto|]. subst sl. discriminate.
Qed.

Lemma border_total : forall n fuel sd, depth n < fuel -> conforms cs n = true ->
  exists t, border cs fuel sd n = Some t /\ In t (leaves n).
Proof.
  intros n.
  apply (node_ind2
    (fun n => forall fuel sd, depth n < fuel -> conforms cs n = true ->
              exists t, border cs fuel sd n = Some t /\ In t (leaves n))
    (fun sl => forall fuel sd, slot_depth depth sl < fuel -> slot_all (conforms cs) sl = true ->
               sl <> SSeq [] -> slot_good fuel sd sl)); clear n.
  - intros t [|fuel] sd Hd _; [inversion Hd|]. exists t. simpl. auto.
  - intros c s t kids d IH [|fuel] sd Hd H; [inversion Hd|].
    destruct (conforms_parts _ _ _ _ _ _ H) as (dd & Hc & Hf & _ & _ & Hk).
    destruct (classes_ok_find _ _ _ Hok Hc) as [_ _ _ _ _ _ _ Hfirst Hlast].
    pose proof (Hanch dd (proj1 (find_class_In _ _ _ Hc))) as Ha. unfold has_anchor in Ha.
    rewrite border_tree, Hc, leaves_tree. simpl in Hd.
    assert (Hgood : forall sd' f, In f (c_fields dd) ->
              exists sl, kid kids (f_name f) = Some sl
                         /\ kind_ok (f_kind f) sl = true /\ slot_good fuel sd' sl).
    { intros sd' f Hin. destruct (Hf f Hin) as (sl & Hsl & Hkind). exists sl. repeat split; auto.
      pose proof (kid_In _ _ _ Hsl) as Hin'.
      pose proof (Forall_kids_In _ _ _ _ IH Hin') as HQ. simpl in HQ. apply HQ.
      - pose proof (kids_depth_In (slot_depth depth) _ _ _ Hin'). lia.
      - apply (Hk _ _ Hin').
      - intro E. subst sl. destruct (f_kind f); discriminate. }
    destruct sd.
    + rewrite Hfirst. unfold scheme_first. apply eval_scheme; auto.
    + rewrite Hlast. unfold scheme_last. apply eval_scheme.
      * intros f Hin. apply Hgood. apply in_rev. exact Hin.
      * apply existsb_rev. exact Ha.
  - intros n IH fuel sd Hd H _. simpl in Hd, H. destruct (IH fuel sd Hd H) as (t & Hb & Ht).
    exists (Some t). simpl. rewrite Hb. auto.
  - intros fuel sd _ _ _. exists None. simpl. auto.
  - intros n IH fuel sd Hd H _. simpl in Hd, H. destruct (IH fuel sd Hd H) as (t & Hb & Ht).
    exists (Some t). simpl. rewrite Hb. auto.
  - intros s t ph items IH fuel sd Hd H _. simpl in Hd, H. unfold slot_good. simpl.
    destruct sd.
    + exists (Some ph). auto.
    + destruct (rev items) as [|y r] eqn:Er.
      * exists (Some ph). auto.
      * pose proof (rev_head_In _ _ _ Er) as Hy.
        rewrite Forall_forall in IH. rewrite forallb_forall in H.
        pose proof (items_depth_In depth _ _ Hy).
        destruct (IH y Hy fuel SLast) as (t' & Hb & Ht); [lia | auto |].
        exists (Some t'). rewrite Hb. split; auto. right. apply in_flat_map. eauto.
  - intros items IH fuel sd Hd H Hne. simpl in Hd, H. unfold slot_good. simpl.
    rewrite Forall_forall in IH. rewrite forallb_forall in H.
    destruct sd.
    + destruct items as [|y r]; [congruence|].
      pose proof (items_depth_In depth (y :: r) y (or_introl eq_refl)).
      destruct (IH y (or_introl eq_refl) fuel SFirst) as (t' & Hb & Ht); [lia | apply H; left; reflexivity |].
      exists (Some t'). rewrite Hb. split; auto. apply in_flat_map. exists y. split; auto. left. reflexivity.
    + destruct (rev items) as [|y r] eqn:Er.
      * apply rev_nil_inv in Er. subst. congruence.
      * pose proof (rev_head_In _ _ _ Er) as Hy.
        pose proof (items_depth_In depth _ _ Hy).
        destruct (IH y Hy fuel SLast) as (t' & Hb & Ht); [lia | auto |].
        exists (Some t'). rewrite Hb. split; auto. apply in_flat_map. eauto.
Qed.
End Border.
