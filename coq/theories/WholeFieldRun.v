(* Executable glue for the whole-field correspondence (harness/wholefield.py, called from harness/c10.py):
   a case = the instances of a parsed document (items of one repeated field each, property class) and a history of
   WholeField.wop, each with what the implementation showed afterwards:
     - exception class / what was returned (which wrapper object, which view object, values),
     - for every wrapper object the harness holds: which Repeated it wraps (`.repeated`, by identity), whether it
       has the interleaving-comments methods, list(wrapper), and - when the private names exist - the `_raw_indexes`
       of the handlers in `_update_handlers`, in order,
     - for every view object the harness holds: list(view) (or the exception class),
     - for every instance - when observable - which Repeated its field holds, which wrapper its `__dict__` caches,
       which views its `__dict__` caches in dict order.
   check_case replays the history on WholeField.v (the code as it stands) and compares every step. *)
From AB Require Import Prelude PySeq Views ViewsRun WholeField.

Record obs_w := mkow { ow_id : Z; ow_rep : Z; ow_inter : bool; ow_items : list elem;
                       ow_idx : option (list (list Z)) }.
Record obs_v := mkov { ov_w : Z; ov_k : nat; ov_code : Z; ov_vals : list elem }.
Record obs_i := mkoi { oi_id : Z; oi_field : option Z; oi_wrapper : option (option Z);
                       oi_views : option (list (Z * vhandle)) }.
Record wobs := mkwobs { wo_code : Z; wo_ret : ret; wo_w : list obs_w; wo_v : list obs_v; wo_i : list obs_i }.
Record wcase := mkwcase { wc_init : list (list elem * bool); wc_steps : list (wop * wobs) }.

Definition EL := list elem.

Definition ret_eqb (a b : ret) : bool :=
  match a, b with
  | RNone, RNone => true
  | RW x, RW y => x =? y
  | RV x k, RV y j => (x =? y) && Nat.eqb k j
  | RL x, RL y => list_eqb elem_eqb x y
  | _, _ => false
  end.

Definition out_ok (r : res ret) (ob : wobs) : bool :=
  match r with
  | Ok x => (wo_code ob =? 0) && ret_eqb x (wo_ret ob)
  | Err e => wo_code ob =? exn_code e
  end.

Definition opt_ok {A} (eqb : A -> A -> bool) (observed : option A) (model : A) : bool :=
  match observed with None => true | Some x => eqb x model end.

Definition w_ok (h : heap) (o : obs_w) : bool :=
  match lookup (ow_id o) (h_wrps h) with
  | None => false
  | Some W =>
      (w_rep W =? ow_rep o) && Bool.eqb (w_inter W) (ow_inter o)
      && match lookup (w_rep W) (h_reps h) with
         | None => false
         | Some R => list_eqb elem_eqb (r_items R) (ow_items o)
         end
      && opt_ok (list_eqb (list_eqb Z.eqb)) (ow_idx o) (map v_idx (w_views W))
  end.

(* list(view): [from_raw(raw_wrapper[i]) for i in _raw_indexes] on the wrapper the view was built on *)
Definition v_ok (h : heap) (o : obs_v) : bool :=
  match lookup (ov_w o) (h_wrps h) with
  | None => false
  | Some W =>
      match nth_error (w_views W) (ov_k o), lookup (w_rep W) (h_reps h) with
      | Some v, Some R =>
          match fetch (v_kind v) (r_items R) (v_idx v) with
          | Ok l => (ov_code o =? 0) && list_eqb elem_eqb l (ov_vals o)
          | Err e => ov_code o =? exn_code e
          end
      | _, _ => false
      end
  end.

Definition oz_eqb (a b : option Z) : bool :=
  match a, b with Some x, Some y => x =? y | None, None => true | _, _ => false end.
Definition nv_eqb (a b : Z * vhandle) : bool := (fst a =? fst b) && vh_eqb (snd a) (snd b).

Definition i_ok (h : heap) (o : obs_i) : bool :=
  match lookup (oi_id o) (h_insts h) with
  | None => false
  | Some ins =>
      opt_ok Z.eqb (oi_field o) (i_field ins)
      && opt_ok oz_eqb (oi_wrapper o) (i_wrapper ins)
      && opt_ok (list_eqb nv_eqb) (oi_views o) (i_views ins)
  end.

Definition obs_ok (h : heap) (r : res ret) (ob : wobs) : bool :=
  out_ok r ob && forallb (w_ok h) (wo_w ob) && forallb (v_ok h) (wo_v ob) && forallb (i_ok h) (wo_i ob).

Fixpoint check_wsteps (var : variant) (h : heap) (steps : list (wop * wobs)) : bool :=
  match steps with
  | [] => true
  | (o, ob) :: r => let (h', out) := wstep var h o in obs_ok h' out ob && check_wsteps var h' r
  end.

(* the conclusion of C10_whole_field_views_follow, evaluated on the model's own states: every cached view of every
   instance is built on the cached wrapper, which wraps the field, and its cache is exact for the field's items *)
Definition agree_inst (h : heap) (e : Z * inst) : bool :=
  let ins := snd e in
  forallb (fun nv : Z * vhandle =>
             match i_wrapper ins, lookup (fst (snd nv)) (h_wrps h), lookup (i_field ins) (h_reps h) with
             | Some w, Some W, Some R =>
                 (w =? fst (snd nv)) && (w_rep W =? i_field ins)
                 && match nth_error (w_views W) (snd (snd nv)) with
                    | Some v => view_inv_b (r_items R) v
                    | None => false
                    end
             | _, _, _ => false
             end) (i_views ins).
Definition agree_b (h : heap) : bool := forallb (agree_inst h) (h_insts h).

Fixpoint agree_steps (var : variant) (h : heap) (steps : list (wop * wobs)) : bool :=
  match steps with
  | [] => true
  | (o, _) :: r => let h' := fst (wstep var h o) in agree_b h' && agree_steps var h' r
  end.

Definition check_corr (c : wcase) : bool := check_wsteps VRepaired (init_heap (wc_init c)) (wc_steps c).
Definition check_case (c : wcase) : bool :=
  check_corr c && agree_steps VRepaired (init_heap (wc_init c)) (wc_steps c).

(* which known change the implementation behaves like (used only to word a disagreement):
   1 keep views (as found), 2 drop first only (C10-m3), 3 cache first (C19-m5), 4 share empty copy (C11-m10),
   5 += raises (as found) *)
Definition variant_of (n : Z) : variant :=
  if n =? 1 then VKeepViews else if n =? 2 then VDropFirst else if n =? 3 then VCacheFirst
  else if n =? 4 then VShareEmptyCopy else if n =? 5 then VIaddRaises else VRepaired.
Definition check_variant (n : Z) (c : wcase) : bool :=
  check_wsteps (variant_of n) (init_heap (wc_init c)) (wc_steps c).
Definition check_v1 := check_variant 1.
Definition check_v2 := check_variant 2.
Definition check_v3 := check_variant 3.
Definition check_v4 := check_variant 4.
Definition check_v5 := check_variant 5.
