(* _build_blocks: partitions a token list, in order, into fresh non-empty well-formed blocks and
   never runs out of fuel (fuel = length suffices when LF >= 1). *)
From AB Require Export StoreSeg.
From Coq Require Import ZifyBool.

Lemma new_block_ok s i ts s' b : new_block s i ts = (s', b) -> NoDup ts -> blk_ok s' b.
Proof.
  intros H ND. destruct (new_block_spec _ _ _ _ _ H) as (Eb & _ & _ & _ & Etk & _ & Et & _ & Hc).
  split; rewrite Et; [|assumption].
  intros j t Hj. apply hnd_of_raw. unfold raw. rewrite Etk, (new_block_sid _ _ _ _ _ H). rewrite (rehandle_in _ _ _ _ _ j t ND Hj). reflexivity.
Qed.

(* what a run of allocations achieves *)
Definition BB (s : store) (i : Z) (ts : list positive) (s' : store) (bs : list positive) : Prop :=
  s_blocks s' = s_blocks s /\ s_len s' = s_len s /\
  (s_next s <= s_next s')%positive /\
  (forall b, In b bs -> (s_next s <= b < s_next s')%positive) /\
  NoDup bs /\
  (forall b, (b < s_next s)%positive -> bget (s_heap s') b = bget (s_heap s) b) /\
  flat_map (toks s') bs = ts /\
  (forall k b, nth_error bs k = Some b -> bidx s' b = i + Z.of_nat k) /\
  (forall b, In b bs -> toks s' b <> [] /\ blk_ok s' b) /\
  (ts <> [] -> bs <> []) /\
  (forall t, tsz (s_toks s') t = tsz (s_toks s) t /\ txt s' t = txt s t) /\
  (forall t, ~ In t ts -> tget (s_toks s') t = tget (s_toks s) t) /\
  s_id s' = s_id s.

Lemma BB_nil s i : BB s i [] s [].
Proof.
  unfold BB. split; [reflexivity|]. split; [reflexivity|]. split; [lia|]. split; [intros b []|].
  split; [constructor|]. split; [auto|]. split; [reflexivity|].
  split; [intros k b H; destruct k; discriminate|]. split; [intros b []|]. auto.
Qed.

Lemma BB_cons s i hd rest s1 b s' bs :
  new_block s i hd = (s1, b) -> hd <> [] -> NoDup (hd ++ rest) ->
  BB s1 (i + 1) rest s' bs -> BB s i (hd ++ rest) s' (b :: bs).
Proof.
  intros Hn Hne ND (B1 & B2 & B3 & B4 & B5 & B6 & B7 & B8 & B9 & B10 & B11 & B12 & B13).
  pose proof (new_block_sid _ _ _ _ _ Hn) as Esid.
  destruct (new_block_spec _ _ _ _ _ Hn) as (Eb & En & Ebl & Eln & Etk & Eh & Et & Ei & Hc).
  apply NoDup_app_iff in ND as (NDh & NDr & Dis).
  assert (b < s_next s1)%positive as Hb1 by lia.
  assert (toks s' b = hd) as Etb by (unfold toks; rewrite B6 by assumption; exact Et).
  unfold BB.
  split; [congruence|]. split; [congruence|]. split; [lia|].
  split. { intros b0 [<-|H]; [lia|]. apply B4 in H. lia. }
  split. { constructor; [|assumption]. intro H. apply B4 in H. lia. }
  split. { intros b0 Hb0. rewrite B6 by lia. apply Eh. lia. }
  split. { cbn [flat_map]. rewrite Etb, B7. reflexivity. }
  split. { intros k b0 Hk. destruct k as [|k]; cbn [nth_error] in Hk.
    + injection Hk as <-. unfold bidx. rewrite B6 by assumption. fold (bidx s1 b). lia.
    + rewrite (B8 k b0 Hk). lia. }
  split. { intros b0 [<-|H]; [|apply B9; assumption]. split; [rewrite Etb; assumption|].
    apply (blk_ok_frame s1 s' b (new_block_ok _ _ _ _ _ Hn NDh)).
    + unfold toks. rewrite B6 by assumption. reflexivity.
    + unfold bsz. rewrite B6 by assumption. reflexivity.
    + unfold blnl. rewrite B6 by assumption. reflexivity.
    + intros t Ht. rewrite Et in Ht. split; [apply hnd_ext_tget; [exact B13|]|unfold tsz]; rewrite B12 by (apply Dis; assumption); reflexivity. }
  split. { intros _. discriminate. }
  split. { intro t. destruct (B11 t) as [-> ->]. unfold tsz, txt. rewrite Etk. split; [apply rehandle_size|apply rehandle_text]. }
  split; [|congruence]. intros t Ht. rewrite B12 by (intro; apply Ht; apply in_or_app; auto).
  rewrite Etk. apply rehandle_other. intro; apply Ht; apply in_or_app; auto.
Qed.

Lemma build_blocks_eq LF fuel s i ts :
  build_blocks LF fuel s i ts =
  let remaining := zlen ts in
  if remaining =? 0 then (s, Ok [])
  else if remaining >? ONE_HALF LF then
    match fuel with
    | O => (s, Err OutOfFuel)
    | S f =>
      let '(s1, b) := new_block s i (zfirstn LF ts) in
      match build_blocks LF f s1 (i + 1) (zskipn LF ts) with
      | (s2, Ok bs) => (s2, Ok (b :: bs))
      | (s2, Err e) => (s2, Err e)
      end
    end
  else if remaining >? LF then
    let len := remaining / 2 in
    let '(s1, b1) := new_block s i (zfirstn len ts) in
    let '(s2, b2) := new_block s1 (i + 1) (zskipn len ts) in
    (s2, Ok [b1; b2])
  else
    let '(s1, b) := new_block s i ts in (s1, Ok [b]).
Proof. destruct fuel; reflexivity. Qed.

Lemma build_blocks_spec LF : 1 <= LF -> forall fuel s i ts s' r,
  (length ts <= fuel)%nat -> NoDup ts ->
  build_blocks LF fuel s i ts = (s', r) -> exists bs, r = Ok bs /\ BB s i ts s' bs.
Proof.
  intro HLF. induction fuel as [|f IH]; intros s i ts s' r Hlen ND H; rewrite build_blocks_eq in H; cbv zeta in H;
    unfold zlen, ONE_HALF, HALF in H.
  all: destruct (Z.eqb_spec (Z.of_nat (length ts)) 0) as [E0|E0];
    [injection H as <- <-; exists []; split; [reflexivity|]; destruct ts; [apply BB_nil|cbn in E0; lia]|].
  all: assert (0 <= LF / 2) as Hhalf by (apply Z.div_pos; lia).
  all: destruct (Z.gtb_spec (Z.of_nat (length ts)) (LF + LF / 2)) as [G1|G1].
  - lia.
  - (* two blocks or one *)
    destruct (Z.gtb_spec (Z.of_nat (length ts)) LF) as [G2|G2].
    + set (len := Z.of_nat (length ts) / 2) in *.
      assert (1 <= len < Z.of_nat (length ts)) as Hl by (subst len; split; [apply Z.div_le_lower_bound; lia|apply Z.div_lt; lia]).
      destruct (new_block s i (zfirstn len ts)) as [s1 b1] eqn:N1.
      destruct (new_block s1 (i + 1) (zskipn len ts)) as [s2 b2] eqn:N2. injection H as <- <-.
      exists [b1; b2]. split; [reflexivity|].
      rewrite <- (firstn_skipn (Z.to_nat len) ts) in ND |- * at 1.
      apply (BB_cons _ _ _ _ _ _ _ _ N1); [|exact ND|].
      * intro E. apply (f_equal (@length _)) in E. unfold zfirstn in E. rewrite firstn_length in E. cbn in E. lia.
      * rewrite <- (app_nil_r (skipn _ ts)). apply (BB_cons _ _ _ _ _ _ _ _ N2).
        -- intro E. apply (f_equal (@length _)) in E. unfold zskipn in E. rewrite skipn_length in E. cbn in E. lia.
        -- rewrite app_nil_r. apply NoDup_app_iff in ND. tauto.
        -- apply BB_nil.
    + destruct (new_block s i ts) as [s1 b] eqn:N1. injection H as <- <-.
      exists [b]. split; [reflexivity|]. rewrite <- (app_nil_r ts) in ND |- * at 1.
      apply (BB_cons _ _ _ _ _ _ _ _ N1); [destruct ts; [cbn in E0; lia|discriminate]|exact ND|apply BB_nil].
  - (* a full block, then the rest *)
    destruct (new_block s i (zfirstn LF ts)) as [s1 b] eqn:N1.
    destruct (build_blocks LF f s1 (i + 1) (zskipn LF ts)) as [s2 r2] eqn:R.
    rewrite <- (firstn_skipn (Z.to_nat LF) ts) in ND.
    destruct (IH s1 (i + 1) (zskipn LF ts) s2 r2) as (bs & -> & HB); [| |exact R|].
    + unfold zskipn. rewrite skipn_length. lia.
    + apply NoDup_app_iff in ND. tauto.
    + injection H as <- <-. exists (b :: bs). split; [reflexivity|].
      rewrite <- (firstn_skipn (Z.to_nat LF) ts) at 1.
      apply (BB_cons _ _ _ _ _ _ _ _ N1); [|exact ND|exact HB].
      intro E. apply (f_equal (@length _)) in E. unfold zfirstn in E. rewrite firstn_length in E. cbn in E. lia.
  - (* same as above with fuel left: two blocks or one *)
    destruct (Z.gtb_spec (Z.of_nat (length ts)) LF) as [G2|G2].
    + set (len := Z.of_nat (length ts) / 2) in *.
      assert (1 <= len < Z.of_nat (length ts)) as Hl by (subst len; split; [apply Z.div_le_lower_bound; lia|apply Z.div_lt; lia]).
      destruct (new_block s i (zfirstn len ts)) as [s1 b1] eqn:N1.
      destruct (new_block s1 (i + 1) (zskipn len ts)) as [s2 b2] eqn:N2. injection H as <- <-.
      exists [b1; b2]. split; [reflexivity|].
      rewrite <- (firstn_skipn (Z.to_nat len) ts) in ND |- * at 1.
      apply (BB_cons _ _ _ _ _ _ _ _ N1); [|exact ND|].
      * intro E. apply (f_equal (@length _)) in E. unfold zfirstn in E. rewrite firstn_length in E. cbn in E. lia.
      * rewrite <- (app_nil_r (skipn _ ts)). apply (BB_cons _ _ _ _ _ _ _ _ N2).
        -- intro E. apply (f_equal (@length _)) in E. unfold zskipn in E. rewrite skipn_length in E. cbn in E. lia.
        -- rewrite app_nil_r. apply NoDup_app_iff in ND. tauto.
        -- apply BB_nil.
    + destruct (new_block s i ts) as [s1 b] eqn:N1. injection H as <- <-.
      exists [b]. split; [reflexivity|]. rewrite <- (app_nil_r ts) in ND |- * at 1.
      apply (BB_cons _ _ _ _ _ _ _ _ N1); [destruct ts; [cbn in E0; lia|discriminate]|exact ND|apply BB_nil].
Qed.
