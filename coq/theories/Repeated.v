(* C03 / C19 model: the token-level editing algorithms of a repeated field
     autobean_refactor/models/internal/properties.py : RepeatedNodeWrapper
       (_insert_tokens, _prev_last, _del_tokens, __setitem__ int / slice / extended slice, __delitem__,
        insert, append, clear, extend, pop, drop_many)  -- as repaired by /verif/fixes/repeated-*.patch
     autobean_refactor/models/base.py : RawModel.detach / RawTokenModel.detach
   over the abstract token store (a flat list of tokens with unique ids; C07 proves that the real
   TokenStore refines exactly these list operations).
   Statement order is kept: every function returns the state written so far together with the
   result, so a refusal midway returns the partially written state.  No proofs here. *)
From AB Require Import Prelude PySeq.

Inductive kind := KPlaceholder | KWhitespace | KNewline | KComma | KOther.
Definition kind_eqb (a b : kind) : bool :=
  match a, b with
  | KPlaceholder, KPlaceholder | KWhitespace, KWhitespace | KNewline, KNewline
  | KComma, KComma | KOther, KOther => true
  | _, _ => false
  end.
(* separator kinds: whitespace, newlines, list commas and zero-width marks *)
Definition is_sep (k : kind) : bool := match k with KOther => false | _ => true end.

Record tok := mktok { tid : Z; tkind : kind; ttext : str }.
Definition doc := list tok.
Definition ids (d : doc) : list Z := map tid d.
Definition zmem (i : Z) (l : list Z) : bool := existsb (Z.eqb i) l.

(* ---- the token store seen as a list (token_store.py: get_prev/get_next/insert_after/insert_before/
        splice/remove; a token that is not in the store raises ValueError in _check_store_handle) ---- *)
Fixpoint split_at (i : Z) (d : doc) : option (doc * tok * doc) :=
  match d with
  | [] => None
  | t :: r => if tid t =? i then Some ([], t, r)
              else match split_at i r with
                   | Some (a, x, b) => Some (t :: a, x, b)
                   | None => None
                   end
  end.

Definition last_opt {A} (l : list A) : option A :=
  match l with [] => None | x :: r => Some (last r x) end.
Definition hd_opt {A} (l : list A) : option A := match l with [] => None | x :: _ => Some x end.

Definition st_get_prev (i : Z) (d : doc) : res (option Z) :=
  match split_at i d with
  | Some (a, _, _) => Ok (option_map tid (last_opt a))
  | None => Err ValueError
  end.
Definition st_get_next (i : Z) (d : doc) : res (option Z) :=
  match split_at i d with
  | Some (_, _, b) => Ok (option_map tid (hd_opt b))
  | None => Err ValueError
  end.

(* the refusal guard of TokenStore._splice: a token that already sits in a store is refused *)
Definition guard (ts : list tok) (d : doc) : bool :=
  negb (existsb (fun t => zmem (tid t) (ids d)) ts).

Definition st_insert_after (ref : Z) (ts : list tok) (d : doc) : res doc :=
  match split_at ref d with
  | Some (a, t, b) => if guard ts d then Ok (a ++ t :: ts ++ b) else Err ValueError
  | None => Err ValueError
  end.
Definition st_insert_before (ref : Z) (ts : list tok) (d : doc) : res doc :=
  match split_at ref d with
  | Some (a, t, b) => if guard ts d then Ok (a ++ ts ++ t :: b) else Err ValueError
  | None => Err ValueError
  end.
(* splice(tokens, first, last): replace first..last (inclusive) by tokens; remove = splice [] *)
Definition st_splice (ts : list tok) (first last : Z) (d : doc) : res doc :=
  match split_at first d with
  | Some (a, t, b) =>
      if first =? last then (if guard ts d then Ok (a ++ ts ++ b) else Err ValueError)
      else match split_at last b with
           | Some (_, _, c) => if guard ts d then Ok (a ++ ts ++ c) else Err ValueError
           | None => Err ValueError      (* last not after first *)
           end
  | None => Err ValueError
  end.
Definition st_remove (first last : Z) (d : doc) : res doc := st_splice [] first last d.

(* store.iter(first, last): the tokens of a node *)
Definition st_iter (first last : Z) (d : doc) : list tok :=
  match split_at first d with
  | Some (_, t, b) =>
      if first =? last then [t]
      else match split_at last b with
           | Some (m, l, _) => t :: m ++ [l]
           | None => []
           end
  | None => []
  end.

(* ---- nodes ------------------------------------------------------------------------------- *)
(* an item of the repeated field: (first_token id, last_token id); its tokens are st_iter *)
Definition item := (Z * Z)%type.

(* a value offered to a mutator: a node (identity d_node) living in its own store d_store, spanning
   d_first..d_last.  Free = spans its whole store (or is a free token: store = [itself]);
   attached = anything else.  After detach the store is empty. *)
Record donor := mkdonor { d_node : Z; d_store : list tok; d_first : Z; d_last : Z }.
Definition node_item (v : donor) : item := (d_first v, d_last v).

(* the test of RawModel.detach (also _check_detachable of the repaired properties.py) *)
Definition detachable (v : donor) : bool :=
  match d_store v with
  | [] => true                                   (* `if not self.token_store: return []` *)
  | t :: r => (d_first v =? tid t) && (d_last v =? tid (last r t))
  end.
Definition detach (v : donor) : res (list tok * donor) :=
  if detachable v then Ok (d_store v, mkdonor (d_node v) [] (d_first v) (d_last v))
  else Err ValueError.

(* _check_detachable(values): nothing is modified *)
Fixpoint check_detachable (seen : list Z) (vs : list donor) : res unit :=
  match vs with
  | [] => Ok tt
  | v :: r => if zmem (d_node v) seen || negb (detachable v) then Err ValueError
              else check_detachable (d_node v :: seen) r
  end.

(* copy.deepcopy(separators): fresh tokens, ids fr, fr+1, ... *)
Fixpoint mk_seps (fr : Z) (seps : list (kind * str)) : list tok :=
  match seps with
  | [] => []
  | (k, s) :: r => mktok fr k s :: mk_seps (fr + 1) r
  end.

Record st := mkst { s_doc : doc; s_items : list item }.

Section Field.
Variable ph : Z.                          (* Repeated.placeholder *)
Variable seps sepsb : list (kind * str).  (* _separators, _separators_before *)

Definition nseps : Z := zlen seps.
Definition nsepsb : Z := zlen sepsb.

(* _prev_last(index) *)
Definition prev_last (items : list item) (index : Z) : res Z :=
  if 0 <? index then
    match list_get_int items (index - 1) with Ok it => Ok (snd it) | Err e => Err e end
  else Ok ph.

(* the loop of _insert_tokens.  State: tokens so far, ref, separators_before_last, fresh counter,
   the donors as left so far (processed ones, in order). *)
Record ins_acc := mkacc { a_toks : list tok; a_ref : Z; a_sbl : option Z; a_fr : Z; a_done : list donor }.

Fixpoint ins_loop (d : doc) (items : list item) (index length : Z) (i : Z) (vs : list donor)
         (acc : ins_acc) : ins_acc * list donor * res unit :=
  match vs with
  | [] => (acc, [], Ok tt)
  | v :: rest =>
      if negb (index =? 0) || (negb (i =? 0) && (length =? 0)) then
        (* tokens.extend(deepcopy(separators)); tokens.extend(value.detach()) *)
        let sp := mk_seps (a_fr acc) seps in
        match detach v with
        | Err e => (mkacc (a_toks acc ++ sp) (a_ref acc) (a_sbl acc) (a_fr acc + nseps) (a_done acc), vs, Err e)
        | Ok (ts, v') =>
            ins_loop d items index length (i + 1) rest
                     (mkacc (a_toks acc ++ sp ++ ts) (a_ref acc) (a_sbl acc) (a_fr acc + nseps) (a_done acc ++ [v']))
        end
      else if negb (length =? 0) then
        (* tokens.extend(value.detach()); tokens.extend(deepcopy(separators)); ref = separators_before_last *)
        match detach v with
        | Err e => (acc, vs, Err e)
        | Ok (ts, v') =>
            let sp := mk_seps (a_fr acc) seps in
            let acc1 := mkacc (a_toks acc ++ ts ++ sp) (a_ref acc) (a_sbl acc) (a_fr acc + nseps) (a_done acc ++ [v']) in
            match a_sbl acc with
            | Some s => ins_loop d items index length (i + 1) rest
                                 (mkacc (a_toks acc1) s (Some s) (a_fr acc1) (a_done acc1))
            | None =>
                match list_get_int items 0 with
                | Err e => (acc1, rest, Err e)
                | Ok it0 =>
                    match st_get_prev (fst it0) d with
                    | Err e => (acc1, rest, Err e)
                    | Ok None => (acc1, rest, Err AssertionError)
                    | Ok (Some s) => ins_loop d items index length (i + 1) rest
                                              (mkacc (a_toks acc1) s (Some s) (a_fr acc1) (a_done acc1))
                    end
                end
            end
        end
      else
        (* tokens.extend(deepcopy(separators_before)); tokens.extend(value.detach()) *)
        let sp := mk_seps (a_fr acc) sepsb in
        match detach v with
        | Err e => (mkacc (a_toks acc ++ sp) (a_ref acc) (a_sbl acc) (a_fr acc + nsepsb) (a_done acc), vs, Err e)
        | Ok (ts, v') =>
            ins_loop d items index length (i + 1) rest
                     (mkacc (a_toks acc ++ sp ++ ts) (a_ref acc) (a_sbl acc) (a_fr acc + nsepsb) (a_done acc ++ [v']))
        end
  end.

(* _insert_tokens(index, values, length, separators_before_last); returns doc', donors', fresh', result *)
Definition insert_tokens (d : doc) (items : list item) (index : Z) (vs : list donor)
           (length : Z) (sbl : option Z) (fr : Z) : doc * list donor * Z * res unit :=
  match prev_last items index with
  | Err e => (d, vs, fr, Err e)
  | Ok ref =>
      match ins_loop d items index length 0 vs (mkacc [] ref sbl fr []) with
      | (acc, lft, Err e) => (d, a_done acc ++ lft, a_fr acc, Err e)
      | (acc, lft, Ok _) =>
          match st_insert_after (a_ref acc) (a_toks acc) d with
          | Err e => (d, a_done acc ++ lft, a_fr acc, Err e)
          | Ok d' => (d', a_done acc ++ lft, a_fr acc, Ok tt)
          end
      end
  end.

(* `not token.raw_text.strip()`: the text is empty or made of characters str.strip() takes away (str.isspace) *)
Definition py_isspace (c : Z) : bool :=
  ((9 <=? c) && (c <=? 13)) || ((28 <=? c) && (c <=? 32)) || (c =? 133) || (c =? 160) || (c =? 5760)
  || ((8192 <=? c) && (c <=? 8202)) || (c =? 8232) || (c =? 8233) || (c =? 8239) || (c =? 8287) || (c =? 12288).
Definition blank_tok (t : tok) : bool := forallb py_isspace (ttext t).

(* fields._touches(token, store.get_next, 0) (as Fields.touches, which comes later in the import order): walk on
   from `token` (excluded), skip the tokens without text; the nearest token with text shows, as its first
   character, something other than a blank or a bracket (" \t\r\n{}()").  `l` = the tokens after `token`. *)
Definition self_delim (c : Z) : bool :=
  (c =? 32) || (c =? 9) || (c =? 13) || (c =? 10) || (c =? 123) || (c =? 125) || (c =? 40) || (c =? 41).
Fixpoint touches_next (l : list tok) : bool :=
  match l with
  | [] => false
  | t :: r => match ttext t with [] => touches_next r | c :: _ => negb (self_delim c) end
  end.

(* _del_tokens(start, stop) -- as repaired by /verif/fixes/repeated-remove-keeps-separator-when-glued.patch: in the
   else-branch the blank tokens in front of the removed items stay when an item follows that is written right
   against the removed one (`1 "s"2`) *)
Definition del_tokens (d : doc) (items : list item) (start stop : Z) : doc * res unit :=
  if stop <=? start then (d, Ok tt)
  else if (start =? 0) && (stop <? zlen items) then
    match list_get_int items start, list_get_int items stop with
    | Ok it_s, Ok it_n =>
        match st_get_prev (fst it_n) d with
        | Err e => (d, Err e)
        | Ok None => (d, Err AssertionError)
        | Ok (Some t) =>
            match st_remove (fst it_s) t d with Ok d' => (d', Ok tt) | Err e => (d, Err e) end
        end
    | Err e, _ => (d, Err e)
    | _, Err e => (d, Err e)
    end
  else
    match prev_last items start with
    | Err e => (d, Err e)
    | Ok pl =>
        match st_get_next pl d with
        | Err e => (d, Err e)
        | Ok None => (d, Err AssertionError)
        | Ok (Some t) =>
            match list_get_int items (stop - 1) with
            | Err e => (d, Err e)
            | Ok it_l =>
                let rm (f : Z) := match st_remove f (snd it_l) d with Ok d' => (d', Ok tt) | Err e => (d, Err e) end in
                match list_get_int items start with        (* item_first = items[start].first_token *)
                | Err e => (d, Err e)
                | Ok it_s =>
                    if (stop <? zlen items) && negb (t =? fst it_s) then
                      match split_at (snd it_l) d with     (* _touches: store.get_next(last_token) *)
                      | None => (d, Err ValueError)
                      | Some (_, _, after) =>
                          if touches_next after then
                            match st_get_prev (fst it_s) d with
                            | Err e => (d, Err e)
                            | Ok None => (d, Err ValueError)       (* store.iter(first_token, None) *)
                            | Ok (Some g) =>
                                rm (if forallb blank_tok (st_iter t g d) then fst it_s else t)
                            end
                          else rm t
                      end
                    else rm t
                end
            end
        end
    end.

(* result of a mutator: state, donors as left, result *)
Definition out (R : Type) := (st * list donor * res R)%type.

(* __setitem__(index: int, value); `same` models `item is value` (xs[i] = xs[i]: a no-op) *)
Definition setitem_int (s : st) (index : Z) (same : bool) (v : donor) : out unit :=
  match list_get_int (s_items s) index with
  | Err e => (s, [v], Err e)
  | Ok it =>
      if same then (s, [v], Ok tt) else
      match detach v with
      | Err e => (s, [v], Err e)
      | Ok (ts, v') =>
          match st_splice ts (fst it) (snd it) (s_doc s) with
          | Err e => (s, [v'], Err e)
          | Ok d' =>
              match list_set_int (s_items s) index (node_item v) with
              | Err e => (mkst d' (s_items s), [v'], Err e)
              | Ok items' => (mkst d' items', [v'], Ok tt)
              end
          end
      end
  end.

(* the extended-slice loop of __setitem__: for i, value in zip(r, values) *)
Fixpoint ext_loop (s : st) (sbl : option Z) (fr : Z) (ps : list Z) (vs : list donor) (done : list donor)
  : st * list donor * Z * res unit :=
  match ps, vs with
  | i :: ps', v :: vs' =>
      match del_tokens (s_doc s) (s_items s) i (i + 1) with
      | (d1, Err e) => (mkst d1 (s_items s), done ++ vs, fr, Err e)
      | (d1, Ok _) =>
          match insert_tokens d1 (s_items s) i [v] (zlen (s_items s) - 1) sbl fr with
          | (d2, dl, fr', Err e) => (mkst d2 (s_items s), done ++ dl ++ vs', fr', Err e)
          | (d2, dl, fr', Ok _) =>
              match list_set_int (s_items s) i (node_item v) with
              | Err e => (mkst d2 (s_items s), done ++ dl ++ vs', fr', Err e)
              | Ok items' => ext_loop (mkst d2 items') sbl fr' ps' vs' (done ++ dl)
              end
          end
      end
  | _, _ => (s, done ++ vs, fr, Ok tt)
  end.

(* __setitem__(index: slice, values) *)
Definition setitem_slice (s : st) (sl : slc) (vs : list donor) (fr : Z) : out unit :=
  let items := s_items s in
  match range_from_index (ISlice sl) (zlen items) with
  | Err e => (s, vs, Err e)
  | Ok r =>
      match check_detachable [] vs with
      | Err e => (s, vs, Err e)
      | Ok _ =>
          let sblr := match items with
                      | [] => Ok None
                      | it0 :: _ => st_get_prev (fst it0) (s_doc s)
                      end in
          match sblr with
          | Err e => (s, vs, Err e)
          | Ok sbl =>
              if r_step r =? 1 then
                match del_tokens (s_doc s) items (r_start r) (r_stop r) with
                | (d1, Err e) => (mkst d1 items, vs, Err e)
                | (d1, Ok _) =>
                    match insert_tokens d1 items (r_start r) vs (zlen items - range_len r) sbl fr with
                    | (d2, dl, _, Err e) => (mkst d2 items, dl, Err e)
                    | (d2, dl, _, Ok _) =>
                        match list_set_slice items (slice_from_range r) (map node_item vs) with
                        | Err e => (mkst d2 items, dl, Err e)
                        | Ok items' => (mkst d2 items', dl, Ok tt)
                        end
                    end
                end
              else if negb (range_len r =? zlen vs) then (s, vs, Err ValueError)
              else
                match ext_loop s sbl fr (range_list r) vs [] with
                | (s', dl, _, r') => (s', dl, r')
                end
          end
      end
  end.

(* insert(index, value) *)
Definition insert (s : st) (index : Z) (v : donor) (fr : Z) : out unit :=
  let items := s_items s in
  let length := zlen items in
  let index := if index <? 0 then Z.max (index + length) 0 else index in
  let index := Z.min index length in
  match insert_tokens (s_doc s) items index [v] length None fr with
  | (d', dl, _, Err e) => (mkst d' items, dl, Err e)
  | (d', dl, _, Ok _) => (mkst d' (list_insert items index (node_item v)), dl, Ok tt)
  end.

(* append(value) *)
Definition append (s : st) (v : donor) (fr : Z) : out unit :=
  let items := s_items s in
  let index := zlen items in
  match insert_tokens (s_doc s) items index [v] index None fr with
  | (d', dl, _, Err e) => (mkst d' items, dl, Err e)
  | (d', dl, _, Ok _) => (mkst d' (items ++ [node_item v]), dl, Ok tt)
  end.

(* clear() *)
Definition clear (s : st) : out unit :=
  match del_tokens (s_doc s) (s_items s) 0 (zlen (s_items s)) with
  | (d', Err e) => (mkst d' (s_items s), [], Err e)
  | (d', Ok _) => (mkst d' [], [], Ok tt)
  end.

(* extend(values) *)
Definition extend (s : st) (vs : list donor) (fr : Z) : out unit :=
  let items := s_items s in
  match check_detachable [] vs with
  | Err e => (s, vs, Err e)
  | Ok _ =>
      let index := zlen items in
      match insert_tokens (s_doc s) items index vs index None fr with
      | (d', dl, _, Err e) => (mkst d' items, dl, Err e)
      | (d', dl, _, Ok _) => (mkst d' (items ++ map node_item vs), dl, Ok tt)
      end
  end.

(* pop(index): returns the tokens of the popped node (its new private store) *)
Definition pop (s : st) (index : Z) : out (list tok) :=
  let items := s_items s in
  match list_get_int items index with
  | Err e => (s, [], Err e)
  | Ok it =>
      let tokens := st_iter (fst it) (snd it) (s_doc s) in
      match range_from_index (IInt index) (zlen items) with
      | Err e => (s, [], Err e)
      | Ok r =>
          match del_tokens (s_doc s) items (r_start r) (r_stop r) with
          | (d', Err e) => (mkst d' items, [], Err e)
          | (d', Ok _) =>
              match list_pop items index with
              | Err e => (mkst d' items, [], Err e)
              | Ok (_, items') => (mkst d' items', [], Ok tokens)
              end
          end
      end
  end.

(* sorted(indexes, reverse=True) *)
Fixpoint ins_desc (x : Z) (l : list Z) : list Z :=
  match l with
  | [] => [x]
  | y :: r => if y <=? x then x :: l else y :: ins_desc x r
  end.
Definition sort_desc (l : list Z) : list Z := fold_right ins_desc [] l.

(* itertools.groupby(indexes, key = i + count): maximal runs i, i-1, i-2, ... as (lowest, highest) *)
Fixpoint runs_desc (l : list Z) (cur : option (Z * Z)) : list (Z * Z) :=
  match l with
  | [] => match cur with Some c => [c] | None => [] end
  | x :: r =>
      match cur with
      | None => runs_desc r (Some (x, x))
      | Some (lo, hi) => if x =? lo - 1 then runs_desc r (Some (x, hi))
                         else (lo, hi) :: runs_desc r (Some (x, x))
      end
  end.

Fixpoint drop_loop (d : doc) (items : list item) (rs : list (Z * Z)) : doc * res unit :=
  match rs with
  | [] => (d, Ok tt)
  | (lo, hi) :: rest =>
      match del_tokens d items lo (hi + 1) with
      | (d', Err e) => (d', Err e)
      | (d', Ok _) => drop_loop d' items rest
      end
  end.

(* the validation loop of drop_many: IndexError for an index outside -len..len-1 (nothing touched yet),
   negative indexes counted from the end, duplicates collapsed (a set) *)
Fixpoint norm_all (n : Z) (idxs : list Z) (acc : list Z) : res (list Z) :=
  match idxs with
  | [] => Ok acc
  | i :: r => match norm_index n i with
              | Err _ => Err IndexError
              | Ok j => norm_all n r (if zmem j acc then acc else j :: acc)
              end
  end.

(* drop_many after validation: indexes distinct and in range *)
Definition drop_many_core (s : st) (idxs : list Z) : out unit :=
  let sorted := sort_desc idxs in
  match drop_loop (s_doc s) (s_items s) (runs_desc sorted None) with
  | (d', Err e) => (mkst d' (s_items s), [], Err e)
  | (d', Ok _) => (mkst d' (remove_positions sorted (s_items s)), [], Ok tt)
  end.

(* drop_many(indexes) *)
Definition drop_many (s : st) (idxs : list Z) : out unit :=
  match norm_all (zlen (s_items s)) idxs [] with
  | Err e => (s, [], Err e)
  | Ok ns => drop_many_core s ns
  end.

(* __delitem__(index) *)
Definition delitem (s : st) (index : pyidx) (fr : Z) : out unit :=
  match range_from_index index (zlen (s_items s)) with
  | Err e => (s, [], Err e)
  | Ok r =>
      if r_step r =? 1 then setitem_slice s (slice_from_range r) [] fr
      else drop_many s (range_list r)
  end.

End Field.
