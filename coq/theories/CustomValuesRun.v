(* Glue for the C15 correspondence of CustomValues.v (custom.py).  Decimals are NumExprRun's free terms `sym`
   (a Decimal handed in from outside is `SExt neg abs_text`); token texts come from Tokens.v's formatters
   (string_format / date_format DatePadded / bool_format) and parsers. *)
From AB Require Import Prelude NumExpr NumExprRun Tokens CustomValues.

Definition value_eqb (a b : value) : bool :=
  match a, b with
  | VStr s, VStr t | VDate s, VDate t | VBool s, VBool t | VAccount s, VAccount t => str_eqb s t
  | VNum e, VNum f => add_eqb e f
  | VAmount e c, VAmount f d => add_eqb e f && str_eqb c d
  | _, _ => false
  end.

Definition ctok_eqb (a b : ctok) : bool :=
  match a, b with
  | CStr s, CStr t | CDate s, CDate t | CBool s, CBool t | CAcct s, CAcct t | CCur s, CCur t => str_eqb s t
  | CLex l, CLex m => lexeme_eqb l m
  | _, _ => false
  end.

Definition date_eqb (a b : CustomValues.date) : bool :=
  let '(y, m, d) := a in let '(y', m', d') := b in (y =? y') && (m =? m') && (d =? d').

Definition pyval_eqb (a b : pyval sym) : bool :=
  match a, b with
  | PStr s, PStr t => str_eqb s t
  | PDate d, PDate e => date_eqb d e
  | PDateTime d t, PDateTime e u => date_eqb d e && (t =? u)
  | PBool x, PBool y => Bool.eqb x y
  | PDec x, PDec y => sym_eqb x y
  | PRaw v, PRaw w => value_eqb v w
  | _, _ => false
  end.

Definition str_value (raw : str) : str := match string_parse raw with Ok v => v | Err _ => [] end.
Definition date_value (raw : str) : CustomValues.date := match date_parse raw with Ok v => v | Err _ => (0, 0, 0) end.
Definition bool_value (raw : str) : bool := match bool_parse raw with Ok v => v | Err _ => false end.

Definition Sunsimplify := unsimplify_value sym s_abs s_ltz s_text string_format (date_format DatePadded) bool_format.
Definition Ssimplify := simplify_value sym SAdd SSub SMul SDiv SNeg SLit str_value date_value bool_value.
Definition Supdate := update_raw sym s_abs s_ltz s_text string_format (date_format DatePadded) bool_format.
Definition Sfrom_value := from_value_values sym s_abs s_ltz s_text string_format (date_format DatePadded) bool_format.

(* one call of Custom.from_value / from_children.  Arguments: inl = a Python scalar, inr = a raw model as observed
   before the call (identity, detachable?, content). *)
Record dcase := mkdcase {
  d_args : list (pyval sym + cval);
  d_exc : Z;                          (* 0 returned, 1 ValueError *)
  d_after : list value;               (* the raw-model arguments after the call, in argument order *)
  d_out : list value;                 (* result.raw_values *)
  d_toks : list (list ctok);          (* significant tokens of each raw value of the result, in store order *)
  d_simple : list (pyval sym);        (* list(result.values) *)
  d_reparsed : option (list value)    (* raw values of parse(print(result)); None: not accepted *)
}.

Fixpoint raw_args (l : list (pyval sym + cval)) : list cval :=
  match l with [] => [] | inl _ :: r => raw_args r | inr c :: r => c :: raw_args r end.
Definition arg_ids (l : list (pyval sym + cval)) : list Z := map cv_id (raw_args l).
Definition keep_ids (ids : list Z) (l : list cval) : list cval :=
  filter (fun c => existsb (Z.eqb (cv_id c)) ids) l.

Definition check_dcase (c : dcase) : bool :=
  let '(after, r) := Sfrom_value 1000000 (d_args c) in
  match r with
  | Ok out =>
    (d_exc c =? 0)
    && list_eqb value_eqb (map cv_val out) (d_out c)
    && list_eqb value_eqb (map cv_val (keep_ids (arg_ids (d_args c)) after)) (d_after c)
    && list_eqb (list_eqb ctok_eqb) (map render_value (map cv_val out)) (d_toks c)
    && list_eqb pyval_eqb (map Ssimplify (map cv_val out)) (d_simple c)
    && opt_eqb (list_eqb value_eqb) (parse_values (render_values (map cv_val out)))
                                    (option_map (map strip_value) (d_reparsed c))
    (* and, as the theorem says, these are the values that were built *)
    && opt_eqb (list_eqb value_eqb) (parse_values (render_values (map cv_val out)))
                                    (Some (map strip_value (map cv_val out)))
  | Err _ =>
    (d_exc c =? 1)
    && list_eqb value_eqb (map cv_val (keep_ids (arg_ids (d_args c)) after)) (d_after c)
  end.

(* the grammar side alone: a token stream (the harness' own tokenizer) and what the real parser made of it *)
Definition check_pcase (c : list ctok * option (list value)) : bool :=
  opt_eqb (list_eqb value_eqb) (parse_values (fst c)) (option_map (map strip_value) (snd c)).

(* custom._update_raw(raw, v): (raw before, v, returned bool, raw after) *)
Definition check_ucase (c : value * pyval sym * bool * value) : bool :=
  let '(r, v, ok, r') := c in
  let '(m, b) := Supdate r v in Bool.eqb b ok && value_eqb m r'.
