(* C14: unclaim followed by claim restores the attribution; auto-claim is idempotent once everything is claimed. *)
From AB Require Import Prelude Comments CommentsProofs CommentsOwn.
From Coq Require Import Permutation.

Lemma is_nl_not_ph : forall t, is_nl t = true -> is_ph t = false.
Proof. intros t; unfold is_nl, is_ph; destruct (t_kind t); auto; discriminate. Qed.
Lemma is_comment_not_ph : forall t, is_comment t = true -> is_ph t = false.
Proof. intros t; unfold is_comment, is_ph; destruct (t_kind t); auto; discriminate. Qed.

Lemma take_ignored_app : forall i x r, forallb is_ph i = true -> is_ph x = false ->
  take_ignored (i ++ x :: r) = (i, x :: r).
Proof.
  induction i as [|t i IH]; simpl; intros x r P X.
  - rewrite X. reflexivity.
  - apply andb_prop in P. destruct P as [P1 P2]. rewrite P1, IH; auto.
Qed.

(* completeness of _claim_comment: an unclaimed block comment one line break away (placeholders aside), of the
   model's indentation class, is claimed *)
Lemma claim_comment_complete : forall d start bw ig ind first w' ign1 nl ign2 c rest,
  NoDup (ids d) ->
  walk d start bw = Some (first :: w') ->
  first :: w' = ign1 ++ nl :: ign2 ++ c :: rest ->
  forallb is_ph ign1 = true -> forallb is_ph ign2 = true -> is_nl nl = true -> is_comment c = true ->
  t_claimed c = false -> match ind with Some b => comment_indented c = b | None => True end ->
  exists d2, Permutation d2 d /\
    claim_comment None d start bw ig ind = (Ok (Some (t_id c)), set_claimed (t_id c) true d2).
Proof.
  intros d start bw ig ind first w' ign1 nl ign2 c rest ND W HW P1 P2 INL IC U IND.
  unfold claim_comment. rewrite W. rewrite HW.
  rewrite (take_ignored_app ign1 nl _ P1 (is_nl_not_ph _ INL)). rewrite INL. simpl negb. cbv iota.
  rewrite (take_ignored_app ign2 c _ P2 (is_comment_not_ph _ IC)). rewrite IC. simpl negb. cbv iota.
  assert (E : match ind with Some b => negb (Bool.eqb (comment_indented c) b) | None => false end = false).
  { destruct ind as [b|]; auto. rewrite IND. rewrite Bool.eqb_reflx. reflexivity. }
  rewrite E, U.
  unfold walk in W. destruct (split_at start d) as [[a sb]|] eqn:S; [|discriminate].
  destruct sb as [|s b]; [discriminate|]. apply split_at_spec in S. destruct S as [Hd _].
  destruct (ign1 ++ ign2) as [|i0 ir] eqn:EI.
  - exists d. split; auto.
  - rewrite <- EI. destruct bw.
    + injection W as HR.
      destruct (claim_bwd a s b ign1 nl ign2 c rest first w' d Hd ND HR HW P1 P2) as [d2 [Sp [PT SV]]].
      rewrite Sp. exists d2. split; auto.
    + injection W as HB. subst b.
      assert (Hd' : d = a ++ s :: ign1 ++ nl :: ign2 ++ c :: rest) by (rewrite Hd, HW; reflexivity).
      destruct (claim_fwd a s ign1 nl ign2 c rest first w' d Hd' ND HW P1 P2) as [d2 [Sp [PT SV]]].
      simpl in Sp. simpl. rewrite Sp. exists d2. split; auto.
Qed.

(* set_claimed commutes with everything _claim_comment looks at *)
Lemma split_at_set_claimed : forall c v i d,
  split_at i (set_claimed c v d) =
  match split_at i d with Some (a, b) => Some (set_claimed c v a, set_claimed c v b) | None => None end.
Proof.
  induction d as [|t d IH]; simpl; auto.
  assert (E : t_id (if t_id t =? c then set_flag v t else t) = t_id t) by (destruct (t_id t =? c); reflexivity).
  rewrite E. destruct (t_id t =? i); [reflexivity|].
  rewrite IH. destruct (split_at i d) as [[a b]|]; reflexivity.
Qed.

Lemma walk_set_claimed : forall c v d start bw,
  walk (set_claimed c v d) start bw =
  match walk d start bw with Some w => Some (set_claimed c v w) | None => None end.
Proof.
  intros. unfold walk. rewrite split_at_set_claimed.
  destruct (split_at start d) as [[a [|s b]]|]; simpl; try reflexivity.
  destruct bw; try reflexivity. unfold set_claimed. rewrite map_rev. reflexivity.
Qed.

Lemma set_claimed_app : forall c v a b, set_claimed c v (a ++ b) = set_claimed c v a ++ set_claimed c v b.
Proof. intros; unfold set_claimed; apply map_app. Qed.

Lemma set_claimed_ph : forall c v l, forallb is_ph (set_claimed c v l) = forallb is_ph l.
Proof.
  induction l as [|t l IH]; simpl; auto. rewrite IH. f_equal. destruct (t_id t =? c); reflexivity.
Qed.

Lemma set_true_false : forall c d, (forall t, In t d -> t_id t = c -> t_claimed t = true) ->
  set_claimed c true (set_claimed c false d) = d.
Proof.
  induction d as [|t d IH]; simpl; intros H; auto. f_equal.
  - destruct (t_id t =? c) eqn:E; simpl; [|rewrite E; reflexivity].
    rewrite E. apply Z.eqb_eq in E. specialize (H t (or_introl eq_refl) E).
    destruct t as [i k x cl]; simpl in *; subst; reflexivity.
  - apply IH. intros t' I' E'; apply H; [right; exact I' | exact E'].
Qed.

Lemma walk_in : forall d start bw w t, walk d start bw = Some w -> In t w -> In t d.
Proof.
  intros d start bw w t W I. unfold walk in W. destruct (split_at start d) as [[a [|s b]]|] eqn:S; try discriminate.
  apply split_at_spec in S. destruct S as [Hd _]. injection W as E. subst w d.
  destruct bw; [apply in_or_app; left; apply in_rev; auto | apply in_or_app; right; right; auto].
Qed.

(* unclaim_* followed by claim_* at the same token gives back the same comment and the same flags *)
Theorem unclaim_claim_restores : forall d start bw ig ind first w' ign1 nl ign2 c rest,
  NoDup (ids d) ->
  walk d start bw = Some (first :: w') ->
  first :: w' = ign1 ++ nl :: ign2 ++ c :: rest ->
  forallb is_ph ign1 = true -> forallb is_ph ign2 = true -> is_nl nl = true -> is_comment c = true ->
  t_claimed c = true -> match ind with Some b => comment_indented c = b | None => True end ->
  exists d', claim_comment None (snd (unclaim_comment (Some (t_id c)) d)) start bw ig ind
             = (Ok (Some (t_id c)), d') /\ Permutation d' d.
Proof.
  intros d start bw ig ind first w' ign1 nl ign2 c rest ND W HW P1 P2 INL IC CL IND.
  simpl. set (d0 := set_claimed (t_id c) false d).
  assert (ND0 : NoDup (ids d0)) by (unfold d0; rewrite set_claimed_ids; exact ND).
  assert (W0 : walk d0 start bw = Some (set_claimed (t_id c) false (first :: w'))).
  { unfold d0. rewrite walk_set_claimed, W. reflexivity. }
  assert (HW0 : set_claimed (t_id c) false (first :: w') =
                set_claimed (t_id c) false ign1 ++ (if t_id nl =? t_id c then set_flag false nl else nl)
                :: set_claimed (t_id c) false ign2 ++ set_flag false c :: set_claimed (t_id c) false rest).
  { rewrite HW. rewrite set_claimed_app. simpl. rewrite set_claimed_app. simpl. rewrite Z.eqb_refl. reflexivity. }
  simpl in W0, HW0.
  destruct (claim_comment_complete d0 start bw ig ind _ _ _ _ _ _ _ ND0 W0 HW0) as [d2 [P E]].
  - rewrite set_claimed_ph; auto.
  - rewrite set_claimed_ph; auto.
  - destruct (t_id nl =? t_id c); auto.
  - exact IC.
  - reflexivity.
  - exact IND.
  - simpl in E. exists (set_claimed (t_id c) true d2). split; [exact E|].
    assert (X : set_claimed (t_id c) true d0 = d).
    { unfold d0. apply set_true_false. intros t I Ei.
      assert (Ic : In c d) by (eapply walk_in; [exact W | rewrite HW; apply in_or_app; right; right;
                                                apply in_or_app; right; left; reflexivity]).
      assert (t = c) by (apply (nodup_id_inj d); auto). subst; auto. }
    rewrite <- X. unfold set_claimed. apply Permutation_map. exact P.
Qed.

(* two tables that read the same in every slot *)
Definition teq (a b : table) : Prop := forall s, tget a s = tget b s.

Lemma slot_eqb_refl : forall s, slot_eqb s s = true.
Proof. intros; apply slot_eqb_eq; reflexivity. Qed.

Lemma teq_tset_same : forall tb s l, tget tb s = l -> teq (tset tb s l) tb.
Proof.
  intros tb s l H s'. rewrite tget_tset. destruct (slot_eqb s s') eqn:E; auto.
  apply slot_eqb_eq in E; subst; auto.
Qed.

Lemma teq_tset_tset : forall tb s l l', tget tb s = l' -> teq (tset (tset tb s l) s l') tb.
Proof.
  intros tb s l l' H s'. rewrite !tget_tset. destruct (slot_eqb s s') eqn:E; auto.
  apply slot_eqb_eq in E; subst; auto.
Qed.

Theorem sstep_unclaim_claim : forall (lead : bool) d tb n start ig ind first w' ign1 nl ign2 c rest,
  NoDup (ids d) ->
  tget tb (if lead then SLead n else STrail n) = [t_id c] ->
  walk d start lead = Some (first :: w') ->
  first :: w' = ign1 ++ nl :: ign2 ++ c :: rest ->
  forallb is_ph ign1 = true -> forallb is_ph ign2 = true -> is_nl nl = true -> is_comment c = true ->
  t_claimed c = true -> match ind with Some b => comment_indented c = b | None => True end ->
  let st' := sstep (sstep (d, tb) (if lead then UnclaimLead n else UnclaimTrail n))
                   (if lead then ClaimLead n start ig ind else ClaimTrail n start ig ind) in
  teq (snd st') tb /\ Permutation (fst st') d.
Proof.
  intros lead d tb n start ig ind first w' ign1 nl ign2 c rest ND TG W HW P1 P2 INL IC CL IND.
  destruct (unclaim_claim_restores d start lead ig ind first w' ign1 nl ign2 c rest ND W HW P1 P2 INL IC CL IND)
    as [d' [E P]]. simpl in E.
  destruct lead; simpl; rewrite TG; simpl; rewrite tget_tset, slot_eqb_refl; simpl; rewrite E; simpl;
    (split; [apply teq_tset_tset; exact TG | exact P]).
Qed.

(* ---- idempotence: once every block comment is claimed, the calls auto_claim_comments makes change nothing --- *)
Definition all_claimed (d : doc) : Prop := forall t, In t d -> is_comment t = true -> t_claimed t = true.

Lemma all_claimed_b_ok : forall d, all_claimed_b d = true -> all_claimed d.
Proof.
  intros d H t I C. unfold all_claimed_b in H. rewrite forallb_forall in H. specialize (H t I).
  rewrite C in H. exact H.
Qed.

Lemma find_outer_none : forall w prev limit s, all_claimed w -> find_outer prev w limit s = ([], s).
Proof.
  induction w as [|t w IH]; simpl; intros prev limit s A; auto.
  assert (A' : all_claimed w) by (intros x I C; apply A; [right; exact I | exact C]).
  destruct (prev =? limit); auto. destruct (is_nl t || is_ws t || text_empty t); auto.
  destruct (is_comment t) eqn:C; auto. rewrite (A t (or_introl eq_refl) C). reflexivity.
Qed.

Lemma scan_until_none : forall e w s, all_claimed w -> scan_until e w s = ([], s).
Proof.
  induction w as [|t w IH]; simpl; intros s A; auto.
  assert (A' : all_claimed w) by (intros x I C; apply A; [right; exact I | exact C]).
  destruct (t_id t =? e); auto.
  destruct (is_comment t) eqn:C; simpl; auto. rewrite (A t (or_introl eq_refl) C).
  rewrite andb_false_r. auto.
Qed.

Lemma after_in : forall d i t, In t (after d i) -> In t d.
Proof.
  intros d i t I. unfold after in I. destruct (split_at i d) as [[a [|x b]]|] eqn:S; try contradiction.
  apply split_at_spec in S. destruct S as [E _]. subst d. apply in_or_app; right; right; auto.
Qed.

Lemma find_inner_none : forall items d w s, all_claimed d -> all_claimed w ->
  exists s', find_inner d w items s = (map oitem_of items, s').
Proof.
  induction items as [|it rest IH]; simpl; intros d w s A Aw; [eauto|].
  rewrite scan_until_none by exact Aw.
  assert (Aa : all_claimed (after d (it_last it))) by (intros x I C; apply A; [eapply after_in; exact I | exact C]).
  destruct (IH d (after d (it_last it)) (if it_comment it then cs_discard s (it_ref it) else s) A Aa) as [s' E].
  rewrite E. simpl. eauto.
Qed.

Lemma scan_until_None_s : forall e w l s', scan_until e w None = (l, s') -> s' = None.
Proof.
  induction w as [|t w IH]; simpl; intros l s' H; [inversion H; auto|].
  destruct (t_id t =? e); [inversion H; auto|].
  destruct (is_comment t && true && negb (t_claimed t)).
  - destruct (scan_until e w None) as [l0 s0] eqn:E. inversion H; subst. eapply IH; eauto.
  - eapply IH; eauto.
Qed.

Lemma find_inner_None_s : forall items d w l s', find_inner d w items None = (l, s') -> s' = None.
Proof.
  induction items as [|it rest IH]; simpl; intros d w l s' H; [inversion H; auto|].
  destruct (scan_until (it_first it) w None) as [f s1] eqn:SC.
  apply scan_until_None_s in SC. subst s1.
  assert (X : (if it_comment it then cs_discard None (it_ref it) else None) = None)
    by (destruct (it_comment it); reflexivity).
  rewrite X in H. destruct (find_inner d (after d (it_last it)) rest None) as [l0 s3] eqn:FI.
  inversion H; subst. eapply IH; eauto.
Qed.


Lemma mark_noop : forall cs d, (forall t, In t d -> In (t_id t) cs -> t_claimed t = true) -> mark cs true d = d.
Proof.
  intros cs d H. unfold mark. rewrite <- (map_id d) at 2. apply map_ext_in. intros t I.
  destruct (memz (t_id t) cs) eqn:M; auto. apply memz_in in M. apply set_flag_claimed_id. auto.
Qed.

Lemma claimer_noop : forall d ph items mf ml,
  NoDup (ids d) -> all_claimed d -> refs_ok_b d items = true ->
  (snd (claimer_claim d ph items mf ml None) = d) /\
  (forall ret its, fst (claimer_claim d ph items mf ml None) = Ok (ret, its) -> its = map oitem_of items).
Proof.
  intros d ph items mf ml ND A R. unfold claimer_claim.
  destruct (walk d ph true) as [wb|] eqn:WB; [|split; [reflexivity | intros; discriminate]].
  destruct (walk d (rep_last ph items) false) as [wa|] eqn:WA; [|split; [reflexivity | intros; discriminate]].
  assert (Ab : all_claimed wb) by (intros x I C; apply A; [eapply walk_in; [exact WB | exact I] | exact C]).
  assert (Aa : all_claimed wa) by (intros x I C; apply A; [eapply walk_in; [exact WA | exact I] | exact C]).
  rewrite find_outer_none by exact Ab.
  assert (Af : all_claimed (from_incl d ph)).
  { intros x I C. apply A; [|exact C]. unfold from_incl in I. destruct (split_at ph d) as [[a b]|] eqn:S; [|contradiction].
    apply split_at_spec in S. destruct S as [E _]. subst d. apply in_or_app; auto. }
  destruct (find_inner_none items d (from_incl d ph) None A Af) as [s' E]. rewrite E.
  assert (s' = None) by (eapply find_inner_None_s; eauto).
  subst s'. rewrite find_outer_none by exact Aa. simpl.
  assert (M : claim_all (comments_of (map oitem_of items)) d = d).
  { rewrite claim_all_mark. apply mark_noop. intros t I J.
    unfold refs_ok_b, old_comments in R. rewrite forallb_forall in R. specialize (R _ J).
    apply existsb_exists in R. destruct R as [t1 [I1 X]]. apply andb_prop in X. destruct X as [X1 X2].
    apply Z.eqb_eq in X1. assert (t1 = t) by (apply (nodup_id_inj d); auto). subst t1. apply A; auto. }
  rewrite app_nil_r. split; [exact M|]. intros ret its X. inversion X; reflexivity.
Qed.


Theorem auto_step_noop : forall st o,
  Inv st -> all_claimed (fst st) -> auto_ok st o = true ->
  fst (cstep st o) = fst st /\ teq (snd (cstep st o)) (snd st).
Proof.
  intros [d tb] o [ND [OI SS]] A OK. simpl in ND, OI, SS, A.
  unfold auto_ok in OK. apply andb_prop in OK. destruct OK as [OK R]. apply andb_prop in OK. destruct OK as [AU OK].
  destruct o as [[n start ig ind|n start ig ind|n|n]|r ph items mf ml flt|r items flt]; simpl in AU; try discriminate.
  - (* claim_leading_comment(ignore_if_already_claimed=True) *)
    simpl. destruct (cur_of (tget tb (SLead n))) as [c0|] eqn:CUR.
    + simpl. split; auto. apply teq_tset_same.
      destruct (SS n) as [L _]. destruct (tget tb (SLead n)) as [|x [|y l]]; simpl in *; try discriminate; try lia.
      inversion CUR; reflexivity.
    + destruct (claim_comment None d start true ig ind) as [r d'] eqn:E.
      destruct (claim_comment_cases d start true ig ind r d' ND E) as [[E1 E2]|[t [d2 [_ [I [C [U _]]]]]]].
      * subst d'. destruct E2 as [E2|[e E2]]; subst r; simpl; split; auto; [|intros s; reflexivity].
        apply teq_tset_same. apply cur_of_nil; auto.
      * rewrite (A t I C) in U. discriminate.
  - simpl. destruct (cur_of (tget tb (STrail n))) as [c0|] eqn:CUR.
    + simpl. split; auto. apply teq_tset_same.
      destruct (SS n) as [_ L]. destruct (tget tb (STrail n)) as [|x [|y l]]; simpl in *; try discriminate; try lia.
      inversion CUR; reflexivity.
    + destruct (claim_comment None d start false ig ind) as [r d'] eqn:E.
      destruct (claim_comment_cases d start false ig ind r d' ND E) as [[E1 E2]|[t [d2 [_ [I [C [U _]]]]]]].
      * subst d'. destruct E2 as [E2|[e E2]]; subst r; simpl; split; auto; [|intros s; reflexivity].
        apply teq_tset_same. apply cur_of_nil; auto.
      * rewrite (A t I C) in U. discriminate.
  - (* claim_interleaving_comments() *)
    destruct flt; [discriminate|]. simpl in OK, R. apply andb_prop in OK. destruct OK as [EQ _].
    apply list_eqb_Z in EQ.
    destruct (claimer_noop d ph items mf ml ND A R) as [D I]. simpl.
    destruct (claimer_claim d ph items mf ml None) as [res d'] eqn:E. simpl in D, I. subst d'.
    destruct res as [[ret its]|e]; simpl; split; auto; [|intros s; reflexivity].
    rewrite (I ret its eq_refl). apply teq_tset_same. symmetry. exact EQ.
Qed.

Fixpoint hist_auto_ok (ops : list cop) (st : doc * table) : bool :=
  match ops with [] => true | o :: r => auto_ok st o && hist_auto_ok r (cstep st o) end.

Lemma auto_ok_op_ok : forall st o, auto_ok st o = true -> op_ok st o = true.
Proof.
  intros st o H. unfold auto_ok in H. apply andb_prop in H. destruct H as [H _].
  apply andb_prop in H. apply H.
Qed.

Theorem auto_history_noop : forall ops st,
  Inv st -> all_claimed (fst st) -> hist_auto_ok ops st = true ->
  fst (fold_left cstep ops st) = fst st /\ teq (snd (fold_left cstep ops st)) (snd st).
Proof.
  induction ops as [|o ops IH]; simpl; intros st H A OK; [split; [auto | intros s; auto]|].
  apply andb_prop in OK. destruct OK as [O1 O2].
  destruct (auto_step_noop st o H A O1) as [D T].
  assert (H' : Inv (cstep st o)) by (apply cstep_inv; auto; apply auto_ok_op_ok; auto).
  assert (A' : all_claimed (fst (cstep st o))) by (rewrite D; exact A).
  destruct (IH (cstep st o) H' A' O2) as [D2 T2]. split; [congruence|].
  intros s. rewrite T2. apply T.
Qed.

(* the restore theorem with its shape hypothesis in checkable form *)
Lemma adjacent_comment_shape : forall d start bw ind c,
  adjacent_comment d start bw ind = Some c ->
  exists first w' ign1 nl ign2 rest,
    walk d start bw = Some (first :: w') /\ first :: w' = ign1 ++ nl :: ign2 ++ c :: rest /\
    forallb is_ph ign1 = true /\ forallb is_ph ign2 = true /\ is_nl nl = true /\ is_comment c = true /\
    match ind with Some b => comment_indented c = b | None => True end.
Proof.
  intros d start bw ind c H. unfold adjacent_comment in H.
  destruct (walk d start bw) as [w|] eqn:W; [|discriminate].
  destruct (take_ignored w) as [ign1 r1] eqn:T1. destruct r1 as [|nl r1']; [discriminate|].
  destruct (is_nl nl) eqn:INL; [|discriminate].
  destruct (take_ignored r1') as [ign2 r2] eqn:T2. destruct r2 as [|c0 rest]; [discriminate|].
  destruct (is_comment c0) eqn:IC; simpl in H; [|discriminate].
  destruct (match ind with Some b => Bool.eqb (comment_indented c0) b | None => true end) eqn:IND; [|discriminate].
  inversion H; subst c0.
  apply take_ignored_spec in T1. destruct T1 as [T1 P1].
  apply take_ignored_spec in T2. destruct T2 as [T2 P2]. subst r1'.
  destruct w as [|first w']; [destruct ign1; discriminate|].
  exists first, w', ign1, nl, ign2, rest. repeat split; auto.
  destruct ind as [b|]; auto. apply Bool.eqb_prop in IND. exact IND.
Qed.

Theorem sstep_unclaim_claim_b : forall (lead : bool) d tb n start ig ind c,
  NoDup (ids d) ->
  adjacent_comment d start lead ind = Some c -> t_claimed c = true ->
  tget tb (if lead then SLead n else STrail n) = [t_id c] ->
  let st' := sstep (sstep (d, tb) (if lead then UnclaimLead n else UnclaimTrail n))
                   (if lead then ClaimLead n start ig ind else ClaimTrail n start ig ind) in
  teq (snd st') tb /\ Permutation (fst st') d.
Proof.
  intros lead d tb n start ig ind c ND ADJ CL TG.
  destruct (adjacent_comment_shape d start lead ind c ADJ)
    as [first [w' [ign1 [nl [ign2 [rest [W [HW [P1 [P2 [INL [IC IND]]]]]]]]]]]].
  eapply sstep_unclaim_claim; eauto.
Qed.

(* ---- unclaim_interleaving_comments(cs) followed by claim_interleaving_comments(cs) ------------------ *)
Lemma cs_mem_some : forall S i, cs_mem (Some S) i = true <-> In i S.
Proof. intros; simpl. apply memz_in. Qed.

Lemma cs_discard_in : forall S i x, In x (filter (fun y => negb (y =? i)) S) <-> In x S /\ x <> i.
Proof.
  intros. rewrite filter_In. split; intros [A B]; split; auto.
  - intro E; subst. rewrite Z.eqb_refl in B. discriminate.
  - apply negb_true_iff. apply Z.eqb_neq. auto.
Qed.

Lemma find_outer_set : forall w prev limit S l s',
  find_outer prev w limit (Some S) = (l, s') ->
  exists S', s' = Some S' /\ (forall x, In x S' <-> In x S /\ ~ In x l) /\ (forall x, In x l -> In x S).
Proof.
  induction w as [|t w IH]; simpl; intros prev limit S l s' H.
  - inversion H; subst. exists S. split; auto. split; [intros; tauto | intros x []].
  - destruct (prev =? limit); [inversion H; subst; exists S; split; auto; split; [intros; tauto | intros x []]|].
    destruct (is_nl t || is_ws t || text_empty t); [eapply IH; eauto|].
    destruct (is_comment t); [|inversion H; subst; exists S; split; auto; split; [intros; tauto | intros x []]].
    destruct (t_claimed t); [inversion H; subst; exists S; split; auto; split; [intros; tauto | intros x []]|].
    destruct (existsb (Z.eqb (t_id t)) S) eqn:M; [|eapply IH; eauto].
    destruct (find_outer (t_id t) w limit (Some (filter (fun x => negb (x =? t_id t)) S))) as [l0 s0] eqn:E.
    inversion H; subst. destruct (IH _ _ _ _ _ E) as [S' [E1 [E2 E3]]]. exists S'. split; auto. split.
    + intros x. rewrite E2, cs_discard_in. simpl. split.
      * intros [[A B] C]. split; auto. intros [D|D]; [apply B; auto | apply C; auto].
      * intros [A B]. split; [split; auto; intro; subst; apply B; left; auto | intro; apply B; right; auto].
    + intros x [D|D]; [subst; apply memz_in; exact M | apply E3 in D; apply cs_discard_in in D; apply D].
Qed.

Lemma scan_until_set : forall e w S l s',
  scan_until e w (Some S) = (l, s') ->
  exists S', s' = Some S' /\ (forall x, In x S' <-> In x S /\ ~ In x l) /\ (forall x, In x l -> In x S).
Proof.
  induction w as [|t w IH]; simpl; intros S l s' H.
  - inversion H; subst. exists S. split; auto. split; [intros; tauto | intros x []].
  - destruct (t_id t =? e); [inversion H; subst; exists S; split; auto; split; [intros; tauto | intros x []]|].
    destruct (is_comment t && existsb (Z.eqb (t_id t)) S && negb (t_claimed t)) eqn:C; [|eapply IH; eauto].
    apply andb_prop in C. destruct C as [C _]. apply andb_prop in C. destruct C as [_ M].
    destruct (scan_until e w (Some (filter (fun x => negb (x =? t_id t)) S))) as [l0 s0] eqn:E.
    inversion H; subst. destruct (IH _ _ _ E) as [S' [E1 [E2 E3]]]. exists S'. split; auto. split.
    + intros x. rewrite E2, cs_discard_in. simpl. split.
      * intros [[A B] C]. split; auto. intros [D|D]; [apply B; auto | apply C; auto].
      * intros [A B]. split; [split; auto; intro; subst; apply B; left; auto | intro; apply B; right; auto].
    + intros x [D|D]; [subst; apply memz_in; exact M | apply E3 in D; apply cs_discard_in in D; apply D].
Qed.

Lemma comments_of_cons : forall it l,
  comments_of (oitem_of it :: l) = (if it_comment it then [it_ref it] else []) ++ comments_of l.
Proof. intros. unfold comments_of, oitem_of. simpl. destruct (it_comment it); reflexivity. Qed.

Lemma find_inner_set : forall items d w S l s',
  find_inner d w items (Some S) = (l, s') ->
  exists S', s' = Some S' /\ (forall x, In x S' <-> In x S /\ ~ In x (comments_of l)) /\
             (forall x, In x (comments_of l) -> In x S \/ In x (old_comments items)).
Proof.
  induction items as [|it rest IH]; simpl; intros d w S l s' H.
  - inversion H; subst. exists S. split; auto. split; [intros; simpl; tauto | intros x []].
  - destruct (scan_until (it_first it) w (Some S)) as [found s1] eqn:SC.
    destruct (scan_until_set _ _ _ _ _ SC) as [S1 [E1 [A1 B1]]]. subst s1.
    set (S2 := if it_comment it then filter (fun x => negb (x =? it_ref it)) S1 else S1).
    assert (ES : (if it_comment it then cs_discard (Some S1) (it_ref it) else Some S1) = Some S2)
      by (unfold S2; destruct (it_comment it); reflexivity).
    rewrite ES in H.
    destruct (find_inner d (after d (it_last it)) rest (Some S2)) as [l0 s3] eqn:FI.
    inversion H; subst l s'. destruct (IH _ _ _ _ _ FI) as [S' [E2 [A2 B2]]]. exists S'. split; auto.
    unfold old_comments. simpl map. rewrite comments_of_app, comments_of_true, !comments_of_cons.
    fold (old_comments rest).
    assert (IS2 : forall x, In x S2 <-> In x S1 /\ ~ In x (if it_comment it then [it_ref it] else [])).
    { intros x. unfold S2. destruct (it_comment it).
      - rewrite cs_discard_in. simpl. split; [intros [P Q]; split; auto; intros [R|[]]; auto
                                             | intros [P Q]; split; auto; intro; apply Q; left; auto].
      - simpl. tauto. }
    split.
    + intros x. rewrite A2, IS2, A1. rewrite !in_app_iff. tauto.
    + intros x I. rewrite !in_app_iff in I. rewrite in_app_iff. destruct I as [I|[I|I]].
      * left. apply B1; auto.
      * right. left. auto.
      * apply B2 in I. destruct I as [I|I]; [|right; right; auto].
        left. apply IS2 in I. apply A1. apply I.
Qed.

Lemma claimer_set : forall d ph items mf ml U ret its d',
  claimer_claim d ph items mf ml (Some U) = (Ok (ret, its), d') ->
  (forall x, In x U -> In x (comments_of its)) /\
  (forall x, In x (comments_of its) -> In x U \/ In x (old_comments items)).
Proof.
  intros d ph items mf ml U ret its d' H. unfold claimer_claim in H.
  destruct (walk d ph true) as [wb|]; [|discriminate].
  destruct (walk d (rep_last ph items) false) as [wa|]; [|discriminate].
  destruct (find_outer ph wb mf (Some U)) as [cb_rev s1] eqn:FO1.
  destruct (find_outer_set _ _ _ _ _ _ FO1) as [S1 [E1 [A1 B1]]]. subst s1.
  destruct (find_inner d (from_incl d ph) items (Some S1)) as [inner s2] eqn:FI.
  destruct (find_inner_set _ _ _ _ _ _ FI) as [S2 [E2 [A2 B2]]]. subst s2.
  destruct (find_outer (rep_last ph items) wa ml (Some S2)) as [ca s3] eqn:FO2.
  destruct (find_outer_set _ _ _ _ _ _ FO2) as [S3 [E3 [A3 B3]]]. subst s3.
  destruct S3 as [|z S3]; simpl in H; [|discriminate].
  destruct (match rev cb_rev with c0 :: _ => shift_ignored d c0 ph true | [] => Some d end) as [d1|]; [|discriminate].
  destruct (match rev ca, wa with
            | cl :: _, f :: _ => shift_ignored d1 (t_id f) cl false
            | _ :: _, [] => None
            | [], _ => Some d1 end) as [d2|]; [|discriminate].
  inversion H; subst. clear H.
  rewrite !comments_of_app, !comments_of_true. split.
  - intros x I. rewrite !in_app_iff.
    destruct (in_dec Z.eq_dec x cb_rev) as [K1|K1]; [left; apply in_rev in K1; auto|].
    destruct (in_dec Z.eq_dec x (comments_of inner)) as [K2|K2]; [right; left; auto|].
    destruct (in_dec Z.eq_dec x ca) as [K3|K3]; [right; right; auto|].
    exfalso. assert (In x []); [|contradiction]. apply A3. split; auto. apply A2. split; auto. apply A1. auto.
  - intros x I. rewrite !in_app_iff in I. destruct I as [I|[I|I]].
    + left. apply B1. apply in_rev. exact I.
    + apply B2 in I. destruct I as [I|I]; [left; apply A1 in I; apply I | right; auto].
    + left. apply B3 in I. apply A2 in I. destruct I as [I _]. apply A1 in I. apply I.
Qed.

Lemma refs_ok_comment : forall d items c, refs_ok_b d items = true -> In c (old_comments items) ->
  exists t, In t d /\ t_id t = c /\ is_comment t = true.
Proof.
  intros d items c R I. unfold refs_ok_b in R. rewrite forallb_forall in R. specialize (R c I).
  apply existsb_exists in R. destruct R as [t [It X]]. apply andb_prop in X. destruct X as [X1 X2].
  apply Z.eqb_eq in X1. exists t; auto.
Qed.

Theorem inter_unclaim_claim : forall d tb r items flt un kept d1 ph items2 mf ml ret its d2,
  Inv (d, tb) -> refs_ok_b d items = true -> old_comments items = tget tb (SRep r) ->
  unclaim_inter d items flt = (Ok (un, kept), d1) ->
  map oitem_of items2 = kept -> items_ordered_b d1 ph items2 = true ->
  claimer_claim d1 ph items2 mf ml (Some un) = (Ok (ret, its), d2) ->
  (forall c, count_z c (comments_of its) = count_z c (old_comments items)) /\ Permutation d2 d.
Proof.
  intros d tb r items flt un kept d1 ph items2 mf ml ret its d2 [ND [OI SS]] R EQ HU K ORD HC.
  simpl in ND, OI, SS.
  (* the un-claim *)
  unfold unclaim_inter in HU.
  destruct (unclaim_scan items flt match flt with None => true | Some _ => false end) as [[kept0 un0] s'] eqn:SC.
  pose proof (unclaim_scan_count _ _ _ _ _ _ SC) as CNTu.
  destruct (negb match flt with None => true | Some _ => false end && cs_nonempty s'); [discriminate|].
  inversion HU; subst un0 kept0 d1. clear HU. rewrite unclaim_all_mark in *.
  assert (ND1 : NoDup (ids (mark un false d))) by (rewrite mark_ids; exact ND).
  (* every referenced comment is a claimed block comment of d, referenced once *)
  assert (OLD : forall c, In c (old_comments items) ->
                exists t, In t d /\ t_id t = c /\ is_comment t = true /\ t_claimed t = true /\
                          (count_z c (old_comments items) <= 1)%nat).
  { intros c I. destruct (refs_ok_comment d items c R I) as [t [It [Et Ct]]]. exists t. repeat split; auto.
    - destruct (OI t It Ct) as [A B]. apply B. rewrite Et.
      pose proof (owners_ge_tget c tb (SRep r)) as G. rewrite <- EQ in G. apply count_z_in in I. rewrite Et in A. lia.
    - destruct (OI t It Ct) as [A B]. pose proof (owners_ge_tget c tb (SRep r)) as G. rewrite <- EQ in G.
      rewrite Et in A. lia. }
  assert (UNOLD : forall c, In c un -> In c (old_comments items)).
  { intros c I. apply count_z_in. apply count_z_in in I. specialize (CNTu c). lia. }
  (* the claim *)
  destruct (claimer_claim_cases _ _ _ _ _ _ _ _ ND1 ORD HC) as [[_ [e X]]|[found [its' [d2' [ret' [X [P [Ed2 [FI CNT]]]]]]]]];
    [discriminate|]. inversion X; subst ret' its'. clear X.
  destruct (claimer_set _ _ _ _ _ _ _ _ _ HC) as [S1 S2].
  assert (OC2 : old_comments items2 = comments_of kept) by (unfold old_comments; rewrite K; reflexivity).
  rewrite OC2 in *.
  destruct FI as [NDf Hf].
  assert (FOUND : forall c, count_z c found = count_z c un).
  { intros c. pose proof (count_z_nodup c found NDf) as LEf.
    destruct (in_dec Z.eq_dec c un) as [Iu|Iu].
    - destruct (OLD c (UNOLD c Iu)) as [_ [_ [_ [_ [_ LE]]]]].
      assert (count_z c un >= 1)%nat by (apply count_z_in; auto).
      assert (count_z c (comments_of its) >= 1)%nat by (apply count_z_in; auto).
      specialize (CNTu c). specialize (CNT c). lia.
    - assert (Z0 : count_z c un = 0%nat).
      { destruct (count_z c un) eqn:E; auto. exfalso. apply Iu. apply count_z_in. lia. }
      rewrite Z0. destruct (count_z c found) eqn:E; auto. exfalso.
      assert (If : In c found) by (apply count_z_in; lia).
      destruct (Hf c If) as [t1 [I1 [E1 [C1 U1]]]].
      apply in_mark in I1. destruct I1 as [t [It Em]].
      assert (Et : t_id t = c) by (subst t1; destruct (memz (t_id t) un); exact E1).
      assert (M : memz (t_id t) un = false).
      { destruct (memz (t_id t) un) eqn:MM; auto. apply memz_in in MM. rewrite Et in MM. contradiction. }
      rewrite M in Em. subst t1.
      assert (Ic : In c (comments_of its)) by (apply count_z_in; specialize (CNT c); lia).
      apply S2 in Ic. destruct Ic as [Ic|Ic]; [contradiction|].
      assert (Io : In c (old_comments items)).
      { apply count_z_in. apply count_z_in in Ic. specialize (CNTu c). lia. }
      destruct (OLD c Io) as [t' [It' [Et' [_ [CL' _]]]]].
      assert (t' = t) by (apply (nodup_id_inj d); auto; congruence). subst t'. congruence. }
  split.
  - intros c. specialize (CNT c). specialize (CNTu c). rewrite (FOUND c) in CNT. lia.
  - subst d2. eapply Permutation_trans; [unfold mark at 1; apply Permutation_map; exact P|].
    assert (E : map (fun t => if memz (t_id t) (comments_of its) then set_flag true t else t) (mark un false d) = d).
    { unfold mark. rewrite map_map. rewrite <- (map_id d) at 2. apply map_ext_in. intros t It. unfold id.
      assert (CLAIMED : In (t_id t) (old_comments items) -> t_claimed t = true).
      { intros Io. destruct (OLD _ Io) as [t' [It' [Et' [_ [CL' _]]]]].
        assert (t' = t) by (apply (nodup_id_inj d); auto). subst; auto. }
      destruct (memz (t_id t) un) eqn:M.
      - apply memz_in in M. simpl.
        assert (M2 : memz (t_id t) (comments_of its) = true) by (apply memz_in; apply S1; auto).
        rewrite M2. change (set_flag true t = t). apply set_flag_claimed_id. apply CLAIMED. apply UNOLD. auto.
      - destruct (memz (t_id t) (comments_of its)) eqn:M2; auto.
        apply memz_in in M2. apply S2 in M2. destruct M2 as [M2|M2].
        + apply memz_in in M2. congruence.
        + apply set_flag_claimed_id. apply CLAIMED.
          apply count_z_in. apply count_z_in in M2. specialize (CNTu (t_id t)). lia. }
    rewrite E. apply Permutation_refl.
Qed.

(* ---- the attribution rule for one surrounding claim, as a function ------------------------------- *)
Definition claim_spec (d : doc) (start : Z) (bw ig : bool) (ind : option bool) : res (option Z) :=
  match adjacent_comment d start bw ind with
  | Some c => if t_claimed c then (if ig then Ok None else Err ValueError) else Ok (Some (t_id c))
  | None => Ok None
  end.

Theorem claim_comment_is_spec : forall d start bw ig ind,
  NoDup (ids d) -> walk d start bw <> None ->
  fst (claim_comment None d start bw ig ind) = claim_spec d start bw ig ind.
Proof.
  intros d start bw ig ind ND WN. unfold claim_spec.
  destruct (adjacent_comment d start bw ind) as [c|] eqn:ADJ.
  - destruct (adjacent_comment_shape d start bw ind c ADJ)
      as [first [w' [ign1 [nl [ign2 [rest [W [HW [P1 [P2 [INL [IC IND]]]]]]]]]]]].
    destruct (t_claimed c) eqn:CL.
    + unfold claim_comment. rewrite W, HW.
      rewrite (take_ignored_app ign1 nl _ P1 (is_nl_not_ph _ INL)). rewrite INL. simpl negb. cbv iota.
      rewrite (take_ignored_app ign2 c _ P2 (is_comment_not_ph _ IC)). rewrite IC. simpl negb. cbv iota.
      assert (E : match ind with Some b => negb (Bool.eqb (comment_indented c) b) | None => false end = false).
      { destruct ind as [b|]; auto. rewrite IND. rewrite Bool.eqb_reflx. reflexivity. }
      rewrite E, CL. destruct ig; reflexivity.
    + destruct (claim_comment_complete d start bw ig ind first w' ign1 nl ign2 c rest ND W HW P1 P2 INL IC CL IND)
        as [d2 [_ E]]. rewrite E. reflexivity.
  - destruct (claim_comment None d start bw ig ind) as [r d'] eqn:E. simpl.
    unfold claim_comment in E. unfold adjacent_comment in ADJ.
    destruct (walk d start bw) as [w|] eqn:W; [|contradiction].
    destruct w as [|first w']; [inversion E; auto|].
    destruct (take_ignored (first :: w')) as [ign1 r1] eqn:T1.
    destruct r1 as [|nl r1']; [inversion E; auto|].
    destruct (is_nl nl); simpl in E; [|inversion E; auto].
    destruct (take_ignored r1') as [ign2 r2] eqn:T2.
    destruct r2 as [|c rest]; [inversion E; auto|].
    destruct (is_comment c); simpl in E, ADJ; [|inversion E; auto].
    destruct ind as [b|]; simpl in E, ADJ.
    + destruct (Bool.eqb (comment_indented c) b); simpl in E, ADJ; [discriminate | inversion E; auto].
    + discriminate.
Qed.

(* ---- the rule for one surrounding claim, stated on the token list (no scan functions) -------------- *)
Definition adjacent_decl (d : doc) (start : Z) (bw : bool) (ind : option bool) (c : tok) : Prop :=
  exists pre s g1 nl g2 post,
    (if bw then d = pre ++ c :: g2 ++ nl :: g1 ++ s :: post
     else d = pre ++ s :: g1 ++ nl :: g2 ++ c :: post) /\
    t_id s = start /\ forallb is_ph g1 = true /\ forallb is_ph g2 = true /\
    is_nl nl = true /\ is_comment c = true /\ t_claimed c = false /\
    match ind with Some b => comment_indented c = b | None => True end.

Lemma forallb_rev : forall (f : tok -> bool) l, forallb f (rev l) = forallb f l.
Proof.
  induction l as [|x l IH]; simpl; auto. rewrite forallb_app, IH. simpl. rewrite andb_true_r. apply andb_comm.
Qed.

Theorem rule_single_claim : forall d start bw ig ind i,
  NoDup (ids d) ->
  (fst (claim_comment None d start bw ig ind) = Ok (Some i) <->
   exists c, t_id c = i /\ adjacent_decl d start bw ind c).
Proof.
  intros d start bw ig ind i ND. split.
  - intros H.
    destruct (walk d start bw) as [w|] eqn:W.
    + rewrite claim_comment_is_spec in H by (auto; congruence). unfold claim_spec in H.
      destruct (adjacent_comment d start bw ind) as [c|] eqn:ADJ; [|discriminate].
      destruct (t_claimed c) eqn:CL; [destruct ig; discriminate|]. inversion H; subst i. exists c. split; auto.
      destruct (adjacent_comment_shape d start bw ind c ADJ)
        as [first [w' [ign1 [nl [ign2 [rest [W' [HW [P1 [P2 [INL [IC IND]]]]]]]]]]]].
      unfold walk in W'. destruct (split_at start d) as [[a sb]|] eqn:S; [|discriminate].
      destruct sb as [|s b]; [discriminate|]. apply split_at_spec in S.
      destruct S as [Hd [x0 [r0 [E0 I0]]]]. inversion E0; subst x0 r0.
      destruct bw; injection W' as HR.
      * assert (Ea : a = rev rest ++ c :: rev ign2 ++ nl :: rev ign1).
        { rewrite <- (rev_involutive a), HR, HW. rewrite rev_app_distr. simpl. rewrite rev_app_distr. simpl.
          rewrite <- ?app_assoc. simpl. rewrite <- ?app_assoc. reflexivity. }
        exists (rev rest), s, (rev ign1), nl, (rev ign2), b.
        split; [rewrite Hd, Ea; rewrite <- ?app_assoc; simpl; rewrite <- ?app_assoc; reflexivity|].
        split; [exact I0|]. split; [rewrite forallb_rev; exact P1|]. split; [rewrite forallb_rev; exact P2|].
        split; [exact INL|]. split; [exact IC|]. split; [exact CL | exact IND].
      * exists a, s, ign1, nl, ign2, rest.
        split; [rewrite Hd, HR, HW; reflexivity|].
        split; [exact I0|]. split; [exact P1|]. split; [exact P2|].
        split; [exact INL|]. split; [exact IC|]. split; [exact CL | exact IND].
    + unfold claim_comment in H. rewrite W in H. discriminate.
  - intros [c [Ei [pre [s [g1 [nl [g2 [post [Hd [Es [P1 [P2 [INL [IC [CL IND]]]]]]]]]]]]]]]. subst i start.
    destruct bw.
    + assert (W : walk d (t_id s) true = Some (rev g1 ++ nl :: rev g2 ++ c :: rev pre)).
      { unfold walk. assert (E : d = (pre ++ c :: g2 ++ nl :: g1) ++ s :: post).
        { rewrite Hd. rewrite <- ?app_assoc. simpl. rewrite <- ?app_assoc. reflexivity. }
        rewrite E. rewrite split_at_unique by (eapply nodup_mid; rewrite <- E; exact ND).
        f_equal. rewrite rev_app_distr. simpl. rewrite rev_app_distr. simpl.
        rewrite <- ?app_assoc. simpl. rewrite <- ?app_assoc. reflexivity. }
      destruct (rev g1 ++ nl :: rev g2 ++ c :: rev pre) as [|first w'] eqn:HW; [destruct (rev g1); discriminate|].
      destruct (claim_comment_complete d (t_id s) true ig ind first w' (rev g1) nl (rev g2) c (rev pre) ND W
                  (eq_sym HW)) as [d2 [_ E]]; auto; try (rewrite forallb_rev; auto).
      rewrite E. reflexivity.
    + assert (W : walk d (t_id s) false = Some (g1 ++ nl :: g2 ++ c :: post)).
      { unfold walk. rewrite Hd. rewrite split_at_unique by (eapply nodup_mid; rewrite <- Hd; exact ND). reflexivity. }
      destruct (g1 ++ nl :: g2 ++ c :: post) as [|first w'] eqn:HW; [destruct g1; discriminate|].
      destruct (claim_comment_complete d (t_id s) false ig ind first w' g1 nl g2 c post ND W (eq_sym HW))
        as [d2 [_ E]]; auto.
      rewrite E. reflexivity.
Qed.
