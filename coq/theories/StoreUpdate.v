(* Token text updates: TokenStore.update keeps the block caches equal to what a fresh scan computes
   (all four branches), hence set_text preserves the invariant, changes only that token's text and
   leaves the sequence of tokens alone (C02, C08). *)
From AB Require Export StoreObs.
From Coq Require Import ZifyBool.

Lemma app_cons_cases {A} (P : list A) : forall t Q A0 z B, P ++ t :: Q = A0 ++ z :: B ->
  (exists M, A0 = P ++ t :: M /\ Q = M ++ z :: B) \/ (P = A0 /\ t = z /\ Q = B) \/
  (exists M, P = A0 ++ z :: M /\ B = M ++ t :: Q).
Proof.
  induction P as [|p P IH]; intros t Q A0 z B E.
  - destruct A0 as [|a A0]; cbn [app] in E; injection E as -> ->.
    + right; left; auto.
    + left. exists A0. auto.
  - destruct A0 as [|a A0]; cbn [app] in E; injection E as -> E.
    + right; right. exists P. auto.
    + destruct (IH _ _ _ _ _ E) as [(M & -> & ->)|[(-> & -> & ->)|(M & -> & ->)]].
      * left. exists M. auto.
      * right; left; auto.
      * right; right. exists M. auto.
Qed.

Lemma enum_from_app {A} (a : list A) : forall i b, enum_from i (a ++ b) = enum_from i a ++ enum_from (i + zlen a) b.
Proof.
  induction a as [|x r IH]; intros i b; cbn [app enum_from].
  - rewrite zlen_nil. f_equal. lia.
  - rewrite IH, zlen_cons. do 3 f_equal. lia.
Qed.

Lemma back_scan_nonl tk B : forall i rest c, nonl tk B ->
  back_scan tk (rev (enum_from i B) ++ rest) c = back_scan tk rest (c + cols tk B).
Proof.
  induction B as [|x r IH]; intros i rest c H; cbn [enum_from rev app].
  - rewrite cols_nil. f_equal. lia.
  - rewrite <- app_assoc. rewrite IH by (intros u Hu; apply H; apply in_cons; assumption).
    cbn [app back_scan]. fold (tsz tk x). rewrite (H x (in_eq _ _)). cbn [Z.eqb negb].
    rewrite cols_cons. f_equal. lia.
Qed.

Lemma back_scan_all_nonl tk P c : nonl tk P -> back_scan tk (rev (enum_from 0 P)) c = (c + cols tk P, -1).
Proof. intro H. rewrite <- (app_nil_r (rev _)), back_scan_nonl by assumption. reflexivity. Qed.

Lemma back_scan_nl tk A1 z1 B1 c : line (tsz tk z1) <> 0 -> nonl tk B1 ->
  back_scan tk (rev (enum_from 0 (A1 ++ z1 :: B1))) c = (c + cols tk B1 + col (tsz tk z1), zlen A1).
Proof.
  intros Hz HB. rewrite enum_from_app. cbn [enum_from]. rewrite rev_app_distr. cbn [rev].
  rewrite <- app_assoc, back_scan_nonl by assumption. cbn [app back_scan]. fold (tsz tk z1).
  destruct (Z.eqb_spec (line (tsz tk z1)) 0); [contradiction|]. cbn [negb]. f_equal.
Qed.

Ltac case_ltb := match goal with |- context [Z.ltb ?a ?b] => destruct (Z.ltb_spec a b) end.

Ltac fin0 := rewrite <- ?app_assoc; cbn [app line col pos0] in *.

Section Cache.
Variables (tk : tokmap) (t : positive) (r' : tokrec).
Let tk' := PositiveMap.add t r' tk.
Let size := t_size r'.

Lemma tsz_upd_same : tsz tk' t = size.
Proof. unfold tsz, tk'. rewrite tget_add_same. reflexivity. Qed.
Lemma tsz_upd_other u : u <> t -> tsz tk' u = tsz tk u.
Proof. intro. unfold tsz, tk'. rewrite tget_add_other by assumption. reflexivity. Qed.
Lemma upd_ext L : ~ In t L -> forall u, In u L -> tsz tk' u = tsz tk u.
Proof. intros H u Hu. apply tsz_upd_other. intro; subst; contradiction. Qed.
Lemma upd_nonl L : ~ In t L -> nonl tk L -> nonl tk' L.
Proof. intros H N u Hu. rewrite (upd_ext L H u Hu). apply N; assumption. Qed.

Lemma update_cache P Q sz l : ~ In t P -> ~ In t Q ->
  sizes_scan tk 0 (P ++ t :: Q) pos0 (-1) = (sz, l) ->
  let hi := zlen P in let old := tsz tk t in
  let sz1 := mkpos (line sz + (line size - line old)) (col sz) in
  sizes_scan tk' 0 (P ++ t :: Q) pos0 (-1) =
   (if hi <? l then (sz1, l)
    else if negb (line size =? 0) && (line old =? 0) then (mkpos (line sz1) (col size + cols tk Q), hi)
    else if negb (line old =? 0) && (line size =? 0) then
       let '(c, l') := back_scan tk (rev (enum_from 0 P)) (col sz1 + col size - col old) in (mkpos (line sz1) c, l')
    else (mkpos (line sz1) (col sz1 + (col size - col old)), l)).
Proof.
  intros HP HQ Hscan hi old sz1.
  assert (sum_lines tk' (P ++ t :: Q) = sum_lines tk (P ++ t :: Q) + (line size - line old)) as Hlines.
  { rewrite !sum_lines_app, !sum_lines_cons, tsz_upd_same.
    rewrite (sum_lines_ext tk tk' P (upd_ext P HP)), (sum_lines_ext tk tk' Q (upd_ext Q HQ)). subst old. lia. }
  assert (line sz = sum_lines tk (P ++ t :: Q)) as Hline.
  { pose proof (scan_line tk (P ++ t :: Q) 0 pos0 (-1)) as H. rewrite Hscan in H. cbn in H. lia. }
  pose proof (zlen_nonneg P) as HiNN.
  destruct (nl_decomp tk (P ++ t :: Q)) as [N|(A0 & z & B & E & Hz & HB)].
  - (* no newline token in the block *)
    rewrite scan_nonl in Hscan by assumption. injection Hscan as <- <-.
    assert (line old = 0) as Hold by (apply N; apply in_or_app; right; apply in_eq).
    assert (nonl tk P) as NP by (intros u Hu; apply N; apply in_or_app; auto).
    assert (nonl tk Q) as NQ by (intros u Hu; apply N; apply in_or_app; right; apply in_cons; assumption).
    case_ltb; [lia|]. rewrite Hold. cbn [Z.eqb negb andb].
    destruct (Z.eqb_spec (line size) 0) as [Es|Es]; cbn [negb andb].
    + rewrite scan_nonl.
      * f_equal. subst sz1. apply pos_eq; fin0; [lia|].
        rewrite !cols_app, !cols_cons, tsz_upd_same,
          (cols_ext tk tk' P (upd_ext P HP)), (cols_ext tk tk' Q (upd_ext Q HQ)). subst old. lia.
      * intros u Hu. apply in_app_or in Hu as [Hu|[<-|Hu]];
          [apply (upd_nonl P HP NP); assumption|rewrite tsz_upd_same; assumption|apply (upd_nonl Q HQ NQ); assumption].
    + rewrite scan_nl by (rewrite ?tsz_upd_same; auto using upd_nonl).
      rewrite Hlines, tsz_upd_same, (cols_ext tk tk' Q (upd_ext Q HQ)). f_equal.
      subst sz1. apply pos_eq; fin0; lia.
  - (* last newline token z at index |A0| *)
    rewrite E, scan_nl in Hscan by assumption. injection Hscan as <- <-. rewrite <- E in *.
    destruct (app_cons_cases _ _ _ _ _ _ E) as [(M & -> & ->)|[(-> & <- & ->)|(M & -> & ->)]].
    + (* t before z *)
      assert (z <> t) as Nz by (intro; subst; apply HQ; apply in_or_app; right; apply in_eq).
      assert (~ In t B) as HB' by (intro; apply HQ; apply in_or_app; right; apply in_cons; assumption).
      rewrite zlen_app, zlen_cons. pose proof (zlen_nonneg M).
      case_ltb; [|subst hi; lia].
      rewrite E, scan_nl by (rewrite ?tsz_upd_other; auto using upd_nonl). rewrite <- E, Hlines.
      rewrite tsz_upd_other, (cols_ext tk tk' B (upd_ext B HB')) by assumption. f_equal; [subst sz1; apply pos_eq; fin0; lia|rewrite ?zlen_app, ?zlen_cons; lia ..].
    + (* t is the last newline token *)
      case_ltb; [subst hi; lia|].
      fold old in Hz. destruct (Z.eqb_spec (line old) 0) as [?|_]; [contradiction|]. rewrite andb_false_r. cbn [negb andb].
      destruct (Z.eqb_spec (line size) 0) as [Es|Es].
      * (* the newline disappears *)
        destruct (nl_decomp tk A0) as [NA|(A1 & z1 & B1 & -> & Hz1 & HB1)].
        -- rewrite back_scan_all_nonl by assumption. rewrite scan_nonl.
           ++ f_equal. subst sz1. apply pos_eq; fin0.
              ** rewrite !sum_lines_app, !sum_lines_cons, (nonl_sum_lines tk A0), (nonl_sum_lines tk B) by assumption.
                 fold old. lia.
              ** rewrite !cols_app, !cols_cons, tsz_upd_same,
                   (cols_ext tk tk' A0 (upd_ext A0 HP)), (cols_ext tk tk' B (upd_ext B HQ)). fold old. lia.
           ++ intros u Hu. apply in_app_or in Hu as [Hu|[<-|Hu]];
                [apply (upd_nonl A0 HP NA); assumption|rewrite tsz_upd_same; assumption|apply (upd_nonl B HQ HB); assumption].
        -- rewrite back_scan_nl by assumption.
           assert (z1 <> t) as Nz1 by (intro; subst; apply HP; apply in_or_app; right; apply in_eq).
           assert (~ In t B1) as HB1' by (intro; apply HP; apply in_or_app; right; apply in_cons; assumption).
           assert (sizes_scan tk' 0 (A1 ++ z1 :: (B1 ++ t :: B)) pos0 (-1) =
                   (mkpos (line pos0 + sum_lines tk' (A1 ++ z1 :: (B1 ++ t :: B))) (col (tsz tk' z1) + cols tk' (B1 ++ t :: B)), 0 + zlen A1)) as S.
           { apply scan_nl; [rewrite tsz_upd_other; assumption|].
             intros u Hu. apply in_app_or in Hu as [Hu|[<-|Hu]];
               [apply (upd_nonl B1 HB1' HB1); assumption|rewrite tsz_upd_same; assumption|apply (upd_nonl B HQ HB); assumption]. }
           replace ((A1 ++ z1 :: B1) ++ t :: B) with (A1 ++ z1 :: (B1 ++ t :: B)) in * by (rewrite <- app_assoc; reflexivity).
           rewrite S, Hlines. f_equal.
           subst sz1. apply pos_eq; fin0; [lia|].
           rewrite tsz_upd_other, cols_app, cols_cons, tsz_upd_same by assumption.
           rewrite (cols_ext tk tk' B1 (upd_ext B1 HB1')), (cols_ext tk tk' B (upd_ext B HQ)). fold old. lia.
      * (* still a newline token *)
        cbn [andb].
        rewrite scan_nl by (rewrite ?tsz_upd_same; auto using upd_nonl).
        rewrite Hlines, tsz_upd_same, (cols_ext tk tk' B (upd_ext B HQ)). f_equal.
        subst sz1. apply pos_eq; fin0; fold old; lia.
    + (* t after z: t itself has no newline *)
      assert (line old = 0) as Hold by (apply HB; apply in_or_app; right; apply in_eq).
      assert (~ In t M) as HM by (intro; apply HP; apply in_or_app; right; apply in_cons; assumption).
      assert (z <> t) as Nz by (intro; subst; apply HP; apply in_or_app; right; apply in_eq).
      assert (nonl tk M) as NM by (intros u Hu; apply HB; apply in_or_app; auto).
      assert (nonl tk Q) as NQ by (intros u Hu; apply HB; apply in_or_app; right; apply in_cons; assumption).
      subst hi. rewrite zlen_app, zlen_cons. pose proof (zlen_nonneg M).
      case_ltb; [lia|].
      rewrite Hold. cbn [Z.eqb negb andb].
      destruct (Z.eqb_spec (line size) 0) as [Es|Es]; cbn [negb andb].
      * replace ((A0 ++ z :: M) ++ t :: Q) with (A0 ++ z :: (M ++ t :: Q)) in * by (rewrite <- app_assoc; reflexivity).
        rewrite scan_nl.
        -- rewrite Hlines. f_equal. subst sz1. apply pos_eq; fin0; [lia|].
           rewrite tsz_upd_other, !cols_app, !cols_cons, tsz_upd_same by assumption.
           rewrite (cols_ext tk tk' M (upd_ext M HM)), (cols_ext tk tk' Q (upd_ext Q HQ)). fold old. lia.
        -- rewrite tsz_upd_other; assumption.
        -- intros u Hu. apply in_app_or in Hu as [Hu|[<-|Hu]];
             [apply (upd_nonl M HM NM); assumption|rewrite tsz_upd_same; assumption|apply (upd_nonl Q HQ NQ); assumption].
      * rewrite scan_nl by (rewrite ?tsz_upd_same; auto using upd_nonl).
        rewrite Hlines, tsz_upd_same, (cols_ext tk tk' Q (upd_ext Q HQ)). f_equal; [subst sz1; apply pos_eq; fin0; lia|rewrite ?zlen_app, ?zlen_cons; lia ..].
Qed.
End Cache.

(* ---------- TokenStore.update and Token._update_raw_text ---------- *)
Lemma update_unfold s t size hb hi : hnd s t = Some (hb, hi) ->
  let r := bget (s_heap s) hb in let old := tsz (s_toks s) t in
  let sz1 := mkpos (line (b_size r) + (line size - line old)) (col (b_size r)) in
  let X := (if hi <? b_lnl r then (sz1, b_lnl r)
    else if negb (line size =? 0) && (line old =? 0)
         then (mkpos (line sz1) (col size + cols (s_toks s) (zskipn (hi + 1) (b_toks r))), hi)
    else if negb (line old =? 0) && (line size =? 0) then
       let '(c, l') := back_scan (s_toks s) (rev (enum_from 0 (zfirstn hi (b_toks r)))) (col sz1 + col size - col old) in
       (mkpos (line sz1) c, l')
    else (mkpos (line sz1) (col sz1 + (col size - col old)), b_lnl r)) in
  update s t size = (set_blk s hb (mkblk (b_index r) (b_toks r) (fst X) (snd X)), Ok tt).
Proof.
  intros H r old sz1 X. unfold update. rewrite check_handle_hnd, H. fold r. unfold tsz in old. fold old. fold sz1.
  subst X. destruct (hi <? b_lnl r); [reflexivity|].
  destruct (negb (line size =? 0) && (line old =? 0)); [reflexivity|].
  destruct (negb (line old =? 0) && (line size =? 0)); [|reflexivity].
  destruct (back_scan _ _ _). reflexivity.
Qed.

Lemma inv_block_nodup X s b : InvG X s -> In b (s_blocks s) -> NoDup (toks s b).
Proof.
  intros I H. pose proof (g_ndt _ _ I) as ND. unfold abs in ND.
  apply in_split in H as (l1 & l2 & E). rewrite E, flat_map_app in ND. cbn [flat_map] in ND.
  apply NoDup_app_iff in ND as (_ & ND & _). apply NoDup_app_iff in ND. tauto.
Qed.

Lemma inv_in_block_handle s b t : Inv0 s -> In b (s_blocks s) -> In t (toks s b) ->
  exists j, nth_error (toks s b) j = Some t /\ hnd s t = Some (b, Z.of_nat j).
Proof.
  intros I Hb Ht. apply In_nth_error in Ht as [j Hj]. exists j. split; [assumption|].
  apply (g_ok _ _ I b Hb); [tauto|assumption].
Qed.

Lemma settext_inv_core s s' t x : Inv0 s ->
  s_blocks s' = s_blocks s -> s_next s' = s_next s -> s_id s' = s_id s ->
  s_toks s' = PositiveMap.add t (mktok x (token_size x) (raw s t)) (s_toks s) ->
  (forall b, toks s' b = toks s b /\ bidx s' b = bidx s b) ->
  (forall b, In b (s_blocks s) -> ~ In t (toks s b) -> bsz s' b = bsz s b /\ blnl s' b = blnl s b) ->
  (forall b, In b (s_blocks s) -> In t (toks s b) ->
             sizes_scan (s_toks s') 0 (toks s b) pos0 (-1) = (bsz s' b, blnl s' b)) ->
  Inv0 s' /\ abs s' = abs s /\ (forall u, hnd s' u = hnd s u) /\ txt s' t = x /\
  (forall u, u <> t -> txt s' u = txt s u /\ tsz (s_toks s') u = tsz (s_toks s) u).
Proof.
  intros I Eb En Eid Et Hh Hother Hsame.
  assert (forall u, hnd s' u = hnd s u) as Hhnd.
  { intro u. apply hnd_ext; [exact Eid|]. unfold raw. rewrite Et. destruct (Pos.eq_dec u t) as [->|N]; [rewrite tget_add_same; reflexivity|].
    rewrite tget_add_other by assumption. reflexivity. }
  assert (forall u, u <> t -> tget (s_toks s') u = tget (s_toks s) u) as Hoth.
  { intros u N. rewrite Et. apply tget_add_other; assumption. }
  assert (abs s' = abs s) as Eabs.
  { unfold abs. rewrite Eb. apply flat_map_ext. intro b. apply Hh. }
  split; [|repeat split; auto].
  - constructor.
    + rewrite Eb. apply (g_ne _ _ I).
    + rewrite Eb. apply (g_nd _ _ I).
    + intros b Hb. rewrite Eb in Hb. rewrite En. apply (g_lt _ _ I); assumption.
    + intros i b Hb. rewrite Eb in Hb. rewrite (proj2 (Hh b)). apply (g_idx _ _ I); assumption.
    + rewrite Eabs. apply (g_ndt _ _ I).
    + intros b Hb _. rewrite Eb in *. destruct (g_ok _ _ I b Hb) as [Hok Hne]; [tauto|].
      split; [|rewrite (proj1 (Hh b)); assumption].
      destruct (in_dec Pos.eq_dec t (toks s b)) as [Hin|Hin].
      * split; [|rewrite (proj1 (Hh b)); apply Hsame; assumption].
        intros j u Hj. rewrite (proj1 (Hh b)) in Hj. rewrite Hhnd. apply Hok; assumption.
      * destruct (Hother b Hb Hin) as [E1 E2].
        apply (blk_ok_frame s s' b Hok (proj1 (Hh b)) E1 E2).
        intros u Hu. split; [apply Hhnd|]. unfold tsz. rewrite Hoth; [reflexivity|]. intro; subst; contradiction.
    + intros u Hu. rewrite Hhnd in Hu. rewrite Eabs. apply (g_hin _ _ I); assumption.
    + intro u. unfold tsz, txt. destruct (Pos.eq_dec u t) as [->|N].
      * rewrite Et, tget_add_same. reflexivity.
      * rewrite Hoth by assumption. apply (g_sz _ _ I).
  - unfold txt. rewrite Et, tget_add_same. reflexivity.
  - unfold txt. rewrite Hoth by assumption. reflexivity.
  - unfold tsz. rewrite Hoth by assumption. reflexivity.
Qed.

Lemma set_text_unfold s t x : set_text s t x =
  let size := token_size x in
  let '(s1, rr) := match hnd s t with Some _ => update s t size | None => (s, Ok tt) end in
  match rr with
  | Err e => (s1, Err e)
  | Ok _ => let r := tget (s_toks s1) t in
            (with_toks s1 (PositiveMap.add t (mktok x size (t_handle r)) (s_toks s1)), Ok tt)
  end.
Proof.
  unfold set_text, hnd, raw. destruct (t_handle (tget (s_toks s) t)) as [[[sid b] j]|]; [|reflexivity].
  destruct (Pos.eqb sid (s_id s)); reflexivity.
Qed.

(* a text update never touches any handle, nor the identity of the store *)
Lemma set_text_raw s t x : s_id (fst (set_text s t x)) = s_id s /\ forall u, raw (fst (set_text s t x)) u = raw s u.
Proof.
  assert (forall s1, s_id s1 = s_id s -> s_toks s1 = s_toks s ->
            let s2 := with_toks s1 (PositiveMap.add t (mktok x (token_size x) (t_handle (tget (s_toks s1) t))) (s_toks s1)) in
            s_id s2 = s_id s /\ forall u, raw s2 u = raw s u) as G.
  { intros s1 E1 E2 s2. split; [exact E1|]. intro u. unfold raw, s2. cbn [s_toks with_toks]. rewrite E2.
    destruct (Pos.eq_dec u t) as [->|N]; [rewrite tget_add_same; reflexivity|rewrite tget_add_other by assumption; reflexivity]. }
  unfold set_text. destruct (t_handle (tget (s_toks s) t)) as [[[sid b] j]|]; [|apply G; reflexivity].
  destruct (Pos.eqb sid (s_id s)); [|apply G; reflexivity].
  unfold update. destruct (check_handle s t) as [[hb hi]|e]; [|cbn; auto].
  repeat match goal with |- context [if ?c then _ else _] => destruct c end;
    try (destruct (back_scan _ _ _)); apply G; reflexivity.
Qed.

Theorem set_text_spec s t x s' r : Inv s -> set_text s t x = (s', r) ->
  r = Ok tt /\ Inv s' /\ abs s' = abs s /\ (forall u, hnd s' u = hnd s u) /\ txt s' t = x /\
  (forall u, u <> t -> txt s' u = txt s u).
Proof.
  intros [I L] H. rewrite set_text_unfold in H. cbv zeta in H.
  destruct (hnd s t) as [[hb hi]|] eqn:Eh.
  - rewrite (update_unfold s t (token_size x) hb hi Eh) in H. cbv zeta in H.
    match type of H with context [mkblk _ _ (fst ?X) (snd ?X)] => set (XX := X) in * end.
    injection H as <- <-.
    destruct (inv_handle_loc s t hb hi I Eh) as (i & Hbi & Hnn & Hti & _).
    assert (In hb (s_blocks s)) as Hhb by (eapply nth_error_In; eassumption).
    set (s1 := set_blk s hb _).
    assert (s_toks s1 = s_toks s) as Etk by reflexivity.
    pose proof (inv_block_nodup _ s hb I Hhb) as NDb.
    destruct (nth_error_split_at _ _ _ Hti) as [Esplit Elen].
    assert (~ In t (firstn (Z.to_nat hi) (toks s hb)) /\ ~ In t (skipn (S (Z.to_nat hi)) (toks s hb))) as [HP HQ].
    { rewrite Esplit in NDb. apply NoDup_remove_2 in NDb. split; intro; apply NDb; apply in_or_app; auto. }
    destruct (settext_inv_core s (with_toks s1 (PositiveMap.add t
                 (mktok x (token_size x) (t_handle (tget (s_toks s1) t))) (s_toks s1))) t x I) as (I' & Ea & Hh & Ht & Hu).
    + reflexivity.
    + reflexivity.
    + reflexivity.
    + reflexivity.
    + intro b. unfold toks, bidx, s1. cbn. destruct (Pos.eq_dec b hb) as [->|N];
        [rewrite bget_add_same|rewrite bget_add_other by assumption]; auto.
    + intros b Hb Hnt. unfold bsz, blnl, s1. cbn. destruct (Pos.eq_dec b hb) as [->|N].
      * exfalso. apply Hnt. eapply nth_error_In; eassumption.
      * rewrite bget_add_other by assumption; auto.
    + intros b Hb Hin. destruct (inv_in_block_handle s b t I Hb Hin) as (j & _ & Hj).
      rewrite Eh in Hj. injection Hj as <- _.
      assert (bsz (with_toks s1 (PositiveMap.add t (mktok x (token_size x) (t_handle (tget (s_toks s1) t))) (s_toks s1))) hb = fst XX /\
              blnl (with_toks s1 (PositiveMap.add t (mktok x (token_size x) (t_handle (tget (s_toks s1) t))) (s_toks s1))) hb = snd XX) as [-> ->].
      { unfold bsz, blnl, s1. cbn [s_heap with_toks set_blk with_heap]. rewrite bget_add_same. auto. }
      rewrite <- surjective_pairing.
      destruct (g_ok _ _ I hb Hhb) as [[_ Hc] _]; [tauto|].
      rewrite Esplit in Hc.
      pose proof (update_cache (s_toks s) t (mktok x (token_size x) (t_handle (tget (s_toks s) t))) _ _ _ _ HP HQ Hc) as U.
      cbv zeta in U. rewrite <- Esplit in U. cbn [s_toks with_toks]. rewrite Etk, U. cbn [t_size].
      replace (zlen (firstn (Z.to_nat hi) (toks s hb))) with hi by (unfold zlen; lia).
      subst XX. unfold zskipn, zfirstn. replace (Z.to_nat (hi + 1)) with (S (Z.to_nat hi)) by lia. reflexivity.
    + split; [reflexivity|]. split; [split; [assumption|]|auto].
      * transitivity (zlen (abs s)); [exact L|f_equal; symmetry; exact Ea].
      * repeat split; auto. intros u N. apply Hu; assumption.
  - injection H as <- <-.
    destruct (settext_inv_core s (with_toks s (PositiveMap.add t
                 (mktok x (token_size x) (t_handle (tget (s_toks s) t))) (s_toks s))) t x I) as (I' & Ea & Hh & Ht & Hu).
    + reflexivity.
    + reflexivity.
    + reflexivity.
    + reflexivity.
    + intro b. split; reflexivity.
    + intros; split; reflexivity.
    + intros b Hb Hin. exfalso. apply (inv_free_not_in s t I Eh). apply in_abs. exists b. auto.
    + split; [reflexivity|]. split; [split; [assumption|]|].
      * transitivity (zlen (abs s)); [exact L|f_equal; symmetry; exact Ea].
      * repeat split; auto. intros u N. apply Hu; assumption.
Qed.
