(* Executable glue for the comment correspondence: the primitive calls the harness logs from the
   implementation, what it observed, and the checker evaluated by vm_compute. *)
From AB Require Import Prelude Comments.

Inductive prim :=
| PClaim (cur : option Z) (start : Z) (bw ign : bool) (ind : option bool)     (* _claim_comment *)
| PClaimer (ph : Z) (items : list item) (mfirst mlast : Z) (flt : option (list Z))   (* _CommentClaimer.claim *)
| PUnclaim (cur : option Z)                                                   (* unclaim_leading/trailing *)
| PUnclaimInter (items : list item) (flt : option (list Z)).

Record obs := mkobs { o_exc : Z; o_ret : list Z; o_items : list (bool * Z); o_after : list (Z * bool) }.
Record ccase := mkccase { c_doc : doc; c_steps : list (prim * obs) }.

Definition exn_code (e : exn) : Z :=
  match e with
  | ValueError => 1 | IndexError => 2 | KeyError => 3 | AssertionError => 4 | TypeError => 5
  | NotImplementedErr => 6 | OutOfFuel => 7 | ModelStuck => 8
  end.

Definition snap (d : doc) : list (Z * bool) := map (fun t => (t_id t, t_claimed t)) d.
Definition zb_eqb (a b : Z * bool) := (fst a =? fst b) && Bool.eqb (snd a) (snd b).
Definition bz_eqb (a b : bool * Z) := Bool.eqb (fst a) (fst b) && (snd a =? snd b).

(* result of a primitive on the model: exception code, returned ids, item list afterwards, document *)
Definition run_prim (d : doc) (p : prim) : Z * list Z * list (bool * Z) * doc :=
  match p with
  | PClaim cur start bw ign ind =>
    match claim_comment cur d start bw ign ind with
    | (Ok r, d') => (0, opt_list r, [], d')
    | (Err e, d') => (exn_code e, [], [], d')
    end
  | PUnclaim cur =>
    let '(r, _, d') := unclaim_comment cur d in (0, opt_list r, [], d')
  | PClaimer ph items mf ml flt =>
    match claimer_claim d ph items mf ml flt with
    | (Ok (r, its), d') => (0, r, its, d')
    | (Err e, d') => (exn_code e, [], map oitem_of items, d')
    end
  | PUnclaimInter items flt =>
    match unclaim_inter d items flt with
    | (Ok (r, its), d') => (0, r, its, d')
    | (Err e, d') => (exn_code e, [], map oitem_of items, d')
    end
  end.

Definition obs_ok (r : Z * list Z * list (bool * Z) * doc) (o : obs) : bool :=
  let '(e, ret, its, d') := r in
  (e =? o_exc o) && list_eqb Z.eqb ret (o_ret o) && list_eqb bz_eqb its (o_items o)
  && list_eqb zb_eqb (snap d') (o_after o).

Fixpoint run_steps (d : doc) (l : list (prim * obs)) : bool :=
  match l with
  | [] => true
  | (p, o) :: r => let x := run_prim d p in obs_ok x o && run_steps (snd x) r
  end.

(* hypotheses of the theorems, checked on every initial document: ids unique, placeholders are empty *)
Fixpoint nodup_b (l : list Z) : bool :=
  match l with [] => true | x :: r => negb (existsb (Z.eqb x) r) && nodup_b r end.
Definition doc_ok (d : doc) : bool :=
  nodup_b (map t_id d) && forallb (fun t => negb (is_ph t) || text_empty t) d.

Definition check_case (c : ccase) : bool := doc_ok (c_doc c) && run_steps (c_doc c) (c_steps c).
