(* Executable glue for the comment correspondence: the calls the harness logs from the implementation (as `cop`s
   on document + ownership table), what it observed, and the checkers evaluated by vm_compute:
     check_case : the model, run from its own threaded state, returns what the implementation returned and is in
                  the state the implementation is in (tokens, flags, the affected slot) after every call;
     hyp_case   : every hypothesis of the C14 theorems holds where the theorem is used: Inv on the initial state,
                  op_ok before every call, auto_ok before every call of a repeated auto_claim_comments once all
                  comments are claimed, the adjacency shape before every unclaim+claim of a surrounding comment,
                  claimable_b (the un-claimed comments lie in the field's range) before the claim that follows an
                  unclaim_interleaving_comments, file_cover_b before the root File's own claim_interleaving_comments()
                  (what the children left unclaimed lies in the File's range). *)
From AB Require Import Prelude Comments CommentsRange CommentsRule CommentsPlacement.

(* o_order: token ids in store order after the call (None: same order as before it); o_claimed: ids of the
   tokens whose claimed flag is set, in store order *)
Record obs := mkobs { o_exc : Z; o_ret : list Z; o_items : list (bool * Z); o_order : option (list Z);
                      o_claimed : list Z; o_slot : list Z }.
(* k_mode: 0 plain, 1 = part of the second run of auto_claim_comments, 2 = unclaim_leading/trailing that is
   followed by its claim, 3 = unclaim_interleaving_comments(cs) followed by claim_interleaving_comments(cs),
   4 = the root File's own claim_interleaving_comments() at the end of File.auto_claim_comments(),
   5 = the same at the end of the ONE File.auto_claim_comments() run on a freshly parsed store (nothing claimed): the
       history is then also compared with the declarative rule CommentsRule.attrib_spec, comment by comment *)
Record step := mkstep { k_op : eop; k_obs : obs; k_mode : Z }.
Record ccase := mkccase { c_doc : doc; c_table : table; c_hists : list (list step) }.

Definition exn_code (e : exn) : Z :=
  match e with
  | ValueError => 1 | IndexError => 2 | KeyError => 3 | AssertionError => 4 | TypeError => 5
  | NotImplementedErr => 6 | OutOfFuel => 7 | ModelStuck => 8
  end.

Definition snap (d : doc) : list (Z * bool) := map (fun t => (t_id t, t_claimed t)) d.
Definition zb_eqb (a b : Z * bool) := (fst a =? fst b) && Bool.eqb (snd a) (snd b).
Definition bz_eqb (a b : bool * Z) := Bool.eqb (fst a) (fst b) && (snd a =? snd b).

Definition is_inter (o : eop) : bool := match o with EC (OS _) | EAttach _ _ _ _ _ => false | _ => true end.
Definition items_of_op (o : eop) : list oitem :=
  match o with
  | EC (OClaimInter _ _ items _ _ _) | EC (OUnclaimInter _ items _) => map oitem_of items
  | _ => []
  end.
Definition estep_obs (st : doc * table) (o : eop) : res (list Z * list oitem) * (doc * table) :=
  match o with EC o' => cstep_obs st o' | EAttach _ _ _ _ _ => (Ok ([], []), estep st o) end.
Definition eop_slot (o : eop) : slot := match o with EC o' => op_slot o' | EAttach s _ _ _ _ => s end.

Definition obs_ok (d0 : doc) (o : eop) (r : res (list Z * list oitem) * (doc * table)) (ob : obs) : bool :=
  let '(x, (d', tb')) := r in
  (match x with
   | Ok (ret, its) => (o_exc ob =? 0) && list_eqb Z.eqb ret (o_ret ob)
                      && (negb (is_inter o) || list_eqb bz_eqb its (o_items ob))
   | Err e => (exn_code e =? o_exc ob) && (negb (is_inter o) || list_eqb bz_eqb (items_of_op o) (o_items ob))
   end)
  && list_eqb Z.eqb (map t_id d') (match o_order ob with Some l => l | None => map t_id d0 end)
  && list_eqb Z.eqb (map t_id (filter t_claimed d')) (o_claimed ob)
  && list_eqb Z.eqb (tget tb' (eop_slot o)) (o_slot ob).

Fixpoint run_steps (st : doc * table) (l : list step) : bool :=
  match l with
  | [] => true
  | k :: r => let x := estep_obs st (k_op k) in obs_ok (fst st) (k_op k) x (k_obs k) && run_steps (snd x) r
  end.

Definition restore_hyp (st : doc * table) (o : eop) (next : list step) : bool :=
  match o, next with
  | EC (OS (UnclaimLead n)), k :: _ =>
    match k_op k with
    | EC (OS (ClaimLead n' start _ ind)) =>
      (n =? n') && match adjacent_comment (fst st) start true ind with
                   | Some c => t_claimed c && list_eqb Z.eqb (tget (snd st) (SLead n)) [t_id c]
                   | None => false end
    | _ => false
    end
  | EC (OS (UnclaimTrail n)), k :: _ =>
    match k_op k with
    | EC (OS (ClaimTrail n' start _ ind)) =>
      (n =? n') && match adjacent_comment (fst st) start false ind with
                   | Some c => t_claimed c && list_eqb Z.eqb (tget (snd st) (STrail n)) [t_id c]
                   | None => false end
    | _ => false
    end
  | _, _ => false
  end.

(* hypotheses of inter_unclaim_claim_full at an unclaim_interleaving_comments(cs) that is followed by
   claim_interleaving_comments(cs): the entries name block comments, the claimer gets the kept items and cs, the
   placeholder is in the store and every comment of cs lies in the field's range (position hypothesis) *)
Definition restore_inter_hyp (st : doc * table) (o : eop) (next : list step) : bool :=
  match o, next with
  | EC (OUnclaimInter r items flt), k :: _ =>
    match k_op k, unclaim_inter (fst st) items flt with
    | EC (OClaimInter r' ph items2 mf ml (Some cs)), (Ok (un, kept), d1) =>
      (r =? r') && refs_ok_b (fst st) items && list_eqb bz_eqb (map oitem_of items2) kept
      && list_eqb Z.eqb cs un
      && has_tok_b d1 ph && claimable_b d1 ph items2 mf ml un
    | _, _ => false
    end
  | _, _ => false
  end.

(* hypotheses and conclusions of CommentsPlacement.claim_placement at every claim_interleaving_comments call: the
   placeholder is a Placeholder of the store, the items lie in order behind it; and - evaluated on the token ORDER THE
   IMPLEMENTATION REPORTS after the call (o_order), not on the model's - the returned entries lie in order behind the
   placeholder and no placeholder stands between the field and the comments it claimed in front / behind *)
Definition reorder (l : list Z) (d : doc) : doc := flat_map (fun i => filter (fun t => t_id t =? i) d) l.
Definition placement_ok (st : doc * table) (k : step) : bool :=
  match k_op k with
  | EC (OClaimInter _ ph items mf ml flt) =>
    let d := fst st in
    ph_ok_b d ph && items_behind_b d ph items &&
    match claimer_claim d ph items mf ml flt with
    | (Ok _, d') =>
      let dobs := match o_order (k_obs k) with Some l => reorder l d' | None => d' end in
      let '(cb, _, ca) := claim_parts d ph items mf ml flt in
      items_behind_b dobs ph (claim_items d ph items mf ml flt) && tight_b dobs ph (rep_last ph items) cb ca
    | (Err _, _) => true
    end
  | _ => true
  end.

(* hypothesis of file_claim_all_claimed / idempotent_file at the root File's own claim (no explicit list) *)
Definition file_hyp (st : doc * table) (o : eop) : bool :=
  match o with
  | EC (OClaimInter _ ph items mf ml None) => file_cover_b (fst st) ph items mf ml
  | _ => false
  end.

Fixpoint hyp_steps (st : doc * table) (l : list step) : bool :=
  match l with
  | [] => true
  | k :: r =>
    eop_ok st (k_op k)
    && (if k_mode k =? 1 then match k_op k with EC o => auto_ok st o | _ => false end else true)
    && (if k_mode k =? 2 then restore_hyp st (k_op k) r else true)
    && (if k_mode k =? 3 then restore_inter_hyp st (k_op k) r else true)
    && (if (k_mode k =? 4) || (k_mode k =? 5) then file_hyp st (k_op k) else true)
    && placement_ok st k
    && hyp_steps (snd (estep_obs st (k_op k))) r
  end.

(* the rule over the whole layout: every block comment of the parsed store is owned, after the run, by the slot
   attrib_spec names (or the order inversion CommentsRule.priority_refuted describes took place); the table is the
   model's, which check_case compares with the implementation's slot after every call *)
Fixpoint cops_of (l : list step) : option (list cop) :=
  match l with
  | [] => Some []
  | k :: r => match k_op k, cops_of r with EC o, Some ops => Some (o :: ops) | _, _ => None end
  end.
Definition attrib_hist (st0 : doc * table) (l : list step) : bool :=
  match rev l with
  | k :: _ =>
    if k_mode k =? 5 then
      match cops_of l with
      | Some ops => attrib_spec_b (fst st0) ops (snd (fold_left cstep ops st0))
      | None => false
      end
    else true
  | [] => true
  end.

(* placeholders are empty (hypothesis of C04_text_unchanged); Inv (C14) *)
Definition doc_ok (d : doc) : bool := forallb (fun t => negb (is_ph t) || text_empty t) d.

Definition check_case (c : ccase) : bool :=
  forallb (run_steps (c_doc c, c_table c)) (c_hists c).
Definition hyp_case (c : ccase) : bool :=
  doc_ok (c_doc c) && inv_b (c_doc c, c_table c) && forallb (hyp_steps (c_doc c, c_table c)) (c_hists c)
  && forallb (attrib_hist (c_doc c, c_table c)) (c_hists c).
Definition check_all (c : ccase) : bool := check_case c && hyp_case c.
