(* Proofs about Cost.v: the CostSpec setters refine the record-of-optionals specification on every
   normal state (any component order, any length), preserve normality, and refuse atomically. *)
From AB Require Import Prelude Cost Txn.

Definition Normal (s : cost) : Prop := normal_b s = true.

(* ---- filters: everything the getters and Normal can see -------------------------------------- *)
Lemma find_hd : forall (k : comp -> bool) l, find k l = hd_error (filter k l).
Proof. induction l as [|x r IH]; cbn; [reflexivity|]. destruct (k x); cbn; auto. Qed.

Lemma filter_hd_true : forall (k : comp -> bool) l x r, filter k l = x :: r -> k x = true.
Proof.
  intros k l x r H. assert (In x (filter k l)) by (rewrite H; left; reflexivity).
  apply filter_In in H0. tauto.
Qed.

Lemma find_idx_none : forall k l, find_idx k l = None -> filter k l = [].
Proof.
  induction l as [|x r IH]; cbn; intros H; [reflexivity|].
  destruct (k x); [discriminate|]. destruct (find_idx k r); [discriminate|]. auto.
Qed.

Lemma find_idx_some : forall k l i, find_idx k l = Some i -> exists x r, filter k l = x :: r.
Proof.
  induction l as [|x r IH]; cbn; intros i H; [discriminate|].
  destruct (k x); [eauto|]. destruct (find_idx k r) eqn:E; [|discriminate]. eauto.
Qed.

(* the element at the first index of kind k is of kind k: popping / overwriting it *)
Lemma filter_pop_same : forall k l i, find_idx k l = Some i -> filter k (pop_nth i l) = tl (filter k l).
Proof.
  induction l as [|x r IH]; cbn; intros i H; [discriminate|].
  destruct (k x) eqn:E.
  - inversion H; subst. reflexivity.
  - destruct (find_idx k r) eqn:F; [|discriminate]. inversion H; subst. cbn. rewrite E. eauto.
Qed.

Lemma filter_pop_other : forall (k k' : comp -> bool) l i,
  (forall c, k c = true -> k' c = false) ->
  find_idx k l = Some i -> filter k' (pop_nth i l) = filter k' l.
Proof.
  intros k k' l i D. revert i. induction l as [|x r IH]; cbn; intros i H; [discriminate|].
  destruct (k x) eqn:E.
  - inversion H; subst. rewrite (D _ E). reflexivity.
  - destruct (find_idx k r) eqn:F; [|discriminate]. inversion H; subst. cbn.
    destruct (k' x); [f_equal|]; eauto.
Qed.

Lemma filter_set_same : forall k l i v, k v = true -> find_idx k l = Some i ->
  filter k (set_nth i v l) = v :: tl (filter k l).
Proof.
  induction l as [|x r IH]; cbn; intros i v Kv H; [discriminate|].
  destruct (k x) eqn:E.
  - inversion H; subst. cbn. rewrite Kv. reflexivity.
  - destruct (find_idx k r) eqn:F; [|discriminate]. inversion H; subst. cbn. rewrite E. eauto.
Qed.

Lemma filter_set_other : forall (k k' : comp -> bool) l i v,
  (forall c, k c = true -> k' c = false) -> k' v = false ->
  find_idx k l = Some i -> filter k' (set_nth i v l) = filter k' l.
Proof.
  intros k k' l i v D Kv. revert i. induction l as [|x r IH]; cbn; intros i H; [discriminate|].
  destruct (k x) eqn:E.
  - inversion H; subst. cbn. rewrite Kv, (D _ E). reflexivity.
  - destruct (find_idx k r) eqn:F; [|discriminate]. inversion H; subst. cbn.
    destruct (k' x); [f_equal|]; eauto.
Qed.

Definition okind (k : comp -> bool) (v : option comp) : Prop :=
  match v with Some x => k x = true | None => True end.
Definition onot (k : comp -> bool) (v : option comp) : Prop :=
  match v with Some x => k x = false | None => True end.

(* un_set on its own kind: the first element of that kind is created / replaced / removed *)
Lemma filter_un_set_same : forall pre k l v, okind k v ->
  filter k (un_set pre k l v) =
  match v with
  | Some x => x :: tl (filter k l)
  | None => tl (filter k l)
  end.
Proof.
  intros pre k l v Kv. unfold un_set. destruct (find_idx k l) as [i|] eqn:E.
  - destruct v as [x|]; [apply filter_set_same; assumption | apply filter_pop_same; assumption].
  - pose proof (find_idx_none _ _ E) as Z. destruct v as [x|]; cbn in *.
    + destruct pre; [cbn | rewrite filter_app; cbn]; rewrite Kv, Z; reflexivity.
    + rewrite Z. reflexivity.
Qed.

(* ... and leaves every other kind alone *)
Lemma filter_un_set_other : forall pre (k k' : comp -> bool) l v,
  (forall c, k c = true -> k' c = false) -> onot k' v ->
  filter k' (un_set pre k l v) = filter k' l.
Proof.
  intros pre k k' l v D Kv. unfold un_set. destruct (find_idx k l) as [i|] eqn:E.
  - destruct v as [x|]; [apply filter_set_other with (k := k) | apply filter_pop_other with (k := k)]; assumption.
  - destruct v as [x|]; cbn in *; [|reflexivity].
    destruct pre; [cbn | rewrite filter_app; cbn]; rewrite Kv; [reflexivity | apply app_nil_r].
Qed.

Lemma filter_upd_same : forall (k : comp -> bool) f l, (forall c, k c = true -> k (f c) = true) ->
  filter k (upd_first k f l) = match filter k l with [] => [] | y :: r => f y :: r end.
Proof.
  intros k f l K. induction l as [|x r IH]; cbn; [reflexivity|].
  destruct (k x) eqn:E; cbn.
  - rewrite (K _ E). reflexivity.
  - rewrite E. exact IH.
Qed.

Lemma filter_upd_other : forall (k k' : comp -> bool) f l,
  (forall c, k c = true -> k' c = false) -> (forall c, k c = true -> k' (f c) = false) ->
  filter k' (upd_first k f l) = filter k' l.
Proof.
  intros k k' f l D K. induction l as [|x r IH]; cbn; [reflexivity|].
  destruct (k x) eqn:E; cbn.
  - rewrite (K _ E), (D _ E). reflexivity.
  - destruct (k' x); [f_equal|]; exact IH.
Qed.

Lemma count_amountlike : forall l,
  count is_amountlike l =
  (length (filter is_compound l) + length (filter is_amount l)
   + length (filter is_number l) + length (filter is_currency l))%nat.
Proof.
  unfold count. induction l as [|x r IH]; [reflexivity|]. destruct x; cbn in *; rewrite IH; lia.
Qed.

(* ---- the view of a state: brace + the seven filtered lists -------------------------------------- *)
Record view := mkview {
  v_brace : brace; v_comp : list comp; v_amt : list comp; v_num : list comp; v_cur : list comp;
  v_date : list comp; v_label : list comp; v_ast : list comp }.

Definition view_of (s : cost) : view :=
  let l := c_comps s in
  mkview (c_brace s) (filter is_compound l) (filter is_amount l) (filter is_number l)
         (filter is_currency l) (filter is_date l) (filter is_label l) (filter is_asterisk l).

Definition abs_v (w : view) : spec :=
  let per :=
    match hd_error (v_comp w) with
    | Some (KCompound p _ _) => p
    | Some _ => None
    | None => match v_brace w with Total => None | Unit =>
        match hd_error (v_amt w) with
        | Some (KAmount n _) => Some n | Some _ => None
        | None => match hd_error (v_num w) with Some (KNumber n) => Some n | _ => None end end end
    end in
  let total :=
    match hd_error (v_comp w) with
    | Some (KCompound _ t _) => t
    | Some _ => None
    | None => match v_brace w with Unit => None | Total =>
        match hd_error (v_amt w) with
        | Some (KAmount n _) => Some n | Some _ => None
        | None => match hd_error (v_num w) with Some (KNumber n) => Some n | _ => None end end end
    end in
  let cur :=
    match hd_error (v_comp w) with
    | Some (KCompound _ _ c) => Some c
    | Some _ => None
    | None =>
      match hd_error (v_amt w) with
      | Some (KAmount _ c) => Some c | Some _ => None
      | None => match hd_error (v_cur w) with Some (KCurrency c) => Some c | _ => None end end
    end in
  mkspec per total cur
    (match hd_error (v_date w) with Some (KDate d) => Some d | _ => None end)
    (match hd_error (v_label w) with Some (KLabel d) => Some d | _ => None end)
    (match hd_error (v_ast w) with Some _ => true | None => false end).

Definition normal_v (w : view) : bool :=
  (length (v_comp w) + length (v_amt w) + length (v_num w) + length (v_cur w) <=? 1)%nat
  && (length (v_date w) <=? 1)%nat && (length (v_label w) <=? 1)%nat && (length (v_ast w) <=? 1)%nat.

Lemma abs_view : forall s, abs s = abs_v (view_of s).
Proof.
  intros s. unfold abs, abs_v, view_of, raw_number_per, raw_number_total, raw_currency, raw_date, raw_label,
    get_merge, compound_comp, amount_comp, number_comp, currency_comp, date_comp, label_comp, asterisk_comp, un_get.
  cbn [v_brace v_comp v_amt v_num v_cur v_date v_label v_ast]. rewrite !find_hd. reflexivity.
Qed.

Lemma normal_view : forall s, normal_b s = normal_v (view_of s).
Proof. intros s. unfold normal_b, normal_v, view_of. rewrite count_amountlike. reflexivity. Qed.

(* every element of a view list has the kind of its list *)
Definition view_wf (w : view) : Prop :=
  Forall (fun c => is_compound c = true) (v_comp w) /\ Forall (fun c => is_amount c = true) (v_amt w)
  /\ Forall (fun c => is_number c = true) (v_num w) /\ Forall (fun c => is_currency c = true) (v_cur w)
  /\ Forall (fun c => is_date c = true) (v_date w) /\ Forall (fun c => is_label c = true) (v_label w)
  /\ Forall (fun c => is_asterisk c = true) (v_ast w).

Lemma filter_Forall : forall (k : comp -> bool) l, Forall (fun c => k c = true) (filter k l).
Proof. intros. apply Forall_forall. intros x H. apply filter_In in H. tauto. Qed.

Lemma view_of_wf : forall s, view_wf (view_of s).
Proof. intros s. unfold view_wf, view_of; cbn. repeat split; apply filter_Forall. Qed.

(* ---- how each primitive acts on the view ----------------------------------------------------- *)
Ltac kind_side :=
  solve [ reflexivity | exact I | assumption
        | let c := fresh in intros c; destruct c; cbn; intros; try reflexivity; try discriminate
        | cbn; reflexivity ].

Ltac push_filters :=
  repeat first
    [ rewrite filter_un_set_same by kind_side
    | rewrite filter_un_set_other by kind_side
    | rewrite filter_upd_same by kind_side
    | rewrite filter_upd_other by kind_side ].

(* getters used as scrutinees in the setters, in terms of the view *)
Lemma scrut_view : forall s,
  compound_comp s = hd_error (v_comp (view_of s)) /\ amount_comp s = hd_error (v_amt (view_of s))
  /\ number_comp s = hd_error (v_num (view_of s)) /\ currency_comp s = hd_error (v_cur (view_of s))
  /\ c_brace s = v_brace (view_of s).
Proof.
  intros s. unfold compound_comp, amount_comp, number_comp, currency_comp, un_get, view_of; cbn.
  rewrite !find_hd. repeat split.
Qed.

(* Decompose a normal, well-formed view into its finitely many shapes. *)
Ltac kill_list L :=
  match type of L with
  | Forall _ ?l =>
    let a := fresh "a" in let a' := fresh "a'" in let r := fresh "r" in
    destruct l as [|a [|a' r]];
    [ clear L
    | let H := fresh "K" in apply Forall_inv in L as H; clear L; cbn in H;
      destruct a; try discriminate H; clear H
    | idtac ]
  end.

(* ---- the main refinement ------------------------------------------------------------------- *)
(* One statement over the view so that the case analysis is on seven short lists, not on the
   unbounded component list. *)
Definition step_ok_of (res : cost * res unit) (s : cost) (o : cop) : Prop :=
  let '(s', r) := res in
  normal_v (view_of s') = true
  /\ (abs_v (view_of s'), r) = sp_apply (abs_v (view_of s)) o
  /\ (forall e, r = Err e -> s' = s).
Definition step_ok (s : cost) (o : cop) : Prop := step_ok_of (apply s o) s o.

Ltac unfold_setters :=
  unfold step_ok, step_ok_of, apply, apply_gen, rapply, rapply_gen, cop_of,
    set_number_per, set_number_total, set_currency, set_currency_gen,
    raw_set_number_per, raw_set_number_total, raw_set_number_per_gen, raw_set_number_total_gen,
    raw_set_currency, raw_set_currency_gen, refuse_if, set_date, set_label, set_merge,
    inplace_number_per, inplace_number_total, inplace_currency,
    raw_number_per, raw_number_total, raw_currency, raw_date, raw_label, get_merge,
    set_compound_comp, set_amount_comp, set_number_comp, set_currency_comp,
    set_date_comp, set_label_comp, set_asterisk_comp, into_unit_cost, into_total_cost, with_comps,
    compound_comp, amount_comp, number_comp, currency_comp, date_comp, label_comp, asterisk_comp, un_get.

(* after the operation has been fixed: rewrite everything to the seven filtered lists and name them;
   from there on the component list itself is opaque *)
Ltac view_setup b l N :=
  unfold Normal in N; rewrite normal_view in N;
  pose proof (view_of_wf (mkcost b l)) as W;
  unfold_setters; cbn [c_brace c_comps];
  rewrite !find_hd;
  unfold view_of in *; cbn [c_brace c_comps] in *;
  unfold view_wf, normal_v in *; cbn [v_brace v_comp v_amt v_num v_cur v_date v_label v_ast] in *;
  destruct W as (Wc & Wa & Wn & Wu & Wd & Wl & Ws);
  remember (filter is_compound l) as fc eqn:Efc;
  remember (filter is_amount l) as fa eqn:Efa;
  remember (filter is_number l) as fn eqn:Efn;
  remember (filter is_currency l) as fu eqn:Efu;
  remember (filter is_date l) as fd eqn:Efd;
  remember (filter is_label l) as fl eqn:Efl;
  remember (filter is_asterisk l) as fs eqn:Efs;
  apply andb_prop in N as [N Ns]; apply andb_prop in N as [N Nl]; apply andb_prop in N as [N Nd];
  pose proof Nd as Nd'; pose proof Nl as Nl'; pose proof Ns as Ns';
  apply Nat.leb_le in N, Ns, Nl, Nd.

(* the amount-like part: at most one component among the four kinds *)
Ltac amount_cases b N Wc Wa Wn Wu :=
  destruct b;
    kill_list Wc; try (exfalso; cbn in N; lia);
    try match goal with E : [KCompound ?p ?t _] = _ |- _ => destruct p; destruct t end;
    kill_list Wa; try (exfalso; cbn in N; lia);
    kill_list Wn; try (exfalso; cbn in N; lia);
    kill_list Wu; try (exfalso; cbn in N; lia);
    clear N.

Ltac finish_case Efc Efa Efn Efu Efd Efl Efs Nd' Nl' Ns' :=
  cbn [hd_error option_map negb andb];
  (split; [| split; [| intros e He; try discriminate He; reflexivity]]);
  cbn [c_comps c_brace fst snd];
  push_filters;
  rewrite <- ?Efc, <- ?Efa, <- ?Efn, <- ?Efu, <- ?Efd, <- ?Efl, <- ?Efs;
  rewrite ?Nd', ?Nl', ?Ns';
  cbn; reflexivity.

Lemma step_refines : forall s o, Normal s -> step_ok s o.
Proof.
  intros [b l] o N. view_setup b l N.
  amount_cases b N Wc Wa Wn Wu;
    (destruct o as [[x|]|[x|]|[x|]|[x|]|[x|]|[|]];
     [ | | | | |
     | kill_list Wd; try (exfalso; cbn in Nd; lia) | kill_list Wd; try (exfalso; cbn in Nd; lia)
     | kill_list Wl; try (exfalso; cbn in Nl; lia) | kill_list Wl; try (exfalso; cbn in Nl; lia)
     | kill_list Ws; try (exfalso; cbn in Ns; lia) | kill_list Ws; try (exfalso; cbn in Ns; lia) ]);
    finish_case Efc Efa Efn Efu Efd Efl Efs Nd' Nl' Ns'.
Qed.

(* the raw-level setters with a free node (fresh or a deep copy) refine the same specification *)
Lemma rstep_refines : forall s r v, Normal s -> step_ok_of (rapply s r v false) s (cop_of r v).
Proof.
  intros [b l] r v N. view_setup b l N.
  amount_cases b N Wc Wa Wn Wu;
    destruct r; destruct v as [x|];
    finish_case Efc Efa Efn Efu Efd Efl Efs Nd' Nl' Ns'.
Qed.

Theorem apply_refines : forall s o s' r, Normal s -> apply s o = (s', r) ->
  Normal s' /\ (abs s', r) = sp_apply (abs s) o /\ (forall e, r = Err e -> s' = s).
Proof.
  intros s o s' r N E. pose proof (step_refines s o N) as H. unfold step_ok, step_ok_of in H. rewrite E in H.
  unfold Normal. rewrite normal_view, !abs_view. exact H.
Qed.

Theorem rapply_refines : forall s r v s' x, Normal s -> rapply s r v false = (s', x) ->
  Normal s' /\ (abs s', x) = sp_apply (abs s) (cop_of r v) /\ (forall e, x = Err e -> s' = s).
Proof.
  intros s r v s' x N E. pose proof (rstep_refines s r v N) as H. unfold step_ok_of in H. rewrite E in H.
  unfold Normal. rewrite normal_view, !abs_view. exact H.
Qed.

(* a node that is attached elsewhere is refused by every raw setter, from every state (normal or not),
   with ValueError and before anything has been written (statement order of the repaired code) *)
Ltac stuck_find :=
  match goal with
  | E : find ?k ?l = Some ?c |- _ =>
    let H := fresh in pose proof (find_some _ _ E) as [_ H]; cbn in H; discriminate H
  end.

Theorem raw_refusal_atomic : forall fixed s r v s' x,
  rapply_gen fixed false s r (Some v) true = (s', x) -> x = Err ValueError /\ s' = s.
Proof.
  intros fixed s r v s' x E.
  unfold rapply_gen, raw_set_number_per_gen, raw_set_number_total_gen, raw_set_currency_gen, refuse_if,
    compound_comp, amount_comp, number_comp, currency_comp, un_get in E.
  destruct r;
    repeat match type of E with
           | context [match ?y with _ => _ end] => destruct y eqn:?
           end;
    try (inversion E; subst; split; reflexivity);
    stuck_find.
Qed.

(* the statement order before fixes/costspec-raw-setter-atomic.patch flips the braces first *)
Theorem raw_late_refuted : exists s r v s' x,
  Normal s /\ rapply_gen true true s r (Some v) true = (s', x) /\ x = Err ValueError /\ s' <> s.
Proof.
  exists (mkcost Total [KAmount 1 2]), RPer, 7, (mkcost Unit [KAmount 1 2]), (Err ValueError).
  repeat split; try reflexivity. discriminate.
Qed.

(* all assignment sequences, refused assignments included *)
Theorem run_refines : forall ops s s' rs, Normal s -> run s ops = (s', rs) ->
  Normal s' /\ (abs s', rs) = sp_run (abs s) ops.
Proof.
  unfold run. induction ops as [|o r IH]; intros s s' rs N E; cbn in *.
  - inversion E; subst. split; [assumption | reflexivity].
  - destruct (apply_gen true s o) as [s1 x] eqn:E1.
    destruct (apply_refines s o s1 x N E1) as (N1 & A1 & _).
    destruct (run_gen true s1 r) as [s2 xs] eqn:E2. inversion E; subst.
    destruct (IH s1 s' xs N1 E2) as [N2 A2].
    split; [assumption|]. rewrite <- A1, <- A2. reflexivity.
Qed.

Lemma sp_apply_ok : forall a o b, sp_apply a o = (b, Ok tt) -> b = sp_assign a o.
Proof. unfold sp_apply. intros a o b H. destruct (sp_valid (sp_assign a o)); inversion H; reflexivity. Qed.

(* an accepted assignment: the assigned getter returns v, the five others are unchanged *)
Theorem assign_ok : forall s o s', Normal s -> apply s o = (s', Ok tt) -> abs s' = sp_assign (abs s) o.
Proof.
  intros s o s' N E. destruct (apply_refines s o s' _ N E) as (_ & A & _).
  symmetry in A. apply sp_apply_ok in A. exact A.
Qed.

(* a refusal happens exactly when the assignment would leave both numbers without a currency; it is a
   ValueError and nothing has changed *)
Theorem refusal : forall s o s' e, Normal s -> apply s o = (s', Err e) ->
  e = ValueError /\ s' = s /\ sp_valid (sp_assign (abs s) o) = false.
Proof.
  intros s o s' e N E. destruct (apply_refines s o s' _ N E) as (_ & A & U).
  unfold sp_apply in A. destruct (sp_valid (sp_assign (abs s) o)); inversion A; subst.
  repeat split; eauto.
Qed.

Theorem accepted_iff_valid : forall s o, Normal s ->
  (exists s', apply s o = (s', Ok tt)) <-> sp_valid (sp_assign (abs s) o) = true.
Proof.
  intros s o N. destruct (apply s o) as [s' r] eqn:E.
  destruct (apply_refines s o s' r N E) as (_ & A & _). unfold sp_apply in A.
  destruct (sp_valid (sp_assign (abs s) o)); inversion A; subst; split; intros H.
  - reflexivity.
  - exists s'. reflexivity.
  - destruct H as [s'' H]. inversion H.
  - discriminate.
Qed.

(* the abstraction of a normal state is always a valid record *)
Lemma abs_valid : forall s, Normal s -> sp_valid (abs s) = true.
Proof.
  intros s N. destruct (apply s (OMerge (get_merge s))) as [s' r] eqn:E.
  destruct (apply_refines s _ s' r N E) as (_ & A & _).
  assert (R : r = Ok tt).
  { unfold apply, apply_gen, set_merge in E. destruct (get_merge s); cbn in E; inversion E; reflexivity. }
  subst r. unfold sp_apply in A.
  assert (S : sp_assign (abs s) (OMerge (get_merge s)) = abs s) by reflexivity.
  rewrite S in A. destruct (sp_valid (abs s)); [reflexivity | inversion A].
Qed.

(* CostSpec.from_value builds a normal state whose getters return the arguments; it refuses exactly
   the invalid records *)
Theorem from_value_refines : forall p t c d l m,
  match from_value p t c d l m with
  | Ok s => Normal s /\ abs s = mkspec p t c d l m
  | Err e => e = ValueError /\ sp_valid (mkspec p t c d l m) = false
  end.
Proof.
  intros [p|] [t|] [c|] [d|] [l|] [|]; cbn; split; reflexivity.
Qed.

(* the code before fixes/costspec-currency-onto-number.patch does not refine the record model (D11) *)
Theorem unrepaired_refuted : exists s ops,
  Normal s /\ abs (fst (run_gen false s ops)) <> fst (sp_run (abs s) ops).
Proof.
  exists (mkcost Unit [KNumber 1]), [OCur (Some 7); OTotal (Some 5)].
  split; [reflexivity | vm_compute; discriminate].
Qed.

(* ---- payee / narration ------------------------------------------------------------------- *)
Definition TInv (t : txn) : Prop := tinv_b t = true.

Lemma tapply_refines : forall t o, TInv t -> TInv (tapply t o) /\ tabs (tapply t o) = ts_apply (tabs t) o.
Proof.
  intros [[a|] [b|] [c|]] [[x|]|[x|]]; unfold TInv; cbn; intros H; try discriminate H; split; reflexivity.
Qed.

Theorem trun_refines : forall ops t, TInv t -> TInv (trun t ops) /\ tabs (trun t ops) = ts_run (tabs t) ops.
Proof.
  unfold trun, ts_run. induction ops as [|o r IH]; intros t H; cbn.
  - split; [assumption | reflexivity].
  - destruct (tapply_refines t o H) as [H1 A1]. destruct (IH _ H1) as [H2 A2].
    split; [assumption|]. rewrite A2, A1. reflexivity.
Qed.

Lemma from_parsed_inv : forall s1 s2, TInv (from_parsed None s1 s2).
Proof. intros [a|] [b|]; reflexivity. Qed.

Lemma tinv_payee_narration : forall t, TInv t -> raw_payee t <> None -> raw_narration t <> None.
Proof. intros [[a|] [b|] [c|]]; unfold TInv; cbn; intros H P; congruence. Qed.

Lemma reparse_stable : forall t, TInv t -> reparse t = t.
Proof. intros [[a|] [b|] [c|]]; unfold TInv; cbn; intros H; try discriminate H; reflexivity. Qed.

(* ---- value properties over independent slots ------------------------------------------------ *)
Section ValuePropsProofs.
  Variable T : Type.
  Variable fmt : nat -> Z -> T.
  Variable parse : nat -> T -> Z.

  Lemma vput_same : forall (l : list (option (vnode T))) i x, (i < length l)%nat -> nth_error (vput l i x) i = Some x.
  Proof.
    induction l as [|y r IH]; intros i x H; cbn in *; [lia|].
    destruct i; cbn; [reflexivity | apply IH; lia].
  Qed.

  Lemma vput_other : forall (l : list (option (vnode T))) i j x, i <> j -> nth_error (vput l i x) j = nth_error l j.
  Proof.
    induction l as [|y r IH]; intros i j x H; cbn; [reflexivity|].
    destruct i, j; cbn; try reflexivity; [congruence | apply IH; congruence].
  Qed.

  Lemma nth_error_lt : forall (l : list (option (vnode T))) i y, nth_error l i = Some y -> (i < length l)%nat.
  Proof. intros l i y H. apply nth_error_Some. congruence. Qed.

  (* read-back: for every slot of the record and every value the slot's codec round-trips (None included) *)
  Theorem opt_get_set : forall r i v, (i < length (vr_slots r))%nat ->
    (forall x, v = Some x -> parse i (fmt i x) = x) ->
    vget parse (opt_set fmt r i v) i = v.
  Proof.
    intros r i v H C. unfold opt_set, vget.
    destruct (nth_error (vr_slots r) i) as [[n|]|] eqn:E.
    - destruct v as [x|]; cbn; rewrite vput_same by assumption; cbn; [rewrite (C x eq_refl)|]; reflexivity.
    - destruct v as [x|]; cbn; rewrite vput_same by assumption; cbn; [rewrite (C x eq_refl)|]; reflexivity.
    - apply nth_error_None in E. lia.
  Qed.

  (* frame: every other slot keeps its node (identity and text) *)
  Theorem opt_frame : forall r i j v, i <> j ->
    nth_error (vr_slots (opt_set fmt r i v)) j = nth_error (vr_slots r) j.
  Proof.
    intros r i j v H. unfold opt_set.
    destruct (nth_error (vr_slots r) i) as [[n|]|]; destruct v; cbn; try reflexivity; apply vput_other; assumption.
  Qed.

  (* the three-way branch: present + value keeps the node, absent + value creates a fresh one *)
  Theorem opt_set_identity : forall r i x,
    match nth_error (vr_slots r) i with
    | Some (Some n) => nth_error (vr_slots (opt_set fmt r i (Some x))) i = Some (Some (mkvnode (vn_id n) (fmt i x)))
    | Some None => nth_error (vr_slots (opt_set fmt r i (Some x))) i = Some (Some (mkvnode (vr_next r) (fmt i x)))
    | None => opt_set fmt r i (Some x) = r
    end.
  Proof.
    intros r i x. unfold opt_set. destruct (nth_error (vr_slots r) i) as [[n|]|] eqn:E; cbn;
      try reflexivity; apply vput_same; eapply nth_error_lt; eassumption.
  Qed.

  Theorem req_get_set : forall r i x n, nth_error (vr_slots r) i = Some (Some n) ->
    parse i (fmt i x) = x ->
    let '(r', res) := req_set fmt r i x in
    res = Ok tt /\ vget parse r' i = Some x
    /\ nth_error (vr_slots r') i = Some (Some (mkvnode (vn_id n) (fmt i x)))
    /\ forall j, i <> j -> nth_error (vr_slots r') j = nth_error (vr_slots r) j.
  Proof.
    intros r i x n E C. unfold req_set. rewrite E. cbn. unfold vget. cbn.
    pose proof (nth_error_lt _ _ _ E) as L.
    rewrite vput_same by assumption. cbn. rewrite C. repeat split. intros j H. apply vput_other. assumption.
  Qed.
End ValuePropsProofs.

(* ---- whole-cost assignment ----------------------------------------------------------------------- *)
Theorem whole_assignment : forall s c ops s' rs, Normal c ->
  set_raw_cost false s c = (c, Ok tt) /\
  (run c ops = (s', rs) -> Normal s' /\ (abs s', rs) = sp_run (abs c) ops).
Proof.
  intros s c ops s' rs N. split; [reflexivity|]. intros E. exact (run_refines ops c s' rs N E).
Qed.

Theorem whole_assignment_refused : forall s c, set_raw_cost true s c = (s, Err ValueError).
Proof. reflexivity. Qed.

(* ---- outside Normal: number and currency as separate components -------------------------------- *)
Lemma separate_not_normal : forall s, separate_b s = true -> normal_b s = false.
Proof.
  intros [b l] H. unfold separate_b, normal_b in *. cbn [c_comps] in *. rewrite count_amountlike.
  unfold count in H.
  apply andb_prop in H as [H H4]. apply andb_prop in H as [H H3]. apply andb_prop in H as [H1 H2].
  apply Nat.eqb_eq in H1, H2, H3, H4.
  replace (length (filter is_compound l) + length (filter is_amount l) + length (filter is_number l)
           + length (filter is_currency l) <=? 1)%nat with false; [reflexivity|].
  symmetry. apply Nat.leb_gt. lia.
Qed.

Theorem non_normal_refuted : exists s ops,
  separate_b s = true /\ abs (fst (run s ops)) <> fst (sp_run (abs s) ops).
Proof.
  exists (mkcost Unit [KNumber 1; KCurrency 2]), [OTotal (Some 5)].
  split; [reflexivity | vm_compute; discriminate].
Qed.

(* other shapes outside Normal that the parser produces: a repeated date / label / asterisk / number *)
Theorem duplicates_refuted :
  Forall (fun c : cost * list cop =>
            normal_b (fst c) = false /\ abs (fst (run (fst c) (snd c))) <> fst (sp_run (abs (fst c)) (snd c)))
    [ (mkcost Unit [KDate 1; KDate 2], [ODate None]);
      (mkcost Unit [KAsterisk; KAsterisk], [OMerge false]);
      (mkcost Unit [KLabel 1; KLabel 2], [OLabel None]);
      (mkcost Unit [KNumber 1; KNumber 2], [OPer None]);
      (mkcost Total [KCurrency 1; KCurrency 2], [OCur None]) ].
Proof. repeat constructor; vm_compute; discriminate. Qed.
