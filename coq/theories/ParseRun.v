(* Glue for the C01 correspondence: one case = one accepted parse() call of the implementation with
   everything the harness observed; [check_code] re-runs the model on the same inputs inside Coq and
   evaluates, on this very input, every hypothesis the C01 theorems have about the oracles. *)
From AB Require Import Prelude PostLex Builder.

Record pcase := mkpcase {
  pc_text : str;                 (* the text given to parse() *)
  pc_postlex : bool;             (* true: PostLex (non-INLINE target), false: PostLexInline *)
  pc_in : list lexeme;           (* stream entering process() (what lark's lexer produced) *)
  pc_out : list lexeme;          (* stream leaving it = ModelBuilder._tokens *)
  pc_ignored : list Z;           (* parser._IGNORED_TOKENS *)
  pc_tm : list Z;                (* keys of models.TOKEN_MODELS *)
  pc_tree : ltree;               (* the lark tree, leaves resolved through _token_to_index *)
  pc_built : list lexeme;        (* ModelBuilder._built_tokens after build(): (RULE code, raw_text) *)
  pc_is_file : bool;             (* target is models.File *)
  pc_root : Z * Z;               (* store indexes of the returned model's first/last token after build() *)
  pc_store : list lexeme;        (* the store when parse() returned (after auto_claim_comments, if on) *)
  pc_spans : list (Z * Z);       (* (first, last) store index of every sub-model reachable from the result *)
  pc_acc : bool                  (* auto_claim_comments *)
}.

Definition str_eqb (a b : str) : bool := list_eqb Z.eqb a b.
Definition lexeme_eqb (a b : lexeme) : bool := (lty a =? lty b) && str_eqb (ltx a) (ltx b).
Definition lexemes_eqb (a b : list lexeme) : bool := list_eqb lexeme_eqb a b.

Definition span_ok (n : Z) (s : Z * Z) : bool :=
  (0 <=? fst s) && (fst s <=? snd s) && (snd s <? n).

(* the spans Builder.v assigns to the result and everything nested in it (tokens, Repeated, models) *)
Fixpoint all_spans (b : btree) : list (Z * Z) :=
  (match bfirst b, blast b with Some a, Some z => [(a, z)] | _, _ => [] end)
  ++ match b with
     | BRep p items => (p, p) :: flat_map all_spans items
     | BModel cs => flat_map all_spans cs
     | _ => []
     end.

Definition pair_eqb (x y : Z * Z) : bool := (fst x =? fst y) && (snd x =? snd y).

(* 0 = everything agrees; otherwise the first part that does not *)
Definition check_code (c : pcase) : Z :=
  (* H-tile: the lexeme values concatenate to the input *)
  if negb (str_eqb (txt (pc_in c)) (pc_text c)) then 1 else
  (* PostLex.process / PostLexInline.process reproduce the post-lexed stream *)
  let pl := if pc_postlex c then process (pc_in c) else process_inline (pc_in c) in
  if negb (match snd pl with None => lexemes_eqb (fst pl) (pc_out c) | Some _ => false end) then 2 else
  (* ModelBuilder reproduces _built_tokens from the tree and the stream *)
  let env := mkenv (pc_out c) (pc_ignored c) (pc_tm c) in
  match build env (pc_tree c) with
  | (_, Err _) => 3
  | (st, Ok b) =>
      if negb (lexemes_eqb (built st) (pc_built c)) then 4 else
      (* H-order on this input *)
      if negb (leaves_ok (zlen (pc_out c)) (leaves st)) then 5 else
      (* first_token / last_token of the returned model *)
      if negb (match root_span (pc_is_file c) (built st) b with
               | Some (a, z) => (a =? fst (pc_root c)) && (z =? snd (pc_root c))
               | None => false end) then 6 else
      (* comment claiming only moved zero-width tokens (C04's conclusion, evaluated here) *)
      if negb (lexemes_eqb (filter has_text (pc_store c)) (filter has_text (built st))) then 7 else
      (* every sub-model's span is a segment of the store *)
      if negb (forallb (span_ok (zlen (pc_store c))) (pc_spans c)) then 8 else
      (* without claiming, every sub-model's first/last token is the one Builder.v computes *)
      if negb (pc_acc c) &&
         negb (let ms := (if pc_is_file c then [(0, zlen (built st) - 1)] else []) ++ all_spans b in
               forallb (fun s => existsb (pair_eqb s) ms) (pc_spans c)) then 9 else
      0
  end.

Definition check_case (c : pcase) : bool := check_code c =? 0.
