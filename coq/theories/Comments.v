(* L3: comment attribution (surrounding_comments.py, interleaving_comments.py) over the abstract document.
   The token store is the plain list of its tokens (justified by C07); `get_next`/`get_prev` chains starting
   at a token enumerate the suffix after it / the reversed prefix before it ("walk"), `iter(a,b)` is the slice
   from a to b, `splice(new, ref, del_end)` replaces the slice ref..del_end (both found by token identity = id).
   Python exceptions are values; the document returned next to an error is the state written so far.
   No proofs in this file. *)
From AB Require Import Prelude.

Inductive kind := KPlaceholder | KNewline | KWhitespace | KIndent | KEol | KBlockComment | KOther.
Record tok := mktok { t_id : Z; t_kind : kind; t_text : str; t_claimed : bool }.
Definition doc := list tok.

Definition is_ph (t : tok) : bool := match t_kind t with KPlaceholder => true | _ => false end.
Definition is_nl (t : tok) : bool := match t_kind t with KNewline => true | _ => false end.
Definition is_ws (t : tok) : bool := match t_kind t with KWhitespace => true | _ => false end.
Definition is_comment (t : tok) : bool := match t_kind t with KBlockComment => true | _ => false end.
Definition text_empty (t : tok) : bool := match t_text t with [] => true | _ => false end.
Definition vis (t : tok) : bool := negb (is_ph t).              (* every token that is not a Placeholder *)
Definition tkey (t : tok) : Z * kind * str := (t_id t, t_kind t, t_text t).
Definition txt (d : doc) : str := concat (map t_text d).         (* the printed text *)

(* bool(comment.indent): BlockComment._parse_value -> text before the first ';' of the first line *)
Definition comment_indented (t : tok) : bool :=
  match t_text t with c :: _ => negb (c =? 59) | [] => false end.

(* position of a token (by identity) : (tokens before it, it :: tokens after it) *)
Fixpoint split_at (i : Z) (d : doc) : option (doc * doc) :=
  match d with
  | [] => None
  | t :: r => if t_id t =? i then Some ([], d)
              else match split_at i r with Some (a, b) => Some (t :: a, b) | None => None end
  end.

(* succ(start), succ(succ(start)), ... *)
Definition walk (d : doc) (start : Z) (backwards : bool) : option (list tok) :=
  match split_at start d with
  | Some (a, _ :: b) => Some (if backwards then rev a else b)
  | _ => None
  end.

(* token_store.splice(new, ref, del_end) *)
Definition splice (d : doc) (new : list tok) (ref del_end : Z) : option doc :=
  match split_at ref d with
  | Some (a, mb) => match split_at del_end mb with
                    | Some (_, _ :: b) => Some (a ++ new ++ b)
                    | _ => None
                    end
  | None => None
  end.

Definition set_flag (v : bool) (t : tok) : tok := mktok (t_id t) (t_kind t) (t_text t) v.
Definition set_claimed (c : Z) (v : bool) (d : doc) : doc :=
  map (fun t => if t_id t =? c then set_flag v t else t) d.

(* _take_ignored: while isinstance(token, Placeholder): ignored.append(token); token = succ(token) *)
Fixpoint take_ignored (w : list tok) : list tok * list tok :=
  match w with
  | t :: r => if is_ph t then let '(i, x) := take_ignored r in (t :: i, x) else ([], w)
  | [] => ([], [])
  end.

(* _claim_comment.  `indented` = Some b for the code that compares indentation classes (None: no comparison).
   The flag is written after the splice here; in the source `comment.claimed = True` precedes the splice, the
   two writes are independent (the splice re-inserts the same token objects). *)
Definition claim_comment (current : option Z) (d : doc) (start : Z) (backwards ignore : bool)
           (indented : option bool) : res (option Z) * doc :=
  match current with
  | Some c => (Ok (Some c), d)
  | None =>
    match walk d start backwards with
    | None => (Err ModelStuck, d)
    | Some [] => (Ok None, d)                                   (* first is None *)
    | Some (first :: w') =>
      let '(ign1, r1) := take_ignored (first :: w') in
      match r1 with
      | [] => (Ok None, d)
      | nl :: r1' =>
        if negb (is_nl nl) then (Ok None, d) else
        let '(ign2, r2) := take_ignored r1' in
        match r2 with
        | [] => (Ok None, d)
        | c :: _ =>
          if negb (is_comment c) then (Ok None, d) else
          if (match indented with Some b => negb (Bool.eqb (comment_indented c) b) | None => false end)
          then (Ok None, d) else
          if t_claimed c then (if ignore then (Ok None, d) else (Err ValueError, d)) else
          let ign := ign1 ++ ign2 in
          match ign with
          | [] => (Ok (Some (t_id c)), set_claimed (t_id c) true d)
          | _ =>
            match (if backwards then splice d (rev ign ++ [c; nl]) (t_id c) (t_id first)
                   else splice d ([nl; c] ++ ign) (t_id first) (t_id c)) with
            | Some d2 => (Ok (Some (t_id c)), set_claimed (t_id c) true d2)
            | None => (Err ModelStuck, set_claimed (t_id c) true d)
            end
          end
        end
      end
    end
  end.

(* unclaim_leading_comment / unclaim_trailing_comment: (returned comment, new slot value, document) *)
Definition unclaim_comment (current : option Z) (d : doc) : option Z * option Z * doc :=
  match current with
  | Some c => (Some c, None, set_claimed c false d)
  | None => (None, None, d)
  end.

(* token_store.iter(first, last): the slice first..last; empty when last is not at/after first *)
Definition iter_range (d : doc) (first last : Z) : option (list tok) :=
  match split_at first d with
  | Some (_, mb) => match split_at last mb with
                    | Some (m0, l :: _) => Some (m0 ++ [l])
                    | _ => Some []
                    end
  | None => None
  end.

(* _shift_ignored *)
Definition shift_ignored (d : doc) (first last : Z) (backwards : bool) : option doc :=
  match iter_range d first last with
  | None => None
  | Some rng =>
    let ign := filter is_ph rng in
    let oth := filter vis rng in
    match ign with
    | [] => Some d
    | _ => splice d (if backwards then ign ++ oth else oth ++ ign) first last
    end
  end.

(* ---- _CommentClaimer ---------------------------------------------------------------------- *)
Record item := mkitem { it_comment : bool; it_ref : Z; it_first : Z; it_last : Z }.

(* _comments_to_claim: None = _Universe (contains everything, discards nothing, falsy) *)
Definition cset := option (list Z).
Definition cs_mem (s : cset) (i : Z) : bool :=
  match s with None => true | Some l => existsb (Z.eqb i) l end.
Definition cs_discard (s : cset) (i : Z) : cset :=
  match s with None => None | Some l => Some (filter (fun x => negb (x =? i)) l) end.
Definition cs_nonempty (s : cset) : bool := match s with Some (_ :: _) => true | _ => false end.

(* _find_outer: prev, token = start, succ(start); while prev is not limit and token is not None *)
Fixpoint find_outer (prev : Z) (w : list tok) (limit : Z) (s : cset) : list Z * cset :=
  match w with
  | [] => ([], s)
  | t :: w' =>
    if prev =? limit then ([], s) else
    if is_nl t || is_ws t || text_empty t then find_outer (t_id t) w' limit s
    else if is_comment t then
      if t_claimed t then ([], s)
      else if cs_mem s (t_id t)
           then let '(l, s') := find_outer (t_id t) w' limit (cs_discard s (t_id t)) in (t_id t :: l, s')
           else find_outer (t_id t) w' limit s
    else ([], s)
  end.

(* inner loop of _find_inner: from `start` (inclusive) until `end` (exclusive) or the end of the store *)
Fixpoint scan_until (e : Z) (w : list tok) (s : cset) : list Z * cset :=
  match w with
  | [] => ([], s)
  | t :: w' =>
    if t_id t =? e then ([], s)
    else if is_comment t && cs_mem s (t_id t) && negb (t_claimed t)
         then let '(l, s') := scan_until e w' (cs_discard s (t_id t)) in (t_id t :: l, s')
         else scan_until e w' s
  end.

Definition from_incl (d : doc) (i : Z) : list tok :=
  match split_at i d with Some (_, mb) => mb | None => [] end.
Definition after (d : doc) (i : Z) : list tok :=
  match split_at i d with Some (_, _ :: b) => b | _ => [] end.

(* entries of the new item list: (is a comment, comment id / model id) *)
Definition oitem := (bool * Z)%type.
Definition oitem_of (it : item) : oitem := (it_comment it, it_ref it).

Fixpoint find_inner (d : doc) (start : list tok) (items : list item) (s : cset) : list oitem * cset :=
  match items with
  | [] => ([], s)
  | it :: rest =>
    let '(found, s1) := scan_until (it_first it) start s in
    let s2 := if it_comment it then cs_discard s1 (it_ref it) else s1 in
    let '(l, s3) := find_inner d (after d (it_last it)) rest s2 in
    (map (fun c => (true, c)) found ++ oitem_of it :: l, s3)
  end.

Definition rep_last (ph : Z) (items : list item) : Z :=
  match rev items with it :: _ => it_last it | [] => ph end.

Definition comments_of (l : list oitem) : list Z :=
  map snd (filter (fun x => fst x) l).

Definition claim_all (cs : list Z) (d : doc) : doc := fold_left (fun acc c => set_claimed c true acc) cs d.
Definition unclaim_all (cs : list Z) (d : doc) : doc := fold_left (fun acc c => set_claimed c false acc) cs d.

(* _CommentClaimer.claim (with the repairs of fixes/c14-interleaving-claimer.patch: _find_outer discards what it
   yields; the backwards shift runs from the outermost comment to the repeated field's own placeholder).
   Result: (returned comments, new item list) and the document. *)
Definition claimer_claim (d : doc) (ph : Z) (items : list item) (mfirst mlast : Z) (flt : cset)
  : res (list Z * list oitem) * doc :=
  match walk d ph true, walk d (rep_last ph items) false with
  | Some wb, Some wa =>
    let '(cb_rev, s1) := find_outer ph wb mfirst flt in
    let cb := rev cb_rev in
    let '(inner, s2) := find_inner d (from_incl d ph) items s1 in
    let '(ca, s3) := find_outer (rep_last ph items) wa mlast s2 in
    if cs_nonempty s3 then (Err ValueError, d) else
    match (match cb with c0 :: _ => shift_ignored d c0 ph true | [] => Some d end) with
    | None => (Err ModelStuck, d)
    | Some d1 =>
      match (match rev ca, wa with
             | cl :: _, f :: _ => shift_ignored d1 (t_id f) cl false
             | _ :: _, [] => None                               (* assert first is not None *)
             | [], _ => Some d1 end) with
      | None => (Err AssertionError, d1)
      | Some d2 =>
        let its := map (fun c => (true, c)) cb ++ inner ++ map (fun c => (true, c)) ca in
        (Ok (comments_of its, its), claim_all (comments_of its) d2)
      end
    end
  | _, _ => (Err ModelStuck, d)
  end.

(* unclaim_interleaving_comments (with the repair: nothing is written when a comment is not found) *)
Fixpoint unclaim_scan (items : list item) (s : cset) (all : bool) : list oitem * list Z * cset :=
  match items with
  | [] => ([], [], s)
  | it :: rest =>
    if negb (it_comment it) then
      let '(k, u, s') := unclaim_scan rest s all in (oitem_of it :: k, u, s')
    else if negb all && negb (cs_mem s (it_ref it)) then
      let '(k, u, s') := unclaim_scan rest s all in (oitem_of it :: k, u, s')
    else
      let '(k, u, s') := unclaim_scan rest (if all then s else cs_discard s (it_ref it)) all in
      (k, it_ref it :: u, s')
  end.

Definition unclaim_inter (d : doc) (items : list item) (flt : cset) : res (list Z * list oitem) * doc :=
  let all := match flt with None => true | Some _ => false end in
  let '(kept, un, s') := unclaim_scan items flt all in
  if negb all && cs_nonempty s' then (Err ValueError, d)
  else (Ok (un, kept), unclaim_all un d).

(* ---- ownership table ----------------------------------------------------------------------
   Which slots reference which comment: leading / trailing comment of a model, entries of a repeated field. *)
Inductive slot := SLead (n : Z) | STrail (n : Z) | SRep (r : Z).
Definition slot_eqb (a b : slot) : bool :=
  match a, b with
  | SLead x, SLead y | STrail x, STrail y | SRep x, SRep y => x =? y
  | _, _ => false
  end.
Definition table := list (slot * list Z).

Fixpoint tget (tb : table) (s : slot) : list Z :=
  match tb with [] => [] | (s', l) :: r => if slot_eqb s' s then l else tget r s end.
Fixpoint tset (tb : table) (s : slot) (l : list Z) : table :=
  match tb with
  | [] => [(s, l)]
  | (s', l') :: r => if slot_eqb s' s then (s, l) :: r else (s', l') :: tset r s l
  end.
Fixpoint count_z (c : Z) (l : list Z) : nat :=
  match l with [] => O | x :: r => ((if Z.eqb x c then 1 else 0) + count_z c r)%nat end.
Fixpoint owners (c : Z) (tb : table) : nat :=
  match tb with [] => O | (_, l) :: r => (count_z c l + owners c r)%nat end.

Definition opt_list (o : option Z) : list Z := match o with Some c => [c] | None => [] end.
Definition cur_of (l : list Z) : option Z := match l with c :: _ => Some c | [] => None end.

(* the API calls on a model's surrounding comments; `start` is the model's first/last token at call time *)
Inductive sop :=
| ClaimLead (n start : Z) (ignore : bool) (ind : option bool)
| ClaimTrail (n start : Z) (ignore : bool) (ind : option bool)
| UnclaimLead (n : Z)
| UnclaimTrail (n : Z).

Definition sstep (st : doc * table) (o : sop) : doc * table :=
  let '(d, tb) := st in
  match o with
  | ClaimLead n start ig ind =>
    match claim_comment (cur_of (tget tb (SLead n))) d start true ig ind with
    | (Ok r, d') => (d', tset tb (SLead n) (opt_list r))
    | (Err _, d') => (d', tb)
    end
  | ClaimTrail n start ig ind =>
    match claim_comment (cur_of (tget tb (STrail n))) d start false ig ind with
    | (Ok r, d') => (d', tset tb (STrail n) (opt_list r))
    | (Err _, d') => (d', tb)
    end
  | UnclaimLead n =>
    let '(_, now, d') := unclaim_comment (cur_of (tget tb (SLead n))) d in (d', tset tb (SLead n) (opt_list now))
  | UnclaimTrail n =>
    let '(_, now, d') := unclaim_comment (cur_of (tget tb (STrail n))) d in (d', tset tb (STrail n) (opt_list now))
  end.

(* ---- all six call kinds on (document, ownership table) ---------------------------------------
   The interleaving calls take the repeated field's item list (with the first/last token of every item) as
   observed input, like `start` above; `op_ok` says that this input is the one the table holds and that the items
   lie in store order behind the field's placeholder (true of every reachable tree: checked on every call). *)
Inductive cop :=
| OS (o : sop)
| OClaimInter (r ph : Z) (items : list item) (mfirst mlast : Z) (flt : cset)
| OUnclaimInter (r : Z) (items : list item) (flt : cset).

Definition cstep (st : doc * table) (o : cop) : doc * table :=
  match o with
  | OS o => sstep st o
  | OClaimInter r ph items mf ml flt =>
    match claimer_claim (fst st) ph items mf ml flt with
    | (Ok (_, its), d') => (d', tset (snd st) (SRep r) (comments_of its))
    | (Err _, d') => (d', snd st)
    end
  | OUnclaimInter r items flt =>
    match unclaim_inter (fst st) items flt with
    | (Ok (_, its), d') => (d', tset (snd st) (SRep r) (comments_of its))
    | (Err _, d') => (d', snd st)
    end
  end.

(* what remains of the token list `w` after walking over the items in order: None when an item does not lie
   (first token, then last token) behind the previous one *)
Fixpoint leftover (w : list tok) (items : list item) : option (list tok) :=
  match items with
  | [] => Some w
  | it :: rest =>
    match split_at (it_first it) w with
    | Some (_, ff) => match split_at (it_last it) ff with
                      | Some (_, _ :: a) => leftover a rest
                      | _ => None
                      end
    | None => None
    end
  end.
Definition items_ordered_b (d : doc) (ph : Z) (items : list item) : bool :=
  match leftover (from_incl d ph) items with Some _ => true | None => false end.

Definition old_comments (items : list item) : list Z := comments_of (map oitem_of items).

Definition op_ok (st : doc * table) (o : cop) : bool :=
  match o with
  | OS _ => true
  | OClaimInter r ph items _ _ _ =>
    list_eqb Z.eqb (old_comments items) (tget (snd st) (SRep r)) && items_ordered_b (fst st) ph items
  | OUnclaimInter r items _ => list_eqb Z.eqb (old_comments items) (tget (snd st) (SRep r))
  end.
Fixpoint hist_ok (ops : list cop) (st : doc * table) : bool :=
  match ops with [] => true | o :: r => op_ok st o && hist_ok r (cstep st o) end.

(* what auto_claim_comments emits: surrounding claims with ignore_if_already_claimed=True, interleaving claims of
   everything (no explicit comment list) *)
Definition is_auto_op (o : cop) : bool :=
  match o with
  | OS (ClaimLead _ _ ig _) | OS (ClaimTrail _ _ ig _) => ig
  | OClaimInter _ _ _ _ _ None => true
  | _ => false
  end.

(* boolean form of the invariant, evaluated by the harness on every initial state *)
Fixpoint nodup_zb (l : list Z) : bool :=
  match l with [] => true | x :: r => negb (existsb (Z.eqb x) r) && nodup_zb r end.
Definition inv_b (st : doc * table) : bool :=
  nodup_zb (map t_id (fst st))
  && forallb (fun t => negb (is_comment t)
                       || ((owners (t_id t) (snd st) <=? 1)%nat
                           && Bool.eqb (t_claimed t) (owners (t_id t) (snd st) =? 1)%nat)) (fst st)
  && forallb (fun e => match fst e with SRep _ => true | _ => (length (snd e) <=? 1)%nat end) (snd st).
Definition all_claimed_b (d : doc) : bool := forallb (fun t => negb (is_comment t) || t_claimed t) d.

(* the comment `_claim_comment` would look at from `start` (placeholders aside, exactly one line break away,
   of the model's indentation class), whatever its claimed flag: the shape hypothesis of the restore theorem *)
Definition adjacent_comment (d : doc) (start : Z) (backwards : bool) (indented : option bool) : option tok :=
  match walk d start backwards with
  | Some w =>
    let '(_, r1) := take_ignored w in
    match r1 with
    | nl :: r1' =>
      if is_nl nl then
        let '(_, r2) := take_ignored r1' in
        match r2 with
        | c :: _ =>
          if is_comment c
             && (match indented with Some b => Bool.eqb (comment_indented c) b | None => true end)
          then Some c else None
        | [] => None
        end
      else None
    | [] => None
    end
  | None => None
  end.

(* cstep together with what the call returned: (returned comment ids, new item list) or the exception *)
Definition cstep_obs (st : doc * table) (o : cop) : res (list Z * list oitem) * (doc * table) :=
  let '(d, tb) := st in
  match o with
  | OS (ClaimLead n start ig ind) =>
    match claim_comment (cur_of (tget tb (SLead n))) d start true ig ind with
    | (Ok r, d') => (Ok (opt_list r, []), (d', tset tb (SLead n) (opt_list r)))
    | (Err e, d') => (Err e, (d', tb))
    end
  | OS (ClaimTrail n start ig ind) =>
    match claim_comment (cur_of (tget tb (STrail n))) d start false ig ind with
    | (Ok r, d') => (Ok (opt_list r, []), (d', tset tb (STrail n) (opt_list r)))
    | (Err e, d') => (Err e, (d', tb))
    end
  | OS (UnclaimLead n) =>
    let '(r, now, d') := unclaim_comment (cur_of (tget tb (SLead n))) d in
    (Ok (opt_list r, []), (d', tset tb (SLead n) (opt_list now)))
  | OS (UnclaimTrail n) =>
    let '(r, now, d') := unclaim_comment (cur_of (tget tb (STrail n))) d in
    (Ok (opt_list r, []), (d', tset tb (STrail n) (opt_list now)))
  | OClaimInter r ph items mf ml flt =>
    match claimer_claim d ph items mf ml flt with
    | (Ok (ret, its), d') => (Ok (ret, its), (d', tset tb (SRep r) (comments_of its)))
    | (Err e, d') => (Err e, (d', tb))
    end
  | OUnclaimInter r items flt =>
    match unclaim_inter d items flt with
    | (Ok (ret, its), d') => (Ok (ret, its), (d', tset tb (SRep r) (comments_of its)))
    | (Err e, d') => (Err e, (d', tb))
    end
  end.

Definition op_slot (o : cop) : slot :=
  match o with
  | OS (ClaimLead n _ _ _) | OS (UnclaimLead n) => SLead n
  | OS (ClaimTrail n _ _ _) | OS (UnclaimTrail n) => STrail n
  | OClaimInter r _ _ _ _ _ | OUnclaimInter r _ _ => SRep r
  end.

(* every comment entry of the item list names a block comment of the store *)
Definition refs_ok_b (d : doc) (items : list item) : bool :=
  forallb (fun c => existsb (fun t => (t_id t =? c) && is_comment t) d) (old_comments items).
(* hypotheses of the idempotence theorem for one call made by auto_claim_comments *)
Definition auto_ok (st : doc * table) (o : cop) : bool :=
  is_auto_op o && op_ok st o &&
  match o with OClaimInter _ _ items _ _ _ => refs_ok_b (fst st) items | _ => true end.

(* ---- node-level assignment of a comment (an edit: x.raw_leading_comment = comment, append/insert of a comment
   into a *_with_comments list).  The new tokens (the comment and its separators) enter the store behind `after`;
   BlockComment.reattach sets the claimed flag of the attached comment; the slot references it. *)
Inductive eop :=
| EC (o : cop)
| EAttach (s : slot) (pos : nat) (after : option Z) (new : list tok) (c : Z).

Definition insert_after (d : doc) (after : option Z) (new : list tok) : option doc :=
  match after with
  | None => Some (new ++ d)
  | Some a => match split_at a d with Some (p, x :: b) => Some (p ++ x :: new ++ b) | _ => None end
  end.
Definition insert_at (pos : nat) (c : Z) (l : list Z) : list Z := firstn pos l ++ [c] ++ skipn pos l.

Definition estep (st : doc * table) (o : eop) : doc * table :=
  match o with
  | EC o => cstep st o
  | EAttach s pos after new c =>
    match insert_after (fst st) after (set_claimed c true new) with
    | Some d' => (d', tset (snd st) s (insert_at pos c (tget (snd st) s)))
    | None => st
    end
  end.

(* the attached tokens are new to the store, the comment among them is `c` and nothing references it yet; a
   leading/trailing slot must be empty (assignment over an existing comment removes that one first: not modelled) *)
Definition attach_ok (st : doc * table) (s : slot) (new : list tok) (c : Z) : bool :=
  nodup_zb (map t_id new)
  && forallb (fun t => negb (existsb (Z.eqb (t_id t)) (map t_id (fst st)))) new
  && forallb (fun t => negb (is_comment t) || (t_id t =? c)) new
  && existsb (fun t => t_id t =? c) new
  && (owners c (snd st) =? 0)%nat
  && match s with SRep _ => true | _ => match tget (snd st) s with [] => true | _ => false end end.

Definition eop_ok (st : doc * table) (o : eop) : bool :=
  match o with EC o => op_ok st o | EAttach s _ _ new c => attach_ok st s new c end.
Fixpoint ehist_ok (ops : list eop) (st : doc * table) : bool :=
  match ops with [] => true | o :: r => eop_ok st o && ehist_ok r (estep st o) end.
