(* Glue for the C19 correspondence of NumExprSteps.v: one case = one in-place operator call on a NumberExpr that sits in a
   parsed ledger (harness/c19.py, probe_unconsumable_operands).  The harness hands over what it READ from the
   implementation before the call (raw texts of the store's tokens around self, self's tree with its gaps, the operand)
   and after it (exception class or none, raw texts of all tokens of the store, index of self.first_token, self's tree). *)
From AB Require Import Prelude NumExpr NumExprRun NumExprSteps.

Record acase := mkacase {
  a_pre : list str;            (* raw_text of every token of the store before self.first_token *)
  a_tree : add;                (* self._number_add_expr *)
  a_owns : bool;               (* false: self is a spent expression, the fields describe the store its tree was moved to *)
  a_post : list str;           (* raw_text of every token after self.last_token *)
  a_toks_before : list str;    (* raw_text of every token of the store (validates the three fields above) *)
  a_op : binop;
  a_operand : soperand;
  a_exc : option exn;          (* observed: the exception class, None = the call returned *)
  a_toks_after : list str;
  a_first_after : Z;
  a_tree_after : add }.

(* tokens around self are opaque to the operators: any token kind will do *)
Definition around (l : list str) : list tok := map TWs l.

(* an operand expression as observed: (texts before, tree, texts after) in ITS store *)
Definition live (p : list str) (t : add) (q : list str) : soperand := OExpr (Live (NE (around p) t (around q))).

Definition res_agrees (r : res unit) (o : option exn) : bool :=
  match r, o with
  | Ok _, None => true
  | Err e, Some e' => exn_eqb e e'
  | _, _ => false
  end.

Definition check_case (c : acase) : bool :=
  let s := around (a_pre c) ++ re (a_tree c) ++ around (a_post c) in
  let self := SR (length (a_pre c)) (a_tree c) (a_owns c) in
  let '(s', self', r) := s_idunder VCode (a_op c) s self (a_operand c) in
  list_eqb str_eqb (map tok_text s) (a_toks_before c)
  && res_agrees r (a_exc c)
  && list_eqb str_eqb (map tok_text s') (a_toks_after c)
  && (Z.of_nat (s_first self') =? a_first_after c)
  && add_eqb (s_tree self') (a_tree_after c).
