(* Bridge between the plain-list models of the other layers and the blocked store: for a token type A
   with an integer identity `zid`, a document d : list A represents the store s when
   abs s = map Pid d  (Pid x = the store's token id of x).  The lemmas below turn the refinement theorems
   of StoreOps/StoreRefuse into statements about list surgery on d.  Model-specific instances are in
   StoreLinkRepeated.v, StoreLinkComments.v, StoreLinkMisc.v. *)
From AB Require Export StoreRefuse.
From AB Require Import StoreRun.
From Coq Require Import ZifyBool.

(* ---------- list_splice on decomposed lists ---------- *)
Lemma ls_after (X Z T : list positive) y :
  list_splice (X ++ y :: Z) T (S (length X)) (S (length X)) = X ++ y :: T ++ Z.
Proof.
  unfold list_splice. replace (X ++ y :: Z) with ((X ++ [y]) ++ Z) by (rewrite <- app_assoc; reflexivity).
  replace (S (length X)) with (length (X ++ [y])) by (rewrite app_length; cbn; lia).
  rewrite firstn_app, Nat.sub_diag, firstn_all, skipn_app, Nat.sub_diag, skipn_all. cbn [firstn skipn app].
  rewrite app_nil_r, <- app_assoc. reflexivity.
Qed.

Lemma ls_range (X M Z T : list positive) :
  list_splice (X ++ M ++ Z) T (length X) (length X + length M) = X ++ T ++ Z.
Proof.
  unfold list_splice. rewrite firstn_app, Nat.sub_diag, firstn_all. cbn [firstn]. rewrite app_nil_r. do 2 f_equal.
  rewrite app_assoc. replace (length X + length M)%nat with (length (X ++ M)) by apply app_length.
  rewrite skipn_app, Nat.sub_diag, skipn_all. reflexivity.
Qed.

Lemma ls_before (X Z T : list positive) : list_splice (X ++ Z) T (length X) (length X) = X ++ T ++ Z.
Proof. pose proof (ls_range X [] Z T) as H. cbn [app length] in H. rewrite Nat.add_0_r in H. exact H. Qed.

Lemma range_mid (X M Z : list positive) :
  firstn (length X + length M - length X) (skipn (length X) (X ++ M ++ Z)) = M.
Proof.
  rewrite skipn_app, Nat.sub_diag, skipn_all. cbn [skipn app].
  replace (length X + length M - length X)%nat with (length M) by lia.
  rewrite firstn_app, Nat.sub_diag, firstn_all. cbn [firstn]. apply app_nil_r.
Qed.

Lemma absent_handle s r : Inv s -> ~ In r (abs s) -> check_handle s r = Err ValueError.
Proof. intros II H. rewrite check_handle_hnd, (detached s r II H). reflexivity. Qed.

Lemma last_indep {A} (l : list A) : forall d d', l <> [] -> last l d = last l d'.
Proof.
  induction l as [|z l IH]; intros d d' H; [contradiction|]. destruct l as [|w l]; [reflexivity|].
  change (last (z :: w :: l) d) with (last (w :: l) d). change (last (z :: w :: l) d') with (last (w :: l) d').
  apply IH. discriminate.
Qed.
Lemma last_nth {A} (q : list A) : forall y, nth_error (y :: q) (length q) = Some (last q y).
Proof.
  induction q as [|z q IH]; intro y; [reflexivity|]. cbn [length nth_error]. rewrite IH. f_equal.
  destruct q as [|w q]; [reflexivity|]. change (last (z :: w :: q) y) with (last (w :: q) y). apply last_indep. discriminate.
Qed.

(* ---------- the bridge ---------- *)
Section Bridge.
Context {A : Type} (zid : A -> Z).
Definition Pid (x : A) : positive := P (zid x).
Definition ids_pos (l : list A) : Prop := Forall (fun x => 0 < zid x) l.

Lemma P_inj a b : 0 < a -> 0 < b -> P a = P b -> a = b.
Proof. unfold P. intros. apply Z2Pos.inj; assumption. Qed.

Lemma in_ids_iff (l : list A) z : ids_pos l -> 0 < z -> (In (P z) (map Pid l) <-> In z (map zid l)).
Proof.
  intros Hp Hz. rewrite !in_map_iff. split; intros (x & E & Hx); exists x; split; auto.
  - apply P_inj; auto. unfold ids_pos in Hp. rewrite Forall_forall in Hp. apply Hp; assumption.
  - unfold Pid. rewrite E. reflexivity.
Qed.

Lemma nodup_pid (l : list A) : ids_pos l -> NoDup (map zid l) -> NoDup (map Pid l).
Proof.
  induction l as [|x r IH]; intros Hp ND; [constructor|]. inversion Hp; subst. inversion ND; subst. cbn [map].
  constructor; [|apply IH; assumption]. unfold Pid at 1. rewrite in_ids_iff by assumption. assumption.
Qed.

Variable LF : Z.
Hypothesis HLF : 1 <= LF.
Variable s : store.
Hypothesis II : Inv s.
Hypothesis Pure : pure s.

(* insert_after(t, ts) *)
Lemma bridge_insert_after a t b ts : abs s = map Pid (a ++ t :: b) ->
  NoDup (map Pid ts) -> (forall x, In x ts -> ~ In (Pid x) (abs s)) ->
  let s' := fst (insert_after LF s (Some (Pid t)) (map Pid ts)) in
  insert_after LF s (Some (Pid t)) (map Pid ts) = (s', Ok tt) /\ Inv s' /\
  abs s' = map Pid (a ++ t :: ts ++ b) /\ (forall u, txt s' u = txt s u) /\ pure s'.
Proof.
  intros E ND Hf s'. destruct (insert_after LF s (Some (Pid t)) (map Pid ts)) as [s1 r1] eqn:H. cbn [fst] in s'. subst s'.
  rewrite map_app in E. cbn [map] in E.
  destruct (insert_after_spec LF s (map Pid ts) (Some (Pid t)) (S (length (map Pid a))) s1 r1 HLF II) as (-> & I' & Ea & Ht & Fr); auto.
  - split; [lia|]. rewrite E. replace (S (length (map Pid a)) - 1)%nat with (length (map Pid a)) by lia. apply nth_error_app_mid.
  - intros u Hu. apply in_map_iff in Hu as (x & <- & Hx). apply pure_free; auto.
  - split; [reflexivity|]. split; [exact I'|]. split; [|split; [exact Ht|exact (frames_pure s s1 _ _ _ II I' (le_n _) Ea Fr Pure)]].
    rewrite Ea, E, ls_after. rewrite !map_app. cbn [map]. rewrite map_app. reflexivity.
Qed.

(* insert_before(t, ts) *)
Lemma bridge_insert_before a t b ts : abs s = map Pid (a ++ t :: b) ->
  NoDup (map Pid ts) -> (forall x, In x ts -> ~ In (Pid x) (abs s)) ->
  let s' := fst (insert_before LF s (Some (Pid t)) (map Pid ts)) in
  insert_before LF s (Some (Pid t)) (map Pid ts) = (s', Ok tt) /\ Inv s' /\
  abs s' = map Pid (a ++ ts ++ t :: b) /\ (forall u, txt s' u = txt s u) /\ pure s'.
Proof.
  intros E ND Hf s'. destruct (insert_before LF s (Some (Pid t)) (map Pid ts)) as [s1 r1] eqn:H. cbn [fst] in s'. subst s'.
  rewrite map_app in E. cbn [map] in E.
  destruct (insert_before_spec LF s (map Pid ts) (Some (Pid t)) (length (map Pid a)) s1 r1 HLF II) as (-> & I' & Ea & Ht & Fr); auto.
  - cbn. rewrite E. apply nth_error_app_mid.
  - intros u Hu. apply in_map_iff in Hu as (x & <- & Hx). apply pure_free; auto.
  - split; [reflexivity|]. split; [exact I'|]. split; [|split; [exact Ht|exact (frames_pure s s1 _ _ _ II I' (le_n _) Ea Fr Pure)]].
    rewrite Ea, E, ls_before. rewrite !map_app. cbn [map]. reflexivity.
Qed.

(* splice(ts, first of m, last of m): m is the non-empty removed segment; inserted tokens are fresh or
   taken from m *)
Lemma bridge_splice a m c ts f l : abs s = map Pid (a ++ m ++ c) ->
  nth_error m 0 = Some f -> nth_error m (length m - 1) = Some l ->
  NoDup (map Pid ts) -> (forall x, In x ts -> ~ In (Pid x) (abs s) \/ In (Pid x) (map Pid m)) ->
  let s' := fst (splice LF s (map Pid ts) (Some (Pid f)) (Some (Pid l))) in
  splice LF s (map Pid ts) (Some (Pid f)) (Some (Pid l)) = (s', Ok tt) /\ Inv s' /\
  abs s' = map Pid (a ++ ts ++ c) /\ (forall u, txt s' u = txt s u) /\ pure s'.
Proof.
  intros E Hf0 Hl0 ND Hv s'. destruct (splice LF s (map Pid ts) (Some (Pid f)) (Some (Pid l))) as [s1 r1] eqn:H.
  cbn [fst] in s'. subst s'. rewrite !map_app in E.
  assert (length m <> 0)%nat as Lm by (destruct m; [discriminate|cbn; lia]).
  set (X := map Pid a) in *. set (M := map Pid m) in *. set (Z0 := map Pid c) in *.
  assert (length M = length m) as LM by apply map_length.
  destruct (splice_spec LF s (map Pid ts) (Some (Pid f)) (Some (Pid l)) (length X) (length X + length M) s1 r1 HLF II)
    as (-> & I' & Ea & Ht & Fr); auto.
  - cbn. rewrite E, nth_error_app2, Nat.sub_diag, nth_error_app1 by lia. unfold M. rewrite nth_error_map, Hf0. reflexivity.
  - cbn. split; [lia|]. rewrite E, nth_error_app2 by lia.
    replace (length X + length M - 1 - length X)%nat with (length m - 1)%nat by lia.
    rewrite nth_error_app1 by lia. unfold M. rewrite nth_error_map, Hl0. reflexivity.
  - split; [exact ND|]. intros u Hu. apply in_map_iff in Hu as (x & <- & Hx).
    destruct (Hv x Hx) as [?|Hin]; [left; apply pure_free; assumption|right]. rewrite E, range_mid. exact Hin.
  - split; [reflexivity|]. split; [exact I'|]. split; [|split; [exact Ht|apply (frames_pure s s1 (map Pid ts) (length X) (length X + length M) II I'); [lia|exact Ea|exact Fr|exact Pure]]].
    rewrite Ea, E, ls_range. unfold X, Z0. rewrite !map_app. reflexivity.
Qed.

(* a reference that is not in the store: ValueError, store unchanged *)
Lemma bridge_absent_ref r ts d0 : ~ In r (abs s) ->
  splice LF s ts (Some r) d0 = (s, Err ValueError) /\ insert_before LF s (Some r) ts = (s, Err ValueError) /\
  insert_after LF s (Some r) ts = (s, Err ValueError) /\
  get_prev s r = Err ValueError /\ get_next s r = Err ValueError.
Proof.
  intro H. pose proof (absent_handle s r II H) as E.
  unfold insert_before, insert_after, splice, get_prev, get_next. rewrite !E. auto.
Qed.

Lemma bridge_absent_end r e ts : In r (abs s) -> ~ In e (abs s) -> splice LF s ts (Some r) (Some e) = (s, Err ValueError).
Proof.
  intros Hr He. pose proof (absent_handle s e II He) as E. unfold splice.
  destruct (check_handle s r) as [[hb hi]|e0] eqn:Er; [rewrite E; reflexivity|].
  rewrite check_handle_hnd in Er. destruct (hnd s r); [discriminate|]. injection Er as <-. reflexivity.
Qed.

(* an inserted token that already sits in the store makes both insertions refuse *)
Lemma bridge_insert_refuses a t b ts x : abs s = map Pid (a ++ t :: b) -> In x ts -> In (Pid x) (abs s) ->
  insert_after LF s (Some (Pid t)) (map Pid ts) = (s, Err ValueError) /\
  insert_before LF s (Some (Pid t)) (map Pid ts) = (s, Err ValueError).
Proof.
  intros E Hx Hin. rewrite map_app in E. cbn [map] in E.
  assert (nth_error (abs s) (length (map Pid a)) = Some (Pid t)) as Hk by (rewrite E; apply nth_error_app_mid).
  assert (In (Pid x) (map Pid ts)) as Hxi by (apply in_map; exact Hx). split.
  - apply (insert_after_refuses LF s (map Pid ts) (Some (Pid t)) (S (length (map Pid a))) (Pid x) II); auto.
    + split; [lia|]. replace (S (length (map Pid a)) - 1)%nat with (length (map Pid a)) by lia. exact Hk.
    + intro Hfr. destruct II as [I _]. exact (inv_free_not_in s (Pid x) I (free_hnd _ _ Hfr) Hin).
  - apply In_nth_error in Hin as [k Hkx].
    apply (splice_refuses LF s (map Pid ts) (Some (Pid t)) None (length (map Pid a)) (length (map Pid a)) (Pid x) k II); auto.
    + reflexivity.
    + lia.
Qed.

(* observers through the bridge *)
Lemma bridge_prev_next a t b : abs s = map Pid (a ++ t :: b) ->
  get_prev s (Pid t) = Ok (option_map Pid (match a with [] => None | x :: r => Some (last r x) end)) /\
  get_next s (Pid t) = Ok (option_map Pid (match b with [] => None | x :: _ => Some x end)).
Proof.
  intro E. rewrite map_app in E. cbn [map] in E. destruct II as [I _].
  assert (nth_error (abs s) (length (map Pid a)) = Some (Pid t)) as Hk by (rewrite E; apply nth_error_app_mid).
  split.
  - rewrite (obs_prev s I _ _ Hk). f_equal. destruct a as [|y q]; [reflexivity|].
    cbn [map length option_map]. rewrite E. cbn [map]. rewrite nth_error_app1 by (cbn [length]; rewrite map_length; lia).
    rewrite map_length. change (Pid y :: map Pid q) with (map Pid (y :: q)). rewrite nth_error_map, last_nth. reflexivity.
  - rewrite (obs_next s I _ _ Hk). f_equal. rewrite E.
    replace (map Pid a ++ Pid t :: map Pid b) with ((map Pid a ++ [Pid t]) ++ map Pid b) by (rewrite <- app_assoc; reflexivity).
    replace (S (length (map Pid a))) with (length (map Pid a ++ [Pid t]) + 0)%nat by (rewrite app_length; cbn; lia).
    rewrite nth_error_app2 by lia. replace (length (map Pid a ++ [Pid t]) + 0 - length (map Pid a ++ [Pid t]))%nat with 0%nat by lia.
    destruct b; reflexivity.
Qed.

(* iter(f, l) over the segment m *)
Lemma bridge_iter a m c f l : abs s = map Pid (a ++ m ++ c) ->
  nth_error m 0 = Some f -> nth_error m (length m - 1) = Some l ->
  iter_range s (Pid f) (Pid l) = Ok (map Pid m).
Proof.
  intros E Hf0 Hl0. destruct II as [I _]. rewrite !map_app in E.
  assert (length m <> 0)%nat as Lm by (destruct m; [discriminate|cbn; lia]).
  set (X := map Pid a) in *. set (M := map Pid m) in *. set (Z0 := map Pid c) in *.
  assert (length M = length m) as LM by apply map_length.
  rewrite (obs_range s I (length X) (length X + length M - 1) (Pid f) (Pid l)).
  - f_equal. replace (length X + length M - 1 + 1 - length X)%nat with (length X + length M - length X)%nat by lia.
    rewrite E. apply range_mid.
  - rewrite E, nth_error_app2, Nat.sub_diag, nth_error_app1 by lia. unfold M. rewrite nth_error_map, Hf0. reflexivity.
  - rewrite E, nth_error_app2 by lia. replace (length X + length M - 1 - length X)%nat with (length m - 1)%nat by lia.
    rewrite nth_error_app1 by lia. unfold M. rewrite nth_error_map, Hl0. reflexivity.
Qed.
End Bridge.
