(* L3 / C01: autobean_refactor/parser.py, class PostLex, transcribed statement by statement.

   A lexeme is (type code, text). Texts are code-point lists. The type codes of the terminals that
   PostLex.process and ModelBuilder name explicitly are fixed here; every other terminal gets a code
   >= 100 from the harness (names never cross the boundary).

   lark's contextual lexer is NOT modelled: the stream entering [process] is an input. *)
From AB Require Import Prelude.

Definition lexeme := (Z * str)%type.
Definition lty (t : lexeme) : Z := fst t.
Definition ltx (t : lexeme) : str := snd t.

Definition T_PLACEHOLDER : Z := 0.      (* internal.Placeholder (never a lark terminal) *)
Definition T_NIC : Z := 1.              (* _NEWLINE_INDENT_COMMENT *)
Definition T_NEWLINE : Z := 2.          (* _NEWLINE *)
Definition T_EOL : Z := 3.
Definition T_INDENT_MARK : Z := 4.
Definition T_DEDENT_MARK : Z := 5.
Definition T_INDENT : Z := 6.
Definition T_BLOCK_COMMENT : Z := 7.

(* the text a token list prints *)
Definition txt (l : list lexeme) : str := concat (map ltx l).

(* Python truthiness of a str *)
Definition nonempty (s : str) : bool := match s with [] => false | _ => true end.

Definition has_text (t : lexeme) : bool := nonempty (ltx t).

(* ---- _NEWLINE_INDENT_COMMENT_SPLIT_RE, used with .fullmatch and re.S. The pattern is three groups:
   G1 = any number of CR/LF characters, G2 = any number of space/tab characters, G3 (optional) = a
   semicolon followed by any characters. (The literal pattern text is pinned by the harness tie; it is
   not repeated here because it contains the comment terminator.)
   Both character classes are greedy and nothing after them can match a character of the class
   (group 2 cannot match CR/LF, group 3 must start with ';'), so the only candidate full match takes the
   maximal prefixes; with re.S, '.*' takes the whole rest. fullmatch fails exactly when the rest is
   non-empty and does not start with ';'. Group 3 is None when it did not participate. *)
Definition is_crlf (c : Z) : bool := (c =? 13) || (c =? 10).
Definition is_sptab (c : Z) : bool := (c =? 32) || (c =? 9).
Definition SEMI : Z := 59.

Fixpoint span_while (p : Z -> bool) (s : str) : str * str :=
  match s with
  | [] => ([], [])
  | c :: r => if p c then (let (a, b) := span_while p r in (c :: a, b)) else ([], s)
  end.

Definition split3 (s : str) : option (str * str * option str) :=
  let (nl, r1) := span_while is_crlf s in
  let (ind, r2) := span_while is_sptab r1 in
  match r2 with
  | [] => Some (nl, ind, None)
  | c :: _ => if c =? SEMI then Some (nl, ind, Some r2) else None
  end.

(* ---- PostLex.process ----
   state: (indented, prev_is_block_comment); the generator yields, so on a failed assert the lexemes
   yielded so far have already been handed to the parser: the result is (yielded, Some exn). *)
Record plstate := mkpl { indented : bool; prev_bc : bool }.

Definition pl_step (st : plstate) (t : lexeme) : res (list lexeme * plstate) :=
  if negb (lty t =? T_NIC) then Ok ([t], st)                                   (* yield token; continue *)
  else
    match split3 (ltx t) with
    | None => Err AssertionError                                               (* assert match *)
    | Some (nl, ind, com) =>
        let o1 := if nonempty nl && negb (prev_bc st) then [(T_EOL, [])] else [] in
        let dd := negb (nonempty ind) && indented st in
        let indented1 := if dd then false else indented st in
        let o2 := if dd then [(T_DEDENT_MARK, [])] else [] in
        let o3 := if nonempty nl then [(T_NEWLINE, nl)] else [] in
        (* prev_is_block_comment = False *)
        let ii := nonempty ind && negb indented1 in
        let indented2 := if ii then true else indented1 in
        let o4 := if ii then [(T_INDENT_MARK, [])] else [] in
        match com with
        | Some c =>
            if nonempty c
            then Ok (o1 ++ o2 ++ o3 ++ o4 ++ [(T_BLOCK_COMMENT, ind ++ c)], mkpl indented2 true)
            else if nonempty ind
                 then Ok (o1 ++ o2 ++ o3 ++ o4 ++ [(T_INDENT, ind)], mkpl indented2 false)
                 else Ok (o1 ++ o2 ++ o3 ++ o4, mkpl indented2 false)
        | None =>
            if nonempty ind
            then Ok (o1 ++ o2 ++ o3 ++ o4 ++ [(T_INDENT, ind)], mkpl indented2 false)
            else Ok (o1 ++ o2 ++ o3 ++ o4, mkpl indented2 false)
        end
    end.

(* after the loop *)
Definition pl_final (st : plstate) : list lexeme :=
  (if negb (prev_bc st) then [(T_EOL, [])] else [])
  ++ (if indented st then [(T_DEDENT_MARK, [])] else []).

Fixpoint process_from (st : plstate) (s : list lexeme) : list lexeme * option exn :=
  match s with
  | [] => (pl_final st, None)
  | t :: r =>
      match pl_step st t with
      | Err e => ([], Some e)
      | Ok (o, st') => let (o', e) := process_from st' r in (o ++ o', e)
      end
  end.

Definition process (s : list lexeme) : list lexeme * option exn :=
  process_from (mkpl false false) s.

(* PostLexInline.process: return stream *)
Definition process_inline (s : list lexeme) : list lexeme * option exn := (s, None).

(* the acceptance condition of the split, as a decidable predicate on the incoming stream *)
Definition nic_ok (t : lexeme) : bool :=
  if lty t =? T_NIC then match split3 (ltx t) with Some _ => true | None => false end else true.
