(* Executable glue for the C10 correspondence (harness/c10.py):
   - vcase: an initial raw list, and a history of operations each with what the implementation showed
     afterwards (exception class / returned value, the raw list, every registered view's _raw_indexes);
     check_case replays the history on Views.v (the repaired code, fx = true) and compares every step.
   - pcase: finite sweeps of PySeq.v against CPython (a validation of the model of Python). *)
From AB Require Import Prelude PySeq Views.

Definition E := mkelem.
Definition SL := mkslc.

Definition exn_code (e : exn) : Z :=
  match e with
  | ValueError => 1 | IndexError => 2 | KeyError => 3 | AssertionError => 4 | TypeError => 5
  | NotImplementedErr => 6 | OutOfFuel => 7 | ModelStuck => 8
  end.

(* o_has_idx = false: the private index caches could not be observed on this implementation (renamed /
   restructured); only the behavioural part (result, exception class, raw list) is compared. *)
Record obs := mkobs { o_code : Z; o_out : list elem; o_items : list elem; o_has_idx : bool; o_idx : list (list Z) }.
Record vcase := mkvcase { c_items : list elem; c_steps : list (op * obs) }.

Definition obs_of (s : st) (r : out) : obs :=
  mkobs (match r with Ok _ => 0 | Err e => exn_code e end)
        (match r with Ok l => l | Err _ => [] end)
        (items s) true (map v_idx (views s)).

Definition obs_eqb (a b : obs) : bool :=
  (o_code a =? o_code b) && list_eqb elem_eqb (o_out a) (o_out b)
  && list_eqb elem_eqb (o_items a) (o_items b)
  && (negb (o_has_idx a && o_has_idx b) || list_eqb (list_eqb Z.eqb) (o_idx a) (o_idx b)).

Fixpoint check_steps (fx : bool) (s : st) (steps : list (op * obs)) : bool :=
  match steps with
  | [] => true
  | (o, ob) :: r =>
      let (s', out) := step fx s o in
      obs_eqb (obs_of s' out) ob && check_steps fx s' r
  end.

(* ---- the hypotheses of the C10 theorems, evaluated on the states the implementation dumped --------
   (reflection lemmas in ViewsSemProofs.v: all_inv_b s = true -> AllInv s, op_hyps_b ... -> the
   hypotheses of the list/mapping equations) *)
Definition view_inv_b (its : list elem) (v : view) : bool :=
  list_eqb Z.eqb (v_idx v) (positions_from 0 (v_tags v) its).
Definition all_inv_b (s : st) : bool := forallb (view_inv_b (items s)) (views s).

Definition is_node (v : view) : bool := match v_kind v with KNode => true | _ => false end.
Definition on_view (s : st) (k : nat) (f : view -> bool) : bool :=
  match nth_error (views s) k with Some v => f v | None => false end.
(* values given to a view are of the view's type; the mapping layer sits on node views *)
Definition op_hyps_b (s : st) (o : op) : bool :=
  match o with
  | VSet k _ xs | VExtend k xs | VIAdd k xs => on_view s k (fun v => forallb (matches (v_tags v)) xs)
  | VInsert k _ x | VAppend k x => on_view s k (fun v => matches (v_tags v) x)
  | MSet k _ _ x => on_view s k (fun v => matches (v_tags v) x && is_node v)
  | MGet k _ _ | MContains k _ | MDel k _ | MPop k _ _ _ | MKeys k | MValues k _ | MItems k _ | MPopItem k _
  | MDict k _ _ _ =>
      on_view s k is_node
  | _ => true
  end.

Fixpoint zip_idx (vs : list view) (idx : list (list Z)) : list view :=
  match vs, idx with
  | v :: vs', i :: idx' => mkview (v_tags v) (v_kind v) i :: zip_idx vs' idx'
  | _, _ => []
  end.
(* the implementation's state as dumped (tags/kinds of the registered views from the history) *)
Definition impl_state (model : st) (ob : obs) : st :=
  mkst (o_items ob) (if o_has_idx ob then zip_idx (views model) (o_idx ob)
                     else map (handle (o_items ob)) (views model)).

Fixpoint check_hyps_steps (s prev : st) (steps : list (op * obs)) : bool :=
  match steps with
  | [] => true
  | (o, ob) :: r =>
      let (s', _) := step true s o in
      let cur := impl_state s' ob in
      op_hyps_b prev o && all_inv_b cur && (length (views cur) =? length (views s'))%nat
      && check_hyps_steps s' cur r
  end.
Definition check_hyps (c : vcase) : bool :=
  check_hyps_steps (mkst (c_items c) []) (mkst (c_items c) []) (c_steps c).
Definition check_corr (c : vcase) : bool := check_steps true (mkst (c_items c) []) (c_steps c).
Definition check_case (c : vcase) : bool := check_corr c && check_hyps c.
(* the code as found (before fixes/c10-*.patch); used only to classify a disagreement *)
Definition check_case_asfound (c : vcase) : bool := check_steps false (mkst (c_items c) []) (c_steps c).

(* the model's own trace, for replay/debugging *)
Fixpoint trace (fx : bool) (s : st) (ops : list op) : list obs :=
  match ops with
  | [] => []
  | o :: r => let (s', out) := step fx s o in obs_of s' out :: trace fx s' r
  end.

(* ---- sweeps of PySeq against CPython ---------------------------------------------------------- *)
Definition HM : Z := 2305843009213693951.
Definition hash (l : list Z) : Z := fold_left (fun h x => (h * 1000003 + x + 7) mod HM) l 17.

Definition enc3 (r : res (Z * Z * Z)) : list Z :=
  match r with Ok (a, b, c) => [0; a; b; c] | Err e => [exn_code e] end.
Definition encl (r : res (list Z)) : list Z :=
  match r with Ok l => 0 :: zlen l :: l | Err e => [exn_code e] end.
Definition encz (r : res Z) : list Z := match r with Ok a => [0; a] | Err e => [exn_code e] end.

Definition zseq (n : Z) : list Z := map Z.of_nat (seq 0 (Z.to_nat n)).
Definition fresh (n : Z) : list Z := map (fun k => 100 + k) (zseq n).

Definition slice_row (n : Z) (sl : slc) : Z :=
  let l := zseq n in
  hash (enc3 (slice_indices n sl)
        ++ (match range_getslice n sl with
            | Ok r => range_len r :: range_list r
                      ++ encl (list_get_slice l (slice_from_range r))
                      ++ encl (list_set_slice l sl (fresh (range_len r)))
            | Err e => [exn_code e] end)
        ++ encl (list_get_slice l sl)
        ++ encl (list_del_slice l sl)
        ++ encl (list_set_slice l sl [100; 101])).

Definition sweep_slices (n : Z) (vals : list (option Z)) : list Z :=
  flat_map (fun a => flat_map (fun b => map (fun k => slice_row n (SL a b k)) vals) vals) vals.

Definition int_row (n i : Z) : Z :=
  let l := zseq n in
  hash (encz (norm_index n i) ++ encz (list_get_int l i) ++ encl (list_set_int l i 100)
        ++ encl (list_del_int l i)
        ++ [insert_pos n i] ++ list_insert l i 100
        ++ (match list_pop l i with Ok (x, r) => 0 :: x :: r | Err e => [exn_code e] end)
        ++ (match range_from_index (IInt i) n with
            | Ok r => [0; r_start r; r_stop r; r_step r] | Err e => [exn_code e] end)).

Definition sweep_ints (n : Z) (is : list Z) : list Z := map (int_row n) is.

Fixpoint all_lists (k : nat) (vals : list Z) : list (list Z) :=
  match k with
  | O => [[]]
  | S k' => flat_map (fun h => map (cons h) (all_lists k' vals)) vals
  end.

Definition sweep_bisect (k : Z) (vals xs : list Z) : list Z :=
  flat_map (fun l => map (bisect_left l) xs) (all_lists (Z.to_nat k) vals).

Definition sweep_remove (k : Z) (vals xs : list Z) : list Z :=
  flat_map (fun l => flat_map (fun x => encl (list_remove Z.eqb l x)) xs) (all_lists (Z.to_nat k) vals).

(* kind 0: slices, 1: ints, 2: bisect_left, 3: list.remove *)
Record pcase := mkpcase { p_kind : Z; p_n : Z; p_optvals : list (option Z); p_vals : list Z;
                          p_xs : list Z; p_expected : list Z }.
Definition check_pcase (c : pcase) : bool :=
  list_eqb Z.eqb
    (if p_kind c =? 0 then sweep_slices (p_n c) (p_optvals c)
     else if p_kind c =? 1 then sweep_ints (p_n c) (p_vals c)
     else if p_kind c =? 2 then sweep_bisect (p_n c) (p_vals c) (p_xs c)
     else sweep_remove (p_n c) (p_vals c) (p_xs c))
    (p_expected c).
(* positions at which a sweep differs (for the failure message) *)
Fixpoint diff_positions (i : Z) (a b : list Z) : list Z :=
  match a, b with
  | x :: a', y :: b' => if x =? y then diff_positions (i + 1) a' b' else i :: diff_positions (i + 1) a' b'
  | [], [] => []
  | _, _ => [i]
  end.
