(* Library for the token-store proofs: Position arithmetic (token_size / advance), finite-map
   get/set facts, handle assignment loops, and the specification of the size/last-newline scan. *)
From AB Require Export Store.
From Coq Require Import ZifyBool.

(* ---------- Position arithmetic ---------- *)
Lemma pos_eq a b : line a = line b -> col a = col b -> a = b.
Proof. destruct a, b; cbn; intros; subst; reflexivity. Qed.

Lemma pos_iadd_0_l a : pos_iadd pos0 a = a.
Proof. apply pos_eq; unfold pos_iadd; cbn; [lia|destruct (line a =? 0); lia]. Qed.
Lemma pos_iadd_0_r a : pos_iadd a pos0 = a.
Proof. apply pos_eq; unfold pos_iadd; cbn; lia. Qed.

Lemma pos_iadd_assoc a b c : 0 <= line b -> 0 <= line c ->
  pos_iadd a (pos_iadd b c) = pos_iadd (pos_iadd a b) c.
Proof.
  intros Hb Hc. apply pos_eq; unfold pos_iadd; cbn; [lia|].
  destruct (Z.eqb_spec (line b + line c) 0), (Z.eqb_spec (line c) 0), (Z.eqb_spec (line b) 0); lia.
Qed.

Lemma count_nl_nonneg s : 0 <= count_nl s.
Proof. induction s as [|c r IH]; cbn [count_nl]; [lia|]. destruct (c =? NL); lia. Qed.

Lemma count_nl_app a b : count_nl (a ++ b) = count_nl a + count_nl b.
Proof. induction a as [|c r IH]; cbn [count_nl app]; [lia|]. rewrite IH; lia. Qed.

Lemma rfind_from_app a : forall i b last,
  rfind_nl_from i (a ++ b) last = rfind_nl_from (i + zlen a) b (rfind_nl_from i a last).
Proof.
  unfold zlen. induction a as [|c r IH]; intros; cbn [app rfind_nl_from length].
  - f_equal; lia.
  - rewrite IH. f_equal. lia.
Qed.

Lemma rfind_from_none s : forall i last, count_nl s = 0 -> rfind_nl_from i s last = last.
Proof.
  induction s as [|c r IH]; intros i last H; cbn [rfind_nl_from count_nl] in *; [reflexivity|].
  pose proof (count_nl_nonneg r). destruct (Z.eqb_spec c NL); [lia|]. apply IH; lia.
Qed.

Lemma rfind_from_some s : forall i last, count_nl s <> 0 ->
  rfind_nl_from i s last = i + rfind_nl s.
Proof.
  unfold rfind_nl. induction s as [|c r IH]; intros i last H; cbn [rfind_nl_from count_nl] in *; [lia|].
  destruct (Z.eq_dec (count_nl r) 0) as [E|E].
  - rewrite !rfind_from_none by assumption. destruct (Z.eqb_spec c NL); lia.
  - rewrite (IH (i + 1)), (IH (0 + 1)) by assumption. lia.
Qed.

Lemma token_size_app a b : token_size (a ++ b) = pos_iadd (token_size a) (token_size b).
Proof.
  apply pos_eq; unfold token_size, pos_iadd; cbn [line col].
  - apply count_nl_app.
  - unfold rfind_nl at 1. rewrite rfind_from_app, app_length, Nat2Z.inj_add.
    destruct (Z.eqb_spec (count_nl b) 0) as [E|E].
    + rewrite rfind_from_none by assumption. unfold rfind_nl at 2.
      rewrite (rfind_from_none b) by assumption. fold (rfind_nl a). lia.
    + rewrite rfind_from_some by assumption. unfold zlen. lia.
Qed.

Lemma token_size_nil : token_size [] = pos0.
Proof. reflexivity. Qed.

Lemma token_size_line_nonneg s : 0 <= line (token_size s).
Proof. apply count_nl_nonneg. Qed.

Lemma advance1_size p c : advance1 p c = pos_iadd p (token_size [c]).
Proof.
  unfold advance1, token_size, pos_iadd, rfind_nl. cbn.
  destruct (Z.eqb_spec c NL); cbn; apply pos_eq; cbn; lia.
Qed.

(* the meaning of token_size: the (line, column) displacement of reading the text *)
Lemma advance_size s : forall p, advance p s = pos_iadd p (token_size s).
Proof.
  unfold advance. induction s as [|c r IH] using rev_ind; intro p.
  - cbn. symmetry; apply pos_iadd_0_r.
  - rewrite fold_left_app. cbn [fold_left]. rewrite IH, advance1_size, token_size_app.
    symmetry; apply pos_iadd_assoc; apply token_size_line_nonneg.
Qed.

Lemma advance_pos0 s : advance pos0 s = token_size s.
Proof. rewrite advance_size. apply pos_iadd_0_l. Qed.

(* ---------- finite maps ---------- *)
Lemma tget_add_same tk t r : tget (PositiveMap.add t r tk) t = r.
Proof. unfold tget. rewrite PositiveMap.gss. reflexivity. Qed.
Lemma tget_add_other tk t t' r : t' <> t -> tget (PositiveMap.add t r tk) t' = tget tk t'.
Proof. intro H. unfold tget. rewrite PositiveMap.gso by assumption. reflexivity. Qed.
Lemma bget_add_same h b r : bget (PositiveMap.add b r h) b = r.
Proof. unfold bget. rewrite PositiveMap.gss. reflexivity. Qed.
Lemma bget_add_other h b b' r : b' <> b -> bget (PositiveMap.add b r h) b' = bget h b'.
Proof. intro H. unfold bget. rewrite PositiveMap.gso by assumption. reflexivity. Qed.

Lemma tset_handle_same tk t h : t_handle (tget (tset_handle tk t h) t) = h.
Proof. unfold tset_handle. rewrite tget_add_same. reflexivity. Qed.
Lemma tset_handle_other tk t t' h : t' <> t -> tget (tset_handle tk t h) t' = tget tk t'.
Proof. intro. unfold tset_handle. apply tget_add_other; assumption. Qed.
Lemma tset_handle_size tk t h t' : t_size (tget (tset_handle tk t h) t') = t_size (tget tk t').
Proof.
  destruct (Pos.eq_dec t' t) as [->|N].
  - unfold tset_handle. rewrite tget_add_same. reflexivity.
  - rewrite tset_handle_other by assumption. reflexivity.
Qed.
Lemma tset_handle_text tk t h t' : t_text (tget (tset_handle tk t h) t') = t_text (tget tk t').
Proof.
  destruct (Pos.eq_dec t' t) as [->|N].
  - unfold tset_handle. rewrite tget_add_same. reflexivity.
  - rewrite tset_handle_other by assumption. reflexivity.
Qed.

(* ---------- rehandle / unhandle ---------- *)
Lemma rehandle_other ts : forall tk sid b i t, ~ In t ts -> tget (rehandle tk sid b i ts) t = tget tk t.
Proof.
  induction ts as [|x r IH]; intros tk sid b i t H; cbn [rehandle]; [reflexivity|].
  rewrite IH by (intro; apply H; right; assumption).
  apply tset_handle_other. intro; subst; apply H; left; reflexivity.
Qed.
Lemma rehandle_size ts : forall tk sid b i t, t_size (tget (rehandle tk sid b i ts) t) = t_size (tget tk t).
Proof.
  induction ts as [|x r IH]; intros; cbn [rehandle]; [reflexivity|]. rewrite IH. apply tset_handle_size.
Qed.
Lemma rehandle_text ts : forall tk sid b i t, t_text (tget (rehandle tk sid b i ts) t) = t_text (tget tk t).
Proof.
  induction ts as [|x r IH]; intros; cbn [rehandle]; [reflexivity|]. rewrite IH. apply tset_handle_text.
Qed.
Lemma rehandle_in ts : forall tk sid b i j t, NoDup ts -> nth_error ts j = Some t ->
  t_handle (tget (rehandle tk sid b i ts) t) = Some (sid, b, i + Z.of_nat j).
Proof.
  induction ts as [|x r IH]; intros tk sid b i j t ND H; [destruct j; discriminate|].
  inversion ND as [|? ? Hx ND']; subst. cbn [rehandle]. destruct j as [|j]; cbn [nth_error] in H.
  - injection H as ->. rewrite rehandle_other by assumption. rewrite tset_handle_same. f_equal. f_equal. lia.
  - rewrite (IH _ _ _ _ j) by assumption. f_equal. f_equal. lia.
Qed.

Lemma unhandle_other ts : forall tk t, ~ In t ts -> tget (unhandle tk ts) t = tget tk t.
Proof.
  induction ts as [|x r IH]; intros tk t H; cbn [unhandle]; [reflexivity|].
  rewrite IH by (intro; apply H; right; assumption).
  apply tset_handle_other. intro; subst; apply H; left; reflexivity.
Qed.
Lemma unhandle_size ts : forall tk t, t_size (tget (unhandle tk ts) t) = t_size (tget tk t).
Proof. induction ts as [|x r IH]; intros; cbn [unhandle]; [reflexivity|]. rewrite IH. apply tset_handle_size. Qed.
Lemma unhandle_text ts : forall tk t, t_text (tget (unhandle tk ts) t) = t_text (tget tk t).
Proof. induction ts as [|x r IH]; intros; cbn [unhandle]; [reflexivity|]. rewrite IH. apply tset_handle_text. Qed.
Lemma unhandle_in ts : forall tk t, In t ts -> t_handle (tget (unhandle tk ts) t) = None.
Proof.
  induction ts as [|x r IH]; intros tk t H; [destruct H|]. cbn [unhandle].
  destruct (in_dec Pos.eq_dec t r) as [I|I].
  - apply IH; assumption.
  - rewrite unhandle_other by assumption. destruct H as [->|H]; [|contradiction]. apply tset_handle_same.
Qed.
Lemma unhandle_handle ts tk t :
  t_handle (tget (unhandle tk ts) t) = if in_dec Pos.eq_dec t ts then None else t_handle (tget tk t).
Proof.
  destruct (in_dec Pos.eq_dec t ts); [apply unhandle_in; assumption|rewrite unhandle_other by assumption; reflexivity].
Qed.

(* ---------- sums of lines / columns ---------- *)
Definition tsz (tk : tokmap) (t : positive) : pos := t_size (tget tk t).

Lemma fold_add_shift {A} (f : A -> Z) l : forall a, fold_left (fun acc t => acc + f t) l a = a + fold_left (fun acc t => acc + f t) l 0.
Proof.
  induction l as [|x r IH]; intro a; cbn [fold_left]; [lia|]. rewrite IH, (IH (0 + f x)). lia.
Qed.
Lemma sum_lines_nil tk : sum_lines tk [] = 0. Proof. reflexivity. Qed.
Lemma sum_lines_cons tk t r : sum_lines tk (t :: r) = line (tsz tk t) + sum_lines tk r.
Proof. unfold sum_lines, tsz. cbn [fold_left]. rewrite fold_add_shift. lia. Qed.
Lemma sum_lines_app tk a b : sum_lines tk (a ++ b) = sum_lines tk a + sum_lines tk b.
Proof. induction a as [|x r IH]; cbn [app]; rewrite ?sum_lines_cons, ?sum_lines_nil; lia. Qed.
Lemma cols_nil tk : cols tk [] = 0. Proof. reflexivity. Qed.
Lemma cols_cons tk t r : cols tk (t :: r) = col (tsz tk t) + cols tk r.
Proof. unfold cols, tsz. cbn [fold_left]. rewrite fold_add_shift. lia. Qed.
Lemma cols_app tk a b : cols tk (a ++ b) = cols tk a + cols tk b.
Proof. induction a as [|x r IH]; cbn [app]; rewrite ?cols_cons, ?cols_nil; lia. Qed.

Lemma sum_lines_ext tk tk' ts : (forall t, In t ts -> tsz tk' t = tsz tk t) -> sum_lines tk' ts = sum_lines tk ts.
Proof.
  induction ts as [|x r IH]; intro H; [reflexivity|]. rewrite !sum_lines_cons, IH, H; auto using in_eq, in_cons.
Qed.
Lemma cols_ext tk tk' ts : (forall t, In t ts -> tsz tk' t = tsz tk t) -> cols tk' ts = cols tk ts.
Proof.
  induction ts as [|x r IH]; intro H; [reflexivity|]. rewrite !cols_cons, IH, H; auto using in_eq, in_cons.
Qed.

(* ---------- the scan ---------- *)
Definition nonl (tk : tokmap) (ts : list positive) : Prop := forall t, In t ts -> line (tsz tk t) = 0.

Lemma scan_ext tk tk' ts : forall i sz l, (forall t, In t ts -> tsz tk' t = tsz tk t) ->
  sizes_scan tk' i ts sz l = sizes_scan tk i ts sz l.
Proof.
  induction ts as [|x r IH]; intros i sz l H; [reflexivity|]. cbn [sizes_scan].
  fold (tsz tk' x) (tsz tk x). rewrite (H x) by apply in_eq. apply IH. intros; apply H; apply in_cons; assumption.
Qed.

Lemma scan_app tk a : forall i b sz l,
  sizes_scan tk i (a ++ b) sz l =
  sizes_scan tk (i + zlen a) b (fst (sizes_scan tk i a sz l)) (snd (sizes_scan tk i a sz l)).
Proof.
  unfold zlen. induction a as [|x r IH]; intros; cbn [app sizes_scan length fst snd].
  - f_equal; lia.
  - rewrite IH. f_equal. lia.
Qed.

Lemma scan_line tk ts : forall i sz l, line (fst (sizes_scan tk i ts sz l)) = line sz + sum_lines tk ts.
Proof.
  induction ts as [|x r IH]; intros; cbn [sizes_scan fst]; [rewrite sum_lines_nil; lia|].
  rewrite IH, sum_lines_cons. unfold pos_iadd, tsz. cbn [line]. lia.
Qed.

Lemma scan_nonl tk ts : forall i sz l, nonl tk ts ->
  sizes_scan tk i ts sz l = (mkpos (line sz) (col sz + cols tk ts), l).
Proof.
  induction ts as [|x r IH]; intros i sz l H; cbn [sizes_scan].
  - rewrite cols_nil. f_equal. apply pos_eq; cbn; lia.
  - pose proof (H x (in_eq _ _)) as Hx. unfold tsz in Hx. rewrite Hx. cbn [Z.eqb].
    rewrite IH by (intros t Ht; apply H; apply in_cons; assumption).
    rewrite cols_cons. unfold pos_iadd, tsz. rewrite Hx. cbn [Z.eqb line col]. f_equal. apply pos_eq; cbn; lia.
Qed.

Lemma nonl_sum_lines tk ts : nonl tk ts -> sum_lines tk ts = 0.
Proof.
  induction ts as [|x r IH]; intro H; [reflexivity|]. rewrite sum_lines_cons, IH, (H x (in_eq _ _)); [lia|].
  intros t Ht; apply H; apply in_cons; assumption.
Qed.

Lemma scan_nl tk A z B i sz l : line (tsz tk z) <> 0 -> nonl tk B ->
  sizes_scan tk i (A ++ z :: B) sz l =
  (mkpos (line sz + sum_lines tk (A ++ z :: B)) (col (tsz tk z) + cols tk B), i + zlen A).
Proof.
  intros Hz HB. rewrite scan_app. cbn [sizes_scan]. fold (tsz tk z).
  destruct (Z.eqb_spec (line (tsz tk z)) 0) as [E|_]; [contradiction|].
  rewrite scan_nonl by assumption. f_equal.
  unfold pos_iadd. cbn [line col]. destruct (Z.eqb_spec (line (tsz tk z)) 0) as [E|_]; [contradiction|].
  rewrite scan_line, sum_lines_app, sum_lines_cons, (nonl_sum_lines tk B) by assumption.
  apply pos_eq; cbn; lia.
Qed.

Lemma nl_decomp tk ts : nonl tk ts \/ exists A z B, ts = A ++ z :: B /\ line (tsz tk z) <> 0 /\ nonl tk B.
Proof.
  induction ts as [|x r IH]; [left; intros t []|].
  destruct IH as [H|(A & z & B & -> & Hz & HB)].
  - destruct (Z.eq_dec (line (tsz tk x)) 0) as [E|E].
    + left. intros t [<-|Ht]; auto.
    + right. exists [], x, r. auto.
  - right. exists (x :: A), z, B. auto.
Qed.

(* uniqueness of the decomposition at the last newline token *)
Lemma nl_decomp_unique tk A z B A' z' B' :
  A ++ z :: B = A' ++ z' :: B' -> line (tsz tk z) <> 0 -> nonl tk B -> line (tsz tk z') <> 0 -> nonl tk B' ->
  A = A' /\ z = z' /\ B = B'.
Proof.
  revert A'. induction A as [|a A IH]; intros A' E Hz HB Hz' HB'.
  - destruct A' as [|a' A']; cbn [app] in E.
    + injection E as -> ->. auto.
    + injection E as -> ->. exfalso. apply Hz'. apply HB. apply in_or_app. right. apply in_eq.
  - destruct A' as [|a' A']; cbn [app] in E.
    + injection E as -> <-. exfalso. apply Hz. apply HB'. apply in_or_app. right. apply in_eq.
    + injection E as -> E. destruct (IH A' E Hz HB Hz' HB') as (-> & -> & ->). auto.
Qed.
