(* What the reuse guard of _splice (`start <= (block.index, index) < end`) refuses. *)
From AB Require Export StoreTop.
From AB Require Import StoreRun.
From Coq Require Import ZifyBool.

Lemma splice_unfold LF s tokens ref del_end p q : Inv s -> ref_pos (abs s) ref p -> end_pos (abs s) del_end p q ->
  exists si bs sj ei be ej,
    nth_error (s_blocks s) si = Some bs /\ (sj <= length (toks s bs))%nat /\
    p = (length (flat_map (toks s) (firstn si (s_blocks s))) + sj)%nat /\
    nth_error (s_blocks s) ei = Some be /\ (ej <= length (toks s be))%nat /\
    q = (length (flat_map (toks s) (firstn ei (s_blocks s))) + ej)%nat /\
    splice LF s tokens ref del_end = splice_ LF s tokens (Z.of_nat si, Z.of_nat sj) (Z.of_nat ei, Z.of_nat ej).
Proof.
  intros [I L] Hp Hq.
  assert (exists si bs sj, nth_error (s_blocks s) si = Some bs /\ (sj <= length (toks s bs))%nat /\
            p = (length (flat_map (toks s) (firstn si (s_blocks s))) + sj)%nat /\
            match ref with
            | None => Ok (0, 0)
            | Some r0 => match check_handle s r0 with
                         | Ok (hb, hi) => Ok (b_index (bget (s_heap s) hb), hi)
                         | Err e => Err e end
            end = Ok (Z.of_nat si, Z.of_nat sj)) as (si & bs & sj & Hbs & Lsj & Ep & Est).
  { destruct ref as [r0|]; cbn in Hp.
    - destruct (locate_inv s p r0 I Hp) as (i & b & j & Hb & Ht & Ek & Hh & Hi).
      exists i, b, j. split; [exact Hb|]. split; [apply nth_error_in_len in Ht; lia|]. split; [exact Ek|].
      rewrite check_handle_hnd, Hh. fold (bidx s b). rewrite Hi. reflexivity.
    - destruct (first_block s I) as [b0 Hb0]. exists 0%nat, b0, 0%nat.
      split; [exact Hb0|]. split; [lia|]. split; [subst p; reflexivity|reflexivity]. }
  assert (exists ei be ej, nth_error (s_blocks s) ei = Some be /\ (ej <= length (toks s be))%nat /\
            q = (length (flat_map (toks s) (firstn ei (s_blocks s))) + ej)%nat /\
            match del_end with
            | None => Ok (Z.of_nat si, Z.of_nat sj)
            | Some d => match check_handle s d with
                        | Ok (hb, hi) =>
                          if pair_lt (b_index (bget (s_heap s) hb), hi) (Z.of_nat si, Z.of_nat sj) then Err ValueError
                          else Ok (b_index (bget (s_heap s) hb), hi + 1)
                        | Err e => Err e end
            end = Ok (Z.of_nat ei, Z.of_nat ej)) as (ei & be & ej & Hbe & Lej & Eq & Een).
  { destruct del_end as [d|]; cbn in Hq.
    - destruct Hq as [Lpq Hd]. destruct (locate_inv s (q - 1) d I Hd) as (i & b & j & Hb & Ht & Ek & Hh & Hi).
      pose proof (nth_error_in_len _ _ _ Ht) as Lj.
      assert (si < i \/ (si = i /\ sj <= S j))%nat as Hord.
      { apply (order_of_lt (toks s) (s_blocks s) si bs sj i b (S j)); auto. lia. }
      exists i, b, (S j). split; [exact Hb|]. split; [lia|]. split; [lia|].
      rewrite check_handle_hnd, Hh. fold (bidx s b). rewrite Hi.
      assert (pair_lt (Z.of_nat i, Z.of_nat j) (Z.of_nat si, Z.of_nat sj) = false) as ->.
      { apply end_not_before_start. destruct Hord as [G|[G1 G2]]; [left; exact G|right; split; [exact G1|]]. subst i. lia. }
      do 2 f_equal. lia.
    - exists si, bs, sj. split; [exact Hbs|]. split; [exact Lsj|]. split; [lia|reflexivity]. }
  exists si, bs, sj, ei, be, ej. repeat (split; [assumption|]). unfold splice. rewrite Est, Een. reflexivity.
Qed.

(* all three refusals of _splice return the store as it was *)
Lemma splice__refuses LF s tokens st en t sid hb hi : In t tokens -> raw s t = Some (sid, hb, hi) ->
  Pos.eqb sid (s_id s) && (pair_le st (bidx s hb, hi) && pair_lt (bidx s hb, hi) en) = false ->
  splice_ LF s tokens st en = (s, Err ValueError).
Proof.
  intros Ht Hh Hg. unfold splice_. destruct st as [a b], en as [c d].
  destruct (pair_lt (c, d) (a, b)); [reflexivity|]. destruct (has_dup tokens); [reflexivity|].
  match goal with |- context [existsb ?f tokens] => assert (existsb f tokens = true) as -> end; [|reflexivity].
  apply existsb_exists. exists t. split; [exact Ht|]. fold (raw s t). rewrite Hh. fold (bidx s hb). rewrite Hg. reflexivity.
Qed.

Lemma splice__refuses_dup LF s tokens st en : ~ NoDup tokens -> splice_ LF s tokens st en = (s, Err ValueError).
Proof.
  intro H. unfold splice_. destruct st as [a b], en as [c d].
  destruct (pair_lt (c, d) (a, b)); [reflexivity|]. rewrite (has_dup_true tokens H). reflexivity.
Qed.

Lemma splice__refuses_reversed LF s tokens st en : pair_lt en st = true -> splice_ LF s tokens st en = (s, Err ValueError).
Proof. intro H. unfold splice_. destruct st as [a b], en as [c d]. rewrite H. reflexivity. Qed.

(* a token of another store among the inserted tokens *)
Lemma splice__refuses_foreign LF s tokens st en t : In t tokens -> foreign s t -> splice_ LF s tokens st en = (s, Err ValueError).
Proof.
  intros Ht (sid & b & j & R & N). apply (splice__refuses LF s tokens st en t sid b j Ht R).
  destruct (Pos.eqb_spec sid (s_id s)); [contradiction|reflexivity].
Qed.

(* block-level: a store token outside [start, end) among the inserted tokens is refused, store unchanged *)
Lemma splice__refuses_pos LF s tokens si bs sj ei be ej t k : Inv s ->
  nth_error (s_blocks s) si = Some bs -> (sj <= length (toks s bs))%nat ->
  nth_error (s_blocks s) ei = Some be -> (ej <= length (toks s be))%nat ->
  let F n := length (flat_map (toks s) (firstn n (s_blocks s))) in
  In t tokens -> nth_error (abs s) k = Some t -> (k < F si + sj \/ F ei + ej <= k)%nat ->
  splice_ LF s tokens (Z.of_nat si, Z.of_nat sj) (Z.of_nat ei, Z.of_nat ej) = (s, Err ValueError).
Proof.
  intros [I _] Hbs Lsj Hbe Lej F Ht Hk Hout. subst F. cbv beta in Hout.
  destruct (locate_inv s k t I Hk) as (i & b & j & Hb & Htj & Ek & Hh & Hi).
  pose proof (nth_error_in_len _ _ _ Htj) as Lj. apply hnd_raw in Hh.
  apply (splice__refuses LF s tokens _ _ t (s_id s) b (Z.of_nat j) Ht Hh). rewrite Pos.eqb_refl, Hi. unfold pair_le, pair_lt. cbn [fst snd andb].
  destruct Hout as [Lo|Lo].
  - assert (~ ((si < i)%nat \/ (si = i /\ (sj <= j)%nat))) as N.
    { intros [G|[-> G]]; [|lia].
      pose proof (flat_firstn_mono (toks s) (s_blocks s) (S si) i G) as M.
      rewrite (flat_firstn_S _ _ si bs Hbs), app_length in M. lia. }
    lia.
  - assert (~ ((i < ei)%nat \/ (i = ei /\ (j < ej)%nat))) as N.
    { intros [G|[-> G]]; [|lia].
      pose proof (flat_firstn_mono (toks s) (s_blocks s) (S i) ei G) as M.
      rewrite (flat_firstn_S _ _ i b Hb), app_length in M. lia. }
    lia.
Qed.

(* every store token outside the removed range [p, q) is refused, and the store is left as it was *)
Theorem splice_refuses LF s tokens ref del_end p q t k :
  Inv s -> ref_pos (abs s) ref p -> end_pos (abs s) del_end p q ->
  In t tokens -> nth_error (abs s) k = Some t -> (k < p \/ q <= k)%nat ->
  splice LF s tokens ref del_end = (s, Err ValueError).
Proof.
  intros II Hp Hq Ht Hk Hout.
  destruct (splice_unfold LF s tokens ref del_end p q II Hp Hq)
    as (si & bs & sj & ei & be & ej & Hbs & Lsj & Ep & Hbe & Lej & Eq & ->).
  apply (splice__refuses_pos LF s tokens si bs sj ei be ej t k II Hbs Lsj Hbe Lej Ht Hk). cbv zeta. lia.
Qed.

Lemma invalid_token_exists s (tokens : list positive) p q :
  ~ (forall t, In t tokens -> free s t \/ In t (firstn (q - p) (skipn p (abs s)))) ->
  exists t, In t tokens /\ ~ free s t /\ ~ In t (firstn (q - p) (skipn p (abs s))).
Proof.
  induction tokens as [|x r IH]; intro H; [exfalso; apply H; intros ? []|].
  assert ({free s x} + {~ free s x}) as [Hl|Hl] by (unfold free; destruct (raw s x); [right; discriminate|left; reflexivity]).
  - destruct IH as (t & Ht & H1 & H2).
    + intro Hall. apply H. intros t [<-|Ht]; [left; exact Hl|apply Hall; exact Ht].
    + exists t. split; [right; exact Ht|auto].
  - destruct (in_dec Pos.eq_dec x (firstn (q - p) (skipn p (abs s)))) as [Hr|Hr].
    + destruct IH as (t & Ht & H1 & H2).
      * intro Hall. apply H. intros t [<-|Ht]; [right; exact Hr|apply Hall; exact Ht].
      * exists t. split; [right; exact Ht|auto].
    + exists x. split; [left; reflexivity|auto].
Qed.

(* the full contract: a call whose tokens are not valid (listed twice, or a token that is neither free nor
   inside the removed range: elsewhere in this store, or in another store) is refused, store unchanged *)
Theorem splice_refusals LF s tokens ref del_end p q :
  Inv s -> ref_pos (abs s) ref p -> end_pos (abs s) del_end p q ->
  ~ valid_tokens s tokens p q ->
  splice LF s tokens ref del_end = (s, Err ValueError).
Proof.
  intros II Hp Hq Hnv.
  destruct (splice_unfold LF s tokens ref del_end p q II Hp Hq)
    as (si & bs & sj & ei & be & ej & Hbs & Lsj & Ep & Hbe & Lej & Eq & E). rewrite E.
  destruct (has_dup tokens) eqn:Ed.
  - apply splice__refuses_dup. intro ND. rewrite (has_dup_false tokens ND) in Ed. discriminate.
  - assert (NoDup tokens) as ND.
    { clear -Ed. induction tokens as [|x r IH]; [constructor|]. cbn [has_dup] in Ed. apply orb_false_elim in Ed as [E1 E2].
      constructor; [|apply IH; exact E2]. intro Hin.
      assert (existsb (Pos.eqb x) r = true) as C; [|congruence]. apply existsb_exists. exists x. split; [exact Hin|apply Pos.eqb_refl]. }
    destruct (invalid_token_exists s tokens p q) as (t & Ht & Hl & Hr).
    { intro Hall. apply Hnv. split; assumption. }
    unfold free in Hl. destruct (raw s t) as [[[sid b] j]|] eqn:Er; [|contradiction].
    destruct (Pos.eqb_spec sid (s_id s)) as [->|N].
    + assert (In t (abs s)) as Hin.
      { destruct II as [I _]. apply (g_hin _ _ I). rewrite (hnd_of_raw s t b j Er). discriminate. }
      apply In_nth_error in Hin as [k Hk].
      apply (splice__refuses_pos LF s tokens si bs sj ei be ej t k II Hbs Lsj Hbe Lej Ht Hk). cbv zeta. rewrite <- Ep, <- Eq.
      destruct (Nat.lt_ge_cases k p) as [?|Lp]; [left; assumption|]. destruct (Nat.lt_ge_cases k q) as [Lq|?]; [|right; assumption].
      exfalso. apply Hr. apply (nth_error_In _ (k - p)).
      rewrite nth_error_firstn_lt, nth_error_skipn_add by lia. replace (p + (k - p))%nat with k by lia. exact Hk.
    + apply (splice__refuses_foreign LF s tokens _ _ t Ht). exists sid, b, j. auto.
Qed.

(* a reference token that is free or belongs to another store: every operation and every observer raises
   ValueError and the store is unchanged *)
Theorem bad_reference_refused LF s r ts d0 : hnd s r = None ->
  splice LF s ts (Some r) d0 = (s, Err ValueError) /\ insert_before LF s (Some r) ts = (s, Err ValueError) /\
  insert_after LF s (Some r) ts = (s, Err ValueError) /\ remove LF s r d0 = (s, Err ValueError) /\
  (forall x, replace LF s r x = (s, Err ValueError)) /\
  get_index s r = Err ValueError /\ get_position s r = Err ValueError /\
  get_prev s r = Err ValueError /\ get_next s r = Err ValueError /\
  (forall u, iter_range s r u = Err ValueError /\ iter_range s u r = Err ValueError) /\
  (forall z, update s r z = (s, Err ValueError)).
Proof.
  intro H. unfold insert_before, insert_after, remove, replace, splice, get_index, get_position, get_prev, get_next, iter_range, update.
  rewrite !check_handle_hnd, H. do 9 (split; [reflexivity|]). split; [|reflexivity].
  intro u. split; [reflexivity|]. rewrite check_handle_hnd. destruct (hnd s u) as [[? ?]|]; reflexivity.
Qed.

(* ... and a bad end-of-range token *)
Theorem bad_end_refused LF s r e ts : hnd s e = None -> splice LF s ts r (Some e) = (s, Err ValueError).
Proof.
  intro H. unfold splice. destruct r as [r0|].
  - rewrite check_handle_hnd. destruct (hnd s r0) as [[? ?]|]; [|reflexivity]. rewrite check_handle_hnd, H. reflexivity.
  - rewrite check_handle_hnd, H. reflexivity.
Qed.

(* a reversed range (del_end anywhere before ref, also directly before it) is refused: by splice() itself *)
Theorem splice_reversed_refused_all LF s tokens r e p kd :
  Inv s -> nth_error (abs s) p = Some r -> nth_error (abs s) kd = Some e -> (kd < p)%nat ->
  splice LF s tokens (Some r) (Some e) = (s, Err ValueError).
Proof.
  intros [I _] Hr He Lt.
  destruct (locate_inv s p r I Hr) as (i & b & j & Hb & Htj & Ek & Hh & Hi).
  destruct (locate_inv s kd e I He) as (i' & b' & j' & Hb' & Htj' & Ek' & Hh' & Hi').
  pose proof (nth_error_in_len _ _ _ Htj) as Lj. pose proof (nth_error_in_len _ _ _ Htj') as Lj'.
  unfold splice. rewrite !check_handle_hnd, Hh, Hh'. fold (bidx s b) (bidx s b'). rewrite Hi, Hi'.
  assert (pair_lt (Z.of_nat i', Z.of_nat j') (Z.of_nat i, Z.of_nat j) = true) as ->; [|reflexivity].
  unfold pair_lt. cbn [fst snd].
  assert (~ (i < i')%nat) as N.
  { intro G. pose proof (flat_firstn_mono (toks s) (s_blocks s) (S i) i' G) as M.
    rewrite (flat_firstn_S _ _ i b Hb), app_length in M. lia. }
  destruct (Nat.lt_trichotomy i' i) as [?|[->|?]]; [lia|lia|contradiction].
Qed.

Theorem splice_reversed_refused LF s tokens r e p kd :
  Inv s -> nth_error (abs s) p = Some r -> nth_error (abs s) kd = Some e -> (kd + 1 < p)%nat ->
  splice LF s tokens (Some r) (Some e) = (s, Err ValueError).
Proof. intros II Hr He Lt. apply (splice_reversed_refused_all LF s tokens r e p kd II Hr He). lia. Qed.

(* insert_after never takes a token that is in this store or in another one *)
Theorem insert_after_refuses LF s tokens ref p t :
  Inv s ->
  match ref with None => p = 0%nat | Some r0 => (1 <= p)%nat /\ nth_error (abs s) (p - 1) = Some r0 end ->
  In t tokens -> ~ free s t ->
  insert_after LF s ref tokens = (s, Err ValueError).
Proof.
  intros II Hp Ht Hl. pose proof II as [I _]. unfold free in Hl. destruct (raw s t) as [[[sid b0] j0]|] eqn:Er; [|contradiction].
  unfold insert_after.
  assert (forall st, (Pos.eqb sid (s_id s) = false -> splice_ LF s tokens st st = (s, Err ValueError))) as Hfor.
  { intros st E. apply (splice__refuses LF s tokens st st t sid b0 j0 Ht Er). rewrite E. reflexivity. }
  destruct (Pos.eqb_spec sid (s_id s)) as [->|N].
  - assert (In t (abs s)) as Hin by (apply (g_hin _ _ I); rewrite (hnd_of_raw s t b0 j0 Er); discriminate).
    apply In_nth_error in Hin as [k Hk].
    destruct ref as [r0|].
    + destruct Hp as [L1 Hr]. destruct (locate_inv s (p - 1) r0 I Hr) as (i & b & j & Hb & Htj & Ek & Hh & Hi).
      pose proof (nth_error_in_len _ _ _ Htj) as Lj.
      rewrite check_handle_hnd, Hh. fold (bidx s b). rewrite Hi.
      replace (Z.of_nat j + 1) with (Z.of_nat (S j)) by lia.
      apply (splice__refuses_pos LF s tokens i b (S j) i b (S j) t k II Hb ltac:(lia) Hb ltac:(lia) Ht Hk). cbv zeta. lia.
    + destruct (first_block s I) as [b1 Hb1].
      apply (splice__refuses_pos LF s tokens 0 b1 0 0 b1 0 t k II Hb1 ltac:(lia) Hb1 ltac:(lia) Ht Hk). cbv zeta. lia.
  - destruct ref as [r0|]; [|apply Hfor; reflexivity].
    rewrite check_handle_hnd. destruct (hnd s r0) as [[hb hi]|]; [apply Hfor; reflexivity|reflexivity].
Qed.

(* the frame between stores: under any valid splice, a token of another store keeps its handle and text *)
Theorem foreign_untouched LF s tokens ref del_end p q s' r t :
  1 <= LF -> Inv s -> ref_pos (abs s) ref p -> end_pos (abs s) del_end p q -> valid_tokens s tokens p q ->
  splice LF s tokens ref del_end = (s', r) -> foreign s t ->
  raw s' t = raw s t /\ txt s' t = txt s t /\ foreign s' t.
Proof.
  intros HLF II Hp Hq Hv H Hf.
  destruct (splice_spec LF s tokens ref del_end p q s' r HLF II Hp Hq Hv H) as (_ & _ & _ & Ht & Eid & F1 & _).
  pose proof (foreign_not_in s t II Hf) as Hn.
  assert (~ In t tokens) as Hnt.
  { intro Hin. destruct Hv as [_ Hv]. destruct (Hv t Hin) as [Hfr|Hr].
    - destruct Hf as (? & ? & ? & R & _). unfold free in Hfr. congruence.
    - apply Hn. apply in_firstn, in_skipn in Hr. exact Hr. }
  split; [apply F1; assumption|]. split; [apply Ht|].
  destruct Hf as (sid & b & j & R & N). exists sid, b, j. rewrite (F1 t Hn Hnt), Eid. auto.
Qed.
