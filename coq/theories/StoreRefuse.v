(* What the reuse guard of _splice (`start <= (block.index, index) < end`) refuses. *)
From AB Require Export StoreTop.
From AB Require Import StoreRun.
From Coq Require Import ZifyBool.

Lemma splice_unfold LF s tokens ref del_end p q : Inv s -> ref_pos (abs s) ref p -> end_pos (abs s) del_end p q ->
  exists si bs sj ei be ej,
    nth_error (s_blocks s) si = Some bs /\ (sj <= length (toks s bs))%nat /\
    p = (length (flat_map (toks s) (firstn si (s_blocks s))) + sj)%nat /\
    nth_error (s_blocks s) ei = Some be /\ (ej <= length (toks s be))%nat /\
    q = (length (flat_map (toks s) (firstn ei (s_blocks s))) + ej)%nat /\
    splice LF s tokens ref del_end = splice_ LF s tokens (Z.of_nat si, Z.of_nat sj) (Z.of_nat ei, Z.of_nat ej).
Proof.
  intros [I L] Hp Hq.
  assert (exists si bs sj, nth_error (s_blocks s) si = Some bs /\ (sj <= length (toks s bs))%nat /\
            p = (length (flat_map (toks s) (firstn si (s_blocks s))) + sj)%nat /\
            match ref with
            | None => Ok (0, 0)
            | Some r0 => match check_handle s r0 with
                         | Ok (hb, hi) => Ok (b_index (bget (s_heap s) hb), hi)
                         | Err e => Err e end
            end = Ok (Z.of_nat si, Z.of_nat sj)) as (si & bs & sj & Hbs & Lsj & Ep & Est).
  { destruct ref as [r0|]; cbn in Hp.
    - destruct (locate_inv s p r0 I Hp) as (i & b & j & Hb & Ht & Ek & Hh & Hi).
      exists i, b, j. split; [exact Hb|]. split; [apply nth_error_in_len in Ht; lia|]. split; [exact Ek|].
      rewrite check_handle_hnd, Hh. fold (bidx s b). rewrite Hi. reflexivity.
    - destruct (first_block s I) as [b0 Hb0]. exists 0%nat, b0, 0%nat.
      split; [exact Hb0|]. split; [lia|]. split; [subst p; reflexivity|reflexivity]. }
  assert (exists ei be ej, nth_error (s_blocks s) ei = Some be /\ (ej <= length (toks s be))%nat /\
            q = (length (flat_map (toks s) (firstn ei (s_blocks s))) + ej)%nat /\
            match del_end with
            | None => Ok (Z.of_nat si, Z.of_nat sj)
            | Some d => match check_handle s d with
                        | Ok (hb, hi) => Ok (b_index (bget (s_heap s) hb), hi + 1)
                        | Err e => Err e end
            end = Ok (Z.of_nat ei, Z.of_nat ej)) as (ei & be & ej & Hbe & Lej & Eq & Een).
  { destruct del_end as [d|]; cbn in Hq.
    - destruct Hq as [Lpq Hd]. destruct (locate_inv s (q - 1) d I Hd) as (i & b & j & Hb & Ht & Ek & Hh & Hi).
      pose proof (nth_error_in_len _ _ _ Ht) as Lj.
      exists i, b, (S j). split; [exact Hb|]. split; [lia|]. split; [lia|].
      rewrite check_handle_hnd, Hh. fold (bidx s b). rewrite Hi. do 2 f_equal. lia.
    - exists si, bs, sj. split; [exact Hbs|]. split; [exact Lsj|]. split; [lia|reflexivity]. }
  exists si, bs, sj, ei, be, ej. repeat (split; [assumption|]). unfold splice. rewrite Est, Een. reflexivity.
Qed.

Lemma splice__refuses LF s tokens st en t hb hi : In t tokens -> hnd s t = Some (hb, hi) ->
  pair_le st (bidx s hb, hi) && pair_lt (bidx s hb, hi) en = false ->
  splice_ LF s tokens st en = (s, Err ValueError).
Proof.
  intros Ht Hh Hg. unfold splice_. destruct st as [a b], en as [c d].
  match goal with |- context [existsb ?f tokens] => assert (existsb f tokens = true) as -> end; [|reflexivity].
  apply existsb_exists. exists t. split; [exact Ht|]. fold (hnd s t). rewrite Hh. fold (bidx s hb). rewrite Hg. reflexivity.
Qed.

(* block-level: a store token outside [start, end) among the inserted tokens is refused, store unchanged *)
Lemma splice__refuses_pos LF s tokens si bs sj ei be ej t k : Inv s ->
  nth_error (s_blocks s) si = Some bs -> (sj <= length (toks s bs))%nat ->
  nth_error (s_blocks s) ei = Some be -> (ej <= length (toks s be))%nat ->
  let F n := length (flat_map (toks s) (firstn n (s_blocks s))) in
  In t tokens -> nth_error (abs s) k = Some t -> (k < F si + sj \/ F ei + ej <= k)%nat ->
  splice_ LF s tokens (Z.of_nat si, Z.of_nat sj) (Z.of_nat ei, Z.of_nat ej) = (s, Err ValueError).
Proof.
  intros [I _] Hbs Lsj Hbe Lej F Ht Hk Hout. subst F. cbv beta in Hout.
  destruct (locate_inv s k t I Hk) as (i & b & j & Hb & Htj & Ek & Hh & Hi).
  pose proof (nth_error_in_len _ _ _ Htj) as Lj.
  apply (splice__refuses LF s tokens _ _ t b (Z.of_nat j) Ht Hh). rewrite Hi. unfold pair_le, pair_lt. cbn [fst snd].
  destruct Hout as [Lo|Lo].
  - assert (~ ((si < i)%nat \/ (si = i /\ (sj <= j)%nat))) as N.
    { intros [G|[-> G]]; [|lia].
      pose proof (flat_firstn_mono (toks s) (s_blocks s) (S si) i G) as M.
      rewrite (flat_firstn_S _ _ si bs Hbs), app_length in M. lia. }
    lia.
  - assert (~ ((i < ei)%nat \/ (i = ei /\ (j < ej)%nat))) as N.
    { intros [G|[-> G]]; [|lia].
      pose proof (flat_firstn_mono (toks s) (s_blocks s) (S i) ei G) as M.
      rewrite (flat_firstn_S _ _ i b Hb), app_length in M. lia. }
    lia.
Qed.

(* every store token outside the removed range [p, q) is refused, and the store is left as it was *)
Theorem splice_refuses LF s tokens ref del_end p q t k :
  Inv s -> ref_pos (abs s) ref p -> end_pos (abs s) del_end p q ->
  In t tokens -> nth_error (abs s) k = Some t -> (k < p \/ q <= k)%nat ->
  splice LF s tokens ref del_end = (s, Err ValueError).
Proof.
  intros II Hp Hq Ht Hk Hout.
  destruct (splice_unfold LF s tokens ref del_end p q II Hp Hq)
    as (si & bs & sj & ei & be & ej & Hbs & Lsj & Ep & Hbe & Lej & Eq & ->).
  apply (splice__refuses_pos LF s tokens si bs sj ei be ej t k II Hbs Lsj Hbe Lej Ht Hk). cbv zeta. lia.
Qed.

Lemma invalid_token_exists (l tokens : list positive) p q :
  ~ (forall t, In t tokens -> ~ In t l \/ In t (firstn (q - p) (skipn p l))) ->
  exists t, In t tokens /\ In t l /\ ~ In t (firstn (q - p) (skipn p l)).
Proof.
  induction tokens as [|x r IH]; intro H; [exfalso; apply H; intros ? []|].
  destruct (in_dec Pos.eq_dec x l) as [Hl|Hl].
  - destruct (in_dec Pos.eq_dec x (firstn (q - p) (skipn p l))) as [Hr|Hr].
    + destruct IH as (t & Ht & H1 & H2).
      * intro Hall. apply H. intros t [<-|Ht]; [right; exact Hr|apply Hall; exact Ht].
      * exists t. split; [right; exact Ht|auto].
    + exists x. split; [left; reflexivity|auto].
  - destruct IH as (t & Ht & H1 & H2).
    + intro Hall. apply H. intros t [<-|Ht]; [left; exact Hl|apply Hall; exact Ht].
    + exists t. split; [right; exact Ht|auto].
Qed.

(* the full refusal statement for duplicate-free token lists: arguments that break the contract are
   refused with ValueError and the store is unchanged *)
Theorem splice_refusals LF s tokens ref del_end p q :
  Inv s -> ref_pos (abs s) ref p -> end_pos (abs s) del_end p q ->
  NoDup tokens -> ~ valid_tokens (abs s) tokens p q ->
  splice LF s tokens ref del_end = (s, Err ValueError).
Proof.
  intros II Hp Hq ND Hnv.
  destruct (invalid_token_exists (abs s) tokens p q) as (t & Ht & Hl & Hr).
  { intro Hall. apply Hnv. split; assumption. }
  apply In_nth_error in Hl as [k Hk].
  apply (splice_refuses LF s tokens ref del_end p q t k II Hp Hq Ht Hk).
  destruct (Nat.lt_ge_cases k p) as [?|Lp]; [left; assumption|]. destruct (Nat.lt_ge_cases k q) as [Lq|?]; [|right; assumption].
  exfalso. apply Hr. apply (nth_error_In _ (k - p)).
  rewrite nth_error_firstn_lt, nth_error_skipn_add by lia. replace (p + (k - p))%nat with k by lia. exact Hk.
Qed.

(* insert_after never takes a token that is in the store *)
Theorem insert_after_refuses LF s tokens ref p t :
  Inv s ->
  match ref with None => p = 0%nat | Some r0 => (1 <= p)%nat /\ nth_error (abs s) (p - 1) = Some r0 end ->
  In t tokens -> In t (abs s) ->
  insert_after LF s ref tokens = (s, Err ValueError).
Proof.
  intros II Hp Ht Hl. pose proof II as [I _]. apply In_nth_error in Hl as [k Hk]. unfold insert_after.
  destruct ref as [r0|].
  - destruct Hp as [L1 Hr]. destruct (locate_inv s (p - 1) r0 I Hr) as (i & b & j & Hb & Htj & Ek & Hh & Hi).
    pose proof (nth_error_in_len _ _ _ Htj) as Lj.
    rewrite check_handle_hnd, Hh. fold (bidx s b). rewrite Hi.
    replace (Z.of_nat j + 1) with (Z.of_nat (S j)) by lia.
    apply (splice__refuses_pos LF s tokens i b (S j) i b (S j) t k II Hb ltac:(lia) Hb ltac:(lia) Ht Hk). cbv zeta. lia.
  - destruct (first_block s I) as [b0 Hb0].
    apply (splice__refuses_pos LF s tokens 0 b0 0 0 b0 0 t k II Hb0 ltac:(lia) Hb0 ltac:(lia) Ht Hk). cbv zeta. lia.
Qed.
