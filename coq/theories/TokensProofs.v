(* Proofs about Tokens.v: per token class, the codec round trip on the whole domain, the produced text is
   one lexeme of the class's terminal (recogniser consumes everything), lexemes are accepted, and the
   assignment-history invariant "the raw text parses to the value". *)
From AB Require Import Prelude Tokens.
From Coq Require Import ZifyBool.

Local Open Scope Z_scope.

(* ---------------------------------------------------------------------------------------------- *)
(* generic facts                                                                                  *)
Lemma zlen_nil {A} : zlen (@nil A) = 0. Proof. reflexivity. Qed.
Lemma zlen_cons {A} (x : A) l : zlen (x :: l) = zlen l + 1.
Proof. unfold zlen. cbn [length]. lia. Qed.
Lemma zlen_app {A} (a b : list A) : zlen (a ++ b) = zlen a + zlen b.
Proof. unfold zlen. rewrite app_length. lia. Qed.
Lemma zlen_nonneg {A} (l : list A) : 0 <= zlen l. Proof. unfold zlen. lia. Qed.

Lemma len_matched_nil s : len_matched s (Some []) = Some (zlen s).
Proof. unfold len_matched. rewrite zlen_nil. f_equal. lia. Qed.

Lemma skip_app p a b :
  skip p (a ++ b) = match skip p a with [] => skip p b | t => t ++ b end.
Proof.
  induction a as [|c a IH]; cbn [skip app]; [destruct (skip p b); reflexivity|].
  destruct (p c); [exact IH | reflexivity].
Qed.
Lemma skip_all p a : forallb p a = true -> skip p a = [].
Proof.
  induction a as [|c a IH]; cbn [forallb skip]; [reflexivity|].
  intros H. apply andb_prop in H as [Hc Ha]. rewrite Hc. auto.
Qed.
Lemma skip_all_app p a b : forallb p a = true -> skip p (a ++ b) = skip p b.
Proof. intros H. rewrite skip_app, (skip_all _ _ H). reflexivity. Qed.
Lemma take_all_app p a c b : forallb p a = true -> p c = false -> take p (a ++ c :: b) = a.
Proof.
  induction a as [|x a IH]; cbn [forallb take app]; intros H Hc.
  - rewrite Hc. reflexivity.
  - apply andb_prop in H as [Hx Ha]. rewrite Hx. f_equal. auto.
Qed.
Lemma take_all p a : forallb p a = true -> take p a = a.
Proof.
  induction a as [|x a IH]; cbn [forallb take]; intros H; [reflexivity|].
  apply andb_prop in H as [Hx Ha]. rewrite Hx. f_equal. auto.
Qed.
Lemma skip_stop p c b : p c = false -> skip p (c :: b) = c :: b.
Proof. intros H. cbn [skip]. rewrite H. reflexivity. Qed.

Lemma rstrip_nil_iff p s : rstrip p s = [] <-> forallb p s = true.
Proof.
  induction s as [|c s IH]; cbn [rstrip forallb]; [tauto|].
  destruct (rstrip p s) eqn:E.
  - assert (Hs : forallb p s = true) by (apply IH; reflexivity). rewrite Hs.
    destruct (p c); cbn [andb]; split; intros H; try discriminate; reflexivity.
  - split; intros H; [discriminate|].
    apply andb_prop in H as [_ H]. apply IH in H. discriminate.
Qed.

Lemma removelast_app_one {A} (l : list A) x : removelast (l ++ [x]) = l.
Proof. rewrite removelast_app by discriminate. cbn. apply app_nil_r. Qed.

(* ---------------------------------------------------------------------------------------------- *)
(* token objects: the assignment-history invariant, for any codec that round-trips on its domain  *)
Section History.
  Context {V : Type}.
  Variable parse : str -> res V.
  Variable format : V -> str.
  Variable dom : V -> bool.
  Hypothesis roundtrip : forall v, dom v = true -> parse (format v) = Ok v.

  Definition coherent (t : tok V) : Prop := parse (t_raw t) = Ok (t_val t).
  (* an assignment the property talks about: a value of the domain, or a raw text that is accepted *)
  Definition op_ok (o : sv_op V) : Prop :=
    match o with SetValue v => dom v = true | SetRaw s => exists v, parse s = Ok v end.

  Lemma sv_from_value_coherent v : dom v = true -> coherent (sv_from_value format v).
  Proof. intros H. unfold coherent, sv_from_value. cbn. auto. Qed.
  Lemma sv_from_raw_text_ok s t :
    sv_from_raw_text parse s = Ok t -> t_raw t = s /\ coherent t.
  Proof.
    unfold sv_from_raw_text, coherent. destruct (parse s) eqn:E; intros H; inversion H; subst. cbn. auto.
  Qed.
  Lemma sv_from_raw_text_accepts s v : parse s = Ok v -> sv_from_raw_text parse s = Ok (mk_tok s v).
  Proof. unfold sv_from_raw_text. intros ->. reflexivity. Qed.
  Lemma sv_step_coherent t o : op_ok o -> coherent (fst (sv_step parse format t o)) /\ snd (sv_step parse format t o) = Ok tt.
  Proof.
    destruct o as [s|v]; cbn [op_ok sv_step].
    - intros [v Hv]. rewrite Hv. cbn. unfold coherent. cbn. auto.
    - intros Hd. cbn. unfold coherent. cbn. auto.
  Qed.
  Lemma sv_step_raw_verbatim t s : t_raw (fst (sv_step parse format t (SetRaw s))) = s.
  Proof. cbn [sv_step]. destruct (parse s); reflexivity. Qed.
  Lemma sv_step_value_kept t v : t_val (fst (sv_step parse format t (SetValue v))) = v.
  Proof. reflexivity. Qed.
  Theorem sv_history t ops : coherent t -> Forall op_ok ops -> coherent (sv_run parse format t ops).
  Proof.
    revert t. induction ops as [|o ops IH]; intros t Ht Hops; cbn [sv_run]; [exact Ht|].
    inversion Hops; subst. apply IH; [|assumption]. apply sv_step_coherent. assumption.
  Qed.
End History.

(* ---------------------------------------------------------------------------------------------- *)
(* EscapedString                                                                                  *)
Lemma unescape_escape_aux a v t :
  unescape_aux false (escape a v ++ t) = v ++ unescape_aux false t.
Proof.
  induction v as [|c v IH]; [reflexivity|].
  cbn [escape]. rewrite <- app_assoc. unfold escape_char.
  destruct (c =? QUOTE) eqn:Eq.
  { apply Z.eqb_eq in Eq. subst c. cbn. rewrite IH. reflexivity. }
  destruct (c =? BSLASH) eqn:Eb.
  { apply Z.eqb_eq in Eb. subst c. cbn. rewrite IH. reflexivity. }
  assert (Hplain : unescape_aux false ((c :: nil) ++ escape a v ++ t) = (c :: v) ++ unescape_aux false t).
  { cbn [app unescape_aux]. rewrite Eb. rewrite IH. reflexivity. }
  destruct a; [|exact Hplain].
  destruct (c =? 10) eqn:E1. { apply Z.eqb_eq in E1. subst c. cbn. rewrite IH. reflexivity. }
  destruct (c =? 9) eqn:E2. { apply Z.eqb_eq in E2. subst c. cbn. rewrite IH. reflexivity. }
  destruct (c =? 13) eqn:E3. { apply Z.eqb_eq in E3. subst c. cbn. rewrite IH. reflexivity. }
  destruct (c =? 12) eqn:E4. { apply Z.eqb_eq in E4. subst c. cbn. rewrite IH. reflexivity. }
  destruct (c =? 8) eqn:E5. { apply Z.eqb_eq in E5. subst c. cbn. rewrite IH. reflexivity. }
  exact Hplain.
Qed.
Lemma unescape_escape a v : unescape (escape a v) = v.
Proof.
  unfold unescape. rewrite <- (app_nil_r (escape a v)), unescape_escape_aux. cbn. apply app_nil_r.
Qed.
Lemma string_roundtrip v : string_parse (string_format v) = Ok v.
Proof.
  unfold string_parse, string_format, slice_1_m1. cbn [tl]. rewrite removelast_app_one, unescape_escape.
  reflexivity.
Qed.
Lemma str_body_escape v t : str_body false (escape false v ++ QUOTE :: t) = Some t.
Proof.
  induction v as [|c v IH]; [reflexivity|].
  cbn [escape]. rewrite <- app_assoc. unfold escape_char.
  destruct (c =? QUOTE) eqn:Eq. { cbn. exact IH. }
  destruct (c =? BSLASH) eqn:Eb. { cbn. exact IH. }
  cbn [app str_body]. rewrite Eb, Eq. exact IH.
Qed.
Lemma string_lexr v : lexr_string (string_format v) = Some [].
Proof. unfold lexr_string, string_format. cbn. apply str_body_escape. Qed.

(* ---------------------------------------------------------------------------------------------- *)
(* InlineComment                                                                                  *)
Lemma inline_roundtrip v : dom_inline v = true -> inline_parse (inline_format v) = Ok v.
Proof.
  unfold dom_inline, inline_parse, inline_format. intros H. apply andb_prop in H as [_ H].
  destruct v as [|c v]; [reflexivity|].
  cbn [is_nil removeprefix1]. cbn. cbn [starts_with1] in H. unfold is_space.
  apply negb_true_iff in H. rewrite H. reflexivity.
Qed.
Lemma inline_lexr v : dom_inline v = true -> lexr_inline (inline_format v) = Some [].
Proof.
  unfold dom_inline, inline_format. intros H. apply andb_prop in H as [H _].
  destruct v as [|c v]; [reflexivity|].
  cbn [is_nil].
  change (lexr_inline (SEMI :: SPACE :: c :: v)) with (Some (skip not_crnl (SPACE :: c :: v))).
  f_equal. apply skip_all.
  change (forallb not_crnl (SPACE :: c :: v)) with (not_crnl SPACE && forallb not_crnl (c :: v)).
  rewrite H. reflexivity.
Qed.

(* ---------------------------------------------------------------------------------------------- *)
(* BlockComment (repaired _splitlines: split after every LF)                                      *)
Definition no_nl (c : Z) : bool := negb (c =? NL).

Inductive is_lines : list str -> Prop :=
| IL_last l : forallb no_nl l = true -> is_lines [l]
| IL_cons b rest : forallb no_nl b = true -> is_lines rest -> is_lines ((b ++ [NL]) :: rest).

Lemma is_lines_nonempty ls : is_lines ls -> ls <> [].
Proof. intros H. inversion H; discriminate. Qed.

Lemma splitlines_is_lines v : is_lines (splitlines_nl v).
Proof.
  induction v as [|c v IH]; cbn [splitlines_nl]; [apply IL_last; reflexivity|].
  destruct (c =? NL) eqn:E.
  - apply Z.eqb_eq in E. subst c. apply (IL_cons [] _ eq_refl IH).
  - inversion IH as [l Hl Heq | b rest Hb Hrest Heq].
    + apply IL_last. cbn [forallb]. unfold no_nl at 1. rewrite E. exact Hl.
    + change ((c :: b ++ [NL]) :: rest) with (((c :: b) ++ [NL]) :: rest).
      apply IL_cons; [|exact Hrest]. cbn [forallb]. unfold no_nl at 1. rewrite E. exact Hb.
Qed.
Lemma concat_splitlines v : concat (splitlines_nl v) = v.
Proof.
  induction v as [|c v IH]; [reflexivity|]. cbn [splitlines_nl].
  destruct (c =? NL); [cbn [concat app]; rewrite IH; reflexivity|].
  destruct (splitlines_nl v) as [|l ls] eqn:E.
  - pose proof (is_lines_nonempty _ (splitlines_is_lines v)) as H. rewrite E in H. congruence.
  - cbn [concat] in *. rewrite <- IH. reflexivity.
Qed.
Lemma splitlines_no_nl l : forallb no_nl l = true -> splitlines_nl l = [l].
Proof.
  induction l as [|c l IH]; [reflexivity|]. cbn [forallb splitlines_nl]. intros H.
  apply andb_prop in H as [Hc Hl]. unfold no_nl in Hc. apply negb_true_iff in Hc. rewrite Hc, (IH Hl).
  reflexivity.
Qed.
Lemma splitlines_line b t : forallb no_nl b = true -> splitlines_nl (b ++ NL :: t) = (b ++ [NL]) :: splitlines_nl t.
Proof.
  induction b as [|c b IH]; [reflexivity|]. cbn [forallb app splitlines_nl]. intros H.
  apply andb_prop in H as [Hc Hb]. unfold no_nl in Hc. apply negb_true_iff in Hc. rewrite Hc, (IH Hb).
  reflexivity.
Qed.
Lemma splitlines_concat ls : is_lines ls -> splitlines_nl (concat ls) = ls.
Proof.
  induction 1 as [l Hl | b rest Hb Hrest IH].
  - cbn [concat]. rewrite app_nil_r. apply splitlines_no_nl. exact Hl.
  - cbn [concat]. rewrite <- app_assoc. cbn [app]. rewrite (splitlines_line _ _ Hb), IH. reflexivity.
Qed.

Definition line_val (l : str) : str := if is_nil (rstrip is_crnl l) then l else SPACE :: l.
Lemma fmt_line_shape i l : block_format_line i l = i ++ SEMI :: line_val l.
Proof. unfold block_format_line, line_val. destruct (is_nil (rstrip is_crnl l)); reflexivity. Qed.

Lemma forallb_app_true {A} (p : A -> bool) a b :
  forallb p a = true -> forallb p b = true -> forallb p (a ++ b) = true.
Proof. intros Ha Hb. rewrite forallb_app, Ha, Hb. reflexivity. Qed.
Lemma forallb_imp {A} (p q : A -> bool) l :
  (forall c, p c = true -> q c = true) -> forallb p l = true -> forallb q l = true.
Proof.
  intros Hpq. induction l as [|c l IH]; [reflexivity|]. cbn [forallb]. intros H.
  apply andb_prop in H as [Hc Hl]. rewrite (Hpq _ Hc), (IH Hl). reflexivity.
Qed.

Lemma fmt_lines_are_lines i ls :
  forallb no_nl i = true -> is_lines ls -> is_lines (map (block_format_line i) ls).
Proof.
  intros Hi. induction 1 as [l Hl | b rest Hb Hrest IH]; cbn [map].
  - apply IL_last. rewrite fmt_line_shape. apply forallb_app_true; [exact Hi|].
    cbn [forallb]. unfold line_val. destruct (is_nil _); cbn [forallb]; rewrite Hl; reflexivity.
  - rewrite fmt_line_shape. unfold line_val.
    destruct (is_nil _).
    + change (i ++ SEMI :: b ++ [NL]) with (i ++ (SEMI :: b) ++ [NL]). rewrite app_assoc.
      apply IL_cons; [|exact IH]. apply forallb_app_true; [exact Hi|]. cbn [forallb]. rewrite Hb. reflexivity.
    + change (i ++ SEMI :: SPACE :: b ++ [NL]) with (i ++ (SEMI :: SPACE :: b) ++ [NL]). rewrite app_assoc.
      apply IL_cons; [|exact IH]. apply forallb_app_true; [exact Hi|]. cbn [forallb]. rewrite Hb. reflexivity.
Qed.

Lemma indent_ok_parts i :
  indent_codec_ok i = true -> forallb no_nl i = true /\ forallb (fun c => negb (c =? SEMI)) i = true.
Proof.
  unfold indent_codec_ok. intros H. split; revert H; apply forallb_imp; intros c Hc;
    apply andb_prop in Hc as [H1 H2]; assumption.
Qed.

Lemma split1_prefix i t : forallb (fun c => negb (c =? SEMI)) i = true -> split1 SEMI (i ++ SEMI :: t) = (i, Some t).
Proof.
  induction i as [|c i IH]; cbn [forallb app split1]; intros H.
  - change (SEMI =? SEMI) with true. reflexivity.
  - apply andb_prop in H as [Hc Hi]. apply negb_true_iff in Hc. rewrite Hc, (IH Hi). reflexivity.
Qed.

Lemma line_val_spaced l : line_spaced (line_val l) = true.
Proof.
  unfold line_val, line_spaced. destruct (is_nil (rstrip is_crnl l)) eqn:E; [rewrite E; reflexivity|].
  cbn [starts_with1]. change (SPACE =? SPACE) with true. apply orb_true_r.
Qed.
Lemma line_val_unspace l : removeprefix1 SPACE (line_val l) = l.
Proof.
  unfold line_val. destruct (is_nil (rstrip is_crnl l)) eqn:E.
  - destruct l as [|c l]; [reflexivity|]. cbn [removeprefix1].
    destruct (rstrip is_crnl (c :: l)) eqn:R; [|discriminate].
    apply rstrip_nil_iff in R. cbn [forallb] in R. apply andb_prop in R as [R _].
    unfold is_crnl in R. destruct (c =? SPACE) eqn:Ec; [|reflexivity].
    apply Z.eqb_eq in Ec. subst c. discriminate.
  - cbn [removeprefix1]. change (SPACE =? SPACE) with true. reflexivity.
Qed.

Lemma block_parse_fmt_lines i ls :
  forallb (fun c => negb (c =? SEMI)) i = true -> ls <> [] ->
  block_parse_lines (map (block_format_line i) ls) = Ok (i, concat ls).
Proof.
  intros Hi Hne. unfold block_parse_lines.
  assert (Hp : map (split1 SEMI) (map (block_format_line i) ls) = map (fun l => (i, Some (line_val l))) ls).
  { rewrite map_map. apply map_ext. intros l. rewrite fmt_line_shape. apply split1_prefix. exact Hi. }
  rewrite Hp.
  assert (H1 : forallb has_after (map (fun l => (i, Some (line_val l))) ls) = true).
  { clear. induction ls; [reflexivity|]. cbn [map forallb]. rewrite IHls. reflexivity. }
  rewrite H1.
  assert (H2 : map after_of (map (fun l => (i, Some (line_val l))) ls) = map line_val ls).
  { rewrite map_map. apply map_ext. reflexivity. }
  rewrite H2.
  assert (H3 : forallb line_spaced (map line_val ls) = true).
  { clear. induction ls; [reflexivity|]. cbn [map forallb]. rewrite line_val_spaced, IHls. reflexivity. }
  rewrite H3.
  assert (H4 : map (removeprefix1 SPACE) (map line_val ls) = ls).
  { rewrite map_map. rewrite <- (map_id ls) at 2. apply map_ext. apply line_val_unspace. }
  rewrite H4.
  destruct ls as [|l ls]; [congruence|]. reflexivity.
Qed.

Lemma block_roundtrip i v :
  indent_codec_ok i = true -> block_parse SplitNl (block_format SplitNl i v) = Ok (i, v).
Proof.
  intros Hi. apply indent_ok_parts in Hi as [Hnl Hsemi].
  unfold block_parse, block_format. cbn [block_splitlines].
  pose proof (splitlines_is_lines v) as Hl.
  rewrite (splitlines_concat _ (fmt_lines_are_lines _ _ Hnl Hl)).
  rewrite (block_parse_fmt_lines _ _ Hsemi (is_lines_nonempty _ Hl)), concat_splitlines. reflexivity.
Qed.

(* --- the formatted text is one BLOCK_COMMENT lexeme --- *)
Lemma skip_prefix p l : exists pre, l = pre ++ skip p l /\ forallb p pre = true.
Proof.
  induction l as [|c l [pre [H1 H2]]]; [exists []; split; reflexivity|].
  cbn [skip]. destruct (p c) eqn:E.
  - exists (c :: pre). cbn [app forallb]. rewrite E, H2, <- H1. split; reflexivity.
  - exists []. split; reflexivity.
Qed.

Lemma lexr_inline_line (b : bool) (l X : str) :
  lexr_inline (SEMI :: (if b then l else SPACE :: l) ++ X) = Some (skip not_crnl (l ++ X)).
Proof. destruct b; reflexivity. Qed.

Lemma lexr_inline_fmt l X : lexr_inline (SEMI :: line_val l ++ X) = Some (skip not_crnl (l ++ X)).
Proof. unfold line_val. apply lexr_inline_line. Qed.

(* what is left of the text once the ';' of the first line and its [^\r\n]* have been consumed *)
Definition rest_after (i : str) (ls : list str) : str :=
  match ls with [] => [] | l :: rest => skip not_crnl (l ++ concat (map (block_format_line i) rest)) end.

Definition indent_for (ind : bool) (i : str) : Prop :=
  forallb is_ws i = true /\ (if ind then i <> [] else i = []).

(* after the line break: [blanks] ';' text *)
Lemma lex_line_start ind i l X :
  indent_for ind i ->
  match (if ind then lexr_ws1 (block_format_line i l ++ X) else Some (block_format_line i l ++ X)) with
  | Some s2 => lexr_inline s2 = Some (skip not_crnl (l ++ X))
  | None => False
  end.
Proof.
  intros [Hws Hi]. rewrite fmt_line_shape. destruct ind.
  - destruct i as [|w i]; [congruence|]. cbn [forallb] in Hws. apply andb_prop in Hws as [Hw Hws].
    rewrite <- app_assoc. cbn [app lexr_ws1]. rewrite Hw.
    rewrite (skip_all_app _ _ _ Hws). rewrite skip_stop by reflexivity. apply lexr_inline_fmt.
  - subst i. cbn [app]. apply lexr_inline_fmt.
Qed.

Lemma block_loop_nil ind f : block_loop ind f [] = [].
Proof. destruct f; reflexivity. Qed.

Lemma no_nl_not_newline_tail t c :
  forallb no_nl t = true -> skip is_cr t = [c] -> (c =? NL) = true -> False.
Proof.
  intros Ht Hs Hc. destruct (skip_prefix is_cr t) as [pre [H1 _]]. rewrite Hs in H1. rewrite H1 in Ht.
  rewrite forallb_app in Ht. apply andb_prop in Ht as [_ Ht]. cbn [forallb] in Ht. unfold no_nl in Ht.
  rewrite Hc in Ht. discriminate.
Qed.

Lemma fmt_lines_length i rest : (length rest <= length (concat (map (block_format_line i) rest)))%nat.
Proof.
  induction rest as [|l rest IH]; [apply Nat.le_refl|].
  cbn [map concat length]. rewrite app_length, fmt_line_shape, app_length. cbn [length]. lia.
Qed.

Lemma block_loop_lines ind i ls :
  indent_for ind i -> is_lines ls -> forallb line_ok ls = true ->
  forall fuel, (length ls <= S fuel)%nat -> block_loop ind fuel (rest_after i ls) = [].
Proof.
  intros Hi Hls. induction Hls as [l Hl | b rest Hb Hrest IH]; intros Hok fuel Hfuel.
  - cbn [rest_after map concat]. rewrite app_nil_r.
    cbn [forallb] in Hok. apply andb_prop in Hok as [Hok _]. unfold line_ok in Hok.
    destruct (skip not_crnl l) as [|c t] eqn:E; [apply block_loop_nil|].
    exfalso. destruct (skip_prefix not_crnl l) as [pre [H1 _]]. rewrite E in H1.
    assert (Ht : forallb no_nl (c :: t) = true).
    { rewrite H1 in Hl. rewrite forallb_app in Hl. apply andb_prop in Hl as [_ Hl]. exact Hl. }
    destruct (skip is_cr (c :: t)) as [|d [|]] eqn:E2; try discriminate.
    exact (no_nl_not_newline_tail _ _ Ht E2 Hok).
  - cbn [forallb] in Hok. apply andb_prop in Hok as [Hok Hokrest].
    assert (Hne : rest <> []) by (apply is_lines_nonempty; exact Hrest).
    destruct rest as [|l2 rest2]; [congruence|].
    cbn [rest_after]. set (X := concat (map (block_format_line i) (l2 :: rest2))).
    unfold line_ok in Hok.
    rewrite skip_app.
    destruct (skip not_crnl (b ++ [NL])) as [|c t] eqn:E.
    { exfalso. rewrite skip_app in E. destruct (skip not_crnl b); discriminate. }
    destruct (skip is_cr (c :: t)) as [|d [|]] eqn:E2; try discriminate.
    apply Z.eqb_eq in Hok. subst d.
    destruct fuel as [|fuel]; [cbn [length] in Hfuel; lia|].
    cbn [block_loop]. unfold lexr_newline. rewrite skip_app, E2. cbn [app].
    change (NL =? NL) with true. cbv iota.
    unfold X. cbn [map concat].
    pose proof (lex_line_start ind i l2 (concat (map (block_format_line i) rest2)) Hi) as Hstart.
    destruct (if ind then lexr_ws1 _ else Some _) as [s2|]; [|contradiction].
    rewrite Hstart.
    apply (IH Hokrest). cbn [length] in *. lia.
Qed.

Lemma block_lexr_lines i ls :
  forallb is_ws i = true -> is_lines ls -> forallb line_ok ls = true ->
  lexr_block (concat (map (block_format_line i) ls)) = Some [].
Proof.
  intros Hws Hls Hok. destruct ls as [|l rest]; [exfalso; exact (is_lines_nonempty _ Hls eq_refl)|].
  cbn [map concat]. unfold lexr_block.
  destruct i as [|w i].
  - pose proof (lex_line_start false [] l (concat (map (block_format_line []) rest)) (conj Hws eq_refl)) as H.
    cbv iota in H. rewrite fmt_line_shape in *. cbn [app] in *.
    change (lexr_ws1 (SEMI :: line_val l ++ concat (map (block_format_line []) rest))) with (@None str).
    cbv iota. rewrite H. f_equal.
    apply (block_loop_lines false [] (l :: rest) (conj Hws eq_refl) Hls Hok).
    cbn [length]. pose proof (fmt_lines_length [] rest) as HL.
    destruct (skip_prefix not_crnl (l ++ concat (map (block_format_line []) rest))) as [pre [H1 _]].
    inversion Hls as [l' Hl' Heq | b rest' Hb Hrest Heq]; subst; cbn [length]; [lia|].
    rewrite <- app_assoc. rewrite skip_app.
    destruct (skip not_crnl b) eqn:Eb; cbn [app skip]; change (not_crnl NL) with false; cbv iota;
      cbn [length]; try rewrite app_length; cbn [length]; lia.
  - assert (Hi : indent_for true (w :: i)) by (split; [exact Hws | discriminate]).
    pose proof (lex_line_start true (w :: i) l (concat (map (block_format_line (w :: i)) rest)) Hi) as H.
    cbv iota in H.
    destruct (lexr_ws1 _) as [s2|]; [|contradiction]. rewrite H. f_equal.
    apply (block_loop_lines true (w :: i) (l :: rest) Hi Hls Hok).
    cbn [length]. pose proof (fmt_lines_length (w :: i) rest) as HL.
    inversion Hls as [l' Hl' Heq | b rest' Hb Hrest Heq]; subst; cbn [length]; [lia|].
    rewrite <- app_assoc. rewrite skip_app.
    destruct (skip not_crnl b) eqn:Eb; cbn [app skip]; change (not_crnl NL) with false; cbv iota;
      cbn [length]; try rewrite app_length; cbn [length]; lia.
Qed.

Lemma block_lexr i v :
  dom_block_indent i = true -> dom_block_value v = true -> lexr_block (block_format SplitNl i v) = Some [].
Proof.
  unfold dom_block_indent, dom_block_value, block_format. cbn [block_splitlines]. intros Hi Hv.
  apply block_lexr_lines; [exact Hi | apply splitlines_is_lines | exact Hv].
Qed.
