(* Proofs about Tokens.v: per token class, the codec round trip on the whole domain, the produced text is
   one lexeme of the class's terminal (recogniser consumes everything), lexemes are accepted, and the
   assignment-history invariant "the raw text parses to the value". *)
From AB Require Import Prelude Tokens.
From Coq Require Import ZifyBool.

Local Open Scope Z_scope.

(* ---------------------------------------------------------------------------------------------- *)
(* generic facts                                                                                  *)
Lemma zlen_nil {A} : zlen (@nil A) = 0. Proof. reflexivity. Qed.
Lemma zlen_cons {A} (x : A) l : zlen (x :: l) = zlen l + 1.
Proof. unfold zlen. cbn [length]. lia. Qed.
Lemma zlen_app {A} (a b : list A) : zlen (a ++ b) = zlen a + zlen b.
Proof. unfold zlen. rewrite app_length. lia. Qed.
Lemma zlen_nonneg {A} (l : list A) : 0 <= zlen l. Proof. unfold zlen. lia. Qed.

Lemma len_matched_nil s : len_matched s (Some []) = Some (zlen s).
Proof. unfold len_matched. rewrite zlen_nil. f_equal. lia. Qed.

Lemma skip_app p a b :
  skip p (a ++ b) = match skip p a with [] => skip p b | t => t ++ b end.
Proof.
  induction a as [|c a IH]; cbn [skip app]; [destruct (skip p b); reflexivity|].
  destruct (p c); [exact IH | reflexivity].
Qed.
Lemma skip_all p a : forallb p a = true -> skip p a = [].
Proof.
  induction a as [|c a IH]; cbn [forallb skip]; [reflexivity|].
  intros H. apply andb_prop in H as [Hc Ha]. rewrite Hc. auto.
Qed.
Lemma skip_all_app p a b : forallb p a = true -> skip p (a ++ b) = skip p b.
Proof. intros H. rewrite skip_app, (skip_all _ _ H). reflexivity. Qed.
Lemma take_all_app p a c b : forallb p a = true -> p c = false -> take p (a ++ c :: b) = a.
Proof.
  induction a as [|x a IH]; cbn [forallb take app]; intros H Hc.
  - rewrite Hc. reflexivity.
  - apply andb_prop in H as [Hx Ha]. rewrite Hx. f_equal. auto.
Qed.
Lemma take_all p a : forallb p a = true -> take p a = a.
Proof.
  induction a as [|x a IH]; cbn [forallb take]; intros H; [reflexivity|].
  apply andb_prop in H as [Hx Ha]. rewrite Hx. f_equal. auto.
Qed.
Lemma skip_stop p c b : p c = false -> skip p (c :: b) = c :: b.
Proof. intros H. cbn [skip]. rewrite H. reflexivity. Qed.

Lemma rstrip_nil_iff p s : rstrip p s = [] <-> forallb p s = true.
Proof.
  induction s as [|c s IH]; cbn [rstrip forallb]; [tauto|].
  destruct (rstrip p s) eqn:E.
  - assert (Hs : forallb p s = true) by (apply IH; reflexivity). rewrite Hs.
    destruct (p c); cbn [andb]; split; intros H; try discriminate; reflexivity.
  - split; intros H; [discriminate|].
    apply andb_prop in H as [_ H]. apply IH in H. discriminate.
Qed.

Lemma removelast_app_one {A} (l : list A) x : removelast (l ++ [x]) = l.
Proof. rewrite removelast_app by discriminate. cbn. apply app_nil_r. Qed.

(* ---------------------------------------------------------------------------------------------- *)
(* token objects: the assignment-history invariant, for any codec that round-trips on its domain  *)
Section History.
  Context {V : Type}.
  Variable parse : str -> res V.
  Variable format : V -> str.
  Variable dom : V -> bool.
  Variable pf : bool.
  Hypothesis roundtrip : forall v, dom v = true -> parse (format v) = Ok v.

  Definition coherent (t : tok V) : Prop := parse (t_raw t) = Ok (t_val t).
  (* an assignment the property talks about: a value of the domain, or a raw text that is accepted *)
  Definition op_ok (o : sv_op V) : Prop :=
    match o with SetValue v => dom v = true | SetRaw s => exists v, parse s = Ok v end.

  Lemma sv_from_value_coherent v : dom v = true -> coherent (sv_from_value format v).
  Proof. intros H. unfold coherent, sv_from_value. cbn. auto. Qed.
  Lemma sv_from_raw_text_ok s t :
    sv_from_raw_text parse s = Ok t -> t_raw t = s /\ coherent t.
  Proof.
    unfold sv_from_raw_text, coherent. destruct (parse s) eqn:E; intros H; inversion H; subst. cbn. auto.
  Qed.
  Lemma sv_from_raw_text_accepts s v : parse s = Ok v -> sv_from_raw_text parse s = Ok (mk_tok s v).
  Proof. unfold sv_from_raw_text. intros ->. reflexivity. Qed.
  Lemma sv_step_coherent t o : op_ok o -> coherent (fst (sv_step parse format pf t o)) /\ snd (sv_step parse format pf t o) = Ok tt.
  Proof.
    destruct o as [s|v]; cbn [op_ok sv_step].
    - intros [v Hv]. rewrite Hv. cbn. unfold coherent. cbn. auto.
    - intros Hd. cbn. unfold coherent. cbn. auto.
  Qed.
  Lemma sv_step_raw_verbatim t s v : parse s = Ok v -> t_raw (fst (sv_step parse format pf t (SetRaw s))) = s.
  Proof. intros H. cbn [sv_step]. rewrite H. reflexivity. Qed.
  Lemma sv_step_value_kept t v : t_val (fst (sv_step parse format pf t (SetValue v))) = v.
  Proof. reflexivity. Qed.
  Theorem sv_history t ops : coherent t -> Forall op_ok ops -> coherent (sv_run parse format pf t ops).
  Proof.
    revert t. induction ops as [|o ops IH]; intros t Ht Hops; cbn [sv_run]; [exact Ht|].
    inversion Hops; subst. apply IH; [|assumption]. apply sv_step_coherent. assumption.
  Qed.
End History.

(* ---------------------------------------------------------------------------------------------- *)
(* EscapedString                                                                                  *)
Lemma unescape_escape_aux a v t :
  unescape_aux false (escape a v ++ t) = v ++ unescape_aux false t.
Proof.
  induction v as [|c v IH]; [reflexivity|].
  cbn [escape]. rewrite <- app_assoc. unfold escape_char.
  destruct (c =? QUOTE) eqn:Eq.
  { apply Z.eqb_eq in Eq. subst c. cbn. rewrite IH. reflexivity. }
  destruct (c =? BSLASH) eqn:Eb.
  { apply Z.eqb_eq in Eb. subst c. cbn. rewrite IH. reflexivity. }
  assert (Hplain : unescape_aux false ((c :: nil) ++ escape a v ++ t) = (c :: v) ++ unescape_aux false t).
  { cbn [app unescape_aux]. rewrite Eb. rewrite IH. reflexivity. }
  destruct a; [|exact Hplain].
  destruct (c =? 10) eqn:E1. { apply Z.eqb_eq in E1. subst c. cbn. rewrite IH. reflexivity. }
  destruct (c =? 9) eqn:E2. { apply Z.eqb_eq in E2. subst c. cbn. rewrite IH. reflexivity. }
  destruct (c =? 13) eqn:E3. { apply Z.eqb_eq in E3. subst c. cbn. rewrite IH. reflexivity. }
  destruct (c =? 12) eqn:E4. { apply Z.eqb_eq in E4. subst c. cbn. rewrite IH. reflexivity. }
  destruct (c =? 8) eqn:E5. { apply Z.eqb_eq in E5. subst c. cbn. rewrite IH. reflexivity. }
  exact Hplain.
Qed.
Lemma unescape_escape a v : unescape (escape a v) = v.
Proof.
  unfold unescape. rewrite <- (app_nil_r (escape a v)), unescape_escape_aux. cbn. apply app_nil_r.
Qed.
Lemma string_roundtrip v : string_parse (string_format v) = Ok v.
Proof.
  unfold string_parse, string_format, slice_1_m1. cbn [tl]. rewrite removelast_app_one, unescape_escape.
  reflexivity.
Qed.
Lemma str_body_escape v t : str_body false (escape false v ++ QUOTE :: t) = Some t.
Proof.
  induction v as [|c v IH]; [reflexivity|].
  cbn [escape]. rewrite <- app_assoc. unfold escape_char.
  destruct (c =? QUOTE) eqn:Eq. { cbn. exact IH. }
  destruct (c =? BSLASH) eqn:Eb. { cbn. exact IH. }
  cbn [app str_body]. rewrite Eb, Eq. exact IH.
Qed.
Lemma string_lexr v : lexr_string (string_format v) = Some [].
Proof. unfold lexr_string, string_format. cbn. apply str_body_escape. Qed.

(* ---------------------------------------------------------------------------------------------- *)
(* InlineComment                                                                                  *)
Lemma inline_roundtrip v : dom_inline v = true -> inline_parse (inline_format v) = Ok v.
Proof.
  unfold dom_inline, inline_parse, inline_format. intros H. apply andb_prop in H as [_ H].
  destruct v as [|c v]; [reflexivity|].
  cbn [is_nil removeprefix1]. cbn. cbn [starts_with1] in H. unfold is_space.
  apply negb_true_iff in H. rewrite H. reflexivity.
Qed.
Lemma inline_lexr v : dom_inline v = true -> lexr_inline (inline_format v) = Some [].
Proof.
  unfold dom_inline, inline_format. intros H. apply andb_prop in H as [H _].
  destruct v as [|c v]; [reflexivity|].
  cbn [is_nil].
  change (lexr_inline (SEMI :: SPACE :: c :: v)) with (Some (skip not_crnl (SPACE :: c :: v))).
  f_equal. apply skip_all.
  change (forallb not_crnl (SPACE :: c :: v)) with (not_crnl SPACE && forallb not_crnl (c :: v)).
  rewrite H. reflexivity.
Qed.

(* ---------------------------------------------------------------------------------------------- *)
(* BlockComment (repaired _splitlines: split after every LF)                                      *)
Definition no_nl (c : Z) : bool := negb (c =? NL).

Inductive is_lines : list str -> Prop :=
| IL_last l : forallb no_nl l = true -> is_lines [l]
| IL_cons b rest : forallb no_nl b = true -> is_lines rest -> is_lines ((b ++ [NL]) :: rest).

Lemma is_lines_nonempty ls : is_lines ls -> ls <> [].
Proof. intros H. inversion H; discriminate. Qed.

Lemma splitlines_is_lines v : is_lines (splitlines_nl v).
Proof.
  induction v as [|c v IH]; cbn [splitlines_nl]; [apply IL_last; reflexivity|].
  destruct (c =? NL) eqn:E.
  - apply Z.eqb_eq in E. subst c. apply (IL_cons [] _ eq_refl IH).
  - inversion IH as [l Hl Heq | b rest Hb Hrest Heq].
    + apply IL_last. cbn [forallb]. unfold no_nl at 1. rewrite E. exact Hl.
    + change ((c :: b ++ [NL]) :: rest) with (((c :: b) ++ [NL]) :: rest).
      apply IL_cons; [|exact Hrest]. cbn [forallb]. unfold no_nl at 1. rewrite E. exact Hb.
Qed.
Lemma concat_splitlines v : concat (splitlines_nl v) = v.
Proof.
  induction v as [|c v IH]; [reflexivity|]. cbn [splitlines_nl].
  destruct (c =? NL); [cbn [concat app]; rewrite IH; reflexivity|].
  destruct (splitlines_nl v) as [|l ls] eqn:E.
  - pose proof (is_lines_nonempty _ (splitlines_is_lines v)) as H. rewrite E in H. congruence.
  - cbn [concat] in *. rewrite <- IH. reflexivity.
Qed.
Lemma splitlines_no_nl l : forallb no_nl l = true -> splitlines_nl l = [l].
Proof.
  induction l as [|c l IH]; [reflexivity|]. cbn [forallb splitlines_nl]. intros H.
  apply andb_prop in H as [Hc Hl]. unfold no_nl in Hc. apply negb_true_iff in Hc. rewrite Hc, (IH Hl).
  reflexivity.
Qed.
Lemma splitlines_line b t : forallb no_nl b = true -> splitlines_nl (b ++ NL :: t) = (b ++ [NL]) :: splitlines_nl t.
Proof.
  induction b as [|c b IH]; [reflexivity|]. cbn [forallb app splitlines_nl]. intros H.
  apply andb_prop in H as [Hc Hb]. unfold no_nl in Hc. apply negb_true_iff in Hc. rewrite Hc, (IH Hb).
  reflexivity.
Qed.
Lemma splitlines_concat ls : is_lines ls -> splitlines_nl (concat ls) = ls.
Proof.
  induction 1 as [l Hl | b rest Hb Hrest IH].
  - cbn [concat]. rewrite app_nil_r. apply splitlines_no_nl. exact Hl.
  - cbn [concat]. rewrite <- app_assoc. cbn [app]. rewrite (splitlines_line _ _ Hb), IH. reflexivity.
Qed.

Definition line_val (l : str) : str := if is_nil (rstrip is_crnl l) then l else SPACE :: l.
Lemma fmt_line_shape i l : block_format_line i l = i ++ SEMI :: line_val l.
Proof. unfold block_format_line, line_val. destruct (is_nil (rstrip is_crnl l)); reflexivity. Qed.

Lemma forallb_app_true {A} (p : A -> bool) a b :
  forallb p a = true -> forallb p b = true -> forallb p (a ++ b) = true.
Proof. intros Ha Hb. rewrite forallb_app, Ha, Hb. reflexivity. Qed.
Lemma forallb_imp {A} (p q : A -> bool) l :
  (forall c, p c = true -> q c = true) -> forallb p l = true -> forallb q l = true.
Proof.
  intros Hpq. induction l as [|c l IH]; [reflexivity|]. cbn [forallb]. intros H.
  apply andb_prop in H as [Hc Hl]. rewrite (Hpq _ Hc), (IH Hl). reflexivity.
Qed.

Lemma fmt_lines_are_lines i ls :
  forallb no_nl i = true -> is_lines ls -> is_lines (map (block_format_line i) ls).
Proof.
  intros Hi. induction 1 as [l Hl | b rest Hb Hrest IH]; cbn [map].
  - apply IL_last. rewrite fmt_line_shape. apply forallb_app_true; [exact Hi|].
    cbn [forallb]. unfold line_val. destruct (is_nil _); cbn [forallb]; rewrite Hl; reflexivity.
  - rewrite fmt_line_shape. unfold line_val.
    destruct (is_nil _).
    + change (i ++ SEMI :: b ++ [NL]) with (i ++ (SEMI :: b) ++ [NL]). rewrite app_assoc.
      apply IL_cons; [|exact IH]. apply forallb_app_true; [exact Hi|]. cbn [forallb]. rewrite Hb. reflexivity.
    + change (i ++ SEMI :: SPACE :: b ++ [NL]) with (i ++ (SEMI :: SPACE :: b) ++ [NL]). rewrite app_assoc.
      apply IL_cons; [|exact IH]. apply forallb_app_true; [exact Hi|]. cbn [forallb]. rewrite Hb. reflexivity.
Qed.

Lemma indent_ok_parts i :
  indent_codec_ok i = true -> forallb no_nl i = true /\ forallb (fun c => negb (c =? SEMI)) i = true.
Proof.
  unfold indent_codec_ok. intros H. split; revert H; apply forallb_imp; intros c Hc;
    apply andb_prop in Hc as [H1 H2]; assumption.
Qed.

Lemma split1_prefix i t : forallb (fun c => negb (c =? SEMI)) i = true -> split1 SEMI (i ++ SEMI :: t) = (i, Some t).
Proof.
  induction i as [|c i IH]; cbn [forallb app split1]; intros H.
  - change (SEMI =? SEMI) with true. reflexivity.
  - apply andb_prop in H as [Hc Hi]. apply negb_true_iff in Hc. rewrite Hc, (IH Hi). reflexivity.
Qed.

Lemma line_val_spaced l : line_spaced (line_val l) = true.
Proof.
  unfold line_val, line_spaced. destruct (is_nil (rstrip is_crnl l)) eqn:E; [rewrite E; reflexivity|].
  cbn [starts_with1]. change (SPACE =? SPACE) with true. apply orb_true_r.
Qed.
Lemma line_val_unspace l : removeprefix1 SPACE (line_val l) = l.
Proof.
  unfold line_val. destruct (is_nil (rstrip is_crnl l)) eqn:E.
  - destruct l as [|c l]; [reflexivity|]. cbn [removeprefix1].
    destruct (rstrip is_crnl (c :: l)) eqn:R; [|discriminate].
    apply rstrip_nil_iff in R. cbn [forallb] in R. apply andb_prop in R as [R _].
    unfold is_crnl in R. destruct (c =? SPACE) eqn:Ec; [|reflexivity].
    apply Z.eqb_eq in Ec. subst c. discriminate.
  - cbn [removeprefix1]. change (SPACE =? SPACE) with true. reflexivity.
Qed.

Lemma block_parse_fmt_lines i ls :
  forallb (fun c => negb (c =? SEMI)) i = true -> ls <> [] ->
  block_parse_lines (map (block_format_line i) ls) = Ok (i, concat ls).
Proof.
  intros Hi Hne. unfold block_parse_lines.
  assert (Hp : map (split1 SEMI) (map (block_format_line i) ls) = map (fun l => (i, Some (line_val l))) ls).
  { rewrite map_map. apply map_ext. intros l. rewrite fmt_line_shape. apply split1_prefix. exact Hi. }
  rewrite Hp.
  assert (H1 : forallb has_after (map (fun l => (i, Some (line_val l))) ls) = true).
  { clear. induction ls; [reflexivity|]. cbn [map forallb]. rewrite IHls. reflexivity. }
  rewrite H1.
  assert (H2 : map after_of (map (fun l => (i, Some (line_val l))) ls) = map line_val ls).
  { rewrite map_map. apply map_ext. reflexivity. }
  rewrite H2.
  assert (H3 : forallb line_spaced (map line_val ls) = true).
  { clear. induction ls; [reflexivity|]. cbn [map forallb]. rewrite line_val_spaced, IHls. reflexivity. }
  rewrite H3.
  assert (H4 : map (removeprefix1 SPACE) (map line_val ls) = ls).
  { rewrite map_map. rewrite <- (map_id ls) at 2. apply map_ext. apply line_val_unspace. }
  rewrite H4.
  destruct ls as [|l ls]; [congruence|]. reflexivity.
Qed.

Lemma block_roundtrip i v :
  indent_codec_ok i = true -> block_parse SplitNl (block_format SplitNl i v) = Ok (i, v).
Proof.
  intros Hi. apply indent_ok_parts in Hi as [Hnl Hsemi].
  unfold block_parse, block_format. cbn [block_splitlines].
  pose proof (splitlines_is_lines v) as Hl.
  rewrite (splitlines_concat _ (fmt_lines_are_lines _ _ Hnl Hl)).
  rewrite (block_parse_fmt_lines _ _ Hsemi (is_lines_nonempty _ Hl)), concat_splitlines. reflexivity.
Qed.

(* --- the formatted text is one BLOCK_COMMENT lexeme --- *)
Lemma skip_prefix p l : exists pre, l = pre ++ skip p l /\ forallb p pre = true.
Proof.
  induction l as [|c l [pre [H1 H2]]]; [exists []; split; reflexivity|].
  cbn [skip]. destruct (p c) eqn:E.
  - exists (c :: pre). cbn [app forallb]. rewrite E, H2, <- H1. split; reflexivity.
  - exists []. split; reflexivity.
Qed.

Lemma lexr_inline_line (b : bool) (l X : str) :
  lexr_inline (SEMI :: (if b then l else SPACE :: l) ++ X) = Some (skip not_crnl (l ++ X)).
Proof. destruct b; reflexivity. Qed.

Lemma lexr_inline_fmt l X : lexr_inline (SEMI :: line_val l ++ X) = Some (skip not_crnl (l ++ X)).
Proof. unfold line_val. apply lexr_inline_line. Qed.

(* what is left of the text once the ';' of the first line and its [^\r\n]* have been consumed *)
Definition rest_after (i : str) (ls : list str) : str :=
  match ls with [] => [] | l :: rest => skip not_crnl (l ++ concat (map (block_format_line i) rest)) end.

Definition indent_for (ind : bool) (i : str) : Prop :=
  forallb is_ws i = true /\ (if ind then i <> [] else i = []).

(* after the line break: [blanks] ';' text *)
Lemma lex_line_start ind i l X :
  indent_for ind i ->
  match (if ind then lexr_ws1 (block_format_line i l ++ X) else Some (block_format_line i l ++ X)) with
  | Some s2 => lexr_inline s2 = Some (skip not_crnl (l ++ X))
  | None => False
  end.
Proof.
  intros [Hws Hi]. rewrite fmt_line_shape. destruct ind.
  - destruct i as [|w i]; [congruence|]. cbn [forallb] in Hws. apply andb_prop in Hws as [Hw Hws].
    rewrite <- app_assoc. cbn [app lexr_ws1]. rewrite Hw.
    rewrite (skip_all_app _ _ _ Hws). rewrite skip_stop by reflexivity. apply lexr_inline_fmt.
  - subst i. cbn [app]. apply lexr_inline_fmt.
Qed.

Lemma block_loop_nil ind f : block_loop ind f [] = [].
Proof. destruct f; reflexivity. Qed.

Lemma no_nl_not_newline_tail t c :
  forallb no_nl t = true -> skip is_cr t = [c] -> (c =? NL) = true -> False.
Proof.
  intros Ht Hs Hc. destruct (skip_prefix is_cr t) as [pre [H1 _]]. rewrite Hs in H1. rewrite H1 in Ht.
  rewrite forallb_app in Ht. apply andb_prop in Ht as [_ Ht]. cbn [forallb] in Ht. unfold no_nl in Ht.
  rewrite Hc in Ht. discriminate.
Qed.

Lemma fmt_lines_length i rest : (length rest <= length (concat (map (block_format_line i) rest)))%nat.
Proof.
  induction rest as [|l rest IH]; [apply Nat.le_refl|].
  cbn [map concat length]. rewrite app_length, fmt_line_shape, app_length. cbn [length]. lia.
Qed.

Lemma block_loop_lines ind i ls :
  indent_for ind i -> is_lines ls -> forallb line_ok ls = true ->
  forall fuel, (length ls <= S fuel)%nat -> block_loop ind fuel (rest_after i ls) = [].
Proof.
  intros Hi Hls. induction Hls as [l Hl | b rest Hb Hrest IH]; intros Hok fuel Hfuel.
  - cbn [rest_after map concat]. rewrite app_nil_r.
    cbn [forallb] in Hok. apply andb_prop in Hok as [Hok _]. unfold line_ok in Hok.
    destruct (skip not_crnl l) as [|c t] eqn:E; [apply block_loop_nil|].
    exfalso. destruct (skip_prefix not_crnl l) as [pre [H1 _]]. rewrite E in H1.
    assert (Ht : forallb no_nl (c :: t) = true).
    { rewrite H1 in Hl. rewrite forallb_app in Hl. apply andb_prop in Hl as [_ Hl]. exact Hl. }
    destruct (skip is_cr (c :: t)) as [|d [|]] eqn:E2; try discriminate.
    exact (no_nl_not_newline_tail _ _ Ht E2 Hok).
  - cbn [forallb] in Hok. apply andb_prop in Hok as [Hok Hokrest].
    assert (Hne : rest <> []) by (apply is_lines_nonempty; exact Hrest).
    destruct rest as [|l2 rest2]; [congruence|].
    cbn [rest_after]. set (X := concat (map (block_format_line i) (l2 :: rest2))).
    unfold line_ok in Hok.
    rewrite skip_app.
    destruct (skip not_crnl (b ++ [NL])) as [|c t] eqn:E.
    { exfalso. rewrite skip_app in E. destruct (skip not_crnl b); discriminate. }
    destruct (skip is_cr (c :: t)) as [|d [|]] eqn:E2; try discriminate.
    apply Z.eqb_eq in Hok. subst d.
    destruct fuel as [|fuel]; [cbn [length] in Hfuel; lia|].
    cbn [block_loop]. unfold lexr_newline. rewrite skip_app, E2. cbn [app].
    change (NL =? NL) with true. cbv iota.
    unfold X. cbn [map concat].
    pose proof (lex_line_start ind i l2 (concat (map (block_format_line i) rest2)) Hi) as Hstart.
    destruct ind.
    + destruct (lexr_ws1 (block_format_line i l2 ++ concat (map (block_format_line i) rest2))) as [s2|];
        [|contradiction].
      rewrite Hstart. apply (IH Hokrest). cbn [length] in *. lia.
    + rewrite Hstart. apply (IH Hokrest). cbn [length] in *. lia.
Qed.

Lemma block_lexr_lines i ls :
  forallb is_ws i = true -> is_lines ls -> forallb line_ok ls = true ->
  lexr_block (concat (map (block_format_line i) ls)) = Some [].
Proof.
  intros Hws Hls Hok. destruct ls as [|l rest]; [exfalso; exact (is_lines_nonempty _ Hls eq_refl)|].
  cbn [map concat]. unfold lexr_block.
  destruct i as [|w i].
  - pose proof (lex_line_start false [] l (concat (map (block_format_line []) rest)) (conj Hws eq_refl)) as H.
    cbv iota in H. rewrite fmt_line_shape in *. cbn [app] in *.
    change (lexr_ws1 (SEMI :: line_val l ++ concat (map (block_format_line []) rest))) with (@None str).
    cbv iota. rewrite H. f_equal.
    apply (block_loop_lines false [] (l :: rest) (conj Hws eq_refl) Hls Hok).
    cbn [length]. pose proof (fmt_lines_length [] rest) as HL.
    destruct (skip_prefix not_crnl (l ++ concat (map (block_format_line []) rest))) as [pre [H1 _]].
    inversion Hls as [l' Hl' Heq | b rest' Hb Hrest Heq]; subst; cbn [length]; [lia|].
    rewrite <- app_assoc. rewrite skip_app.
    destruct (skip not_crnl b) eqn:Eb; cbn [app skip]; change (not_crnl NL) with false; cbv iota;
      cbn [length]; try rewrite app_length; cbn [length]; lia.
  - assert (Hi : indent_for true (w :: i)) by (split; [exact Hws | discriminate]).
    pose proof (lex_line_start true (w :: i) l (concat (map (block_format_line (w :: i)) rest)) Hi) as H.
    cbv iota in H.
    destruct (lexr_ws1 _) as [s2|]; [|contradiction]. rewrite H. f_equal.
    apply (block_loop_lines true (w :: i) (l :: rest) Hi Hls Hok).
    cbn [length]. pose proof (fmt_lines_length (w :: i) rest) as HL.
    inversion Hls as [l' Hl' Heq | b rest' Hb Hrest Heq]; subst; cbn [length]; [lia|].
    rewrite <- app_assoc. rewrite skip_app.
    destruct (skip not_crnl b) eqn:Eb; cbn [app skip]; change (not_crnl NL) with false; cbv iota;
      cbn [length]; try rewrite app_length; cbn [length]; lia.
Qed.

Lemma block_lexr i v :
  dom_block_indent i = true -> dom_block_value v = true -> lexr_block (block_format SplitNl i v) = Some [].
Proof.
  unfold dom_block_indent, dom_block_value, block_format. cbn [block_splitlines]. intros Hi Hv.
  apply block_lexr_lines; [exact Hi | apply splitlines_is_lines | exact Hv].
Qed.

(* --- every BLOCK_COMMENT lexeme is accepted by _parse_value (the statement D8 breaks) --- *)
Definition has_semi (l : str) : bool := has_after (split1 SEMI l).
Lemma has_semi_cons c l : has_semi (c :: l) = (c =? SEMI) || has_semi l.
Proof.
  unfold has_semi, has_after. cbn [split1]. destruct (c =? SEMI); [reflexivity|].
  destruct (split1 SEMI l); reflexivity.
Qed.
(* every LF-terminated piece and the last piece contain ';' (seen: the current piece already does) *)
Fixpoint semi_scan (seen : bool) (s : str) : bool :=
  match s with
  | [] => seen
  | c :: r => if c =? NL then seen && semi_scan false r else semi_scan (seen || (c =? SEMI)) r
  end.
Lemma semi_scan_lines s : forall seen,
  match splitlines_nl s with
  | l :: ls => (seen || has_semi l) && forallb has_semi ls
  | [] => false
  end = semi_scan seen s.
Proof.
  induction s as [|c s IH]; intros seen.
  - cbn. rewrite orb_false_r, andb_true_r. reflexivity.
  - cbn [splitlines_nl semi_scan]. destruct (c =? NL) eqn:E.
    + rewrite <- (IH false). change (has_semi [c]) with (has_after (split1 SEMI [c])). cbn [split1].
      apply Z.eqb_eq in E. subst c. change (NL =? SEMI) with false. cbn [has_after snd].
      rewrite orb_false_r. destruct (splitlines_nl s) as [|l ls] eqn:Es; [|reflexivity].
      pose proof (is_lines_nonempty _ (splitlines_is_lines s)) as H. rewrite Es in H. congruence.
    + rewrite <- (IH (seen || (c =? SEMI))).
      destruct (splitlines_nl s) as [|l ls] eqn:Es.
      * pose proof (is_lines_nonempty _ (splitlines_is_lines s)) as H. rewrite Es in H. congruence.
      * rewrite has_semi_cons, orb_assoc. reflexivity.
Qed.
Lemma semi_scan_app a b : forallb no_nl a = true -> forall seen,
  semi_scan seen (a ++ b) = semi_scan (seen || existsb (fun c => c =? SEMI) a) b.
Proof.
  induction a as [|c a IH]; intros Ha seen; cbn [app existsb]; [rewrite orb_false_r; reflexivity|].
  cbn [forallb] in Ha. apply andb_prop in Ha as [Hc Ha]. unfold no_nl in Hc. apply negb_true_iff in Hc.
  cbn [semi_scan]. rewrite Hc, (IH Ha), orb_assoc. reflexivity.
Qed.
Lemma semi_scan_true_app a b : forallb no_nl a = true -> semi_scan true (a ++ b) = semi_scan true b.
Proof. intros Ha. rewrite (semi_scan_app _ _ Ha). reflexivity. Qed.

Lemma cr_no_nl c : is_cr c = true -> no_nl c = true.
Proof. unfold is_cr, no_nl, CR, NL. intros H. apply Z.eqb_eq in H. subst c. reflexivity. Qed.
Lemma ws_no_nl c : is_ws c = true -> no_nl c = true.
Proof. unfold is_ws, no_nl, SPACE, TAB, NL. intros H. lia. Qed.
Lemma not_crnl_no_nl c : not_crnl c = true -> no_nl c = true.
Proof. unfold not_crnl, is_crnl, no_nl. intros H. lia. Qed.

Lemma lexr_newline_shape s s1 : lexr_newline s = Some s1 ->
  exists crs, s = crs ++ NL :: s1 /\ forallb no_nl crs = true.
Proof.
  unfold lexr_newline. destruct (skip_prefix is_cr s) as [pre [H1 H2]].
  destruct (skip is_cr s) as [|c r]; [discriminate|]. destruct (c =? NL) eqn:E; [|discriminate].
  intros H. inversion H; subst s1. apply Z.eqb_eq in E. subst c. exists pre. split; [exact H1|].
  revert H2. apply forallb_imp. exact cr_no_nl.
Qed.
Lemma lexr_ws1_shape s s1 : lexr_ws1 s = Some s1 ->
  exists ws, s = ws ++ s1 /\ forallb no_nl ws = true.
Proof.
  unfold lexr_ws1. destruct s as [|c r]; [discriminate|]. destruct (is_ws c) eqn:E; [|discriminate].
  intros H. inversion H; subst s1. destruct (skip_prefix is_ws r) as [pre [H1 H2]].
  exists (c :: pre). split; [cbn [app]; rewrite <- H1; reflexivity|].
  cbn [forallb]. rewrite (ws_no_nl _ E). revert H2. apply forallb_imp. exact ws_no_nl.
Qed.
Lemma lexr_inline_shape s s1 : lexr_inline s = Some s1 ->
  exists body, s = SEMI :: body ++ s1 /\ forallb no_nl body = true.
Proof.
  unfold lexr_inline. destruct s as [|c r]; [discriminate|]. destruct (c =? SEMI) eqn:E; [|discriminate].
  intros H. inversion H; subst s1. apply Z.eqb_eq in E. subst c.
  destruct (skip_prefix not_crnl r) as [pre [H1 H2]]. exists pre. split; [rewrite <- H1; reflexivity|].
  revert H2. apply forallb_imp. exact not_crnl_no_nl.
Qed.
Lemma semi_scan_after_semi seen body s3 :
  forallb no_nl body = true -> semi_scan seen (SEMI :: body ++ s3) = semi_scan true s3.
Proof.
  intros Hb. cbn [semi_scan]. change (SEMI =? NL) with false. change (SEMI =? SEMI) with true.
  rewrite orb_true_r. apply semi_scan_true_app. exact Hb.
Qed.

Lemma block_loop_semi ind fuel : forall s, block_loop ind fuel s = [] -> semi_scan true s = true.
Proof.
  induction fuel as [|f IH]; intros s H; cbn [block_loop] in H; [subst s; reflexivity|].
  destruct (lexr_newline s) as [s1|] eqn:E1; [|subst s; reflexivity].
  destruct (lexr_newline_shape _ _ E1) as [crs [Hs Hcrs]].
  assert (Hne : s <> []) by (rewrite Hs; destruct crs; discriminate).
  destruct (if ind then lexr_ws1 s1 else Some s1) as [s2|] eqn:E2; [|congruence].
  destruct (lexr_inline s2) as [s3|] eqn:E3; [|congruence].
  destruct (lexr_inline_shape _ _ E3) as [body [Hs2 Hbody]].
  assert (Hs1 : exists ws, s1 = ws ++ s2 /\ forallb no_nl ws = true).
  { destruct ind; [apply lexr_ws1_shape; exact E2|]. inversion E2. exists []. split; reflexivity. }
  destruct Hs1 as [ws [Hs1 Hws]].
  rewrite Hs, (semi_scan_true_app _ _ Hcrs). cbn [semi_scan]. change (NL =? NL) with true. cbn [andb].
  rewrite Hs1, (semi_scan_app _ _ Hws), Hs2, (semi_scan_after_semi _ _ _ Hbody). apply IH. exact H.
Qed.

Lemma lexeme_semi_scan s : lexr_block s = Some [] -> semi_scan false s = true.
Proof.
  unfold lexr_block. destruct (lexr_ws1 s) as [s1|] eqn:E1.
  - destruct (lexr_inline s1) as [r|] eqn:E2; [|discriminate]. intros H. inversion H as [H'].
    destruct (lexr_ws1_shape _ _ E1) as [ws [Hs Hws]]. destruct (lexr_inline_shape _ _ E2) as [body [Hs1 Hbody]].
    rewrite Hs, (semi_scan_app _ _ Hws), Hs1, (semi_scan_after_semi _ _ _ Hbody).
    apply (block_loop_semi _ _ _ H').
  - destruct (lexr_inline s) as [r|] eqn:E2; [|discriminate]. intros H. inversion H as [H'].
    destruct (lexr_inline_shape _ _ E2) as [body [Hs1 Hbody]].
    rewrite Hs1, (semi_scan_after_semi _ _ _ Hbody). apply (block_loop_semi _ _ _ H').
Qed.

Lemma forallb_map {A B} (f : A -> B) (p : B -> bool) l : forallb p (map f l) = forallb (fun x => p (f x)) l.
Proof. induction l as [|x l IH]; [reflexivity|]. cbn [map forallb]. rewrite IH. reflexivity. Qed.

Lemma block_parse_ok_iff s :
  (exists i v, block_parse SplitNl s = Ok (i, v)) <-> semi_scan false s = true.
Proof.
  unfold block_parse, block_parse_lines. cbn [block_splitlines].
  rewrite forallb_map. fold has_semi. change (fun x => has_after (split1 SEMI x)) with has_semi.
  rewrite <- (semi_scan_lines s false).
  destruct (splitlines_nl s) as [|l ls] eqn:E.
  - pose proof (is_lines_nonempty _ (splitlines_is_lines s)) as H. rewrite E in H. congruence.
  - cbn [forallb orb]. destruct (has_semi l && forallb has_semi ls); split; intros H.
    + reflexivity.
    + eexists. eexists. reflexivity.
    + destruct H as [i [v H]]. discriminate.
    + discriminate.
Qed.

Lemma block_lexeme_accepted s : lexr_block s = Some [] -> exists i v, block_parse SplitNl s = Ok (i, v).
Proof. intros H. apply block_parse_ok_iff. apply lexeme_semi_scan. exact H. Qed.

(* --- the indent read from any accepted raw text can be written back --- *)
Lemma split1_fst_ok : forall s, match splitlines_nl s with
  | l :: _ => forall a b, split1 SEMI l = (a, Some b) -> indent_codec_ok a = true
  | [] => True end.
Proof.
  induction s as [|c s IH]; cbn [splitlines_nl].
  - cbn. intros a b H. discriminate.
  - destruct (c =? NL) eqn:E.
    + cbn [split1]. apply Z.eqb_eq in E. subst c. change (NL =? SEMI) with false. cbn. intros a b H. discriminate.
    + destruct (splitlines_nl s) as [|l ls]; cbn [split1].
      * destruct (c =? SEMI); intros a b H; inversion H. reflexivity.
      * destruct (c =? SEMI) eqn:Es; intros a b H; [inversion H; reflexivity|].
        destruct (split1 SEMI l) as [a' b'] eqn:El. inversion H; subst.
        unfold indent_codec_ok. cbn [forallb]. rewrite Es, E. cbn [negb andb]. exact (IH a' b eq_refl).
Qed.
Lemma block_parse_indent_ok s i v : block_parse SplitNl s = Ok (i, v) -> indent_codec_ok i = true.
Proof.
  unfold block_parse, block_parse_lines. cbn [block_splitlines]. pose proof (split1_fst_ok s) as H.
  destruct (splitlines_nl s) as [|l ls]; [cbn; intros H0; inversion H0; reflexivity|].
  cbn [map forallb]. destruct (split1 SEMI l) as [a [b|]] eqn:El; cbn [has_after snd andb]; [|discriminate].
  destruct (forallb has_after (map (split1 SEMI) ls)); [|discriminate].
  intros H0. inversion H0; subst. exact (H i b eq_refl).
Qed.

(* --- assignment histories of a BlockComment --- *)
Definition b_coherent (t : btok) : Prop :=
  indent_codec_ok (b_indent t) = true /\ block_parse SplitNl (b_raw t) = Ok (b_indent t, b_value t).
Definition b_op_ok (o : b_op) : Prop :=
  match o with
  | BSetRaw s => exists i v, block_parse SplitNl s = Ok (i, v)
  | BSetValue _ => True
  | BSetIndent i => indent_codec_ok i = true
  end.
Lemma b_step_coherent pf t o : b_coherent t -> b_op_ok o ->
  b_coherent (fst (b_step SplitNl pf t o)) /\ snd (b_step SplitNl pf t o) = Ok tt.
Proof.
  intros [Hi Hp] Ho. destruct o as [s|v|i]; cbn [b_op_ok b_step] in *.
  - destruct Ho as [i [v Hs]]. rewrite Hs. cbn. split; [|reflexivity]. split; [|exact Hs].
    exact (block_parse_indent_ok _ _ _ Hs).
  - cbn. split; [|reflexivity]. split; [exact Hi|]. apply block_roundtrip. exact Hi.
  - cbn. split; [|reflexivity]. split; [exact Ho|]. apply block_roundtrip. exact Ho.
Qed.
Lemma b_history pf t ops : b_coherent t -> Forall b_op_ok ops -> b_coherent (b_run SplitNl pf t ops).
Proof.
  revert t. induction ops as [|o ops IH]; intros t Ht Hops; cbn [b_run]; [exact Ht|].
  inversion Hops; subst. apply IH; [|assumption]. apply b_step_coherent; assumption.
Qed.
Lemma b_from_value_coherent i v : indent_codec_ok i = true -> b_coherent (b_from_value SplitNl i v).
Proof. intros Hi. split; [exact Hi|]. cbn. apply block_roundtrip. exact Hi. Qed.
Lemma b_from_raw_text_ok s t : b_from_raw_text SplitNl s = Ok t -> b_raw t = s /\ b_coherent t.
Proof.
  unfold b_from_raw_text. destruct (block_parse SplitNl s) as [[i v]|] eqn:E; intros H; inversion H; subst.
  cbn. split; [reflexivity|]. split; [exact (block_parse_indent_ok _ _ _ E) | exact E].
Qed.
Lemma ws_indent_codec_ok i : dom_block_indent i = true -> indent_codec_ok i = true.
Proof.
  unfold dom_block_indent, indent_codec_ok. apply forallb_imp. intros c H.
  unfold is_ws, SPACE, TAB, SEMI, NL in *. lia.
Qed.

(* --- the code as found (str.splitlines) refutes both statements --- *)
Lemma block_found_refuted_lexeme :
  exists s, lexr_block s = Some [] /\ block_parse SplitPy s = Err ValueError.
Proof. exists [SEMI; SPACE; 97; 12; 98]. split; vm_compute; reflexivity. Qed.
Lemma block_found_refuted_relex :
  exists v, dom_block_value v = true /\ lexr_block (block_format SplitPy [] v) <> Some [].
Proof. exists [97; CR; CR; NL; 98]. split; [vm_compute; reflexivity | vm_compute; discriminate]. Qed.

(* ---------------------------------------------------------------------------------------------- *)
(* Date (repaired formatting: zero padded year)                                                   *)
Lemma digit_char_digit x : 0 <= x < 10 -> is_digit (digit_char x) = true.
Proof. unfold is_digit, digit_char. lia. Qed.
Lemma digit_char_not_sep x : 0 <= x < 10 -> is_datesep (digit_char x) = false.
Proof. unfold is_datesep, digit_char, DASH, SLASH. lia. Qed.
Lemma digit_val_char x : digit_val (digit_char x) = x.
Proof. unfold digit_val, digit_char. lia. Qed.

Lemma lexr_date_shape c1 c2 c3 c4 c5 c6 c7 c8 :
  is_digit c1 = true -> is_digit c2 = true -> is_digit c3 = true -> is_digit c4 = true ->
  is_digit c5 = true -> is_digit c6 = true -> is_digit c7 = true -> is_digit c8 = true ->
  lexr_date [c1; c2; c3; c4; DASH; c5; c6; DASH; c7; c8] = Some [].
Proof.
  intros H1 H2 H3 H4 H5 H6 H7 H8. unfold lexr_date. cbn [take skip]. rewrite H1, H2, H3, H4.
  change (is_digit DASH) with false. cbv iota. cbn [zlen length lexr_sep].
  change (is_datesep DASH) with true. cbv iota. change (4 <=? Z.of_nat 4) with true. cbv iota.
  cbn [lexr_d12]. rewrite H5, H6. cbn [lexr_sep]. change (is_datesep DASH) with true. cbv iota.
  cbn [lexr_d12]. rewrite H7, H8. reflexivity.
Qed.

Lemma split_datesep_digits c1 c2 c3 c4 c5 c6 c7 c8 :
  is_datesep c1 = false -> is_datesep c2 = false -> is_datesep c3 = false -> is_datesep c4 = false ->
  is_datesep c5 = false -> is_datesep c6 = false -> is_datesep c7 = false -> is_datesep c8 = false ->
  split_datesep [c1; c2; c3; c4; DASH; c5; c6; DASH; c7; c8] = [[c1; c2; c3; c4]; [c5; c6]; [c7; c8]].
Proof.
  intros H1 H2 H3 H4 H5 H6 H7 H8. cbn [split_datesep]. rewrite H1, H2, H3, H4, H5, H6, H7, H8.
  change (is_datesep DASH) with true. reflexivity.
Qed.

Lemma pad4_digits n : 0 <= n <= 9999 ->
  exists a b c d, pad4 n = [digit_char a; digit_char b; digit_char c; digit_char d] /\
    0 <= a < 10 /\ 0 <= b < 10 /\ 0 <= c < 10 /\ 0 <= d < 10 /\ n = 1000 * a + 100 * b + 10 * c + d.
Proof.
  intros Hn. exists (n / 1000 mod 10), (n / 100 mod 10), (n / 10 mod 10), (n mod 10).
  split; [reflexivity|]. repeat split; try (apply Z.mod_pos_bound; lia).
  Z.to_euclidean_division_equations. lia.
Qed.
Lemma pad2_digits n : 0 <= n <= 99 ->
  exists a b, pad2 n = [digit_char a; digit_char b] /\ 0 <= a < 10 /\ 0 <= b < 10 /\ n = 10 * a + b.
Proof.
  intros Hn. exists (n / 10 mod 10), (n mod 10).
  split; [reflexivity|]. repeat split; try (apply Z.mod_pos_bound; lia).
  Z.to_euclidean_division_equations. lia.
Qed.

Lemma valid_date_bounds y m d : valid_date (y, m, d) = true -> 1 <= y <= 9999 /\ 1 <= m <= 12 /\ 1 <= d <= 31.
Proof.
  unfold valid_date, days_in_month. intros H.
  destruct (m =? 2); [destruct (is_leap y)|]; [| |destruct ((m =? 4) || (m =? 6) || (m =? 9) || (m =? 11))]; lia.
Qed.

Lemma py_int_2 a b : 0 <= a < 10 -> 0 <= b < 10 -> py_int [digit_char a; digit_char b] = Ok (10 * a + b).
Proof.
  intros Ha Hb. unfold py_int. cbn [is_nil forallb]. rewrite !digit_char_digit by assumption.
  cbn [andb]. unfold int_of_digits. cbn [fold_left]. rewrite !digit_val_char. f_equal. lia.
Qed.
Lemma py_int_4 a b c d : 0 <= a < 10 -> 0 <= b < 10 -> 0 <= c < 10 -> 0 <= d < 10 ->
  py_int [digit_char a; digit_char b; digit_char c; digit_char d] = Ok (1000 * a + 100 * b + 10 * c + d).
Proof.
  intros Ha Hb Hc Hd. unfold py_int. cbn [is_nil forallb]. rewrite !digit_char_digit by assumption.
  cbn [andb]. unfold int_of_digits. cbn [fold_left]. rewrite !digit_val_char. f_equal. lia.
Qed.

Lemma date_format_shape y m d : valid_date (y, m, d) = true ->
  exists a b c e f g h i,
    date_format DatePadded (y, m, d) =
      [digit_char a; digit_char b; digit_char c; digit_char e; DASH; digit_char f; digit_char g; DASH;
       digit_char h; digit_char i] /\
    0 <= a < 10 /\ 0 <= b < 10 /\ 0 <= c < 10 /\ 0 <= e < 10 /\ 0 <= f < 10 /\ 0 <= g < 10 /\
    0 <= h < 10 /\ 0 <= i < 10 /\
    y = 1000 * a + 100 * b + 10 * c + e /\ m = 10 * f + g /\ d = 10 * h + i.
Proof.
  intros Hv. apply valid_date_bounds in Hv as [Hy [Hm Hd]].
  destruct (pad4_digits y) as [a [b [c [e [Py [Ha [Hb [Hc [He Ey]]]]]]]]]; [lia|].
  destruct (pad2_digits m) as [f [g [Pm [Hf [Hg Em]]]]]; [lia|].
  destruct (pad2_digits d) as [h [i [Pd [Hh [Hi Ed]]]]]; [lia|].
  exists a, b, c, e, f, g, h, i. unfold date_format. rewrite Py, Pm, Pd. cbn [app].
  repeat split; assumption || lia.
Qed.

Lemma date_roundtrip v : valid_date v = true -> date_parse (date_format DatePadded v) = Ok v.
Proof.
  destruct v as [[y m] d]. intros Hv.
  destruct (date_format_shape y m d Hv) as [a [b [c [e [f [g [h [i [E [Ha [Hb [Hc [He [Hf [Hg [Hh [Hi [Ey [Em Ed]]]]]]]]]]]]]]]]]]].
  rewrite E. unfold date_parse.
  rewrite split_datesep_digits by (apply digit_char_not_sep; assumption).
  rewrite py_int_4, !py_int_2 by assumption. rewrite <- Ey, <- Em, <- Ed, Hv. reflexivity.
Qed.
Lemma date_lexr v : valid_date v = true -> lexr_date (date_format DatePadded v) = Some [].
Proof.
  destruct v as [[y m] d]. intros Hv.
  destruct (date_format_shape y m d Hv) as [a [b [c [e [f [g [h [i [E [Ha [Hb [Hc [He [Hf [Hg [Hh [Hi _]]]]]]]]]]]]]]]]].
  rewrite E. apply lexr_date_shape; apply digit_char_digit; assumption.
Qed.
Lemma date_found_refuted : exists v, valid_date v = true /\ lexr_date (date_format DateStrftime v) = None.
Proof. exists (999, 1, 2). split; vm_compute; reflexivity. Qed.

(* ---------------------------------------------------------------------------------------------- *)
(* Tag, Link, MetaKey, Bool, Null                                                                 *)
Lemma tag_roundtrip v : tag_parse (tag_format v) = Ok v. Proof. reflexivity. Qed.
Lemma link_roundtrip v : link_parse (link_format v) = Ok v. Proof. reflexivity. Qed.
Lemma metakey_roundtrip v : metakey_parse (metakey_format v) = Ok v.
Proof. unfold metakey_parse, metakey_format, slice_m1. rewrite removelast_app_one. reflexivity. Qed.
Lemma prefixed_lexr x v : dom_tag v = true -> lexr_prefixed x (x :: v) = Some [].
Proof.
  unfold dom_tag, lexr_prefixed. intros H. apply andb_prop in H as [Hne Hall].
  rewrite Z.eqb_refl, (take_all _ _ Hall), (skip_all _ _ Hall). destruct v; [discriminate|reflexivity].
Qed.
Lemma tag_lexr v : dom_tag v = true -> lexr_tag (tag_format v) = Some [].
Proof. apply prefixed_lexr. Qed.
Lemma link_lexr v : dom_tag v = true -> lexr_link (link_format v) = Some [].
Proof. apply prefixed_lexr. Qed.
Lemma metakey_lexr v : dom_metakey v = true -> lexr_metakey (metakey_format v) = Some [].
Proof.
  unfold dom_metakey, lexr_metakey, metakey_format. destruct v as [|c r]; [discriminate|].
  intros H. apply andb_prop in H as [H Hall]. apply andb_prop in H as [Hc Hne].
  cbn [app]. rewrite Hc. rewrite (take_all_app _ _ _ _ Hall) by reflexivity.
  rewrite (skip_all_app _ _ _ Hall). destruct r; [discriminate|]. reflexivity.
Qed.
Lemma bool_roundtrip b : bool_parse (bool_format b) = Ok b. Proof. destruct b; reflexivity. Qed.
Lemma bool_lexr b : lexr_bool (bool_format b) = Some []. Proof. destruct b; reflexivity. Qed.
Lemma null_lexr : lexr_null NULL_ = Some []. Proof. reflexivity. Qed.
Lemma simple_roundtrip v : simple_parse (simple_format v) = Ok v. Proof. reflexivity. Qed.

(* ---------------------------------------------------------------------------------------------- *)
(* Number: non-negative plain-notation decimals                                                   *)
Lemma digit_is_digit_char d : (0 <=? d) && (d <=? 9) = true -> is_digit (digit_char d) = true.
Proof. unfold is_digit, digit_char. lia. Qed.
Lemma sd_all_digits ds : all_digits ds = true -> forallb is_digit (str_of_digits ds) = true.
Proof.
  unfold all_digits, str_of_digits. rewrite forallb_map. apply forallb_imp. exact digit_is_digit_char.
Qed.
Lemma digits_of_sd ds : digits_of_str (str_of_digits ds) = ds.
Proof.
  unfold digits_of_str, str_of_digits. rewrite map_map. rewrite <- (map_id ds) at 2. apply map_ext.
  exact digit_val_char.
Qed.
Lemma digits_of_str_app a b : digits_of_str (a ++ b) = digits_of_str a ++ digits_of_str b.
Proof. apply map_app. Qed.
Lemma digit_not_comma c : is_digit c = true -> negb (c =? COMMA) = true.
Proof. unfold is_digit, COMMA. lia. Qed.
Lemma remove_commas_plain s : forallb (fun c => negb (c =? COMMA)) s = true -> remove_commas s = s.
Proof.
  unfold remove_commas. induction s as [|c s IH]; [reflexivity|]. cbn [forallb filter]. intros H.
  apply andb_prop in H as [Hc Hs]. rewrite Hc, (IH Hs). reflexivity.
Qed.
Lemma comma_groups_other c r : (c =? COMMA) = false -> comma_groups (c :: r) = (c :: r, 0).
Proof. intros H. destruct r as [|d1 [|d2 [|d3 r]]]; cbn [comma_groups]; try reflexivity. rewrite H. reflexivity. Qed.

Lemma number_parse_dot ip fr : ip <> [] -> forallb is_digit ip = true -> forallb is_digit fr = true ->
  number_parse (ip ++ DOT :: fr) = Ok (0, norm_digits (digits_of_str (ip ++ fr)), - zlen fr).
Proof.
  intros Hne Hip Hfr. unfold number_parse.
  rewrite remove_commas_plain.
  2:{ apply forallb_app_true; [revert Hip; apply forallb_imp; exact digit_not_comma|].
      cbn [forallb]. change (negb (DOT =? COMMA)) with true. cbn [andb].
      revert Hfr. apply forallb_imp. exact digit_not_comma. }
  rewrite (take_all_app _ _ _ _ Hip) by reflexivity.
  rewrite (skip_all_app _ _ _ Hip), skip_stop by reflexivity.
  change (DOT =? DOT) with true. rewrite Hfr. destruct ip; [congruence|]. reflexivity.
Qed.
Lemma number_parse_int ip : ip <> [] -> forallb is_digit ip = true ->
  number_parse ip = Ok (0, norm_digits (digits_of_str ip), 0).
Proof.
  intros Hne Hip. unfold number_parse.
  rewrite remove_commas_plain by (revert Hip; apply forallb_imp; exact digit_not_comma).
  rewrite (take_all _ _ Hip), (skip_all _ _ Hip). destruct ip; [congruence|]. reflexivity.
Qed.
Lemma zlen_pos_nonempty {A} (l : list A) : l <> [] -> 0 < zlen l.
Proof. destruct l; [congruence|]. intros _. rewrite zlen_cons. pose proof (zlen_nonneg l). lia. Qed.
Lemma lexr_number_dot ip fr : ip <> [] -> forallb is_digit ip = true -> forallb is_digit fr = true ->
  lexr_number (ip ++ DOT :: fr) = Some [].
Proof.
  intros Hne Hip Hfr. unfold lexr_number.
  rewrite (take_all_app _ _ _ _ Hip) by reflexivity.
  rewrite (skip_all_app _ _ _ Hip), skip_stop by reflexivity.
  pose proof (zlen_pos_nonempty _ Hne) as Hpos.
  destruct (zlen ip =? 0) eqn:E; [lia|].
  rewrite comma_groups_other by reflexivity. rewrite andb_false_r.
  unfold lexr_frac. change (DOT =? DOT) with true. cbv iota. rewrite (skip_all _ _ Hfr). reflexivity.
Qed.
Lemma lexr_number_int ip : ip <> [] -> forallb is_digit ip = true -> lexr_number ip = Some [].
Proof.
  intros Hne Hip. unfold lexr_number. rewrite (take_all _ _ Hip), (skip_all _ _ Hip).
  pose proof (zlen_pos_nonempty _ Hne) as Hpos.
  destruct (zlen ip =? 0) eqn:E; [lia|]. cbn [comma_groups]. rewrite andb_false_r. reflexivity.
Qed.

Lemma strip_zeros_repeat k ds : strip_zeros (repeat 0 k ++ ds) = strip_zeros ds.
Proof. induction k as [|k IH]; [reflexivity|]. cbn [repeat app strip_zeros]. exact IH. Qed.
Lemma norm_canonical ds : canonical_digits ds = true -> norm_digits ds = ds.
Proof.
  unfold canonical_digits, norm_digits. intros H. apply andb_prop in H as [_ H].
  destruct ds as [|d [|d2 r]]; [discriminate| |].
  - cbn [strip_zeros]. destruct (d =? 0) eqn:E; [apply Z.eqb_eq in E; subst; reflexivity|reflexivity].
  - cbn [strip_zeros]. apply negb_true_iff in H. rewrite H. reflexivity.
Qed.
Lemma norm_zeros_canonical k ds : canonical_digits ds = true -> norm_digits (repeat 0 k ++ ds) = ds.
Proof.
  intros H. unfold norm_digits. rewrite strip_zeros_repeat. exact (norm_canonical _ H).
Qed.
Lemma sd_repeat k : str_of_digits (repeat 0 k) = repeat 48 k.
Proof. induction k as [|k IH]; [reflexivity|]. cbn [repeat str_of_digits map]. f_equal. exact IH. Qed.
Lemma sd_app a b : str_of_digits (a ++ b) = str_of_digits a ++ str_of_digits b.
Proof. apply map_app. Qed.
Lemma all_digits_repeat k : all_digits (repeat 0 k) = true.
Proof. induction k as [|k IH]; [reflexivity|]. cbn [repeat all_digits forallb]. exact IH. Qed.
Lemma zlen_sd ds : zlen (str_of_digits ds) = zlen ds.
Proof. unfold zlen, str_of_digits. rewrite map_length. reflexivity. Qed.
Lemma zlen_repeat {A} (x : A) k : zlen (repeat x k) = Z.of_nat k.
Proof. unfold zlen. rewrite repeat_length. reflexivity. Qed.

(* numeric value of a coefficient *)
Lemma fold_zeros k x : fold_left (fun a d => a * 10 + d) (repeat 0 k) x = x * 10 ^ Z.of_nat k.
Proof.
  revert x. induction k as [|k IH]; intros x; [cbn; lia|].
  cbn [repeat fold_left]. rewrite IH, Nat2Z.inj_succ, Z.pow_succ_r by lia. lia.
Qed.
Lemma coef_app_zeros ds k : coef (ds ++ repeat 0 k) = coef ds * 10 ^ Z.of_nat k.
Proof. unfold coef. rewrite fold_left_app. apply fold_zeros. Qed.
Lemma coef_strip l : coef (strip_zeros l) = coef l.
Proof.
  induction l as [|d l IH]; [reflexivity|]. cbn [strip_zeros]. destruct (d =? 0) eqn:E; [|reflexivity].
  apply Z.eqb_eq in E. subst d. rewrite IH. reflexivity.
Qed.
Lemma coef_norm l : coef (norm_digits l) = coef l.
Proof.
  unfold norm_digits. rewrite <- (coef_strip l). destruct (strip_zeros l); reflexivity.
Qed.
Lemma all_zero_coef ds : forallb (fun d => d =? 0) ds = true -> coef ds = 0.
Proof.
  intros H. rewrite <- coef_strip. replace (strip_zeros ds) with (@nil Z); [reflexivity|].
  induction ds as [|d ds IH]; [reflexivity|]. cbn [forallb] in H. apply andb_prop in H as [Hd Hs].
  cbn [strip_zeros]. rewrite Hd. exact (IH Hs).
Qed.

(* the layouts format(v, 'f') uses *)
Lemma number_format_shape ds e :
  dom_number (0, ds, e) = true ->
  (exists ip, number_format (0, ds, e) = str_of_digits ip /\ ip <> [] /\ all_digits ip = true /\ 0 <= e /\
     coef (norm_digits ip) = coef ds * 10 ^ e /\ (e = 0 -> norm_digits ip = ds)) \/
  (exists ip fr, number_format (0, ds, e) = str_of_digits ip ++ DOT :: str_of_digits fr /\
     ip <> [] /\ all_digits ip = true /\ all_digits fr = true /\
     norm_digits (ip ++ fr) = ds /\ - zlen fr = e).
Proof.
  unfold dom_number. intros H. apply andb_prop in H as [_ Hc].
  assert (Hall : all_digits ds = true) by (unfold canonical_digits in Hc; apply andb_prop in Hc as [Hc _]; exact Hc).
  assert (Hne : ds <> []).
  { unfold canonical_digits in Hc. apply andb_prop in Hc as [_ Hc]. destruct ds; [discriminate|discriminate]. }
  pose proof (zlen_pos_nonempty _ Hne) as Hn.
  unfold number_format. change (0 =? 1) with false. cbv iota. cbn [app].
  destruct ((0 <? e) && forallb (fun d => d =? 0) ds) eqn:Ez.
  { (* zero with a positive exponent *)
    apply andb_prop in Ez as [He Hz]. left. exists [0]. cbn. repeat split; try lia; try discriminate.
    rewrite (all_zero_coef _ Hz). lia. }
  destruct (e + zlen ds <? 0) eqn:E1.
  - right. exists [0], (repeat 0 (Z.to_nat (- (e + zlen ds))) ++ ds). unfold zrepeat.
    rewrite sd_app, sd_repeat. split; [reflexivity|]. split; [discriminate|]. split; [reflexivity|].
    split; [unfold all_digits; rewrite forallb_app; fold (all_digits (repeat 0 (Z.to_nat (- (e + zlen ds)))));
            rewrite all_digits_repeat; exact Hall|].
    split; [change ([0] ++ repeat 0 (Z.to_nat (- (e + zlen ds))) ++ ds)
              with (repeat 0 (S (Z.to_nat (- (e + zlen ds)))) ++ ds); apply norm_zeros_canonical; exact Hc|].
    rewrite zlen_app, zlen_repeat. lia.
  - destruct (zlen ds <? e + zlen ds) eqn:E2.
    + (* positive exponent, non-zero coefficient: digits then zeros *)
      left. exists (ds ++ repeat 0 (Z.to_nat e)). unfold zrepeat.
      replace (e + zlen ds - zlen ds) with e by lia. rewrite sd_app, sd_repeat.
      split; [reflexivity|]. split; [destruct ds; [congruence|discriminate]|].
      split; [unfold all_digits; rewrite forallb_app; fold (all_digits (repeat 0 (Z.to_nat e)));
              rewrite all_digits_repeat, andb_true_r; exact Hall|].
      split; [lia|]. split; [|lia].
      rewrite coef_norm, coef_app_zeros. rewrite Z2Nat.id by lia. reflexivity.
    + unfold zfirstn, zskipn.
      destruct (e + zlen ds =? 0) eqn:E3.
      * (* 0.digits *)
        right. exists [0], ds. replace (Z.to_nat (e + zlen ds)) with O by lia. cbn [firstn skipn is_nil].
        destruct ds as [|d0 ds']; [congruence|]. cbn [is_nil].
        split; [reflexivity|]. split; [discriminate|]. split; [reflexivity|]. split; [exact Hall|].
        split; [apply (norm_zeros_canonical 1); exact Hc|]. lia.
      * destruct (e =? 0) eqn:E4.
        -- (* integer *)
           left. exists ds. assert (e = 0) by lia. subst e.
           replace (Z.to_nat (0 + zlen ds)) with (length ds) by (unfold zlen; lia).
           rewrite firstn_all, skipn_all. destruct ds as [|d0 ds']; [congruence|]. cbn [is_nil].
           rewrite app_nil_r. split; [reflexivity|]. split; [discriminate|]. split; [exact Hall|].
           split; [lia|]. rewrite (norm_canonical _ Hc). split; [lia|reflexivity].
        -- right. exists (firstn (Z.to_nat (e + zlen ds)) ds), (skipn (Z.to_nat (e + zlen ds)) ds).
           assert (Hk : (0 < Z.to_nat (e + zlen ds) < length ds)%nat) by (unfold zlen in *; lia).
           pose proof (firstn_skipn (Z.to_nat (e + zlen ds)) ds) as Hfs.
           assert (Hf : firstn (Z.to_nat (e + zlen ds)) ds <> []).
           { intros Hnil. apply (f_equal (@length Z)) in Hnil. rewrite firstn_length in Hnil. cbn in Hnil. lia. }
           assert (Hs : skipn (Z.to_nat (e + zlen ds)) ds <> []).
           { intros Hnil. apply (f_equal (@length Z)) in Hnil. rewrite skipn_length in Hnil. cbn in Hnil. lia. }
           destruct (firstn (Z.to_nat (e + zlen ds)) ds) as [|f0 fs] eqn:Ef; [congruence|].
           destruct (skipn (Z.to_nat (e + zlen ds)) ds) as [|s0 ss] eqn:Es; [congruence|].
           cbn [is_nil]. split; [reflexivity|]. split; [discriminate|].
           unfold all_digits in *. rewrite <- Hfs, forallb_app in Hall. apply andb_prop in Hall as [Hfd Hsd].
           split; [exact Hfd|]. split; [exact Hsd|]. rewrite Hfs.
           split; [exact (norm_canonical _ Hc)|].
           assert (Hl : length (s0 :: ss) = (length ds - Z.to_nat (e + zlen ds))%nat) by (rewrite <- Es; apply skipn_length).
           unfold zlen in *. lia.
Qed.

(* what _parse_value reads back: numerically the same Decimal; the same (sign, digits, exponent) when
   the exponent is not positive *)
Lemma number_roundtrip v : dom_number v = true ->
  exists w, number_parse (number_format v) = Ok w /\ dec_eqb v w = true /\
            (dom_number_exact v = true -> w = v).
Proof.
  destruct v as [[sg ds] e]. intros H.
  assert (Hs : sg = 0) by (unfold dom_number in H; lia). subst sg.
  pose proof H as Hdom. unfold dom_number in H. apply andb_prop in H as [_ Hc].
  destruct (number_format_shape ds e Hdom) as [[ip [Hf [Hne [Hip [He [Hcoef Hex]]]]]] | [ip [fr [Hf [Hne [Hip [Hfr [Hnorm He]]]]]]]].
  - exists (0, norm_digits ip, 0). rewrite Hf. rewrite number_parse_int.
    + rewrite digits_of_sd. split; [reflexivity|]. split.
      * unfold dec_eqb. replace (Z.min e 0) with 0 by lia. rewrite Hcoef, !Z.sub_0_r.
        change (10 ^ 0) with 1. rewrite Z.mul_1_r, !Z.eqb_refl. reflexivity.
      * unfold dom_number_exact. intros Hx. assert (e = 0) by lia. subst e. rewrite (Hex eq_refl). reflexivity.
    + destruct ip; [congruence|discriminate].
    + apply sd_all_digits. exact Hip.
  - exists (0, ds, e). rewrite Hf. rewrite number_parse_dot.
    + rewrite digits_of_str_app, !digits_of_sd, Hnorm, zlen_sd, He. split; [reflexivity|]. split; [|reflexivity].
      unfold dec_eqb. rewrite !Z.eqb_refl. reflexivity.
    + destruct ip; [congruence|discriminate].
    + apply sd_all_digits. exact Hip.
    + apply sd_all_digits. exact Hfr.
Qed.
Lemma number_roundtrip_exact v : dom_number_exact v = true -> number_parse (number_format v) = Ok v.
Proof.
  intros Hx. assert (Hd : dom_number v = true).
  { destruct v as [[sg ds] e]. unfold dom_number_exact in Hx. unfold dom_number. lia. }
  destruct (number_roundtrip v Hd) as [w [Hp [_ Hw]]]. rewrite Hp, (Hw Hx). reflexivity.
Qed.
Lemma number_lexr v : dom_number v = true -> lexr_number (number_format v) = Some [].
Proof.
  destruct v as [[sg ds] e]. intros H.
  assert (Hs : sg = 0) by (unfold dom_number in H; lia). subst sg.
  destruct (number_format_shape ds e H) as [[ip [Hf [Hne [Hip _]]]] | [ip [fr [Hf [Hne [Hip [Hfr _]]]]]]].
  - rewrite Hf. apply lexr_number_int; [destruct ip; [congruence|discriminate] | apply sd_all_digits; exact Hip].
  - rewrite Hf. apply lexr_number_dot; [destruct ip; [congruence|discriminate] | |]; apply sd_all_digits; assumption.
Qed.
Lemma number_found_refuted :
  exists v, dom_number v = true /\ lexr_number (number_format_str v) <> Some [].
Proof. exists (0, [1], 3). split; [reflexivity | vm_compute; discriminate]. Qed.

(* ---------------------------------------------------------------------------------------------- *)
(* "the text is one lexeme": the recogniser's match is the whole text                             *)
Lemma len_matched_full s r : len_matched s r = Some (zlen s) <-> r = Some [].
Proof.
  split; [|intros ->; apply len_matched_nil].
  destruct r as [t|]; [|discriminate]. cbn [len_matched]. intros H. inversion H as [H'].
  destruct t; [reflexivity|]. rewrite zlen_cons in H'. pose proof (zlen_nonneg t). lia.
Qed.

(* ---------------------------------------------------------------------------------------------- *)
(* the history statement of one single-value token class                                          *)
Definition history_ok {V} (parse : str -> res V) (format : V -> str) (dom : V -> bool) : Prop :=
  (forall v, dom v = true -> coherent parse (sv_from_value format v)) /\
  forall (pf : bool) (t : tok V) (ops : list (sv_op V)),
    coherent parse t -> Forall (op_ok parse dom) ops -> coherent parse (sv_run parse format pf t ops).
Lemma history_ok_of {V} (parse : str -> res V) format dom :
  (forall v, dom v = true -> parse (format v) = Ok v) -> history_ok parse format dom.
Proof. intros H. split; [apply sv_from_value_coherent, H | intros pf; apply sv_history; exact H]. Qed.

(* ---------------------------------------------------------------------------------------------- *)
(* TransactionFlag / PostingFlag                                                                  *)
Lemma txflag_roundtrip v : dom_flag v = true -> txflag_parse (txflag_format v) = Ok v.
Proof.
  destruct v as [|c [|d r]]; try discriminate. intros _. unfold txflag_parse, txflag_format, str_eqb, TXN_.
  cbn [list_eqb]. destruct (c =? 116); reflexivity.
Qed.
Lemma pflag_lexr v : dom_flag v = true -> lexr_pflag v = Some [].
Proof. destruct v as [|c [|d r]]; try discriminate. cbn. intros ->. reflexivity. Qed.
Lemma txflag_lexr v : dom_flag v = true -> lexr_txflag (txflag_format v) = Some [].
Proof.
  destruct v as [|c [|d r]]; try discriminate. cbn [dom_flag]. intros H. unfold lexr_txflag, txflag_format.
  assert (E : strip_prefix TXN_ [c] = None). { cbn. destruct (c =? 116); reflexivity. }
  rewrite E. cbn. rewrite H. reflexivity.
Qed.
Lemma txflag_txn : txflag_parse TXN_ = Ok [42] /\ lexr_txflag TXN_ = Some [] /\ dom_flag TXN_ = false.
Proof. repeat split. Qed.

(* ---------------------------------------------------------------------------------------------- *)
(* Account                                                                                        *)
Lemma body_not_colon c : is_acct_body c = true -> (c =? COLON) = false.
Proof. unfold is_acct_body, is_upper, is_lower, is_digit, is_nonascii, DASH, COLON. lia. Qed.
Lemma acct_groups_names names : forallb acct_name_ok names = true ->
  forall fuel, (length names <= fuel)%nat ->
  acct_groups fuel (concat (map (cons COLON) names)) = ([], Z.of_nat (length names)).
Proof.
  induction names as [|nm names IH]; intros Hok fuel Hfuel.
  - destruct fuel; reflexivity.
  - cbn [forallb] in Hok. apply andb_prop in Hok as [Hnm Hrest].
    destruct fuel as [|fuel]; [cbn [length] in Hfuel; lia|].
    destruct nm as [|d body]; [discriminate|]. cbn [acct_name_ok] in Hnm. apply andb_prop in Hnm as [Hd Hbody].
    cbn [map concat app acct_groups]. change (COLON =? COLON) with true. rewrite Hd. cbn [andb].
    assert (Hskip : skip is_acct_body (body ++ concat (map (cons COLON) names)) = concat (map (cons COLON) names)).
    { rewrite (skip_all_app _ _ _ Hbody). destruct names as [|n2 names']; [reflexivity|].
      cbn [map concat app]. apply skip_stop. reflexivity. }
    rewrite Hskip, (IH Hrest fuel) by (cbn [length] in Hfuel; lia).
    f_equal. cbn [length]. lia.
Qed.
Lemma account_lexr t names :
  acct_type_ok t = true -> names <> [] -> forallb acct_name_ok names = true ->
  lexr_account (account_of t names) = Some [].
Proof.
  intros Ht Hne Hok. destruct t as [|c body]; [discriminate|]. cbn [acct_type_ok] in Ht.
  apply andb_prop in Ht as [Hc Hbody]. unfold account_of, lexr_account. cbn [app]. rewrite Hc.
  assert (Hskip : skip is_acct_body (body ++ concat (map (cons COLON) names)) = concat (map (cons COLON) names)).
  { rewrite (skip_all_app _ _ _ Hbody). destruct names as [|n2 names']; [congruence|].
    cbn [map concat app]. apply skip_stop. reflexivity. }
  rewrite Hskip, (acct_groups_names _ Hok).
  - destruct names; [congruence|]. cbn [length]. destruct (1 <=? Z.of_nat (S (length names))) eqn:E; [reflexivity|lia].
  - rewrite app_length. assert (H : (length names <= length (concat (map (cons COLON) names)))%nat).
    { clear. induction names as [|n names IH]; [apply Nat.le_refl|]. cbn [map concat]. rewrite app_length. cbn [length]. lia. }
    lia.
Qed.

(* ---------------------------------------------------------------------------------------------- *)
(* Currency                                                                                       *)
Lemma rstrip_last_kept p r : last_ok (fun x => negb (p x)) r = true -> rstrip p r = r.
Proof.
  induction r as [|c r IH]; [discriminate|]. destruct r as [|d r'].
  - cbn. intros H. apply negb_true_iff in H. rewrite H. reflexivity.
  - intros H. change (last_ok (fun x => negb (p x)) (c :: d :: r')) with (last_ok (fun x => negb (p x)) (d :: r')) in H.
    change (rstrip p (c :: d :: r')) with (match rstrip p (d :: r') with [] => if p c then [] else [c] | t => c :: t end).
    rewrite (IH H). reflexivity.
Qed.
Lemma last_ok_ext q q' r : (forall x, q x = q' x) -> last_ok q r = last_ok q' r.
Proof.
  intros H. induction r as [|c r IH]; [reflexivity|]. destruct r; [apply H|]. exact IH.
Qed.
Lemma currency_lexr v : dom_currency v = true -> lexr_currency v = Some [].
Proof.
  destruct v as [|c r]; [discriminate|]. cbn [dom_currency]. intros H.
  apply andb_prop in H as [H Hstart]. apply andb_prop in H as [Hbody Hlast].
  unfold lexr_currency. rewrite (take_all _ _ Hbody).
  assert (Hr : rstrip (fun x => negb (is_cur_end x)) r = r).
  { apply rstrip_last_kept. rewrite <- Hlast. apply last_ok_ext. intros x. apply negb_involutive. }
  rewrite Hr. rewrite skipn_all.
  destruct (c =? SLASH) eqn:Es.
  - assert (Hu : is_upper c = false) by (apply Z.eqb_eq in Es; subst c; reflexivity).
    rewrite Hu in Hstart. cbn [orb andb] in Hstart. rewrite Hstart. reflexivity.
  - cbn [andb] in Hstart. rewrite orb_false_r in Hstart. rewrite Hstart.
    destruct r; [discriminate|]. reflexivity.
Qed.

(* ---------------------------------------------------------------------------------------------- *)
(* every lexeme is accepted by _parse_value                                                       *)
Lemma strip_prefix_full p s : strip_prefix p s = Some [] -> s = p.
Proof.
  revert s. induction p as [|x p IH]; intros s; cbn [strip_prefix]; [intros H; inversion H; reflexivity|].
  destruct s as [|c r]; [discriminate|]. destruct (c =? x) eqn:E; [|discriminate].
  apply Z.eqb_eq in E. subst c. intros H. rewrite (IH _ H). reflexivity.
Qed.
Lemma bool_lexeme_accepted s : lexr_bool s = Some [] -> exists b, bool_parse s = Ok b /\ bool_format b = s.
Proof.
  unfold lexr_bool. destruct (strip_prefix FALSE_ s) as [r|] eqn:E.
  - intros H. inversion H; subst r. apply strip_prefix_full in E. subst s. exists false. split; reflexivity.
  - intros H. apply strip_prefix_full in H. subst s. exists true. split; reflexivity.
Qed.
Lemma null_lexeme s : lexr_null s = Some [] -> s = NULL_.
Proof. apply strip_prefix_full. Qed.
Lemma txflag_lexeme_accepted s : lexr_txflag s = Some [] ->
  exists v, txflag_parse s = Ok v /\ dom_flag v = true.
Proof.
  unfold lexr_txflag. destruct (strip_prefix TXN_ s) as [r|] eqn:E.
  - intros H. inversion H; subst r. apply strip_prefix_full in E. subst s. exists [42]. split; reflexivity.
  - unfold lexr_pflag. destruct s as [|c r]; [discriminate|]. destruct (is_flagchar c) eqn:Ec; [|discriminate].
    intros H. inversion H; subst r. exists [c]. split; [|exact Ec].
    unfold txflag_parse. destruct (str_eqb [c] TXN_) eqn:Eq; [|reflexivity].
    cbn in Eq. rewrite andb_false_r in Eq. discriminate.
Qed.

(* Number *)
Lemma take_skip p s : s = take p s ++ skip p s.
Proof. induction s as [|c s IH]; [reflexivity|]. cbn [take skip]. destruct (p c); [cbn [app]; f_equal; exact IH|reflexivity]. Qed.
Lemma take_forall p s : forallb p (take p s) = true.
Proof. induction s as [|c s IH]; [reflexivity|]. cbn [take]. destruct (p c) eqn:E; [cbn [forallb]; rewrite E; exact IH|reflexivity]. Qed.
Lemma remove_commas_app a b : remove_commas (a ++ b) = remove_commas a ++ remove_commas b.
Proof. apply filter_app. Qed.
Lemma remove_commas_idem s : remove_commas (remove_commas s) = remove_commas s.
Proof.
  unfold remove_commas. induction s as [|c s IH]; [reflexivity|]. cbn [filter].
  destruct (negb (c =? COMMA)) eqn:E; [cbn [filter]; rewrite E, IH; reflexivity|exact IH].
Qed.
Lemma number_parse_commas s : number_parse s = number_parse (remove_commas s).
Proof. unfold number_parse. rewrite remove_commas_idem. reflexivity. Qed.
(* the consumed comma groups are digits once the commas are removed *)
Lemma comma_groups_shape : forall n s, (length s <= n)%nat ->
  exists g, s = g ++ fst (comma_groups s) /\ forallb is_digit (remove_commas g) = true /\
            (1 <= snd (comma_groups s) -> g <> []).
Proof.
  induction n as [|n IH]; intros s Hn.
  - destruct s; [|cbn in Hn; lia]. exists []. repeat split. cbn. lia.
  - destruct s as [|c [|d1 [|d2 [|d3 r]]]]; try (exists []; repeat split; cbn; lia).
    cbn [comma_groups].
    destruct ((c =? COMMA) && is_digit d1 && is_digit d2 && is_digit d3) eqn:E;
      [|exists []; repeat split; cbn; lia].
    apply andb_prop in E as [E H3]. apply andb_prop in E as [E H2]. apply andb_prop in E as [Hc H1].
    destruct (IH r) as [g [Hg [Hd _]]]; [cbn [length] in Hn; lia|].
    destruct (comma_groups r) as [t k] eqn:Er. cbn [fst snd] in *.
    exists (c :: d1 :: d2 :: d3 :: g). split; [cbn [app]; rewrite <- Hg; reflexivity|]. split; [|discriminate].
    unfold remove_commas in *. cbn [filter]. rewrite Hc. cbn [negb].
    rewrite (digit_not_comma _ H1), (digit_not_comma _ H2), (digit_not_comma _ H3). cbn [forallb].
    rewrite H1, H2, H3. exact Hd.
Qed.
Lemma lexr_frac_nil t : lexr_frac t = [] -> t = [] \/ exists fr, t = DOT :: fr /\ forallb is_digit fr = true.
Proof.
  unfold lexr_frac. destruct t as [|c r]; [left; reflexivity|]. destruct (c =? DOT) eqn:E; [|discriminate].
  intros H. right. exists r. apply Z.eqb_eq in E. subst c. split; [reflexivity|].
  destruct (skip_prefix is_digit r) as [pre [H1 H2]]. rewrite H, app_nil_r in H1. subst r. exact H2.
Qed.
Lemma number_parse_clean ip t : ip <> [] -> forallb is_digit ip = true ->
  (t = [] \/ exists fr, t = DOT :: fr /\ forallb is_digit fr = true) ->
  exists v, number_parse (ip ++ t) = Ok v.
Proof.
  intros Hne Hip [Ht | [fr [Ht Hfr]]]; subst t.
  - rewrite app_nil_r. eexists. apply number_parse_int; assumption.
  - eexists. apply number_parse_dot; assumption.
Qed.
Lemma number_lexeme_accepted s : lexr_number s = Some [] -> exists v, number_parse s = Ok v.
Proof.
  unfold lexr_number. pose proof (take_skip is_digit s) as Hs. pose proof (take_forall is_digit s) as Hd.
  destruct (zlen (take is_digit s) =? 0) eqn:E0; [discriminate|].
  assert (Hne : take is_digit s <> []) by (intros H; rewrite H in E0; discriminate).
  destruct (comma_groups_shape (length (skip is_digit s)) (skip is_digit s) (Nat.le_refl _)) as [g [Hg [Hgd Hk]]].
  destruct (comma_groups (skip is_digit s)) as [t k] eqn:Ec. cbn [fst snd] in *.
  destruct ((zlen (take is_digit s) <=? 3) && (1 <=? k)) eqn:EA; intros H; inversion H as [H'].
  - rewrite number_parse_commas, Hs, Hg, !remove_commas_app.
    assert (Ht := lexr_frac_nil _ H').
    assert (Hrt : remove_commas t = t).
    { destruct Ht as [-> | [fr [-> Hfr]]]; [reflexivity|]. apply remove_commas_plain. cbn [forallb].
      change (negb (DOT =? COMMA)) with true. cbn [andb]. revert Hfr. apply forallb_imp. exact digit_not_comma. }
    rewrite Hrt, (remove_commas_plain (take is_digit s)) by (revert Hd; apply forallb_imp; exact digit_not_comma).
    rewrite app_assoc. apply number_parse_clean; [|apply forallb_app_true; assumption|exact Ht].
    destruct (take is_digit s); [congruence|discriminate].
  - rewrite Hs. apply number_parse_clean; [exact Hne | exact Hd | exact (lexr_frac_nil _ H')].
Qed.

(* Date: a DATE lexeme is three digit fields; it is accepted exactly when they form a calendar date *)
Lemma digit_not_datesep c : is_digit c = true -> is_datesep c = false.
Proof. unfold is_digit, is_datesep, DASH, SLASH. lia. Qed.
Lemma split_datesep_digits_only a : forallb is_digit a = true -> split_datesep a = [a].
Proof.
  induction a as [|c a IH]; [reflexivity|]. cbn [forallb split_datesep]. intros H.
  apply andb_prop in H as [Hc Ha]. rewrite (digit_not_datesep _ Hc), (IH Ha). reflexivity.
Qed.
Lemma split_datesep_field a c b : forallb is_digit a = true -> is_datesep c = true ->
  split_datesep (a ++ c :: b) = a :: split_datesep b.
Proof.
  induction a as [|x a IH]; cbn [forallb app split_datesep]; intros Ha Hc; [rewrite Hc; reflexivity|].
  apply andb_prop in Ha as [Hx Ha]. rewrite (digit_not_datesep _ Hx), (IH Ha Hc). reflexivity.
Qed.
Lemma lexr_d12_shape s t : lexr_d12 s = Some t ->
  exists M, s = M ++ t /\ M <> [] /\ forallb is_digit M = true.
Proof.
  unfold lexr_d12. destruct s as [|c r]; [discriminate|]. destruct (is_digit c) eqn:Ec; [|discriminate].
  destruct r as [|d r'].
  - intros H. inversion H. exists [c]. cbn. rewrite Ec. repeat split. discriminate.
  - destruct (is_digit d) eqn:Ed; intros H; inversion H.
    + exists [c; d]. cbn. rewrite Ec, Ed. repeat split. discriminate.
    + exists [c]. cbn. rewrite Ec. repeat split. discriminate.
Qed.
Lemma lexr_sep_shape s t : lexr_sep s = Some t -> exists c, s = c :: t /\ is_datesep c = true.
Proof.
  unfold lexr_sep. destruct s as [|c r]; [discriminate|]. destruct (is_datesep c) eqn:E; [|discriminate].
  intros H. inversion H. exists c. split; [reflexivity|exact E].
Qed.
Lemma py_int_digits a : a <> [] -> forallb is_digit a = true -> py_int a = Ok (int_of_digits a).
Proof. intros Hne Ha. unfold py_int. destruct a; [congruence|]. cbn [is_nil]. rewrite Ha. reflexivity. Qed.
Lemma date_lexeme_accepted s : lexr_date s = Some [] ->
  exists a b c c1 c2, s = a ++ c1 :: b ++ c2 :: c /\
    date_parse s = let v := (int_of_digits a, int_of_digits b, int_of_digits c) in
                   if valid_date v then Ok v else Err ValueError.
Proof.
  unfold lexr_date. pose proof (take_skip is_digit s) as Hs. pose proof (take_forall is_digit s) as Hy.
  destruct (4 <=? zlen (take is_digit s)) eqn:E4; [|discriminate].
  destruct (lexr_sep (skip is_digit s)) as [s1|] eqn:E1; [|discriminate].
  destruct (lexr_d12 s1) as [s2|] eqn:E2; [|discriminate].
  destruct (lexr_sep s2) as [s3|] eqn:E3; [|discriminate].
  intros E5.
  destruct (lexr_sep_shape _ _ E1) as [c1 [H1 Hc1]]. destruct (lexr_d12_shape _ _ E2) as [M [H2 [HMne HM]]].
  destruct (lexr_sep_shape _ _ E3) as [c2 [H3 Hc2]]. destruct (lexr_d12_shape _ _ E5) as [D [H4 [HDne HD]]].
  rewrite app_nil_r in H4. subst s3 s2 s1.
  assert (HYne : take is_digit s <> []) by (intros H; rewrite H in E4; discriminate).
  exists (take is_digit s), M, D, c1, c2. rewrite H1 in Hs. split; [exact Hs|].
  unfold date_parse. rewrite Hs at 1.
  rewrite (split_datesep_field _ _ _ Hy Hc1), (split_datesep_field _ _ _ HM Hc2), (split_datesep_digits_only _ HD).
  rewrite (py_int_digits _ HYne Hy), (py_int_digits _ HMne HM), (py_int_digits _ HDne HD). reflexivity.
Qed.

(* Number histories with any exponent: the raw text parses to a numerically equal Decimal *)
Lemma dec_eqb_refl v : dec_eqb v v = true.
Proof. destruct v as [[s d] e]. unfold dec_eqb. rewrite !Z.eqb_refl. reflexivity. Qed.
Definition num_coherent (t : tok decimal) : Prop :=
  exists w, number_parse (t_raw t) = Ok w /\ dec_eqb (t_val t) w = true.
Lemma number_history_numeric pf t ops :
  num_coherent t -> Forall (op_ok number_parse dom_number) ops ->
  num_coherent (sv_run number_parse number_format pf t ops).
Proof.
  revert t. induction ops as [|o ops IH]; intros t Ht Hops; cbn [sv_run]; [exact Ht|].
  inversion Hops as [|o' ops' Ho Hrest]; subst. apply IH; [|exact Hrest].
  destruct o as [s|v]; cbn [op_ok sv_step] in *.
  - destruct Ho as [v Hv]. rewrite Hv. cbn [fst]. exists v. cbn. split; [exact Hv | apply dec_eqb_refl].
  - cbn [fst]. destruct (number_roundtrip v Ho) as [w [Hp [He _]]]. exists w. cbn. split; assumption.
Qed.
Lemma number_from_value_numeric v : dom_number v = true -> num_coherent (sv_from_value number_format v).
Proof. intros H. destruct (number_roundtrip v H) as [w [Hp [He _]]]. exists w. cbn. split; assumption. Qed.
